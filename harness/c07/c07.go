// Package c07: every sort of /repo/sort and /repo/radixsort against "sorted permutation" /
// "native order" oracles, one slice per op line.
package c07

import (
	"encoding/hex"
	"fmt"
	"math"
	"math/rand"
	"slices"
	gosort "sort"
	"strconv"
	"strings"
	"time"

	"github.com/moorara/algo/generic"
	"github.com/moorara/algo/radixsort"
	"github.com/moorara/algo/sort"

	"verifharness/hx"
)

const Rule = "one op = one slice handed to one sort. Comparison sorts get key:id elements and a comparator on the " +
	"key only (asc, desc, the non-injective preorder key%3, and the un-normalised results a-b, 7*(a-b), b-a, 7*(b-a), 5*(a%3-b%3)), so a wrong permutation or a lost/duplicated element " +
	"is visible; radix sorts get 64-bit words (every byte position and both signs) or byte strings over " +
	"{00,61,62,7f,80,fe,ff} with shared prefixes. non-trivial = some op of the case had >= 2 elements not already in " +
	"order and, for MSD / 3-way radix sorts, more than CUTOFF+1 = 16 elements in the range (a counting or " +
	"partitioning pass ran); distinct = distinct (header, op list). Threshold sweeps (gsort / gselect / gshuffle / glsdstring: the op " +
	"carries length, value mix and seed, harness and Lean driver expand it with the same splitmix64 generator and print a digest of the " +
	"result): every sort, Select (k = 0, n-1, n/2, 63, 64, 255, 256 and just outside the range) and Shuffle at 0, 1, 2, 63-65, 255-257, " +
	"1023-1025 and 65536 + one of 65535/65537/70000 elements (thorough: all four, every mix); mixes: all equal, ascending, descending, three " +
	"keys, random, sawtooth, organ pipe, magnitudes up to 2^61 (elements) / every bit pattern, extremes and powers of two, -20..20, one " +
	"16-bit window varying, only the top 16 bits varying (words) / common prefixes of 0, 1, 2, 63-65, 255-257, 300 bytes of 00 / ff / 'a' " +
	"with short tails, chains of prefixes, all equal (strings; LSDString: width w at those sizes). Code paths that are quadratic in Go " +
	"itself (Selection; Insertion on unsorted input; the unshuffled quick sorts on sorted input) stop at 1025 (thorough 4097) elements. " +
	"Oracle only (hx NoModel, counted in oracle_only_cases): Quick / Select on sorted inputs above 4097 elements (their Models run without " +
	"the shuffle and are quadratic there) - judged by 'sorted by the comparator AND a permutation of the input' / 'an element of rank k'. " +
	"Merge / MergeRec: the driver runs the Model with an in-place copy of the merged range (proved equal: C07_driver_merge_is_model_merge). sub / alias: a sort handed a window a[lo:hi] of a larger backing array, then a " +
	"second, overlapping window of the same array (elements outside a window must stay, the window must be the sorted permutation of what it " +
	"held); `sort <algo>` without elements also sorts the nil slice. Header ty=struct|ptr|slice|string: the comparison sorts and Select " +
	"instantiated with struct{string; elem; []int} (comparator on one field), *elem, []int{key,id} and a fixed-width string (cmp=lex: " +
	"slices.Compare / strings.Compare on the carrier); every slice length 0..200 for every sort, Select, Shuffle, LSDString; hx Huge " +
	"(thorough tier / witness search / enlarged budget): 2^17, 2^17+1 and 2^20 elements for the radix sorts (every bit pattern, top 16 " +
	"bits, extremes), the n log n comparison sorts, Select, Shuffle and the string sorts (oracle only)"

type elem struct{ k, id int }

func sgn(a, b int) int {
	if a < b {
		return -1
	}
	if a > b {
		return 1
	}
	return 0
}

// splitTy: Exec hands runOp "<cmp>@<ty>": the comparator name and the Go element type the generic sorts are
// instantiated with (header ty=; "" = the elem struct itself).
func splitTy(name string) (cmp, ty string) {
	if i := strings.IndexByte(name, '@'); i >= 0 {
		return name[:i], name[i+1:]
	}
	return name, ""
}

func cls(name string, k int) int {
	name, _ = splitTy(name)
	if name == "mod3" || name == "mod3x5" {
		return k % 3
	}
	return k
}

func cmpOf(name string) generic.CompareFunc[elem] {
	name, _ = splitTy(name)
	switch name {
	case "lex": // key, then id
		return func(a, b elem) int {
			if a.k != b.k {
				return sgn(a.k, b.k)
			}
			return sgn(a.id, b.id)
		}
	case "desc":
		return func(a, b elem) int { return sgn(b.k, a.k) }
	case "mod3":
		return func(a, b elem) int { return sgn(a.k%3, b.k%3) }
	// comparators whose results are NOT normalised to -1/0/+1 (only the sign is meaningful)
	case "diff":
		return func(a, b elem) int { return a.k - b.k }
	case "diff7":
		return func(a, b elem) int { return 7 * (a.k - b.k) }
	case "rdiff":
		return func(a, b elem) int { return b.k - a.k }
	case "rdiff7":
		return func(a, b elem) int { return 7 * (b.k - a.k) }
	case "mod3x5":
		return func(a, b elem) int { return (a.k%3 - b.k%3) * 5 }
	}
	return func(a, b elem) int { return sgn(a.k, b.k) }
}

func parseElems(ws []string) ([]elem, bool) {
	out := make([]elem, 0, len(ws))
	for _, w := range ws {
		p := strings.SplitN(w, ":", 2)
		if len(p) != 2 {
			return nil, false
		}
		k, e1 := strconv.Atoi(p[0])
		id, e2 := strconv.Atoi(p[1])
		if e1 != nil || e2 != nil {
			return nil, false
		}
		out = append(out, elem{k, id})
	}
	return out, true
}

func showElems(prefix string, a []elem) string {
	var b strings.Builder
	b.WriteString(prefix)
	for _, e := range a {
		b.WriteByte(' ')
		b.WriteString(strconv.Itoa(e.k))
		b.WriteByte(':')
		b.WriteString(strconv.Itoa(e.id))
	}
	return b.String()
}

func elemLess(a, b elem) bool { return a.k < b.k || (a.k == b.k && a.id < b.id) }

// canonRuns sorts every maximal run of adjacent cmp-equal elements by (key, id).
func canonRuns(cmp generic.CompareFunc[elem], a []elem) []elem {
	out := append([]elem{}, a...)
	i := 0
	for i < len(out) {
		j := i + 1
		for j < len(out) && cmp(out[j-1], out[j]) == 0 {
			j++
		}
		run := out[i:j]
		gosort.SliceStable(run, func(x, y int) bool { return elemLess(run[x], run[y]) })
		i = j
	}
	return out
}

// ---- oracles (independent of the code under test)

func sameMultiset[T comparable](a, b []T) bool {
	if len(a) != len(b) {
		return false
	}
	m := map[T]int{}
	for _, x := range a {
		m[x]++
	}
	for _, x := range b {
		m[x]--
		if m[x] < 0 {
			return false
		}
	}
	return true
}

func sortedBy[T any](a []T, cmp func(T, T) int) bool {
	for i := 1; i < len(a); i++ {
		if cmp(a[i-1], a[i]) > 0 {
			return false
		}
	}
	return true
}

func eqSlices[T comparable](a, b []T) bool {
	if len(a) != len(b) {
		return false
	}
	for i := range a {
		if a[i] != b[i] {
			return false
		}
	}
	return true
}

// ---- scripted math/rand source: r.Intn(n) returns the scripted value c whenever 0 <= c < n < 2^31

type scripted struct {
	vals []int
	i    int
}

func (s *scripted) Int63() int64 {
	if s.i >= len(s.vals) {
		s.i++
		return 0
	}
	v := s.vals[s.i]
	s.i++
	return int64(v) << 32
}
func (s *scripted) Seed(int64) {}

func scriptedOK(n int, cs []int) bool {
	if len(cs) != n {
		return false
	}
	tw := rand.New(&scripted{vals: cs})
	for i := 0; i < n; i++ {
		if cs[i] < 0 || cs[i] >= n-i || tw.Intn(n-i) != cs[i] {
			return false
		}
	}
	return true
}

// ---- strings / words

func parseStrs(ws []string) ([]string, bool) {
	out := make([]string, 0, len(ws))
	for _, w := range ws {
		if !strings.HasPrefix(w, "x") {
			return nil, false
		}
		b, err := hex.DecodeString(w[1:])
		if err != nil {
			return nil, false
		}
		out = append(out, string(b))
	}
	return out, true
}

func showStrs(a []string) string {
	var b strings.Builder
	b.WriteString("ok")
	for _, s := range a {
		b.WriteString(" x")
		b.WriteString(hex.EncodeToString([]byte(s)))
	}
	return b.String()
}

func parseInts(ws []string) ([]int, bool) {
	out := make([]int, 0, len(ws))
	for _, w := range ws {
		v, err := strconv.ParseInt(w, 10, 64)
		if err != nil {
			return nil, false
		}
		out = append(out, int(v))
	}
	return out, true
}

func parseUints(ws []string) ([]uint, bool) {
	out := make([]uint, 0, len(ws))
	for _, w := range ws {
		v, err := strconv.ParseUint(w, 10, 64)
		if err != nil {
			return nil, false
		}
		out = append(out, uint(v))
	}
	return out, true
}

func showInts(a []int) string {
	var b strings.Builder
	b.WriteString("ok")
	for _, v := range a {
		b.WriteByte(' ')
		b.WriteString(strconv.FormatInt(int64(v), 10))
	}
	return b.String()
}

func showUints(a []uint) string {
	var b strings.Builder
	b.WriteString("ok")
	for _, v := range a {
		b.WriteByte(' ')
		b.WriteString(strconv.FormatUint(uint64(v), 10))
	}
	return b.String()
}

type opResult struct {
	out        string
	bad        string // "" = admitted by the oracle
	nontrivial bool
	tags       []string
}

func inversions[T any](a []T, cmp func(T, T) int) bool { return !sortedBy(a, cmp) }

func cmpOrd[T int | uint | string](a, b T) int {
	if a < b {
		return -1
	}
	if a > b {
		return 1
	}
	return 0
}

// checkRange: the range [lo,hi] of `after` is a permutation of the same range of `before`, everything
// outside is untouched, and (when mustSort) the range is in native order.
func checkRange[T int | uint | string](before, after []T, lo, hi int, mustSort bool) string {
	if len(before) != len(after) {
		return "length changed"
	}
	for i := range before {
		if (i < lo || i > hi) && before[i] != after[i] {
			return fmt.Sprintf("element %d outside [%d,%d] changed", i, lo, hi)
		}
	}
	if hi >= lo {
		if !sameMultiset(before[lo:hi+1], after[lo:hi+1]) {
			return "range is not a permutation of the input range"
		}
		if mustSort && !sortedBy(after[lo:hi+1], cmpOrd[T]) {
			return "range is not in native order"
		}
	}
	return ""
}

func sharePrefixStr(a []string, lo, hi, d int) bool {
	for i := lo; i <= hi; i++ {
		if len(a[i]) < d || a[i][:d] != a[lo][:d] {
			return false
		}
	}
	return true
}

func shareTopBytes(a []uint64, lo, hi, d int) bool {
	if d <= 0 {
		return true
	}
	if d >= 8 {
		d = 8
	}
	sh := uint(64 - 8*d)
	for i := lo; i <= hi; i++ {
		if a[i]>>sh != a[lo]>>sh {
			return false
		}
	}
	return true
}

// ---------------------------------------------------------------- generated inputs (threshold sweeps)
//
// A slice of 65 536 elements is several megabytes as text. The sweep ops therefore carry a *description* of the input
// (length, value mix, seed) that the harness and the Lean driver expand with the same generator (splitmix64 below),
// and print a digest of the result: `ok n=<len> h=<fnv-1a over the 64-bit words of the result>`.

type sm64 struct{ s uint64 }

func (g *sm64) next() uint64 {
	g.s += 0x9E3779B97F4A7C15
	z := g.s
	z = (z ^ (z >> 30)) * 0xBF58476D1CE4E5B9
	z = (z ^ (z >> 27)) * 0x94D049BB133111EB
	return z ^ (z >> 31)
}

// genElems: key:id elements, id = index. Two words are drawn first, one per element then (whatever the mix).
func genElems(n int, mix string, seed uint64) ([]elem, bool) {
	g := &sm64{seed}
	g.next()
	g.next()
	out := make([]elem, n)
	for i := range out {
		rnd := g.next()
		var k int
		switch mix {
		case "eq":
			k = 7
		case "asc":
			k = i
		case "desc":
			k = n - i
		case "few":
			k = int(rnd % 3)
		case "rand":
			k = int(rnd%uint64(2*n+1)) - n
		case "saw":
			k = i % 17
		case "organ":
			k = min(i, n-1-i)
		case "big": // magnitudes up to 2^61, both signs
			k = int(int64(rnd) >> 2)
		default:
			return nil, false
		}
		out[i] = elem{k, i}
	}
	return out, true
}

var genSpecials = []uint64{0, 1, 1<<63 - 1, 1 << 63, 1<<64 - 1, 1<<63 + 1, 1<<64 - 2, 1 << 55, 1<<55 - 1, 1 << 56, 1 << 48, 1 << 16, 1<<16 - 1,
	255, 256, 1 << 32, 1<<63 + 1<<55}

// genWords: 64-bit patterns; signed: the sorted mixes ascend / descend in the int order.
func genWords(n int, mix string, seed uint64, signed bool) ([]uint64, bool) {
	g := &sm64{seed}
	c0, c1 := g.next(), g.next()
	out := make([]uint64, n)
	step := ^uint64(0) / uint64(max(n, 1))
	var flip uint64
	if signed {
		flip = 1 << 63
	}
	for i := range out {
		rnd := g.next()
		var v uint64
		switch mix {
		case "eq":
			v = c0
		case "asc":
			v = (uint64(i) * step) ^ flip
		case "desc":
			v = (uint64(n-1-i) * step) ^ flip
		case "full": // every bit pattern: both signs, magnitudes up to 2^63-1 / 2^64-1
			v = rnd
		case "ext": // extremes and powers of two, many duplicates
			v = genSpecials[rnd%uint64(len(genSpecials))]
		case "small": // -20 … 20
			v = rnd%41 - 20
		case "dig": // one 16-bit window (any bit offset) varies, everything else is fixed
			sh := c1 % 49
			v = (c0 &^ (0xffff << sh)) | ((rnd & 0xffff) << sh)
		case "hi": // only the 16 most significant bits vary
			v = rnd<<48 | (c0 & 0xffff)
		default:
			return nil, false
		}
		out[i] = v
	}
	return out, true
}

var genAlpha = []byte{0x00, 0x61, 0x62, 0xfe, 0xff}

// genStrs: byte strings sharing a prefix of up to L bytes (mostly one of 0x00 / 0xff / 'a', so that the recursion on
// equal characters goes L deep), with tails of 0-3 bytes over {00,61,62,fe,ff}.
func genStrs(n int, mix string, seed uint64, L int) ([]string, bool) {
	g := &sm64{seed}
	c0, c1 := g.next(), g.next()
	fill := []byte{0x00, 0xff, 0x61}[c0%3]
	P := make([]byte, L)
	for j := range P {
		P[j] = fill
		if (c1>>(uint(j)%64))&1 == 1 {
			P[j] = genAlpha[j%5]
		}
	}
	tail := func(rnd uint64, t int) []byte {
		b := make([]byte, t)
		for k := range b {
			b[k] = genAlpha[(rnd>>(8*uint(k+1)))%5]
		}
		return b
	}
	out := make([]string, n)
	for i := range out {
		rnd := g.next()
		var b []byte
		switch mix {
		case "eq":
			b = P
		case "pre":
			b = append(append([]byte{}, P...), tail(rnd, int(rnd%4))...)
		case "chain": // prefixes of each other, lengths 0 … L
			b = P[:rnd%uint64(L+1)]
		case "rand":
			b = tail(rnd, int(rnd%5))
		case "fix": // exactly L bytes
			t := min(L, 3)
			b = append(append([]byte{}, P[:L-t]...), tail(rnd, t)...)
		case "fixlong": // L bytes and up to 2 more
			t := min(L, 3)
			b = append(append(append([]byte{}, P[:L-t]...), tail(rnd, t)...), tail(rnd>>32, int(rnd%3))...)
		default:
			return nil, false
		}
		out[i] = string(b)
	}
	return out, true
}

const fnvOffset, fnvPrime = 0xcbf29ce484222325, 0x100000001b3

func digestElems(a []elem) uint64 {
	h := uint64(fnvOffset)
	for _, e := range a {
		h = (h ^ uint64(e.k)) * fnvPrime
		h = (h ^ uint64(e.id)) * fnvPrime
	}
	return h
}

func digestWords[T int | uint](a []T) uint64 {
	h := uint64(fnvOffset)
	for _, v := range a {
		h = (h ^ uint64(v)) * fnvPrime
	}
	return h
}

func digestStrs(a []string) uint64 {
	h := uint64(fnvOffset)
	for _, s := range a {
		for i := 0; i < len(s); i++ {
			h = (h ^ uint64(s[i])) * fnvPrime
		}
		h = (h ^ 0x1ff) * fnvPrime
	}
	return h
}

func showDigest(n int, h uint64) string { return fmt.Sprintf("ok n=%d h=%016x", n, h) }

// ---- Axis 4: the element types the generic sorts are instantiated with. The Model is generic; whatever carries an
// element, it prints as key:id.
//
//	struct  a func-free struct with a string, the element and a slice; the comparator looks at one field
//	ptr     *elem
//	slice   []int{key, id} (not comparable); cmp=lex: slices.Compare, otherwise the comparator on (s[0], s[1])
//	string  "<key+2^63, 20 digits>|<id+2^63, 20 digits>"; cmp=lex: strings.Compare, otherwise the comparator on the decoded pair

type rec struct {
	label string
	e     elem
	extra []int
}

func encStr(e elem) string {
	return fmt.Sprintf("%020d|%020d", uint64(e.k)^(1<<63), uint64(e.id)^(1<<63))
}

func decStr(s string) elem {
	k, _ := strconv.ParseUint(s[:20], 10, 64)
	id, _ := strconv.ParseUint(s[21:], 10, 64)
	return elem{int(k ^ (1 << 63)), int(id ^ (1 << 63))}
}

// withType runs f on the slice `a` carried by the element type ty and writes the result back into a.
// f gets a typed slice and comparator through the callback `run` (generic functions cannot be passed as values).
func sortTyped(name, algo string, a []elem) bool {
	cmpName, ty := splitTy(name)
	cmp := cmpOf(cmpName)
	switch ty {
	case "", "elem":
		return sortAny(algo, a, cmp)
	case "struct":
		b := make([]rec, len(a))
		for i, e := range a {
			b[i] = rec{label: strconv.Itoa(e.id), e: e, extra: []int{e.k}}
		}
		ok := sortAny(algo, b, func(x, y rec) int { return cmp(x.e, y.e) })
		for i := range b {
			a[i] = b[i].e
		}
		return ok
	case "ptr":
		b := make([]*elem, len(a))
		for i := range a {
			e := a[i]
			b[i] = &e
		}
		ok := sortAny(algo, b, func(x, y *elem) int { return cmp(*x, *y) })
		for i := range b {
			a[i] = *b[i]
		}
		return ok
	case "slice":
		b := make([][]int, len(a))
		for i, e := range a {
			b[i] = []int{e.k, e.id}
		}
		c := func(x, y []int) int { return cmp(elem{x[0], x[1]}, elem{y[0], y[1]}) }
		if cmpName == "lex" {
			c = func(x, y []int) int { return slices.Compare(x, y) }
		}
		ok := sortAny(algo, b, c)
		for i := range b {
			a[i] = elem{b[i][0], b[i][1]}
		}
		return ok
	case "string":
		b := make([]string, len(a))
		for i, e := range a {
			b[i] = encStr(e)
		}
		c := func(x, y string) int { return cmp(decStr(x), decStr(y)) }
		if cmpName == "lex" {
			c = strings.Compare
		}
		ok := sortAny(algo, b, c)
		for i := range b {
			a[i] = decStr(b[i])
		}
		return ok
	}
	return false
}

// selectTyped: sort.Select on the slice carried by the element type ty (a is permuted as Select permutes it).
func selectTyped(name string, a []elem, k int) elem {
	cmpName, ty := splitTy(name)
	cmp := cmpOf(cmpName)
	switch ty {
	case "struct":
		b := make([]rec, len(a))
		for i, e := range a {
			b[i] = rec{label: strconv.Itoa(e.id), e: e, extra: []int{e.k}}
		}
		v := sort.Select(b, k, func(x, y rec) int { return cmp(x.e, y.e) })
		for i := range b {
			a[i] = b[i].e
		}
		return v.e
	case "slice":
		b := make([][]int, len(a))
		for i, e := range a {
			b[i] = []int{e.k, e.id}
		}
		c := func(x, y []int) int { return cmp(elem{x[0], x[1]}, elem{y[0], y[1]}) }
		if cmpName == "lex" {
			c = func(x, y []int) int { return slices.Compare(x, y) }
		}
		v := sort.Select(b, k, c)
		for i := range b {
			a[i] = elem{b[i][0], b[i][1]}
		}
		return elem{v[0], v[1]}
	case "string":
		b := make([]string, len(a))
		for i, e := range a {
			b[i] = encStr(e)
		}
		c := func(x, y string) int { return cmp(decStr(x), decStr(y)) }
		if cmpName == "lex" {
			c = strings.Compare
		}
		v := sort.Select(b, k, c)
		for i := range b {
			a[i] = decStr(b[i])
		}
		return decStr(v)
	case "ptr":
		b := make([]*elem, len(a))
		for i := range a {
			e := a[i]
			b[i] = &e
		}
		v := sort.Select(b, k, func(x, y *elem) int { return cmp(*x, *y) })
		for i := range b {
			a[i] = *b[i]
		}
		return *v
	}
	return sort.Select(a, k, cmp)
}

func sortElems(algo string, a []elem, cmp generic.CompareFunc[elem]) bool {
	return sortAny(algo, a, cmp)
}

func sortAny[T any](algo string, a []T, cmp generic.CompareFunc[T]) bool {
	switch algo {
	case "selection":
		sort.Selection(a, cmp)
	case "insertion":
		sort.Insertion(a, cmp)
	case "shell":
		sort.Shell(a, cmp)
	case "merge":
		sort.Merge(a, cmp)
	case "mergerec":
		sort.MergeRec(a, cmp)
	case "quick3way":
		sort.Quick3Way(a, cmp)
	case "heap":
		sort.Heap(a, cmp)
	case "quickcore":
		sort.VerifQuickNoShuffle(a, cmp)
	case "quick":
		sort.Quick(a, cmp)
	default:
		return false
	}
	return true
}

func sortWords(algo string, a []uint64) bool {
	switch algo {
	case "lsduint", "msduint":
		u := make([]uint, len(a))
		for i, v := range a {
			u[i] = uint(v)
		}
		if algo == "lsduint" {
			radixsort.LSDUint(u)
		} else {
			radixsort.MSDUint(u)
		}
		for i, v := range u {
			a[i] = uint64(v)
		}
	case "lsdint", "msdint":
		u := make([]int, len(a))
		for i, v := range a {
			u[i] = int(v)
		}
		if algo == "lsdint" {
			radixsort.LSDInt(u)
		} else {
			radixsort.MSDInt(u)
		}
		for i, v := range u {
			a[i] = uint64(v)
		}
	default:
		return false
	}
	return true
}

func isWordAlgo(algo string) bool {
	return algo == "lsduint" || algo == "msduint" || algo == "lsdint" || algo == "msdint"
}
func isStrAlgo(algo string) bool  { return algo == "msdstring" || algo == "q3string" }
func signedAlgo(algo string) bool { return algo == "lsdint" || algo == "msdint" }

func wordLess(signed bool) func(a, b uint64) bool {
	if signed {
		return func(a, b uint64) bool { return int64(a) < int64(b) }
	}
	return func(a, b uint64) bool { return a < b }
}

// firstUnsorted: the first index whose element is smaller than its predecessor, or -1
func firstUnsorted[T any](a []T, less func(x, y T) bool) int {
	for i := 1; i < len(a); i++ {
		if less(a[i], a[i-1]) {
			return i
		}
	}
	return -1
}

// judgeWords: `got` is the input in native order (sorted AND a permutation, reported separately)
func judgeWords(algo string, in, got []uint64, signed bool) string {
	less := wordLess(signed)
	if i := firstUnsorted(got, less); i >= 0 {
		return fmt.Sprintf("%s: result is not in native order at index %d (%d-element slice): %#x before %#x", algo, i, len(got), got[i-1], got[i])
	}
	if !sameMultiset(in, got) {
		return fmt.Sprintf("%s: result is not a permutation of the %d-element input", algo, len(in))
	}
	return ""
}

func judgeStrs(algo string, in, got []string) string {
	if i := firstUnsorted(got, func(x, y string) bool { return x < y }); i >= 0 {
		return fmt.Sprintf("%s: result is not in native order at index %d (%d-element slice)", algo, i, len(got))
	}
	if !sameMultiset(in, got) {
		return fmt.Sprintf("%s: result is not a permutation of the %d-element input", algo, len(in))
	}
	return ""
}

func judgeElems(algo string, in, got []elem, cmp generic.CompareFunc[elem]) string {
	if i := firstUnsorted(got, func(x, y elem) bool { return cmp(x, y) < 0 }); i >= 0 {
		return fmt.Sprintf("%s: result is not sorted by the comparator at index %d (%d-element slice)", algo, i, len(got))
	}
	if !sameMultiset(in, got) {
		return fmt.Sprintf("%s: result is not a permutation of the %d-element input", algo, len(in))
	}
	return ""
}

// runGen: gsort <algo> <n> <mix> <seed> [<L>] | gselect <k> <n> <mix> <seed> | gshuffle <n> <seed> | glsdstring <w> <n> <mix> <seed>
func runGen(cmpName string, f []string) opResult {
	cmp := cmpOf(cmpName)
	r := opResult{out: "bad-op"}
	atoi := func(s string) (int, bool) { v, err := strconv.Atoi(s); return v, err == nil }
	seedOf := func(s string) (uint64, bool) { v, err := strconv.ParseUint(s, 10, 64); return v, err == nil }
	sizeTag := func(n int) {
		switch {
		case n >= 65535:
			r.tags = append(r.tags, "len>=65535")
		case n >= 1023:
			r.tags = append(r.tags, "len>=1023")
		case n >= 255:
			r.tags = append(r.tags, "len>=255")
		case n >= 63:
			r.tags = append(r.tags, "len>=63")
		}
	}
	switch {
	case f[0] == "gsort" && len(f) >= 5:
		algo, mix := f[1], f[3]
		n, ok1 := atoi(f[2])
		seed, ok2 := seedOf(f[4])
		if !ok1 || !ok2 || n < 0 {
			return r
		}
		r.tags = append(r.tags, "algo="+algo, "mix="+mix)
		sizeTag(n)
		switch {
		case isWordAlgo(algo):
			in, ok := genWords(n, mix, seed, signedAlgo(algo))
			if !ok {
				return r
			}
			a := append([]uint64{}, in...)
			sortWords(algo, a)
			r.out = showDigest(n, digestWords(toUints(a)))
			r.bad = judgeWords(algo, in, a, signedAlgo(algo))
			r.nontrivial = n >= 2 && firstUnsorted(in, wordLess(signedAlgo(algo))) >= 0 && (strings.HasPrefix(algo, "lsd") || n > 16)
		case isStrAlgo(algo) && len(f) >= 6:
			L, ok3 := atoi(f[5])
			if !ok3 || L < 0 {
				return r
			}
			in, ok := genStrs(n, mix, seed, L)
			if !ok {
				return r
			}
			a := append([]string{}, in...)
			if algo == "msdstring" {
				radixsort.MSDString(a)
			} else {
				radixsort.Quick3WayString(a)
			}
			r.out = showDigest(n, digestStrs(a))
			r.bad = judgeStrs(algo, in, a)
			r.nontrivial = n > 16 && inversions(in, cmpOrd[string])
			if L >= 63 {
				r.tags = append(r.tags, "common-prefix>=63")
			}
		default:
			in, ok := genElems(n, mix, seed)
			if !ok {
				return r
			}
			a := append([]elem{}, in...)
			if !sortTyped(cmpName, algo, a) {
				return r
			}
			if algo == "quick" {
				r.out = showDigest(n, digestElems(canonRuns(cmp, a)))
			} else {
				r.out = showDigest(n, digestElems(a))
			}
			r.bad = judgeElems(algo, in, a, cmp)
			r.nontrivial = n >= 2 && inversions(in, cmp)
		}
	case f[0] == "gselect" && len(f) >= 5:
		k, ok0 := atoi(f[1])
		n, ok1 := atoi(f[2])
		seed, ok2 := seedOf(f[4])
		in, ok := genElems(n, f[3], seed)
		if !ok0 || !ok1 || !ok2 || !ok {
			return r
		}
		r.tags = append(r.tags, "algo=select", "mix="+f[3])
		sizeTag(n)
		if k < 0 || k >= n {
			r.tags = append(r.tags, "select-k-out-of-range")
		}
		a := append([]elem{}, in...)
		v := selectTyped(cmpName, a, k) // panics for k outside [0,n)
		r.out = "ok " + strconv.Itoa(cls(cmpName, v.k))
		r.bad = judgeSelect(in, a, v, k, cmp)
		r.nontrivial = n >= 2
	case f[0] == "gshuffle" && len(f) >= 3:
		n, ok1 := atoi(f[1])
		seed, ok2 := seedOf(f[2])
		if !ok1 || !ok2 || n < 0 {
			return r
		}
		g := &sm64{seed}
		cs := make([]int, n)
		in := make([]elem, n)
		for i := range cs {
			cs[i] = int(g.next() % uint64(n-i))
			in[i] = elem{i % 5, i}
		}
		if !scriptedOK(n, cs) {
			r.out = "bad-op scripted source does not reproduce the choices"
			return r
		}
		r.tags = append(r.tags, "algo=shuffle")
		sizeTag(n)
		a := append([]elem{}, in...)
		sort.Shuffle(a, rand.New(&scripted{vals: cs}))
		r.out = showDigest(n, digestElems(a))
		if !sameMultiset(in, a) {
			r.bad = "shuffle: result is not a permutation of the input"
		}
		r.nontrivial = n >= 2 && !eqSlices(in, a)
	case f[0] == "glsdstring" && len(f) >= 5:
		w, ok0 := atoi(f[1])
		n, ok1 := atoi(f[2])
		seed, ok2 := seedOf(f[4])
		if !ok0 || !ok1 || !ok2 || w < 0 {
			return r
		}
		in, ok := genStrs(n, f[3], seed, w)
		if !ok || (f[3] != "fix" && f[3] != "fixlong" && f[3] != "eq") { // the other mixes produce keys shorter than w
			return r
		}
		r.tags = append(r.tags, "algo=lsdstring", "mix="+f[3])
		sizeTag(n)
		if w >= 63 {
			r.tags = append(r.tags, "lsdstring-w>=63")
		}
		a := append([]string{}, in...)
		radixsort.LSDString(a, w)
		r.out = showDigest(n, digestStrs(a))
		want := append([]string{}, in...)
		gosort.SliceStable(want, func(i, j int) bool { return want[i][:w] < want[j][:w] })
		if !eqSlices(a, want) {
			r.bad = fmt.Sprintf("lsdstring: result is not the stable sort by the first %d bytes (%d-element slice)", w, n)
		}
		r.nontrivial = n >= 2 && w >= 1 && inversions(in, cmpOrd[string])
	}
	return r
}

func toUints(a []uint64) []uint {
	u := make([]uint, len(a))
	for i, v := range a {
		u[i] = uint(v)
	}
	return u
}

func judgeSelect(in, a []elem, v elem, k int, cmp generic.CompareFunc[elem]) string {
	less, leq, found := 0, 0, false
	for _, x := range in {
		if cmp(x, v) < 0 {
			less++
		}
		if cmp(x, v) <= 0 {
			leq++
		}
		if x == v {
			found = true
		}
	}
	switch {
	case !found:
		return "select: result is not an element of the input"
	case !(less <= k && k < leq):
		return fmt.Sprintf("select: result has %d smaller and %d smaller-or-equal elements, so it is not of rank %d", less, leq, k)
	case !sameMultiset(in, a):
		return "select: the slice is no longer a permutation of the input"
	}
	return ""
}

// ---------------------------------------------------------------- sub-slices of one backing array
//
//	sub   <algo> <lo> <hi> e…              sorts a[lo:hi] (capacity reaching to the end of a); prints all of a
//	alias <algo> <lo1> <hi1> <lo2> <hi2> e…  sorts a[lo1:hi1], then the overlapping a[lo2:hi2]; prints all of a
//
// Elements outside the sub-slice must stay what they were, the sub-slice must come out sorted and a permutation of
// what it held. For the word sorts e… are decimal words, for the string sorts x<hex>.

func runSub(cmpName string, f []string) opResult {
	cmp := cmpOf(cmpName)
	r := opResult{out: "bad-op"}
	algo := f[1]
	nr := 2
	if f[0] == "alias" {
		nr = 4
	}
	if len(f) < 2+nr {
		return r
	}
	var rg []int
	for _, w := range f[2 : 2+nr] {
		v, err := strconv.Atoi(w)
		if err != nil {
			return r
		}
		rg = append(rg, v)
	}
	rest := f[2+nr:]
	r.tags = append(r.tags, "algo="+algo, "sub-slice")
	if f[0] == "alias" {
		r.tags = append(r.tags, "aliased-sub-slices")
	}
	inRange := func(n int) bool {
		for i := 0; i < len(rg); i += 2 {
			if rg[i] < 0 || rg[i] > rg[i+1] || rg[i+1] > n {
				return false
			}
		}
		return true
	}
	switch {
	case isWordAlgo(algo):
		signed := signedAlgo(algo)
		var a []uint64
		if signed {
			in, ok := parseInts(rest)
			if !ok {
				return r
			}
			for _, v := range in {
				a = append(a, uint64(v))
			}
		} else {
			in, ok := parseUints(rest)
			if !ok {
				return r
			}
			for _, v := range in {
				a = append(a, uint64(v))
			}
		}
		if a == nil {
			a = []uint64{}
		}
		// the radix sorts take []int / []uint: the backing array is converted once, the sub-slices alias it
		var show func() string
		var step func(lo, hi int)
		if signed {
			b := make([]int, len(a))
			for i, v := range a {
				b[i] = int(v)
			}
			step = func(lo, hi int) {
				if algo == "lsdint" {
					radixsort.LSDInt(b[lo:hi])
				} else {
					radixsort.MSDInt(b[lo:hi])
				}
				for i, v := range b {
					a[i] = uint64(v)
				}
			}
			show = func() string { return showInts(b) }
		} else {
			b := make([]uint, len(a))
			for i, v := range a {
				b[i] = uint(v)
			}
			step = func(lo, hi int) {
				if algo == "lsduint" {
					radixsort.LSDUint(b[lo:hi])
				} else {
					radixsort.MSDUint(b[lo:hi])
				}
				for i, v := range b {
					a[i] = uint64(v)
				}
			}
			show = func() string { return showUints(b) }
		}
		for i := 0; i < len(rg) && r.bad == ""; i += 2 {
			before := append([]uint64{}, a...)
			step(rg[i], rg[i+1])
			if inRange(len(a)) {
				r.bad = checkSub(before, a, rg[i], rg[i+1], func(x, y []uint64) string { return judgeWords(algo, x, y, signed) })
			}
		}
		r.out = show()
		r.nontrivial = len(a) >= 2
	case isStrAlgo(algo):
		a, ok := parseStrs(rest)
		if !ok {
			return r
		}
		for i := 0; i < len(rg) && r.bad == ""; i += 2 {
			before := append([]string{}, a...)
			if algo == "msdstring" {
				radixsort.MSDString(a[rg[i]:rg[i+1]])
			} else {
				radixsort.Quick3WayString(a[rg[i]:rg[i+1]])
			}
			if inRange(len(a)) {
				r.bad = checkSub(before, a, rg[i], rg[i+1], func(x, y []string) string { return judgeStrs(algo, x, y) })
			}
		}
		r.out = showStrs(a)
		r.nontrivial = len(a) >= 2
	default:
		a, ok := parseElems(rest)
		if !ok {
			return r
		}
		for i := 0; i < len(rg) && r.bad == ""; i += 2 {
			before := append([]elem{}, a...)
			if !sortElems(algo, a[rg[i]:rg[i+1]], cmp) {
				return r
			}
			if inRange(len(a)) {
				r.bad = checkSub(before, a, rg[i], rg[i+1], func(x, y []elem) string { return judgeElems(algo, x, y, cmp) })
			}
		}
		if algo == "quick" { // the order inside runs of comparator-equal elements depends on the clock-seeded shuffle
			r.out = showElems("ok", canonRunsIn(cmp, a, rg))
		} else {
			r.out = showElems("ok", a)
		}
		r.nontrivial = len(a) >= 2
	}
	if r.bad != "" {
		r.bad = f[0] + " " + r.bad
	}
	return r
}

// canonRunsIn canonicalises the runs of comparator-equal elements inside the last sorted range (the ranges of an
// `alias` op overlap, so the first one is no longer a sorted block afterwards) — used for the public Quick only, whose
// `alias` form is generated with nested ranges (the second contains the first).
func canonRunsIn(cmp generic.CompareFunc[elem], a []elem, rg []int) []elem {
	lo, hi := rg[len(rg)-2], rg[len(rg)-1]
	out := append([]elem{}, a...)
	copy(out[lo:hi], canonRuns(cmp, a[lo:hi]))
	return out
}

func checkSub[T comparable](before, after []T, lo, hi int, judge func(in, got []T) string) string {
	for i := range before {
		if (i < lo || i >= hi) && before[i] != after[i] {
			return fmt.Sprintf("of [%d:%d]: element %d outside the sub-slice changed", lo, hi, i)
		}
	}
	if msg := judge(before[lo:hi], after[lo:hi]); msg != "" {
		return fmt.Sprintf("of [%d:%d]: %s", lo, hi, msg)
	}
	return ""
}

// runOp executes one op line on the real code. It may panic (caught by the caller).
func runOp(cmpName string, line string) opResult {
	f := strings.Fields(line)
	cmp := cmpOf(cmpName)
	r := opResult{out: "bad-op"}
	if len(f) == 0 {
		return r
	}
	switch {
	case f[0] == "gsort" || f[0] == "gselect" || f[0] == "gshuffle" || f[0] == "glsdstring":
		return runGen(cmpName, f)
	case (f[0] == "sub" || f[0] == "alias") && len(f) >= 4:
		return runSub(cmpName, f)
	case f[0] == "sort" && len(f) >= 2:
		algo := f[1]
		rest := f[2:]
		r.tags = append(r.tags, "algo="+algo)
		if len(rest) == 0 { // the nil slice as well as the empty one
			r.tags = append(r.tags, "nil-slice")
			switch {
			case isWordAlgo(algo):
				radixsort.LSDInt(nil)
				radixsort.LSDUint(nil)
				radixsort.MSDInt(nil)
				radixsort.MSDUint(nil)
			case isStrAlgo(algo):
				radixsort.MSDString(nil)
				radixsort.Quick3WayString(nil)
			default:
				sortElems(algo, nil, cmp)
			}
		}
		switch algo {
		case "selection", "insertion", "shell", "merge", "mergerec", "quick3way", "heap", "quickcore", "quick":
			in, ok := parseElems(rest)
			if !ok {
				return r
			}
			a := append([]elem{}, in...)
			sortTyped(cmpName, algo, a)
			if algo == "quick" {
				r.out = showElems("ok", canonRuns(cmp, a))
			} else {
				r.out = showElems("ok", a)
			}
			if !sortedBy(a, cmp) {
				r.bad = algo + ": result is not sorted by the comparator"
			} else if !sameMultiset(in, a) {
				r.bad = algo + ": result is not a permutation of the input"
			}
			r.nontrivial = len(in) >= 2 && inversions(in, cmp)
			if len(in) > 16 {
				r.tags = append(r.tags, "len>16")
			}
		case "lsduint", "msduint":
			in, ok := parseUints(rest)
			if !ok {
				return r
			}
			a := append([]uint{}, in...)
			if algo == "lsduint" {
				radixsort.LSDUint(a)
			} else {
				radixsort.MSDUint(a)
			}
			r.out = showUints(a)
			want := append([]uint{}, in...)
			gosort.Slice(want, func(i, j int) bool { return want[i] < want[j] })
			if !eqSlices(a, want) {
				r.bad = algo + ": result differs from the native uint order"
			}
			r.nontrivial = len(in) >= 2 && inversions(in, cmpOrd[uint]) && (algo == "lsduint" || len(in) > 16)
			if len(in) > 16 {
				r.tags = append(r.tags, "len>16")
			}
		case "lsdint", "msdint":
			in, ok := parseInts(rest)
			if !ok {
				return r
			}
			a := append([]int{}, in...)
			if algo == "lsdint" {
				radixsort.LSDInt(a)
			} else {
				radixsort.MSDInt(a)
			}
			r.out = showInts(a)
			want := append([]int{}, in...)
			gosort.Ints(want)
			if !eqSlices(a, want) {
				r.bad = algo + ": result differs from the native int order"
			}
			neg, pos := false, false
			for _, v := range in {
				if v < 0 {
					neg = true
				} else {
					pos = true
				}
			}
			if neg && pos {
				r.tags = append(r.tags, "both-signs")
			}
			r.nontrivial = len(in) >= 2 && inversions(in, cmpOrd[int]) && (algo == "lsdint" || len(in) > 16)
			if len(in) > 16 {
				r.tags = append(r.tags, "len>16")
			}
		case "msdstring", "q3string":
			in, ok := parseStrs(rest)
			if !ok {
				return r
			}
			a := append([]string{}, in...)
			if algo == "msdstring" {
				radixsort.MSDString(a)
			} else {
				radixsort.Quick3WayString(a)
			}
			r.out = showStrs(a)
			want := append([]string{}, in...)
			gosort.Strings(want)
			if !eqSlices(a, want) {
				r.bad = algo + ": result differs from the native string order"
			}
			r.nontrivial = len(in) > 16 && inversions(in, cmpOrd[string])
			if len(in) > 16 {
				r.tags = append(r.tags, "len>16")
			}
			for _, s := range in {
				if strings.Contains(s, "\xff") {
					r.tags = append(r.tags, "has-0xff")
					break
				}
			}
		}
	case f[0] == "select" && len(f) >= 2:
		k, err := strconv.Atoi(f[1])
		in, ok := parseElems(f[2:])
		if err != nil || !ok {
			return r
		}
		r.tags = append(r.tags, "algo=select")
		a := append([]elem{}, in...)
		if k < 0 || k >= len(in) {
			r.tags = append(r.tags, "select-k-out-of-range")
		}
		v := selectTyped(cmpName, a, k) // panics for k outside [0,n): outside the property's precondition
		r.out = "ok " + strconv.Itoa(cls(cmpName, v.k))
		less, leq, found := 0, 0, false
		for _, x := range in {
			if cmp(x, v) < 0 {
				less++
			}
			if cmp(x, v) <= 0 {
				leq++
			}
			if x == v {
				found = true
			}
		}
		switch {
		case !found:
			r.bad = "select: result is not an element of the input"
		case !(less <= k && k < leq):
			r.bad = fmt.Sprintf("select: result has %d smaller and %d smaller-or-equal elements, so it is not of rank %d", less, leq, k)
		case !sameMultiset(in, a):
			r.bad = "select: the slice is no longer a permutation of the input"
		}
		r.nontrivial = len(in) >= 2
	case f[0] == "partition" && len(f) >= 3:
		lo, e1 := strconv.Atoi(f[1])
		hi, e2 := strconv.Atoi(f[2])
		in, ok := parseElems(f[3:])
		if e1 != nil || e2 != nil || !ok {
			return r
		}
		r.tags = append(r.tags, "algo=partition")
		a := append([]elem{}, in...)
		j := sort.VerifPartition(a, lo, hi, cmp)
		r.out = showElems("ok "+strconv.Itoa(j), a)
		if 0 <= lo && lo <= hi && hi < len(in) {
			if !sameMultiset(in, a) {
				r.bad = "partition: not a permutation"
			} else if j < lo || j > hi {
				r.bad = "partition: pivot index outside the range"
			} else {
				for i := lo; i <= hi; i++ {
					if (i < j && cmp(a[i], a[j]) > 0) || (i > j && cmp(a[i], a[j]) < 0) {
						r.bad = fmt.Sprintf("partition: element %d on the wrong side of the pivot %d", i, j)
						break
					}
				}
			}
			r.nontrivial = hi-lo >= 1
		}
	case f[0] == "shuffle" && len(f) >= 2:
		in, ok := parseElems(f[2:])
		if !ok {
			return r
		}
		var cs []int
		if f[1] != "-" {
			for _, w := range strings.Split(f[1], ",") {
				v, err := strconv.Atoi(w)
				if err != nil {
					return r
				}
				cs = append(cs, v)
			}
		}
		if !scriptedOK(len(in), cs) {
			r.out = "bad-op scripted source does not reproduce the choices"
			return r
		}
		r.tags = append(r.tags, "algo=shuffle")
		a := append([]elem{}, in...)
		sort.Shuffle(a, rand.New(&scripted{vals: cs}))
		r.out = showElems("ok", a)
		if !sameMultiset(in, a) {
			r.bad = "shuffle: result is not a permutation of the input"
		}
		r.nontrivial = len(in) >= 2 && !eqSlices(in, a)
	case f[0] == "lsdstring" && len(f) >= 2:
		w, err := strconv.Atoi(f[1])
		in, ok := parseStrs(f[2:])
		if err != nil || !ok {
			return r
		}
		r.tags = append(r.tags, "algo=lsdstring")
		short, exact := false, true
		for _, s := range in {
			if len(s) < w {
				short = true
			}
			if len(s) != w {
				exact = false
			}
			if strings.Contains(s, "\xff") {
				r.tags = append(r.tags, "has-0xff")
			}
		}
		if short {
			r.tags = append(r.tags, "lsdstring-short-key") // outside the precondition: index panic expected
		}
		a := append([]string{}, in...)
		radixsort.LSDString(a, w)
		r.out = showStrs(a)
		want := append([]string{}, in...)
		if w > 0 && !short {
			gosort.SliceStable(want, func(i, j int) bool { return want[i][:w] < want[j][:w] })
		}
		if !short && !eqSlices(a, want) {
			if exact {
				r.bad = "lsdstring: result differs from the native string order"
			} else {
				r.bad = "lsdstring: result is not the stable sort by the first w bytes"
			}
		}
		r.nontrivial = len(in) >= 2 && w >= 1 && inversions(in, cmpOrd[string])
	case len(f) >= 4 && (f[0] == "msdintat" || f[0] == "msduintat" || f[0] == "msdstringat" || f[0] == "q3stringat"):
		lo, e1 := strconv.Atoi(f[1])
		hi, e2 := strconv.Atoi(f[2])
		d, e3 := strconv.Atoi(f[3])
		if e1 != nil || e2 != nil || e3 != nil {
			return r
		}
		r.tags = append(r.tags, "algo="+f[0])
		rest := f[4:]
		switch f[0] {
		case "msdintat":
			in, ok := parseInts(rest)
			if !ok {
				return r
			}
			a := append([]int{}, in...)
			radixsort.VerifMsdInt(a, lo, hi, d)
			r.out = showInts(a)
			u := make([]uint64, len(in))
			for i, v := range in {
				u[i] = uint64(v)
			}
			if 0 <= lo && hi < len(in) {
				r.bad = checkRange(in, a, lo, hi, shareTopBytes(u, lo, hi, d))
			}
		case "msduintat":
			in, ok := parseUints(rest)
			if !ok {
				return r
			}
			a := append([]uint{}, in...)
			radixsort.VerifMsdUint(a, lo, hi, d)
			r.out = showUints(a)
			u := make([]uint64, len(in))
			for i, v := range in {
				u[i] = uint64(v)
			}
			if 0 <= lo && hi < len(in) {
				r.bad = checkRange(in, a, lo, hi, shareTopBytes(u, lo, hi, d))
			}
		case "msdstringat", "q3stringat":
			in, ok := parseStrs(rest)
			if !ok {
				return r
			}
			a := append([]string{}, in...)
			if f[0] == "msdstringat" {
				radixsort.VerifMsdString(a, lo, hi, d)
			} else {
				radixsort.VerifQuick3WayString(a, lo, hi, d)
			}
			r.out = showStrs(a)
			if 0 <= lo && hi < len(in) {
				r.bad = checkRange(in, a, lo, hi, lo <= hi && sharePrefixStr(in, lo, hi, d))
			}
		}
		if r.bad != "" {
			r.bad = f[0] + ": " + r.bad
		}
		r.nontrivial = hi-lo > 16
		if d > 0 {
			r.tags = append(r.tags, "core-at-d>0")
		}
	}
	return r
}

// Exec runs one case (each op carries its own slice).
func Exec(c hx.Case) hx.Result {
	cmpName := hx.HeaderGet(c.Header, "cmp")
	if cmpName == "" {
		cmpName = "asc"
	}
	res := hx.Result{BadOp: -1}
	tags := map[string]bool{"cmp=" + cmpName: true}
	if ty := hx.HeaderGet(c.Header, "ty"); ty != "" && ty != "elem" {
		tags["ty="+ty] = true
		cmpName += "@" + ty
	}
	for i, op := range c.Ops {
		var r opResult
		kind := ""
		done := hx.WithTimeout(30*time.Second, func() {
			kind = hx.Try(func() { r = runOp(cmpName, op) })
		})
		if !done {
			res.Outs = append(res.Outs, "hang")
			if res.BadOp < 0 {
				res.BadOp, res.What = i, "did not return within 10 s: "+firstWords(op)
			}
			tags["hang"] = true
			break
		}
		if kind != "" {
			res.Outs = append(res.Outs, "panic")
			// a panic is admissible only outside the property's precondition
			// (Select with k outside [0,n), LSDString with a key shorter than w)
			if !expectedPanic(op) && res.BadOp < 0 {
				res.BadOp, res.What = i, fmt.Sprintf("panicked (%s): %s", kind, firstWords(op))
			}
			tags["panic"] = true
			break
		}
		res.Outs = append(res.Outs, r.out)
		if r.bad != "" && res.BadOp < 0 {
			res.BadOp, res.What = i, r.bad
		}
		if r.nontrivial {
			res.Nontrivial = true
		}
		for _, t := range r.tags {
			tags[t] = true
		}
	}
	for t := range tags {
		res.Tags = append(res.Tags, t)
	}
	return res
}

func firstWords(op string) string {
	if len(op) > 120 {
		return op[:120] + "…"
	}
	return op
}

func expectedPanic(op string) bool {
	f := strings.Fields(op)
	if len(f) < 2 {
		return false
	}
	switch f[0] {
	case "gselect":
		if len(f) < 3 {
			return false
		}
		k, e1 := strconv.Atoi(f[1])
		n, e2 := strconv.Atoi(f[2])
		return e1 == nil && e2 == nil && (k < 0 || k >= n)
	case "select":
		k, err := strconv.Atoi(f[1])
		return err == nil && (k < 0 || k >= len(f)-2)
	case "lsdstring":
		w, err := strconv.Atoi(f[1])
		if err != nil {
			return false
		}
		for _, s := range f[2:] {
			if (len(s)-1)/2 < w {
				return true
			}
		}
	}
	return false
}

// ---------------------------------------------------------------- generators

func elemsOp(keys []int) string {
	var b strings.Builder
	for i, k := range keys {
		if i > 0 {
			b.WriteByte(' ')
		}
		b.WriteString(strconv.Itoa(k))
		b.WriteByte(':')
		b.WriteString(strconv.Itoa(i))
	}
	return b.String()
}

func join(parts ...string) string {
	var out []string
	for _, p := range parts {
		if p != "" {
			out = append(out, p)
		}
	}
	return strings.Join(out, " ")
}

var lengths = []int{0, 1, 2, 3, 4, 5, 7, 8, 13, 14, 15, 16, 17, 18, 31, 32, 33, 40, 64}

func pickLen(r *hx.Rand) int {
	switch r.Intn(4) {
	case 0:
		return hx.Pick(r, lengths)
	case 1:
		return r.Range(14, 19)
	default:
		return r.Range(0, 64)
	}
}

func randKeys(r *hx.Rand, n int) []int {
	keys := make([]int, n)
	mode := r.Intn(6)
	for i := range keys {
		switch mode {
		case 0:
			keys[i] = r.Intn(3)
		case 1:
			keys[i] = r.Intn(7) - 3
		case 2:
			keys[i] = i // ascending
		case 3:
			keys[i] = n - i // descending
		case 4:
			keys[i] = r.Intn(n + 1)
		default:
			keys[i] = r.Intn(1000) - 500
		}
	}
	if mode == 2 && n > 2 && r.Bool() { // nearly sorted
		i, j := r.Intn(n), r.Intn(n)
		keys[i], keys[j] = keys[j], keys[i]
	}
	return keys
}

var cmpAlgos = []string{"selection", "insertion", "shell", "merge", "mergerec", "quick3way", "heap", "quickcore", "quick"}
var cmpNames = []string{"asc", "desc", "mod3", "diff", "diff7", "rdiff", "rdiff7", "mod3x5"}

var specialWords = []uint64{0, 1, 0x7f, 0x80, 0xff, 0x100, 0x7fffffffffffffff, 0x8000000000000000, 0xffffffffffffffff,
	0x8000000000000001, 0xfffffffffffffffe, 0x00ff00ff00ff00ff, 0xff00ff00ff00ff00, 0x0100000000000000, 0x0101010101010101,
	0x7f00000000000000, 0x8100000000000000, 0x00000000ffffffff, 0xffffffff00000000}

var byteVals = []uint64{0x00, 0x01, 0x7f, 0x80, 0xfe, 0xff}

func randWords(r *hx.Rand, n int) []uint64 {
	out := make([]uint64, n)
	mode := r.Intn(6)
	// cluster: values share their top `share` bytes so that MSD recursion goes deep
	share := r.Intn(8)
	base := r.U64()
	if r.Bool() {
		base = 0
		for p := 0; p < 8; p++ {
			base |= hx.Pick(r, byteVals) << (8 * uint(p))
		}
	}
	pos := uint(r.Intn(8)) // the byte position this slice exercises
	for i := range out {
		switch mode {
		case 0:
			out[i] = r.U64()
		case 1:
			out[i] = hx.Pick(r, specialWords)
		case 2: // one varying byte position, everything else fixed
			out[i] = (base &^ (0xff << (8 * pos))) | (uint64(r.Intn(256)) << (8 * pos))
		case 3: // shared top bytes, low bytes random
			lowBits := uint(64 - 8*share)
			low := r.U64()
			if lowBits < 64 {
				low &= (uint64(1) << lowBits) - 1
				out[i] = (base >> lowBits << lowBits) | low
			} else {
				out[i] = low
			}
		case 4: // small magnitudes around zero (sign boundary for int)
			out[i] = uint64(int64(r.Intn(41) - 20))
		default: // bytes from the boundary set
			var v uint64
			for p := 0; p < 8; p++ {
				v |= hx.Pick(r, byteVals) << (8 * uint(p))
			}
			out[i] = v
		}
	}
	return out
}

func wordsOp(ws []uint64, signed bool) string {
	ss := make([]string, len(ws))
	for i, v := range ws {
		if signed {
			ss[i] = strconv.FormatInt(int64(v), 10)
		} else {
			ss[i] = strconv.FormatUint(v, 10)
		}
	}
	return strings.Join(ss, " ")
}

var alphabet = []byte{0x00, 'a', 'b', 0x7f, 0x80, 0xfe, 0xff}

func randStr(r *hx.Rand, alpha []byte, n int) string {
	b := make([]byte, n)
	for i := range b {
		b[i] = hx.Pick(r, alpha)
	}
	return string(b)
}

// randStrs: strings with shared prefixes; fixed >= 0 forces that exact length.
func randStrs(r *hx.Rand, n, fixed int) []string {
	alpha := alphabet
	switch r.Intn(3) {
	case 0:
		alpha = []byte{'a', 0xff} // few letters: big buckets, deep recursion
	case 1:
		alpha = []byte{0x00, 'a', 0xff}
	}
	var pool []string
	for i := 0; i < 1+r.Intn(4); i++ {
		pool = append(pool, randStr(r, alpha, r.Intn(5)))
	}
	out := make([]string, n)
	for i := range out {
		s := ""
		if r.Chance(3, 4) {
			s = hx.Pick(r, pool)
		}
		s += randStr(r, alpha, r.Intn(4))
		if fixed >= 0 {
			for len(s) < fixed {
				s += string(hx.Pick(r, alpha))
			}
			s = s[:fixed]
		}
		out[i] = s
	}
	return out
}

func strsOp(ss []string) string {
	ws := make([]string, len(ss))
	for i, s := range ss {
		ws[i] = "x" + hex.EncodeToString([]byte(s))
	}
	return strings.Join(ws, " ")
}

func bigLen(r *hx.Rand) int {
	switch r.Intn(5) {
	case 0:
		return r.Range(15, 18)
	case 1:
		return r.Range(100, 300)
	case 2:
		return r.Range(0, 16)
	default:
		return r.Range(17, 80)
	}
}

func do(run *hx.Run, comp, cmp string, ops ...string) {
	run.Do(comp, hx.Case{Header: "comp=" + comp + " cmp=" + cmp, Ops: ops}, Exec)
}

// allArrays enumerates every key vector of length n over {0..vals-1}.
func allArrays(n, vals int, f func([]int)) {
	keys := make([]int, n)
	for {
		f(append([]int{}, keys...))
		i := n - 1
		for i >= 0 {
			keys[i]++
			if keys[i] < vals {
				break
			}
			keys[i] = 0
			i--
		}
		if i < 0 {
			return
		}
	}
}

func Main(run *hx.Run) {
	run.Stats.Rule = Rule
	for _, f := range hx.CorpusFiles("C07") {
		cs, _ := hx.ReadReplay(f)
		for _, c := range cs {
			run.Do(hx.HeaderGet(c.Header, "comp"), c, Exec)
		}
	}

	// ---- comparison sorts: random slices, lengths 0-64 crossing 15/16/17, three comparators
	for _, algo := range cmpAlgos {
		r := run.R.Fork(algo)
		for k := 0; k < run.Scale(32); k++ {
			cmp := cmpNames[k%len(cmpNames)]
			var ops []string
			for j := 0; j < 4; j++ {
				ops = append(ops, join("sort", algo, elemsOp(randKeys(r, pickLen(r)))))
			}
			do(run, algo, cmp, ops...)
		}
	}

	// ---- bounded exhaustive: every slice of length <= L over 3 values with identity payloads
	L := 4
	if run.Thorough() {
		L = 6
	}
	for _, algo := range cmpAlgos {
		for _, cmp := range cmpNames {
			if cmp != "asc" && cmp != "diff" && cmp != "mod3x5" && !run.Thorough() && algo != "quickcore" && algo != "heap" {
				continue
			}
			for n := 0; n <= L; n++ {
				var ops []string
				allArrays(n, 3, func(keys []int) {
					ops = append(ops, join("sort", algo, elemsOp(keys)))
					if len(ops) == 27 {
						do(run, algo, cmp, ops...)
						ops = nil
					}
				})
				if len(ops) > 0 {
					do(run, algo, cmp, ops...)
				}
			}
		}
	}
	run.Stats.Exhaustive = true
	run.Stats.Extra["exhaustive_part"] = fmt.Sprintf("all slices of length<=%d over 3 key values with identity payloads, 9 comparison sorts; "+
		"Select with every k on all slices of length<=%d; Shuffle with every choice vector up to length 4", L, L-1)

	// ---- Select: every k; partition on every range
	{
		r := run.R.Fork("select")
		for _, cmp := range cmpNames {
			for n := 1; n <= L-1; n++ {
				allArrays(n, 3, func(keys []int) {
					var ops []string
					for k := 0; k < n; k++ {
						ops = append(ops, join("select", strconv.Itoa(k), elemsOp(keys)))
					}
					do(run, "select", cmp, ops...)
				})
			}
		}
		for k := 0; k < run.Scale(40); k++ {
			n := r.Range(1, 40)
			keys := randKeys(r, n)
			var ops []string
			for kk := 0; kk < n; kk++ {
				if n <= 12 || r.Chance(1, 3) || kk == 0 || kk == n-1 {
					ops = append(ops, join("select", strconv.Itoa(kk), elemsOp(keys)))
				}
			}
			do(run, "select", cmpNames[k%len(cmpNames)], ops...)
		}
		// outside the precondition (k not in [0,n)): the index panic must agree with the Model
		do(run, "select", "asc", "select 0 5:0", "select 1 5:0")
		do(run, "select", "asc", "select -1 5:0 3:1")
		do(run, "select", "asc", "select 0")
		do(run, "select", "desc", "select 3 1:0 2:1 0:2")
		for k := 0; k < run.Scale(40); k++ {
			n := r.Range(1, 24)
			keys := randKeys(r, n)
			var ops []string
			for j := 0; j < 4; j++ {
				lo := r.Intn(n)
				hi := r.Range(lo, n-1)
				ops = append(ops, join("partition", strconv.Itoa(lo), strconv.Itoa(hi), elemsOp(keys)))
			}
			do(run, "partition", cmpNames[k%len(cmpNames)], ops...)
		}
	}

	// ---- Shuffle: scripted r.Intn results
	{
		r := run.R.Fork("shuffle")
		for k := 0; k < run.Scale(40); k++ {
			n := r.Range(0, 30)
			cs := make([]string, n)
			for i := range cs {
				cs[i] = strconv.Itoa(r.Intn(n - i))
			}
			c := "-"
			if n > 0 {
				c = strings.Join(cs, ",")
			}
			keys := make([]int, n)
			for i := range keys {
				keys[i] = i % 5
			}
			do(run, "shuffle", "asc", join("shuffle", c, elemsOp(keys)))
		}
		for n := 1; n <= 4; n++ { // every choice vector
			cs := make([]int, n)
			var rec func(i int)
			var ops []string
			rec = func(i int) {
				if i == n {
					ss := make([]string, n)
					for j, v := range cs {
						ss[j] = strconv.Itoa(v)
					}
					keys := make([]int, n)
					ops = append(ops, join("shuffle", strings.Join(ss, ","), elemsOp(keys)))
					return
				}
				for v := 0; v < n-i; v++ {
					cs[i] = v
					rec(i + 1)
				}
			}
			rec(0)
			do(run, "shuffle", "asc", ops...)
		}
	}

	// ---- radix sorts on machine words
	for _, algo := range []string{"lsduint", "lsdint", "msduint", "msdint"} {
		r := run.R.Fork(algo)
		signed := strings.HasSuffix(algo, "dint")
		for k := 0; k < run.Scale(60); k++ {
			var ops []string
			for j := 0; j < 3; j++ {
				ops = append(ops, join("sort", algo, wordsOp(randWords(r, bigLen(r)), signed)))
			}
			do(run, algo, "asc", ops...)
		}
		// every byte position: 17..40 words that differ only in byte p (and in the sign byte for p = 7)
		for p := uint(0); p < 8; p++ {
			n := r.Range(17, 40)
			ws := make([]uint64, n)
			base := r.U64()
			for i := range ws {
				ws[i] = (base &^ (0xff << (8 * p))) | (uint64(r.Intn(256)) << (8 * p))
			}
			do(run, algo, "asc", join("sort", algo, wordsOp(ws, signed)))
		}
		if strings.HasPrefix(algo, "msd") {
			at := algo + "at"
			for k := 0; k < run.Scale(40); k++ {
				n := r.Range(1, 90)
				ws := randWords(r, n)
				lo := r.Intn(n)
				hi := r.Range(lo, n-1)
				if r.Chance(1, 2) {
					lo, hi = 0, n-1
				}
				d := r.Intn(8)
				do(run, at, "asc", join(at, strconv.Itoa(lo), strconv.Itoa(hi), strconv.Itoa(d), wordsOp(ws, signed)))
			}
		}
	}
	// sign boundaries, exactly at the cutoff
	for _, n := range []int{15, 16, 17, 18} {
		ws := make([]uint64, n)
		for i := range ws {
			ws[i] = uint64(int64((i*7)%n - n/2))
		}
		do(run, "msdint", "asc", join("sort msdint", wordsOp(ws, true)), join("sort lsdint", wordsOp(ws, true)))
		us := make([]uint64, n)
		for i := range us {
			us[i] = uint64((i*7)%n%2)<<56 | uint64(n-i)
		}
		do(run, "msduint", "asc", join("sort msduint", wordsOp(us, false)), join("sort lsduint", wordsOp(us, false)))
	}
	do(run, "msdint", "asc", join("sort msdint", wordsOp([]uint64{math.MaxInt64, 1 << 63, 0, ^uint64(0), 1}, true)))

	// ---- radix sorts on strings
	for _, algo := range []string{"msdstring", "q3string"} {
		r := run.R.Fork(algo)
		for k := 0; k < run.Scale(60); k++ {
			var ops []string
			for j := 0; j < 3; j++ {
				ops = append(ops, join("sort", algo, strsOp(randStrs(r, bigLen(r), -1))))
			}
			do(run, algo, "asc", ops...)
		}
		at := algo + "at"
		for k := 0; k < run.Scale(40); k++ {
			n := r.Range(1, 90)
			ss := randStrs(r, n, -1)
			lo := r.Intn(n)
			hi := r.Range(lo, n-1)
			if r.Chance(1, 2) {
				lo, hi = 0, n-1
			}
			d := r.Intn(4)
			do(run, at, "asc", join(at, strconv.Itoa(lo), strconv.Itoa(hi), strconv.Itoa(d), strsOp(ss)))
		}
	}
	{
		r := run.R.Fork("lsdstring")
		for k := 0; k < run.Scale(80); k++ {
			w := r.Intn(6)
			n := r.Range(0, 48)
			ss := randStrs(r, n, w)
			if r.Chance(1, 5) { // longer keys: LSDString sorts stably by the first w bytes
				for i := range ss {
					if r.Bool() {
						ss[i] += randStr(r, alphabet, r.Range(1, 2))
					}
				}
			}
			do(run, "lsdstring", "asc", join("lsdstring", strconv.Itoa(w), strsOp(ss)))
		}
		// outside the precondition: a key shorter than w panics (index out of range) in the first pass
		do(run, "lsdstring", "asc", "lsdstring 2 x6162 x61 x6364")
		do(run, "lsdstring", "asc", "lsdstring 1 x")
	}
	sweeps(run)
	subSlices(run)
	elementTypes(run)
	everySize(run)
	if run.Huge() {
		huge(run)
	}
}

// ---------------------------------------------------------------- Axis 4: element types

var elemTypes = []string{"struct", "ptr", "slice", "string"}

// elementTypes: every comparison sort and Select instantiated with a struct (comparator on one field), a pointer, the
// non-comparable []int{key, id} and a string; `lex` = slices.Compare / strings.Compare on the carrier itself, the
// other comparators look through the carrier at the key.
func elementTypes(run *hx.Run) {
	r := run.R.Fork("types")
	seed := func() string { return strconv.FormatUint(r.U64(), 10) }
	for ai, algo := range append(append([]string{}, cmpAlgos...), "select") {
		for ti, ty := range elemTypes {
			for k := 0; k < run.Scale(2); k++ {
				cmp := cmpNames[(ai+ti+k)%len(cmpNames)]
				if (ty == "slice" || ty == "string") && k == 0 {
					cmp = "lex"
				}
				var ops []string
				for j := 0; j < 3; j++ {
					keys := randKeys(r, pickLen(r))
					if algo == "select" {
						if len(keys) == 0 {
							keys = []int{1}
						}
						ops = append(ops, join("select", strconv.Itoa(r.Intn(len(keys))), elemsOp(keys)))
					} else {
						ops = append(ops, join("sort", algo, elemsOp(keys)))
					}
				}
				for _, n := range []int{17, 65, 257, 1025} {
					mix := elemMixes[(ai+ti+n)%(len(elemMixes)-1)] // not `big`: the un-normalised comparators subtract keys
					if algo == "select" {
						ops = append(ops, join("gselect", strconv.Itoa(n/2), strconv.Itoa(n), mix, seed()))
					} else if slow, _ := sweepLimit(algo, mix, n); !slow || n <= 257 {
						ops = append(ops, join("gsort", algo, strconv.Itoa(n), mix, seed()))
					}
				}
				run.Do(algo, hx.Case{Header: "comp=" + algo + " cmp=" + cmp + " ty=" + ty, Ops: ops}, Exec)
			}
		}
	}
	run.Stats.Extra["element_types"] = "comparison sorts and Select also with struct{string; elem; []int}, *elem, []int{key,id} (slices.Compare) and string (strings.Compare) elements"
}

// ---------------------------------------------------------------- every size 0..200

// everySize: every sort, Select, Shuffle and LSDString on every length from 0 to 200 (thresholds that are not powers of two).
func everySize(run *hx.Run) {
	r := run.R.Fork("everysize")
	rot := int(run.Seed % 1000)
	seed := func() string { return strconv.FormatUint(r.U64(), 10) }
	chunks := func(comp, cmp string, ops []string) {
		for len(ops) > 0 {
			n := min(len(ops), 67)
			do(run, comp, cmp, ops[:n]...)
			ops = ops[n:]
		}
	}
	small := elemMixes[:len(elemMixes)-1] // without `big`
	for ai, algo := range append(append([]string{}, cmpAlgos...), "select") {
		var ops []string
		for n := 0; n <= 200; n++ {
			mix := small[(n+ai+rot)%len(small)]
			if algo == "select" {
				if n > 0 {
					ops = append(ops, join("gselect", strconv.Itoa((n*7+rot)%n), strconv.Itoa(n), mix, seed()))
				}
			} else {
				ops = append(ops, join("gsort", algo, strconv.Itoa(n), mix, seed()))
			}
		}
		chunks(algo, cmpNames[(ai+rot)%len(cmpNames)], ops)
	}
	for ai, algo := range []string{"lsduint", "lsdint", "msduint", "msdint"} {
		var ops []string
		for n := 0; n <= 200; n++ {
			ops = append(ops, join("gsort", algo, strconv.Itoa(n), wordMixes[(n+ai+rot)%len(wordMixes)], seed()))
		}
		chunks(algo, "asc", ops)
	}
	for ai, algo := range []string{"msdstring", "q3string"} {
		var ops []string
		for n := 0; n <= 200; n++ {
			ops = append(ops, join("gsort", algo, strconv.Itoa(n), strMixes[(n+ai+rot)%len(strMixes)], seed(), strconv.Itoa((n+rot)%7)))
		}
		chunks(algo, "asc", ops)
	}
	{
		var ops, sh []string
		for n := 0; n <= 200; n++ {
			ops = append(ops, join("glsdstring", strconv.Itoa(1+(n+rot)%4), strconv.Itoa(n), []string{"fix", "fixlong", "eq"}[(n+rot)%3], seed()))
			sh = append(sh, join("gshuffle", strconv.Itoa(n), seed()))
		}
		chunks("lsdstring", "asc", ops)
		chunks("shuffle", "asc", sh)
	}
	run.Stats.Extra["every_size"] = "every slice length 0..200 for every sort, Select, Shuffle, LSDString"
}

// ---------------------------------------------------------------- hx Huge: 2^17, 2^17+1, 2^20 elements

// huge: every radix sort and every comparison sort that is O(n log n) on the input at 2^17, 2^17+1 and 2^20 elements with
// every bit pattern / both signs / magnitudes up to 2^61 (oracle only: sorted AND a permutation). Too expensive for every
// quick run; runs in the thorough tier, in a witness search and when the digest of a modelled function changed.
func huge(run *hx.Run) {
	r := run.R.Fork("huge")
	seed := func() string { return strconv.FormatUint(r.U64(), 10) }
	one := func(comp, cmp, op string) {
		run.Do(comp, hx.Case{Header: "comp=" + comp + " cmp=" + cmp, Ops: []string{op}, NoModel: true}, Exec)
	}
	for _, n := range []int{1 << 17, 1<<17 + 1, 1 << 20} {
		N := strconv.Itoa(n)
		for _, algo := range []string{"lsduint", "lsdint", "msduint", "msdint"} {
			one(algo, "asc", join("gsort", algo, N, "full", seed()))
			one(algo, "asc", join("gsort", algo, N, "hi", seed()))
			one(algo, "asc", join("gsort", algo, N, "ext", seed()))
		}
		for i, algo := range []string{"shell", "merge", "mergerec", "heap", "quick", "quick3way", "quickcore"} {
			one(algo, cmpNames[i%len(cmpNames)], join("gsort", algo, N, "rand", seed()))
			one(algo, []string{"asc", "desc"}[i%2], join("gsort", algo, N, "big", seed()))
		}
		for _, algo := range []string{"merge", "mergerec", "heap", "shell", "quick"} { // n log n on sorted input too
			one(algo, "asc", join("gsort", algo, N, "desc", seed()))
		}
		one("insertion", "asc", join("gsort insertion", N, "asc", seed())) // linear on sorted input
		one("select", "asc", join("gselect", strconv.Itoa(n/2), N, "rand", seed()))
		one("select", "desc", join("gselect", strconv.Itoa(n-1), N, "big", seed()))
		one("shuffle", "asc", join("gshuffle", N, seed()))
		for _, algo := range []string{"msdstring", "q3string"} {
			one(algo, "asc", join("gsort", algo, N, "pre", seed(), "5"))
			one(algo, "asc", join("gsort", algo, N, "chain", seed(), "12"))
		}
		one("lsdstring", "asc", join("glsdstring", "3", N, "fix", seed()))
	}
	run.Stats.Extra["huge"] = "2^17, 2^17+1, 2^20 elements: the radix sorts on every bit pattern / top 16 bits / extremes, the n log n comparison sorts on random and 2^61-magnitude keys, Select, Shuffle, the string sorts (oracle only)"
}

// ---------------------------------------------------------------- threshold sweeps over the slice length

var sweepSmall = []int{0, 1, 2, 63, 64, 65, 255, 256, 257, 1023, 1024, 1025}
var sweepBig = []int{65535, 65536, 65537, 70000}
var elemMixes = []string{"rand", "few", "eq", "asc", "desc", "saw", "organ", "big"}
var wordMixes = []string{"full", "ext", "small", "dig", "hi", "eq", "asc", "desc"}
var strMixes = []string{"pre", "chain", "rand", "eq"}
var prefixLens = []int{0, 1, 2, 63, 64, 65, 255, 256, 257, 300}

// sweepLimit: what a generated input of n elements in the given mix may be handed to. slow: the Go code itself is
// quadratic there (Selection always; Insertion unless the input is sorted; the unshuffled quick sorts on inputs
// whose first element is the smallest), so it gets at most 4097 elements (1025 in the quick tier). noModel: the Go
// code is fast but the executable Model is not (the Models of Quick and Select run without the shuffle and are
// quadratic on sorted inputs): oracle only. (Merge / MergeRec: the driver runs mergeBUFast / mergeRecFast, proved
// equal to the Model's functions, which rebuild the auxiliary array on every merge.)
func sweepLimit(algo, mix string, n int) (slow, noModel bool) {
	sortedIn := mix == "asc" || mix == "desc" || mix == "organ"
	switch algo {
	case "selection":
		slow = true
	case "insertion":
		slow = mix != "eq" && mix != "asc"
	case "quickcore", "quick3way":
		slow = sortedIn
	case "quick", "select":
		noModel = sortedIn && n > 4097
	}
	return
}

func cmpFor(mix string, i int) string {
	if mix == "big" { // differences of keys up to 2^61 overflow: the normalised comparators only
		return []string{"asc", "desc", "mod3"}[i%3]
	}
	return cmpNames[i%len(cmpNames)]
}

func sweeps(run *hx.Run) {
	r := run.R.Fork("sweeps")
	rot := int(run.Seed % 1000)
	seed := func() string { return strconv.FormatUint(r.U64(), 10) }
	maxSlow := 1025
	if run.Thorough() {
		maxSlow = 4097
	}
	// emit runs the ops that may be compared with the Model as one case and each oracle-only op as a case of its own
	emit := func(comp, cmp string, ops []string, oracleOnly []string) {
		if len(ops) > 0 {
			do(run, comp, cmp, ops...)
		}
		for _, op := range oracleOnly {
			run.Do(comp, hx.Case{Header: "comp=" + comp + " cmp=" + cmp, Ops: []string{op}, NoModel: true}, Exec)
		}
	}
	reps := 2
	bigSizes := []int{65536, []int{65535, 65537, 70000}[rot%3]}
	if run.Thorough() {
		reps = 8
		bigSizes = sweepBig
	}
	// ---- comparison sorts and Select
	for ai, algo := range append(append([]string{}, cmpAlgos...), "select") {
		for rep := 0; rep < reps; rep++ {
			var ops, only []string
			var cmp string
			add := func(n int, mix string) {
				slow, noModel := sweepLimit(algo, mix, n)
				if slow && n > maxSlow {
					return
				}
				var op string
				if algo == "select" {
					k := 0
					if n > 0 {
						k = []int{0, n - 1, n / 2, min(n-1, 63), min(n-1, 64), min(n-1, 255), min(n-1, 256)}[(rep+n)%7]
					}
					op = join("gselect", strconv.Itoa(k), strconv.Itoa(n), mix, seed())
					if n == 0 {
						return // Select on the empty slice panics (k is never in range)
					}
				} else {
					op = join("gsort", algo, strconv.Itoa(n), mix, seed())
				}
				if noModel {
					only = append(only, op)
				} else {
					ops = append(ops, op)
				}
			}
			// one mix per case (the comparator is a property of the case and `big` keys need a normalised one)
			mix := elemMixes[(ai+rep+rot)%len(elemMixes)]
			cmp = cmpFor(mix, ai+rep+rot)
			for _, n := range sweepSmall {
				add(n, mix)
			}
			emit(algo, cmp, ops, only)
			ops, only = nil, nil
			for bi, n := range bigSizes {
				bm := mix
				if rep == 0 && bi == 0 {
					bm = "rand"
				}
				if !run.Thorough() && rep > 0 && bi > 0 {
					continue // quick tier: 65536 in two mixes, one other size
				}
				add(n, bm)
			}
			emit(algo, cmp, ops, only)
		}
		if algo == "select" { // k just outside the range, at the thresholds: the panic must agree with the Model
			for _, n := range []int{1, 64, 256, 1024, 65536} {
				do(run, "select", "asc", join("gselect", strconv.Itoa(n), strconv.Itoa(n), "rand", seed()))
				do(run, "select", "desc", join("gselect", "-1", strconv.Itoa(n), "few", seed()))
			}
		}
	}
	// ---- Shuffle
	{
		var ops []string
		for _, n := range append(append([]int{}, sweepSmall...), bigSizes...) {
			ops = append(ops, join("gshuffle", strconv.Itoa(n), seed()))
		}
		do(run, "shuffle", "asc", ops...)
	}
	// ---- radix sorts on machine words
	for ai, algo := range []string{"lsduint", "lsdint", "msduint", "msdint"} {
		for rep := 0; rep < reps; rep++ {
			mix := wordMixes[(ai+rep+rot)%len(wordMixes)]
			var ops []string
			for _, n := range sweepSmall {
				ops = append(ops, join("gsort", algo, strconv.Itoa(n), mix, seed()))
			}
			do(run, algo, "asc", ops...)
			ops = nil
			for bi, n := range bigSizes {
				bm := mix
				if rep == 0 && bi == 0 {
					bm = "full" // every run: 65536 words of every bit pattern
				}
				if !run.Thorough() && rep > 0 && bi > 0 {
					continue
				}
				ops = append(ops, join("gsort", algo, strconv.Itoa(n), bm, seed()))
			}
			do(run, algo, "asc", ops...)
		}
	}
	// ---- radix sorts on strings: the slice length (short strings), and the length of the common prefix (40 and 10
	// strings: above and below the insertion-sort cutoff; once 300 strings)
	for ai, algo := range []string{"msdstring", "q3string"} {
		for rep := 0; rep < reps; rep++ {
			mix := strMixes[(ai+rep+rot)%len(strMixes)]
			var ops []string
			for _, n := range sweepSmall {
				ops = append(ops, join("gsort", algo, strconv.Itoa(n), mix, seed(), strconv.Itoa([]int{0, 1, 3, 8}[(rep+n)%4])))
			}
			do(run, algo, "asc", ops...)
			ops = nil
			for bi, n := range bigSizes {
				if !run.Thorough() && rep > 0 && bi > 0 {
					continue
				}
				ops = append(ops, join("gsort", algo, strconv.Itoa(n), mix, seed(), strconv.Itoa([]int{2, 5, 8}[(rep+bi)%3])))
			}
			do(run, algo, "asc", ops...)
			ops = nil
			for _, L := range prefixLens {
				ops = append(ops, join("gsort", algo, "40", mix, seed(), strconv.Itoa(L)), join("gsort", algo, "10", strMixes[(rep+L)%3], seed(), strconv.Itoa(L)))
			}
			ops = append(ops, join("gsort", algo, "300", "chain", seed(), "300"), join("gsort", algo, "300", "pre", seed(), "257"))
			do(run, algo, "asc", ops...)
		}
	}
	// ---- LSDString: the width w, and the slice length
	for rep := 0; rep < reps; rep++ {
		mix := []string{"fix", "fixlong", "eq"}[(rep+rot)%3]
		var ops []string
		for _, w := range prefixLens {
			ops = append(ops, join("glsdstring", strconv.Itoa(w), strconv.Itoa(r.Range(20, 40)), mix, seed()))
		}
		do(run, "lsdstring", "asc", ops...)
		ops = nil
		for _, n := range sweepSmall {
			ops = append(ops, join("glsdstring", strconv.Itoa(1+(rep+n)%4), strconv.Itoa(n), mix, seed()))
		}
		for bi, n := range bigSizes {
			if !run.Thorough() && rep > 0 && bi > 0 {
				continue
			}
			ops = append(ops, join("glsdstring", strconv.Itoa(2+rep%2), strconv.Itoa(n), mix, seed()))
		}
		do(run, "lsdstring", "asc", ops...)
	}
	run.Stats.Extra["threshold_sweeps"] = fmt.Sprintf("slice length 0/1/2, 63-65, 255-257, 1023-1025 and %v for every sort, Select and Shuffle (quadratic code paths up to %d), "+
		"%d value mixes per sort; common prefix / key width 0/1/2, 63-65, 255-257, 300 for the string sorts", bigSizes, maxSlow, reps)
}

// ---------------------------------------------------------------- sub-slices of one backing array, sorted one after the other

func subSlices(run *hx.Run) {
	r := run.R.Fork("subslices")
	algos := append(append([]string{}, cmpAlgos...), "lsduint", "lsdint", "msduint", "msdint", "msdstring", "q3string")
	for _, algo := range algos {
		for k := 0; k < run.Scale(6); k++ {
			n := r.Range(2, 44)
			var body string
			switch {
			case isWordAlgo(algo):
				body = wordsOp(randWords(r, n), signedAlgo(algo))
			case isStrAlgo(algo):
				body = strsOp(randStrs(r, n, -1))
			default:
				body = elemsOp(randKeys(r, n))
			}
			var ops []string
			for j := 0; j < 3; j++ {
				lo := r.Intn(n)
				hi := r.Range(lo, n)
				if r.Chance(1, 4) {
					lo, hi = 0, n
				}
				ops = append(ops, join("sub", algo, strconv.Itoa(lo), strconv.Itoa(hi), body))
				// two sub-slices of the same array, the second sorted after the first: overlapping, or (always for the
				// public Quick, whose order inside runs of equal elements depends on the clock) the second containing the first
				lo1 := r.Intn(n)
				hi1 := r.Range(lo1, n)
				lo2 := r.Range(0, lo1)
				hi2 := r.Range(hi1, n)
				if algo != "quick" && r.Bool() {
					lo2 = r.Range(lo1, hi1)
					hi2 = r.Range(max(hi1, lo2), n)
				}
				ops = append(ops, join("alias", algo, strconv.Itoa(lo1), strconv.Itoa(hi1), strconv.Itoa(lo2), strconv.Itoa(hi2), body))
			}
			do(run, algo, cmpNames[k%len(cmpNames)], ops...)
		}
	}
}
