// Package c16: the three set implementations (unordered, stable, sorted), their set algebra with
// mixed-implementation operands, Powerset and Partitions, against map[int]bool.
package c16

import (
	"fmt"
	"iter"
	"math/rand"
	"runtime"
	"sort"
	"strconv"
	"strings"
	"sync"
	"sync/atomic"
	"time"

	"github.com/moorara/algo/set"

	"verifharness/hx"
)

const Rule = "cases = (register kinds: u unordered, s stable, sorted with comparator a/d = -1,0,+1 ascending/descending, b = a-b, " +
	"c = 7*(a-b), e = b-a; shuffle script; op list) from VERIF_SEED over universes of 4-40 ints: New(vals...)/" +
	"NewWithFormat/NewStableWithFormat/NewSortedWithFormat(format, vals...) with the custom formats A <a;b>, B [a|b], N 2:(a b)/Add/Remove (also " +
	"repeating a value inside one call)/RemoveAll/Contains/Size/All/String/Equal/IsSubset/IsSuperset (also of a set with itself)/" +
	"Clone/CloneEmpty/AnyMatch/AllMatch/FirstMatch/SelectMatch/PartitionMatch/Union/Intersection/Difference with 0-6 operands of " +
	"any mix (the receiver itself, the same operand twice), Powerset n<=7, Partitions n<=6, and edits of every member of a " +
	"Powerset/Partitions result; aliasing cases edit every result (Clone/Union/Intersection/Difference/SelectMatch/PartitionMatch) " +
	"and then the operands, at sizes 3-17; every slice handed to the package as a variadic argument (values of New*/Add/Remove/" +
	"Contains, operands of Union/Intersection/Difference) is a private copy that the harness overwrites and appends to right after the call; " +
	"iterators used as a for-range loop does not: all2 (one iter.Seq run, another set traversed, the same Seq run again), allnest (All() inside All(), " +
	"also of the same set), allpull (two iter.Pull iterators, also over the same set, advanced alternately), allbreak (a traversal abandoned " +
	"half-way, then a full one), allthen / allrerun (a sequence obtained, [run,] the set changed by Add/Remove/RemoveAll, the sequence run: a sequence is a handle on its set, " +
	"every run lists — and for the unordered set shuffles, one draw — the members the set has then), allnever (a sequence obtained and never run: no draw); deterministic size families on every check: fam=size (per implementation 63-65, 255-257, 1023-1025 members " +
	"— thorough also 127-129, 511-513, 2047-2049, 4097 and all 7 comparators x 4 ways of building (one Add per value ascending / descending / evens then " +
	"odds, one variadic Add) x 4 ways of shrinking (one Remove per value from the front / from the second-to-last member down / every second, one " +
	"variadic Remove) — down to a fifth, to nothing, and up again: after EVERY single Add/Remove of addseq/removeseq Size and Contains of the value, its " +
	"neighbours and both ends are checked, and at every size within 2 (above 5000: within 1 of a power of two) of c, c/2, c/4, 3c/4 for the capacities c of a growing Go slice the whole set " +
	"(All, String, Size, IsEmpty; up to 300 members and within 1 of every power of two also Equal/IsSubset/IsSuperset against a set of the oracle's members and against that set plus one), " +
	"fam=algebra-size (Difference/Intersection/Union leaving a fifth of a 256-1025 member receiver, all nine pairings of " +
	"implementations, a set minus itself), fam=algebra-mix (two dimensions at once: sets of 64, 65, 128, 129, 256, 257 members under all seven " +
	"comparators/implementations, ranges overlapping heavily and lightly, every ordered pairing in Union/Intersection/Difference and calls with three to five operands; at 1024 the " +
	"sorted pairings), fam=typed (header elem=string|struct|ptr|slice|sbox|any: the three implementations with element types string, a struct, a fresh pointer per value, " +
	"[]int, a struct holding a slice, any holding int/string/[]int/such a struct by turns; equal/compare/format decide on the integer an element stands for, so the output lines are " +
	"the Model's; Add/Remove/RemoveAll/Contains/Size/IsEmpty/All/String/Equal/IsSubset/IsSuperset/Clone/CloneEmpty/Union/Intersection/Difference), fam=every-size (the multi-operand mixed-comparator algebra at every size 0-200), fam=iter, fam=extreme (members 0, -1, 2^31, 2^32, MaxInt64, MinInt64 for the comparators that do not subtract), " +
	"fam=big (65537 members — thorough also 65535, 65536 and the unordered and stable sets —, oracle only, counted as oracle_only_cases: the list-backed " +
	"Model is quadratic there); every register other than the destination is compared with its String() snapshot " +
	"after every op; String() of every set object an op creates or changes is parsed in the format the object must carry " +
	"(the constructor's; for Clone/CloneEmpty/Union/Intersection/Difference/SelectMatch/PartitionMatch the receiver's, whatever " +
	"the operands carry) and compared with the mathematical set and the required order; Powerset(s).String()/Partitions(s).String() " +
	"(powerstr/partstr) must show every member in the format of s; cases with src=global run on the package's own random " +
	"source (no scripted shuffle) and contain only operations whose canonical output does not depend on the iteration " +
	"order of an unordered set. non-trivial = the history contains a set-algebra call whose receiver and operands use at least two " +
	"different implementations or carry at least two different formats, and are not all empty, or an effective Remove followed by a later observation of that register, " +
	"or a sorted insert at a non-final position, or Powerset/Partitions with n>=3; distinct = distinct (header, op list)"

// ---------------------------------------------------------------- scripted shuffle source

// scripted is the rand.Source put behind /repo/set's package-level r: a 32-bit LCG whose state is the
// value (*Rand).Uint32 returns.  lean/AlgoVerif/Driver/C16.lean carries the same LCG and the mirror of
// math/rand's Shuffle/int31n, so the Model sees the same permutations.
type scripted struct{ x uint32 }

func (s *scripted) Int63() int64 {
	s.x = s.x*1664525 + 1013904223
	return int64(s.x) << 31
}
func (s *scripted) Seed(int64) {}

// ---------------------------------------------------------------- oracle (independent of /repo/set)

type oreg struct {
	kind  byte         // 'u' unordered, 's' stable, sorted ascending: 'a' (-1/0/+1) 'b' (a-b) 'c' (7*(a-b)), descending: 'd' (+1/0/-1) 'e' (b-a)
	m     map[int]bool // the mathematical set
	order []int        // stable: insertion order (meaningless for the other kinds)
	fmt   byte         // the format String() must use: '-' default {a, b}; 'A' <a;b>; 'B' [a|b]; 'N' 2:(a b)
}

func newOreg(kind byte) *oreg { return &oreg{kind: kind, m: map[int]bool{}, fmt: '-'} }

// newOregF: an empty oracle register whose String() must use format f
func newOregF(kind, f byte) *oreg { return &oreg{kind: kind, m: map[int]bool{}, fmt: f} }

func (o *oreg) clone() *oreg {
	c := newOregF(o.kind, o.fmt)
	for k := range o.m {
		c.m[k] = true
	}
	c.order = append([]int{}, o.order...)
	return c
}

func (o *oreg) add(v int) {
	if !o.m[v] {
		o.m[v] = true
		o.order = append(o.order, v)
	}
}

func (o *oreg) remove(v int) {
	if o.m[v] {
		delete(o.m, v)
		// searched from both ends (the long removal sequences take members from either end); no two registers
		// share an order slice (clone copies it), so the tail is shifted in place
		for lo, hi := 0, len(o.order)-1; lo <= hi; lo, hi = lo+1, hi-1 {
			i := -1
			if o.order[lo] == v {
				i = lo
			} else if o.order[hi] == v {
				i = hi
			}
			if i >= 0 {
				copy(o.order[i:], o.order[i+1:])
				o.order = o.order[:len(o.order)-1]
				break
			}
		}
	}
}

func (o *oreg) sortedAsc() []int {
	xs := make([]int, 0, len(o.m))
	for k := range o.m {
		xs = append(xs, k)
	}
	sort.Ints(xs)
	return xs
}

// sizeMarks: the sizes at which a sequence of single Adds / Removes is examined in full (every step is examined
// cheaply): within 2 (above 5000: within 1 of a power of two, else exactly) of c, c/2, c/4 and 3c/4 for the capacities c a Go slice of ints takes
// while it grows by append: the powers of two up to 2^17 and the 1.25x steps between 512 and 12288.
var sizeMarks = func() map[int]bool {
	m := map[int]bool{}
	mark := func(c int) {
		for _, x := range []int{c, c / 2, c / 4, 3 * c / 4} {
			w := 2
			if x > 5000 { // a full examination of a very large set takes milliseconds
				w = 0
				if x&(x-1) == 0 {
					w = 1
				}
			}
			for d := -w; d <= w; d++ {
				if x+d >= 0 {
					m[x+d] = true
				}
			}
		}
	}
	for c := 1; c <= 1<<17; c *= 2 {
		mark(c)
	}
	for _, c := range []int{848, 1280, 1792, 2560, 3408, 5120, 7168, 9216, 12288} {
		mark(c)
	}
	return m
}()

// expected iteration order, nil when unspecified (unordered)
func (o *oreg) expectedOrder() []int {
	switch o.kind {
	case 's':
		return o.order
	case 'a', 'b', 'c':
		return o.sortedAsc()
	case 'd', 'e':
		xs := o.sortedAsc()
		for i, j := 0, len(xs)-1; i < j; i, j = i+1, j-1 {
			xs[i], xs[j] = xs[j], xs[i]
		}
		return xs
	}
	return nil
}

func eqInt(a, b int) bool { return a == b }
func cmpAsc(a, b int) int {
	switch {
	case a < b:
		return -1
	case a > b:
		return 1
	}
	return 0
}
func cmpDesc(a, b int) int { return cmpAsc(b, a) }

// comparators whose values are not normalised to -1/0/+1
func cmpSub(a, b int) int    { return a - b }
func cmpSub7(a, b int) int   { return 7 * (a - b) }
func cmpRevSub(a, b int) int { return b - a }

func isAscKind(k byte) bool  { return k == 'a' || k == 'b' || k == 'c' }
func isDescKind(k byte) bool { return k == 'd' || k == 'e' }

func newSet(kind byte, vals ...int) set.Set[int] {
	switch kind {
	case 'u':
		return set.New[int](eqInt, vals...)
	case 's':
		return set.NewStable[int](eqInt, vals...)
	case 'a':
		return set.NewSorted[int](cmpAsc, vals...)
	case 'd':
		return set.NewSorted[int](cmpDesc, vals...)
	case 'b':
		return set.NewSorted[int](cmpSub, vals...)
	case 'c':
		return set.NewSorted[int](cmpSub7, vals...)
	case 'e':
		return set.NewSorted[int](cmpRevSub, vals...)
	}
	return nil
}

// ---------------------------------------------------------------- custom formats

const formatLetters = "ABN"

func joinInts(xs []int, sep string) string {
	ss := make([]string, len(xs))
	for i, x := range xs {
		ss[i] = strconv.Itoa(x)
	}
	return strings.Join(ss, sep)
}

// the StringFormat values handed to New…WithFormat
func formatFunc(f byte) set.StringFormat[int] {
	switch f {
	case 'A':
		return func(ms []int) string { return "<" + joinInts(ms, ";") + ">" }
	case 'B':
		return func(ms []int) string { return "[" + joinInts(ms, "|") + "]" }
	case 'N':
		return func(ms []int) string { return strconv.Itoa(len(ms)) + ":(" + joinInts(ms, " ") + ")" }
	}
	return nil
}

func newSetF(kind, f byte, vals ...int) set.Set[int] {
	ff := formatFunc(f)
	if ff == nil {
		return nil
	}
	switch kind {
	case 'u':
		return set.NewWithFormat[int](eqInt, ff, vals...)
	case 's':
		return set.NewStableWithFormat[int](eqInt, ff, vals...)
	case 'a':
		return set.NewSortedWithFormat[int](cmpAsc, ff, vals...)
	case 'd':
		return set.NewSortedWithFormat[int](cmpDesc, ff, vals...)
	case 'b':
		return set.NewSortedWithFormat[int](cmpSub, ff, vals...)
	case 'c':
		return set.NewSortedWithFormat[int](cmpSub7, ff, vals...)
	case 'e':
		return set.NewSortedWithFormat[int](cmpRevSub, ff, vals...)
	}
	return nil
}

// parseStr reads String() output back (the oracle's own reader of the four formats, written from their
// description, not from formatFunc): the members in the order printed, false when str is not in format f.
func parseStr(f byte, str string) ([]int, bool) {
	var open, sep, cls string
	switch f {
	case '-':
		open, sep, cls = "{", ", ", "}"
	case 'A':
		open, sep, cls = "<", ";", ">"
	case 'B':
		open, sep, cls = "[", "|", "]"
	case 'N':
		k := strings.Index(str, ":")
		if k <= 0 {
			return nil, false
		}
		n, err := strconv.Atoi(str[:k])
		if err != nil || n < 0 || strconv.Itoa(n) != str[:k] {
			return nil, false
		}
		xs, ok := parseBody(str[k+1:], "(", " ", ")")
		return xs, ok && len(xs) == n
	default:
		return nil, false
	}
	return parseBody(str, open, sep, cls)
}

func parseBody(str, open, sep, cls string) ([]int, bool) {
	if len(str) < len(open)+len(cls) || !strings.HasPrefix(str, open) || !strings.HasSuffix(str, cls) {
		return nil, false
	}
	body := str[len(open) : len(str)-len(cls)]
	if body == "" {
		return nil, true
	}
	var xs []int
	for _, w := range strings.Split(body, sep) {
		v, err := strconv.Atoi(w)
		if err != nil || strconv.Itoa(v) != w {
			return nil, false
		}
		xs = append(xs, v)
	}
	return xs, true
}

// openToken: the text with which a printed member set in format f starts being recognisable
func openToken(f byte) string {
	switch f {
	case 'A':
		return "<"
	case 'B':
		return "["
	case 'N':
		return ":("
	}
	return "{"
}

// scribble overwrites a slice that was passed to the set package as a variadic argument (and appends to it):
// the values belong to the caller again once the call has returned.
func scribble(xs []int) {
	for i := range xs {
		xs[i] = scribbleValue - i
	}
	_ = append(xs, scribbleValue, scribbleValue)
}

const scribbleValue = -7777777

var nobody = set.New[int](eqInt, scribbleValue)

func scribbleSets(xs []set.Set[int]) {
	for i := range xs {
		xs[i] = nobody
	}
}

// the predicates of the match operations
func parsePred(w string) func(int) bool {
	kv := strings.SplitN(w, ":", 2)
	switch kv[0] {
	case "ge", "lt":
		if len(kv) != 2 {
			return nil
		}
		k, err := strconv.Atoi(kv[1])
		if err != nil {
			return nil
		}
		if kv[0] == "ge" {
			return func(x int) bool { return x >= k }
		}
		return func(x int) bool { return x < k }
	case "odd":
		if len(kv) == 1 {
			return func(x int) bool { return x%2 != 0 }
		}
	case "even":
		if len(kv) == 1 {
			return func(x int) bool { return x%2 == 0 }
		}
	}
	return nil
}

func intsStr(xs []int) string {
	ss := make([]string, len(xs))
	for i, x := range xs {
		ss[i] = strconv.Itoa(x)
	}
	return "[" + strings.Join(ss, " ") + "]"
}

func sameInts(a, b []int) bool {
	if len(a) != len(b) {
		return false
	}
	for i := range a {
		if a[i] != b[i] {
			return false
		}
	}
	return true
}

func sortedCopy(xs []int) []int {
	c := append([]int{}, xs...)
	sort.Ints(c)
	return c
}

func lexLess(a, b []int) bool {
	for i := 0; i < len(a) && i < len(b); i++ {
		if a[i] != b[i] {
			return a[i] < b[i]
		}
	}
	return len(a) < len(b)
}

func lexLess2(a, b [][]int) bool {
	for i := 0; i < len(a) && i < len(b); i++ {
		if lexLess(a[i], b[i]) {
			return true
		}
		if lexLess(b[i], a[i]) {
			return false
		}
	}
	return len(a) < len(b)
}

func llStr(l [][]int) string {
	ss := make([]string, len(l))
	for i, x := range l {
		ss[i] = intsStr(x)
	}
	return "[" + strings.Join(ss, " ") + "]"
}

var bell = []int{1, 1, 2, 5, 15, 52, 203, 877, 4140}

// ---------------------------------------------------------------- Exec

// caseLimit is the watchdog for one case (a case normally takes well under 100 ms).
const caseLimit = 30 * time.Second

// bigCaseLimit: the same for the cases of the family fam=big (up to a minute of quadratic work on the linear-search sets).
const bigCaseLimit = 90 * time.Second

// hung is set once a case did not return: Main then stops generating (the leaked goroutine keeps a CPU
// busy and may still draw from the package-level shuffle, so later comparisons would be noise).
var hung atomic.Bool

type published struct {
	mu        sync.Mutex
	res       hx.Result
	abandoned atomic.Bool
}

// Exec runs one case on the real set package under a watchdog.
func Exec(c hx.Case) hx.Result {
	pub := &published{res: hx.Result{BadOp: -1}}
	done := make(chan struct{})
	go func() {
		defer close(done)
		execCase(c, pub)
	}()
	limit := caseLimit
	if hx.HeaderGet(c.Header, "fam") == "big" {
		// 65536 members: one variadic Add of the unordered and the stable set is 2*10^9 calls of equal (seconds)
		limit = bigCaseLimit
	}
	select {
	case <-done:
		return pub.res
	case <-time.After(limit):
	}
	pub.abandoned.Store(true)
	hung.Store(true)
	pub.mu.Lock()
	res := pub.res
	res.Outs = append(append([]string{}, res.Outs...), "hang")
	pub.mu.Unlock()
	if res.BadOp < 0 {
		res.BadOp = len(res.Outs) - 1
		op := "?"
		if res.BadOp < len(c.Ops) {
			op = c.Ops[res.BadOp]
		}
		res.What = fmt.Sprintf("%s did not return within %v", op, limit)
	}
	res.Tags = append(res.Tags, "hang")
	return res
}

func execCase(c hx.Case, pub *published) {
	if el := hx.HeaderGet(c.Header, "elem"); el != "" && el != "int" {
		execTypedCase(c, pub, el) // typed.go
		return
	}
	res := hx.Result{BadOp: -1}
	publish := func() {
		pub.mu.Lock()
		pub.res = res
		pub.mu.Unlock()
	}
	defer publish()
	bad := func(i int, format string, a ...any) {
		if res.BadOp < 0 {
			res.BadOp = i
			res.What = fmt.Sprintf(format, a...)
		}
	}
	tags := map[string]bool{}
	if hx.HeaderGet(c.Header, "comp") != "reg" {
		for range c.Ops {
			res.Outs = append(res.Outs, "bad-case")
		}
		return
	}
	kinds := hx.HeaderGet(c.Header, "regs")
	shSeed, _ := strconv.ParseUint(hx.HeaderGet(c.Header, "sh"), 10, 32)
	script := &scripted{x: uint32(shSeed)}
	checkSrc := rand.NewSource(int64(shSeed) + 977)
	// a case the watchdog gave up on must not touch the package-level shuffle any more
	stopIfAbandoned := func() {
		if pub.abandoned.Load() {
			runtime.Goexit()
		}
	}
	// src=global: the operations run on the package's own generator (rand.New(globalSource{})); such a case
	// only contains operations whose canonical output does not depend on what that generator yields
	globalSrc := hx.HeaderGet(c.Header, "src") == "global"
	if globalSrc {
		tags["src=global"] = true
	}
	if fam := hx.HeaderGet(c.Header, "fam"); fam != "" {
		tags["fam="+fam] = true
	}
	opMode := func() {
		stopIfAbandoned()
		if globalSrc {
			set.VerifSetShuffleDefault()
		} else {
			set.VerifSetShuffleSource(script)
		}
	}
	checkMode := func() { stopIfAbandoned(); set.VerifSetShuffleSource(checkSrc) }

	regs := make([]set.Set[int], len(kinds))
	orc := make([]*oreg, len(kinds))
	for i := range regs {
		regs[i] = newSet(kinds[i])
		if regs[i] == nil {
			for range c.Ops {
				res.Outs = append(res.Outs, "bad-case")
			}
			return
		}
		orc[i] = newOreg(kinds[i])
	}
	// members as iterated, read with the harness's own shuffle source
	members := func(s set.Set[int]) []int {
		checkMode()
		var xs []int
		for v := range s.All() {
			xs = append(xs, v)
		}
		return xs
	}
	// does the implementation's object agree with the oracle register (content, size, order)?
	agree := func(i int, what string, s set.Set[int], o *oreg) {
		ms := members(s)
		asc, exp := o.sortedAsc(), o.expectedOrder()
		if !sameInts(sortedCopy(ms), asc) {
			bad(i, "%s holds %v, the mathematical set is %v", what, sortedCopy(ms), asc)
			return
		}
		if s.Size() != len(o.m) {
			bad(i, "%s: Size() = %d with %d members", what, s.Size(), len(o.m))
		}
		if s.IsEmpty() != (len(o.m) == 0) {
			bad(i, "%s: IsEmpty() = %v with %d members", what, s.IsEmpty(), len(o.m))
		}
		if exp != nil && !sameInts(ms, exp) {
			bad(i, "%s (kind %c) iterates as %v, required order is %v", what, o.kind, ms, exp)
		}
		// String(): in the format this object must carry, over the same members (in the required order)
		str := s.String()
		got, okFmt := parseStr(o.fmt, str)
		if !okFmt {
			bad(i, "%s: String() = %q is not in format %c", what, str, o.fmt)
		} else if !sameInts(sortedCopy(got), asc) {
			bad(i, "%s: String() = %q, the set is %v", what, str, asc)
		} else if exp != nil && !sameInts(got, exp) {
			bad(i, "%s: String() of kind %c = %q, required order %v", what, o.kind, str, exp)
		}
		if o.fmt != '-' {
			tags["format="+string(o.fmt)] = true
		}
	}
	removedHit := map[int]bool{} // registers with an effective Remove not yet observed
	nontrivial := false

	for i, op := range c.Ops {
		stopIfAbandoned()
		publish()
		f := strings.Fields(op)
		out := "bad-op"
		snap := make([]string, len(regs))
		for k, s := range regs {
			snap[k] = s.String()
		}
		dst, dst2 := -1, -1 // the registers the op is allowed to change
		reg := func(w string) int {
			k, err := strconv.Atoi(w)
			if err != nil || k < 0 || k >= len(regs) {
				return -1
			}
			return k
		}
		ints := func(ws []string) ([]int, bool) {
			xs := make([]int, len(ws))
			for k, w := range ws {
				v, err := strconv.Atoi(w)
				if err != nil {
					return nil, false
				}
				xs[k] = v
			}
			return xs, true
		}
		observe := func(k int) {
			if removedHit[k] {
				nontrivial = true
				tags["remove-hit-then-observed"] = true
			}
		}
		kind := hx.Try(func() {
			if len(f) == 0 {
				return
			}
			switch f[0] {
			case "add", "remove", "contains":
				if len(f) < 2 {
					return
				}
				k := reg(f[1])
				vs, ok := ints(f[2:])
				if k < 0 || !ok {
					return
				}
				s, o := regs[k], orc[k]
				opMode()
				// the variadic argument is a slice the caller owns: it is written to right after the call
				// (scribble), so a set that kept it instead of copying the values out is exposed at once
				arg := append([]int{}, vs...)
				switch f[0] {
				case "add":
					dst = k
					s.Add(arg...)
					scribble(arg)
					for vi, v := range vs {
						for _, w := range vs[:vi] {
							if w == v {
								tags["add-repeats-value-in-one-call"] = true
							}
						}
						if o.m[v] {
							tags["add-duplicate"] = true
						} else if isAscKind(o.kind) || isDescKind(o.kind) {
							last := true
							for x := range o.m {
								if (isAscKind(o.kind) && x > v) || (isDescKind(o.kind) && x < v) {
									last = false
								}
							}
							if !last {
								tags["sorted-insert-not-last"] = true
								nontrivial = true
							}
						}
						o.add(v)
					}
					out = "ok"
					agree(i, "after Add the set", s, o)
				case "remove":
					dst = k
					s.Remove(arg...)
					scribble(arg)
					for _, v := range vs {
						if o.m[v] {
							tags["remove-hit"] = true
							removedHit[k] = true
						} else {
							tags["remove-miss"] = true
						}
						o.remove(v)
					}
					out = "ok"
					agree(i, "after Remove the set", s, o)
				case "contains":
					got := s.Contains(arg...)
					scribble(arg)
					want := true
					for _, v := range vs {
						want = want && o.m[v]
					}
					out = "ok " + strconv.FormatBool(got)
					if got != want {
						bad(i, "Contains(%v) = %v on %v", vs, got, o.sortedAsc())
					}
					observe(k)
				}
			case "addseq", "addvar", "removeseq", "removevar":
				// <op> i lo n step: the n values lo, lo+step, … — `seq`: one Add / Remove call per value, the set
				// examined after EVERY call; `var`: one variadic call
				if len(f) != 5 {
					return
				}
				k := reg(f[1])
				ps, ok := ints(f[2:])
				if k < 0 || !ok || ps[1] < 0 || ps[1] > 1<<20 {
					return
				}
				lo, cnt, st := ps[0], ps[1], ps[2]
				s, o := regs[k], orc[k]
				opMode()
				dst = k
				adding := strings.HasPrefix(f[0], "add")
				name := "Remove"
				if adding {
					name = "Add"
				}
				vals := make([]int, cnt)
				for j := range vals {
					vals[j] = lo + j*st
				}
				apply := func(v int) {
					if adding {
						o.add(v)
						return
					}
					if o.m[v] {
						tags["remove-hit"] = true
						removedHit[k] = true
					}
					o.remove(v)
				}
				if strings.HasSuffix(f[0], "var") {
					arg := append([]int{}, vals...)
					if adding {
						s.Add(arg...)
					} else {
						s.Remove(arg...)
					}
					scribble(arg)
					for _, v := range vals {
						apply(v)
					}
				} else {
					sortedKind := isAscKind(o.kind) || isDescKind(o.kind)
					for j, v := range vals {
						if adding {
							s.Add(v)
						} else {
							s.Remove(v)
						}
						apply(v)
						n := len(o.m)
						if s.Size() != n {
							bad(i, "step %d, %s(%d): Size() = %d, the set has %d members", j, name, v, s.Size(), n)
						}
						// Contains is linear for two of the implementations: at the very large sizes a sample of the steps
						if sortedKind || n <= 5000 || j%53 == 0 || sizeMarks[n] {
							if got := s.Contains(v); got != adding {
								bad(i, "step %d, after %s(%d): Contains(%d) = %v", j, name, v, v, got)
							}
							for _, w := range []int{v + st, v - st, lo, vals[cnt-1]} {
								if got := s.Contains(w); got != o.m[w] {
									bad(i, "step %d, after %s(%d): Contains(%d) = %v, want %v", j, name, v, w, got, o.m[w])
								}
							}
						}
						if sizeMarks[n] {
							tags["seq-examined-at-size-mark"] = true
							agree(i, fmt.Sprintf("step %d, after %s(%d) the set", j, name, v), s, o)
							// Equal / IsSubset / IsSuperset against a set built from the oracle's members, and against
							// that set with one member more
							// (above 300 members only within 1 of a power of two: the relations are quadratic for two of the
							// implementations)
							if pow := n&(n-1) == 0 || (n+1)&n == 0 || (n-1)&(n-2) == 0; n <= 300 || pow {
								ref := set.NewSorted[int](cmpAsc, o.sortedAsc()...)
								if !s.Equal(ref) || !ref.Equal(s) || !s.IsSubset(ref) || !s.IsSuperset(ref) {
									bad(i, "step %d, after %s(%d): the set is not Equal to / subset / superset of a set of its %d members", j, name, v, n)
								}
								ref.Add(scribbleValue)
								if s.Equal(ref) || ref.Equal(s) || !s.IsSubset(ref) || s.IsSuperset(ref) {
									bad(i, "step %d, after %s(%d): wrong relation to the set of its %d members plus one", j, name, v, n)
								}
							}
						}
						if res.BadOp >= 0 {
							break
						}
					}
				}
				out = "ok"
				agree(i, "after "+f[0]+" the set", s, o)
				tags[f[0]] = true
				for _, t := range []int{64, 256, 1024, 4096, 65536} {
					if len(o.m) > t || (!adding && cnt > t) {
						tags["set-size>"+strconv.Itoa(t)] = true
					}
				}
				nontrivial = true
			case "allthen", "allrerun", "allnever":
				// a sequence is a handle on its set: allthen i <mutation> = seq := All(); mutate; run seq (the run lists the
				// members the set has THEN); allrerun i <mutation> = seq := All(); run; mutate; run again; allnever i = a
				// sequence obtained and never run (nothing is drawn from the shuffle source). <mutation> = add v… |
				// remove v… | removeall
				if len(f) < 2 {
					return
				}
				k := reg(f[1])
				if k < 0 {
					return
				}
				s, o := regs[k], orc[k]
				opMode()
				seq := s.All()
				if f[0] == "allnever" {
					if len(f) != 2 {
						return
					}
					_ = seq
					out = "ok"
					tags[f[0]] = true
					return
				}
				if len(f) < 3 {
					return
				}
				vs, ok := ints(f[3:])
				if !ok || (f[2] != "add" && f[2] != "remove" && f[2] != "removeall") || (f[2] == "removeall" && len(vs) > 0) {
					return
				}
				collect := func() []int {
					var xs []int
					for v := range seq {
						xs = append(xs, v)
					}
					return xs
				}
				canon := func(ms []int) string {
					if o.kind == 'u' {
						return intsStr(sortedCopy(ms))
					}
					return intsStr(ms)
				}
				judge := func(what string, ms []int) {
					if !sameInts(sortedCopy(ms), o.sortedAsc()) {
						bad(i, "%s yields %v, the set is %v", what, ms, o.sortedAsc())
					} else if exp := o.expectedOrder(); exp != nil && !sameInts(ms, exp) {
						bad(i, "%s of kind %c yields %v, required order %v", what, o.kind, ms, exp)
					}
				}
				dst = k
				outs := ""
				if f[0] == "allrerun" {
					before := collect()
					judge("All(), run before the change,", before)
					outs = " " + canon(before)
				}
				arg := append([]int{}, vs...)
				switch f[2] {
				case "add":
					s.Add(arg...)
					for _, v := range vs {
						o.add(v)
					}
				case "remove":
					s.Remove(arg...)
					for _, v := range vs {
						if o.m[v] {
							tags["remove-hit"] = true
						}
						o.remove(v)
					}
				default:
					s.RemoveAll()
					o.m = map[int]bool{}
					o.order = nil
				}
				scribble(arg)
				after := collect()
				judge("a sequence obtained before "+f[2]+" and run after it", after)
				out = "ok" + outs + " " + canon(after)
				agree(i, "after "+f[0]+" the set", s, o)
				tags[f[0]] = true
				tags[f[0]+"-"+f[2]] = true
				nontrivial = true
			case "all2", "allnest", "allpull", "allbreak":
				// iterators used in the ways a for-range loop does not: the same iter.Seq run twice (with a traversal
				// of another set in between), All() inside All(), two pulled iterators advanced alternately, a
				// traversal abandoned half-way
				if len(f) != 3 {
					return
				}
				a, b := reg(f[1]), reg(f[2])
				if a < 0 || (f[0] != "allbreak" && b < 0) {
					return
				}
				oa := orc[a]
				opMode()
				collect := func(seq iter.Seq[int]) []int {
					var xs []int
					for v := range seq {
						xs = append(xs, v)
					}
					return xs
				}
				canon := func(o *oreg, ms []int) string {
					if o.kind == 'u' {
						return intsStr(sortedCopy(ms))
					}
					return intsStr(ms)
				}
				judge := func(what string, o *oreg, ms []int) {
					if !sameInts(sortedCopy(ms), o.sortedAsc()) {
						bad(i, "%s yields %v, the set is %v", what, ms, o.sortedAsc())
					} else if exp := o.expectedOrder(); exp != nil && !sameInts(ms, exp) {
						bad(i, "%s of kind %c yields %v, required order %v", what, o.kind, ms, exp)
					}
				}
				switch f[0] {
				case "all2":
					ob := orc[b]
					seq := regs[a].All()
					first := collect(seq)
					other := collect(regs[b].All())
					second := collect(seq)
					out = "ok " + canon(oa, first) + " " + canon(ob, other) + " " + canon(oa, second)
					judge("All(), first run,", oa, first)
					judge("All() of the other set", ob, other)
					judge("the same iter.Seq run a second time", oa, second)
				case "allnest":
					ob := orc[b]
					var outer []int
					total := 0
					for v := range regs[a].All() {
						outer = append(outer, v)
						inner := collect(regs[b].All())
						total += len(inner)
						judge("All() inside a traversal", ob, inner)
					}
					out = "ok " + canon(oa, outer) + " " + strconv.Itoa(total)
					judge("All() with traversals nested in it", oa, outer)
				case "allpull":
					ob := orc[b]
					next1, stop1 := iter.Pull(regs[a].All())
					next2, stop2 := iter.Pull(regs[b].All())
					var xs, ys []int
					for more1, more2 := true, true; more1 || more2; {
						if more1 {
							var v int
							if v, more1 = next1(); more1 {
								xs = append(xs, v)
							}
						}
						if more2 {
							var v int
							if v, more2 = next2(); more2 {
								ys = append(ys, v)
							}
						}
					}
					stop1()
					stop2()
					out = "ok " + canon(oa, xs) + " " + canon(ob, ys)
					judge("a pulled iterator (advanced alternately with another)", oa, xs)
					judge("a pulled iterator (advanced alternately with another)", ob, ys)
				case "allbreak":
					limit, err := strconv.Atoi(f[2])
					if err != nil || limit < 0 {
						return
					}
					var head []int
					for v := range regs[a].All() {
						if len(head) >= limit {
							break
						}
						head = append(head, v)
					}
					full := collect(regs[a].All())
					out = "ok " + strconv.Itoa(len(head)) + " " + canon(oa, full)
					seen := map[int]bool{}
					for _, v := range head {
						if !oa.m[v] || seen[v] {
							bad(i, "an abandoned traversal yielded %v, the set is %v", head, oa.sortedAsc())
						}
						seen[v] = true
					}
					judge("All() after an abandoned traversal", oa, full)
				}
				tags[f[0]] = true
				observe(a)
			case "removeall", "size", "isempty", "all", "string":
				if len(f) != 2 {
					return
				}
				k := reg(f[1])
				if k < 0 {
					return
				}
				s, o := regs[k], orc[k]
				opMode()
				switch f[0] {
				case "removeall":
					dst = k
					s.RemoveAll()
					o.m = map[int]bool{}
					o.order = nil
					out = "ok"
					agree(i, "after RemoveAll the set", s, o)
				case "size":
					n := s.Size()
					out = "ok " + strconv.Itoa(n)
					if n != len(o.m) {
						bad(i, "Size() = %d, the set has %d members", n, len(o.m))
					}
					observe(k)
				case "isempty":
					e := s.IsEmpty()
					out = "ok " + strconv.FormatBool(e)
					if e != (len(o.m) == 0) {
						bad(i, "IsEmpty() = %v with %d members", e, len(o.m))
					}
				case "all":
					var ms []int
					for v := range s.All() {
						ms = append(ms, v)
					}
					if o.kind == 'u' {
						out = "ok " + intsStr(sortedCopy(ms))
					} else {
						out = "ok " + intsStr(ms)
					}
					if !sameInts(sortedCopy(ms), o.sortedAsc()) {
						bad(i, "All() yields %v, the set is %v", ms, o.sortedAsc())
					} else if exp := o.expectedOrder(); exp != nil && !sameInts(ms, exp) {
						bad(i, "All() of kind %c yields %v, required order %v", o.kind, ms, exp)
					}
					observe(k)
				case "string":
					str := s.String()
					out = "ok " + str
					// format.go: {a, b, c} over the members as stored — or the format the object was constructed with
					got, okFmt := parseStr(o.fmt, str)
					if o.fmt != '-' {
						tags["string-custom-format"] = true
					}
					if !okFmt {
						bad(i, "String() = %q is not in format %c", str, o.fmt)
					} else if !sameInts(sortedCopy(got), o.sortedAsc()) {
						bad(i, "String() = %q, the set is %v", str, o.sortedAsc())
					} else if exp := o.expectedOrder(); exp != nil && !sameInts(got, exp) {
						bad(i, "String() of kind %c = %q, required order %v", o.kind, str, exp)
					}
					observe(k)
				}
			case "equal", "subset", "superset":
				if len(f) != 3 {
					return
				}
				a, b := reg(f[1]), reg(f[2])
				if a < 0 || b < 0 {
					return
				}
				if a == b {
					tags["relation-with-itself"] = true
				}
				oa, ob := orc[a], orc[b]
				sub := func(x, y *oreg) bool {
					for v := range x.m {
						if !y.m[v] {
							return false
						}
					}
					return true
				}
				var got, want bool
				opMode()
				switch f[0] {
				case "equal":
					got = regs[a].Equal(regs[b])
					want = sub(oa, ob) && sub(ob, oa)
				case "subset":
					got = regs[a].IsSubset(regs[b])
					want = sub(oa, ob)
				case "superset":
					got = regs[a].IsSuperset(regs[b])
					want = sub(ob, oa)
				}
				out = "ok " + strconv.FormatBool(got)
				if got != want {
					bad(i, "%s of %v (kind %c) and %v (kind %c) = %v", f[0], oa.sortedAsc(), oa.kind, ob.sortedAsc(), ob.kind, got)
				}
				if oa.kind != ob.kind && len(oa.m)+len(ob.m) > 0 {
					tags["mixed-relation"] = true
				}
				if oa.kind != ob.kind && oa.kind != 'u' && oa.kind != 's' && ob.kind != 'u' && ob.kind != 's' {
					tags["relation-of-sorted-sets-with-different-comparators"] = true
					if want && len(oa.m) >= 2 {
						tags["relation-true-for-sorted-sets-with-different-comparators"] = true
					}
				}
				observe(a)
				observe(b)
			case "clone", "cloneempty":
				if len(f) != 3 {
					return
				}
				d, a := reg(f[1]), reg(f[2])
				if d < 0 || a < 0 {
					return
				}
				opMode()
				dst = d
				var t set.Set[int]
				var o *oreg
				if f[0] == "clone" {
					t = regs[a].Clone()
					o = orc[a].clone()
				} else {
					t = regs[a].CloneEmpty()
					o = newOregF(orc[a].kind, orc[a].fmt)
				}
				regs[d], orc[d] = t, o
				out = "ok"
				agree(i, f[0]+" result", t, o)
				delete(removedHit, d)
				tags[f[0]] = true
				if o.fmt != '-' {
					tags[f[0]+"-custom-format"] = true
				}
			case "newf":
				// New…WithFormat(callback, format, vals...)
				if len(f) < 4 || len(f[2]) != 1 || len(f[3]) != 1 {
					return
				}
				d := reg(f[1])
				vs, ok := ints(f[4:])
				if d < 0 || !ok || newSet(f[2][0]) == nil || formatFunc(f[3][0]) == nil {
					return
				}
				opMode()
				arg := append([]int{}, vs...)
				s := newSetF(f[2][0], f[3][0], arg...)
				scribble(arg)
				o := newOregF(f[2][0], f[3][0])
				for _, v := range vs {
					o.add(v)
				}
				dst = d
				regs[d], orc[d] = s, o
				delete(removedHit, d)
				out = "ok"
				agree(i, "New…WithFormat result", s, o)
				switch f[2][0] {
				case 'u':
					tags["NewWithFormat"] = true
				case 's':
					tags["NewStableWithFormat"] = true
				default:
					tags["NewSortedWithFormat"] = true
				}
			case "new":
				if len(f) < 3 || len(f[2]) != 1 {
					return
				}
				d := reg(f[1])
				vs, ok := ints(f[3:])
				if d < 0 || !ok || newSet(f[2][0]) == nil {
					return
				}
				opMode()
				arg := append([]int{}, vs...)
				s := newSet(f[2][0], arg...)
				scribble(arg)
				o := newOreg(f[2][0])
				seen := map[int]bool{}
				for _, v := range vs {
					if seen[v] {
						tags["new-with-repeated-value"] = true
					}
					seen[v] = true
					o.add(v)
				}
				dst = d
				regs[d], orc[d] = s, o
				delete(removedHit, d)
				out = "ok"
				agree(i, "New result", s, o)
			case "anymatch", "allmatch", "firstmatch":
				if len(f) != 3 {
					return
				}
				k := reg(f[1])
				p := parsePred(f[2])
				if k < 0 || p == nil {
					return
				}
				s, o := regs[k], orc[k]
				opMode()
				switch f[0] {
				case "anymatch", "allmatch":
					var got bool
					want := f[0] == "allmatch"
					if f[0] == "anymatch" {
						got = s.AnyMatch(p)
						for v := range o.m {
							want = want || p(v)
						}
					} else {
						got = s.AllMatch(p)
						for v := range o.m {
							want = want && p(v)
						}
					}
					out = "ok " + strconv.FormatBool(got)
					if got != want {
						bad(i, "%s(%s) = %v on %v", f[0], f[2], got, o.sortedAsc())
					}
				case "firstmatch":
					v, found := s.FirstMatch(p)
					if found {
						out = "ok some " + strconv.Itoa(v)
					} else {
						out = "ok none"
					}
					var cands []int
					order := o.expectedOrder()
					if order == nil {
						order = o.sortedAsc()
					}
					for _, x := range order {
						if p(x) {
							cands = append(cands, x)
						}
					}
					switch {
					case len(cands) == 0 && found:
						bad(i, "FirstMatch(%s) found %d in %v where nothing matches", f[2], v, o.sortedAsc())
					case len(cands) > 0 && (!found || !o.m[v] || !p(v)):
						bad(i, "FirstMatch(%s) = (%d,%v) on %v", f[2], v, found, o.sortedAsc())
					case len(cands) > 0 && o.expectedOrder() != nil && v != cands[0]:
						bad(i, "FirstMatch(%s) = %d on kind %c, the first match in iteration order is %d", f[2], v, o.kind, cands[0])
					}
				}
				tags[f[0]] = true
				observe(k)
			case "select", "partition":
				np := 2
				if f[0] == "partition" {
					np = 3
				}
				if len(f) != np+2 {
					return
				}
				d := reg(f[1])
				e := d
				if f[0] == "partition" {
					e = reg(f[2])
				}
				a := reg(f[np])
				p := parsePred(f[np+1])
				if d < 0 || e < 0 || a < 0 || p == nil {
					return
				}
				recv := orc[a]
				src := recv.order
				if recv.kind != 's' {
					src = recv.sortedAsc()
				}
				om, ou := newOregF(recv.kind, recv.fmt), newOregF(recv.kind, recv.fmt)
				if recv.fmt != '-' {
					tags[f[0]+"-custom-format"] = true
				}
				for _, v := range src {
					if p(v) {
						om.add(v)
					} else {
						ou.add(v)
					}
				}
				observe(a)
				opMode()
				if f[0] == "select" {
					c := regs[a].SelectMatch(p)
					t, isSet := c.(set.Set[int])
					if !isSet {
						bad(i, "SelectMatch returned a %T, not a set", c)
						return
					}
					out = "ok " + t.String()
					dst = d
					regs[d], orc[d] = t, om
					delete(removedHit, d)
					agree(i, "SelectMatch result", t, om)
				} else {
					c1, c2 := regs[a].PartitionMatch(p)
					t, ok1 := c1.(set.Set[int])
					u, ok2 := c2.(set.Set[int])
					if !ok1 || !ok2 {
						bad(i, "PartitionMatch returned %T, %T, not sets", c1, c2)
						return
					}
					out = "ok " + t.String() + " " + u.String()
					dst, dst2 = d, e
					regs[d], orc[d] = t, om
					regs[e], orc[e] = u, ou
					delete(removedHit, d)
					delete(removedHit, e)
					if d != e {
						agree(i, "PartitionMatch matched", t, om)
					}
					agree(i, "PartitionMatch unmatched", u, ou)
				}
				tags[f[0]] = true
			case "powermut", "partmut":
				// Powerset / Partitions, then every member (block) of the result is edited: the source set, every
				// other register and (Powerset) the sibling members must keep their contents
				if len(f) != 3 {
					return
				}
				k := reg(f[1])
				v, err := strconv.Atoi(f[2])
				if k < 0 || err != nil {
					return
				}
				o := orc[k]
				n := len(o.m)
				x, haveX := 0, false
				if xs := o.sortedAsc(); len(xs) > 0 {
					x, haveX = xs[0], true
				}
				opMode()
				if f[0] == "powermut" {
					PS := set.Powerset[int](regs[k])
					out = "ok " + strconv.Itoa(PS.Size())
					checkMode()
					var ms []set.Set[int]
					for m := range PS.All() {
						ms = append(ms, m)
					}
					expect := make([][]int, len(ms))
					for j, m := range ms {
						expect[j] = sortedCopy(members(m))
					}
					for j, m := range ms {
						m.Add(v)
						if haveX {
							m.Remove(x)
						}
						e := map[int]bool{v: true}
						for _, y := range expect[j] {
							e[y] = true
						}
						if haveX && x != v {
							delete(e, x)
						} else if haveX && x == v {
							delete(e, x)
						}
						expect[j] = expect[j][:0]
						for y := range e {
							expect[j] = append(expect[j], y)
						}
						sort.Ints(expect[j])
						for l, m2 := range ms {
							if got := sortedCopy(members(m2)); !sameInts(got, expect[l]) {
								bad(i, "editing member %d of the Powerset result changed member %d to %v (expected %v)", j, l, got, expect[l])
							}
						}
					}
					if len(ms) != 1<<n {
						bad(i, "Powerset of %d members iterates %d subsets", n, len(ms))
					}
				} else {
					Ps := set.Partitions[int](regs[k])
					out = "ok " + strconv.Itoa(Ps.Size())
					checkMode()
					slots := 0
					distinct := map[set.Set[int]]bool{}
					var blocks []set.Set[int]
					for P := range Ps.All() {
						for b := range P.All() {
							slots++
							if !distinct[b] {
								distinct[b] = true
								blocks = append(blocks, b)
							}
						}
					}
					for _, b := range blocks {
						b.Add(v)
						if haveX {
							b.Remove(x)
						}
					}
					if len(distinct) < slots {
						// not excluded by the property (it speaks about the value returned, not about later edits of it)
						tags["partition-block-objects-shared-between-partitions"] = true
					}
				}
				tags[f[0]+"-n="+strconv.Itoa(n)] = true
				if n >= 3 {
					nontrivial = true
				}
				observe(k)
			case "union", "inter", "diff":
				if len(f) < 3 {
					return
				}
				d, a := reg(f[1]), reg(f[2])
				if d < 0 || a < 0 {
					return
				}
				var ops []set.Set[int]
				var oops []*oreg
				kindsSeen := map[byte]bool{orc[a].kind: true}
				fmtsSeen := map[byte]bool{orc[a].fmt: true}
				total := len(orc[a].m)
				for _, w := range f[3:] {
					k := reg(w)
					if k < 0 {
						return
					}
					ops = append(ops, regs[k])
					oops = append(oops, orc[k])
					kindsSeen[orc[k].kind] = true
					fmtsSeen[orc[k].fmt] = true
					total += len(orc[k].m)
					if k == a {
						tags["receiver-as-operand"] = true
					}

					observe(k)
				}
				observe(a)
				seenArg := map[string]bool{}
				for _, w := range f[3:] {
					if seenArg[w] {
						tags["same-operand-twice"] = true
					}
					seenArg[w] = true
				}
				recv := orc[a]
				o := newOregF(recv.kind, recv.fmt) // the result carries the receiver's format
				// group[v] = which argument contributed v first (0 = receiver), for the stable order check
				group := map[int]int{}
				opMode()
				var t set.Set[int]
				switch f[0] {
				case "union":
					t = regs[a].Union(ops...)
					scribbleSets(ops)
					for _, v := range recv.order {
						o.add(v)
					}
					for v := range recv.m {
						o.m[v] = true
						group[v] = 0
					}
					for gi, x := range oops {
						vs := x.expectedOrder()
						if vs == nil {
							vs = x.sortedAsc()
						}
						for _, v := range vs {
							if !o.m[v] {
								group[v] = gi + 1
							}
							o.add(v)
						}
					}
				case "inter":
					t = regs[a].Intersection(ops...)
					scribbleSets(ops)
					src := recv.order
					if recv.kind != 's' {
						src = recv.sortedAsc()
					}
					for _, v := range src {
						in := true
						for _, x := range oops {
							in = in && x.m[v]
						}
						if in {
							o.add(v)
						}
					}
				case "diff":
					t = regs[a].Difference(ops...)
					scribbleSets(ops)
					src := recv.order
					if recv.kind != 's' {
						src = recv.sortedAsc()
					}
					for _, v := range src {
						in := false
						for _, x := range oops {
							in = in || x.m[v]
						}
						if !in {
							o.add(v)
						}
					}
				}
				out = "ok " + t.String()
				dst = d
				if f[0] == "union" && recv.kind == 's' {
					// insertion order of a stable union: the receiver's members in their order, then what each
					// argument contributes, argument by argument; inside one argument in its iteration order when
					// that is specified, in any order when the argument is an unordered set.
					got := members(t)
					if sameInts(sortedCopy(got), o.sortedAsc()) {
						okOrder := true
						for p := 1; p < len(got); p++ {
							if group[got[p-1]] > group[got[p]] {
								okOrder = false
							}
						}
						for gi := 0; gi <= len(oops); gi++ {
							var want, have []int
							unorderedArg := gi > 0 && oops[gi-1].kind == 'u'
							for _, v := range o.order {
								if group[v] == gi {
									want = append(want, v)
								}
							}
							for _, v := range got {
								if group[v] == gi {
									have = append(have, v)
								}
							}
							if unorderedArg {
								tags["unordered-operand-into-stable"] = true
								want, have = sortedCopy(want), sortedCopy(have)
							}
							if !sameInts(want, have) {
								okOrder = false
							}
						}
						if !okOrder {
							bad(i, "stable Union iterates as %v; receiver order %v, arguments %v", got, recv.order, f[3:])
						}
						o.order = got // any admissible order was accepted: continue from the observed one
					}
				}
				regs[d], orc[d] = t, o
				delete(removedHit, d)
				agree(i, f[0]+" result", t, o)
				tags[f[0]+"-"+strconv.Itoa(len(ops))+"-operands"] = true
				if len(kindsSeen) >= 2 && total > 0 {
					tags["mixed-algebra"] = true
					nontrivial = true
				}
				if len(fmtsSeen) >= 2 && total > 0 {
					tags["mixed-format-algebra"] = true
					nontrivial = true
				}
				if recv.fmt != '-' {
					tags["algebra-on-custom-format-receiver"] = true
				}
			case "powerstr", "partstr":
				// Powerset(s).String() / Partitions(s).String(): the containers are made by New (default format,
				// %v of a member = the member's own String()); every member subset / block must be in the format of s
				if len(f) != 2 {
					return
				}
				k := reg(f[1])
				if k < 0 {
					return
				}
				o := orc[k]
				n := len(o.m)
				opMode()
				var str string
				wantSets, wantContainers := 0, 0
				if f[0] == "powerstr" {
					str = set.Powerset[int](regs[k]).String()
					wantSets, wantContainers = 1<<n, 1
				} else {
					str = set.Partitions[int](regs[k]).String()
					if n+1 < len(bell) {
						// Bell(n) partitions; their blocks number Bell(n+1) - Bell(n) in total
						wantSets, wantContainers = bell[n+1]-bell[n], 1+bell[n]
					} else {
						wantSets = -1
					}
				}
				out = "ok " + str
				if wantSets >= 0 {
					// count how many member sets are printed in the format of s, and how many containers in the default one
					gotSets := strings.Count(str, openToken(o.fmt))
					gotContainers := strings.Count(str, "{")
					if o.fmt == '-' {
						gotSets -= wantContainers
						gotContainers = wantContainers
					}
					if gotSets != wantSets || gotContainers != wantContainers || !strings.HasPrefix(str, "{") || !strings.HasSuffix(str, "}") {
						bad(i, "%s of %d members in format %c prints %d member sets in that format and %d containers; want %d and %d: %s",
							f[0], n, o.fmt, gotSets, gotContainers, wantSets, wantContainers, str)
					}
				}
				tags[f[0]] = true
				if o.fmt != '-' {
					tags[f[0]+"-custom-format"] = true
				}
				observe(k)
			case "powerset", "partitions":
				if len(f) != 2 {
					return
				}
				k := reg(f[1])
				if k < 0 {
					return
				}
				o := orc[k]
				n := len(o.m)
				inner := func(s set.Set[int]) []int {
					ms := members(s)
					if o.kind == 'u' {
						sort.Ints(ms)
					}
					return ms
				}
				// a subset of the register's set in the order its kind prescribes?
				okInner := func(ms []int) bool {
					seen := map[int]bool{}
					for _, v := range ms {
						if !o.m[v] || seen[v] {
							return false
						}
						seen[v] = true
					}
					if exp := o.expectedOrder(); exp != nil {
						var want []int
						for _, v := range exp {
							if seen[v] {
								want = append(want, v)
							}
						}
						return sameInts(want, ms)
					}
					return true
				}
				opMode()
				if f[0] == "powerset" {
					PS := set.Powerset[int](regs[k])
					checkMode()
					var subsets [][]int
					for s := range PS.All() {
						subsets = append(subsets, inner(s))
					}
					sort.Slice(subsets, func(x, y int) bool { return lexLess(subsets[x], subsets[y]) })
					out = "ok " + strconv.Itoa(PS.Size()) + " " + llStr(subsets)
					distinct := map[string]bool{}
					for _, s := range subsets {
						if !okInner(s) {
							bad(i, "Powerset member %v is not a subset of %v in the order of kind %c", s, o.sortedAsc(), o.kind)
						}
						distinct[intsStr(sortedCopy(s))] = true
					}
					if PS.Size() != 1<<n || len(subsets) != 1<<n || len(distinct) != 1<<n {
						bad(i, "Powerset of %d members: Size()=%d, %d iterated, %d distinct; want %d", n, PS.Size(), len(subsets), len(distinct), 1<<n)
					}
				} else {
					Ps := set.Partitions[int](regs[k])
					checkMode()
					var parts [][][]int
					for P := range Ps.All() {
						var blocks [][]int
						for b := range P.All() {
							blocks = append(blocks, inner(b))
						}
						sort.Slice(blocks, func(x, y int) bool { return lexLess(blocks[x], blocks[y]) })
						if P.Size() != len(blocks) {
							bad(i, "a partition reports Size()=%d and iterates %d blocks", P.Size(), len(blocks))
						}
						parts = append(parts, blocks)
					}
					sort.Slice(parts, func(x, y int) bool { return lexLess2(parts[x], parts[y]) })
					ss := make([]string, len(parts))
					distinct := map[string]bool{}
					for pi, P := range parts {
						ss[pi] = llStr(P)
						covered := map[int]bool{}
						var canon [][]int
						for _, b := range P {
							if len(b) == 0 || !okInner(b) {
								bad(i, "block %v of partition %v is empty or not an ordered subset of %v", b, P, o.sortedAsc())
							}
							for _, v := range b {
								if covered[v] {
									bad(i, "partition %v covers %d twice", P, v)
								}
								covered[v] = true
							}
							canon = append(canon, sortedCopy(b))
						}
						if len(covered) != n {
							bad(i, "partition %v covers %d of %d members", P, len(covered), n)
						}
						sort.Slice(canon, func(x, y int) bool { return lexLess(canon[x], canon[y]) })
						distinct[llStr(canon)] = true
					}
					out = "ok " + strconv.Itoa(Ps.Size()) + " [" + strings.Join(ss, " ") + "]"
					if n < len(bell) && (Ps.Size() != bell[n] || len(parts) != bell[n] || len(distinct) != bell[n]) {
						bad(i, "Partitions of %d members: Size()=%d, %d iterated, %d distinct; want Bell(%d)=%d", n, Ps.Size(), len(parts), len(distinct), n, bell[n])
					}
				}
				tags[f[0]+"-n="+strconv.Itoa(n)] = true
				if n >= 3 {
					nontrivial = true
				}
				observe(k)
			}
		})
		if kind != "" {
			res.Outs = append(res.Outs, "panic")
			bad(i, "%s panicked (%s)", op, kind)
			tags["panic"] = true
			break
		}
		res.Outs = append(res.Outs, out)
		// nothing but the destination may have changed: operands, the receiver and every bystander (clones!)
		for k, s := range regs {
			if k == dst || k == dst2 {
				continue
			}
			if now := s.String(); now != snap[k] {
				bad(i, "%s changed register %d from %s to %s", op, k, snap[k], now)
			}
		}
	}
	for k := range kinds {
		tags["kind="+string(kinds[k])] = true
	}
	res.Nontrivial = nontrivial
	for t := range tags {
		res.Tags = append(res.Tags, t)
	}
	sort.Strings(res.Tags)
}

// ---------------------------------------------------------------- generators

const kindLetters = "usadbce"

var preds = []string{"ge:0", "ge:2", "ge:5", "lt:1", "lt:4", "odd", "even", "ge:-100", "lt:-100"}

type gen struct {
	r     *hx.Rand
	kinds []byte
	sets  []map[int]bool // the generator's own bookkeeping, only to choose interesting arguments
	univ  int
	ops   []string
	// global: the case will run on the package's own random source, so it must not contain an operation whose
	// canonical output depends on the iteration order of an unordered set (Union of an unordered operand into an
	// unordered or stable receiver fixes that order in the result; powerstr/partstr print stored orders)
	global bool
}

func (g *gen) emit(format string, a ...any) { g.ops = append(g.ops, fmt.Sprintf(format, a...)) }

func (g *gen) val() int { return g.r.Intn(g.univ) - g.univ/3 } // a few negative values too

func (g *gen) vals(lo, hi int) []int {
	n := g.r.Range(lo, hi)
	xs := make([]int, n)
	for i := range xs {
		xs[i] = g.val()
	}
	return xs
}

func join(xs []int) string {
	var b strings.Builder
	for _, x := range xs {
		b.WriteByte(' ')
		b.WriteString(strconv.Itoa(x))
	}
	return b.String()
}

func copySet(m map[int]bool) map[int]bool {
	c := map[int]bool{}
	for k := range m {
		c[k] = true
	}
	return c
}

func (g *gen) member(k int) (int, bool) {
	if len(g.sets[k]) == 0 {
		return 0, false
	}
	xs := make([]int, 0, len(g.sets[k]))
	for v := range g.sets[k] {
		xs = append(xs, v)
	}
	sort.Ints(xs)
	return xs[g.r.Intn(len(xs))], true
}

func (g *gen) step(maxPow, maxPart int) {
	r := g.r
	n := len(g.kinds)
	k := r.Intn(n)
	x := r.Intn(100)
	switch {
	case x < 24:
		vs := g.vals(1, 3)
		if r.Chance(1, 6) {
			vs = g.vals(0, 6)
		}
		if len(vs) > 0 && r.Chance(1, 4) { // the same value more than once in one call
			vs = append(vs, vs[r.Intn(len(vs))])
			if r.Bool() {
				vs = append(vs, g.val(), vs[0])
			}
		}
		for _, v := range vs {
			g.sets[k][v] = true
		}
		g.emit("add %d%s", k, join(vs))
	case x < 36:
		vs := g.vals(1, 2)
		if v, ok := g.member(k); ok && r.Chance(2, 3) {
			vs[0] = v
		}
		if r.Chance(1, 4) { // remove the same value twice in one call
			vs = append(vs, vs[0])
		}
		for _, v := range vs {
			delete(g.sets[k], v)
		}
		g.emit("remove %d%s", k, join(vs))
	case x < 38:
		g.sets[k] = map[int]bool{}
		g.emit("removeall %d", k)
	case x < 45:
		vs := g.vals(0, 3)
		if v, ok := g.member(k); ok && len(vs) > 0 && r.Chance(2, 3) {
			vs[0] = v
		}
		g.emit("contains %d%s", k, join(vs))
	case x < 48:
		g.emit("size %d", k)
	case x < 49:
		g.emit("isempty %d", k)
	case x < 54:
		switch j := r.Intn(n); r.Intn(12) {
		case 0:
			g.emit("all2 %d %d", k, j)
		case 1:
			g.emit("allnest %d %d", k, j)
		case 2:
			g.emit("allpull %d %d", k, j)
		case 3:
			g.emit("allbreak %d %d", k, r.Intn(4))
		case 4:
			g.emit("allnever %d", k)
		case 5, 6:
			form := hx.Pick(r, []string{"allthen", "allrerun"})
			switch r.Intn(5) {
			case 0:
				g.sets[k] = map[int]bool{}
				g.emit("%s %d removeall", form, k)
			case 1, 2:
				vs := g.vals(1, 3)
				for _, v := range vs {
					g.sets[k][v] = true
				}
				g.emit("%s %d add%s", form, k, join(vs))
			default:
				vs := g.vals(1, 2)
				if v, ok := g.member(k); ok {
					vs[0] = v
				}
				if v, ok := g.member(k); ok && r.Bool() {
					vs = append(vs, v)
				}
				for _, v := range vs {
					delete(g.sets[k], v)
				}
				g.emit("%s %d remove%s", form, k, join(vs))
			}
		default:
			g.emit("all %d", k)
		}
	case x < 60:
		g.emit("string %d", k)
	case x < 72:
		j := r.Intn(n)
		if r.Chance(1, 5) {
			j = k // a set compared with itself
		}
		g.emit("%s %d %d", hx.Pick(r, []string{"equal", "subset", "superset"}), k, j)
	case x < 76:
		d := r.Intn(n)
		g.sets[d] = copySet(g.sets[k])
		g.kinds[d] = g.kinds[k]
		g.emit("clone %d %d", d, k)
	case x < 77:
		d := r.Intn(n)
		g.sets[d] = map[int]bool{}
		g.kinds[d] = g.kinds[k]
		g.emit("cloneempty %d %d", d, k)
	case x < 78:
		d := r.Intn(n)
		kd := kindLetters[r.Intn(len(kindLetters))]
		g.sets[d] = map[int]bool{}
		g.kinds[d] = kd
		vs := g.vals(0, 4)
		if len(vs) > 0 && r.Bool() {
			vs = append(vs, vs[0]) // New(eq, 5, …, 5)
		}
		for _, v := range vs {
			g.sets[d][v] = true
		}
		g.emit("new %d %c%s", d, kd, join(vs))
	case x < 81:
		g.newf(r.Intn(n))
	case x < 92:
		d := r.Intn(n)
		nops := r.Range(0, 4)
		if r.Chance(2, 3) {
			nops = r.Range(1, 2)
		}
		args := make([]int, nops)
		for i := range args {
			args[i] = r.Intn(n)
		}
		if nops > 0 && r.Chance(1, 4) {
			args = append(args, args[r.Intn(nops)]) // the same operand twice
		}
		if r.Chance(1, 5) {
			args = append(args, k) // the receiver as its own operand
		}
		res := copySet(g.sets[k])
		name := hx.Pick(r, []string{"union", "inter", "diff"})
		if g.global && name == "union" && (g.kinds[k] == 'u' || g.kinds[k] == 's') {
			for _, a := range args {
				if g.kinds[a] == 'u' {
					name = hx.Pick(r, []string{"inter", "diff"})
					break
				}
			}
		}
		for _, a := range args {
			switch name {
			case "union":
				for v := range g.sets[a] {
					res[v] = true
				}
			case "inter":
				for v := range res {
					if !g.sets[a][v] {
						delete(res, v)
					}
				}
			case "diff":
				for v := range g.sets[a] {
					delete(res, v)
				}
			}
		}
		g.emit("%s %d %d%s", name, d, k, join(args))
		g.sets[d] = res
		g.kinds[d] = g.kinds[k]
	default:
		y := r.Intn(10)
		pred := hx.Pick(r, preds)
		pf := parsePred(pred)
		switch {
		case y < 1 && len(g.sets[k]) <= maxPow && !g.global && r.Bool():
			g.emit("powerstr %d", k)
		case y >= 3 && y < 4 && len(g.sets[k]) <= maxPart && !g.global && r.Bool():
			g.emit("partstr %d", k)
		case y < 2 && len(g.sets[k]) <= maxPow:
			g.emit("powerset %d", k)
		case y < 3 && len(g.sets[k]) <= maxPow:
			g.emit("powermut %d %d", k, g.val())
		case y < 4 && len(g.sets[k]) <= maxPart:
			g.emit("partitions %d", k)
		case y < 5 && len(g.sets[k]) <= maxPart:
			g.emit("partmut %d %d", k, g.val())
		case y < 7:
			g.emit("%s %d %s", hx.Pick(r, []string{"anymatch", "allmatch", "firstmatch"}), k, pred)
		case y < 9:
			d := r.Intn(n)
			res := map[int]bool{}
			for v := range g.sets[k] {
				if pf(v) {
					res[v] = true
				}
			}
			g.emit("select %d %d %s", d, k, pred)
			g.sets[d] = res
			g.kinds[d] = g.kinds[k]
		default:
			d, e := r.Intn(n), r.Intn(n)
			yes, no := map[int]bool{}, map[int]bool{}
			for v := range g.sets[k] {
				if pf(v) {
					yes[v] = true
				} else {
					no[v] = true
				}
			}
			g.emit("partition %d %d %d %s", d, e, k, pred)
			kk := g.kinds[k]
			g.sets[d], g.kinds[d] = yes, kk
			g.sets[e], g.kinds[e] = no, kk
		}
	}
}

// newf: New…WithFormat into register d — a kind, a custom format, initial values (also repeated ones)
func (g *gen) newf(d int) {
	r := g.r
	kd := kindLetters[r.Intn(len(kindLetters))]
	g.sets[d] = map[int]bool{}
	g.kinds[d] = kd
	vs := g.vals(0, 4)
	if len(vs) > 0 && r.Chance(1, 3) {
		vs = append(vs, vs[0])
	}
	for _, v := range vs {
		g.sets[d][v] = true
	}
	g.emit("newf %d %c %c%s", d, kd, formatLetters[r.Intn(len(formatLetters))], join(vs))
}

// randomCase: global = run on the package's own random source (header src=global)
func randomCase(r *hx.Rand, nregs, univ, length, maxPow, maxPart int, global bool) hx.Case {
	g := &gen{r: r, univ: univ, global: global}
	for i := 0; i < nregs; i++ {
		g.kinds = append(g.kinds, kindLetters[r.Intn(len(kindLetters))])
		g.sets = append(g.sets, map[int]bool{})
	}
	hdr := fmt.Sprintf("comp=reg sh=%d regs=%s", uint32(r.U64()), string(g.kinds))
	if global {
		hdr += " src=global"
	}
	// start by putting something into most registers so algebra has material early
	for i := 0; i < nregs; i++ {
		if r.Chance(1, 4) {
			g.newf(i) // a register made by New…WithFormat
			continue
		}
		if r.Chance(3, 4) {
			vs := g.vals(1, 4)
			for _, v := range vs {
				g.sets[i][v] = true
			}
			g.emit("add %d%s", i, join(vs))
		}
	}
	for len(g.ops) < length {
		g.step(maxPow, maxPart)
	}
	for i := 0; i < nregs; i++ {
		g.emit("string %d", i)
	}
	return hx.Case{Header: hdr, Ops: g.ops}
}

// aliasCase: results of Clone / Union / Intersection / Difference / SelectMatch / PartitionMatch are edited and
// the operands (and sibling results) re-observed, then the operands are edited and the results re-observed,
// repeatedly, at sizes where a Go slice has spare capacity after growing or after a Remove.
func aliasCase(r *hx.Rand) hx.Case {
	const nregs = 7 // 0..2 operands, 3..6 results
	kinds := make([]byte, nregs)
	for i := range kinds {
		kinds[i] = kindLetters[r.Intn(len(kindLetters))]
	}
	if r.Bool() { // same implementation everywhere: the case where a shared slice would go unnoticed least
		for i := range kinds {
			kinds[i] = kinds[0]
		}
	}
	var ops []string
	emit := func(format string, a ...any) { ops = append(ops, fmt.Sprintf(format, a...)) }
	sizes := []int{3, 5, 6, 7, 9, 10, 11, 12, 13, 14, 15}
	val := func() int { return r.Intn(24) - 4 }
	for i := 0; i < 3; i++ {
		n := hx.Pick(r, sizes)
		var vs []int
		for len(vs) < n+2 {
			vs = append(vs, val())
		}
		if r.Bool() {
			emit("add %d%s", i, join(vs))
		} else { // one value per call: the slice grows by doubling and keeps spare capacity
			for _, v := range vs {
				emit("add %d %d", i, v)
			}
		}
	}
	observeAll := func() {
		for i := 0; i < nregs; i++ {
			emit("string %d", i)
		}
	}
	edit := func(k int) {
		for j := r.Range(2, 5); j > 0; j-- {
			switch r.Intn(3) {
			case 0:
				emit("add %d %d %d", k, val(), val())
			case 1:
				emit("remove %d %d %d", k, val(), val())
			default:
				emit("remove %d %d", k, val())
				emit("add %d %d", k, val())
			}
		}
	}
	for round := r.Range(3, 6); round > 0; round-- {
		pred := hx.Pick(r, preds)
		a, b, c := r.Intn(3), r.Intn(3), r.Intn(3)
		switch r.Intn(8) {
		case 0:
			emit("clone 3 %d", a)
			emit("clone 4 3")
		case 1:
			emit("union 3 %d %d %d", a, b, c)
			emit("union 4 %d", a)
		case 2:
			emit("inter 3 %d %d", a, b)
			emit("inter 4 %d", a)
		case 3:
			emit("diff 3 %d %d", a, b)
			emit("diff 4 %d", a)
		case 4:
			emit("select 3 %d %s", a, pred)
			emit("select 4 %d ge:-100", a)
		case 5:
			emit("partition 3 4 %d %s", a, pred)
		case 6:
			emit("union 3 %d %d", a, a)
			emit("diff 4 %d 3", a)
		default:
			emit("cloneempty 3 %d", a)
			emit("union 4 3 %d", a)
		}
		emit("clone 5 3")
		emit("union 6 4 5")
		observeAll()
		// edit the results, look at the operands and the sibling results
		edit(3)
		observeAll()
		edit(4)
		edit(5)
		observeAll()
		// edit the operands, look at the results
		edit(a)
		edit(b)
		observeAll()
	}
	return hx.Case{Header: fmt.Sprintf("comp=reg sh=%d regs=%s", uint32(r.U64()), string(kinds)), Ops: ops}
}

// formatCase: the format field.  Registers 0-2 are made by NewWithFormat, NewStableWithFormat and
// NewSortedWithFormat (one custom format each, initial values), register 3 by a plain constructor (default
// format), 4-6 take results.  Every round runs a Clone/CloneEmpty/set-algebra/match operation whose receiver and
// operands carry different formats, prints String() of everything, edits result and operands and prints again.
func formatCase(r *hx.Rand) hx.Case {
	const nregs = 7
	sortedKinds := "adbce"
	kinds := []byte{'u', 's', sortedKinds[r.Intn(len(sortedKinds))], kindLetters[r.Intn(len(kindLetters))], 'u', 's', 'a'}
	// which of the first three registers is which implementation varies
	for i := 2; i > 0; i-- {
		j := r.Intn(i + 1)
		kinds[i], kinds[j] = kinds[j], kinds[i]
	}
	var ops []string
	emit := func(format string, a ...any) { ops = append(ops, fmt.Sprintf(format, a...)) }
	val := func() int { return r.Intn(12) - 3 }
	vals := func(lo, hi int) []int {
		xs := make([]int, r.Range(lo, hi))
		for i := range xs {
			xs[i] = val()
		}
		return xs
	}
	fl := []byte(formatLetters)
	for i := len(fl) - 1; i > 0; i-- {
		j := r.Intn(i + 1)
		fl[i], fl[j] = fl[j], fl[i]
	}
	for i := 0; i < 3; i++ {
		vs := vals(0, 5)
		if len(vs) > 0 && r.Bool() {
			vs = append(vs, vs[0])
		}
		emit("newf %d %c %c%s", i, kinds[i], fl[i], join(vs))
	}
	emit("add 3%s", join(vals(1, 4)))
	observeAll := func() {
		for i := 0; i < nregs; i++ {
			emit("string %d", i)
		}
	}
	observeAll()
	for round := r.Range(3, 7); round > 0; round-- {
		a, b, c := r.Intn(4), r.Intn(4), r.Intn(nregs)
		d := 4 + r.Intn(3)
		pred := hx.Pick(r, preds)
		switch r.Intn(10) {
		case 0:
			emit("clone %d %d", d, a)
		case 1:
			emit("cloneempty %d %d", d, a)
			emit("add %d%s", d, join(vals(1, 3)))
		case 2, 3:
			emit("union %d %d %d %d", d, a, b, c)
		case 4:
			emit("inter %d %d %d %d", d, a, b, c)
		case 5:
			emit("diff %d %d %d %d", d, a, b, c)
		case 6:
			emit("select %d %d %s", d, a, pred)
		case 7:
			emit("partition %d %d %d %s", d, 4+r.Intn(3), a, pred)
		case 8:
			emit("%s %d %d", hx.Pick(r, []string{"union", "inter", "diff"}), d, a) // no operands
		default:
			// a result (custom format) as receiver, with operands of other formats
			emit("union %d %d %d", d, a, b)
			emit("%s %d %d %d %d", hx.Pick(r, []string{"union", "inter", "diff"}), 4+r.Intn(3), d, c, 3)
		}
		observeAll()
		emit("add %d %d %d", d, val(), val())
		emit("remove %d %d", d, val())
		emit("remove %d %d", a, val())
		emit("add %d %d", a, val())
		if r.Chance(1, 6) {
			emit("removeall %d", d)
			emit("add %d%s", d, join(vals(0, 3)))
		}
		if r.Chance(1, 5) {
			// a register made with a custom format is overwritten by a plain constructor / the other way round
			if r.Bool() {
				emit("new %d %c%s", r.Intn(nregs), kindLetters[r.Intn(len(kindLetters))], join(vals(0, 3)))
			} else {
				emit("newf %d %c %c%s", 3+r.Intn(4), kindLetters[r.Intn(len(kindLetters))], fl[r.Intn(3)], join(vals(0, 3)))
			}
		}
		observeAll()
	}
	// Powerset / Partitions of a set with a custom format: every member in that format
	k := r.Intn(3)
	emit("cloneempty 6 %d", k)
	emit("add 6%s", join(vals(0, 4)))
	emit("powerstr 6")
	emit("partstr 6")
	emit("string 6")
	return hx.Case{Header: fmt.Sprintf("comp=reg sh=%d regs=%s", uint32(r.U64()), string(kinds)), Ops: ops}
}

// cmpMixCase: the same (or nearly the same) members in sets of every kind, in particular sorted sets with different
// comparators (ascending/descending, normalised or not), then every pair in Equal/IsSubset/IsSuperset and the
// set algebra with operands of other kinds.
func cmpMixCase(r *hx.Rand) hx.Case {
	kinds := []byte(kindLetters)
	for i := len(kinds) - 1; i > 0; i-- {
		j := r.Intn(i + 1)
		kinds[i], kinds[j] = kinds[j], kinds[i]
	}
	kinds = append(kinds, kinds[0]) // a result register
	n := len(kinds) - 1
	var ops []string
	emit := func(format string, a ...any) { ops = append(ops, fmt.Sprintf(format, a...)) }
	var base []int
	for k := r.Range(2, 7); k > 0; k-- {
		base = append(base, r.Intn(20)-5)
	}
	for i := 0; i < n; i++ {
		vs := shuffled(r, base)
		switch r.Intn(4) {
		case 0:
			vs = append(vs, r.Intn(20)-5) // one more
		case 1:
			vs = vs[1:] // one less
		}
		emit("add %d%s", i, join(vs))
	}
	for i := 0; i < n; i++ {
		for j := 0; j < n; j++ {
			if r.Chance(1, 2) {
				emit("%s %d %d", hx.Pick(r, []string{"equal", "subset", "superset"}), i, j)
			}
		}
	}
	for k := r.Range(6, 12); k > 0; k-- {
		a, b, c := r.Intn(n), r.Intn(n), r.Intn(n)
		emit("%s %d %d %d %d", hx.Pick(r, []string{"union", "inter", "diff"}), n, a, b, c)
		emit("equal %d %d", n, a)
		emit("subset %d %d", n, b)
		emit("superset %d %d", n, c)
	}
	return hx.Case{Header: fmt.Sprintf("comp=reg sh=%d regs=%s", uint32(r.U64()), string(kinds)), Ops: ops}
}

// ---------------------------------------------------------------- size thresholds (deterministic families)

// sizeCase: one implementation taken up to n members and down again. build: 0 one Add per value ascending,
// 1 one variadic Add, 2 one Add per value descending (a sorted set inserts at the front every time), 3 the even
// values one by one and then the odd ones in one call (inserts in the middle). shrink: 0 one Remove per value from
// the first member upwards, 1 from the second-to-last member downwards (the last one stays), 2 one variadic Remove,
// 3 every second member, then the rest. The set loses four fifths of its members (past the half and the quarter
// of every capacity it went through), is compared with its untouched clone, emptied, and grown again.
// Registers: 0 the set, 1 its clone, 2 a sorted helper, 3 results.
func sizeCase(sh uint32, kind byte, n, build, shrink int) hx.Case {
	var ops []string
	emit := func(format string, a ...any) { ops = append(ops, fmt.Sprintf(format, a...)) }
	switch build {
	case 0:
		emit("addseq 0 0 %d 1", n)
	case 1:
		emit("addvar 0 0 %d 1", n)
	case 2:
		emit("addseq 0 %d %d -1", n-1, n)
	default:
		emit("addseq 0 0 %d 2", (n+1)/2)
		emit("addvar 0 1 %d 2", n/2)
	}
	look := func() {
		emit("size 0")
		emit("isempty 0")
		emit("contains 0 0")
		emit("contains 0 %d", n-1)
		emit("contains 0 %d %d %d", n/2, n/4, 3*n/4)
		emit("contains 0 %d", n)
		emit("contains 0 -1")
		emit("all 0")
		emit("equal 0 1")
		emit("equal 1 0")
		emit("subset 0 1")
		emit("superset 0 1")
	}
	emit("clone 1 0")
	look()
	// RemoveAll of a full set, and growing again in the same object
	emit("clone 3 0")
	emit("removeall 3")
	emit("isempty 3")
	emit("contains 3 0")
	emit("addseq 3 %d 5 -1", n)
	emit("string 3")
	emit("equal 0 1")
	emit("addvar 0 0 %d 1", n) // every value once more: nothing may change
	emit("add 0 %d %d 0", n-1, n/2)
	emit("size 0")
	m := n - n/5
	switch shrink {
	case 0:
		emit("removeseq 0 0 %d 1", m)
	case 1:
		emit("removeseq 0 %d %d -1", n-2, m)
	case 2:
		emit("removevar 0 0 %d 1", m)
	default:
		emit("removeseq 0 1 %d 2", n/2)
		emit("removeseq 0 0 %d 2", m-n/2)
	}
	look()
	emit("diff 3 1 0") // what was removed
	emit("size 3")
	emit("inter 3 1 0") // what is left
	emit("equal 3 0")
	emit("union 3 0 3 0")
	emit("equal 0 3")
	emit("diff 3 0 1") // nothing
	emit("isempty 3")
	emit("all2 0 1")
	// down to nothing, one by one, and one Remove more
	emit("removeseq 0 0 %d 1", n+1)
	look()
	emit("addseq 0 5 3 1")
	emit("string 0")
	emit("removeall 0")
	emit("addvar 0 -3 70 1")
	emit("removeseq 0 66 60 -1")
	emit("string 0")
	emit("size 1")
	return hx.Case{Header: fmt.Sprintf("comp=reg sh=%d regs=%c%ca%c fam=size", sh, kind, kind, kind), Ops: ops}
}

// algebraSizeCase: Difference / Intersection / Union at a size where the result is a small fraction of a large
// receiver. Registers: 0 (ka) = 0..n-1, 1 (kb) = the values of 0..n-1 that are not multiples of 5, and ten values
// outside, 2 and 3 results.
func algebraSizeCase(sh uint32, ka, kb byte, n int) hx.Case {
	var ops []string
	emit := func(format string, a ...any) { ops = append(ops, fmt.Sprintf(format, a...)) }
	emit("addvar 0 0 %d 1", n)
	for lo := 1; lo <= 4; lo++ {
		emit("addvar 1 %d %d 5", lo, (n-lo+4)/5)
	}
	emit("addvar 1 %d 10 1", n)
	emit("size 1")
	emit("diff 2 0 1") // the multiples of 5: a fifth of the receiver is left
	emit("size 2")
	emit("inter 3 0 1")
	emit("size 3")
	emit("union 3 2 3")
	emit("equal 3 0")
	emit("diff 3 1 0") // the ten values outside
	emit("diff 3 0 1 1 2")
	emit("isempty 3")
	emit("diff 3 0 0") // a set minus itself
	emit("isempty 3")
	emit("inter 3 0 0 0")
	emit("equal 3 0")
	emit("union 3 0 0")
	emit("equal 0 3")
	emit("subset 0 0")
	emit("superset 0 0")
	emit("subset 2 0")
	emit("superset 1 2")
	emit("inter 3 1 2")
	emit("isempty 3")
	emit("all2 0 1")
	emit("size 0")
	emit("size 1")
	return hx.Case{Header: fmt.Sprintf("comp=reg sh=%d regs=%c%c%c%c fam=algebra-size", sh, ka, kb, ka, ka), Ops: ops}
}

// algebraMixCase: two dimensions at once — sets of n members each under all seven comparators/implementations, every
// ordered pairing in Union / Intersection / Difference (the operation rotates with the pairing and with rot), and calls
// with three operands. stride = how far the ranges of neighbouring registers are apart: n/3 overlaps heavily,
// 7n/8 lightly (a Difference then leaves most of a large receiver standing when the next operand arrives).
// Registers 0-6: one per kind, register k holds lo, lo+1, …, lo = (k mod 4) * stride; 7: results.
func algebraMixCase(sh uint32, n, stride, rot int, sortedOnly bool) hx.Case {
	kinds := kindLetters // usadbce
	var ops []string
	emit := func(format string, a ...any) { ops = append(ops, fmt.Sprintf(format, a...)) }
	for k := range kinds {
		lo := (k % 4) * stride
		if k%2 == 0 {
			emit("addvar %d %d %d 1", k, lo, n)
		} else {
			emit("addvar %d %d %d -1", k, lo+n-1, n)
		}
	}
	names := []string{"union", "inter", "diff"}
	for a := range kinds {
		for b := range kinds {
			if sortedOnly && (a < 2 || b < 2 || a == b) {
				continue
			}
			emit("%s 7 %d %d", names[(a+2*b+rot)%3], a, b)
		}
	}
	for a := range kinds {
		for _, d := range [][2]int{{3, 6}, {1, 4}, {2, 5}} {
			b, c := (a+d[0])%7, (a+d[1])%7
			if sortedOnly && (a < 2 || (b < 2 && c < 2)) {
				continue
			}
			emit("%s 7 %d %d %d", names[(a+d[0]+rot)%3], a, b, c)
			if !sortedOnly || d[0] == 3 {
				emit("diff 7 %d %d %d", a, b, c)
			}
		}
	}
	emit("diff 7 2 3 4 5 6")
	emit("union 7 3 2 0 1 2")
	emit("size 7")
	return hx.Case{Header: fmt.Sprintf("comp=reg sh=%d regs=%s%c fam=algebra-mix", sh, kinds, kinds[rot%len(kinds)]), Ops: ops}
}

// everySizeCase: the multi-operand, mixed-comparator algebra at EVERY size n (thresholds that are not powers of two).
// Registers 0-3 of rotating kinds, n members each, ranges 7n/8 apart (0 and 2 also share every other member); 4: results.
func everySizeCase(n int) hx.Case {
	kinds := []string{"adus", "daeb", "usac", "bcde", "eads", "sdau", "caub"}[n%7]
	var ops []string
	emit := func(format string, a ...any) { ops = append(ops, fmt.Sprintf(format, a...)) }
	st := 7 * n / 8
	emit("addvar 0 0 %d 1", n)
	emit("addvar 1 %d %d 1", st, n)
	emit("addvar 2 %d %d -2", 2*n, n)
	emit("addvar 3 %d %d 1", n/8, n)
	emit("union 4 0 1 2 3")
	emit("diff 4 1 0 3")
	emit("diff 4 0 1 2")
	emit("diff 4 3 0 2 1")
	emit("diff 4 2 1 0")
	emit("inter 4 0 3")
	emit("inter 4 3 0 1")
	emit("union 4 1 0")
	emit("union 4 2 3")
	emit("equal 4 2")
	emit("subset 0 4")
	emit("diff 4 4 0 1")
	emit("size 4")
	return hx.Case{Header: fmt.Sprintf("comp=reg sh=%d regs=%s%c fam=every-size", 5000+n, kinds, kinds[0]), Ops: ops}
}

// bigCase: 65535..65537 members (oracle only: the list-backed Model is quadratic there). The build and the
// removals are chosen so that the implementation stays fast: ascending values, removals from the second-to-last
// member downwards (the array is shifted by one place per Remove).
func bigCase(sh uint32, kind byte, n int) hx.Case {
	var ops []string
	emit := func(format string, a ...any) { ops = append(ops, fmt.Sprintf(format, a...)) }
	lo, st := 0, 1
	if isDescKind(kind) { // descending comparator: descending values append at the end
		lo, st = n-1, -1
	}
	last := lo + (n-1)*st
	// (every op line costs a String() of every register before and after it: few lines)
	emit("addvar 0 %d %d %d", lo, n, st)
	emit("contains 0 0 %d %d", n-1, n/2)
	emit("contains 0 %d", n)
	emit("clone 1 0")
	emit("addseq 0 %d 3 %d", last+st, st) // three more, one by one
	emit("removeseq 0 %d %d %d", last+2*st, n-n/5, -st)
	emit("equal 0 1")
	emit("superset 1 0")
	emit("contains 0 %d %d", lo, last+3*st)
	emit("diff 2 1 0")
	emit("inter 2 0 1")
	emit("equal 2 0")
	emit("removeseq 0 %d %d %d", last+2*st-(n-n/5)*st, n/5+10, -st)
	emit("all2 0 0")
	emit("removeall 1")
	emit("isempty 1")
	c := hx.Case{Header: fmt.Sprintf("comp=reg sh=%d regs=%c%c%c fam=big", sh, kind, kind, kind), Ops: ops}
	c.NoModel = true
	return c
}

// iterCase: iterators used in the ways a for-range loop does not.
func iterCase(sh uint32, kinds string, n0, n1 int) hx.Case {
	var ops []string
	emit := func(format string, a ...any) { ops = append(ops, fmt.Sprintf(format, a...)) }
	emit("addvar 0 0 %d 3", n0)
	emit("addvar 1 -2 %d 2", n1)
	emit("addvar 2 1 4 1")
	for _, p := range [][2]int{{0, 1}, {1, 0}, {0, 0}, {2, 1}, {0, 3}, {3, 0}} {
		emit("all2 %d %d", p[0], p[1])
		emit("allpull %d %d", p[0], p[1])
		if n0*n1 <= 4000 {
			emit("allnest %d %d", p[0], p[1])
		}
	}
	emit("allnever 0")
	emit("allthen 0 add 1000 1001")
	emit("allthen 0 remove 0 3 1000")
	emit("allrerun 1 remove -2 0 2")
	emit("allrerun 1 add -2 0 2 77")
	emit("allthen 2 remove 1 2 3")
	emit("allrerun 2 removeall")
	emit("allthen 2 add 4 1 3 2")
	emit("allthen 3 add 5")
	emit("allrerun 3 removeall")
	emit("allnever 3")
	emit("allbreak 0 2")
	emit("allbreak 1 0")
	emit("allbreak 1 %d", n1)
	emit("allbreak 3 1")
	emit("all2 0 1")
	emit("add 0 -9")
	emit("all2 1 0")
	emit("string 0")
	emit("string 1")
	return hx.Case{Header: fmt.Sprintf("comp=reg sh=%d regs=%s fam=iter", sh, kinds), Ops: ops}
}

// extremeCase: members at the magnitudes where a conversion or a subtraction would wrap (kinds whose comparator
// does not subtract).
func extremeCase(sh uint32, kinds string) hx.Case {
	const maxI, minI = 1<<63 - 1, -1 << 63
	ops := []string{
		fmt.Sprintf("add 0 0 -1 %d %d %d 1 %d", maxI, minI, 1<<32, -(1 << 32)),
		fmt.Sprintf("add 1 %d %d 0", minI, maxI),
		fmt.Sprintf("add 2 %d %d -1 %d", 1<<31, maxI-1, minI+1),
		"string 0", "string 1", "string 2", "all 0",
		fmt.Sprintf("contains 0 %d", maxI), fmt.Sprintf("contains 0 %d", minI), fmt.Sprintf("contains 1 %d %d", maxI, minI),
		fmt.Sprintf("contains 0 %d", maxI-1), fmt.Sprintf("contains 2 %d", 1<<32), "contains 0 0",
		"union 3 0 1 2", "inter 3 0 1", "diff 3 0 1", "diff 3 0 2 1", "subset 1 0", "superset 0 1", "equal 0 1",
		fmt.Sprintf("remove 0 %d", minI), fmt.Sprintf("remove 0 %d 0", maxI), "string 0", "size 0",
		fmt.Sprintf("remove 1 %d %d 0", maxI, minI), "isempty 1", "inter 3 2 0", "all2 0 2",
	}
	return hx.Case{Header: fmt.Sprintf("comp=reg sh=%d regs=%s fam=extreme", sh, kinds), Ops: ops}
}

// sizeFamilies runs on every check; nothing in it is drawn from the PRNG (sh, the seed of the scripted shuffle,
// is a function of the case's own parameters).
func sizeFamilies(run *hx.Run, do func(hx.Case)) {
	sizes := []int{63, 64, 65, 255, 256, 257, 1023, 1024, 1025}
	kinds := "usad"
	if run.Thorough() {
		sizes = append(sizes, 127, 128, 129, 511, 512, 513, 2047, 2048, 2049, 4097)
		kinds = kindLetters
	}
	k := 0
	for _, n := range sizes {
		for _, kind := range []byte(kinds) {
			if run.Thorough() && n <= 1025 {
				for v := 0; v < 16; v++ {
					do(sizeCase(uint32(n*64+v), kind, n, v%4, v/4))
				}
				continue
			}
			// quick: the build and shrink variants rotate over sizes and kinds
			do(sizeCase(uint32(n*64+k), kind, n, k%4, (k/4+k)%4))
			k++
		}
	}
	// the comparators that subtract, once each in the quick tier
	if !run.Thorough() {
		do(sizeCase(7, 'b', 257, 3, 0))
		do(sizeCase(8, 'c', 1025, 2, 1))
		do(sizeCase(9, 'e', 1024, 0, 3))
	}
	// set algebra between implementations: all nine pairings of {unordered, stable, sorted}
	pair := 0
	for _, ka := range []byte("usa") {
		for _, kb := range []byte("usd") {
			ns := []int{[]int{257, 600, 1025, 256, 1024}[pair%5]}
			if run.Thorough() {
				ns = []int{255, 256, 257, 600, 1023, 1024, 1025, 2049}
			}
			for _, n := range ns {
				do(algebraSizeCase(uint32(n+pair), ka, kb, n))
			}
			pair++
		}
	}
	do(algebraSizeCase(77, 'e', 'c', 600))
	// mixed comparators and several operands at the sweep sizes
	for i, n := range []int{64, 65, 128, 129, 256, 257} {
		do(algebraMixCase(uint32(900+i), n, n/3, i, false))
		do(algebraMixCase(uint32(910+i), n, 7*n/8, i+1, false))
	}
	do(algebraMixCase(920, 1024, 7*1024/8, 0, true))
	if run.Thorough() {
		do(algebraMixCase(921, 1024, 1024/3, 1, true))
		do(algebraMixCase(922, 1025, 7*1025/8, 2, true))
		for i, n := range []int{63, 127, 130, 255, 511, 512, 513} {
			do(algebraMixCase(uint32(930+i), n, n/3, i, false))
			do(algebraMixCase(uint32(940+i), n, 7*n/8, i+2, false))
		}
	}
	for n := 0; n <= 200; n++ {
		do(everySizeCase(n))
	}
	// element types other than int (typed.go): a fixed history per type over all seven kinds …
	for i, el := range elemTypes {
		do(hx.Case{Header: fmt.Sprintf("comp=reg sh=%d regs=usadbceu fam=typed elem=%s", 700+i, el), Ops: []string{
			"add 0 3 1 2 1", "add 1 5 1 4", "add 2 7 -2 3 0", "add 3 7 -2 3 0", "add 4 2 9", "add 5 1 1 6", "add 6 4 0 -1",
			"contains 0 1 3", "contains 0 4", "contains 2 -2", "contains 3 8", "remove 0 1 9", "remove 2 3 3", "all 0", "all 1", "all 2", "all 3",
			"equal 2 3", "equal 3 2", "subset 6 2", "superset 2 6", "union 7 0 1 2", "union 7 1 0 3 6", "union 7 2 3 4", "inter 7 2 3", "inter 7 0 1 2",
			"diff 7 3 2", "diff 7 3 0 4 6", "diff 7 1 1", "clone 7 3", "add 7 100", "equal 7 3", "cloneempty 7 1", "add 7 4 5", "subset 7 1",
			"removeall 4", "isempty 4", "size 5", "string 0", "string 1", "string 2", "string 3", "string 5", "string 6", "string 7"}})
	}
	// … and random ones
	rty := run.R.Fork("typed")
	for k := run.Scale(90); k > 0; k-- {
		do(typedCase(rty, hx.Pick(rty, elemTypes)))
	}
	// iterators
	for i, kinds := range []string{"uusa", "uuud", "suua", "aude", "ussb"} {
		do(iterCase(uint32(100+i), kinds, 5+i, 9+2*i))
		do(iterCase(uint32(200+i), kinds, 9+i, 4))
	}
	do(iterCase(300, "uuuu", 300, 700))
	do(iterCase(301, "uusa", 1025, 64))
	for _, kinds := range []string{"usad", "adus", "suda", "uuss"} {
		do(extremeCase(5, kinds))
	}
	// 65535..65537 members, judged by the oracle only
	do(bigCase(11, 'a', 65537))
	if run.Thorough() {
		do(bigCase(12, 'd', 65536))
		do(bigCase(13, 'a', 65535))
		do(bigCase(14, 's', 65537))
		do(bigCase(15, 'u', 65536))
	}
}

// enumCase: n elements of kind k, then powerset / partitions
func enumCase(r *hx.Rand, kind byte, n int, what string, format byte) hx.Case {
	perm := []int{}
	for v := 0; v < n; v++ {
		perm = append(perm, v*3-4)
	}
	for i := len(perm) - 1; i > 0; i-- {
		j := r.Intn(i + 1)
		perm[i], perm[j] = perm[j], perm[i]
	}
	ops := []string{}
	if format != '-' {
		// the set is made by New…WithFormat with the values as initial values
		ops = append(ops, fmt.Sprintf("newf 0 %c %c%s", kind, format, join(perm)))
	} else if n > 0 {
		ops = append(ops, "add 0"+join(perm))
	}
	ops = append(ops, what+" 0", "string 0", "size 0")
	if what == "powerset" {
		ops = append(ops, "powerstr 0", "powermut 0 99", "string 0", "powermut 0 -4", "string 0")
	} else {
		ops = append(ops, "partstr 0", "partmut 0 99", "string 0", "partmut 0 -4", "string 0")
	}
	return hx.Case{Header: fmt.Sprintf("comp=reg sh=%d regs=%c", uint32(r.U64()), kind), Ops: ops}
}

func subsetOf(mask, n int) []int {
	var xs []int
	for v := 0; v < n; v++ {
		if mask&(1<<v) != 0 {
			xs = append(xs, v)
		}
	}
	return xs
}

func shuffled(r *hx.Rand, xs []int) []int {
	c := append([]int{}, xs...)
	for i := len(c) - 1; i > 0; i-- {
		j := r.Intn(i + 1)
		c[i], c[j] = c[j], c[i]
	}
	return c
}

func exhaustive(alpha []string, n int, f func([]string)) {
	idx := make([]int, n)
	for {
		ops := make([]string, n)
		for i, k := range idx {
			ops[i] = alpha[k]
		}
		f(ops)
		i := n - 1
		for i >= 0 {
			idx[i]++
			if idx[i] < len(alpha) {
				break
			}
			idx[i] = 0
			i--
		}
		if i < 0 {
			return
		}
	}
}

func Main(run *hx.Run) {
	run.Stats.Rule = Rule
	do := func(c hx.Case) {
		if !hung.Load() {
			run.Do("reg", c, Exec)
		}
	}
	for _, f := range hx.CorpusFiles("C16") {
		cs, _ := hx.ReadReplay(f)
		for _, c := range cs {
			do(c)
		}
	}
	// Powerset n<=7 and Partitions n<=6 for every implementation (quick: the large n once per kind)
	re := run.R.Fork("enum")
	enumFormats := "-" + formatLetters
	for ki, kind := range []byte(kindLetters) {
		for n := 0; n <= 7; n++ {
			reps := 1
			if run.Thorough() {
				reps = 4
			}
			for k := 0; k < reps; k++ {
				// the format rotates with kind, n and repetition: default, A, B, N
				do(enumCase(re, kind, n, "powerset", enumFormats[(ki+n+k)%len(enumFormats)]))
				if n <= 6 {
					do(enumCase(re, kind, n, "partitions", enumFormats[(ki+n+k+1)%len(enumFormats)]))
				}
			}
		}
	}
	// seeded random histories
	rr := run.R.Fork("random")
	n := run.Scale(700)
	for k := 0; k < n; k++ {
		univ := hx.Pick(rr, []int{4, 5, 6, 6, 8, 12})
		length := rr.Range(8, 60)
		if rr.Chance(1, 20) {
			length = 300
			univ = 40
		}
		do(randomCase(rr, rr.Range(2, 5), univ, length, 5, 4, false))
	}
	// the format field: all three New…WithFormat constructors in every case, results with mixed-format operands
	rf := run.R.Fork("format")
	for k := run.Scale(80); k > 0; k-- {
		do(formatCase(rf))
	}
	// the package's own random source (globalSource) instead of the scripted one, order-insensitive operations only
	rg := run.R.Fork("global")
	for k := run.Scale(60); k > 0; k-- {
		do(randomCase(rg, rg.Range(2, 5), hx.Pick(rg, []int{4, 6, 8, 12}), rg.Range(8, 50), 5, 4, true))
	}
	// aliasing: edit results, re-observe operands and siblings, edit operands, re-observe results
	ra := run.R.Fork("alias")
	for k := run.Scale(150); k > 0; k-- {
		do(aliasCase(ra))
	}
	// the same members under different comparators and kinds
	rc := run.R.Fork("cmpmix")
	for k := run.Scale(40); k > 0; k-- {
		do(cmpMixCase(rc))
	}
	// the threshold families come after the short random histories: a change that breaks everyday behaviour is then
	// reported (and shrunk) on a short history, and the long ones only speak up for what needs their size
	sizeFamilies(run, do)
	if run.Thorough() {
		rx := run.R.Fork("exhaustive")
		// (E1) every history of length <= 5 over {add v, remove v, removeall} with 3 values, and of length <= 4
		// with 4 values, for each implementation, followed by a fixed observation tail
		for _, kind := range []byte(kindLetters) {
			for _, cfg := range [][2]int{{3, 5}, {4, 4}} {
				univ, maxLen := cfg[0], cfg[1]
				var alpha []string
				tail := []string{"string 0", "size 0", "all 0"}
				for v := 0; v < univ; v++ {
					alpha = append(alpha, "add 0 "+strconv.Itoa(v), "remove 0 "+strconv.Itoa(v))
					tail = append(tail, "contains 0 "+strconv.Itoa(v))
				}
				alpha = append(alpha, "removeall 0")
				for l := 1; l <= maxLen; l++ {
					exhaustive(alpha, l, func(ops []string) {
						do(hx.Case{Header: fmt.Sprintf("comp=reg sh=%d regs=%c", uint32(rx.U64()), kind), Ops: append(ops, tail...)})
					})
				}
			}
		}
		// (E2) every pair of implementations x every pair of subsets of a 4-element universe
		for _, ka := range []byte(kindLetters) {
			for _, kb := range []byte(kindLetters) {
				for a := 0; a < 16; a++ {
					for b := 0; b < 16; b++ {
						ops := []string{"add 0" + join(shuffled(rx, subsetOf(a, 4))), "add 1" + join(shuffled(rx, subsetOf(b, 4))),
							"equal 0 1", "subset 0 1", "superset 0 1", "union 2 0 1", "inter 2 0 1", "diff 2 0 1",
							"union 2 0 1 0", "inter 2 0 0 1", "diff 2 0 0", "union 2 0", "inter 2 0", "diff 2 0", "string 0", "string 1"}
						do(hx.Case{Header: fmt.Sprintf("comp=reg sh=%d regs=%c%c%c", uint32(rx.U64()), ka, kb, ka), Ops: ops})
					}
				}
			}
		}
		// (E3) every triple of implementations x every triple of subsets of a 3-element universe
		for _, alphabet := range []string{"usad", "sbe", "uce"} {
			for _, ka := range []byte(alphabet) {
				for _, kb := range []byte(alphabet) {
					for _, kc := range []byte(alphabet) {
						for m := 0; m < 512; m++ {
							ops := []string{"add 0" + join(shuffled(rx, subsetOf(m&7, 3))), "add 1" + join(shuffled(rx, subsetOf((m>>3)&7, 3))),
								"add 2" + join(shuffled(rx, subsetOf((m>>6)&7, 3))),
								"union 3 0 1 2", "inter 3 0 1 2", "diff 3 0 1 2", "string 0", "string 1", "string 2"}
							do(hx.Case{Header: fmt.Sprintf("comp=reg sh=%d regs=%c%c%c%c", uint32(rx.U64()), ka, kb, kc, ka), Ops: ops})
						}
					}
				}
			}
		}
		// (E4) the format field: every pair of implementations from {u,s,a} x {u,s,d} x every pair of formats (default,
		// A, B, N) for receiver and operand x every pair of subsets of a 3-universe: both made by the constructor that
		// the format calls for, then every operation that creates a set object, String() of each result
		mk := func(d int, kind, f byte, vs []int) string {
			if f == '-' {
				return fmt.Sprintf("new %d %c%s", d, kind, join(vs))
			}
			return fmt.Sprintf("newf %d %c %c%s", d, kind, f, join(vs))
		}
		allFormats := "-" + formatLetters
		for _, ka := range []byte("usa") {
			for _, kb := range []byte("usd") {
				for _, fa := range []byte(allFormats) {
					for _, fb := range []byte(allFormats) {
						for m := 0; m < 64; m++ {
							ops := []string{mk(0, ka, fa, shuffled(rx, subsetOf(m&7, 3))), mk(1, kb, fb, shuffled(rx, subsetOf(m>>3, 3))),
								"string 0", "string 1", "union 2 0 1", "inter 2 0 1", "diff 2 0 1", "union 2 1 0 0", "inter 2 1 0", "diff 2 1 0",
								"clone 2 0", "add 2 7", "string 2", "cloneempty 2 1", "add 2 1 0", "string 2", "select 2 0 odd",
								"partition 2 3 1 ge:1", "string 3", "union 3 2 0 1", "removeall 0", "string 0", "add 0 5", "string 0",
								"powerstr 1", "partstr 0", "string 1"}
							do(hx.Case{Header: fmt.Sprintf("comp=reg sh=%d regs=%c%c%c%c", uint32(rx.U64()), ka, kb, ka, kb), Ops: ops})
						}
					}
				}
			}
		}
		run.Stats.Extra["exhaustive_part"] = "per implementation: all Add/Remove/RemoveAll histories of length<=5 over 3 values and <=4 over 4 values; " +
			"all pairs of implementations x all pairs of subsets of a 4-universe (Equal/IsSubset/IsSuperset/Union/Intersection/Difference, " +
			"receiver also as operand, zero operands); all triples of implementations x all triples of subsets of a 3-universe; " +
			"Powerset n<=7 and Partitions n<=6 for every implementation; the format field: 3x3 implementations x 4x4 formats (default and the " +
			"three custom ones, via New / New…WithFormat) x all pairs of subsets of a 3-universe through every set-creating operation"
	}
}
