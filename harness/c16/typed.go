package c16

// Element types other than int (header elem=…): the three set implementations instantiated with string, a struct, a
// pointer, []int, a struct holding a slice and `any` with mixed dynamic types. Every element stands for an integer
// (codec.enc / codec.dec); equal and compare decide on those integers, and every set is created with a format function
// that prints the integers in the default format {a, b}, so that the output lines are those of the (generic) Model run
// on Int. The executor covers the operations of the Set interface that do not take a predicate.

import (
	"fmt"
	"math/rand"
	"runtime"
	"slices"
	"strconv"
	"strings"

	"github.com/moorara/algo/set"

	"verifharness/hx"
)

type codec[T any] struct {
	enc func(int) T
	dec func(T) int
}

type rec struct {
	K    int
	Name string
}

type sbox struct {
	id  []int
	tag string
}

func encAny(v int) any {
	switch ((v % 4) + 4) % 4 {
	case 0:
		return v
	case 1:
		return strconv.Itoa(v)
	case 2:
		return []int{v}
	}
	return sbox{id: []int{v}}
}

func decAny(t any) int {
	switch x := t.(type) {
	case int:
		return x
	case string:
		v, _ := strconv.Atoi(x)
		return v
	case []int:
		return x[0]
	case sbox:
		return x.id[0]
	}
	return scribbleValue
}

var elemTypes = []string{"string", "struct", "ptr", "slice", "sbox", "any"}

// execTypedCase dispatches on the header's elem.
func execTypedCase(c hx.Case, pub *published, elem string) {
	switch elem {
	case "string":
		runTyped(c, pub, codec[string]{strconv.Itoa, func(t string) int { v, _ := strconv.Atoi(t); return v }})
	case "struct":
		runTyped(c, pub, codec[rec]{func(v int) rec { return rec{v, "v" + strconv.Itoa(v)} }, func(t rec) int { return t.K }})
	case "ptr": // a new pointer for every value handed in
		runTyped(c, pub, codec[*int]{func(v int) *int { p := new(int); *p = v; return p }, func(t *int) int { return *t }})
	case "slice":
		runTyped(c, pub, codec[[]int]{func(v int) []int { return []int{v, -v} }, func(t []int) int { return t[0] }})
	case "sbox":
		runTyped(c, pub, codec[sbox]{func(v int) sbox { return sbox{id: []int{v}, tag: "s"} }, func(t sbox) int { return t.id[0] }})
	case "any":
		runTyped(c, pub, codec[any]{encAny, decAny})
	default:
		res := hx.Result{BadOp: -1}
		for range c.Ops {
			res.Outs = append(res.Outs, "bad-case")
		}
		pub.mu.Lock()
		pub.res = res
		pub.mu.Unlock()
	}
}

func runTyped[T any](c hx.Case, pub *published, cd codec[T]) {
	res := hx.Result{BadOp: -1}
	publish := func() {
		pub.mu.Lock()
		pub.res = res
		pub.mu.Unlock()
	}
	defer publish()
	bad := func(i int, format string, a ...any) {
		if res.BadOp < 0 {
			res.BadOp = i
			res.What = fmt.Sprintf(format, a...)
		}
	}
	tags := map[string]bool{"elem=" + hx.HeaderGet(c.Header, "elem"): true, "fam=typed": true}
	kinds := hx.HeaderGet(c.Header, "regs")
	shSeed, _ := strconv.ParseUint(hx.HeaderGet(c.Header, "sh"), 10, 32)
	script := &scripted{x: uint32(shSeed)}
	checkSrc := rand.NewSource(int64(shSeed) + 977)
	stop := func() {
		if pub.abandoned.Load() {
			runtime.Goexit()
		}
	}
	opMode := func() { stop(); set.VerifSetShuffleSource(script) }
	checkMode := func() { stop(); set.VerifSetShuffleSource(checkSrc) }

	decs := func(ts []T) []int {
		xs := make([]int, len(ts))
		for i, t := range ts {
			xs[i] = cd.dec(t)
		}
		return xs
	}
	encs := func(vs []int) []T {
		ts := make([]T, len(vs))
		for i, v := range vs {
			ts[i] = cd.enc(v)
		}
		return ts
	}
	eqT := func(a, b T) bool { return cd.dec(a) == cd.dec(b) }
	cmpOf := func(f func(a, b int) int) func(a, b T) int {
		return func(a, b T) int { return f(cd.dec(a), cd.dec(b)) }
	}
	// the default format over the integers the members stand for
	format := func(ms []T) string { return "{" + joinInts(decs(ms), ", ") + "}" }
	mk := func(kind byte) set.Set[T] {
		switch kind {
		case 'u':
			return set.NewWithFormat[T](eqT, format)
		case 's':
			return set.NewStableWithFormat[T](eqT, format)
		case 'a':
			return set.NewSortedWithFormat[T](cmpOf(cmpAsc), format)
		case 'd':
			return set.NewSortedWithFormat[T](cmpOf(cmpDesc), format)
		case 'b':
			return set.NewSortedWithFormat[T](cmpOf(cmpSub), format)
		case 'c':
			return set.NewSortedWithFormat[T](cmpOf(cmpSub7), format)
		case 'e':
			return set.NewSortedWithFormat[T](cmpOf(cmpRevSub), format)
		}
		return nil
	}
	regs := make([]set.Set[T], len(kinds))
	orc := make([]*oreg, len(kinds))
	for i := range regs {
		if regs[i] = mk(kinds[i]); regs[i] == nil {
			for range c.Ops {
				res.Outs = append(res.Outs, "bad-case")
			}
			return
		}
		orc[i] = newOreg(kinds[i])
	}
	members := func(s set.Set[T]) []int {
		checkMode()
		var xs []int
		for t := range s.All() {
			xs = append(xs, cd.dec(t))
		}
		return xs
	}
	agree := func(i int, what string, s set.Set[T], o *oreg) {
		ms := members(s)
		asc, exp := o.sortedAsc(), o.expectedOrder()
		if !sameInts(sortedCopy(ms), asc) {
			bad(i, "%s holds %v, the mathematical set is %v", what, sortedCopy(ms), asc)
			return
		}
		if s.Size() != len(o.m) || s.IsEmpty() != (len(o.m) == 0) {
			bad(i, "%s: Size() = %d, IsEmpty() = %v with %d members", what, s.Size(), s.IsEmpty(), len(o.m))
		}
		if exp != nil && !sameInts(ms, exp) {
			bad(i, "%s (kind %c) iterates as %v, required order is %v", what, o.kind, ms, exp)
		}
		if got, ok := parseStr('-', s.String()); !ok || !sameInts(sortedCopy(got), asc) || (exp != nil && !sameInts(got, exp)) {
			bad(i, "%s: String() = %q, the set is %v", what, s.String(), asc)
		}
	}
	sub := func(x, y *oreg) bool {
		for v := range x.m {
			if !y.m[v] {
				return false
			}
		}
		return true
	}

	for i, op := range c.Ops {
		stop()
		publish()
		f := strings.Fields(op)
		out := "bad-op"
		snap := make([]string, len(regs))
		for k, s := range regs {
			snap[k] = s.String()
		}
		dst := -1
		reg := func(w string) int {
			k, err := strconv.Atoi(w)
			if err != nil || k < 0 || k >= len(regs) {
				return -1
			}
			return k
		}
		ints := func(ws []string) ([]int, bool) {
			xs := make([]int, len(ws))
			for k, w := range ws {
				v, err := strconv.Atoi(w)
				if err != nil {
					return nil, false
				}
				xs[k] = v
			}
			return xs, true
		}
		kind := hx.Try(func() {
			if len(f) < 2 {
				return
			}
			switch f[0] {
			case "add", "remove", "contains":
				k := reg(f[1])
				vs, ok := ints(f[2:])
				if k < 0 || !ok {
					return
				}
				s, o := regs[k], orc[k]
				opMode()
				arg := encs(vs)
				switch f[0] {
				case "add":
					dst = k
					s.Add(arg...)
					for _, v := range vs {
						o.add(v)
					}
					out = "ok"
				case "remove":
					dst = k
					s.Remove(arg...)
					for _, v := range vs {
						o.remove(v)
					}
					out = "ok"
				default:
					got := s.Contains(arg...)
					want := true
					for _, v := range vs {
						want = want && o.m[v]
					}
					out = "ok " + strconv.FormatBool(got)
					if got != want {
						bad(i, "Contains(%v) = %v on %v", vs, got, o.sortedAsc())
					}
				}
				// the caller's slice is the caller's again
				for j := range arg {
					arg[j] = cd.enc(scribbleValue - j)
				}
				if dst >= 0 {
					agree(i, "after "+f[0]+" the set", s, o)
				}
			case "removeall", "size", "isempty", "all", "string":
				k := reg(f[1])
				if k < 0 || len(f) != 2 {
					return
				}
				s, o := regs[k], orc[k]
				opMode()
				switch f[0] {
				case "removeall":
					dst = k
					s.RemoveAll()
					o.m, o.order = map[int]bool{}, nil
					out = "ok"
					agree(i, "after RemoveAll the set", s, o)
				case "size":
					out = "ok " + strconv.Itoa(s.Size())
					if s.Size() != len(o.m) {
						bad(i, "Size() = %d, the set has %d members", s.Size(), len(o.m))
					}
				case "isempty":
					out = "ok " + strconv.FormatBool(s.IsEmpty())
					if s.IsEmpty() != (len(o.m) == 0) {
						bad(i, "IsEmpty() = %v with %d members", s.IsEmpty(), len(o.m))
					}
				case "all":
					var ms []int
					for t := range s.All() {
						ms = append(ms, cd.dec(t))
					}
					if o.kind == 'u' {
						out = "ok " + intsStr(sortedCopy(ms))
					} else {
						out = "ok " + intsStr(ms)
					}
					if !sameInts(sortedCopy(ms), o.sortedAsc()) {
						bad(i, "All() yields %v, the set is %v", ms, o.sortedAsc())
					} else if exp := o.expectedOrder(); exp != nil && !sameInts(ms, exp) {
						bad(i, "All() of kind %c yields %v, required order %v", o.kind, ms, exp)
					}
				case "string":
					out = "ok " + s.String()
				}
			case "equal", "subset", "superset":
				if len(f) != 3 {
					return
				}
				a, b := reg(f[1]), reg(f[2])
				if a < 0 || b < 0 {
					return
				}
				var got, want bool
				opMode()
				switch f[0] {
				case "equal":
					got, want = regs[a].Equal(regs[b]), sub(orc[a], orc[b]) && sub(orc[b], orc[a])
				case "subset":
					got, want = regs[a].IsSubset(regs[b]), sub(orc[a], orc[b])
				default:
					got, want = regs[a].IsSuperset(regs[b]), sub(orc[b], orc[a])
				}
				out = "ok " + strconv.FormatBool(got)
				if got != want {
					bad(i, "%s of %v and %v = %v", f[0], orc[a].sortedAsc(), orc[b].sortedAsc(), got)
				}
			case "clone", "cloneempty":
				if len(f) != 3 {
					return
				}
				d, a := reg(f[1]), reg(f[2])
				if d < 0 || a < 0 {
					return
				}
				opMode()
				dst = d
				if f[0] == "clone" {
					regs[d], orc[d] = regs[a].Clone(), orc[a].clone()
				} else {
					regs[d], orc[d] = regs[a].CloneEmpty(), newOreg(orc[a].kind)
				}
				out = "ok"
				agree(i, f[0]+" result", regs[d], orc[d])
			case "union", "inter", "diff":
				if len(f) < 3 {
					return
				}
				d, a := reg(f[1]), reg(f[2])
				if d < 0 || a < 0 {
					return
				}
				var ops []set.Set[T]
				var oops []*oreg
				for _, w := range f[3:] {
					k := reg(w)
					if k < 0 {
						return
					}
					ops, oops = append(ops, regs[k]), append(oops, orc[k])
				}
				recv := orc[a]
				o := newOreg(recv.kind)
				src := recv.order
				if recv.kind != 's' {
					src = recv.sortedAsc()
				}
				opMode()
				var t set.Set[T]
				switch f[0] {
				case "union":
					t = regs[a].Union(ops...)
					for _, v := range src {
						o.add(v)
					}
					for _, x := range oops {
						for _, v := range x.sortedAsc() {
							o.add(v)
						}
					}
				case "inter":
					t = regs[a].Intersection(ops...)
					for _, v := range src {
						in := true
						for _, x := range oops {
							in = in && x.m[v]
						}
						if in {
							o.add(v)
						}
					}
				default:
					t = regs[a].Difference(ops...)
					for _, v := range src {
						in := false
						for _, x := range oops {
							in = in || x.m[v]
						}
						if !in {
							o.add(v)
						}
					}
				}
				out = "ok " + t.String()
				dst = d
				if f[0] == "union" && recv.kind == 's' {
					// the insertion order of a stable Union depends on the operands' iteration orders: take the observed
					// one when it is a permutation that keeps the receiver's members first, in their order
					got := members(t)
					if sameInts(sortedCopy(got), o.sortedAsc()) && len(got) >= len(recv.order) && sameInts(got[:len(recv.order)], recv.order) {
						o.order = got
					}
				}
				regs[d], orc[d] = t, o
				agree(i, f[0]+" result", t, o)
				tags["typed-"+f[0]] = true
			}
		})
		if kind != "" {
			res.Outs = append(res.Outs, "panic")
			bad(i, "%s panicked (%s)", op, kind)
			break
		}
		res.Outs = append(res.Outs, out)
		for k, s := range regs {
			if k != dst {
				if now := s.String(); now != snap[k] {
					bad(i, "%s changed register %d from %s to %s", op, k, snap[k], now)
				}
			}
		}
	}
	res.Nontrivial = true
	for t := range tags {
		res.Tags = append(res.Tags, t)
	}
	slices.Sort(res.Tags)
}

// typedCase: a history over the operations the typed executor covers.
func typedCase(r *hx.Rand, elem string) hx.Case {
	n := r.Range(2, 4)
	kinds := make([]byte, n)
	for i := range kinds {
		kinds[i] = kindLetters[r.Intn(len(kindLetters))]
	}
	var ops []string
	emit := func(format string, a ...any) { ops = append(ops, fmt.Sprintf(format, a...)) }
	val := func() int { return r.Intn(9) - 2 }
	vals := func(lo, hi int) []int {
		xs := make([]int, r.Range(lo, hi))
		for i := range xs {
			xs[i] = val()
		}
		return xs
	}
	for i := 0; i < n; i++ {
		emit("add %d%s", i, join(vals(1, 5)))
	}
	for k := r.Range(10, 40); k > 0; k-- {
		i, j, d := r.Intn(n), r.Intn(n), r.Intn(n)
		switch x := r.Intn(100); {
		case x < 18:
			emit("add %d%s", i, join(vals(1, 3)))
		case x < 32:
			emit("remove %d%s", i, join(vals(1, 2)))
		case x < 45:
			emit("contains %d%s", i, join(vals(1, 2)))
		case x < 48:
			emit("removeall %d", i)
		case x < 53:
			emit("size %d", i)
		case x < 60:
			emit("all %d", i)
		case x < 66:
			emit("string %d", i)
		case x < 78:
			emit("%s %d %d", hx.Pick(r, []string{"equal", "subset", "superset"}), i, j)
		case x < 82:
			emit("%s %d %d", hx.Pick(r, []string{"clone", "cloneempty"}), d, i)
		default:
			args := ""
			for m := r.Range(0, 3); m > 0; m-- {
				args += " " + strconv.Itoa(r.Intn(n))
			}
			emit("%s %d %d%s", hx.Pick(r, []string{"union", "inter", "diff"}), d, i, args)
		}
	}
	for i := 0; i < n; i++ {
		emit("string %d", i)
	}
	return hx.Case{Header: fmt.Sprintf("comp=reg sh=%d regs=%s fam=typed elem=%s", uint32(r.U64()), string(kinds), elem), Ops: ops}
}
