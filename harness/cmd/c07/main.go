package main

import (
	"verifharness/c07"
	"verifharness/hx"
)

func main() { hx.CLI("C07", c07.Main, c07.Exec) }
