package main

import (
	"verifharness/c16"
	"verifharness/hx"
)

func main() { hx.CLI("C16", c16.Main, c16.Exec) }
