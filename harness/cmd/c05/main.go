package main

import (
	"verifharness/c05"
	"verifharness/hx"
)

func main() { hx.CLI("C05", c05.Main, c05.Exec) }
