package main

import (
	"verifharness/c20"
	"verifharness/hx"
)

func main() { hx.CLI("C20", c20.Main, c20.Exec) }
