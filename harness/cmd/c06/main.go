package main

import (
	"verifharness/c06"
	"verifharness/hx"
)

func main() { hx.CLI("C06", c06.Main, c06.Exec) }
