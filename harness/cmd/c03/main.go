package main

import (
	"verifharness/c03"
	"verifharness/hx"
)

func main() { hx.CLI("C03", c03.Main, c03.Exec) }
