package main

import (
	"verifharness/c11"
	"verifharness/hx"
)

func main() { hx.CLI("C11", c11.Main, c11.Exec) }
