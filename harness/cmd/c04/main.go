package main

import (
	"verifharness/c04"
	"verifharness/hx"
)

func main() { hx.CLI("C04", c04.Main, c04.Exec) }
