package main

import (
	"verifharness/c18"
	"verifharness/hx"
)

func main() { hx.CLI("C18", c18.Main, c18.Exec) }
