package main

import (
	"verifharness/c15"
	"verifharness/hx"
)

func main() { hx.CLI("C15", c15.Main, c15.Exec) }
