package main

import (
	"verifharness/c17"
	"verifharness/hx"
)

func main() { hx.CLI("C17", c17.Main, c17.Exec) }
