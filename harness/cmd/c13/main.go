package main

import (
	"verifharness/c13"
	"verifharness/hx"
)

func main() { hx.CLI("C13", c13.Main, c13.Exec) }
