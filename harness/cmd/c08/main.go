package main

import (
	"verifharness/c08"
	"verifharness/hx"
)

func main() { hx.CLI("C08", c08.Main, c08.Exec) }
