package main

import (
	"verifharness/c19"
	"verifharness/hx"
)

func main() { hx.CLI("C19", c19.Main, c19.Exec) }
