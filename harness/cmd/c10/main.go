package main

import (
	"verifharness/c10"
	"verifharness/hx"
)

func main() { hx.CLI("C10", c10.Main, c10.Exec) }
