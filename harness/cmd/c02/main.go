package main

import (
	"verifharness/c02"
	"verifharness/hx"
)

func main() { hx.CLI("C02", c02.Main, c02.Exec) }
