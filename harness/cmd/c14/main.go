package main

import (
	"verifharness/c14"
	"verifharness/hx"
)

func main() { hx.CLI("C14", c14.Main, c14.Exec) }
