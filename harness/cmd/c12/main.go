package main

import (
	"verifharness/c12"
	"verifharness/hx"
)

func main() { hx.CLI("C12", c12.Main, c12.Exec) }
