package main

import (
	"verifharness/c01"
	"verifharness/hx"
)

func main() { hx.CLI("C01", c01.Main, c01.Exec) }
