package main

import (
	"verifharness/c09"
	"verifharness/hx"
)

func main() { hx.CLI("C09", c09.Main, c09.Exec) }
