// Command harness drives the real moorara/algo code (built from /repo's working tree with -tags verif)
// through generated operation streams, records ops and canonical outputs for the Lean Model
// comparison, and checks every outcome against a simple independent oracle of the property's Spec.
package main

import (
	"flag"
	"fmt"
	"os"

	"verifharness/c18"
	"verifharness/hx"
)

var props = map[string]struct {
	main func(*hx.Run)
	exec hx.Exec
}{
	"C18": {c18.Main, c18.Exec},
}

func main() {
	seed := flag.Uint64("seed", 1, "VERIF_SEED")
	tier := flag.String("tier", "quick", "quick|thorough")
	out := flag.String("out", "", "output directory")
	budget := flag.Float64("budget", 1, "multiplier for the number of generated cases")
	replay := flag.String("replay", "", "replay file: run only its cases")
	flag.Parse()
	if flag.NArg() != 1 || *out == "" {
		fmt.Fprintln(os.Stderr, "usage: harness -out DIR [-seed N] [-tier T] [-budget F] [-replay FILE] <property>")
		os.Exit(2)
	}
	p, ok := props[flag.Arg(0)]
	if !ok {
		fmt.Fprintln(os.Stderr, "unknown property", flag.Arg(0))
		os.Exit(2)
	}
	if *tier == "thorough" && *budget == 1 {
		*budget = 10
	}
	run := hx.NewRun(flag.Arg(0), *seed, *tier, *out, *budget)
	if *replay != "" {
		cs, err := hx.ReadReplay(*replay)
		if err != nil {
			fmt.Fprintln(os.Stderr, err)
			os.Exit(2)
		}
		for _, c := range cs {
			comp := hx.HeaderGet(c.Header, "comp")
			res := run.Do(comp, c, p.exec)
			for i, o := range res.Outs {
				mark := ""
				if i == res.BadOp {
					mark = "    <-- not admitted by the spec: " + res.What
				}
				fmt.Printf("%-24s impl> %s%s\n", c.Ops[i], o, mark)
			}
		}
	} else {
		p.main(run)
	}
	run.Finish()
}
