package c14

import (
	"fmt"
	"math"
	"os"
	"strconv"

	"verifharness/hx"
)

// Threshold sweeps (HARDENING.md, axis 1).  Every size-like dimension of a graph is taken through the values at
// which programmers switch representation or algorithm, with everything else small, and asked the full battery of
// queries on both sides of a few mutations:
//
//	vsweep   number of vertices V (edges on a core of <= 5 vertices at the low or the high end; the rest isolated)
//	depth    length of a path / cycle = recursion depth of DFS, length of the edgeTo chains, queue that drains at
//	         every step (the 1024-slot blocks of list.Queue / list.Stack are crossed at 1024·k)
//	degree   out-degree / in-degree of one vertex = width of the BFS frontier, stack height of DFSi (stars)
//	multi    number of edges E on 3 vertices: parallel edges and self-loops at scale
//	ncomp    number of components that have edges (C disjoint edges)
//	args     magnitude of vertex arguments (MaxInt, MinInt, 2^31, 2^32, 65536, n, -1)
//
// The Lean Model takes V up to 70000 (and 140000) as long as classes, degrees and frontiers stay small; its list
// appends make Components() quadratic in the class size, AddEdge quadratic in the degree and BFS quadratic in the
// frontier, so the cases in which one of those is > 4000 are oracle-only (hx.Case.NoModel) and said so in Rule.

var sweepSmall = []int{0, 1, 2, 63, 64, 65, 255, 256, 257, 1023, 1024, 1025}
var sweepBlocks = []int{1026, 2047, 2048, 2049, 2050, 3071, 3072, 3073}
var sweepHuge = []int{65535, 65536, 65537, 70000}

const modelSizeLimit = 4000

// sweepSplit: how many of m edges the constructor gets.  Every AddEdge line costs the Lean driver a copy of the
// adjacency array (the world of objects holds the object while it is updated), so large graphs are built by the
// constructor except for their last three edges; small ones half and half.
func sweepSplit(m int) int {
	if m > 3000 {
		return m - 3
	}
	return m / 2
}

// coreOf: up to five distinct vertices of a graph with V vertices — the first ones (variant 0), the last ones
// (variant 1) or spread out (variant 2)
func coreOf(V, variant int) []int {
	var c []int
	add := func(v int) {
		if v < 0 || v >= V {
			return
		}
		for _, x := range c {
			if x == v {
				return
			}
		}
		c = append(c, v)
	}
	switch variant % 3 {
	case 0:
		for v := 0; v < 5; v++ {
			add(v)
		}
	case 1:
		for v := 0; v < 5; v++ {
			add(V - 1 - v)
		}
	default:
		add(0)
		add(V - 1)
		add(V / 2)
		add(1)
		add(V - 2)
	}
	return c
}

// coreEdges: a small edge set on the core, by index into the core (edges naming an index the core does not have
// are left out).  dag: 2->0->4, 0->1, 0->3->1 (a path of three for SCC, a vertex with two out-neighbours joined by
// an edge for Topological); cyclic adds 1->2 (cycle 2->0->1->2), a self-loop and a parallel edge.
func coreEdges(core []int, cyclic bool) []rawEdge {
	tmpl := []rawEdge{{2, 0, 3}, {0, 4, 2}, {0, 1, 5}, {0, 3, 1}, {3, 1, 1}}
	if cyclic {
		tmpl = append(tmpl, rawEdge{1, 2, 2}, rawEdge{3, 3, 4}, rawEdge{0, 1, 1})
	}
	var es []rawEdge
	for _, e := range tmpl {
		if e.u < len(core) && e.v < len(core) {
			es = append(es, rawEdge{core[e.u], core[e.v], e.w})
		}
	}
	return es
}

// the algorithms of the kind that read the whole graph (lines as long as the graph has vertices)
func wholeGraphQueries(kind string) []string {
	switch kind {
	case "directed":
		return []string{"scc", "cycle", "topo"}
	case "undirected":
		return []string{"cc"}
	case "wdirected":
		return []string{"scc"}
	default:
		return []string{"cc", "mst"}
	}
}

// pointQueries: queries whose answer is short whatever V is — paths to a few targets for every strategy, shortest
// paths, accessors, a stopped traversal followed by a search with the same strategy
func pointQueries(kind string, V int, src int, targets []int) []string {
	var ops []string
	directed := kind == "directed" || kind == "wdirected"
	for _, st := range strats {
		for _, t := range targets {
			ops = append(ops, fmt.Sprintf("path %s %d %d", st, src, t))
		}
	}
	if kind == "wdirected" {
		for _, t := range targets {
			ops = append(ops, fmt.Sprintf("sptto %d %d", src, t))
		}
	}
	for _, t := range targets {
		ops = append(ops, fmt.Sprintf("adjof %d", t))
		if directed {
			ops = append(ops, fmt.Sprintf("indeg %d", t), fmt.Sprintf("outdeg %d", t))
		} else {
			ops = append(ops, fmt.Sprintf("degree %d", t))
		}
	}
	if len(targets) > 0 {
		ops = append(ops, fmt.Sprintf("traverse bfs %d 2", src), fmt.Sprintf("path bfs %d %d", src, targets[len(targets)-1]),
			fmt.Sprintf("traverse dfsi %d 1", src), fmt.Sprintf("path dfsi %d %d", src, targets[0]),
			fmt.Sprintf("adjappend %d", src))
	}
	return ops
}

// vsweepCase: V vertices, edges on a small core.  light (quick tier, V > modelSizeLimit): each line that is as long
// as the graph has vertices is asked once before and once after the mutations, nothing else of that length.
func vsweepCase(kind string, V, variant int, cyclic bool, light bool) hx.Case {
	core := coreOf(V, variant)
	es := coreEdges(core, cyclic)
	huge := V > modelSizeLimit
	sc := scale{}
	if weighted(kind) && variant%2 == 1 {
		sc.wexp = -40
	}
	ops := graphOpsCtor(kind, V, es, (len(es)+1)/2)
	if len(core) == 0 {
		// no vertex: everything is empty
		ops = append(ops, allQueries(kind, V, true)...)
		ops = append(ops, "dump")
		return hx.Case{Header: sc.header(kind, V, "vsweep"), Ops: ops}
	}
	src := core[0]
	targets := append([]int(nil), core...)
	if len(targets) > 3 {
		targets = targets[1:4]
	}
	for _, t := range []int{0, V - 1} {
		seen := false
		for _, x := range targets {
			seen = seen || x == t
		}
		if !seen {
			targets = append(targets, t)
		}
	}
	ops = append(ops, pointQueries(kind, V, src, targets)...)
	ops = append(ops, wholeGraphQueries(kind)...)
	if !light {
		ops = append(ops, "orders dfs")
	}
	ops = append(ops, "keep "+wholeGraphQueries(kind)[0])
	if !huge {
		ops = append(ops, "orders dfsi", "orders bfs", "dump")
		if V <= 257 {
			// every target (one list block of 1024 slots is allocated per To call: kept to the small graphs)
			ops = append(ops, fmt.Sprintf("paths bfs %d", src), fmt.Sprintf("paths dfs %d", targets[0]))
		}
		if kind == "wdirected" {
			ops = append(ops, fmt.Sprintf("spt %d", src))
		}
		if weighted(kind) {
			ops = append(ops, "edges")
		}
		if kind == "directed" || kind == "wdirected" {
			ops = append(ops, "reverse")
		}
	}
	// mutations: the far end joins the core, a back edge closes a cycle; everything again
	last := core[len(core)-1]
	ops = append(ops, edgeLine(kind, rawEdge{V - 1, src, 1}), edgeLine(kind, rawEdge{last, V - 1, 2}))
	if len(core) > 2 {
		ops = append(ops, edgeLine(kind, rawEdge{core[1], core[2], 1}))
	}
	if light {
		ops = append(ops, wholeGraphQueries(kind)[len(wholeGraphQueries(kind))-1])
	} else {
		ops = append(ops, wholeGraphQueries(kind)...)
	}
	ops = append(ops, fmt.Sprintf("path dfs %d %d", src, V-1), fmt.Sprintf("path bfs %d %d", V-1, core[len(core)/2]))
	if !huge || (variant%2 == 0 && !light) {
		ops = append(ops, "ask 0")
	}
	if kind == "wdirected" {
		ops = append(ops, fmt.Sprintf("sptto %d %d", V-1, last))
	}
	if kind == "directed" || kind == "wdirected" {
		// Reverse() as a further object of the same size, and the reverse of that
		ops = append(ops, "mkrev", "use 1")
		if !huge || (variant%2 == 1 && !light) {
			ops = append(ops, "scc")
		}
		ops = append(ops, fmt.Sprintf("path dfs %d %d", V-1, src), "mkrev", "use 2")
		if !huge {
			ops = append(ops, "scc")
		}
		ops = append(ops, fmt.Sprintf("path bfs %d %d", src, V-1), fmt.Sprintf("adjof %d", src), "use 0")
	}
	if !huge {
		// the other side of the threshold: graphs with one vertex more and one vertex less, same core
		for _, V2 := range []int{V + 1, V - 1} {
			var es2 []rawEdge
			for _, e := range es {
				if e.u < V2 && e.v < V2 {
					es2 = append(es2, e)
				}
			}
			if V2 < 1 {
				continue
			}
			ops = append(ops, newLine(kind, V2, es2), fmt.Sprintf("use %d", countObjs(ops)-1))
			ops = append(ops, wholeGraphQueries(kind)...)
			ops = append(ops, fmt.Sprintf("path dfsi %d %d", V2-1, V2-1), "orders dfs")
		}
		ops = append(ops, "use 0", "dump")
	}
	return hx.Case{Header: sc.header(kind, V, "vsweep"), Ops: ops}
}

// countObjs: objects a case has after its ops so far (graph + mkrev + new)
func countObjs(ops []string) int {
	c := 0
	for _, op := range ops {
		if len(op) >= 5 && op[:5] == "graph" || op == "mkrev" || len(op) >= 4 && op[:4] == "new " {
			c++
		}
	}
	return c
}

// depthCases: a path 0 -> 1 -> … -> L-1, queried, then closed to a cycle and queried again.  For L beyond what the
// Model's Components() takes (one class of L vertices), the case is split: the part without such a class is compared
// with the Model, the full case is oracle-only.
func depthCases(kind string, L int, reverseInsertion bool) []hx.Case {
	if L < 1 {
		return nil
	}
	var es []rawEdge
	for v := 0; v+1 < L; v++ {
		es = append(es, rawEdge{v, v + 1, 1 + v%3})
	}
	if reverseInsertion {
		for i, j := 0, len(es)-1; i < j; i, j = i+1, j-1 {
			es[i], es[j] = es[j], es[i]
		}
	}
	far := L - 1
	head := graphOpsCtor(kind, L, es, sweepSplit(len(es)))
	var open []string // on the path
	for _, st := range strats {
		open = append(open, fmt.Sprintf("path %s 0 %d", st, far), fmt.Sprintf("path %s %d %d", st, L/2, far))
	}
	open = append(open, "orders dfs", "orders bfs", fmt.Sprintf("traverse dfs 0 %d", L/2), fmt.Sprintf("path dfs 0 %d", far))
	giant := kind == "undirected" || kind == "wundirected" // the path is one class
	var openWhole []string
	switch kind {
	case "directed":
		openWhole = []string{"scc", "cycle", "topo"}
	case "wdirected":
		openWhole = []string{"scc", fmt.Sprintf("sptto 0 %d", far), fmt.Sprintf("sptto %d %d", L/2, far)}
	case "undirected":
		openWhole = []string{"cc", fmt.Sprintf("path bfs %d 0", far)}
	default:
		openWhole = []string{"mst", "cc"}
	}
	closed := []string{edgeLine(kind, rawEdge{far, 0, 2})}
	closed = append(closed, wholeGraphQueries(kind)...)
	closed = append(closed, fmt.Sprintf("path bfs %d 0", far), fmt.Sprintf("path dfsi %d %d", L/2, L/2-1+boolInt(L < 2)))
	if kind == "wdirected" {
		closed = append(closed, fmt.Sprintf("sptto %d %d", far, L/2))
	}
	hdr := header(kind, L, "depth")
	full := append(append(append(append([]string{}, head...), open...), openWhole...), closed...)
	if L <= modelSizeLimit {
		return []hx.Case{{Header: hdr, Ops: full}}
	}
	// beyond the Model's reach for one class of L vertices
	var modelPart []string
	modelPart = append(append(modelPart, head...), open...)
	for _, q := range openWhole {
		if giant && (q == "cc") {
			continue
		}
		modelPart = append(modelPart, q)
	}
	return []hx.Case{{Header: hdr, Ops: modelPart}, {Header: hdr + " oracle-only=1", Ops: full, NoModel: true}}
}

func boolInt(b bool) int {
	if b {
		return 1
	}
	return 0
}

// degreeCase: a star with D leaves, edges pointing away from the centre 0 (out = true) or towards it
func degreeCase(kind string, D int, out bool) hx.Case {
	V := D + 1
	var es []rawEdge
	for v := 1; v <= D; v++ {
		if out {
			es = append(es, rawEdge{0, v, 1 + v%4})
		} else {
			es = append(es, rawEdge{v, 0, 1 + v%4})
		}
	}
	ops := graphOpsCtor(kind, V, es, sweepSplit(len(es)))
	src, dst := 0, D
	if !out {
		src, dst = D, 0
	}
	for _, st := range strats {
		ops = append(ops, fmt.Sprintf("path %s %d %d", st, src, dst), fmt.Sprintf("path %s 0 %d", st, (D+1)/2))
	}
	ops = append(ops, "orders dfsi", "orders bfs", "adjappend 0")
	if kind == "directed" || kind == "wdirected" {
		ops = append(ops, "outdeg 0", "indeg 0", fmt.Sprintf("indeg %d", D))
	} else {
		ops = append(ops, "degree 0", fmt.Sprintf("degree %d", D))
	}
	ops = append(ops, wholeGraphQueries(kind)...)
	if kind == "wdirected" {
		ops = append(ops, fmt.Sprintf("sptto %d %d", src, dst))
	}
	if weighted(kind) {
		ops = append(ops, "edges")
	}
	// a back edge: the star becomes cyclic (directed kinds), a parallel edge (undirected kinds)
	ops = append(ops, edgeLine(kind, rawEdge{dst, src, 1}))
	ops = append(ops, wholeGraphQueries(kind)...)
	ops = append(ops, fmt.Sprintf("path bfs %d %d", dst, src))
	shape := "degree-out"
	if !out {
		shape = "degree-in"
	}
	c := hx.Case{Header: header(kind, V, shape), Ops: ops}
	if D > modelSizeLimit {
		c.Header += " oracle-only=1"
		c.NoModel = true
	}
	return c
}

// multiCase: E edges on three vertices — parallel edges in both orientations and self-loops
func multiCase(kind string, E int) hx.Case {
	pat := []rawEdge{{0, 1, 3}, {0, 0, 1}, {1, 0, 2}, {0, 1, 1}, {1, 1, 0}, {1, 2, 5}}
	var es []rawEdge
	for k := 0; k < E; k++ {
		e := pat[k%len(pat)]
		e.w += k % 3
		es = append(es, e)
	}
	ops := graphOpsCtor(kind, 3, es, sweepSplit(len(es)))
	ops = append(ops, "dump")
	for _, st := range strats {
		ops = append(ops, fmt.Sprintf("paths %s 0", st))
	}
	ops = append(ops, "orders dfs", "orders bfs", "adjappend 1")
	ops = append(ops, wholeGraphQueries(kind)...)
	if kind == "wdirected" {
		ops = append(ops, "spt 0", "spt 1")
	}
	if weighted(kind) {
		ops = append(ops, "edges")
	}
	if kind == "directed" || kind == "wdirected" {
		ops = append(ops, "reverse", "indeg 1", "outdeg 0")
	} else {
		ops = append(ops, "degree 0", "degree 1")
	}
	ops = append(ops, edgeLine(kind, rawEdge{2, 0, 0}))
	ops = append(ops, wholeGraphQueries(kind)...)
	ops = append(ops, "paths bfs 2")
	c := hx.Case{Header: header(kind, 3, "multi"), Ops: ops}
	if E > modelSizeLimit {
		c.Header += " oracle-only=1"
		c.NoModel = true
	}
	return c
}

// ncompCase: C >= 1 disjoint edges 2i — 2i+1 and one isolated vertex: C+1 components
func ncompCase(kind string, C int) hx.Case {
	V := 2*C + 1
	var es []rawEdge
	for i := 0; i < C; i++ {
		es = append(es, rawEdge{2 * i, 2*i + 1, 1 + i%5})
	}
	ops := graphOpsCtor(kind, V, es, sweepSplit(len(es)))
	ops = append(ops, wholeGraphQueries(kind)...)
	ops = append(ops, "orders dfs", "path dfs 0 1", fmt.Sprintf("path bfs %d %d", V-3, V-2), fmt.Sprintf("path dfsi 0 %d", V-1))
	if kind == "wdirected" {
		ops = append(ops, "sptto 0 1", fmt.Sprintf("sptto 0 %d", V-1))
	}
	// two components are joined
	if C >= 2 {
		ops = append(ops, edgeLine(kind, rawEdge{1, 2 * (C - 1), 1}), edgeLine(kind, rawEdge{V - 2, 0, 1}))
		ops = append(ops, wholeGraphQueries(kind)...)
		ops = append(ops, fmt.Sprintf("path bfs 0 %d", V-2))
	}
	return hx.Case{Header: header(kind, V, "ncomp"), Ops: ops}
}

// argCase: vertex arguments of every magnitude on a small graph.  Out-of-range endpoints are ignored by AddEdge and
// the constructors, out-of-range sources give empty Paths, out-of-range arguments of the accessors give -1 / nil;
// an out-of-range target of To / PathTo and an out-of-range source of ShortestPathTree panic (last op of the case).
func argCase(r *hx.Rand, kind string) hx.Case {
	n := r.Range(2, 5)
	bigs := []int{math.MaxInt64, math.MinInt64, math.MaxInt64 - 1, math.MinInt64 + 1, math.MaxInt32, math.MaxInt32 + 1, math.MinInt32,
		math.MinInt32 - 1, 1 << 32, 1<<32 + 1, 65535, 65536, 65537, -65536, 255, 256, n, n + 1, -1, -2}
	big := func() int { return hx.Pick(r, bigs) }
	es := []rawEdge{{0, 1, 2}, {big(), 0, 1}, {1, n - 1, 3}, {0, big(), 1}, {big(), big(), 0}, {n - 1, 0, 1}}
	ops := graphOpsCtor(kind, n, es, r.Range(0, len(es)))
	ops = append(ops, "dump")
	directed := kind == "directed" || kind == "wdirected"
	for k := r.Range(8, 14); k > 0; k-- {
		b := big()
		switch r.Intn(9) {
		case 0:
			ops = append(ops, edgeLine(kind, rawEdge{b, r.Intn(n), 1}), edgeLine(kind, rawEdge{r.Intn(n), b, 1}))
		case 1:
			ops = append(ops, fmt.Sprintf("paths %s %d", hx.Pick(r, strats), b))
		case 2:
			ops = append(ops, fmt.Sprintf("adjof %d", b), fmt.Sprintf("adjappend %d", b))
		case 3:
			if directed {
				ops = append(ops, fmt.Sprintf("indeg %d", b), fmt.Sprintf("outdeg %d", b))
			} else {
				ops = append(ops, fmt.Sprintf("degree %d", b))
			}
		case 4:
			ops = append(ops, fmt.Sprintf("traverse %s %d all", hx.Pick(r, strats), b))
		case 5:
			ops = append(ops, fmt.Sprintf("keep paths %s %d", hx.Pick(r, strats), b), fmt.Sprintf("keep adjof %d", b))
		case 6:
			ops = append(ops, newLine(kind, n, []rawEdge{{b, 0, 1}, {0, 1, 1}, {1, big(), 2}}))
		case 7:
			ops = append(ops, fmt.Sprintf("path %s %d %d", hx.Pick(r, strats), b, r.Intn(n)))
		default:
			ops = append(ops, wholeGraphQueries(kind)...)
		}
	}
	ops = append(ops, "dump")
	ops = append(ops, wholeGraphQueries(kind)...)
	nk := 0
	for _, op := range ops {
		if len(op) > 5 && op[:5] == "keep " {
			nk++
		}
	}
	for k := 0; k < nk; k++ {
		ops = append(ops, fmt.Sprintf("ask %d", k))
	}
	// one panicking argument ends the case
	b := big()
	for b >= 0 && b < n {
		b = big()
	}
	switch c := r.Intn(4); {
	case c == 0 && kind == "wdirected":
		ops = append(ops, fmt.Sprintf("spt %d", b))
	case c == 1 && kind == "wdirected":
		ops = append(ops, fmt.Sprintf("sptto 0 %d", b))
	case c == 2 && nk > 0:
		// the first keep of a pair is a *Paths
		ops = append(ops, fmt.Sprintf("ask 0 %d", b))
	default:
		ops = append(ops, fmt.Sprintf("path %s 0 %d", hx.Pick(r, strats), b))
	}
	return hx.Case{Header: header(kind, n, "args"), Ops: ops}
}

// apiCase (HARDENING.md, axis 2): unusual but legal uses on one small object — Reverse() of Reverse() (and of that),
// the caller appending to Adj(v) and overwriting what Edges() returned (the `edges` line does), a traversal stopped
// by its visitor followed by a search with the same strategy on the same graph, a second graph built from the same
// caller-owned edge list (the harness overwrites the list after every constructor call)
func apiCase(r *hx.Rand) (string, hx.Case) {
	kind := hx.Pick(r, kinds)
	n := r.Range(1, 7)
	es, _ := randomEdges(r, kind, n)
	sc := pickScale(r, kind)
	es = sc.apply(r, es)
	ops := graphOpsCtor(kind, n, es, ctorSplit(r, len(es)))
	directed := kind == "directed" || kind == "wdirected"
	nobj := 1
	for k := r.Range(6, 12); k > 0; k-- {
		switch c := r.Intn(8); {
		case c == 0 && directed && nobj < 5:
			// reverse the current object — which may be a reversed one — and go on with the result
			ops = append(ops, "mkrev", fmt.Sprintf("use %d", nobj), "dump")
			nobj++
		case c == 1:
			ops = append(ops, fmt.Sprintf("adjappend %d", r.Intn(n)), fmt.Sprintf("adjof %d", r.Intn(n)))
		case c == 2 && weighted(kind):
			ops = append(ops, "edges")
		case c == 3:
			// stop early, then the same strategy again on the same graph from somewhere else
			st := hx.Pick(r, strats)
			ops = append(ops, fmt.Sprintf("traverse %s %d %d", st, r.Intn(n), r.Intn(2*n+1)),
				fmt.Sprintf("paths %s %d", st, r.Intn(n)), "orders "+st)
		case c == 4 && nobj < 5:
			ops = append(ops, newLine(kind, n, es), fmt.Sprintf("use %d", nobj))
			nobj++
		case c == 5:
			ops = append(ops, edgeLine(kind, sc.apply(r, []rawEdge{{r.Intn(n), r.Intn(n), r.Range(0, 4)}})[0]))
		case c == 6 && nobj > 1:
			ops = append(ops, fmt.Sprintf("use %d", r.Intn(nobj)))
		default:
			ops = append(ops, randomQuery(r, kind, n))
		}
	}
	for k := 0; k < nobj; k++ {
		ops = append(ops, fmt.Sprintf("use %d", k), "dump")
		ops = append(ops, wholeGraphQueries(kind)...)
	}
	return kind, hx.Case{Header: sc.header(kind, n, "api"), Ops: ops}
}

func sweepSize(c hx.Case) int {
	n, _ := strconv.Atoi(hx.HeaderGet(c.Header, "n"))
	return n
}

// sweeps: quick = every dimension at every small threshold (kinds in rotation) plus the 65536 boundary for every
// kind; thorough = every value for every kind, denser around the thresholds
func sweeps(run *hx.Run) {
	r := run.R.Fork("sweep")
	rot := int(run.Seed)
	thorough := run.Thorough()
	// the statement-coverage measurement of bin/check runs the generators a second time on an instrumented binary:
	// the cases above 4000 vertices execute the same statements as their twins at 1025 … 3073 and are left out there
	measuring := os.Getenv("GOCOVERDIR") != "" && run.Budget <= 1 // (with an enlarged budget — changed code — nothing is left out)
	do := func(kind string, c hx.Case) {
		if measuring && (c.NoModel || sweepSize(c) > modelSizeLimit) {
			return
		}
		if len(run.Stats.Violations) > 0 && (c.NoModel || len(c.Ops) > 400 || sweepSize(c) > 600) {
			return // the large cases are the expensive ones to shrink: once something has been found they add nothing
		}
		run.Do(kind, c, Exec)
	}
	// --- V
	for i, V := range sweepSmall {
		for k, kind := range kinds {
			do(kind, vsweepCase(kind, V, i+k+rot, (i+k)%2 == 0, false))
		}
	}
	for i, V := range sweepHuge {
		for k, kind := range kinds {
			// quick: every kind just above 65536 (any threshold up to there is crossed), the other values for one kind each
			if !thorough && V != 65537 && (k+i+rot)%4 != 0 {
				continue
			}
			do(kind, vsweepCase(kind, V, i+k+rot, (i+k+rot)%2 == 0, !thorough))
			if thorough {
				do(kind, vsweepCase(kind, V, i+k+rot+1, (i+k+rot)%2 == 1, false))
			}
		}
	}
	// --- path length (recursion depth, edgeTo chains, block boundaries)
	depths := append(append([]int{}, sweepSmall[1:]...), sweepBlocks...)
	for i, L := range depths {
		for k, kind := range kinds {
			// quick: two kinds per length, and of the lengths around a block boundary only the boundary and above
			if !thorough && ((i+k+rot)%2 == 0 || L == 1023 || L == 2047 || L == 3071 || L == 3072) {
				continue
			}
			for _, c := range depthCases(kind, L, (i+k)%3 == 0) {
				do(kind, c)
			}
		}
	}
	for i, L := range sweepHuge {
		for k, kind := range kinds {
			if !thorough && (L != 65537 || (k+rot)%4 != 0) {
				continue
			}
			for _, c := range depthCases(kind, L, (i+k)%2 == 0) {
				do(kind, c)
			}
		}
	}
	// --- degree of one vertex, number of edges, number of components
	for i, D := range append(append([]int{}, sweepSmall[1:]...), sweepBlocks...) {
		for k, kind := range kinds {
			if !thorough && ((i+k+rot)%4 != 0 || D > 2049) {
				continue
			}
			do(kind, degreeCase(kind, D, (i+k)%2 == 0))
			if thorough {
				do(kind, degreeCase(kind, D, (i+k)%2 == 1))
			}
		}
	}
	for i, E := range append(append([]int{}, sweepSmall...), sweepBlocks[:4]...) {
		for k, kind := range kinds {
			if !thorough && (i+k+rot)%2 != 0 {
				continue
			}
			do(kind, multiCase(kind, E))
		}
	}
	for i, C := range sweepSmall[1:] {
		for k, kind := range kinds {
			if !thorough && (i+k+rot)%2 != 0 {
				continue
			}
			do(kind, ncompCase(kind, C))
		}
	}
	for i, X := range sweepHuge {
		for k, kind := range kinds {
			if !thorough && (X != 65537 || (k+rot)%4 != 1) {
				continue
			}
			do(kind, degreeCase(kind, X, (i+k)%2 == 0))
			do(kind, multiCase(kind, X))
			if thorough || kind == "directed" || kind == "wundirected" {
				do(kind, ncompCase(kind, X/2))
			}
		}
	}
	// --- magnitude of vertex arguments
	for k, n := 0, run.Scale(40); k < n; k++ {
		kind := kinds[k%4]
		do(kind, argCase(r, kind))
	}
	// --- unusual but legal uses
	ra := run.R.Fork("api")
	for k, n := 0, run.Scale(200); k < n; k++ {
		kind, c := apiCase(ra)
		do(kind, c)
	}
}
