package c14

import (
	"fmt"
	"strings"

	"verifharness/hx"
)

var kinds = []string{"directed", "undirected", "wdirected", "wundirected"}
var strats = []string{"dfs", "dfsi", "bfs"}

func weighted(kind string) bool { return kind == "wdirected" || kind == "wundirected" }

type rawEdge struct{ u, v, w int }

func header(kind string, n int, shape string) string {
	return fmt.Sprintf("comp=%s n=%d shape=%s", kind, n, shape)
}

// weight scales: the library sees weight * 2^wexp.  Every weight of a case is an integer m with sum of |m| < 2^53
// (asserted by Exec at every `edge`), so m * 2^wexp and every sum of distinct edge weights are exact float64
// values for each of these exponents: down to the subnormal range (2^-1070 = 16 * 2^-1074) and up to 2^900
// (sums stay far below math.MaxFloat64, the "unreached" mark of Prim and Dijkstra).
var wexps = []int{0, 0, -10, -40, -40, -60, -200, -1000, -1070, 10, 40, 200, 900}

type scale struct {
	wexp  int
	mixed bool // weights m * 2^d with d in {0, 10, 20, 30, 40}: magnitudes 12 decimal orders apart in one graph
}

func pickScale(r *hx.Rand, kind string) scale {
	if !weighted(kind) || r.Chance(1, 3) {
		return scale{}
	}
	return scale{wexp: hx.Pick(r, wexps), mixed: r.Chance(1, 4)}
}

func (sc scale) header(kind string, n int, shape string) string {
	h := header(kind, n, shape)
	if sc.wexp != 0 {
		h += fmt.Sprintf(" wexp=%d", sc.wexp)
	}
	if sc.mixed {
		h += " mixed=1"
	}
	return h
}

// apply turns small weights into mixed magnitudes; the sum of magnitudes stays below 2^52
func (sc scale) apply(r *hx.Rand, es []rawEdge) []rawEdge {
	if !sc.mixed {
		return es
	}
	out := append([]rawEdge(nil), es...)
	budget := 1 << 52
	for k := range out {
		m := out[k].w
		if m < 0 {
			m = -m
		}
		d := hx.Pick(r, []int{0, 0, 10, 20, 30, 40})
		for d > 0 && (m<<d) >= budget/(len(out)+1) {
			d -= 10
		}
		out[k].w <<= d
	}
	return out
}

func graphOps(kind string, n int, es []rawEdge) []string {
	return graphOpsCtor(kind, n, es, 0)
}

// graphLine: NewX(n, es…) — the edges are the constructor's edge list
func graphLine(kind string, n int, es []rawEdge) string {
	var b strings.Builder
	fmt.Fprintf(&b, "graph %s %d", kind, n)
	for _, e := range es {
		if weighted(kind) {
			fmt.Fprintf(&b, " %d %d %d", e.u, e.v, e.w)
		} else {
			fmt.Fprintf(&b, " %d %d", e.u, e.v)
		}
	}
	return b.String()
}

// newLine: a further object of the same kind, NewX(n, es…)
func newLine(kind string, n int, es []rawEdge) string {
	return "new" + strings.TrimPrefix(graphLine(kind, n, es), "graph "+kind)
}

// graphOpsCtor: the first k edges go to the constructor, the others are added with AddEdge afterwards
func graphOpsCtor(kind string, n int, es []rawEdge, k int) []string {
	if k > len(es) {
		k = len(es)
	}
	ops := []string{graphLine(kind, n, es[:k])}
	for _, e := range es[k:] {
		ops = append(ops, edgeLine(kind, e))
	}
	return ops
}

// ctorSplit: how many of m edges the constructor gets — none, all, or any number in between
func ctorSplit(r *hx.Rand, m int) int {
	switch r.Intn(4) {
	case 0:
		return 0
	case 1:
		return m
	}
	return r.Range(0, m)
}

// every query that applies to the kind, every source (and the two nearest invalid ones)
func allQueries(kind string, n int, invalidSources bool) []string {
	var ops []string
	lo, hi := 0, n-1
	if invalidSources {
		lo, hi = -1, n
	}
	for _, st := range strats {
		for s := lo; s <= hi; s++ {
			ops = append(ops, fmt.Sprintf("paths %s %d", st, s))
		}
	}
	for _, st := range strats {
		ops = append(ops, "orders "+st)
	}
	if n > 0 {
		// Traverse with visitors of the caller: complete from vertex 0, and stopped at every callback in turn
		for _, st := range strats {
			ops = append(ops, fmt.Sprintf("traverse %s 0 all", st))
			for k := 0; k < 3*n && k < 7; k++ {
				ops = append(ops, fmt.Sprintf("traverse %s %d %d", st, k%n, k))
			}
		}
	}
	switch kind {
	case "directed":
		ops = append(ops, "scc", "cycle", "topo")
	case "undirected":
		ops = append(ops, "cc")
	case "wdirected":
		ops = append(ops, "scc")
		for s := 0; s < n; s++ {
			ops = append(ops, fmt.Sprintf("spt %d", s))
		}
	case "wundirected":
		ops = append(ops, "cc", "mst")
	}
	return ops
}

// the queries that end a case with a panic (out-of-range argument): at most one, last
func panicQuery(r *hx.Rand, kind string, n int) string {
	oor := hx.Pick(r, []int{-1, n, n + 2})
	s := 0
	if n > 0 {
		s = r.Intn(n)
	}
	if kind == "wdirected" && r.Bool() {
		if r.Bool() {
			return fmt.Sprintf("spt %d", oor)
		}
		if n > 0 {
			return fmt.Sprintf("sptto %d %d", s, oor)
		}
	}
	return fmt.Sprintf("path %s %d %d", hx.Pick(r, strats), s, oor)
}

func randomEdges(r *hx.Rand, kind string, n int) ([]rawEdge, string) {
	shapes := []string{"sparse", "medium", "dense", "dag", "functional", "zero", "components", "negative",
		"zerosrc", "selfloops", "parallelw"}
	// the shapes in which the kind's algorithms have their corner cases come up most often
	switch kind {
	case "directed":
		shapes = append(shapes, "selfloops", "selfloops", "dag")
	case "wdirected":
		shapes = append(shapes, "zerosrc", "zerosrc", "parallelw", "zero")
	case "wundirected":
		shapes = append(shapes, "parallelw", "parallelw", "zero")
	}
	shape := hx.Pick(r, shapes)
	var es []rawEdge
	if n == 0 {
		if r.Chance(1, 3) {
			es = append(es, rawEdge{0, 0, 1})
		}
		return es, "empty"
	}
	wmax := hx.Pick(r, []int{1, 2, 3, 9, 50})
	weight := func() int {
		switch shape {
		case "zero":
			return 0
		case "negative":
			if kind == "wundirected" || r.Chance(1, 6) {
				return r.Range(-wmax, wmax)
			}
		}
		if r.Chance(1, 6) {
			return 0
		}
		return r.Range(0, wmax)
	}
	vertex := func() int {
		if r.Chance(1, 40) {
			return hx.Pick(r, []int{-1, n, n + 1})
		}
		return r.Intn(n)
	}
	var m int
	switch shape {
	case "sparse":
		m = r.Range(0, n)
	case "medium", "zero", "negative":
		m = r.Range(n/2, 2*n+1)
	case "dense":
		m = r.Range(2*n, 4*n+2)
	}
	switch shape {
	case "dag":
		perm := make([]int, n)
		for i := range perm {
			perm[i] = i
		}
		for i := n - 1; i > 0; i-- {
			j := r.Intn(i + 1)
			perm[i], perm[j] = perm[j], perm[i]
		}
		m = r.Range(0, 2*n+1)
		for k := 0; k < m && n > 1; k++ {
			a, b := r.Intn(n), r.Intn(n)
			if a == b {
				continue
			}
			if a > b {
				a, b = b, a
			}
			es = append(es, rawEdge{perm[a], perm[b], weight()})
		}
	case "functional":
		for v := 0; v < n; v++ {
			if r.Chance(5, 6) {
				es = append(es, rawEdge{v, r.Intn(n), weight()})
			}
		}
	case "zerosrc":
		// zero-weight edges out of a source and chains of them (vertices at distance 0 other than the
		// source), mixed with positive edges and a zero-weight cycle now and then
		src := r.Intn(n)
		prev := src
		for k := r.Range(1, n); k > 0; k-- {
			nxt := r.Intn(n)
			es = append(es, rawEdge{prev, nxt, 0})
			if r.Bool() {
				prev = nxt
			} else {
				prev = src
			}
		}
		if r.Bool() {
			es = append(es, rawEdge{prev, src, 0})
		}
		for k := r.Range(0, n+2); k > 0; k-- {
			es = append(es, rawEdge{r.Intn(n), r.Intn(n), r.Range(0, wmax)})
		}
		for i := len(es) - 1; i > 0; i-- {
			j := r.Intn(i + 1)
			es[i], es[j] = es[j], es[i]
		}
	case "selfloops":
		// a DAG whose only cycles are self-loops (sometimes none, sometimes one longer cycle as well)
		perm := make([]int, n)
		for i := range perm {
			perm[i] = i
		}
		for i := n - 1; i > 0; i-- {
			j := r.Intn(i + 1)
			perm[i], perm[j] = perm[j], perm[i]
		}
		for k := r.Range(0, 2*n); k > 0 && n > 1; k-- {
			a, b := r.Intn(n), r.Intn(n)
			if a == b {
				continue
			}
			if a > b {
				a, b = b, a
			}
			es = append(es, rawEdge{perm[a], perm[b], weight()})
		}
		for k := r.Range(0, 3); k > 0; k-- {
			v := r.Intn(n)
			at := r.Intn(len(es) + 1)
			es = append(es[:at], append([]rawEdge{{v, v, weight()}}, es[at:]...)...)
		}
		if r.Chance(1, 8) && n > 1 {
			es = append(es, rawEdge{perm[n-1], perm[0], weight()})
		}
	case "parallelw":
		// few vertex pairs, many parallel edges of different weights in both orientations
		pairs := r.Range(1, n+1)
		for k := 0; k < pairs; k++ {
			a, b := r.Intn(n), r.Intn(n)
			for c := r.Range(1, 4); c > 0; c-- {
				w := r.Range(0, wmax)
				if r.Bool() {
					es = append(es, rawEdge{a, b, w})
				} else {
					es = append(es, rawEdge{b, a, w})
				}
			}
		}
		for i := len(es) - 1; i > 0; i-- {
			j := r.Intn(i + 1)
			es[i], es[j] = es[j], es[i]
		}
	case "components":
		// two or three blocks with no edge between them
		cut := r.Range(1, n)
		m = r.Range(n/2, 2*n)
		for k := 0; k < m; k++ {
			if r.Bool() {
				es = append(es, rawEdge{r.Intn(cut), r.Intn(cut), weight()})
			} else if cut < n {
				es = append(es, rawEdge{cut + r.Intn(n-cut), cut + r.Intn(n-cut), weight()})
			}
		}
	default:
		for k := 0; k < m; k++ {
			es = append(es, rawEdge{vertex(), vertex(), weight()})
		}
	}
	// duplicate an edge now and then (parallel edges, possibly with another weight)
	if len(es) > 0 && r.Chance(1, 3) {
		e := es[r.Intn(len(es))]
		if r.Bool() {
			e.w = weight()
		}
		if r.Bool() {
			e.u, e.v = e.v, e.u
		}
		es = append(es, e)
	}
	return es, shape
}

func randomCase(r *hx.Rand) (string, hx.Case) {
	kind := hx.Pick(r, kinds)
	n := r.Range(0, 9)
	if r.Chance(1, 12) {
		n = r.Range(10, 24)
	}
	es, shape := randomEdges(r, kind, n)
	sc := pickScale(r, kind)
	es = sc.apply(r, es)
	ops := graphOpsCtor(kind, n, es, ctorSplit(r, len(es)))
	if n <= 9 {
		ops = append(ops, allQueries(kind, n, r.Chance(1, 4))...)
	} else {
		qs := allQueries(kind, n, false)
		for _, q := range qs {
			if r.Chance(1, 3) {
				ops = append(ops, q)
			}
		}
	}
	if r.Chance(1, 5) {
		ops = append(ops, panicQuery(r, kind, n))
	}
	return kind, hx.Case{Header: sc.header(kind, n, shape), Ops: ops}
}

func edgeLine(kind string, e rawEdge) string {
	if weighted(kind) {
		return fmt.Sprintf("edge %d %d %d", e.u, e.v, e.w)
	}
	return fmt.Sprintf("edge %d %d", e.u, e.v)
}

// one query on the current object; `wide` = ops that list something for every vertex are allowed
func randomQuery(r *hx.Rand, kind string, n int) string {
	vtx := func() int {
		if n == 0 || r.Chance(1, 12) {
			return hx.Pick(r, []int{-1, n, n + 3})
		}
		return r.Intn(n)
	}
	src := func() int { // sources may be invalid (Paths then finds nothing), ShortestPathTree sources may not
		if n == 0 {
			return 0
		}
		return r.Intn(n)
	}
	directed := kind == "directed" || kind == "wdirected"
	switch r.Intn(10) {
	case 0, 1: // the algorithm of the kind that reads most of the object
		switch kind {
		case "directed":
			return hx.Pick(r, []string{"scc", "scc", "cycle", "topo"})
		case "undirected":
			return "cc"
		case "wdirected":
			if n > 0 && r.Bool() {
				return fmt.Sprintf("spt %d", src())
			}
			return "scc"
		default:
			return hx.Pick(r, []string{"mst", "mst", "cc"})
		}
	case 2:
		return fmt.Sprintf("paths %s %d", hx.Pick(r, strats), vtx())
	case 3:
		if n > 0 {
			return fmt.Sprintf("path %s %d %d", hx.Pick(r, strats), vtx(), r.Intn(n))
		}
		return "orders dfs"
	case 4:
		if r.Bool() {
			stop := "all"
			if r.Chance(2, 3) {
				stop = fmt.Sprint(r.Intn(3*n + 2))
			}
			return fmt.Sprintf("traverse %s %d %s", hx.Pick(r, strats), vtx(), stop)
		}
		return "orders " + hx.Pick(r, strats)
	case 5:
		return "dump"
	case 6:
		if directed {
			return "reverse"
		}
		return fmt.Sprintf("degree %d", vtx())
	case 7:
		if directed {
			return fmt.Sprintf("%s %d", hx.Pick(r, []string{"indeg", "outdeg"}), vtx())
		}
		return fmt.Sprintf("adjof %d", vtx())
	case 8:
		if weighted(kind) {
			return "edges"
		}
		return fmt.Sprintf("adjof %d", vtx())
	default:
		if kind == "wdirected" && n > 0 {
			return fmt.Sprintf("sptto %d %d", src(), r.Intn(n))
		}
		if kind == "wundirected" {
			return "mst"
		}
		if kind == "directed" {
			return hx.Pick(r, []string{"topo", "cycle", "scc"})
		}
		return "cc"
	}
}

// keeper tracks the result objects a generated case holds (`keep` lines), so that `ask` lines can name them
type keeper struct {
	n   int   // results kept so far (0 … n-1)
	sel []int // those that are a *Paths or a *ShortestPathTree (they take `ask <k> <v>`)
}

// keepOp: `keep <call>` for a call the kind has; every result object the package hands out comes up
func (kp *keeper) keepOp(r *hx.Rand, kind string, n int) string {
	vtx := func() int {
		if n == 0 || r.Chance(1, 12) {
			return hx.Pick(r, []int{-1, n, n + 3})
		}
		return r.Intn(n)
	}
	calls := []string{"paths", "paths", "paths", "orders", "adjof"}
	switch kind {
	case "directed":
		calls = append(calls, "scc", "cycle", "topo")
	case "undirected":
		calls = append(calls, "cc", "cc", "paths")
	case "wdirected":
		calls = append(calls, "scc")
		if n > 0 {
			calls = append(calls, "spt", "spt")
		}
	case "wundirected":
		calls = append(calls, "cc", "mst", "mst")
	}
	call := hx.Pick(r, calls)
	line := "keep " + call
	switch call {
	case "paths":
		line = fmt.Sprintf("keep paths %s %d", hx.Pick(r, strats), vtx())
		kp.sel = append(kp.sel, kp.n)
	case "orders":
		line = "keep orders " + hx.Pick(r, strats)
	case "adjof":
		line = fmt.Sprintf("keep adjof %d", vtx())
	case "spt":
		line = fmt.Sprintf("keep spt %d", r.Intn(n))
		kp.sel = append(kp.sel, kp.n)
	}
	kp.n++
	return line
}

// askOp: read one of the results held ("" if there is none): everything it can be asked, or one To(v)/PathTo(v)
func (kp *keeper) askOp(r *hx.Rand, n int) string {
	if kp.n == 0 {
		return ""
	}
	if n > 0 && len(kp.sel) > 0 && r.Chance(1, 3) {
		return fmt.Sprintf("ask %d %d", hx.Pick(r, kp.sel), r.Intn(n))
	}
	k := r.Intn(kp.n)
	if r.Chance(1, 3) {
		k = kp.n - 1 - r.Intn((kp.n+1)/2) // the recent ones
	}
	return fmt.Sprintf("ask %d", k)
}

// askAll: every result held is read once more
func (kp *keeper) askAll(r *hx.Rand) []string {
	var ops []string
	up := r.Bool()
	for k := 0; k < kp.n; k++ {
		i := k
		if !up {
			i = kp.n - 1 - k
		}
		ops = append(ops, fmt.Sprintf("ask %d", i))
	}
	return ops
}

// keptCase: result objects outlive the call that made them.  The graph is built by NewX(n, edges…) and AddEdge;
// then, in several rounds: results are kept (every kind of result object, several sources and strategies), something
// else happens on the same graph or another one (AddEdge, other traversals and algorithms, Reverse() kept as an
// object and extended), and results old and new are read — some more than once; at the end all of them again.
func keptCase(r *hx.Rand) (string, hx.Case) {
	kind := hx.Pick(r, kinds)
	n := r.Range(2, 7)
	if r.Chance(1, 15) {
		n = r.Range(0, 1)
	}
	es, _ := randomEdges(r, kind, n)
	sc := pickScale(r, kind)
	es = sc.apply(r, es)
	ops := graphOpsCtor(kind, n, es, ctorSplit(r, len(es)))
	directed := kind == "directed" || kind == "wdirected"
	wmax := hx.Pick(r, []int{1, 3, 9})
	kp := &keeper{}
	nobj := 1
	for round, rounds := 0, r.Range(2, 4); round < rounds; round++ {
		for c := r.Range(1, 4); c > 0; c-- {
			ops = append(ops, kp.keepOp(r, kind, n))
		}
		for c := r.Range(0, 3); c > 0; c-- {
			if r.Chance(1, 3) && n > 0 {
				e := rawEdge{r.Intn(n), r.Intn(n), r.Range(0, wmax)}
				ops = append(ops, edgeLine(kind, sc.apply(r, []rawEdge{e})[0]))
			} else {
				ops = append(ops, randomQuery(r, kind, n))
			}
		}
		if directed && nobj < 3 && r.Chance(1, 4) {
			ops = append(ops, "mkrev")
			nobj++
		}
		if nobj < 3 && r.Chance(1, 4) {
			// an unrelated graph of the same type, built from some of the same edges
			var sub []rawEdge
			for _, e := range es {
				if r.Bool() {
					sub = append(sub, e)
				}
			}
			ops = append(ops, newLine(kind, n, sub))
			nobj++
		}
		if nobj > 1 && r.Chance(1, 2) {
			ops = append(ops, fmt.Sprintf("use %d", r.Intn(nobj)))
		}
		for c := r.Range(1, 4); c > 0; c-- {
			ops = append(ops, kp.askOp(r, n))
		}
	}
	ops = append(ops, kp.askAll(r)...)
	if r.Chance(1, 10) && n > 0 && len(kp.sel) > 0 {
		// To(v) / PathTo(v) of a kept result with a target outside the graph: panics, the case ends
		ops = append(ops, fmt.Sprintf("ask %d %d", hx.Pick(r, kp.sel), hx.Pick(r, []int{-1, n, n + 2})))
	}
	return kind, hx.Case{Header: sc.header(kind, n, "kept"), Ops: ops}
}

// historyCase: a graph object used the way an incremental client uses it — edges and queries interleaved in
// several rounds on the same object; for the directed kinds Reverse() results are kept as further objects,
// which get edges and queries of their own while the original keeps changing.
func historyCase(r *hx.Rand) (string, hx.Case) {
	kind := hx.Pick(r, kinds)
	n := r.Range(1, 7)
	if r.Chance(1, 25) {
		n = 0
	}
	sc := pickScale(r, kind)
	directed := kind == "directed" || kind == "wdirected"
	wmax := hx.Pick(r, []int{1, 3, 9, 200})
	neg := kind == "wundirected" && r.Chance(1, 4) || kind == "wdirected" && r.Chance(1, 15)
	oneEdge := func() rawEdge {
		v := func() int {
			if n == 0 || r.Chance(1, 30) {
				return hx.Pick(r, []int{-1, n, n + 1})
			}
			return r.Intn(n)
		}
		w := r.Range(0, wmax)
		if r.Chance(1, 8) {
			w = 0
		}
		if neg && r.Chance(1, 4) {
			w = -w
		}
		return rawEdge{v(), v(), w}
	}
	var ops []string
	kp := &keeper{}
	nobj := 1
	rounds := r.Range(2, 6)
	for round := 0; round < rounds; round++ {
		ne := r.Range(0, 3)
		if round == 0 {
			ne = r.Range(0, n+2)
		}
		var es []rawEdge
		for k := 0; k < ne; k++ {
			es = append(es, oneEdge())
		}
		es = sc.apply(r, es)
		if round == 0 {
			// the object is built by NewX(n, edges…) with some of the first edges (none … all), the others and
			// those of the later rounds are added with AddEdge
			ops = graphOpsCtor(kind, n, es, ctorSplit(r, len(es)))
		} else {
			for _, e := range es {
				ops = append(ops, edgeLine(kind, e))
			}
		}
		for k := r.Range(1, 4); k > 0; k-- {
			switch c := r.Intn(8); {
			case c == 0:
				ops = append(ops, kp.keepOp(r, kind, n))
			case c == 1 && kp.n > 0:
				ops = append(ops, kp.askOp(r, n))
			default:
				ops = append(ops, randomQuery(r, kind, n))
			}
		}
		if directed && nobj < 4 && r.Chance(1, 3) {
			ops = append(ops, "mkrev")
			nobj++
		}
		if nobj < 4 && r.Chance(1, 6) {
			var es2 []rawEdge
			for k := r.Range(0, n+1); k > 0; k-- {
				es2 = append(es2, oneEdge())
			}
			ops = append(ops, newLine(kind, n, sc.apply(r, es2)))
			nobj++
		}
		if nobj > 1 && r.Chance(1, 2) {
			ops = append(ops, fmt.Sprintf("use %d", r.Intn(nobj)))
		}
	}
	// at the end every object is asked for its state and for the algorithm that reads all of it
	for k := 0; k < nobj; k++ {
		if nobj > 1 {
			ops = append(ops, fmt.Sprintf("use %d", k))
		}
		ops = append(ops, "dump")
		switch kind {
		case "directed", "wdirected":
			ops = append(ops, "scc", "reverse")
		case "undirected":
			ops = append(ops, "cc")
		default:
			ops = append(ops, "cc", "mst")
		}
	}
	ops = append(ops, kp.askAll(r)...)
	if r.Chance(1, 8) {
		ops = append(ops, panicQuery(r, kind, n))
	}
	return kind, hx.Case{Header: sc.header(kind, n, "history"), Ops: ops}
}

// nearTieCase: weighted graphs in which many routes (resp. many candidate tree edges) have almost the same
// total weight, at a scale where the differences are tiny in absolute terms (2^-40 … 2^-1000) or huge (2^900):
// an improvement by one unit must still be taken.
func nearTieCase(r *hx.Rand) (string, hx.Case) {
	kind := hx.Pick(r, []string{"wdirected", "wdirected", "wundirected"})
	n := r.Range(3, 9)
	sc := scale{wexp: hx.Pick(r, []int{-40, -40, -60, -200, -1000, -1070, 900, 0})}
	base := hx.Pick(r, []int{0, 10, 100, 1000})
	if r.Chance(1, 4) {
		// weights of ordinary size that differ far behind the 9th decimal: (2^40 + k) * 2^-40 = 1 + k * 2^-40 (the
		// package has a constant float64Epsilon = 1e-9; an improvement by 2^-40 ≈ 9e-13 is still an improvement)
		sc.wexp = -40
		base = 1 << 40
	}
	var es []rawEdge
	// a slow direct edge and chains of cheap hops: the later, longer route is better by little
	for k := r.Range(n, 3*n); k > 0; k-- {
		a, b := r.Intn(n), r.Intn(n)
		es = append(es, rawEdge{a, b, base + r.Range(0, 6)})
	}
	for v := 0; v+1 < n; v++ {
		if r.Chance(3, 4) {
			es = append(es, rawEdge{v, v + 1, r.Range(0, 2)})
		}
	}
	for k := r.Range(0, 2); k > 0; k-- {
		es = append(es, rawEdge{0, r.Intn(n), base*r.Range(1, n) + r.Range(0, 3)})
	}
	for i := len(es) - 1; i > 0; i-- {
		j := r.Intn(i + 1)
		es[i], es[j] = es[j], es[i]
	}
	ops := graphOpsCtor(kind, n, es, ctorSplit(r, len(es)))
	if kind == "wdirected" {
		for s := 0; s < n; s++ {
			ops = append(ops, fmt.Sprintf("spt %d", s))
		}
	} else {
		ops = append(ops, "mst", "cc", "edges")
	}
	// second round on the same object
	for k := r.Range(1, 3); k > 0; k-- {
		ops = append(ops, edgeLine(kind, rawEdge{r.Intn(n), r.Intn(n), r.Range(0, 3)}))
	}
	if kind == "wdirected" {
		ops = append(ops, fmt.Sprintf("spt %d", r.Intn(n)), "dump")
	} else {
		ops = append(ops, "mst", "dump")
	}
	return kind, hx.Case{Header: sc.header(kind, n, "neartie"), Ops: ops}
}

// large structured graphs: the stacks and queues behind DFSi, BFS, To, PathTo and Cycle cross their
// 1024-slot blocks
func bigCase(r *hx.Rand, kind string, shape string) hx.Case {
	// just past one block of 1024 (most), past two blocks (some)
	n := r.Range(1030, 1100)
	if r.Chance(1, 4) {
		n = r.Range(2055, 2120)
	}
	var es []rawEdge
	w := func() int { return r.Range(0, 5) }
	switch shape {
	case "path": // 0-1-2-…
		for v := 0; v+1 < n; v++ {
			es = append(es, rawEdge{v, v + 1, w()})
		}
	case "revpath": // edges inserted from the far end, pointing towards 0
		for v := n - 1; v > 0; v-- {
			es = append(es, rawEdge{v, v - 1, w()})
		}
	case "cycle":
		for v := 0; v < n; v++ {
			es = append(es, rawEdge{v, (v + 1) % n, w()})
		}
	case "star": // the queue / stack holds every leaf at once
		for v := 1; v < n; v++ {
			es = append(es, rawEdge{0, v, w()})
		}
	case "bintree":
		for v := 1; v < n; v++ {
			es = append(es, rawEdge{(v - 1) / 2, v, w()})
		}
	case "broom": // a path of n/2 followed by a star
		h := n / 2
		for v := 0; v+1 < h; v++ {
			es = append(es, rawEdge{v, v + 1, w()})
		}
		for v := h; v < n; v++ {
			es = append(es, rawEdge{h - 1, v, w()})
		}
	}
	// a few chords
	for k := r.Intn(3); k > 0; k-- {
		es = append(es, rawEdge{r.Intn(n), r.Intn(n), w()})
	}
	ops := graphOpsCtor(kind, n, es, ctorSplit(r, len(es)))
	far := n - 1
	src := 0
	if shape == "revpath" {
		src, far = n-1, 0
	}
	for _, st := range strats {
		ops = append(ops, fmt.Sprintf("path %s %d %d", st, src, far))
		ops = append(ops, fmt.Sprintf("path %s %d %d", st, src, r.Intn(n)))
	}
	ops = append(ops, fmt.Sprintf("path %s %d %d", hx.Pick(r, strats), r.Intn(n), r.Intn(n)))
	ops = append(ops, "orders "+hx.Pick(r, strats))
	switch kind {
	case "directed":
		ops = append(ops, "cycle", "topo", "scc")
	case "undirected":
		ops = append(ops, "cc")
	case "wdirected":
		ops = append(ops, fmt.Sprintf("sptto %d %d", src, far), fmt.Sprintf("sptto %d %d", src, r.Intn(n)), "scc")
	case "wundirected":
		ops = append(ops, "mst", "cc")
	}
	// second round on the same object: a chord back towards the start, then the queries that read all of it
	ops = append(ops, edgeLine(kind, rawEdge{far, src, w()}), edgeLine(kind, rawEdge{r.Intn(n), r.Intn(n), w()}))
	ops = append(ops, fmt.Sprintf("path %s %d %d", hx.Pick(r, strats), far, src))
	switch kind {
	case "directed":
		ops = append(ops, "scc", "cycle")
	case "undirected":
		ops = append(ops, "cc")
	case "wdirected":
		ops = append(ops, "scc", fmt.Sprintf("sptto %d %d", far, r.Intn(n)))
	case "wundirected":
		ops = append(ops, "mst")
	}
	return hx.Case{Header: header(kind, n, shape), Ops: ops}
}

// every sequence of at most maxEdges edges over the given alphabet
func edgeSequences(alpha []rawEdge, maxEdges int, f func([]rawEdge)) {
	var rec func(cur []rawEdge)
	rec = func(cur []rawEdge) {
		f(cur)
		if len(cur) == maxEdges {
			return
		}
		for _, e := range alpha {
			rec(append(cur, e))
		}
	}
	rec(nil)
}

// the edge alphabet of the exhaustive enumerations: every ordered pair (unordered for `undirected`); weighted kinds
// get a weight from the pair and the orientation
func exhaustiveAlphabet(kind string, n int) []rawEdge {
	var alpha []rawEdge
	for u := 0; u < n; u++ {
		for v := 0; v < n; v++ {
			if weighted(kind) {
				alpha = append(alpha, rawEdge{u, v, (u*2 + v*3) % 4})
			} else if kind == "directed" || u <= v {
				alpha = append(alpha, rawEdge{u, v, 0})
			}
		}
	}
	return alpha
}

func Main(run *hx.Run) {
	run.Stats.Rule = Rule
	for _, f := range hx.CorpusFiles("C14") {
		cs, _ := hx.ReadReplay(f)
		for _, c := range cs {
			run.Do(hx.HeaderGet(c.Header, "comp"), c, Exec)
		}
	}
	r := run.R.Fork("random")
	for k, n := 0, run.Scale(1200); k < n; k++ {
		kind, c := randomCase(r)
		run.Do(kind, c, Exec)
	}
	rh := run.R.Fork("history")
	for k, n := 0, run.Scale(1000); k < n; k++ {
		kind, c := historyCase(rh)
		run.Do(kind, c, Exec)
	}
	rk := run.R.Fork("kept")
	for k, n := 0, run.Scale(700); k < n; k++ {
		kind, c := keptCase(rk)
		run.Do(kind, c, Exec)
	}
	sweeps(run)
	rt := run.R.Fork("neartie")
	for k, n := 0, run.Scale(300); k < n; k++ {
		kind, c := nearTieCase(rt)
		run.Do(kind, c, Exec)
	}
	rb := run.R.Fork("big")
	shapes := []string{"path", "revpath", "cycle", "star", "bintree", "broom"}
	nbig := 8
	if run.Thorough() {
		nbig = 48
	}
	for k := 0; k < nbig; k++ {
		// the large cases are the expensive ones to shrink: once something has been found (the corpus
		// holds a minimal block-boundary case that runs first) they add nothing
		if len(run.Stats.Violations) > 0 {
			break
		}
		kind := kinds[k%4]
		shape := shapes[(k/4+k)%len(shapes)]
		run.Do(kind, bigCase(rb, kind, shape), Exec)
	}
	if run.Thorough() {
		// all multigraphs (edge sequences, so every insertion order) with ≤ 3 vertices and ≤ 4 edges,
		// self-loops and parallel edges included; every query for every source.
		for _, kind := range kinds {
			for n := 0; n <= 3; n++ {
				var alpha []rawEdge
				for u := 0; u < n; u++ {
					for v := 0; v < n; v++ {
						if weighted(kind) {
							// weight from the pair and the orientation: parallel edges of different weight arise
							// because (u,v) and (v,u) differ; all-equal and zero weights are covered below
							alpha = append(alpha, rawEdge{u, v, (u*2 + v*3) % 4})
						} else if kind == "directed" || u <= v {
							alpha = append(alpha, rawEdge{u, v, 0})
						}
					}
				}
				edgeSequences(alpha, 4, func(es []rawEdge) {
					c := hx.Case{Header: header(kind, n, "exhaustive"), Ops: append(graphOps(kind, n, es), allQueries(kind, n, false)...)}
					run.Do(kind, c, Exec)
				})
			}
		}
		// weighted: all sequences of ≤ 3 edges on ≤ 3 vertices with weights in {0,1,2}
		for _, kind := range []string{"wdirected", "wundirected"} {
			for n := 1; n <= 3; n++ {
				var alpha []rawEdge
				for u := 0; u < n; u++ {
					for v := 0; v < n; v++ {
						for w := 0; w <= 2; w++ {
							alpha = append(alpha, rawEdge{u, v, w})
						}
					}
				}
				edgeSequences(alpha, 3, func(es []rawEdge) {
					c := hx.Case{Header: header(kind, n, "exhaustive-w"), Ops: append(graphOps(kind, n, es), allQueries(kind, n, false)...)}
					run.Do(kind, c, Exec)
				})
			}
		}
		// histories: all edge sequences with <= 3 edges on <= 3 vertices (<= 4 edges on <= 2 vertices), every query
		// (and dump, reverse) asked after EVERY AddEdge on the same object, not only at the end
		for _, kind := range kinds {
			for n := 1; n <= 3; n++ {
				var alpha []rawEdge
				for u := 0; u < n; u++ {
					for v := 0; v < n; v++ {
						if weighted(kind) {
							alpha = append(alpha, rawEdge{u, v, (u*2 + v*3) % 4})
						} else if kind == "directed" || u <= v {
							alpha = append(alpha, rawEdge{u, v, 0})
						}
					}
				}
				maxE := 3
				if n <= 2 {
					maxE = 4
				}
				qs := append(allQueries(kind, n, false), "dump")
				if kind == "directed" || kind == "wdirected" {
					qs = append(qs, "reverse")
				}
				if weighted(kind) {
					qs = append(qs, "edges")
				}
				sc := scale{}
				if weighted(kind) {
					sc.wexp = -40
				}
				edgeSequences(alpha, maxE, func(es []rawEdge) {
					if len(es) < 2 {
						return
					}
					ops := []string{fmt.Sprintf("graph %s %d", kind, n)}
					ops = append(ops, qs...)
					for _, e := range es {
						ops = append(ops, edgeLine(kind, e))
						ops = append(ops, qs...)
					}
					run.Do(kind, hx.Case{Header: sc.header(kind, n, "exhaustive-history"), Ops: ops}, Exec)
				})
			}
		}
		// constructor + AddEdge: all edge sequences with <= 3 edges on <= 3 vertices (<= 4 on <= 2), every way of
		// giving a non-empty prefix to NewX(n, edges…) and the rest to AddEdge; state dump after the constructor and,
		// with paths and the kind's algorithms, after every AddEdge
		for _, kind := range kinds {
			for n := 1; n <= 3; n++ {
				alpha := exhaustiveAlphabet(kind, n)
				maxE := 3
				if n <= 2 {
					maxE = 4
				}
				qs := []string{"dump", fmt.Sprintf("paths bfs %d", n-1), "paths dfs 0"}
				switch kind {
				case "directed":
					qs = append(qs, "scc", "topo", "reverse")
				case "undirected":
					qs = append(qs, "cc")
				case "wdirected":
					qs = append(qs, "scc", "spt 0", "edges")
				case "wundirected":
					qs = append(qs, "mst", "edges")
				}
				sc := scale{}
				if weighted(kind) {
					sc.wexp = -40
				}
				edgeSequences(alpha, maxE, func(es []rawEdge) {
					for k := 1; k <= len(es); k++ {
						ops := []string{graphLine(kind, n, es[:k]), "dump"}
						for _, e := range es[k:] {
							ops = append(ops, edgeLine(kind, e))
							ops = append(ops, qs...)
						}
						if k == len(es) {
							ops = append(ops, qs[1:]...)
						}
						run.Do(kind, hx.Case{Header: sc.header(kind, n, "exhaustive-ctor"), Ops: ops}, Exec)
					}
				})
			}
		}
		// kept results: all edge sequences with <= 3 edges on <= 3 vertices, cut at every point into the graph the
		// results are computed on (built by the constructor) and the edges added afterwards; EVERY result object the
		// kind has is kept (all strategies and sources), then the edges are added and traversals and algorithms run
		// on the same graph, then every result is read (the *Paths also target by target), the first ones twice
		for _, kind := range kinds {
			for n := 1; n <= 3; n++ {
				alpha := exhaustiveAlphabet(kind, n)
				var keeps []string
				var sels []int
				for _, st := range strats {
					for s := 0; s < n; s++ {
						sels = append(sels, len(keeps))
						keeps = append(keeps, fmt.Sprintf("keep paths %s %d", st, s))
					}
				}
				keeps = append(keeps, "keep orders dfs", "keep orders dfsi", "keep orders bfs")
				for v := 0; v < n; v++ {
					keeps = append(keeps, fmt.Sprintf("keep adjof %d", v))
				}
				var later []string
				for _, st := range strats {
					later = append(later, fmt.Sprintf("paths %s %d", st, n-1), fmt.Sprintf("traverse %s 0 all", st))
				}
				later = append(later, "orders dfs")
				switch kind {
				case "directed":
					keeps = append(keeps, "keep scc", "keep cycle", "keep topo")
					later = append(later, "scc", "cycle", "topo")
				case "undirected":
					keeps = append(keeps, "keep cc")
					later = append(later, "cc")
				case "wdirected":
					keeps = append(keeps, "keep scc")
					for s := 0; s < n; s++ {
						sels = append(sels, len(keeps))
						keeps = append(keeps, fmt.Sprintf("keep spt %d", s))
					}
					later = append(later, "scc", fmt.Sprintf("spt %d", n-1))
				case "wundirected":
					keeps = append(keeps, "keep cc", "keep mst")
					later = append(later, "cc", "mst")
				}
				otherQ := "cc"
				if kind == "directed" || kind == "wdirected" {
					otherQ = "scc"
				}
				var asks []string
				for k := range keeps {
					asks = append(asks, fmt.Sprintf("ask %d", k))
				}
				for _, k := range sels {
					asks = append(asks, fmt.Sprintf("ask %d %d", k, n-1))
				}
				asks = append(asks, "ask 0", "ask 1")
				sc := scale{}
				if weighted(kind) {
					sc.wexp = -40
				}
				edgeSequences(alpha, 3, func(es []rawEdge) {
					for k := 0; k <= len(es); k++ {
						ops := []string{graphLine(kind, n, es[:k])}
						ops = append(ops, keeps...)
						for _, e := range es[k:] {
							ops = append(ops, edgeLine(kind, e))
						}
						ops = append(ops, later...)
						// … and on an unrelated graph of the same type with the same edges
						ops = append(ops, newLine(kind, n, es), "use 1", "paths dfs 0", "orders bfs", otherQ, "use 0")
						ops = append(ops, asks...)
						run.Do(kind, hx.Case{Header: sc.header(kind, n, "exhaustive-kept"), Ops: ops}, Exec)
					}
				})
			}
		}
		run.Stats.Exhaustive = true
		run.Stats.Extra["exhaustive_part"] = "all edge sequences (multigraphs incl. self-loops, parallel edges, every insertion order) with <=3 vertices and <=4 edges for the four graph kinds (undirected: unordered pairs); weighted kinds additionally all sequences of <=3 edges with weights in {0,1,2}; all queries, all sources; histories: all edge sequences with <=3 edges on <=3 vertices (<=4 on <=2) with every query, dump and reverse asked after every AddEdge on the same object; constructor: the same edge sequences with every non-empty prefix given to NewX(n, edges...) and the rest to AddEdge, state dump, paths and the kind's algorithms after every AddEdge; kept results: all edge sequences with <=3 edges on <=3 vertices cut at every point, every result object of the kind (all strategies, all sources, Adj slices) kept on the graph built by the constructor, the remaining edges added and traversals/algorithms run on that graph and on a second, unrelated graph with the same edges, then every result read (Paths/ShortestPathTree also by target, the first results twice)"
	}
}
