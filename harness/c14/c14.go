// Package c14: graph algorithms of /repo/graph against independent reference algorithms
// (brute-force reachability, BFS distances, Floyd–Warshall / Bellman–Ford, Kruskal).
//
// The oracle checks the PROPERTY (any valid path, any spanning forest of minimum weight, any valid
// topological order … is admitted); the exact output is what the Lean Model is compared with.
package c14

import (
	"container/heap"
	"fmt"
	"math"
	"sort"
	"strconv"
	"strings"
	"time"

	"github.com/moorara/algo/graph"

	"verifharness/hx"
)

const Rule = "cases = histories on graph objects and result objects kept alive for the whole case: `graph kind n [edges]` = NewX(n, edges...) " +
	"with none, some or all of the first edges, then `edge` (AddEdge) lines interleaved with queries in several rounds (paths/path for " +
	"dfs, dfsi, bfs and every source, orders, cc, scc, cycle, topo, mst, spt/sptto, dump = V/E/Adj/InDegree, reverse, " +
	"indeg/outdeg/degree/adjof/edges), `mkrev` keeps Reverse() as a further object, `new n [edges]` adds an unrelated object of the " +
	"same type and `use i` switches between the objects; " +
	"`keep <call>` keeps the result object of a call (*Paths, *Orders, *(Strongly)ConnectedComponents, *DirectedCycle, *Topological, " +
	"*MinimumSpanningTree, *ShortestPathTree, the slice Adj(v) returned) and `ask k [v]` reads it later - after AddEdge, other " +
	"traversals and algorithms on the same and on other objects, further results - and more than once (judged against the graph as it " +
	"was when the result was computed); all drawn from VERIF_SEED; edge lists incl. self-loops, parallel edges, out-of-range endpoints, " +
	"zero/negative weights; weighted cases carry wexp=k (the library sees weight*2^k, k from -1070 to +900, exact in float64) or " +
	"mixed magnitudes (weights m*2^d, d up to 40); shapes: random multigraphs with 0-9 vertices, disconnected and dense ones, DAGs, " +
	"functional graphs, near-tie routes, long paths/cycles/stars/binary trees with 1030-2120 vertices (stack and queue blocks of " +
	"1024 crossed); threshold sweeps: number of vertices (edges on a core of <=5 vertices), path length = recursion depth, degree of " +
	"one vertex = BFS frontier, number of parallel edges and self-loops on 3 vertices, number of components with edges, each at " +
	"0 1 2 63 64 65 255 256 257 1023 1024 1025 (1026 2047-2050 3071-3073: list blocks of 1024) and 65535 65536 65537 70000, all four " +
	"types, queries before and after a few AddEdge calls, neighbours V-1/V+1 as further objects (quick: every small value, 65537 for " +
	"every type and the other large values for one type each; thorough: all); vertex arguments of every magnitude (MaxInt, MinInt, " +
	"2^31, 2^32, 65536, n, -1); the caller overwrites the edge list it passed to the constructor and every slice returned as a " +
	"copy, appends to the slice Adj(v) returned (`adjappend`), reverses a reversed graph, stops a traversal in its visitor and " +
	"searches again with the same strategy; ORACLE-ONLY cases (not run on the Lean Model, counted as oracle_only_cases): one class / " +
	"one vertex's degree / the number of edges on 3 vertices above 4000 (the Model's list appends are quadratic there) - judged by " +
	"union-find / Tarjan / BFS / Dijkstra / Kruskal references; the Spec certificates of scc and mst are printed up to 4096 " +
	"vertices (`cert=n/a` above); non-trivial = some object has an edge between two distinct valid vertices and at least one " +
	"algorithm query or result read was answered; distinct = distinct (header, op list)"

type edge struct {
	u, v int
	w    int64
}

type gobj struct {
	kind  string
	n     int
	d     *graph.Directed
	u     *graph.Undirected
	wd    *graph.WeightedDirected
	wu    *graph.WeightedUndirected
	edges []edge // valid edges, insertion order
	neg   bool
	// weight scale of the case (header wexp=k): the integer weight w of an `edge` line reaches the library as
	// float64(w)·2^k (exact), weights and distances read back are divided by 2^k before they are printed
	wexp int

	// sum of |w| over the valid edges: every sum of distinct edge weights the library can form is an integer of at
	// most this magnitude, so below 2^53 (asserted at every `edge`) all its float64 additions are exact
	absSum int64
	// built by NewX(n, edges…) with a non-empty edge list
	ctorEdges bool
	// a query has been answered on this object (an `edge` after that is the interesting kind of history)
	queried      bool
	edgesAtQuery int

	// lazily built oracle data (dropped at every AddEdge)
	succ  [][]int
	reach [][]bool
	class []int
	wadj  [][]arc
}

func (g *gobj) invalidate() { g.succ, g.reach, g.class, g.wadj = nil, nil, nil, nil }

// world: the objects a case holds (object 0 from `graph`, further ones from `mkrev` and `new`) and the current one
type world struct {
	objs []*gobj
	cur  int
	kept []*result // the result objects the client holds (`keep`), in the order they were obtained
}

func (g *gobj) directed() bool { return g.kind == "directed" || g.kind == "wdirected" }
func (g *gobj) weighted() bool { return g.kind == "wdirected" || g.kind == "wundirected" }

func (g *gobj) paths(s int, strat graph.TraversalStrategy) *graph.Paths {
	switch g.kind {
	case "directed":
		return g.d.Paths(s, strat)
	case "undirected":
		return g.u.Paths(s, strat)
	case "wdirected":
		return g.wd.Paths(s, strat)
	default:
		return g.wu.Paths(s, strat)
	}
}

func (g *gobj) orders(strat graph.TraversalStrategy) *graph.Orders {
	switch g.kind {
	case "directed":
		return g.d.Orders(strat)
	case "undirected":
		return g.u.Orders(strat)
	case "wdirected":
		return g.wd.Orders(strat)
	default:
		return g.wu.Orders(strat)
	}
}

// ---------------------------------------------------------------- oracle helpers (independent of /repo)

// successor lists of the abstract graph (both directions for undirected kinds)
func (g *gobj) succs() [][]int {
	if g.succ == nil {
		g.succ = make([][]int, g.n)
		for _, e := range g.edges {
			g.succ[e.u] = append(g.succ[e.u], e.v)
			if !g.directed() {
				g.succ[e.v] = append(g.succ[e.v], e.u)
			}
		}
	}
	return g.succ
}

// bfsDist: fewest-edges distance from s, -1 = unreachable
func (g *gobj) bfsDist(s int) []int {
	dist := make([]int, g.n)
	for i := range dist {
		dist[i] = -1
	}
	succ := g.succs()
	dist[s] = 0
	q := []int{s}
	for len(q) > 0 {
		v := q[0]
		q = q[1:]
		for _, w := range succ[v] {
			if dist[w] < 0 {
				dist[w] = dist[v] + 1
				q = append(q, w)
			}
		}
	}
	return dist
}

// brute-force reachability: one search per vertex
func (g *gobj) reachAll() [][]bool {
	if g.reach == nil {
		g.reach = make([][]bool, g.n)
		for s := 0; s < g.n; s++ {
			d := g.bfsDist(s)
			r := make([]bool, g.n)
			for v, x := range d {
				r[v] = x >= 0
			}
			g.reach[s] = r
		}
	}
	return g.reach
}

func (g *gobj) hasArc(u, v int) bool {
	if u < 0 || u >= g.n {
		return false
	}
	for _, w := range g.succs()[u] {
		if w == v {
			return true
		}
	}
	return false
}

// bruteLimit: up to this many vertices the oracle uses the n x n reachability matrix (one search per vertex); above
// it the linear references (union-find, Tarjan) stand alone.  Below it both are computed and must agree.
const bruteLimit = 600

// certLimit: the Spec certificates of the Lean driver for scc and mst cost (number of classes) x n; they are printed
// for graphs with at most this many vertices (`cert=true`), `cert=n/a` above (driver and harness alike).
const certLimit = 4096

func certText(n int) string {
	if n <= certLimit {
		return "cert=true"
	}
	return "cert=n/a"
}

// tarjan: strongly connected components, label = the smallest vertex of the class (iterative, linear)
func (g *gobj) tarjan() []int {
	n := g.n
	succ := g.succs()
	index := make([]int, n) // 0 = not yet seen
	low := make([]int, n)
	onstk := make([]bool, n)
	label := make([]int, n)
	type frame struct{ v, i int }
	var stk []int
	idx := 0
	for s := 0; s < n; s++ {
		if index[s] != 0 {
			continue
		}
		idx++
		index[s], low[s] = idx, idx
		stk = append(stk, s)
		onstk[s] = true
		call := []frame{{s, 0}}
		for len(call) > 0 {
			f := &call[len(call)-1]
			if f.i < len(succ[f.v]) {
				w := succ[f.v][f.i]
				f.i++
				if index[w] == 0 {
					idx++
					index[w], low[w] = idx, idx
					stk = append(stk, w)
					onstk[w] = true
					call = append(call, frame{w, 0})
				} else if onstk[w] && index[w] < low[f.v] {
					low[f.v] = index[w]
				}
				continue
			}
			v := f.v
			call = call[:len(call)-1]
			if len(call) > 0 {
				if p := call[len(call)-1].v; low[v] < low[p] {
					low[p] = low[v]
				}
			}
			if low[v] == index[v] {
				start := len(stk) - 1
				for stk[start] != v {
					start--
				}
				mn := v
				for _, w := range stk[start:] {
					if w < mn {
						mn = w
					}
				}
				for _, w := range stk[start:] {
					onstk[w] = false
					label[w] = mn
				}
				stk = stk[:start]
			}
		}
	}
	return label
}

// classes: label[v] = the smallest vertex of v's class — connected components for the undirected kinds (union-find),
// strongly connected components for the directed kinds (mutual reachability from the matrix up to bruteLimit vertices,
// cross-checked with Tarjan; Tarjan alone above)
func (g *gobj) classes() []int {
	if g.class != nil {
		return g.class
	}
	n := g.n
	label := make([]int, n)
	if !g.directed() {
		u := newUF(n)
		for _, e := range g.edges {
			u.union(e.u, e.v)
		}
		mn := make([]int, n)
		for v := range mn {
			mn[v] = n
		}
		for v := 0; v < n; v++ {
			if r := u.find(v); v < mn[r] {
				mn[r] = v
			}
		}
		for v := 0; v < n; v++ {
			label[v] = mn[u.find(v)]
		}
		if n <= bruteLimit {
			r := g.reachAll()
			for a := 0; a < n; a++ {
				for b := 0; b < n; b++ {
					if r[a][b] != (label[a] == label[b]) {
						panic(fmt.Sprintf("harness: union-find and brute-force reachability disagree on %d, %d", a, b))
					}
				}
			}
		}
	} else {
		label = g.tarjan()
		if n <= bruteLimit {
			r := g.reachAll()
			for a := 0; a < n; a++ {
				mn := a
				for b := 0; b < a; b++ {
					if r[a][b] && r[b][a] {
						mn = b
						break
					}
				}
				if mn != label[a] {
					panic(fmt.Sprintf("harness: Tarjan and brute-force mutual reachability disagree on vertex %d", a))
				}
			}
		}
	}
	g.class = label
	return label
}

// hasCycle (directed kinds): a self-loop, or two vertices in one strongly connected class
func (g *gobj) hasCycle() bool {
	for _, e := range g.edges {
		if e.u == e.v {
			return true
		}
	}
	label := g.classes()
	for v, l := range label {
		if l != v {
			return true
		}
	}
	return false
}

type uf struct{ p []int }

func newUF(n int) *uf {
	u := &uf{p: make([]int, n)}
	for i := range u.p {
		u.p[i] = i
	}
	return u
}
func (u *uf) find(x int) int {
	for u.p[x] != x {
		u.p[x] = u.p[u.p[x]]
		x = u.p[x]
	}
	return x
}
func (u *uf) union(a, b int) bool {
	a, b = u.find(a), u.find(b)
	if a == b {
		return false
	}
	u.p[a] = b
	return true
}

// kruskal: weight and edge count of a minimum spanning forest
func (g *gobj) kruskal() (int64, int) {
	es := append([]edge{}, g.edges...)
	sort.SliceStable(es, func(i, j int) bool { return es[i].w < es[j].w })
	u := newUF(g.n)
	var w int64
	cnt := 0
	for _, e := range es {
		if u.union(e.u, e.v) {
			w += e.w
			cnt++
		}
	}
	return w, cnt
}

const inf = int64(1) << 60

// shortest distances from s: Floyd–Warshall for small graphs, Bellman–Ford otherwise (weights ≥ 0 here)
func (g *gobj) shortest(s int) []int64 {
	n := g.n
	if n <= 64 {
		d := make([][]int64, n)
		for i := range d {
			d[i] = make([]int64, n)
			for j := range d[i] {
				d[i][j] = inf
			}
			d[i][i] = 0
		}
		for _, e := range g.edges {
			if e.w < d[e.u][e.v] {
				d[e.u][e.v] = e.w
			}
		}
		for k := 0; k < n; k++ {
			for i := 0; i < n; i++ {
				if d[i][k] == inf {
					continue
				}
				for j := 0; j < n; j++ {
					if d[k][j] != inf && d[i][k]+d[k][j] < d[i][j] {
						d[i][j] = d[i][k] + d[k][j]
					}
				}
			}
		}
		return d[s]
	}
	dist := make([]int64, n)
	for i := range dist {
		dist[i] = inf
	}
	dist[s] = 0
	if n > 3000 {
		// large graphs: a textbook lazy Dijkstra on container/heap (weights are >= 0 here)
		out := make([][]edge, n)
		for _, e := range g.edges {
			out[e.u] = append(out[e.u], e)
		}
		h := &distHeap{{s, 0}}
		for h.Len() > 0 {
			it := heap.Pop(h).(distItem)
			if it.d > dist[it.v] {
				continue
			}
			for _, e := range out[it.v] {
				if nd := it.d + e.w; nd < dist[e.v] {
					dist[e.v] = nd
					heap.Push(h, distItem{e.v, nd})
				}
			}
		}
		return dist
	}
	for round := 0; round < n; round++ {
		changed := false
		for _, e := range g.edges {
			if dist[e.u] != inf && dist[e.u]+e.w < dist[e.v] {
				dist[e.v] = dist[e.u] + e.w
				changed = true
			}
		}
		if !changed {
			break
		}
	}
	return dist
}

type distItem struct {
	v int
	d int64
}
type distHeap []distItem

func (h distHeap) Len() int           { return len(h) }
func (h distHeap) Less(i, j int) bool { return h[i].d < h[j].d }
func (h distHeap) Swap(i, j int)      { h[i], h[j] = h[j], h[i] }
func (h *distHeap) Push(x any)        { *h = append(*h, x.(distItem)) }
func (h *distHeap) Pop() any {
	old := *h
	x := old[len(old)-1]
	*h = old[:len(old)-1]
	return x
}

// ---------------------------------------------------------------- formatting (same as Driver/C14.lean)

func ints(xs []int) string {
	var b strings.Builder
	b.WriteByte('[')
	for i, x := range xs {
		if i > 0 {
			b.WriteByte(' ')
		}
		b.WriteString(strconv.Itoa(x))
	}
	b.WriteByte(']')
	return b.String()
}

func sameInts(a, b []int) bool {
	if len(a) != len(b) {
		return false
	}
	for i := range a {
		if a[i] != b[i] {
			return false
		}
	}
	return true
}

// scribble overwrites a slice the implementation handed out: if it was an internal buffer, a later
// query shows the damage
func scribble(xs []int) {
	for i := range xs {
		xs[i] = -7 - i
	}
}

func clone(xs []int) []int { return append([]int(nil), xs...) }

// outOfRange runs an implementation call whose argument lies outside [0,n) on its own: a panic of the
// implementation is passed on (the case ends with `panic`, as in the Model); if the implementation returns,
// that is what the output line says — the oracle is not consulted and cannot mask either behaviour.
func outOfRange(call func()) string {
	if kind := hx.Try(call); kind != "" {
		panic("implementation: index out of range (" + kind + ")")
	}
	return "ok returned-for-out-of-range-argument"
}

func wstr(w float64) (string, bool) {
	i := int64(w)
	return strconv.FormatInt(i, 10), float64(i) == w
}

func parseStrat(s string) (graph.TraversalStrategy, bool) {
	switch s {
	case "dfs":
		return graph.DFS, true
	case "dfsi":
		return graph.DFSi, true
	case "bfs":
		return graph.BFS, true
	}
	return 0, false
}

// ---------------------------------------------------------------- Exec

const opTimeout = 30 * time.Second

// hangs counts ops that did not return; their goroutines keep spinning (and, when the loop that does not end
// pushes on a stack, allocating), so after the first one no further case is executed (the hang is already
// recorded as a violation with a replay file)
var hangs int

// Exec runs one case on the real graph package and checks every answer against the oracles.
func Exec(c hx.Case) hx.Result {
	res := hx.Result{BadOp: -1}
	bad := func(i int, format string, a ...any) {
		if res.BadOp < 0 {
			res.BadOp = i
			res.What = fmt.Sprintf(format, a...)
		}
	}
	tags := map[string]bool{}
	w := &world{}
	answered := false
	wexp, _ := strconv.Atoi(hx.HeaderGet(c.Header, "wexp"))
	if wexp != 0 {
		tags["wexp="+strconv.Itoa(wexp)] = true
	}
	if hx.HeaderGet(c.Header, "mixed") != "" {
		tags["mixed-magnitudes"] = true
	}
	if hangs >= 1 {
		return res
	}

	for i, op := range c.Ops {
		f := strings.Fields(op)
		out := "bad-op"
		argOutOfRange := false // a panic is admitted only for an out-of-range query argument
		var kind string
		finished := hx.WithTimeout(opTimeout, func() {
			kind = hx.Try(func() {
				out = execOp(w, f, i, bad, tags, &argOutOfRange, &answered, wexp)
			})
		})
		if !finished {
			res.Outs = append(res.Outs, "hang")
			bad(i, "%s did not return within %v", op, opTimeout)
			if res.BadOp == i {
				res.Sig = "hang" // the shrinker does not turn a wrong answer into a hang (or the other way round)
			}
			tags["hang"] = true
			hangs++
			break
		}
		if kind != "" {
			res.Outs = append(res.Outs, "panic")
			tags["panic"] = true
			if !argOutOfRange {
				bad(i, "%s panicked (%s)", op, kind)
			}
			break
		}
		res.Outs = append(res.Outs, out)
		if res.BadOp >= 0 {
			// The oracle has objected: the case ends here, like at a panic.  What a corrupted object or result
			// does afterwards adds nothing (and To(v) on a corrupted *Paths can walk a cycle of edgeTo for ever).
			break
		}
	}
	if len(w.objs) > 0 {
		tags["kind="+w.objs[0].kind] = true
		if len(w.objs) > 1 {
			tags["objects>1"] = true
		}
		distinct := false
		for _, g := range w.objs {
			seen := map[[2]int]bool{}
			for _, e := range g.edges {
				if e.u != e.v {
					distinct = true
				} else {
					tags["self-loop"] = true
				}
				k := [2]int{e.u, e.v}
				if !g.directed() && e.u > e.v {
					k = [2]int{e.v, e.u}
				}
				if seen[k] {
					tags["parallel"] = true
				}
				seen[k] = true
				if g.weighted() && e.w == 0 {
					tags["zero-weight"] = true
				}
				if e.w < 0 {
					tags["negative-weight"] = true
				}
			}
			if g.n > 1024 {
				tags["n>1024"] = true
			}
		}
		res.Nontrivial = distinct && answered
	}
	for _, t := range hx.SortedKeys(tags) {
		res.Tags = append(res.Tags, t)
	}
	return res
}

// admitWeight: exactness of everything the library will compute with the weight w of a stored edge (see gobj.absSum)
func (g *gobj) admitWeight(w int, i int, bad func(int, string, ...any)) {
	scaled := math.Ldexp(float64(w), g.wexp)
	a := int64(w)
	if a < 0 {
		a = -a
	}
	g.absSum += a
	if g.absSum >= 1<<53 || math.IsInf(scaled, 0) || math.Ldexp(scaled, -g.wexp) != float64(w) ||
		math.IsInf(math.Ldexp(float64(g.absSum), g.wexp), 0) || math.Ldexp(float64(g.absSum), g.wexp) >= math.MaxFloat64/4 {
		bad(i, "harness: weight %d * 2^%d (sum of magnitudes %d) is outside the range in which float64 arithmetic is exact", w, g.wexp, g.absSum)
	}
}

// newGraph: `graph <kind> <n> [<u> <v> [<w>]]…` = NewX(n, edges…) with the edges of the line as the constructor's
// edge list (none: NewX(n)).  nil = bad-op.
func newGraph(f []string, wexp int, i int, bad func(int, string, ...any), tags map[string]bool) *gobj {
	if len(f) < 3 || f[0] != "graph" {
		return nil
	}
	n, err := strconv.Atoi(f[2])
	if err != nil || n < 0 {
		return nil
	}
	ng := &gobj{kind: f[1], n: n, wexp: wexp}
	switch f[1] {
	case "directed", "undirected", "wdirected", "wundirected":
	default:
		return nil
	}
	per := 2
	if ng.weighted() {
		per = 3
	}
	rest := f[3:]
	if len(rest)%per != 0 {
		return nil
	}
	var raw []rawEdge
	for k := 0; k < len(rest); k += per {
		e := rawEdge{}
		var err1, err2, err3 error
		e.u, err1 = strconv.Atoi(rest[k])
		e.v, err2 = strconv.Atoi(rest[k+1])
		if per == 3 {
			e.w, err3 = strconv.Atoi(rest[k+2])
		}
		if err1 != nil || err2 != nil || err3 != nil {
			return nil
		}
		raw = append(raw, e)
	}
	valid := func(v int) bool { return v >= 0 && v < n }
	var pairs [][2]int
	var des []graph.DirectedEdge
	var ues []graph.UndirectedEdge
	for _, e := range raw {
		scaled := math.Ldexp(float64(e.w), wexp)
		pairs = append(pairs, [2]int{e.u, e.v})
		des = append(des, graph.VerifDirectedEdge(e.u, e.v, scaled))
		ues = append(ues, graph.VerifUndirectedEdge(e.u, e.v, scaled))
		if valid(e.u) && valid(e.v) {
			if ng.weighted() {
				ng.admitWeight(e.w, i, bad)
			}
			ng.edges = append(ng.edges, edge{e.u, e.v, int64(e.w)})
			if e.w < 0 {
				ng.neg = true
			}
		} else {
			tags["edge-out-of-range"] = true
		}
	}
	if len(raw) > 0 {
		tags["ctor-with-edges"] = true
		ng.ctorEdges = true
	}
	switch f[1] {
	case "directed":
		ng.d = graph.NewDirected(n, pairs...)
	case "undirected":
		ng.u = graph.NewUndirected(n, pairs...)
	case "wdirected":
		ng.wd = graph.NewWeightedDirected(n, des...)
	case "wundirected":
		ng.wu = graph.NewWeightedUndirected(n, ues...)
	}
	// The edge list was the caller's slice (passed with `...`, so the constructor saw the very same backing array):
	// the caller goes on using it.  A graph that kept it instead of copying the edges out shows the damage.
	for k := range pairs {
		pairs[k] = [2]int{n - 1 - k%(n+1), k % (n + 1)}
		des[k] = graph.VerifDirectedEdge(k%(n+1), n-1-k%(n+1), -3)
		ues[k] = graph.VerifUndirectedEdge(k%(n+1), n-1-k%(n+1), -3)
	}
	return ng
}

// snapshot: the oracle's view of the object as it is now (kind, n, the valid edges so far); no implementation pointer
func (g *gobj) snapshot() *gobj {
	return &gobj{kind: g.kind, n: g.n, edges: append([]edge(nil), g.edges...), neg: g.neg, wexp: g.wexp, absSum: g.absSum}
}

// result: an object a query hands out (*Paths, *Orders, …, the slice Adj(v) returned).  A direct query reads it at
// once; `keep` holds on to it for the rest of the case and `ask` reads it later.  g is the ORACLE's graph for it:
// the edges the object had when the result was computed (C14: the answer must be right for that graph).
type result struct {
	what  string // paths orders cc scc cycle topo mst spt adjof | hole
	line  string
	g     *gobj
	src   *gobj // the live object it came from (tags only)
	asked int
	strat graph.TraversalStrategy
	s     int
	p     *graph.Paths
	o     *graph.Orders
	comps func() [][]int
	id    func(int) int
	dc    *graph.DirectedCycle
	t     *graph.Topological
	m     *graph.MinimumSpanningTree
	spt   *graph.ShortestPathTree
	v     int
	adj   func() ([]arc, bool)
}

// adjSlice calls Adj(v) now and returns a reader of the slice that call returned
func (g *gobj) adjSlice(v int, i int, bad func(int, string, ...any)) func() ([]arc, bool) {
	switch g.kind {
	case "directed":
		l := g.d.Adj(v)
		return func() ([]arc, bool) {
			var out []arc
			for _, w := range l {
				out = append(out, arc{w, 0, 0, 0})
			}
			return out, l == nil
		}
	case "undirected":
		l := g.u.Adj(v)
		return func() ([]arc, bool) {
			var out []arc
			for _, w := range l {
				out = append(out, arc{w, 0, 0, 0})
			}
			return out, l == nil
		}
	case "wdirected":
		l := g.wd.Adj(v)
		return func() ([]arc, bool) {
			var out []arc
			for _, e := range l {
				out = append(out, arc{e.To(), e.From(), e.To(), g.unscale(e.Weight(), i, bad)})
			}
			return out, l == nil
		}
	default:
		l := g.wu.Adj(v)
		return func() ([]arc, bool) {
			var out []arc
			for _, e := range l {
				a := e.Either()
				out = append(out, arc{e.Other(v), a, e.Other(a), g.unscale(e.Weight(), i, bad)})
			}
			return out, l == nil
		}
	}
}

// compute makes the call f (paths <strat> <s> | orders <strat> | cc | scc | cycle | topo | mst | spt <s> | adjof <v>)
// on the implementation object g.  r == nil: there is no result object and out is the line to print.
func compute(g *gobj, f []string, i int, bad func(int, string, ...any), tags map[string]bool, argOOR *bool) (r *result, out string) {
	atoi := func(s string) (int, bool) { v, err := strconv.Atoi(s); return v, err == nil }
	if len(f) == 0 {
		return nil, "bad-op"
	}
	r = &result{what: f[0], line: strings.Join(f, " "), g: g, src: g}
	switch f[0] {
	case "paths":
		if len(f) != 3 {
			return nil, "bad-op"
		}
		strat, ok := parseStrat(f[1])
		s, ok2 := atoi(f[2])
		if !ok || !ok2 {
			return nil, "bad-op"
		}
		tags["paths-"+f[1]] = true
		r.strat, r.s = strat, s
		r.p = g.paths(s, strat)
	case "orders":
		if len(f) != 2 {
			return nil, "bad-op"
		}
		strat, ok := parseStrat(f[1])
		if !ok {
			return nil, "bad-op"
		}
		tags["orders-"+f[1]] = true
		r.o = g.orders(strat)
	case "cc", "scc":
		if len(f) != 1 || (f[0] == "cc") == g.directed() {
			return nil, "bad-op"
		}
		tags[f[0]] = true
		switch {
		case g.kind == "undirected":
			c := g.u.ConnectedComponents()
			r.comps, r.id = c.Components, c.ID
		case g.kind == "wundirected":
			c := g.wu.ConnectedComponents()
			r.comps, r.id = c.Components, c.ID
		case g.kind == "directed":
			c := g.d.StronglyConnectedComponents()
			r.comps, r.id = c.Components, c.ID
		default:
			c := g.wd.StronglyConnectedComponents()
			r.comps, r.id = c.Components, c.ID
		}
	case "cycle":
		if len(f) != 1 || g.kind != "directed" {
			return nil, "bad-op"
		}
		tags["cycle"] = true
		r.dc = g.d.DirectedCycle()
	case "topo":
		if len(f) != 1 || g.kind != "directed" {
			return nil, "bad-op"
		}
		tags["topo"] = true
		r.t = g.d.Topological()
	case "mst":
		if len(f) != 1 || g.kind != "wundirected" {
			return nil, "bad-op"
		}
		tags["mst"] = true
		r.m = g.wu.MinimumSpanningTree()
	case "spt":
		if len(f) != 2 || g.kind != "wdirected" {
			return nil, "bad-op"
		}
		s, ok := atoi(f[1])
		if !ok {
			return nil, "bad-op"
		}
		if g.neg {
			return nil, "ok unsupported-negative-weight"
		}
		tags["spt"] = true
		if s < 0 || s >= g.n {
			*argOOR = true
			return nil, outOfRange(func() { g.wd.ShortestPathTree(s) })
		}
		r.s = s
		r.spt = g.wd.ShortestPathTree(s)
	case "adjof":
		if len(f) != 2 {
			return nil, "bad-op"
		}
		v, ok := atoi(f[1])
		if !ok {
			return nil, "bad-op"
		}
		r.v = v
		r.adj = g.adjSlice(v, i, bad)
	default:
		return nil, "bad-op"
	}
	return r, ""
}

// render reads the result object r — everything it can be asked (sel == nil) or one To(v)/PathTo(v) — checks every
// answer against the oracle graph r.g and returns the output line.
func render(r *result, sel *int, i int, bad func(int, string, ...any), tags map[string]bool, argOOR *bool, answered *bool) string {
	g := r.g
	n := g.n
	valid := func(v int) bool { return v >= 0 && v < n }
	us := func(x float64) float64 { return math.Ldexp(x, -g.wexp) } // undo the weight scale

	switch r.what {
	case "paths":
		p, s, strat := r.p, r.s, r.strat
		var dist []int
		if valid(s) {
			dist = g.bfsDist(s)
		}
		check := func(v int, path []int, found bool) {
			want := valid(s) && dist[v] >= 0
			if found != want {
				bad(i, "%s: To(%d) ok=%v but reachable=%v", r.line, v, found, want)
				return
			}
			if !found {
				if path != nil {
					bad(i, "To(%d) = (%v, false): a path is returned with ok=false", v, path)
				}
				return
			}
			if len(path) == 0 || path[0] != s || path[len(path)-1] != v {
				bad(i, "To(%d) = %v does not lead from %d to %d", v, path, s, v)
				return
			}
			for k := 0; k+1 < len(path); k++ {
				if !g.hasArc(path[k], path[k+1]) {
					bad(i, "To(%d) = %v uses %d->%d which is not an edge", v, path, path[k], path[k+1])
					return
				}
			}
			if strat == graph.BFS && len(path)-1 != dist[v] {
				bad(i, "BFS To(%d) = %v has %d edges, the fewest possible is %d", v, path, len(path)-1, dist[v])
			}
		}
		if sel != nil {
			v := *sel
			if !valid(v) {
				// outside the property's domain: only the implementation is run (the oracle would index out
				// of range itself); the Model says `panic`, anything else shows up as a difference
				*argOOR = true
				return outOfRange(func() { p.To(v) })
			}
			path, found := p.To(v)
			check(v, path, found)
			*answered = true
			out := "ok -"
			if found {
				out = "ok " + ints(path)
			}
			// aliasing / repeated queries on the same Paths value
			keep := clone(path)
			scribble(path)
			if n > 0 {
				other, _ := p.To((v*7 + 3) % n)
				scribble(other)
			}
			again, found2 := p.To(v)
			if found2 != found || !sameInts(again, keep) {
				bad(i, "To(%d) answered %v,%v first and %v,%v after the caller overwrote the returned slices", v, keep, found, again, found2)
			}
			return out
		}
		var b strings.Builder
		b.WriteString("ok")
		if n == 0 {
			b.WriteByte(' ')
		}
		keep := make([][]int, n)
		keepOK := make([]bool, n)
		for v := 0; v < n; v++ {
			path, found := p.To(v)
			check(v, path, found)
			b.WriteByte(' ')
			b.WriteString(strconv.Itoa(v))
			b.WriteByte(':')
			if found {
				b.WriteString(ints(path))
			} else {
				b.WriteByte('-')
			}
			keep[v], keepOK[v] = clone(path), found
			scribble(path)
		}
		// the same Paths value, asked again from several targets in another order (descending, then
		// a stride through the vertices), after the caller has overwritten every slice it was given
		for pass := 0; pass < 2; pass++ {
			for k := 0; k < n; k++ {
				v := n - 1 - k
				if pass == 1 {
					v = (k*5 + 2) % n
				}
				again, found := p.To(v)
				if found != keepOK[v] || !sameInts(again, keep[v]) {
					bad(i, "To(%d) answered %v,%v first and %v,%v when asked again (pass %d)", v, keep[v], keepOK[v], again, found, pass)
				}
				scribble(again)
			}
		}
		*answered = true
		return b.String()

	case "orders":
		o := r.o
		pre, post := o.PreOrder(), o.PostOrder()
		preRank, postRank := make([]int, n), make([]int, n)
		for v := 0; v < n; v++ {
			preRank[v], postRank[v] = o.PreRank(v), o.PostRank(v)
		}
		// property-level: both orders are permutations of the vertices and the ranks are their inverses
		for _, pr := range []struct {
			name  string
			order []int
			rank  []int
		}{{"pre", pre, preRank}, {"post", post, postRank}} {
			if len(pr.order) != n {
				bad(i, "%s order has %d entries for %d vertices", pr.name, len(pr.order), n)
				continue
			}
			for k, v := range pr.order {
				if !valid(v) || pr.rank[v] != k {
					bad(i, "%s order %v and rank %v are not inverse permutations", pr.name, pr.order, pr.rank)
					break
				}
			}
		}
		*answered = true
		return "ok pre=" + ints(pre) + " post=" + ints(post) + " prerank=" + ints(preRank) + " postrank=" + ints(postRank)

	case "cc", "scc":
		id := make([]int, n)
		getComps, getID := r.comps, r.id
		comps := getComps()
		for v := range id {
			id[v] = getID(v)
		}
		// partition exactly by (mutual) reachability: the ids and the oracle's class labels determine each other
		label := g.classes()
		used := map[int]bool{}
		for v := 0; v < n; v++ {
			if id[v] < 0 || id[v] >= len(comps) {
				bad(i, "id[%d] = %d outside [0,%d)", v, id[v], len(comps))
			}
			used[id[v]] = true
		}
		if len(used) != len(comps) {
			bad(i, "%d components reported, %d ids in use", len(comps), len(used))
		}
		firstWithID := map[int]int{}
		idOfClass := map[int]int{}
		for v := 0; v < n; v++ {
			if a, ok := firstWithID[id[v]]; ok && label[a] != label[v] {
				bad(i, "%s: id[%d]=%d id[%d]=%d but mutually reachable=false", r.what, a, id[a], v, id[v])
				break
			} else if !ok {
				firstWithID[id[v]] = v
			}
			if x, ok := idOfClass[label[v]]; ok && x != id[v] {
				bad(i, "%s: id[%d]=%d id[%d]=%d but mutually reachable=true", r.what, label[v], x, v, id[v])
				break
			} else if !ok {
				idOfClass[label[v]] = id[v]
			}
		}
		total := 0
		for k, comp := range comps {
			total += len(comp)
			for _, v := range comp {
				if !valid(v) || id[v] != k {
					bad(i, "Components()[%d] contains %d whose id is not %d", k, v, k)
				}
			}
		}
		if total != n {
			bad(i, "Components() lists %d vertices, the graph has %d", total, n)
		}
		if len(comps) > 1 {
			tags["disconnected"] = true
		}
		*answered = true
		var b strings.Builder
		fmt.Fprintf(&b, "ok count=%d id=%s comps=[", len(comps), ints(id))
		for k, comp := range comps {
			if k > 0 {
				b.WriteByte(' ')
			}
			b.WriteString(ints(comp))
		}
		b.WriteByte(']')
		if r.what == "scc" {
			b.WriteString(" " + certText(n))
		}
		// aliasing: overwrite the returned component slices, ask again
		keepC := make([][]int, len(comps))
		for k, comp := range comps {
			keepC[k] = clone(comp)
			scribble(comp)
		}
		again := getComps()
		if len(again) != len(keepC) {
			bad(i, "Components() has %d classes first and %d when asked again", len(keepC), len(again))
		} else {
			for k := range again {
				if !sameInts(again[k], keepC[k]) {
					bad(i, "Components()[%d] = %v first and %v after the caller overwrote the returned slices", k, keepC[k], again[k])
					break
				}
			}
		}
		for v := n - 1; v >= 0; v-- {
			if getID(v) != id[v] {
				bad(i, "ID(%d) = %d first and %d when asked again", v, id[v], getID(v))
				break
			}
		}
		return b.String()

	case "cycle":
		dc := r.dc
		cyc, found := dc.Cycle()
		want := g.hasCycle()
		if found != want {
			bad(i, "Cycle() ok=%v but the graph has a cycle=%v", found, want)
		} else if found {
			tags["cyclic"] = true
			if len(cyc) < 2 || cyc[0] != cyc[len(cyc)-1] {
				bad(i, "Cycle() = %v is not closed", cyc)
			} else {
				for k := 0; k+1 < len(cyc); k++ {
					if !g.hasArc(cyc[k], cyc[k+1]) {
						bad(i, "Cycle() = %v uses %d->%d which is not an edge", cyc, cyc[k], cyc[k+1])
						break
					}
				}
			}
		}
		*answered = true
		// the same DirectedCycle value asked again, after the caller overwrote the first answer
		keepCyc := clone(cyc)
		scribble(cyc)
		for pass := 0; pass < 2; pass++ {
			again, found2 := dc.Cycle()
			if found2 != found || !sameInts(again, keepCyc) {
				bad(i, "Cycle() answered %v,%v first and %v,%v when asked again", keepCyc, found, again, found2)
				break
			}
			scribble(again)
		}
		if !found {
			return "ok none"
		}
		return "ok " + ints(keepCyc)

	case "topo":
		t := r.t
		order, found := t.Order()
		want := !g.hasCycle()
		if found != want {
			bad(i, "Order() ok=%v but the graph is acyclic=%v", found, want)
		}
		*answered = true
		if !found {
			if _, ok := t.Rank(0); ok {
				bad(i, "Rank() ok=true although Order() ok=false")
			}
			return "ok none"
		}
		rank := make([]int, n)
		for v := 0; v < n; v++ {
			rank[v], _ = t.Rank(v)
		}
		if len(order) != n {
			bad(i, "Order() has %d entries for %d vertices", len(order), n)
		} else {
			for k, v := range order {
				if !valid(v) || rank[v] != k {
					bad(i, "Order() %v and Rank() %v are not inverse permutations", order, rank)
					break
				}
			}
			for _, e := range g.edges {
				if rank[e.u] >= rank[e.v] {
					bad(i, "edge %d->%d goes backwards in the order %v", e.u, e.v, order)
					break
				}
			}
		}
		out := "ok order=" + ints(order) + " rank=" + ints(rank)
		// aliasing: overwrite the returned order, ask again
		keepO := clone(order)
		scribble(order)
		for pass := 0; pass < 2; pass++ {
			again, found2 := t.Order()
			if !found2 || !sameInts(again, keepO) {
				bad(i, "Order() answered %v first and %v,%v after the caller overwrote the returned slice", keepO, again, found2)
				break
			}
			scribble(again)
		}
		for v := n - 1; v >= 0; v-- {
			if rk, _ := t.Rank(v); rk != rank[v] {
				bad(i, "Rank(%d) = %d first and %d when asked again", v, rank[v], rk)
				break
			}
		}
		return out

	case "mst":
		m := r.m
		es := m.Edges()
		wt := us(m.Weight())
		// oracle: spanning forest of the weight Kruskal finds
		avail := map[[3]int64]int{}
		for _, e := range g.edges {
			a, b := e.u, e.v
			if a > b {
				a, b = b, a
			}
			avail[[3]int64{int64(a), int64(b), e.w}]++
		}
		u := newUF(n)
		var sum int64
		var b strings.Builder
		wtS, exact := wstr(wt)
		if !exact {
			bad(i, "Weight() = %v is not an integer although all weights are", wt)
		}
		fmt.Fprintf(&b, "ok weight=%s edges=[", wtS)
		for k, e := range es {
			x := e.Either()
			y := e.Other(x)
			ws, exact := wstr(us(e.Weight()))
			if !exact {
				bad(i, "edge weight %v is not an integer", us(e.Weight()))
			}
			if k > 0 {
				b.WriteByte(' ')
			}
			fmt.Fprintf(&b, "%d-%d:%s", x, y, ws)
			a, c := x, y
			if a > c {
				a, c = c, a
			}
			key := [3]int64{int64(a), int64(c), int64(us(e.Weight()))}
			if avail[key] == 0 {
				bad(i, "MST edge %d-%d:%s is not an edge of the graph (or used more often than it occurs)", x, y, ws)
			} else {
				avail[key]--
			}
			if !valid(x) || !valid(y) || !u.union(x, y) {
				bad(i, "MST edges %v contain a cycle at %d-%d", es, x, y)
			}
			sum += int64(us(e.Weight()))
		}
		kw, kc := g.kruskal()
		if len(es) != kc {
			bad(i, "MST has %d edges, a spanning forest has %d", len(es), kc)
		} else if sum != kw {
			bad(i, "MST weight %d, minimum is %d (Kruskal)", sum, kw)
		}
		if int64(wt) != sum {
			bad(i, "Weight() = %v but the edges sum to %d", wt, sum)
		}
		*answered = true
		b.WriteString("] " + certText(n))
		// aliasing: overwrite the returned edge list, ask again
		keepE := append([]graph.UndirectedEdge(nil), es...)
		for k := range es {
			es[k] = graph.VerifUndirectedEdge(-1, -1, -1)
		}
		for pass := 0; pass < 2; pass++ {
			again := m.Edges()
			same := len(again) == len(keepE)
			for k := 0; same && k < len(again); k++ {
				same = again[k] == keepE[k]
			}
			if !same || us(m.Weight()) != wt {
				bad(i, "Edges()/Weight() = %v/%v first and %v/%v after the caller overwrote the returned slice", keepE, wt, again, us(m.Weight()))
				break
			}
			for k := range again {
				again[k] = graph.VerifUndirectedEdge(-2, -2, -2)
			}
		}
		return b.String()

	case "spt":
		t, s := r.spt, r.s
		want := g.shortest(s)
		avail := map[[3]int64]bool{}
		for _, e := range g.edges {
			avail[[3]int64{int64(e.u), int64(e.v), e.w}] = true
		}
		var lastPath []graph.DirectedEdge
		answer := func(v int) string {
			path, rawDist, found := t.PathTo(v)
			lastPath = path
			dist := us(rawDist)
			if found != (want[v] != inf) {
				bad(i, "PathTo(%d) ok=%v but reachable=%v", v, found, want[v] != inf)
				if !found {
					return "-"
				}
			}
			if !found {
				if rawDist != -1 || path != nil {
					bad(i, "PathTo(%d) = (%v, %v, false)", v, path, dist)
				}
				return "-"
			}
			ds, exact := wstr(dist)
			if !exact || int64(dist) != want[v] {
				bad(i, "PathTo(%d) distance %v, shortest is %d", v, dist, want[v])
			}
			var b strings.Builder
			b.WriteString(ds)
			b.WriteByte('[')
			at := s
			var sum int64
			for k, e := range path {
				ws, _ := wstr(us(e.Weight()))
				if k > 0 {
					b.WriteByte(' ')
				}
				fmt.Fprintf(&b, "%d>%d:%s", e.From(), e.To(), ws)
				if e.From() != at || !avail[[3]int64{int64(e.From()), int64(e.To()), int64(us(e.Weight()))}] {
					bad(i, "PathTo(%d): %d>%d:%s does not continue the path at %d or is not an edge", v, e.From(), e.To(), ws, at)
				}
				at = e.To()
				sum += int64(us(e.Weight()))
			}
			if at != v || sum != int64(dist) {
				bad(i, "PathTo(%d) ends at %d with weight %d, reported distance %v", v, at, sum, dist)
			}
			b.WriteByte(']')
			return b.String()
		}
		*answered = true
		if sel != nil {
			v := *sel
			if !valid(v) {
				*argOOR = true
				return outOfRange(func() { t.PathTo(v) })
			}
			first := answer(v)
			for k := range lastPath {
				lastPath[k] = graph.VerifDirectedEdge(-1, -1, -1)
			}
			if n > 0 {
				answer((v*7 + 3) % n)
				for k := range lastPath {
					lastPath[k] = graph.VerifDirectedEdge(-1, -1, -1)
				}
			}
			if again := answer(v); again != first {
				bad(i, "PathTo(%d) answered %s first and %s after the caller overwrote the returned slices", v, first, again)
			}
			return "ok " + first + " cert=true"
		}
		var b strings.Builder
		b.WriteString("ok ")
		keepA := make([]string, n)
		for v := 0; v < n; v++ {
			if v > 0 {
				b.WriteByte(' ')
			}
			b.WriteString(strconv.Itoa(v))
			b.WriteByte(':')
			keepA[v] = answer(v)
			b.WriteString(keepA[v])
			for k := range lastPath {
				lastPath[k] = graph.VerifDirectedEdge(-1, -1, -1)
			}
		}
		// the same ShortestPathTree value asked again, targets in another order
		for pass := 0; pass < 2; pass++ {
			for k := 0; k < n; k++ {
				v := n - 1 - k
				if pass == 1 {
					v = (k*5 + 2) % n
				}
				if again := answer(v); again != keepA[v] {
					bad(i, "PathTo(%d) answered %s first and %s when asked again (pass %d)", v, keepA[v], again, pass)
				}
				for k2 := range lastPath {
					lastPath[k2] = graph.VerifDirectedEdge(-1, -1, -1)
				}
			}
		}
		b.WriteString(" cert=true")
		return b.String()

	case "adjof":
		// The slice Adj(v) returned, read now.  What a slice handed out earlier shows after later AddEdge calls is not
		// part of C14's statement (the graph's own state is judged by `dump`/`adjof` on the live object), so this line
		// is compared with the Model only: in the Go code the slice header is a snapshot of the list at the call.
		l, isNil := r.adj()
		if isNil {
			return "ok nil"
		}
		return "ok " + g.showArcs(l)
	}
	return "bad-op"
}

func execOp(wl *world, f []string, i int, bad func(int, string, ...any), tags map[string]bool, argOOR *bool, answered *bool, wexp int) string {
	if len(f) == 0 {
		return "bad-op"
	}
	if len(wl.objs) == 0 {
		if ng := newGraph(f, wexp, i, bad, tags); ng != nil {
			wl.objs = append(wl.objs, ng)
			return "ok"
		}
		return "bad-op"
	}
	g := wl.objs[wl.cur]
	n := g.n
	if f[0] != "edge" && f[0] != "use" && f[0] != "mkrev" && f[0] != "ask" && f[0] != "new" && f[0] != "adjappend" {
		if len(g.edges) > g.edgesAtQuery && g.queried {
			tags["query-after-edge-after-query"] = true
		}
		g.queried = true
		g.edgesAtQuery = len(g.edges)
	}
	atoi := func(s string) (int, bool) { v, err := strconv.Atoi(s); return v, err == nil }
	valid := func(v int) bool { return v >= 0 && v < n }

	switch f[0] {
	case "edge":
		if (g.weighted() && len(f) != 4) || (!g.weighted() && len(f) != 3) {
			return "bad-op"
		}
		u, ok1 := atoi(f[1])
		v, ok2 := atoi(f[2])
		w, ok3 := 0, true
		if g.weighted() {
			w, ok3 = atoi(f[3])
		}
		if !ok1 || !ok2 || !ok3 {
			return "bad-op"
		}
		scaled := math.Ldexp(float64(w), g.wexp)
		if g.weighted() && valid(u) && valid(v) {
			g.admitWeight(w, i, bad)
		}
		switch g.kind {
		case "directed":
			g.d.AddEdge(u, v)
		case "undirected":
			g.u.AddEdge(u, v)
		case "wdirected":
			g.wd.AddEdge(graph.VerifDirectedEdge(u, v, scaled))
		case "wundirected":
			g.wu.AddEdge(graph.VerifUndirectedEdge(u, v, scaled))
		}
		if valid(u) && valid(v) {
			g.edges = append(g.edges, edge{u, v, int64(w)})
			g.invalidate()
			if w < 0 {
				g.neg = true
			}
			if g.queried {
				tags["edge-after-query"] = true
			}
			if g.ctorEdges {
				tags["addedge-after-ctor-with-edges"] = true
			}
		} else {
			tags["edge-out-of-range"] = true
		}
		return "ok"

	case "dump", "reverse", "mkrev", "use", "indeg", "outdeg", "degree", "adjof", "edges", "traverse", "adjappend":
		return execStateOp(wl, g, f, i, bad, tags)

	case "new":
		// NewX(n, edges…) of the same kind: a further object, unrelated to the others
		if len(f) < 2 {
			return "bad-op"
		}
		ng := newGraph(append([]string{"graph", g.kind}, f[1:]...), g.wexp, i, bad, tags)
		if ng == nil {
			return "bad-op"
		}
		wl.objs = append(wl.objs, ng)
		return "ok obj=" + strconv.Itoa(len(wl.objs)-1)

	case "paths", "orders", "cc", "scc", "cycle", "topo", "mst", "spt":
		// the result object is read at once and dropped
		r, out := compute(g, f, i, bad, tags, argOOR)
		if r == nil {
			return out
		}
		return render(r, nil, i, bad, tags, argOOR, answered)

	case "path", "sptto":
		// Paths(s).To(v) / ShortestPathTree(s).PathTo(v): one target
		if (f[0] == "path" && len(f) != 4) || (f[0] == "sptto" && len(f) != 3) {
			return "bad-op"
		}
		v, ok := atoi(f[len(f)-1])
		call := append([]string{"paths"}, f[1:len(f)-1]...)
		if f[0] == "sptto" {
			call[0] = "spt"
		}
		r, out := compute(g, call, i, bad, tags, argOOR)
		if r == nil {
			return out
		}
		if !ok {
			return "bad-op"
		}
		r.line = strings.Join(f, " ")
		return render(r, &v, i, bad, tags, argOOR, answered)

	case "keep":
		// the call is made now, the result object stays with the client for the rest of the case
		r, out := compute(g, f[1:], i, bad, tags, argOOR)
		if r == nil {
			if out == "ok unsupported-negative-weight" {
				wl.kept = append(wl.kept, &result{what: "hole"})
			}
			return out
		}
		r.g = g.snapshot()
		wl.kept = append(wl.kept, r)
		tags["keep-"+r.what] = true
		return "ok res=" + strconv.Itoa(len(wl.kept)-1)

	case "ask":
		if len(f) != 2 && len(f) != 3 {
			return "bad-op"
		}
		k, ok := atoi(f[1])
		if !ok || k < 0 || k >= len(wl.kept) || strings.HasPrefix(f[1], "+") {
			return "bad-op"
		}
		var sel *int
		if len(f) == 3 {
			v, ok := atoi(f[2])
			if !ok {
				return "bad-op"
			}
			sel = &v
		}
		r := wl.kept[k]
		if r.what == "hole" {
			return "ok unsupported-negative-weight"
		}
		if sel != nil && r.what != "paths" && r.what != "spt" {
			return "bad-op"
		}
		tags["ask-"+r.what] = true
		if len(r.src.edges) > len(r.g.edges) {
			tags["ask-after-addedge-on-its-graph"] = true
		}
		if k < len(wl.kept)-1 {
			tags["ask-after-later-result"] = true
		}
		if r.src != g {
			tags["ask-while-another-object-is-current"] = true
		}
		if r.asked > 0 {
			tags["ask-again"] = true
		}
		r.asked++
		return render(r, sel, i, bad, tags, argOOR, answered)
	}
	return "bad-op"
}

// ldexpNeg(x, k) = x / 2^k, exactly
func ldexpNeg(x float64, k int) float64 { return math.Ldexp(x, -k) }
