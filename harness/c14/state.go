package c14

import (
	"fmt"
	"sort"
	"strconv"
	"strings"

	"github.com/moorara/algo/graph"
)

// The state of a graph object as its accessors show it (V, E, Adj, InDegree, OutDegree/Degree, Edges), the derived
// object Reverse(), and the ops that keep several objects alive in one case.
//
// Oracle (independent of /repo): the expected adjacency is computed from the list of valid `edge` lines of the
// object.  What the property needs is that the object holds exactly those edges (as a multiset per vertex), so
// that is all the oracle demands; the order inside Adj(v) is part of the exact line compared with the Model.

// arc is one adjacency entry: the neighbour and the stored edge (a, b, w); for the unweighted kinds w = 0
type arc struct {
	to, a, b int
	w        int64
}

type objState struct {
	v, e  int
	adj   [][]arc
	isNil []bool // Adj(v) returned nil
	ins   []int  // directed kinds
	outs  []int  // OutDegree / Degree
}

func (g *gobj) unscale(x float64, i int, bad func(int, string, ...any)) int64 {
	ws, exact := wstr(ldexpNeg(x, g.wexp))
	if !exact {
		bad(i, "weight %v read back from the graph is not one of the integer weights * 2^%d", x, g.wexp)
	}
	k, _ := strconv.ParseInt(ws, 10, 64)
	return k
}

// adjOf reads Adj(v) of the object through the public API
func (g *gobj) adjOf(v int, i int, bad func(int, string, ...any)) ([]arc, bool) {
	var out []arc
	switch g.kind {
	case "directed":
		l := g.d.Adj(v)
		for _, w := range l {
			out = append(out, arc{w, 0, 0, 0})
		}
		return out, l == nil
	case "undirected":
		l := g.u.Adj(v)
		for _, w := range l {
			out = append(out, arc{w, 0, 0, 0})
		}
		return out, l == nil
	case "wdirected":
		l := g.wd.Adj(v)
		for _, e := range l {
			out = append(out, arc{e.To(), e.From(), e.To(), g.unscale(e.Weight(), i, bad)})
		}
		return out, l == nil
	default:
		l := g.wu.Adj(v)
		for _, e := range l {
			a := e.Either()
			out = append(out, arc{e.Other(v), a, e.Other(a), g.unscale(e.Weight(), i, bad)})
		}
		return out, l == nil
	}
}

func (g *gobj) vCount() int {
	switch g.kind {
	case "directed":
		return g.d.V()
	case "undirected":
		return g.u.V()
	case "wdirected":
		return g.wd.V()
	default:
		return g.wu.V()
	}
}

func (g *gobj) eCount() int {
	switch g.kind {
	case "directed":
		return g.d.E()
	case "undirected":
		return g.u.E()
	case "wdirected":
		return g.wd.E()
	default:
		return g.wu.E()
	}
}

func (g *gobj) inDeg(v int) int {
	if g.kind == "directed" {
		return g.d.InDegree(v)
	}
	return g.wd.InDegree(v)
}

func (g *gobj) outDeg(v int) int {
	switch g.kind {
	case "directed":
		return g.d.OutDegree(v)
	case "undirected":
		return g.u.Degree(v)
	case "wdirected":
		return g.wd.OutDegree(v)
	default:
		return g.wu.Degree(v)
	}
}

func (g *gobj) readState(i int, bad func(int, string, ...any)) objState {
	st := objState{v: g.vCount(), e: g.eCount()}
	for v := 0; v < st.v; v++ {
		l, isNil := g.adjOf(v, i, bad)
		st.adj = append(st.adj, l)
		st.isNil = append(st.isNil, isNil)
		st.outs = append(st.outs, g.outDeg(v))
		if g.directed() {
			st.ins = append(st.ins, g.inDeg(v))
		}
	}
	return st
}

func (g *gobj) showArc(x arc) string {
	switch g.kind {
	case "directed", "undirected":
		return strconv.Itoa(x.to)
	case "wdirected":
		return fmt.Sprintf("%d>%d:%d", x.a, x.b, x.w)
	default:
		return fmt.Sprintf("%d:%d-%d:%d", x.to, x.a, x.b, x.w)
	}
}

func (g *gobj) showArcs(l []arc) string {
	parts := make([]string, len(l))
	for k, x := range l {
		parts[k] = g.showArc(x)
	}
	return "[" + strings.Join(parts, " ") + "]"
}

// same format as showObj of Driver/C14.lean
func (g *gobj) showState(st objState) string {
	var b strings.Builder
	fmt.Fprintf(&b, "v=%d e=%d adj=", st.v, st.e)
	for v, l := range st.adj {
		if v > 0 {
			b.WriteByte(' ')
		}
		fmt.Fprintf(&b, "%d:%s", v, g.showArcs(l))
	}
	if g.directed() {
		b.WriteString(" ins=" + ints(st.ins))
	}
	return b.String()
}

// wantAdj: the adjacency entries the valid edge lines of the object call for, per vertex, in insertion order
func (g *gobj) wantAdj() [][]arc {
	if g.wadj != nil {
		return g.wadj
	}
	adj := make([][]arc, g.n)
	for _, e := range g.edges {
		a, b := e.u, e.v
		if !g.weighted() {
			a, b = 0, 0 // the unweighted kinds store the neighbour only
		}
		adj[e.u] = append(adj[e.u], arc{e.v, a, b, e.w})
		if !g.directed() {
			adj[e.v] = append(adj[e.v], arc{e.u, a, b, e.w})
		}
	}
	g.wadj = adj
	return adj
}

func (g *gobj) wantAdjOf(v int) []arc {
	if v < 0 || v >= g.n {
		return nil
	}
	return g.wantAdj()[v]
}

func sortedArcs(l []arc) []arc {
	c := append([]arc(nil), l...)
	sort.Slice(c, func(i, j int) bool {
		x, y := c[i], c[j]
		if x.to != y.to {
			return x.to < y.to
		}
		if x.a != y.a {
			return x.a < y.a
		}
		if x.b != y.b {
			return x.b < y.b
		}
		return x.w < y.w
	})
	return c
}

// checkState: the object holds exactly the edges of its `edge` lines (what = "graph" or "Reverse()")
func (g *gobj) checkState(st objState, what string, i int, bad func(int, string, ...any)) {
	if st.v != g.n {
		bad(i, "%s: V() = %d, the graph was created with %d vertices", what, st.v, g.n)
		return
	}
	if st.e != len(g.edges) {
		bad(i, "%s: E() = %d after %d edges between valid vertices", what, st.e, len(g.edges))
	}
	want := g.wantAdj()
	indeg := make([]int, g.n)
	for _, e := range g.edges {
		indeg[e.v]++
	}
	for v := 0; v < g.n; v++ {
		got, exp := sortedArcs(st.adj[v]), sortedArcs(want[v])
		same := len(got) == len(exp)
		for k := 0; same && k < len(got); k++ {
			same = got[k] == exp[k]
		}
		if !same {
			bad(i, "%s: Adj(%d) = %s, the edges added so far call for %s (in some order)", what, v, g.showArcs(st.adj[v]), g.showArcs(want[v]))
			return
		}
		if st.isNil[v] {
			bad(i, "%s: Adj(%d) = nil for a valid vertex", what, v)
		}
		if st.outs[v] != len(exp) {
			bad(i, "%s: degree of %d reported as %d, it has %d adjacency entries", what, v, st.outs[v], len(exp))
		}
		if g.directed() && st.ins[v] != indeg[v] {
			bad(i, "%s: InDegree(%d) = %d, %d edges added so far point to it", what, v, st.ins[v], indeg[v])
		}
	}
}

// flippedEdges: the edge lines of the graph Reverse() must return — every edge turned around.  The order is the
// one the adjacency lists give (by tail vertex, then insertion order); the oracle only uses the multiset.
func (g *gobj) flippedEdges() []edge {
	var out []edge
	for v := 0; v < g.n; v++ {
		for _, e := range g.edges {
			if e.u == v {
				out = append(out, edge{e.v, e.u, e.w})
			}
		}
	}
	return out
}

// reversed calls Reverse() and wraps the result as a further object with the edge list the oracle expects
func (g *gobj) reversed() *gobj {
	r := &gobj{kind: g.kind, n: g.n, wexp: g.wexp, neg: g.neg, absSum: g.absSum, edges: g.flippedEdges()}
	if g.kind == "directed" {
		r.d = g.d.Reverse()
	} else {
		r.wd = g.wd.Reverse()
	}
	return r
}

func execStateOp(wl *world, g *gobj, f []string, i int, bad func(int, string, ...any), tags map[string]bool) string {
	atoi := func(s string) (int, bool) { v, err := strconv.Atoi(s); return v, err == nil }
	valid := func(v int) bool { return v >= 0 && v < g.n }
	tags[f[0]] = true
	switch f[0] {
	case "dump":
		if len(f) != 1 {
			return "bad-op"
		}
		st := g.readState(i, bad)
		g.checkState(st, "graph", i, bad)
		return "ok " + g.showState(st)

	case "reverse":
		if len(f) != 1 || !g.directed() {
			return "bad-op"
		}
		r := g.reversed()
		st := r.readState(i, bad)
		r.checkState(st, "Reverse()", i, bad)
		return "ok " + r.showState(st)

	case "mkrev":
		if len(f) != 1 || !g.directed() {
			return "bad-op"
		}
		r := g.reversed()
		r.checkState(r.readState(i, bad), "Reverse()", i, bad)
		wl.objs = append(wl.objs, r)
		return "ok obj=" + strconv.Itoa(len(wl.objs)-1)

	case "use":
		if len(f) != 2 {
			return "bad-op"
		}
		k, ok := atoi(f[1])
		if !ok || k < 0 || k >= len(wl.objs) {
			return "bad-op"
		}
		wl.cur = k
		return "ok"

	case "indeg", "outdeg", "degree":
		if len(f) != 2 || (f[0] == "indeg" && !g.directed()) || (f[0] == "outdeg" && !g.directed()) || (f[0] == "degree" && g.directed()) {
			return "bad-op"
		}
		v, ok := atoi(f[1])
		if !ok {
			return "bad-op"
		}
		var got, want int
		if f[0] == "indeg" {
			got = g.inDeg(v)
			for _, e := range g.edges {
				if e.v == v {
					want++
				}
			}
		} else {
			got = g.outDeg(v)
			if valid(v) {
				want = len(g.wantAdj()[v])
			}
		}
		if !valid(v) {
			want = -1
			tags["accessor-out-of-range"] = true
		}
		if got != want {
			bad(i, "%s(%d) = %d, the edges added so far give %d", f[0], v, got, want)
		}
		return "ok " + strconv.Itoa(got)

	case "adjof":
		if len(f) != 2 {
			return "bad-op"
		}
		v, ok := atoi(f[1])
		if !ok {
			return "bad-op"
		}
		l, isNil := g.adjOf(v, i, bad)
		if !valid(v) {
			tags["accessor-out-of-range"] = true
			if !isNil || len(l) != 0 {
				bad(i, "Adj(%d) = %s for a vertex outside the graph (nil expected)", v, g.showArcs(l))
			}
		} else {
			got, exp := sortedArcs(l), sortedArcs(g.wantAdj()[v])
			same := len(got) == len(exp) && !isNil
			for k := 0; same && k < len(got); k++ {
				same = got[k] == exp[k]
			}
			if !same {
				bad(i, "Adj(%d) = %s (nil=%v), the edges added so far call for %s (in some order)", v, g.showArcs(l), isNil, g.showArcs(exp))
			}
		}
		if isNil {
			return "ok nil"
		}
		return "ok " + g.showArcs(l)

	case "adjappend":
		// The caller appends to the slice Adj(v) returned (it never writes inside the slice: Adj hands out the graph's
		// own list, and what happens to a graph whose list the caller edits is nobody's promise).  An append writes
		// behind the slice's length — into spare capacity of the list, if there is any — and must not change what the
		// graph holds, for this vertex or any other.
		if len(f) != 2 {
			return "bad-op"
		}
		v, ok := atoi(f[1])
		if !ok {
			return "bad-op"
		}
		switch g.kind {
		case "directed":
			l := g.d.Adj(v)
			l = append(l, -7, -8)
			_ = l
		case "undirected":
			l := g.u.Adj(v)
			l = append(l, -7, -8)
			_ = l
		case "wdirected":
			l := g.wd.Adj(v)
			l = append(l, graph.VerifDirectedEdge(-7, -7, -7), graph.VerifDirectedEdge(-8, -8, -8))
			_ = l
		default:
			l := g.wu.Adj(v)
			l = append(l, graph.VerifUndirectedEdge(-7, -7, -7), graph.VerifUndirectedEdge(-8, -8, -8))
			_ = l
		}
		g.checkState(g.readState(i, bad), "graph after the caller appended to the slice Adj returned", i, bad)
		return "ok"

	case "traverse":
		// Traverse with caller-supplied visitors: every callback is logged; from callback number `stop` (counted from
		// 0) on the visitors answer false.  Oracle (property level): nothing is visited twice, only
		// vertices reachable from s are visited, every reported edge is an edge of the graph, and without a stop the
		// traversal visits (pre and post) exactly the vertices reachable from s.
		if len(f) != 4 {
			return "bad-op"
		}
		strat, ok := parseStrat(f[1])
		s, ok2 := atoi(f[2])
		stop := -1
		if f[3] != "all" {
			k, ok3 := atoi(f[3])
			if !ok3 || k < 0 {
				return "bad-op"
			}
			stop = k
		}
		if !ok || !ok2 {
			return "bad-op"
		}
		tags["traverse-"+f[1]] = true
		var events []string
		calls := 0
		pre, post := map[int]int{}, map[int]int{}
		callsAfterStop := false
		stopped := false
		answer := func() bool { // as logVisitors of Model/C14S.lean: true `stop` times, false from then on
			if stopped {
				callsAfterStop = true
				return false
			}
			calls++
			if stop >= 0 && calls-1 == stop {
				stopped = true
				return false
			}
			return true
		}
		var reach []bool
		if valid(s) {
			reach = make([]bool, g.n)
			for v, d := range g.bfsDist(s) {
				reach[v] = d >= 0
			}
		}
		vis := &graph.Visitors{
			VertexPreOrder: func(v int) bool {
				events = append(events, "pre:"+strconv.Itoa(v))
				pre[v]++
				if !valid(s) || !valid(v) || !reach[v] {
					bad(i, "Traverse from %d visits %d, which is not reachable", s, v)
				}
				return answer()
			},
			VertexPostOrder: func(v int) bool {
				events = append(events, "post:"+strconv.Itoa(v))
				post[v]++
				return answer()
			},
			EdgePreOrder: func(v, w int, wt float64) bool {
				k := g.unscale(wt, i, bad)
				events = append(events, fmt.Sprintf("edge:%d>%d:%d", v, w, k))
				found := false
				for _, x := range g.wantAdjOf(v) {
					if x.to == w && x.w == k {
						found = true
					}
				}
				if !found {
					bad(i, "Traverse reports the edge %d>%d:%d, which the graph does not have", v, w, k)
				}
				return answer()
			},
		}
		switch g.kind {
		case "directed":
			g.d.Traverse(s, strat, vis)
		case "undirected":
			g.u.Traverse(s, strat, vis)
		case "wdirected":
			g.wd.Traverse(s, strat, vis)
		default:
			g.wu.Traverse(s, strat, vis)
		}
		if callsAfterStop {
			// The recursive traverseDFS returns from the frame whose visitor said false, and its callers go on with
			// their loops (each makes one more callback before it returns too).  The comment on graph.Visitors says
			// the traversal "will immediately stop"; C14 says nothing about Traverse, so this is recorded, not judged.
			tags["traverse-callbacks-after-false"] = true
		}
		for v, c := range pre {
			if c > 1 || post[v] > 1 {
				bad(i, "Traverse visits %d more than once", v)
			}
		}
		if !stopped && valid(s) {
			tags["traverse-complete"] = true
			for v := 0; v < g.n; v++ {
				if reach[v] != (pre[v] == 1) || reach[v] != (post[v] == 1) {
					bad(i, "Traverse from %d: vertex %d reachable=%v, pre-visits %d, post-visits %d", s, v, reach[v], pre[v], post[v])
					break
				}
			}
		}
		if stopped {
			tags["traverse-stopped"] = true
		}
		return "ok " + strings.Join(events, " ")

	case "edges":
		if len(f) != 1 || !g.weighted() {
			return "bad-op"
		}
		var got []arc
		var parts []string
		if g.kind == "wdirected" {
			for _, e := range g.wd.Edges() {
				x := arc{e.To(), e.From(), e.To(), g.unscale(e.Weight(), i, bad)}
				got = append(got, x)
				parts = append(parts, fmt.Sprintf("%d>%d:%d", x.a, x.b, x.w))
			}
		} else {
			for _, e := range g.wu.Edges() {
				a := e.Either()
				x := arc{0, a, e.Other(a), g.unscale(e.Weight(), i, bad)}
				parts = append(parts, fmt.Sprintf("%d-%d:%d", x.a, x.b, x.w))
				if x.a > x.b {
					x.a, x.b = x.b, x.a
				}
				got = append(got, x)
			}
		}
		// every edge between two distinct vertices is listed exactly once (WeightedUndirected.Edges leaves out
		// self-loops, WeightedDirected.Edges lists them: neither matters to the property, so they are not judged)
		var want []arc
		for _, e := range g.edges {
			x := arc{0, e.u, e.v, e.w}
			if g.kind == "wdirected" {
				x.to = e.v
			} else if x.a > x.b {
				x.a, x.b = x.b, x.a
			}
			want = append(want, x)
		}
		noLoops := func(l []arc) []arc {
			var out []arc
			for _, x := range l {
				if x.a != x.b {
					out = append(out, x)
				}
			}
			return sortedArcs(out)
		}
		gs, ws := noLoops(got), noLoops(want)
		same := len(gs) == len(ws)
		for k := 0; same && k < len(gs); k++ {
			same = gs[k] == ws[k]
		}
		if !same {
			bad(i, "Edges() = [%s] does not list every edge between distinct vertices exactly once", strings.Join(parts, " "))
		}
		// the caller overwrites the slice it was given and asks again
		line := func() string {
			var ps []string
			if g.kind == "wdirected" {
				l := g.wd.Edges()
				for _, e := range l {
					ps = append(ps, fmt.Sprintf("%d>%d:%d", e.From(), e.To(), g.unscale(e.Weight(), i, bad)))
				}
				for k := range l {
					l[k] = graph.VerifDirectedEdge(-1, -1, -1)
				}
			} else {
				l := g.wu.Edges()
				for _, e := range l {
					a := e.Either()
					ps = append(ps, fmt.Sprintf("%d-%d:%d", a, e.Other(a), g.unscale(e.Weight(), i, bad)))
				}
				for k := range l {
					l[k] = graph.VerifUndirectedEdge(-1, -1, -1)
				}
			}
			return strings.Join(ps, " ")
		}
		first := strings.Join(parts, " ")
		for pass := 0; pass < 2; pass++ {
			if again := line(); again != first {
				bad(i, "Edges() = [%s] first and [%s] after the caller overwrote the returned slice", first, again)
				break
			}
		}
		return "ok [" + first + "]"
	}
	return "bad-op"
}
