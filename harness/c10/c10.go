// Package c10: nullable / FIRST / FOLLOW / IsLL1 / predictive parsing table (C10) and the executor
// shared with C12 (predictive parser), run on the real grammar and parser/predictive packages and
// judged by an independent oracle (left-corner reachability, follow-graph reachability, the exact
// bounded language of gx, brute-force enumeration of bounded sentential forms).
package c10

import (
	"errors"
	"fmt"
	"io"
	"sort"
	"strconv"
	"strings"
	"time"

	"github.com/moorara/algo/generic"
	"github.com/moorara/algo/grammar"
	"github.com/moorara/algo/hash"
	"github.com/moorara/algo/lexer"
	"github.com/moorara/algo/parser"
	"github.com/moorara/algo/parser/predictive"
	"github.com/moorara/algo/set"
	"github.com/moorara/algo/symboltable"

	"verifharness/gx"
	"verifharness/hx"
)

const Rule = "cases = (grammar, iteration-shuffle seed, queries) drawn from VERIF_SEED: random valid grammars " +
	"(<=5 non-terminals, <=3 terminals, bodies <=4) from five mixes (default, epsilon-heavy chains, unit/left-recursive, " +
	"with unreachable and unproductive non-terminals, near-LL(1)); queries: nullable, FIRST of every symbol string of " +
	"length <=3 (sampled above 160 strings), FOLLOW of every non-terminal, ll1, table, unchanged; plus three families: " +
	"bodies with a repeated non-terminal, epsilon-chains of depth 3-6 each run under 12 iteration orders, and cases that change " +
	"the same *CFG object in place (prod/unprod lines between rounds of queries); plus: grammars broken in each of nine ways " +
	"(every error branch of Verify(), the shapes on which ComputeFIRST / ComputeFOLLOW / the FIRST closure dereference a nil " +
	"table lookup) with `verify` and the analyses run all the same (`!query`, shuffled so that each gets to be the one that " +
	"panics; judged against the Model only), caught panics of the FIRST closure followed by the same query (answered from its " +
	"memo table), IsEmpty / IsSync / GetProduction on every cell incl. rows and columns that do not exist, FOLLOW of an " +
	"undeclared non-terminal, every other grammar with a terminal named like a non-terminal; symbol NAMES are a dimension: " +
	"two cases out of five of every family have their symbols renamed into one of seven name schemes (names that are " +
	"concatenations of other names, identifiers with shared prefixes/suffixes, non-terminals named like the written form of " +
	"terminals and like terminals, the reserved suffixes, the empty name / epsilon / $ / names with spaces, tabs and the " +
	"protocol's own markers, names that join with a space to other names, upper-case terminals), and a family builds grammars in which two different strings of symbols " +
	"that the library writes (WriteString, what it hashes) or renders (String()) alike both occur as bodies and behind non-terminals and are both " +
	"asked of one FIRST closure, in either order; plus (hardening round) ONE GRAMMAR OBJECT OVER TIME: histories of in-place " +
	"edits of every kind the API allows (Productions.Add/Remove/RemoveAll, Add/Remove on the set Productions.Get returns or " +
	"AllByHead yields, p.Body assigned / one symbol of it written through the pointer of a production inside the grammar, " +
	"Terminals/NonTerminals Add/Remove incl. one out and one in, Start assigned, a field replaced by its clone) with rounds " +
	"of queries between them; KEPT OBJECTS: a FIRST closure, a FOLLOW function, a parsing table made at one time and asked " +
	"after edits (judged by the oracle of the grammar they were made from) and a parser object re-used after edits (judged " +
	"by the grammar as it is); SIZE THRESHOLDS: grammars large in one dimension and small in all others - 63/64/65/66/130/257 " +
	"(thorough: 1..1025) terminals with the ones that sort last beginning derivations and colliding, as many non-terminals in " +
	"a chain, alternatives of one head, symbols of one body - queried at both ends, grown past the size and shrunk back; " +
	"FIRST asked through ONE buffer of the caller that is overwritten with the next string (firstbuf); the lexer of cases " +
	"with parses ends its input in one of seven ways (header eof=); (second hardening round) EXACTLY ONE LL(1) VIOLATION " +
	"(FIRST/FIRST, FIRST/FOLLOW through A -> eps, FIRST/FOLLOW through a nullable non-terminal body A -> B, or none) in a head " +
	"with m alternatives for EVERY m from 2 to 40 and m = 63..66, 130, 257, the offending alternative early / in the middle / " +
	"late in the sort order of the productions: IsLL1's verdict against the table's conflicts and the oracle; SAME-BUCKET NAMES: " +
	"small grammars whose 17-23 (35-40) symbols / non-terminals / terminals all start at ONE slot of the library's 31-slot " +
	"(67-slot) quadratic-probing tables, the names found by asking the library's own tables (SameBucketNames); with an " +
	"enlarged budget every number of non-terminals and terminals from 1 to 200; every op on a grammar with >= 16 symbols runs " +
	"under a watchdog of 8 s; non-trivial = the grammar " +
	"has a nullable non-terminal, a left-corner cycle, or an unreachable/unproductive non-terminal; distinct = distinct (header, op list)"

// ---------------------------------------------------------------- independent oracle

type strset = map[string]bool

type Oracle struct {
	G         gx.G
	Nullable  strset
	first     map[string]strset // non-terminal -> terminals (left-corner reachability)
	follow    map[string]strset // non-terminal -> terminals (follow-graph reachability)
	followEnd strset
	Reach     strset
	Prod      strset
	AllReach  bool
	Reduced   bool
	byHead    map[string][]gx.P // the productions of each head, in the order of G.Prods
}

func (o *Oracle) nullableStr(body []string) bool {
	for _, s := range body {
		if !o.G.IsNonTerm(s) || !o.Nullable[s] {
			return false
		}
	}
	return true
}

// FirstStr: terminals that can begin a string derived from body, and whether body derives ε.
func (o *Oracle) FirstStr(body []string) (strset, bool) {
	out := strset{}
	for _, s := range body {
		if !o.G.IsNonTerm(s) {
			out[s] = true
			return out, false
		}
		for t := range o.first[s] {
			out[t] = true
		}
		if !o.Nullable[s] {
			return out, false
		}
	}
	return out, true
}

func NewOracle(g gx.G) *Oracle {
	o := &Oracle{G: g, Nullable: g.Nullable(), Reach: g.Reachable(), Prod: g.Productive(), byHead: map[string][]gx.P{}}
	for _, p := range g.Prods {
		o.byHead[p.Head] = append(o.byHead[p.Head], p)
	}
	o.AllReach, o.Reduced = true, true
	for _, n := range g.NonTerms {
		if !o.Reach[n] {
			o.AllReach, o.Reduced = false, false
		}
		if !o.Prod[n] {
			o.Reduced = false
		}
	}
	// left-corner graph: X -> Y when X -> α Y β with α nullable
	lc := map[string][]string{}
	for _, p := range g.Prods {
		for _, y := range p.Body {
			lc[p.Head] = append(lc[p.Head], y)
			if !g.IsNonTerm(y) || !o.Nullable[y] {
				break
			}
		}
	}
	o.first = map[string]strset{}
	for _, n := range g.NonTerms {
		seen := strset{n: true}
		stack := []string{n}
		ts := strset{}
		for len(stack) > 0 {
			x := stack[len(stack)-1]
			stack = stack[:len(stack)-1]
			for _, y := range lc[x] {
				if !g.IsNonTerm(y) {
					ts[y] = true
				} else if !seen[y] {
					seen[y] = true
					stack = append(stack, y)
				}
			}
		}
		o.first[n] = ts
	}
	// follow graph: base(B) ⊇ FIRST(β) for A -> α B β ; edge A -> B when β is nullable ; $ ∈ base(S)
	base := map[string]strset{}
	baseEnd := strset{g.Start: true}
	edges := map[string][]string{}
	for _, n := range g.NonTerms {
		base[n] = strset{}
	}
	for _, p := range g.Prods {
		for i, b := range p.Body {
			if !g.IsNonTerm(b) {
				continue
			}
			f, eps := o.FirstStr(p.Body[i+1:])
			if base[b] == nil {
				base[b] = strset{}
			}
			for t := range f {
				base[b][t] = true
			}
			if eps {
				edges[p.Head] = append(edges[p.Head], b)
			}
		}
	}
	o.follow = map[string]strset{}
	o.followEnd = strset{}
	for _, n := range g.NonTerms {
		o.follow[n] = strset{}
	}
	for _, a := range g.NonTerms { // push base(a) to everything reachable from a
		seen := strset{a: true}
		stack := []string{a}
		for len(stack) > 0 {
			x := stack[len(stack)-1]
			stack = stack[:len(stack)-1]
			for t := range base[a] {
				o.follow[x][t] = true
			}
			if baseEnd[a] {
				o.followEnd[x] = true
			}
			for _, y := range edges[x] {
				if !seen[y] {
					seen[y] = true
					stack = append(stack, y)
				}
			}
		}
	}
	return o
}

// CellCount: number of productions the textbook construction puts into M[A,a] (a == "$": endmarker).
func (o *Oracle) Cell(A, a string) []string {
	var ps []string
	for _, p := range o.byHead[A] {
		f, eps := o.FirstStr(p.Body)
		in := false
		if a == "$" {
			in = eps && o.followEnd[A]
		} else {
			in = f[a] || (eps && o.follow[A][a])
		}
		if in {
			ps = append(ps, prodKey(p.Head, p.Body))
		}
	}
	sort.Strings(ps)
	return ps
}

func (o *Oracle) ConflictFree() bool {
	for _, n := range o.G.NonTerms {
		for _, t := range append(append([]string{}, o.G.Terms...), "$") {
			if len(o.Cell(n, t)) > 1 {
				return false
			}
		}
	}
	return true
}

// restricted returns the sub-grammar of the reachable non-terminals.
func restricted(g gx.G, reach strset) gx.G {
	r := gx.G{Terms: g.Terms, Start: g.Start}
	for _, n := range g.NonTerms {
		if reach[n] {
			r.NonTerms = append(r.NonTerms, n)
		}
	}
	for _, p := range g.Prods {
		if reach[p.Head] {
			r.Prods = append(r.Prods, p)
		}
	}
	return r
}

// ---------------------------------------------------------------- brute force: bounded sentential forms

// Brute enumerates the sentential forms of length <= maxLen derivable from start (any rewriting
// order), at most maxForms of them. complete=false when the cap was hit.
func Brute(g gx.G, start []string, maxLen, maxForms int) (forms [][]string, complete bool) {
	key := func(f []string) string { return strings.Join(f, " ") }
	seen := map[string]bool{key(start): true}
	queue := [][]string{start}
	byHead := map[string][][]string{}
	for _, p := range g.Prods {
		byHead[p.Head] = append(byHead[p.Head], p.Body)
	}
	complete = true
	for len(queue) > 0 {
		f := queue[0]
		queue = queue[1:]
		forms = append(forms, f)
		for i, s := range f {
			if !g.IsNonTerm(s) {
				continue
			}
			for _, body := range byHead[s] {
				if len(f)-1+len(body) > maxLen {
					continue
				}
				nf := make([]string, 0, len(f)-1+len(body))
				nf = append(nf, f[:i]...)
				nf = append(nf, body...)
				nf = append(nf, f[i+1:]...)
				k := key(nf)
				if !seen[k] {
					if len(seen) >= maxForms {
						complete = false
						continue
					}
					seen[k] = true
					queue = append(queue, nf)
				}
			}
		}
	}
	return forms, complete
}

// ---------------------------------------------------------------- rendering (byte-identical to Driver/C10.lean)

func showSet(m strset) string {
	return "{" + strings.Join(hx.SortedKeys(m), ",") + "}"
}

func showBody(b []string) string {
	if len(b) == 0 {
		return "ε"
	}
	return strings.Join(b, " ")
}

func prodKey(h string, b []string) string { return h + "→" + showBody(b) }

// Names.  The library tells Terminal("S") and NonTerminal("S") apart by type and accepts ANY Go string as a name; the
// line protocol has words.  A word is [marker] + EncName(name):
//   - the marker ' says terminal, ^ says non-terminal (declared or not: malformed grammars); without marker the word is a
//     non-terminal iff it is listed in `nonterms`.  The canonical form (case files, printed answers on both sides) writes '
//     exactly when the bare word is a declared non-terminal, and ^ only for undeclared non-terminals;
//   - EncName writes the empty name as %, and as %XX (upper-case hex, byte by byte) every byte <= 0x20, 0x7F, '%', the
//     arrow → (it separates head and body in rendered productions), a leading ' or ^, and all bytes of the names "$" (the
//     bare word $ is the endmarker) and "ε" (rendered empty body); everything else is written as it is.  DecName undoes
//     it.  The Lean driver decodes words the same way (Driver/C10.lean: decName / encName), so the Model runs on the real
//     names (orders by name: OrderTerminals, OrderNonTerminals, cmpProduction) and both sides print canonical words.

const Q = "'"

// EncName is the canonical word of a name.
func EncName(s string) string {
	if s == "" {
		return "%"
	}
	all := s == "$" || s == "ε"
	var b strings.Builder
	for i := 0; i < len(s); {
		if strings.HasPrefix(s[i:], "→") {
			b.WriteString("%E2%86%92")
			i += len("→")
			continue
		}
		c := s[i]
		if all || c <= 0x20 || c == 0x7f || c == '%' || (i == 0 && (c == '\'' || c == '^')) {
			fmt.Fprintf(&b, "%%%02X", c)
		} else {
			b.WriteByte(c)
		}
		i++
	}
	return b.String()
}

func hexVal(c byte) int {
	switch {
	case c >= '0' && c <= '9':
		return int(c - '0')
	case c >= 'A' && c <= 'F':
		return int(c-'A') + 10
	case c >= 'a' && c <= 'f':
		return int(c-'a') + 10
	}
	return -1
}

// DecName is the name a word (without marker) stands for.
func DecName(w string) string {
	if w == "%" {
		return ""
	}
	if !strings.Contains(w, "%") {
		return w
	}
	b := make([]byte, 0, len(w))
	for i := 0; i < len(w); i++ {
		if w[i] == '%' && i+2 < len(w) && hexVal(w[i+1]) >= 0 && hexVal(w[i+2]) >= 0 {
			b = append(b, byte(hexVal(w[i+1])*16+hexVal(w[i+2])))
			i += 2
			continue
		}
		b = append(b, w[i])
	}
	return string(b)
}

// CanonWord rewrites a word of a case file into its canonical form (the bare word $ is the endmarker and stays).
func CanonWord(w string) string {
	switch {
	case w == "$":
		return w
	case strings.HasPrefix(w, Q):
		return Q + EncName(DecName(w[1:]))
	case strings.HasPrefix(w, "^"):
		return "^" + EncName(DecName(w[1:]))
	}
	return EncName(DecName(w))
}

// Bare is the name of the terminal a word stands for.
func Bare(w string) string { return DecName(strings.TrimPrefix(w, Q)) }

// NT is the non-terminal a word (with or without ^) stands for.
func NT(w string) grammar.NonTerminal {
	return grammar.NonTerminal(DecName(strings.TrimPrefix(w, "^")))
}

// ntWord is the canonical word of a non-terminal.
func ntWord(n grammar.NonTerminal) string { return EncName(string(n)) }

// pr renders library values with the names of the case file.
type pr struct{ g *gx.G }

func (n pr) term(t grammar.Terminal) string {
	w := EncName(string(t))
	if n.g.IsNonTerm(w) {
		return Q + w
	}
	return w
}

// symOf turns a word of the case file into a symbol.
func (n pr) symOf(w string) grammar.Symbol {
	switch {
	case strings.HasPrefix(w, "^"):
		return NT(w)
	case strings.HasPrefix(w, Q):
		return grammar.Terminal(Bare(w))
	case n.g.IsNonTerm(w):
		return NT(w)
	}
	return grammar.Terminal(Bare(w))
}

func (n pr) symNames(s grammar.String[grammar.Symbol]) []string {
	out := make([]string, len(s))
	for i, x := range s {
		out[i] = n.symName(x)
	}
	return out
}

func (n pr) symName(x grammar.Symbol) string {
	switch v := x.(type) {
	case grammar.Terminal:
		return n.term(v)
	case grammar.NonTerminal:
		return ntWord(v)
	}
	return "?"
}

func (n pr) prodKeyOf(p *grammar.Production) string {
	if p == nil {
		return "<nil>"
	}
	return prodKey(ntWord(p.Head), n.symNames(p.Body))
}

func (n pr) termSet(s set.Set[grammar.Terminal]) strset {
	m := strset{}
	for t := range s.All() {
		m[n.term(t)] = true
	}
	return m
}

// sliceLexer hands out the tokens of a case line; its call number failAt (counting from 0) answers failErr instead
// (failErr == nil: never).  How it says that the input is over is the `eof=` key of the case header (EOFKinds): the
// Lexer interface only asks for an error, and the parser recognises the end by errors.Is(err, io.EOF), so every kind
// means "these tokens, then the end" — the Model sees the token list and nothing else.
type sliceLexer struct {
	toks    []string
	i       int
	failAt  int
	failErr error
	eof     string
	junk    grammar.Terminal // the token handed out together with the end-of-input error by the kinds junk*
}

// kept is an object that lives across operations: a FIRST closure, a FOLLOW function, a parsing table (each answers for
// the grammar as it was when the object was made: G and orc are that grammar and its oracle) or a parser with its
// re-armable lexer (it reads the caller's *CFG at every Parse: it answers for the grammar as it is now).
type kept struct {
	kind   string
	first  grammar.FIRST
	follow grammar.FOLLOW
	table  *predictive.ParsingTable
	parser parser.Parser
	lex    *sliceLexer
	G      gx.G
	orc    *Oracle
	madeAt int // number of in-place edits of the grammar before the object was made
}

func setOf(xs []string) strset {
	m := strset{}
	for _, x := range xs {
		m[x] = true
	}
	return m
}

// bareSet drops the ' of terminal words (it depends on which non-terminals are declared at the moment).
func bareSet(m strset) strset {
	out := strset{}
	for w := range m {
		out[strings.TrimPrefix(w, Q)] = true
	}
	return out
}

// respellT spells a terminal word the way grammar `to` does.
func respellT(to *gx.G, w string) string {
	if w == "$" {
		return w
	}
	if b := strings.TrimPrefix(w, Q); to.IsNonTerm(b) {
		return Q + b
	} else {
		return b
	}
}

// respell spells the words of a string of symbols, read under the declarations of `from`, the way `to` does.
func respell(from, to *gx.G, ws []string) []string {
	out := make([]string, len(ws))
	for i, w := range ws {
		nt, b := false, w
		switch {
		case strings.HasPrefix(w, "^"):
			nt, b = true, w[1:]
		case strings.HasPrefix(w, Q):
			b = w[1:]
		default:
			nt = from.IsNonTerm(w)
		}
		switch {
		case nt && !to.IsNonTerm(b):
			out[i] = "^" + b
		case !nt && to.IsNonTerm(b):
			out[i] = Q + b
		default:
			out[i] = b
		}
	}
	return out
}

// EOFKinds: the ways a lexer may signal the end of its input.
//
//	bare     io.EOF itself
//	wrapped  fmt.Errorf("…: %w", io.EOF), what scanners that add a position do
//	wrapped2 wrapped twice
//	custom   an error type of its own whose Is method answers for io.EOF
//	joined   errors.Join(something, io.EOF)
//	junk     a token TOGETHER with io.EOF (the parser takes the error: that call is the end, its token is not input)
//	junkw    a token together with a wrapped io.EOF
var EOFKinds = []string{"bare", "wrapped", "wrapped2", "custom", "joined", "junk", "junkw"}

type eofLike struct{ at int }

func (e eofLike) Error() string        { return "no more tokens after " + strconv.Itoa(e.at) }
func (e eofLike) Is(target error) bool { return target == io.EOF }

func (l *sliceLexer) rearm(toks []string, failAt int, failErr error) {
	l.toks, l.i, l.failAt, l.failErr = toks, 0, failAt, failErr
}

func (l *sliceLexer) end() (lexer.Token, error) {
	switch l.eof {
	case "wrapped":
		return lexer.Token{}, fmt.Errorf("lexer: end of input at offset %d: %w", l.i, io.EOF)
	case "wrapped2":
		return lexer.Token{}, fmt.Errorf("scan: %w", fmt.Errorf("read: %w", io.EOF))
	case "custom":
		return lexer.Token{}, eofLike{l.i}
	case "joined":
		return lexer.Token{}, errors.Join(errors.New("no more tokens"), io.EOF)
	case "junk":
		return lexer.Token{Terminal: l.junk, Lexeme: "junk", Pos: lexer.Position{Offset: l.i}}, io.EOF
	case "junkw":
		return lexer.Token{Terminal: l.junk, Lexeme: "junk", Pos: lexer.Position{Offset: l.i}}, fmt.Errorf("lexer: %w", io.EOF)
	}
	return lexer.Token{}, io.EOF
}

func (l *sliceLexer) NextToken() (lexer.Token, error) {
	if l.failErr != nil && l.i == l.failAt {
		l.i++
		return lexer.Token{}, l.failErr
	}
	if l.i >= len(l.toks) {
		return l.end()
	}
	t := l.toks[l.i]
	tok := lexer.Token{Terminal: grammar.Terminal(Bare(t)), Lexeme: strconv.Itoa(l.i), Pos: lexer.Position{Offset: l.i}}
	l.i++
	return tok, nil
}

var (
	errLexer = errors.New("injected lexer error")
	errToken = errors.New("injected token-callback error")
	errProd  = errors.New("injected production-callback error")
)

// faultArg parses "-" (never) or a number.
func faultArg(s string) int {
	if s == "-" {
		return -1
	}
	n, err := strconv.Atoi(s)
	if err != nil {
		return -1
	}
	return n
}

func classify(err error) string {
	msg := err.Error()
	switch {
	case strings.Contains(msg, "failed to construct the predictive parsing table"):
		return "ok table-error"
	case strings.Contains(msg, "unexpected terminal"):
		return "ok reject terminal"
	case strings.Contains(msg, "unacceptable input"):
		return "ok reject noentry"
	case strings.Contains(msg, "after the end of the sentence"):
		return "ok reject trailing"
	}
	return "ok reject other:" + strings.ReplaceAll(msg, "\n", " ")
}

func (q pr) showTree(n parser.Node) string {
	switch v := n.(type) {
	case *parser.LeafNode:
		lex := v.Lexeme
		if lex == "" {
			lex = "?"
		}
		return q.term(v.Terminal) + "@" + lex
	case *parser.InternalNode:
		if v.Production == nil {
			return "(" + ntWord(v.NonTerminal) + "?)"
		}
		var b strings.Builder
		b.WriteString("(" + q.prodKeyOf(v.Production))
		for _, k := range v.Children {
			b.WriteString(" " + q.showTree(k))
		}
		b.WriteString(")")
		return b.String()
	}
	return "<nil>"
}

func (q pr) treeYield(n parser.Node, out *[]string) {
	switch v := n.(type) {
	case *parser.LeafNode:
		*out = append(*out, q.term(v.Terminal))
	case *parser.InternalNode:
		for _, k := range v.Children {
			q.treeYield(k, out)
		}
	}
}

// checkTree: root symbol, every internal node carries a production of its non-terminal whose body
// spells the children; leaves carry lexemes 0,1,2,… left to right; pre-order productions returned.
func (q pr) checkTree(n parser.Node, g gx.G, pre *[]string, leafNo *int) string {
	switch v := n.(type) {
	case *parser.LeafNode:
		if v.Lexeme != strconv.Itoa(*leafNo) || v.Position.Offset != *leafNo {
			return fmt.Sprintf("leaf %s carries lexeme %q / offset %d, want %d", v.Terminal, v.Lexeme, v.Position.Offset, *leafNo)
		}
		*leafNo++
	case *parser.InternalNode:
		if v.Production == nil {
			return "internal node " + ntWord(v.NonTerminal) + " without production"
		}
		if v.Production.Head != v.NonTerminal {
			return "node " + ntWord(v.NonTerminal) + " carries " + q.prodKeyOf(v.Production)
		}
		*pre = append(*pre, q.prodKeyOf(v.Production))
		if len(v.Children) != len(v.Production.Body) {
			return "node " + q.prodKeyOf(v.Production) + " has " + strconv.Itoa(len(v.Children)) + " children"
		}
		for i, k := range v.Children {
			if k.Symbol().Name() != v.Production.Body[i].Name() || k.Symbol().IsTerminal() != v.Production.Body[i].IsTerminal() {
				return "child " + strconv.Itoa(i) + " of " + q.prodKeyOf(v.Production) + " is " + k.Symbol().Name()
			}
			if msg := q.checkTree(k, g, pre, leafNo); msg != "" {
				return msg
			}
		}
	default:
		return "nil node"
	}
	return ""
}

// replayLeftmost applies the productions as a leftmost derivation from the start symbol; "" if the
// result is exactly w.
func replayLeftmost(g gx.G, prods []string, w []string) string {
	form := []string{g.Start}
	for k, pk := range prods {
		i := 0
		for i < len(form) && !g.IsNonTerm(form[i]) {
			i++
		}
		if i == len(form) {
			return fmt.Sprintf("production %d (%s) emitted but the sentential form %v has no non-terminal left", k, pk, form)
		}
		var body []string
		found := false
		for _, p := range g.Prods {
			if p.Head == form[i] && prodKey(p.Head, p.Body) == pk {
				body, found = p.Body, true
			}
		}
		if !found {
			return fmt.Sprintf("production %d (%s) is not a production of the leftmost non-terminal %s", k, pk, form[i])
		}
		nf := append(append(append([]string{}, form[:i]...), body...), form[i+1:]...)
		form = nf
	}
	if strings.Join(form, " ") != strings.Join(w, " ") {
		return fmt.Sprintf("the emitted productions derive %s, not the input %s", short(form), short(w))
	}
	return ""
}

// ---------------------------------------------------------------- executor

// Exec runs one case (grammar lines + queries) on the real code.
func Exec(c hx.Case) hx.Result {
	res := hx.Result{BadOp: -1}
	bad := func(i int, format string, a ...any) {
		if res.BadOp < 0 {
			res.BadOp = i
			res.What = fmt.Sprintf(format, a...)
		}
	}
	tags := map[string]bool{}
	// The grammar is built up by the description lines.  The *grammar.CFG object is created at the first
	// query; description lines after that change the SAME object in place (Productions.Add/Remove, …), so
	// anything a parser or an analysis kept from an earlier state of the object shows.
	var G gx.G
	P := pr{&G}
	var cfg, clone *grammar.CFG
	dirty := true
	valid := false
	var orc *Oracle
	var langK strset
	langKk := -1
	var first grammar.FIRST
	asked := map[string]string{} // written form -> the string the closure `first` was asked for (first one)
	// objects kept alive across operations and edits of the grammar (`keep KIND NAME`, `with NAME query`)
	pool := map[string]*kept{}
	eofKind := hx.HeaderGet(c.Header, "eof")
	newLexer := func(w []string) *sliceLexer {
		l := &sliceLexer{toks: w, eof: eofKind, junk: "junk"}
		if len(G.Terms) > 0 {
			l.junk = grammar.Terminal(Bare(G.Terms[0]))
		}
		return l
	}
	firstBuf := make(grammar.String[grammar.Symbol], 8) // the one buffer all `firstbuf` queries are written into
	var follow grammar.FOLLOW
	var tableErr error
	var table *predictive.ParsingTable
	tableBuilt := false
	mutations := 0
	if s, err := strconv.ParseInt(hx.HeaderGet(c.Header, "shuffle"), 10, 64); err == nil {
		set.VerifSetShuffleSeed(s)
		symboltable.VerifSetShuffleSeed(s + 1)
	}
	mkProd := func(head string, body []string) *grammar.Production {
		b := grammar.String[grammar.Symbol]{}
		for _, x := range body {
			b = append(b, P.symOf(x))
		}
		return &grammar.Production{Head: NT(head), Body: b}
	}
	mkString := func(ws []string) grammar.String[grammar.Symbol] {
		var s grammar.String[grammar.Symbol]
		for _, w := range ws {
			s = append(s, P.symOf(w))
		}
		return s
	}
	// canon: the word as the oracle's grammar spells it (a ^ in front of a declared non-terminal is dropped)
	canon := func(w string) string {
		if strings.HasPrefix(w, "^") && G.IsNonTerm(w[1:]) {
			return w[1:]
		}
		return w
	}
	canonBody := func(ws []string) []string {
		body := []string{}
		for _, w := range ws {
			body = append(body, canon(w))
		}
		return body
	}
	// redeclare changes the set of declared non-terminals and re-spells every word of G: ' and ^ depend on it
	redeclare := func(change func()) {
		type tsym struct {
			nt bool
			w  string
		}
		typed := func(w string) tsym {
			switch {
			case strings.HasPrefix(w, "^"):
				return tsym{true, w[1:]}
			case strings.HasPrefix(w, Q):
				return tsym{false, w[1:]}
			}
			return tsym{G.IsNonTerm(w), w}
		}
		var bodies [][]tsym
		for _, p := range G.Prods {
			var b []tsym
			for _, w := range p.Body {
				b = append(b, typed(w))
			}
			bodies = append(bodies, b)
		}
		change()
		word := func(t tsym) string {
			switch {
			case t.nt && !G.IsNonTerm(t.w):
				return "^" + t.w
			case !t.nt && G.IsNonTerm(t.w):
				return Q + t.w
			}
			return t.w
		}
		for k, t := range G.Terms {
			G.Terms[k] = word(tsym{false, strings.TrimPrefix(t, Q)})
		}
		for k := range G.Prods {
			nb := make([]string, len(bodies[k]))
			for j, t := range bodies[k] {
				nb[j] = word(t)
			}
			G.Prods[k].Body = nb
		}
	}
	hasProd := func(h string, body []string) bool {
		k := prodKey(h, body)
		for _, p := range G.Prods {
			if prodKey(p.Head, p.Body) == k {
				return true
			}
		}
		return false
	}
	headCount := func(h string) int {
		n := 0
		for _, p := range G.Prods {
			if p.Head == h {
				n++
			}
		}
		return n
	}
	dropProd := func(h string, body []string) {
		k := prodKey(h, body)
		var ps []gx.P
		for _, p := range G.Prods {
			if prodKey(p.Head, p.Body) != k {
				ps = append(ps, p)
			}
		}
		G.Prods = ps
	}
	// headSet: the set of the head's productions inside the live object, as Get hands it out or as AllByHead yields it
	headSet := func(h string, yielded bool) set.Set[*grammar.Production] {
		if !yielded {
			return cfg.Productions.Get(NT(h))
		}
		for n, ps := range cfg.Productions.AllByHead() {
			if n == NT(h) {
				return ps
			}
		}
		return nil
	}
	// livePtr: the *Production inside the live object
	livePtr := func(q *grammar.Production) *grammar.Production {
		for p := range cfg.Productions.All() {
			if p.Equal(q) {
				return p
			}
		}
		return nil
	}
	// applyDesc folds one description line into G (and into the live object); false: not a description line.
	//   terms / nonterms / start / prod / unprod     Terminals.Add, NonTerminals.Add, Start =, Productions.Add / Remove
	//   unterm t… / unnonterm A… / unprodall H…       Terminals.Remove, NonTerminals.Remove, Productions.RemoveAll
	//   getadd H : body / getremove H : body          Add / Remove on the set Productions.Get(H) returns (nothing happens
	//                                                 when H has no production: Get returns nil; the last production of a
	//                                                 head is removed through Productions.Remove)
	//   yieldadd / yieldremove                        the same on the set AllByHead yields for H
	//   setbody H : old => new                        p.Body = new on the *Production inside the grammar (only when
	//                                                 H → old is there and H → new is not)
	//   setsym H i X : body                           p.Body[i] = X, written into the body slice in place (same proviso)
	//   refresh prods|terms|nonterms                  the field is replaced by a Clone() of itself
	applyDesc := func(f []string) bool {
		switch {
		case f[0] == "terms":
			for _, t := range f[1:] {
				if t = strings.TrimPrefix(t, Q); G.IsNonTerm(t) {
					t = Q + t
				}
				if !contains(G.Terms, t) {
					G.Terms = append(G.Terms, t)
				}
				if cfg != nil {
					cfg.Terminals.Add(grammar.Terminal(Bare(t)))
				}
			}
		case f[0] == "unterm":
			for _, t := range f[1:] {
				var ts []string
				for _, u := range G.Terms {
					if Bare(u) != Bare(t) {
						ts = append(ts, u)
					}
				}
				G.Terms = ts
				if cfg != nil {
					cfg.Terminals.Remove(grammar.Terminal(Bare(t)))
				}
			}
		case f[0] == "nonterms":
			redeclare(func() {
				for _, n := range f[1:] {
					n = strings.TrimPrefix(n, "^")
					if !contains(G.NonTerms, n) {
						G.NonTerms = append(G.NonTerms, n)
					}
					if cfg != nil {
						cfg.NonTerminals.Add(NT(n))
					}
				}
			})
		case f[0] == "unnonterm":
			redeclare(func() {
				for _, n := range f[1:] {
					n = strings.TrimPrefix(n, "^")
					var ns []string
					for _, u := range G.NonTerms {
						if u != n {
							ns = append(ns, u)
						}
					}
					G.NonTerms = ns
					if cfg != nil {
						cfg.NonTerminals.Remove(NT(n))
					}
				}
			})
		case f[0] == "start" && len(f) == 2:
			G.Start = strings.TrimPrefix(f[1], "^")
			if cfg != nil {
				cfg.Start = NT(f[1])
			}
		case f[0] == "prod" && len(f) >= 3 && f[2] == ":":
			h, body := strings.TrimPrefix(f[1], "^"), canonBody(f[3:])
			if !hasProd(h, body) {
				G.Prods = append(G.Prods, gx.P{Head: h, Body: body})
			}
			if cfg != nil {
				cfg.Productions.Add(mkProd(h, body))
			}
		case f[0] == "unprod" && len(f) >= 3 && f[2] == ":":
			h, body := strings.TrimPrefix(f[1], "^"), canonBody(f[3:])
			dropProd(h, body)
			if cfg != nil {
				cfg.Productions.Remove(mkProd(h, body))
			}
		case f[0] == "unprodall":
			for _, h := range f[1:] {
				h = strings.TrimPrefix(h, "^")
				var ps []gx.P
				for _, p := range G.Prods {
					if p.Head != h {
						ps = append(ps, p)
					}
				}
				G.Prods = ps
				if cfg != nil {
					cfg.Productions.RemoveAll(NT(h))
				}
			}
		case (f[0] == "getadd" || f[0] == "yieldadd") && len(f) >= 3 && f[2] == ":":
			h, body := strings.TrimPrefix(f[1], "^"), canonBody(f[3:])
			if headCount(h) > 0 {
				if cfg != nil {
					if ps := headSet(h, f[0] == "yieldadd"); ps != nil {
						ps.Add(mkProd(h, body))
					}
				}
				if !hasProd(h, body) {
					G.Prods = append(G.Prods, gx.P{Head: h, Body: body})
				}
			}
		case (f[0] == "getremove" || f[0] == "yieldremove") && len(f) >= 3 && f[2] == ":":
			h, body := strings.TrimPrefix(f[1], "^"), canonBody(f[3:])
			if hasProd(h, body) {
				if cfg != nil {
					if ps := headSet(h, f[0] == "yieldremove"); headCount(h) > 1 && ps != nil {
						ps.Remove(mkProd(h, body))
					} else {
						cfg.Productions.Remove(mkProd(h, body))
					}
				}
				dropProd(h, body)
			}
		case f[0] == "setbody" && len(f) >= 3 && f[2] == ":":
			at := -1
			for k := 3; k < len(f); k++ {
				if f[k] == "=>" {
					at = k
					break
				}
			}
			if at < 0 {
				return false
			}
			h, old, nb := strings.TrimPrefix(f[1], "^"), canonBody(f[3:at]), canonBody(f[at+1:])
			if hasProd(h, old) && !hasProd(h, nb) {
				if cfg != nil {
					if p := livePtr(mkProd(h, old)); p != nil {
						p.Body = mkProd(h, nb).Body
					}
				}
				for k, p := range G.Prods {
					if prodKey(p.Head, p.Body) == prodKey(h, old) {
						G.Prods[k] = gx.P{Head: h, Body: nb}
					}
				}
			}
		case f[0] == "setsym" && len(f) >= 5 && f[4] == ":":
			h, old := strings.TrimPrefix(f[1], "^"), canonBody(f[5:])
			at, err := strconv.Atoi(f[2])
			if err != nil || at < 0 || at >= len(old) {
				break
			}
			nb := append([]string{}, old...)
			nb[at] = canon(f[3])
			if hasProd(h, old) && !hasProd(h, nb) {
				if cfg != nil {
					if p := livePtr(mkProd(h, old)); p != nil {
						p.Body[at] = P.symOf(nb[at])
					}
				}
				for k, p := range G.Prods {
					if prodKey(p.Head, p.Body) == prodKey(h, old) {
						G.Prods[k] = gx.P{Head: h, Body: nb}
					}
				}
			}
		case f[0] == "refresh" && len(f) == 2:
			if cfg != nil {
				switch f[1] {
				case "prods":
					cfg.Productions = cfg.Productions.Clone()
				case "terms":
					cfg.Terminals = cfg.Terminals.Clone()
				case "nonterms":
					cfg.NonTerminals = cfg.NonTerminals.Clone()
				}
			}
		default:
			return false
		}
		if f[0] == "setbody" || f[0] == "setsym" {
			// a table holds the *Production values of the grammar it was built from: an edit through such a pointer shows
			// in every table that holds it.  Not part of any property; kept tables end here (`with T cell …` answers none).
			for name, k := range pool {
				if k.kind == "table" {
					delete(pool, name)
				}
			}
		}
		if cfg != nil {
			mutations++
			tags["edit:"+f[0]] = true
		}
		dirty = true
		return true
	}
	toCFG := func() *grammar.CFG {
		ts := make([]grammar.Terminal, len(G.Terms))
		for i, t := range G.Terms {
			ts[i] = grammar.Terminal(Bare(t))
		}
		ns := make([]grammar.NonTerminal, len(G.NonTerms))
		for i, n := range G.NonTerms {
			ns[i] = NT(n)
		}
		ps := make([]*grammar.Production, len(G.Prods))
		for i, p := range G.Prods {
			ps[i] = mkProd(p.Head, p.Body)
		}
		return grammar.NewCFG(ts, ns, ps, NT(G.Start))
	}
	ensureTable := func() {
		if !tableBuilt {
			table, tableErr = predictive.BuildParsingTable(cfg)
			tableBuilt = true
		}
	}
	tableOf := func() *predictive.ParsingTable { return table }
	// setup (re)computes everything that depends on the grammar's current state
	setup := func() {
		if cfg == nil {
			cfg = toCFG()
		}
		dirty = false
		clone = cfg.Clone()
		valid = cfg.Verify() == nil
		orc, langK, langKk, first, follow, table, tableErr, tableBuilt = nil, nil, -1, nil, nil, nil, nil, false
		asked = map[string]string{}
		for _, t := range G.Terms {
			if strings.HasPrefix(t, Q) {
				tags["terminal-named-like-nonterminal"] = true
			}
		}
		for _, w := range append(append([]string{}, G.Terms...), G.NonTerms...) {
			if strings.Contains(w, "%") {
				tags["names:escaped-in-protocol"] = true
			}
		}
		for _, n := range G.NonTerms {
			if len([]rune(DecName(n))) > 1 {
				tags["names:multi-character-nonterminal"] = true
			}
		}
		if len(G.Terms)+len(G.NonTerms) <= 12 { // (all strings of length <= 3: small grammars only)
			if len(WrittenFormCollisions(G, 3)) > 0 {
				tags["names:strings-with-equal-written-form"] = true
			}
			if len(RenderedAlike(G, 3)) > 0 {
				tags["names:strings-rendered-alike"] = true
			}
		}
		if n := len(G.Terms); n >= 64 {
			tags["size:terminals>=64"] = true
		}
		if n := len(G.NonTerms); n >= 64 {
			tags["size:nonterminals>=64"] = true
		}
		if valid {
			orc = NewOracle(G)
			if len(orc.Nullable) > 0 {
				tags["nullable"] = true
			}
			for _, p := range G.Prods {
				if len(p.Body) > 0 && orc.nullableStr(p.Body) {
					tags["eps-chain"] = true
				}
				if len(p.Body) > 0 && p.Body[0] == p.Head {
					tags["left-recursive"] = true
				}
				seen := map[string]bool{}
				for _, x := range p.Body {
					if G.IsNonTerm(x) && seen[x] {
						tags["repeated-nt-in-body"] = true
					}
					seen[x] = true
				}
			}
			if !orc.AllReach {
				tags["unreachable-nt"] = true
			}
			if !orc.Reduced && orc.AllReach {
				tags["unproductive-nt"] = true
			}
			for _, n := range G.NonTerms {
				if !orc.Prod[n] {
					tags["unproductive-nt"] = true
				}
			}
			if orc.ConflictFree() {
				tags["ll1"] = true
			} else {
				tags["not-ll1"] = true
			}
		} else {
			tags["invalid-grammar"] = true
		}
	}
	maxWord := 0
	for _, op := range c.Ops {
		f := strings.Fields(op)
		if len(f) > 2 && f[0] == "with" {
			f = f[2:]
		}
		if len(f) > 0 && (f[0] == "parse" || f[0] == "ast") && len(f)-1 > maxWord {
			maxWord = len(f) - 1
		}
	}
	// membership oracle: the exact bounded language for short inputs, an Earley recogniser for long ones
	inLang := func(w []string) bool {
		if len(w) > 8 || len(w) > maxWord {
			if len(w) > 8 {
				tags["long-input"] = true
			}
			if len(w) > 256 && orc != nil && orc.AllReach && orc.ConflictFree() {
				// Earley is quadratic on right-recursive grammars: for long inputs of conflict-free grammars the textbook
				// LL(1) run over the oracle's own table decides membership (it gives up on very long runs)
				if end, _ := orc.Simulate(w, -1, -1, -1); end != "" {
					return end == "accept"
				}
			}
			return Earley(G, w)
		}
		if langKk < 0 {
			langKk = maxWord
			if langKk > 8 {
				langKk = 8
			}
			langK = G.LangK(langKk)
		}
		return langK[strings.Join(w, " ")]
	}
	sentences, nonSentences, trailing := 0, 0, 0

	for i, op := range c.Ops {
		f := strings.Fields(op)
		if len(f) == 0 {
			res.Outs = append(res.Outs, "bad-op")
			continue
		}
		for k := 1; k < len(f); k++ {
			f[k] = CanonWord(f[k])
		}
		if applyDesc(f) {
			res.Outs = append(res.Outs, "ok")
			continue
		}
		if dirty {
			setup()
		}
		out := "bad-op"
		hung := false
		kind := ""
		// `with NAME query`: the query goes to the kept object NAME
		withName := ""
		if f[0] == "with" && len(f) >= 3 {
			withName, f = f[1], f[2:]
		}
		var kp *kept
		forced := strings.HasPrefix(f[0], "!")
		cmd := strings.TrimPrefix(f[0], "!")
		// judge: the oracle speaks only about grammars that pass Verify(); forced queries on other grammars are
		// corresponded with the Model (which predicts the nil dereferences) and nothing else
		judge := valid
		run := func() {
			kind = hx.Try(func() {
				if cmd == "unchanged" {
					if !cfg.Equal(cfg) || !clone.Equal(cfg) {
						bad(i, "the grammar is not Equal to itself, or Equal is not symmetric")
					}
					same := cfg.Equal(clone)
					out = "ok " + strconv.FormatBool(same)
					if !same {
						bad(i, "the caller's grammar was modified: %s, was %s", gx.FromCFG(cfg).Show(), gx.FromCFG(clone).Show())
					}
					return
				}
				if cmd == "verify" {
					out = P.showVerify(cfg.Verify())
					want := verifyOracle(G)
					if out != want {
						bad(i, "Verify() reports %s, the definition of a well-formed grammar gives %s", out, want)
					}
					if out != "ok valid" {
						tags["verify-error"] = true
						for _, it := range strings.Split(strings.TrimSuffix(strings.TrimPrefix(out, "ok invalid ["), "]"), "; ") {
							tags["verify:"+strings.SplitN(it, ":", 2)[0]] = true
						}
					}
					return
				}
				if withName != "" {
					want := map[string]string{"first": "first", "tryfirst": "first", "firstbuf": "first", "follow": "follow", "cell": "table",
						"parse": "parser", "ast": "parser", "parse0": "parser", "parsef": "parser", "astf": "parser"}[cmd]
					if kp = pool[withName]; kp == nil || want == "" || kp.kind != want {
						kp = nil
						out = "ok none"
						return
					}
					tags["kept-object-used:"+kp.kind] = true
					if mutations > kp.madeAt {
						tags["kept-object-used-after-edit:"+kp.kind] = true
					}
				}
				if !valid && !forced && (kp == nil || kp.kind == "parser") {
					out = "ok invalid"
					return
				}
				if !valid {
					tags["forced-on-invalid"] = true
				}
				if cmd == "keep" && len(f) == 3 {
					// objects are made from grammars that pass Verify() only (`!keep` does not exist)
					if !valid {
						out = "ok invalid"
						return
					}
					k := &kept{kind: f[1], G: cloneG(G), madeAt: mutations}
					k.orc = NewOracle(k.G) // of its own: the oracle shares the slices of the grammar it is made from
					switch f[1] {
					case "first":
						k.first = cfg.ComputeFIRST()
					case "follow":
						k.follow = cfg.ComputeFOLLOW(cfg.ComputeFIRST())
					case "table":
						k.table, _ = predictive.BuildParsingTable(cfg)
					case "parser":
						k.lex = newLexer(nil)
						k.parser = predictive.New(cfg, k.lex)
					default:
						return
					}
					pool[f[2]] = k
					out = "ok"
					return
				}
				switch cmd {
				case "nullable":
					got := strset{}
					for n := range cfg.NullableNonTerminals().All() {
						got[ntWord(n)] = true
					}
					out = "ok " + showSet(got)
					if judge && showSet(got) != showSet(orc.Nullable) {
						bad(i, "NullableNonTerminals = %s, the non-terminals deriving ε are %s", showSet(got), showSet(orc.Nullable))
					}
				case "first", "tryfirst", "firstbuf":
					if first == nil && kp == nil {
						first = cfg.ComputeFIRST()
					}
					// the closure asked, the grammar it was made from, that grammar's oracle
					first, og, oo, judge := first, &G, orc, judge
					ws := f[1:]
					if kp != nil {
						first, og, oo, judge = kp.first, &kp.G, kp.orc, true
						ws = respell(&G, og, f[1:])
					}
					s := mkString(f[1:])
					if cmd == "firstbuf" {
						// the caller's own slice, used for one string after the other
						tags["first-through-reused-buffer"] = true
						if len(s) <= len(firstBuf) {
							copy(firstBuf, s)
							s = firstBuf[:len(s)]
						}
					}
					if kp != nil {
					} else if prev, ok := asked[WrittenForm(G, f[1:])]; !ok {
						asked[WrittenForm(G, f[1:])] = strings.Join(f[1:], " ")
					} else if prev != strings.Join(f[1:], " ") {
						tags["first-asked-for-strings-with-equal-written-form"] = true
					}
					if kp != nil {
					} else if prev, ok := asked["\x00"+Rendered(G, f[1:])]; !ok {
						asked["\x00"+Rendered(G, f[1:])] = strings.Join(f[1:], " ")
					} else if prev != strings.Join(f[1:], " ") {
						tags["first-asked-for-strings-rendered-alike"] = true
					}
					var r *grammar.TerminalsAndEmpty
					if cmd == "tryfirst" {
						if k := hx.Try(func() { r = first(s) }); k != "" {
							out = "ok panicked"
							tags["first-closure-panic-caught"] = true
							return
						}
					} else {
						r = first(s)
					}
					if r2 := first(s); r2 != r {
						bad(i, "FIRST(%s): the second call returned another object (the closure is documented to memoise)", showBody(f[1:]))
					}
					got := P.termSet(r.Terminals)
					out = fmt.Sprintf("ok %s eps=%v", showSet(got), r.IncludesEmpty)
					declared := true
					for _, w := range ws {
						if !og.IsNonTerm(w) && !contains(og.Terms, w) {
							declared = false
						}
					}
					if !declared {
						tags["first-memo-partial-value"] = true
					}
					if declared && judge {
						want, eps := oo.FirstStr(ws)
						if showSet(bareSet(got)) != showSet(bareSet(want)) || eps != r.IncludesEmpty {
							bad(i, "FIRST(%s) = %s eps=%v, left-corner reachability gives %s eps=%v", showBody(f[1:]), showSet(got), r.IncludesEmpty, showSet(want), eps)
						}
					}
				case "follow":
					// FOLLOW is computed from a FIRST closure of its own (the one the `first` queries go to may hold
					// partial values left behind by a caught panic)
					if follow == nil && kp == nil {
						follow = cfg.ComputeFOLLOW(cfg.ComputeFIRST())
					}
					follow, G, orc, judge := follow, G, orc, judge
					if kp != nil {
						follow, G, orc, judge = kp.follow, kp.G, kp.orc, true
					}
					A := strings.TrimPrefix(f[1], "^")
					r := follow(NT(A))
					got := bareSet(P.termSet(r.Terminals))
					out = fmt.Sprintf("ok %s end=%v", showSet(P.termSet(r.Terminals)), r.IncludesEndmarker)
					if !judge {
						break
					}
					if orc.AllReach {
						if showSet(got) != showSet(bareSet(orc.follow[A])) || r.IncludesEndmarker != orc.followEnd[A] {
							bad(i, "FOLLOW(%s) = %s end=%v, follow-graph reachability gives %s end=%v", A, showSet(got), r.IncludesEndmarker, showSet(orc.follow[A]), orc.followEnd[A])
						}
					} else if orc.Reach[A] {
						// the property is silent here; what can follow A in a sentential form must still be present
						sub := NewOracle(restricted(G, orc.Reach))
						for t := range bareSet(sub.follow[A]) {
							if !got[t] {
								bad(i, "FOLLOW(%s) = %s misses %s, which follows it in a sentential form", A, showSet(got), t)
							}
						}
						if sub.followEnd[A] && !r.IncludesEndmarker {
							bad(i, "FOLLOW(%s) misses the endmarker although %s can end a sentential form", A, A)
						}
					}
				case "ll1":
					err := cfg.IsLL1()
					if err == nil {
						out = "ok true"
					} else {
						var items []string
						if me, ok := err.(interface{ Unwrap() []error }); ok {
							for _, e := range me.Unwrap() {
								le, ok := e.(*grammar.LL1Error)
								if !ok {
									items = append(items, "?"+e.Error())
									continue
								}
								a, b := showBody(P.symNames(le.Alpha)), showBody(P.symNames(le.Beta))
								msg := le.Error()
								switch {
								case strings.HasPrefix(msg, "FIRST(α) and FIRST(β)"):
									if b < a {
										a, b = b, a
									}
									items = append(items, fmt.Sprintf("ff %s: %s | %s", ntWord(le.A), a, b))
								case strings.HasPrefix(msg, "ε is in FIRST(α)"):
									items = append(items, fmt.Sprintf("ef %s: eps=%s other=%s", ntWord(le.A), a, b))
								case strings.HasPrefix(msg, "ε is in FIRST(β)"):
									items = append(items, fmt.Sprintf("ef %s: eps=%s other=%s", ntWord(le.A), b, a))
								default:
									items = append(items, "?"+msg)
								}
							}
						}
						sort.Strings(items)
						items = dedupSorted(items)
						out = "ok false [" + strings.Join(items, "; ") + "]"
					}
					if !judge {
						break
					}
					// the two claims of the property that relate IsLL1 to the table
					t2, terr := predictive.BuildParsingTable(cfg.Clone())
					_ = t2
					if terr != nil && err == nil {
						bad(i, "the parsing table has a conflict (%s) but IsLL1 reports no error", strings.ReplaceAll(terr.Error(), "\n", " "))
					}
					if orc.Reduced && (err == nil) != (terr == nil) {
						bad(i, "reduced grammar: IsLL1 error=%v but table conflict=%v", err != nil, terr != nil)
					}
					if orc.AllReach && (terr == nil) != orc.ConflictFree() {
						bad(i, "table conflict=%v, textbook construction from the oracle's FIRST/FOLLOW gives conflict=%v", terr != nil, !orc.ConflictFree())
					}
				case "table":
					ensureTable()
					rows := append([]string{}, G.NonTerms...)
					sort.Strings(rows)
					rows = dedupSorted(rows)
					cols := append([]string{}, G.Terms...)
					sort.Strings(cols)
					cols = append(dedupSorted(cols), "$")
					var confl, cells []string
					for _, A := range rows {
						for _, a := range cols {
							ta := grammar.Terminal(Bare(a))
							if a == "$" {
								ta = grammar.Endmarker
							}
							ps, sync, ok := predictive.VerifCell(table, NT(A), ta)
							if !ok {
								if judge && orc.AllReach && len(orc.Cell(A, a)) > 0 {
									bad(i, "M[%s,%s] is empty, the textbook construction gives %v", A, a, orc.Cell(A, a))
								}
								if !table.IsEmpty(NT(A), ta) || table.IsSync(NT(A), ta) {
									bad(i, "M[%s,%s] has no entry, but IsEmpty=false or IsSync=true", A, a)
								}
								continue
							}
							var keys []string
							for _, p := range ps {
								keys = append(keys, P.prodKeyOf(p))
							}
							sort.Strings(keys)
							if len(keys) > 1 {
								confl = append(confl, A+"/"+a)
							}
							if len(keys) > 0 {
								cells = append(cells, A+"/"+a+":{"+strings.Join(keys, "|")+"}")
							} else if sync {
								cells = append(cells, A+"/"+a+":sync")
							}
							if judge && orc.AllReach && strings.Join(keys, "|") != strings.Join(orc.Cell(A, a), "|") {
								bad(i, "M[%s,%s] = %v, the textbook construction gives %v", A, a, keys, orc.Cell(A, a))
							}
							if !table.IsEmpty(NT(A), ta) != (len(keys) > 0) {
								bad(i, "IsEmpty(%s,%s) disagrees with the stored productions %v", A, a, keys)
							}
							if table.IsSync(NT(A), ta) != (len(keys) == 0 && sync) {
								bad(i, "IsSync(%s,%s) disagrees with the stored entry (productions %v, sync %v)", A, a, keys, sync)
							}
							if gp, ok := table.GetProduction(NT(A), ta); ok != (len(keys) == 1) || (ok && P.prodKeyOf(gp) != keys[0]) {
								bad(i, "GetProduction(%s,%s) = %s, %v; the entry holds %v", A, a, P.prodKeyOf(gp), ok, keys)
							}
						}
					}
					// the conflicts in the order Conflicts() reports them (the error list of BuildParsingTable)
					reported := conflictOrder(tableErr, P)
					out = "ok conflicts=[" + strings.Join(reported, " ") + "] cells=[" + strings.Join(cells, " ") + "]"
					{
						a, b := append([]string{}, confl...), append([]string{}, reported...)
						sort.Strings(a)
						sort.Strings(b)
						if strings.Join(a, " ") != strings.Join(b, " ") {
							bad(i, "Conflicts() reports %v, the cells with more than one production are %v", reported, confl)
						}
					}
					if judge {
						trows, tcols := predictive.VerifRowsAndColumns(table)
						if len(trows) != len(rows) || len(tcols) != len(cols) {
							bad(i, "the table iterates %d rows x %d columns, the grammar has %d non-terminals and %d terminals + endmarker", len(trows), len(tcols), len(rows), len(cols)-1)
						}
						// a second run of the analyses (other iteration orders) yields equal sets (EqTerminalsAndEmpty / …Endmarker)
						f2 := cfg.Clone().ComputeFIRST()
						fo2 := cfg.Clone().ComputeFOLLOW(f2)
						f1 := cfg.ComputeFIRST()
						fo1 := cfg.ComputeFOLLOW(f1)
						for _, A := range rows {
							s := grammar.String[grammar.Symbol]{NT(A)}
							if !grammar.EqTerminalsAndEmpty(f1(s), f2(s)) || !grammar.EqTerminalsAndEndmarker(fo1(NT(A)), fo2(NT(A))) {
								bad(i, "two runs of ComputeFIRST / ComputeFOLLOW on one grammar disagree on %s", A)
							}
						}
						// a second construction (other iteration orders) yields an Equal table
						if t2, _ := predictive.BuildParsingTable(cfg.Clone()); !table.Equal(t2) || !t2.Equal(table) {
							bad(i, "two constructions of the parsing table of one grammar are not Equal")
						}
					}
				case "cell":
					if len(f) != 3 {
						return
					}
					table, G, orc, judge := table, G, orc, judge
					if kp != nil {
						table, G, orc, judge = kp.table, kp.G, kp.orc, true
					} else {
						ensureTable()
						table = tableOf()
					}
					A, a := strings.TrimPrefix(f[1], "^"), f[2]
					ta := grammar.Terminal(Bare(a))
					if a == "$" {
						ta = grammar.Endmarker
					}
					if kp != nil {
						// the words as the kept grammar spells them
						a = respellT(&kp.G, a)
					}
					empty, sync := table.IsEmpty(NT(A), ta), table.IsSync(NT(A), ta)
					gp, ok := table.GetProduction(NT(A), ta)
					pk := "-"
					if ok {
						pk = P.prodKeyOf(gp)
					} else if gp != nil {
						bad(i, "GetProduction(%s,%s) answers false with a production", A, a)
					}
					out = fmt.Sprintf("ok empty=%v sync=%v prod=%s", empty, sync, pk)
					tags["table-accessors"] = true
					if judge && orc.AllReach {
						var cell []string
						inFollow := false
						if G.IsNonTerm(A) && (a == "$" || contains(G.Terms, a)) {
							cell = orc.Cell(A, a)
							inFollow = (a == "$" && orc.followEnd[A]) || (a != "$" && orc.follow[A][a])
						}
						want := "-"
						if len(cell) == 1 {
							want = cell[0]
						}
						if kp != nil && showSet(setOf(kp.G.NonTerms)) != showSet(setOf(P.g.NonTerms)) {
							want = pk // productions are spelled by the declarations of the moment: compared only when these are the same
						}
						if empty != (len(cell) == 0) || pk != want || sync != (len(cell) == 0 && inFollow) {
							bad(i, "M[%s,%s]: IsEmpty=%v IsSync=%v GetProduction=%s; the textbook cell is %v, %s in FOLLOW(%s): %v", A, a, empty, sync, pk, cell, a, A, inFollow)
						}
					}
				case "parse", "ast", "parse0":
					w := f[1:]
					p := predictive.New(cfg, newLexer(w))
					if kp != nil {
						// the kept parser, its lexer loaded with the new input
						kp.lex.rearm(w, 0, nil)
						p = kp.parser
					}
					var prods []string
					var err error
					var root parser.Node
					switch cmd {
					case "parse":
						err = p.Parse(func(*lexer.Token) error { return nil }, func(pr *grammar.Production) error {
							prods = append(prods, P.prodKeyOf(pr))
							return nil
						})
					case "parse0":
						err = p.Parse(nil, nil)
					default:
						root, err = p.ParseAndBuildAST()
					}
					accepted := err == nil
					switch {
					case err != nil:
						out = classify(err)
					case cmd == "parse":
						out = "ok accept " + strings.Join(prods, "; ")
					case cmd == "parse0":
						out = "ok accept"
					default:
						var y []string
						P.treeYield(root, &y)
						out = "ok " + P.showTree(root) + " yield=[" + strings.Join(y, " ") + "]"
					}
					if !judge {
						break
					}
					ensureTable()
					if tableErr != nil {
						if out != "ok table-error" {
							bad(i, "the table has conflicts but Parse answered %q", out)
						}
						return
					}
					member := inLang(w)
					if member {
						sentences++
					} else {
						nonSentences++
						for k := 0; k < len(w) && len(w) <= 8; k++ {
							if inLang(w[:k]) {
								trailing++
								break
							}
						}
					}
					if accepted != member {
						bad(i, "%s %s: accepted=%v but sentence of G=%v", cmd, short(w), accepted, member)
						return
					}
					if accepted && cmd == "parse" {
						if msg := replayLeftmost(G, prods, w); msg != "" {
							bad(i, "parse %s: %s", short(w), msg)
						}
					}
					if accepted && cmd == "ast" {
						var y, pre []string
						P.treeYield(root, &y)
						if strings.Join(y, " ") != strings.Join(w, " ") {
							bad(i, "ast %s: the yield of the tree is %s", short(w), short(y))
						}
						leaf := 0
						if in, ok := root.(*parser.InternalNode); !ok || ntWord(in.NonTerminal) != G.Start {
							bad(i, "ast %s: the root is not the start symbol", short(w))
						} else if msg := P.checkTree(root, G, &pre, &leaf); msg != "" {
							bad(i, "ast %s: %s", short(w), msg)
						} else if msg := replayLeftmost(G, pre, w); msg != "" {
							bad(i, "ast %s: pre-order productions: %s", short(w), msg)
						}
					}
				case "parsef", "astf":
					// parsef L T P : w   /   astf L : w      (see Driver/C10.lean)
					nArgs := 3
					if cmd == "astf" {
						nArgs = 1
					}
					if len(f) < nArgs+2 || f[nArgs+1] != ":" {
						return
					}
					w := f[nArgs+2:]
					lexAt, tokAt, prodAt := faultArg(f[1]), -1, -1
					if cmd == "parsef" {
						tokAt, prodAt = faultArg(f[2]), faultArg(f[3])
					}
					lx := newLexer(w)
					p := predictive.New(cfg, lx)
					if kp != nil {
						lx, p = kp.lex, kp.parser
					}
					lx.rearm(w, lexAt, nil)
					if lexAt >= 0 {
						lx.failErr = errLexer
					}
					var evs []string
					nProd := 0
					var err error
					var root parser.Node
					if cmd == "parsef" {
						err = p.Parse(func(t *lexer.Token) error {
							if t.Pos.Offset == tokAt {
								return errToken
							}
							evs = append(evs, P.term(t.Terminal)+"@"+strconv.Itoa(t.Pos.Offset))
							return nil
						}, func(pr *grammar.Production) error {
							nProd++
							if nProd-1 == prodAt {
								return errProd
							}
							evs = append(evs, P.prodKeyOf(pr))
							return nil
						})
					} else {
						root, err = p.ParseAndBuildAST()
					}
					ending := ""
					var pe *parser.ParseError
					switch {
					case err == nil:
						ending = "accept"
					case errors.Is(err, errLexer):
						ending = "fail lexer"
						tags["fault:lexer"] = true
					case errors.Is(err, errToken):
						ending = "fail token@" + strconv.Itoa(tokAt)
						tags["fault:token-callback"] = true
						if !errors.As(err, &pe) || pe.Pos.Offset != tokAt {
							bad(i, "the error of the token callback came back without the position of its token")
						}
					case errors.Is(err, errProd):
						ending = "fail prod"
						tags["fault:production-callback"] = true
					default:
						ending = strings.TrimPrefix(classify(err), "ok ")
					}
					if err != nil && !errors.As(err, &pe) {
						bad(i, "%s returned an error that is not a *parser.ParseError: %v", cmd, err)
					}
					switch {
					case ending == "table-error":
						out = "ok table-error"
					case cmd == "parsef":
						out = "ok " + ending + " [" + strings.Join(evs, "; ") + "]"
					case err == nil:
						var y []string
						P.treeYield(root, &y)
						out = "ok " + P.showTree(root) + " yield=[" + strings.Join(y, " ") + "]"
					default:
						out = "ok " + ending
						if root != nil {
							bad(i, "ParseAndBuildAST returned an error and a tree")
						}
					}
					if !judge {
						break
					}
					ensureTable()
					if tableErr != nil {
						if out != "ok table-error" {
							bad(i, "the table has conflicts but %s answered %q", cmd, out)
						}
						return
					}
					if orc.AllReach {
						// the run an LL(1) parser makes by the textbook table, cut where the lexer or a callback fails
						wantEnd, wantEvs := orc.Simulate(w, lexAt, tokAt, prodAt)
						if wantEnd == "" {
							break
						}
						if cmd == "parsef" {
							if want := "ok " + wantEnd + " [" + strings.Join(wantEvs, "; ") + "]"; out != want {
								bad(i, "%s: Parse answered %q; stopping the textbook run at the first failing call gives %q", op, out, want)
							}
						} else if (err == nil) != (wantEnd == "accept") || (err != nil && "ok "+wantEnd != out) {
							bad(i, "%s: ParseAndBuildAST answered %q; the textbook run ends with %q", op, out, wantEnd)
						}
					}
				}
			})
		}
		if cmd == "parse" || cmd == "ast" || cmd == "parse0" || cmd == "parsef" || cmd == "astf" || len(G.Terms)+len(G.NonTerms) >= 16 {
			// (grammars with many symbols: a fixpoint or a hash table of the analyses that does not come back ends the case
			// here, not at the watchdog of the run)
			hung = !hx.WithTimeout(60*time.Second, run)
		} else {
			run()
		}
		if hung {
			res.Outs = append(res.Outs, "hang")
			bad(i, "%s did not return", op)
			tags["hang"] = true
			break
		}
		if kind != "" {
			res.Outs = append(res.Outs, "panic")
			// the FIRST / FOLLOW closures panic on undeclared symbols by contract
			undeclared := false
			if cmd == "first" || cmd == "firstbuf" || cmd == "follow" {
				dg, ws := &G, f[1:]
				if kp != nil {
					dg, ws = &kp.G, respell(&G, &kp.G, f[1:])
				}
				for _, w := range ws {
					if !dg.IsNonTerm(w) && !contains(dg.Terms, w) {
						undeclared = true
					}
				}
				if cmd == "follow" && len(f) > 1 && !dg.IsNonTerm(strings.TrimPrefix(f[1], "^")) {
					undeclared = true
				}
			}
			if !undeclared && (valid || (kp != nil && kp.kind != "parser")) {
				bad(i, "%s panicked (%s)", op, kind)
			}
			tags["panic"] = true
			tags["panic:"+cmd] = true
			break
		}
		res.Outs = append(res.Outs, out)
	}
	if sentences > 0 {
		tags["parsed-sentence"] = true
	}
	if nonSentences > 0 {
		tags["parsed-non-sentence"] = true
	}
	if trailing > 0 {
		tags["sentence-plus-trailing"] = true
	}
	if mutations > 0 {
		tags["grammar-changed-in-place"] = true
	}
	if maxWord >= 1000 {
		tags["deep-nesting"] = true
	}
	if hx.HeaderGet(c.Header, "comp") == "predictive" {
		res.Nontrivial = valid && tags["ll1"] && sentences > 0 && nonSentences > 0 && trailing > 0
	} else {
		res.Nontrivial = valid && (tags["nullable"] || tags["left-recursive"] || tags["unreachable-nt"] || tags["unproductive-nt"] || hasLeftCornerCycle(G, orc))
	}
	for t := range tags {
		res.Tags = append(res.Tags, t)
	}
	sort.Strings(res.Tags)
	return res
}

// showVerify renders the error of Verify() as the Lean driver renders verifyErrors: a sorted multiset of kinds.
func (q pr) showVerify(err error) string {
	if err == nil {
		return "ok valid"
	}
	var items []string
	me, ok := err.(interface{ Unwrap() []error })
	if !ok {
		return "ok invalid [?" + err.Error() + "]"
	}
	between := func(msg, pre, suf string) (string, bool) {
		if strings.HasPrefix(msg, pre) && strings.HasSuffix(msg, suf) && len(msg) >= len(pre)+len(suf) {
			return msg[len(pre) : len(msg)-len(suf)], true
		}
		return "", false
	}
	for _, e := range me.Unwrap() {
		msg := e.Error()
		if _, ok := between(msg, "start symbol ", " not in the set of non-terminal symbols"); ok {
			items = append(items, "start")
		} else if _, ok := between(msg, "no production rule for start symbol ", ""); ok {
			items = append(items, "start-prod")
		} else if n, ok := between(msg, "no production rule for non-terminal symbol ", ""); ok {
			items = append(items, "no-prod:"+EncName(n))
		} else if n, ok := between(msg, "production head ", " not in the set of non-terminal symbols"); ok {
			items = append(items, "head:"+EncName(n))
		} else if n, ok := between(msg, "non-terminal symbol ", " not in the set of non-terminal symbols"); ok {
			items = append(items, "nonterm:"+EncName(n))
		} else if t, ok := between(msg, "terminal symbol ", " not in the set of terminal symbols"); ok {
			if u, err := strconv.Unquote(t); err == nil {
				t = u
			}
			items = append(items, "term:"+q.term(grammar.Terminal(t)))
		} else {
			items = append(items, "?"+msg)
		}
	}
	sort.Strings(items)
	return "ok invalid [" + strings.Join(items, "; ") + "]"
}

// verifyOracle: what a well-formed grammar is (DESIGN: start declared and with a production, every declared
// non-terminal with a production, every head and body symbol declared), one complaint per offence.
func verifyOracle(g gx.G) string {
	var items []string
	hasProd := map[string]bool{}
	for _, p := range g.Prods {
		hasProd[p.Head] = true
	}
	if !g.IsNonTerm(g.Start) {
		items = append(items, "start")
	}
	if !hasProd[g.Start] {
		items = append(items, "start-prod")
	}
	seen := map[string]bool{}
	for _, n := range g.NonTerms {
		if !hasProd[n] && !seen[n] {
			items = append(items, "no-prod:"+n)
		}
		seen[n] = true
	}
	for _, p := range g.Prods {
		if !g.IsNonTerm(p.Head) {
			items = append(items, "head:"+p.Head)
		}
		for _, w := range p.Body {
			switch {
			case g.IsNonTerm(w):
			case strings.HasPrefix(w, "^"):
				items = append(items, "nonterm:"+w[1:])
			case !contains(g.Terms, w):
				items = append(items, "term:"+w)
			}
		}
	}
	if len(items) == 0 {
		return "ok valid"
	}
	sort.Strings(items)
	return "ok invalid [" + strings.Join(items, "; ") + "]"
}

// CellProds: the productions of the textbook cell M[A,a] (a == "$": endmarker).
func (o *Oracle) CellProds(A, a string) []gx.P {
	var ps []gx.P
	for _, p := range o.byHead[A] {
		f, eps := o.FirstStr(p.Body)
		in := false
		if a == "$" {
			in = eps && o.followEnd[A]
		} else {
			in = f[a] || (eps && o.follow[A][a])
		}
		if in {
			ps = append(ps, p)
		}
	}
	return ps
}

// Simulate runs the textbook LL(1) driver over the oracle's own table on input w and stops it where the lexer
// (its call number lexAt answers an error) or a callback (the token at position tokAt, the production callback number
// prodAt) fails; -1 = never.  It returns the ending ("accept", "reject <why>", "fail …") and the callbacks that
// completed before it; ending "" when the table has a conflict on the way or the run is too long.
func (o *Oracle) Simulate(w []string, lexAt, tokAt, prodAt int) (string, []string) {
	lexErr := false
	if lexAt >= 0 && lexAt <= len(w) {
		w, lexErr = w[:lexAt], true
	}
	var evs []string
	if len(w) == 0 && lexErr {
		return "fail lexer", evs
	}
	stack := []string{o.G.Start}
	pos, np := 0, 0
	for steps := 0; len(stack) > 0; steps++ {
		if steps > 200000 {
			return "", nil
		}
		X := stack[len(stack)-1]
		cur := "$"
		if pos < len(w) {
			cur = w[pos]
		}
		if !o.G.IsNonTerm(X) {
			if X != cur {
				return "reject terminal", evs
			}
			if pos == tokAt {
				return "fail token@" + strconv.Itoa(pos), evs
			}
			evs = append(evs, X+"@"+strconv.Itoa(pos))
			stack = stack[:len(stack)-1]
			pos++
			if pos == len(w) && lexErr {
				return "fail lexer", evs
			}
			continue
		}
		cell := o.CellProds(X, cur)
		if len(cell) == 0 {
			return "reject noentry", evs
		}
		if len(cell) > 1 {
			return "", nil
		}
		if np == prodAt {
			return "fail prod", evs
		}
		np++
		evs = append(evs, prodKey(cell[0].Head, cell[0].Body))
		stack = stack[:len(stack)-1]
		for k := len(cell[0].Body) - 1; k >= 0; k-- {
			stack = append(stack, cell[0].Body[k])
		}
	}
	if pos < len(w) {
		return "reject trailing", evs
	}
	return "accept", evs
}

// conflictOrder lists the cells named by the errors of BuildParsingTable, in the order reported.  The error type is not
// exported, so each message is matched against the heading the code prints for every (row, column) of the grammar.
func conflictOrder(err error, q pr) []string {
	if err == nil {
		return nil
	}
	var out []string
	me, ok := err.(interface{ Unwrap() []error })
	if !ok {
		return []string{"?" + err.Error()}
	}
	rows := append([]string{}, q.g.NonTerms...)
	sort.Strings(rows)
	rows = dedupSorted(rows)
	cols := append([]string{}, q.g.Terms...)
	sort.Strings(cols)
	cols = append(dedupSorted(cols), "$")
	for _, e := range me.Unwrap() {
		msg := e.Error()
		found := ""
		for _, A := range rows {
			for _, a := range cols {
				ta := grammar.Terminal(Bare(a))
				if a == "$" {
					ta = grammar.Endmarker
				}
				if found == "" && strings.HasPrefix(msg, fmt.Sprintf("multiple productions at M[%s, %s]:\n", NT(A), ta)) {
					found = A + "/" + a
				}
			}
		}
		if found == "" {
			found = "?" + strings.ReplaceAll(msg, "\n", " ")
		}
		out = append(out, found)
	}
	return out
}

// Earley decides w ∈ L(g) (any context-free grammar, ε-productions included); independent of the library.
func Earley(g gx.G, w []string) bool {
	type item struct{ p, dot, orig int }
	prods := append([]gx.P{{Head: "\x00start", Body: []string{g.Start}}}, g.Prods...)
	nullable := g.Nullable()
	byHead := map[string][]int{}
	for i, p := range prods {
		byHead[p.Head] = append(byHead[p.Head], i)
	}
	n := len(w)
	sets := make([]map[item]bool, n+1)
	lists := make([][]item, n+1)
	add := func(k int, it item) {
		if !sets[k][it] {
			sets[k][it] = true
			lists[k] = append(lists[k], it)
		}
	}
	for k := range sets {
		sets[k] = map[item]bool{}
	}
	add(0, item{0, 0, 0})
	for k := 0; k <= n; k++ {
		for idx := 0; idx < len(lists[k]); idx++ {
			it := lists[k][idx]
			body := prods[it.p].Body
			if it.dot < len(body) {
				x := body[it.dot]
				if g.IsNonTerm(x) {
					for _, q := range byHead[x] {
						add(k, item{q, 0, k})
					}
					if nullable[x] {
						add(k, item{it.p, it.dot + 1, it.orig})
					}
				} else if k < n && w[k] == x {
					add(k+1, item{it.p, it.dot + 1, it.orig})
				}
			} else {
				h := prods[it.p].Head
				for j := 0; j < len(lists[it.orig]); j++ {
					pt := lists[it.orig][j]
					b := prods[pt.p].Body
					if pt.dot < len(b) && b[pt.dot] == h {
						add(k, item{pt.p, pt.dot + 1, pt.orig})
					}
				}
			}
		}
	}
	return sets[n][item{0, 1, 0}]
}

// short renders a token string, abbreviating long ones.
func short(w []string) string {
	if len(w) <= 16 {
		return fmt.Sprint(w)
	}
	return fmt.Sprintf("[%s ... %s] (%d tokens)", strings.Join(w[:6], " "), strings.Join(w[len(w)-4:], " "), len(w))
}

func contains(xs []string, x string) bool {
	for _, y := range xs {
		if y == x {
			return true
		}
	}
	return false
}

func dedupSorted(xs []string) []string {
	out := xs[:0]
	for i, x := range xs {
		if i == 0 || x != xs[i-1] {
			out = append(out, x)
		}
	}
	return out
}

func hasLeftCornerCycle(g gx.G, o *Oracle) bool {
	if o == nil {
		return false
	}
	lc := map[string][]string{}
	for _, p := range g.Prods {
		for _, y := range p.Body {
			if g.IsNonTerm(y) {
				lc[p.Head] = append(lc[p.Head], y)
			}
			if !g.IsNonTerm(y) || !o.Nullable[y] {
				break
			}
		}
	}
	for _, n := range g.NonTerms {
		seen := strset{}
		stack := append([]string{}, lc[n]...)
		for len(stack) > 0 {
			x := stack[len(stack)-1]
			stack = stack[:len(stack)-1]
			if x == n {
				return true
			}
			if !seen[x] {
				seen[x] = true
				stack = append(stack, lc[x]...)
			}
		}
	}
	return false
}

// ---------------------------------------------------------------- oracle self-check by brute force

// CrossCheck compares the reachability oracle with brute-force enumeration of bounded sentential
// forms. It returns "" or a description of an element the enumeration found and the oracle lacks
// (the oracle is then wrong), and whether the two agreed exactly.
func CrossCheck(g gx.G, maxLen, maxForms int) (problem string, exact bool) {
	o := NewOracle(g)
	exact = true
	for _, n := range g.NonTerms {
		forms, _ := Brute(g, []string{n}, maxLen, maxForms)
		gotFirst := strset{}
		gotNull := false
		for _, f := range forms {
			if len(f) == 0 {
				gotNull = true
			} else if !g.IsNonTerm(f[0]) {
				gotFirst[f[0]] = true
			}
		}
		if gotNull && !o.Nullable[n] {
			return fmt.Sprintf("%s derives ε by enumeration but the oracle says it is not nullable", n), false
		}
		for t := range gotFirst {
			if !o.first[n][t] {
				return fmt.Sprintf("%s derives a form starting with %s but the oracle's FIRST(%s) = %s", n, t, n, showSet(o.first[n])), false
			}
		}
		if gotNull != o.Nullable[n] || len(gotFirst) != len(o.first[n]) {
			exact = false
		}
	}
	if o.AllReach {
		forms, _ := Brute(g, []string{g.Start}, maxLen, maxForms)
		got := map[string]strset{}
		gotEnd := strset{}
		for _, n := range g.NonTerms {
			got[n] = strset{}
		}
		for _, f := range forms {
			for i, s := range f {
				if !g.IsNonTerm(s) {
					continue
				}
				if i+1 == len(f) {
					gotEnd[s] = true
				} else if !g.IsNonTerm(f[i+1]) {
					got[s][f[i+1]] = true
				}
			}
		}
		for _, n := range g.NonTerms {
			for t := range got[n] {
				if !o.follow[n][t] {
					return fmt.Sprintf("%s is followed by %s in a sentential form but the oracle's FOLLOW(%s) = %s", n, t, n, showSet(o.follow[n])), false
				}
			}
			if gotEnd[n] && !o.followEnd[n] {
				return fmt.Sprintf("%s ends a sentential form but the oracle's FOLLOW(%s) lacks the endmarker", n, n), false
			}
			if len(got[n]) != len(o.follow[n]) || gotEnd[n] != o.followEnd[n] {
				exact = false
			}
		}
	}
	return "", exact
}

// ---------------------------------------------------------------- generation

// Mixes are the generator settings used by C10 and C12.
func Mixes() map[string]gx.GenOpts {
	return map[string]gx.GenOpts{
		"default":     gx.DefaultOpts(),
		"eps-chains":  {MaxNonTerms: 5, MaxTerms: 2, MaxAlts: 3, MaxBody: 3, EpsChance: 35, UnitChance: 20, LeftRec: 5, CommonPref: 5},
		"recursive":   {MaxNonTerms: 3, MaxTerms: 3, MaxAlts: 3, MaxBody: 4, EpsChance: 10, UnitChance: 25, LeftRec: 40, CommonPref: 10},
		"non-reduced": {MaxNonTerms: 5, MaxTerms: 3, MaxAlts: 2, MaxBody: 3, EpsChance: 15, UnitChance: 15, LeftRec: 25, CommonPref: 0},
		"near-ll1":    {MaxNonTerms: 4, MaxTerms: 3, MaxAlts: 2, MaxBody: 3, EpsChance: 25, UnitChance: 5, LeftRec: 0, CommonPref: 0},
	}
}

// Strings enumerates the symbol strings of length 1..k over the grammar's symbols.
func Strings(g gx.G, k int) [][]string {
	syms := append(append([]string{}, g.NonTerms...), g.Terms...)
	var out [][]string
	level := [][]string{{}}
	for i := 0; i < k; i++ {
		var next [][]string
		for _, s := range level {
			for _, x := range syms {
				next = append(next, append(append([]string{}, s...), x))
			}
		}
		out = append(out, next...)
		level = next
	}
	return out
}

// Queries builds the op list of a C10 case.
func Queries(r *hx.Rand, g gx.G, maxStrings int) []string {
	ops := g.Lines()
	ops = append(ops, "nullable", "first")
	ss := Strings(g, 3)
	if len(ss) > maxStrings {
		// all of length <= 2, a sample of length 3
		var keep [][]string
		var long [][]string
		for _, s := range ss {
			if len(s) <= 2 {
				keep = append(keep, s)
			} else {
				long = append(long, s)
			}
		}
		for len(keep) < maxStrings && len(long) > 0 {
			j := r.Intn(len(long))
			keep = append(keep, long[j])
			long[j] = long[len(long)-1]
			long = long[:len(long)-1]
		}
		ss = keep
	}
	for _, s := range ss {
		ops = append(ops, "first "+strings.Join(s, " "))
	}
	for _, n := range g.NonTerms {
		ops = append(ops, "follow "+n)
	}
	ops = append(ops, "ll1", "table", "unchanged")
	return ops
}

// WithRepeats rewrites some bodies so that one non-terminal occurs twice in them, with different
// neighbours (what a per-occurrence FOLLOW rule has to get right).
func WithRepeats(r *hx.Rand, g gx.G) gx.G {
	seen := map[string]bool{}
	for _, p := range g.Prods {
		seen[prodKey(p.Head, p.Body)] = true
	}
	n := r.Range(1, 3)
	for k := 0; k < n; k++ {
		x := hx.Pick(r, g.NonTerms)
		t1, t2 := hx.Pick(r, g.Terms), hx.Pick(r, g.Terms)
		var body []string
		switch r.Intn(5) {
		case 0:
			body = []string{x, t1, x, t2}
		case 1:
			body = []string{x, x}
		case 2:
			body = []string{t1, x, x}
		case 3:
			body = []string{x, t1, x}
		default:
			body = []string{x, hx.Pick(r, g.NonTerms), x, t2}
		}
		p := gx.P{Head: hx.Pick(r, g.NonTerms), Body: body}
		if !seen[prodKey(p.Head, p.Body)] {
			seen[prodKey(p.Head, p.Body)] = true
			g.Prods = append(g.Prods, p)
		}
		if r.Chance(1, 2) {
			e := gx.P{Head: x}
			if !seen[prodKey(e.Head, e.Body)] {
				seen[prodKey(e.Head, e.Body)] = true
				g.Prods = append(g.Prods, e)
			}
		}
	}
	return g
}

// EpsChain is a grammar in which ε reaches S only through a chain of depth d of all-nullable bodies
// (N1 -> N2 [N2], ..., Nd -> ε), with terminals behind the nullable prefixes.
func EpsChain(r *hx.Rand, d int) gx.G {
	g := gx.G{Terms: []string{"a", "b", "c"}, Start: "S", NonTerms: []string{"S"}}
	for i := 1; i <= d; i++ {
		g.NonTerms = append(g.NonTerms, fmt.Sprintf("N%d", i))
	}
	n := func(i int) string { return fmt.Sprintf("N%d", i) }
	g.Prods = append(g.Prods, gx.P{Head: "S", Body: []string{n(1), "a"}})
	if r.Chance(1, 2) {
		g.Prods = append(g.Prods, gx.P{Head: "S", Body: []string{n(1), n(r.Range(1, d)), "b"}})
	}
	if r.Chance(1, 2) {
		g.Prods = append(g.Prods, gx.P{Head: "S", Body: []string{n(1)}})
	}
	for i := 1; i < d; i++ {
		switch r.Intn(3) {
		case 0:
			g.Prods = append(g.Prods, gx.P{Head: n(i), Body: []string{n(i + 1)}})
		case 1:
			g.Prods = append(g.Prods, gx.P{Head: n(i), Body: []string{n(i + 1), n(i + 1)}})
		default:
			g.Prods = append(g.Prods, gx.P{Head: n(i), Body: []string{n(i + 1), n(r.Range(i+1, d))}})
		}
		if r.Chance(1, 3) {
			g.Prods = append(g.Prods, gx.P{Head: n(i), Body: []string{hx.Pick(r, g.Terms), n(i)}})
		}
	}
	g.Prods = append(g.Prods, gx.P{Head: n(d)})
	if r.Chance(1, 2) {
		g.Prods = append(g.Prods, gx.P{Head: n(d), Body: []string{"c"}})
	}
	// shuffle the production list so that declaration order does not help
	for i := len(g.Prods) - 1; i > 0; i-- {
		j := r.Intn(i + 1)
		g.Prods[i], g.Prods[j] = g.Prods[j], g.Prods[i]
	}
	return g
}

// RandomProd draws one production over the grammar's symbols that the grammar does not have yet.
func RandomProd(r *hx.Rand, g gx.G) (gx.P, bool) {
	for try := 0; try < 20; try++ {
		p := gx.P{Head: hx.Pick(r, g.NonTerms)}
		for l := r.Intn(4); l > 0; l-- {
			if r.Chance(2, 5) {
				p.Body = append(p.Body, hx.Pick(r, g.NonTerms))
			} else {
				p.Body = append(p.Body, hx.Pick(r, g.Terms))
			}
		}
		dup := false
		for _, q := range g.Prods {
			if prodKey(q.Head, q.Body) == prodKey(p.Head, p.Body) {
				dup = true
			}
		}
		if !dup {
			return p, true
		}
	}
	return gx.P{}, false
}

// ---------------------------------------------------------------- malformed grammars, shared names, faults

func cloneG(g gx.G) gx.G {
	h := gx.G{Terms: append([]string{}, g.Terms...), NonTerms: append([]string{}, g.NonTerms...), Start: g.Start}
	for _, p := range g.Prods {
		h.Prods = append(h.Prods, gx.P{Head: p.Head, Body: append([]string{}, p.Body...)})
	}
	return h
}

// MalformKinds is the number of ways Malform breaks a grammar.
const MalformKinds = 9

// Malform breaks a valid grammar in way number kind: each error branch of Verify(), and the shapes on which
// ComputeFIRST / ComputeFOLLOW / the FIRST closure dereference the nil answer of a table lookup.
// "z" is a terminal that is not declared, "^Z" a non-terminal that is not declared.
func Malform(r *hx.Rand, g gx.G, kind int) gx.G {
	h := cloneG(g)
	undecl := func() string {
		if r.Chance(1, 2) {
			return "z"
		}
		return "^Z"
	}
	switch kind % MalformKinds {
	case 0: // start symbol not declared (and so without a production)
		h.Start = "Z"
	case 1: // start symbol not declared, but the head of a production
		h.Start = "Z"
		h.Prods = append(h.Prods, gx.P{Head: "Z", Body: []string{hx.Pick(r, g.Terms)}})
	case 2: // no production for the start symbol
		var ps []gx.P
		for _, p := range h.Prods {
			if p.Head != g.Start {
				ps = append(ps, p)
			}
		}
		h.Prods = ps
	case 3: // a declared non-terminal without production, used in a body or not
		h.NonTerms = append(h.NonTerms, "Y")
		if r.Chance(2, 3) {
			h.Prods = append(h.Prods, gx.P{Head: hx.Pick(r, g.NonTerms), Body: []string{hx.Pick(r, g.Terms), "Y"}})
		}
	case 4: // a production whose head is not declared
		h.Prods = append(h.Prods, gx.P{Head: "Z", Body: []string{hx.Pick(r, g.Terms)}})
	case 5: // an undeclared symbol somewhere in an existing body
		if len(h.Prods) == 0 {
			h.Prods = append(h.Prods, gx.P{Head: hx.Pick(r, g.NonTerms)})
		}
		k := r.Intn(len(h.Prods))
		b := h.Prods[k].Body
		at := r.Intn(len(b) + 1)
		nb := append(append(append([]string{}, b[:at]...), undecl()), b[at:]...)
		h.Prods[k].Body = nb
	case 6: // an undeclared symbol right behind a non-terminal that stands behind a terminal: ComputeFIRST stops at the
		// terminal, ComputeFOLLOW asks the closure for FIRST of the rest
		h.Prods = append(h.Prods, gx.P{Head: hx.Pick(r, g.NonTerms), Body: []string{hx.Pick(r, g.Terms), hx.Pick(r, g.NonTerms), undecl()}})
	case 7: // an undeclared symbol at the front of a new body
		h.Prods = append(h.Prods, gx.P{Head: hx.Pick(r, g.NonTerms), Body: []string{undecl(), hx.Pick(r, g.Terms)}})
	case 8: // an undeclared non-terminal as the last symbol behind a terminal (only FOLLOW's table lacks it)
		h.Prods = append(h.Prods, gx.P{Head: hx.Pick(r, g.NonTerms), Body: []string{hx.Pick(r, g.Terms), "^Z"}})
	}
	return h
}

// SharedNames renames one terminal to the name of a non-terminal (written 'X) and puts it in front of up to two of
// X's alternatives: Terminal("X") and NonTerminal("X") in one grammar.
func SharedNames(r *hx.Rand, g gx.G) gx.G {
	x := hx.Pick(r, g.NonTerms)
	t := hx.Pick(r, g.Terms)
	h := gx.G{NonTerms: append([]string{}, g.NonTerms...), Start: g.Start}
	for _, u := range g.Terms {
		if u == t {
			u = Q + x
		}
		h.Terms = append(h.Terms, u)
	}
	seen := map[string]bool{}
	fronted := 0
	for _, p := range g.Prods {
		q := gx.P{Head: p.Head}
		for _, w := range p.Body {
			if w == t && !g.IsNonTerm(w) {
				w = Q + x
			}
			q.Body = append(q.Body, w)
		}
		if p.Head == x && fronted < 2 && (len(q.Body) == 0 || q.Body[0] != Q+x) && r.Chance(1, 2) {
			q.Body = append([]string{Q + x}, q.Body...)
			fronted++
		}
		if k := prodKey(q.Head, q.Body); !seen[k] {
			seen[k] = true
			h.Prods = append(h.Prods, q)
		}
	}
	return h
}

// ForcedQueries: verify, then the analyses run on the grammar whether it passes Verify() or not (a panic ends the
// case, so the order is shuffled: every analysis gets to be the one that dereferences nil).
func ForcedQueries(r *hx.Rand, g gx.G) []string {
	ops := append(g.Lines(), "verify", "nullable")
	var qs []string
	qs = append(qs, "!nullable", "!ll1", "!table")
	for _, n := range g.NonTerms {
		qs = append(qs, "!follow "+n)
	}
	ss := Strings(g, 2)
	for k := 0; k < 4 && len(ss) > 0; k++ {
		qs = append(qs, "!first "+strings.Join(ss[r.Intn(len(ss))], " "))
	}
	for _, p := range g.Prods {
		if r.Chance(1, 2) {
			qs = append(qs, strings.TrimRight("!first "+strings.Join(p.Body, " "), " "))
		}
	}
	ws := g.Words(2)
	for k := 0; k < 3; k++ {
		qs = append(qs, strings.TrimRight("!parse "+ws[r.Intn(len(ws))], " "))
	}
	qs = append(qs, strings.TrimRight("!ast "+ws[r.Intn(len(ws))], " "), "!cell "+hx.Pick(r, g.NonTerms)+" "+hx.Pick(r, g.Terms))
	for i := len(qs) - 1; i > 0; i-- {
		j := r.Intn(i + 1)
		qs[i], qs[j] = qs[j], qs[i]
	}
	return append(append(ops, qs...), "unchanged")
}

// MemoQueries: the FIRST closure is asked for strings that run into an undeclared symbol behind a nullable prefix
// (caught panic), then for the same strings again (the memo table answers with the partial value), mixed with
// well-formed strings; at the end FOLLOW of a non-terminal that does not exist.
func MemoQueries(r *hx.Rand, g gx.G) []string {
	var ops []string
	nul := g.Nullable()
	var nuls []string
	for _, n := range g.NonTerms {
		if nul[n] {
			nuls = append(nuls, n)
		}
	}
	for k := 0; k < 4; k++ {
		var s []string
		for j := r.Intn(3); j > 0 && len(nuls) > 0; j-- {
			s = append(s, hx.Pick(r, nuls))
		}
		if r.Chance(1, 3) {
			s = append(s, hx.Pick(r, g.NonTerms))
		}
		if r.Chance(2, 3) {
			s = append(s, []string{"z", "^Z"}[r.Intn(2)])
		}
		if r.Chance(1, 2) {
			s = append(s, hx.Pick(r, g.Terms))
		}
		line := strings.TrimRight(strings.Join(s, " "), " ")
		ops = append(ops, strings.TrimRight("tryfirst "+line, " "), strings.TrimRight("first "+line, " "))
		if r.Chance(1, 2) {
			ops = append(ops, strings.TrimRight("tryfirst "+line, " "))
		}
	}
	return ops
}

// CellQueries: the accessors on every cell, on a row and a column that do not exist.
func CellQueries(r *hx.Rand, g gx.G) []string {
	var ops []string
	for _, n := range append(append([]string{}, g.NonTerms...), "^Z") {
		for _, t := range append(append([]string{}, g.Terms...), "$", "z") {
			if n == "^Z" || t == "z" || r.Chance(2, 3) {
				ops = append(ops, "cell "+n+" "+t)
			}
		}
	}
	return ops
}

// FaultQueries: Parse with a lexer that fails at one of its calls and callbacks that return an error at one of theirs,
// ParseAndBuildAST with a failing lexer, Parse without callbacks; over the words ws.
func FaultQueries(r *hx.Rand, ws []string, perWord int) []string {
	var ops []string
	arg := func(n int) string {
		if n < 0 {
			return "-"
		}
		return strconv.Itoa(n)
	}
	for _, w := range ws {
		n := 0
		if w != "" {
			n = strings.Count(w, " ") + 1
		}
		for k := 0; k < perWord; k++ {
			l, t, p := -1, -1, -1
			switch r.Intn(6) {
			case 0:
				l = r.Intn(n + 2)
			case 1:
				t = r.Intn(n + 1)
			case 2:
				p = r.Intn(2*n + 3)
			case 3:
				l, t, p = r.Intn(n+2), r.Intn(n+1), r.Intn(2*n+3)
			case 4:
				t, p = r.Intn(n+1), r.Intn(2*n+3)
			case 5: // nothing fails
			}
			ops = append(ops, strings.TrimRight(fmt.Sprintf("parsef %s %s %s : %s", arg(l), arg(t), arg(p), w), " "))
		}
		if r.Chance(1, 2) {
			ops = append(ops, strings.TrimRight(fmt.Sprintf("astf %s : %s", arg(r.Intn(n+2)-1), w), " "))
		}
		if r.Chance(1, 3) {
			ops = append(ops, strings.TrimRight("parse0 "+w, " "))
		}
	}
	return ops
}

// ---------------------------------------------------------------- symbol names as a generator dimension

// The property quantifies over all grammars, and the library accepts any Go string as the name of a symbol.  The code
// looks symbols and strings of symbols up in hash tables that hash the WRITTEN form (non-terminals by name, terminals
// quoted, strings without separator) and compare by value, orders rows and columns by name, and makes new names by
// appending reserved suffixes; so names are a dimension of the input space like shapes are.  A NameScheme is a pool of
// raw names; Rename maps the symbols of a generated grammar injectively into it.

type NameScheme struct {
	Name string
	NT   []string // the first three are chosen so that two different strings over them are written alike
	T    []string // no double quote, backslash or control character (Model/C08.lean: symStr is `%q` for such names only)
}

var NameSchemes = []NameScheme{
	// names that are concatenations of other names: [A B] / [AB], [AB A] / [A BA], [A A] / [AA], …
	{"concatenations", []string{"A", "B", "AB", "BA", "AA", "ABA", "BB", "BAB", "AAB"}, []string{"a", "b", "ab", "ba"}},
	// identifiers with shared prefixes and suffixes
	{"words", []string{"expr", "list", "exprlist", "ex", "pr", "term", "listterm", "exprterm", "prlist"}, []string{"x", ",", "id", "idx"}},
	// non-terminals named like the written form of terminals ("a" with the quotes) and like terminals (a)
	{"like-terminals", []string{`"a"`, `"b"`, `"a""b"`, "a", `"ab"`, "b", `"`, `""`, "ab"}, []string{"a", "b", "ab", "c"}},
	// the suffixes AddNewNonTerminal appends
	{"reserved-suffixes", []string{"S", "′", "S′", "S″", "S′′", "S₁", "S₂", "₁", "S′₁"}, []string{"a", "a′", "′", "₁"}},
	// the empty name, names that look like ε, the endmarker, the protocol's own markers and separators
	{"odd", []string{"", "ε", "εε", "$", " ", "A B", "→", "'", "^A", "%", "A→a", "\t", "%41", "S'"},
		[]string{"", "ε", "$", " ", "a b", "'", "^", "%", "%61", "→"}},
	// names with spaces: [A B] / ["A B"] are rendered alike (String[Symbol].String() joins the symbols with a space)
	{"spaces", []string{"A", "B", "A B", "B A", "A B A", " ", "A  B", `"a" "b"`, "B  A"}, []string{"a", "b", "a b", " b"}},
	// terminals in upper case: named like the non-terminals, and sorted among them
	{"upper-case-terminals", []string{"S", "A", "B", "C", "D", "E", "U", "V", "N"}, []string{"A", "S", "B", "a", "Z0"}},
	// names that embed what a home-made key might put BETWEEN two symbols (a kind letter, a separator): with a key such as
	// kind letter + name + blank per symbol, [A, B] and the single non-terminal "A nB" are written alike (ProxyFormCollisions)
	{"embedded-keys", []string{"A", "B", "A nB", "A tb", "A,nB", "A|B", "A,B", "nA", "A NB"}, []string{"b", "a", "b nA", "a,b", "tb"}},
}

func pickNames(r *hx.Rand, pool []string, k int, prefix bool) []string {
	p := append([]string{}, pool...)
	if !prefix || k > len(p) {
		for i := len(p) - 1; i > 0; i-- {
			j := r.Intn(i + 1)
			p[i], p[j] = p[j], p[i]
		}
	}
	for i := len(p); i < k; i++ { // pool too small: make more names out of it
		p = append(p, pool[i%len(pool)]+strings.Repeat("x", i/len(pool)))
	}
	p = p[:k]
	for i := len(p) - 1; i > 0; i-- { // which symbol gets which name
		j := r.Intn(i + 1)
		p[i], p[j] = p[j], p[i]
	}
	return p
}

// Rename maps the non-terminals and terminals of g (plain words) injectively to names of the scheme and returns the
// grammar in canonical words.  prefix: take the first names of the pool (the colliding ones) instead of a random subset.
func Rename(r *hx.Rand, g gx.G, sc NameScheme, prefix bool) gx.G {
	nts := pickNames(r, sc.NT, len(g.NonTerms), prefix)
	ts := pickNames(r, sc.T, len(g.Terms), false)
	ntw, tw, isNT := map[string]string{}, map[string]string{}, map[string]bool{}
	for i, n := range g.NonTerms {
		ntw[n] = EncName(nts[i])
		isNT[ntw[n]] = true
	}
	for i, t := range g.Terms {
		w := EncName(ts[i])
		if isNT[w] {
			w = Q + w
		}
		tw[t] = w
	}
	h := gx.G{Start: ntw[g.Start]}
	for _, n := range g.NonTerms {
		h.NonTerms = append(h.NonTerms, ntw[n])
	}
	for _, t := range g.Terms {
		h.Terms = append(h.Terms, tw[t])
	}
	for _, p := range g.Prods {
		q := gx.P{Head: ntw[p.Head]}
		for _, x := range p.Body {
			if g.IsNonTerm(x) {
				q.Body = append(q.Body, ntw[x])
			} else {
				q.Body = append(q.Body, tw[x])
			}
		}
		h.Prods = append(h.Prods, q)
	}
	return DropOrderTies(h)
}

// written is what the library writes for a symbol given as a canonical word (Symbol.String()).
func written(g gx.G, w string) string {
	if g.IsNonTerm(w) || strings.HasPrefix(w, "^") {
		return string(NT(w))
	}
	return strconv.Quote(Bare(w))
}

// WrittenForm is what grammar.WriteString writes for a string of symbols: the symbols one after the other.
func WrittenForm(g gx.G, ws []string) string {
	var b strings.Builder
	for _, w := range ws {
		b.WriteString(written(g, w))
	}
	return b.String()
}

// Rendered is String[Symbol].String(): the written symbols joined by a space, ε for the empty string.
func Rendered(g gx.G, ws []string) string {
	if len(ws) == 0 {
		return "ε"
	}
	parts := make([]string, len(ws))
	for i, w := range ws {
		parts[i] = written(g, w)
	}
	return strings.Join(parts, " ")
}

// WrittenFormCollisions: groups of two or more different symbol strings of length <= k (the empty string included)
// over the grammar's symbols that are written alike (WriteString: no separator).
func WrittenFormCollisions(g gx.G, k int) [][][]string { return collisions(g, k, WrittenForm, "") }

// RenderedAlike: the same for String() (joined by a space).
func RenderedAlike(g gx.G, k int) [][][]string { return collisions(g, k, Rendered, "ε") }

// ProxyFormCollisions: the same for renderings the library does NOT use today but a memo table or a "seen" set might
// plausibly be keyed by after a change: an optional kind letter in front of every name, a separator between (or a
// terminator behind) the names.  A key of that kind is a proxy for the string of symbols, and the property holds only if
// the proxy is injective on the strings that actually occur; so strings that collide under one of these renderings are
// put into one grammar and asked of one FIRST closure (seeded change C10-u1: kind letter + name + blank).
func ProxyFormCollisions(g gx.G, k int) [][][]string {
	var out [][][]string
	for _, kd := range [][2]string{{"t", "n"}, {"T", "N"}, {"", ""}} {
		for _, sep := range []string{" ", ",", "|", ""} {
			for _, terminated := range []bool{false, true} {
				if kd[0] == "" && !terminated && (sep == "" || sep == " ") {
					continue // these are WrittenForm / Rendered up to the quotes
				}
				kd, sep, terminated := kd, sep, terminated
				form := func(g gx.G, s []string) string {
					var b strings.Builder
					for i, x := range s {
						if i > 0 && !terminated {
							b.WriteString(sep)
						}
						if g.IsNonTerm(x) {
							b.WriteString(kd[1])
						} else {
							b.WriteString(kd[0])
						}
						b.WriteString(x)
						if terminated {
							b.WriteString(sep)
						}
					}
					return b.String()
				}
				out = append(out, collisions(g, k, form, "")...)
			}
		}
	}
	return out
}

func collisions(g gx.G, k int, form func(gx.G, []string) string, empty string) [][][]string {
	by := map[string][][]string{empty: {{}}}
	var order []string
	for _, s := range Strings(g, k) {
		wf := form(g, s)
		if by[wf] == nil {
			order = append(order, wf)
		}
		by[wf] = append(by[wf], s)
	}
	var out [][][]string
	if len(by[empty]) > 1 {
		out = append(out, by[empty])
	}
	for _, wf := range order {
		if wf != empty && len(by[wf]) > 1 {
			out = append(out, by[wf])
		}
	}
	return out
}

// DropOrderTies removes a production when an earlier one with the same head has as many non-terminals, as many terminals
// and the same rendering (String[Symbol].String(): the written symbols joined by a space).  cmpProduction answers 0 for
// such a pair, so OrderNonTerminals (which Conflicts() reports its rows by) sorts them in an order that depends on the
// hash-set iteration; only names with spaces or quotes can do that.  Reported as an observation on OrderNonTerminals.
func DropOrderTies(g gx.G) gx.G {
	seen := map[string]bool{}
	var ps []gx.P
	for _, p := range g.Prods {
		nn, parts := 0, []string{}
		for _, x := range p.Body {
			if g.IsNonTerm(x) {
				nn++
			}
			parts = append(parts, written(g, x))
		}
		k := fmt.Sprintf("%s\x00%d\x00%d\x00%s", p.Head, nn, len(p.Body)-nn, strings.Join(parts, " "))
		if !seen[k] {
			seen[k] = true
			ps = append(ps, p)
		}
	}
	g.Prods = ps
	return g
}

// MaybeRename renames two grammars out of five (k is the number of the case in its family).
func MaybeRename(r *hx.Rand, g gx.G, k int) (gx.G, string) {
	if k%5 != 1 && k%5 != 3 {
		return g, "plain"
	}
	sc := NameSchemes[r.Intn(len(NameSchemes))]
	return Rename(r, g, sc, r.Chance(1, 2)), sc.Name
}

// Colliding builds a grammar in which two different strings of symbols that are written alike both occur: as bodies,
// and behind a non-terminal inside a body (where ComputeFOLLOW, IsLL1 and BuildParsingTable ask the FIRST closure for
// them).  It returns the grammar and the colliding strings (nil when the names of the scheme give none).
func Colliding(r *hx.Rand, g gx.G, sc NameScheme) (gx.G, [][]string) {
	for len(g.NonTerms) < 3 { // three names are what a collision among non-terminals needs
		n := []string{"X1", "X2", "X3"}[len(g.NonTerms)-1]
		g.NonTerms = append(g.NonTerms, n)
		g.Prods = append(g.Prods, gx.P{Head: n, Body: []string{hx.Pick(r, g.Terms)}})
		if r.Chance(1, 2) {
			g.Prods = append(g.Prods, gx.P{Head: n})
		}
		if r.Chance(2, 3) {
			g.Prods = append(g.Prods, gx.P{Head: g.Start, Body: []string{hx.Pick(r, g.Terms), n}})
		}
	}
	g = Rename(r, g, sc, true)
	groups := append(WrittenFormCollisions(g, 3), RenderedAlike(g, 3)...)
	if sc.Name == "embedded-keys" || len(groups) == 0 {
		groups = append(groups, ProxyFormCollisions(g, 3)...)
	}
	if len(groups) == 0 {
		return g, nil
	}
	grp := groups[r.Intn(len(groups))]
	i := r.Intn(len(grp))
	j := r.Intn(len(grp) - 1)
	if j >= i {
		j++
	}
	pair := [][]string{grp[i], grp[j]}
	seen := map[string]bool{}
	for _, p := range g.Prods {
		seen[prodKey(p.Head, p.Body)] = true
	}
	add := func(p gx.P) {
		if !seen[prodKey(p.Head, p.Body)] {
			seen[prodKey(p.Head, p.Body)] = true
			g.Prods = append(g.Prods, p)
		}
	}
	for _, s := range pair {
		switch r.Intn(4) {
		case 0: // a body
			add(gx.P{Head: hx.Pick(r, g.NonTerms), Body: append([]string{}, s...)})
		case 1: // behind a non-terminal that stands behind a terminal
			add(gx.P{Head: hx.Pick(r, g.NonTerms), Body: append([]string{hx.Pick(r, g.Terms), hx.Pick(r, g.NonTerms)}, s...)})
		case 2: // behind a non-terminal at the front
			add(gx.P{Head: hx.Pick(r, g.NonTerms), Body: append([]string{hx.Pick(r, g.NonTerms)}, s...)})
		case 3: // a body with a terminal behind it
			add(gx.P{Head: hx.Pick(r, g.NonTerms), Body: append(append([]string{}, s...), hx.Pick(r, g.Terms))})
		}
	}
	return DropOrderTies(g), pair
}

// ---------------------------------------------------------------- one grammar object over time: every way to edit it in place

// EditKinds is the number of kinds of edit RandomEdit makes.
const EditKinds = 13

func bodyUses(g gx.G, w string) bool {
	for _, p := range g.Prods {
		for _, x := range p.Body {
			if x == w {
				return true
			}
		}
	}
	return false
}

func headCountOf(g gx.G, h string) int {
	n := 0
	for _, p := range g.Prods {
		if p.Head == h {
			n++
		}
	}
	return n
}

func replaceProd(g *gx.G, old, nw gx.P) {
	ps := append([]gx.P{}, g.Prods...)
	for i, p := range ps {
		if prodKey(p.Head, p.Body) == prodKey(old.Head, old.Body) {
			ps[i] = nw
		}
	}
	g.Prods = ps
}

func removeProdOf(g *gx.G, old gx.P) {
	var ps []gx.P
	for _, p := range g.Prods {
		if prodKey(p.Head, p.Body) != prodKey(old.Head, old.Body) {
			ps = append(ps, p)
		}
	}
	g.Prods = ps
}

func without(xs []string, x string) []string {
	var out []string
	for _, y := range xs {
		if y != x {
			out = append(out, y)
		}
	}
	return out
}

// RandomEdit makes one in-place edit of kind `kind` (mod EditKinds) of the grammar *g — through Productions.Add / Remove /
// RemoveAll, through the set Productions.Get returns or AllByHead yields, through the pointer of a production inside the
// grammar (its Body assigned, one element of its Body written), through the sets of terminals and non-terminals (also
// one in, one out: the sizes stay), through the fields themselves — and returns its description lines; *g is the grammar
// afterwards.  n numbers the new names.  No line when the grammar has no room for that kind of edit.
func RandomEdit(r *hx.Rand, g *gx.G, kind, n int) []string {
	existing := func(minHead int) (gx.P, bool) {
		var c []gx.P
		for _, p := range g.Prods {
			if headCountOf(*g, p.Head) >= minHead {
				c = append(c, p)
			}
		}
		if len(c) == 0 {
			return gx.P{}, false
		}
		return c[r.Intn(len(c))], true
	}
	unusedTerm := func() (string, bool) {
		var c []string
		for _, t := range g.Terms {
			if !bodyUses(*g, t) {
				c = append(c, t)
			}
		}
		if len(c) == 0 {
			return "", false
		}
		return c[r.Intn(len(c))], true
	}
	switch kind % EditKinds {
	case 0: // Productions.Add
		if p, ok := RandomProd(r, *g); ok {
			g.Prods = append(append([]gx.P{}, g.Prods...), p)
			return []string{descLine("prod", p)}
		}
	case 1: // Productions.Remove
		if p, ok := existing(2); ok {
			removeProdOf(g, p)
			return []string{descLine("unprod", p)}
		}
	case 2: // Add on the set of the head
		if p, ok := RandomProd(r, *g); ok && headCountOf(*g, p.Head) > 0 {
			g.Prods = append(append([]gx.P{}, g.Prods...), p)
			return []string{descLine([]string{"getadd", "yieldadd"}[r.Intn(2)], p)}
		}
	case 3: // Remove on the set of the head
		if p, ok := existing(2); ok {
			removeProdOf(g, p)
			return []string{descLine([]string{"getremove", "yieldremove"}[r.Intn(2)], p)}
		}
	case 4: // p.Body = …
		if old, ok := existing(1); ok {
			h := *g
			h.Prods = nil
			for _, p := range g.Prods { // RandomProd picks a head: offer it this one only
				if p.Head == old.Head {
					h.Prods = append(h.Prods, p)
				}
			}
			h.NonTerms = append([]string{old.Head}, without(g.NonTerms, old.Head)...)
			for try := 0; try < 8; try++ {
				nw, ok := RandomProd(r, h)
				if ok && nw.Head == old.Head {
					replaceProd(g, old, nw)
					return []string{strings.TrimRight("setbody "+old.Head+" : "+strings.Join(old.Body, " ")+" => "+strings.Join(nw.Body, " "), " ")}
				}
			}
		}
	case 5: // p.Body[i] = X
		if old, ok := existing(1); ok && len(old.Body) > 0 {
			for try := 0; try < 8; try++ {
				i := r.Intn(len(old.Body))
				x := hx.Pick(r, append(append([]string{}, g.NonTerms...), g.Terms...))
				nb := append([]string{}, old.Body...)
				nb[i] = x
				dup := false
				for _, p := range g.Prods {
					if prodKey(p.Head, p.Body) == prodKey(old.Head, nb) {
						dup = true
					}
				}
				if !dup {
					replaceProd(g, old, gx.P{Head: old.Head, Body: nb})
					return []string{fmt.Sprintf("setsym %s %d %s : %s", old.Head, i, x, strings.Join(old.Body, " "))}
				}
			}
		}
	case 6: // Terminals.Add, and a production that begins with the new terminal, added through the head's set
		t := fmt.Sprintf("zq%d", n)
		g.Terms = append(append([]string{}, g.Terms...), t)
		ls := []string{"terms " + t}
		if p, ok := existing(1); ok && r.Chance(2, 3) {
			nw := gx.P{Head: p.Head, Body: []string{t}}
			g.Prods = append(append([]gx.P{}, g.Prods...), nw)
			ls = append(ls, descLine("getadd", nw))
		}
		return ls
	case 7: // Terminals.Remove
		if t, ok := unusedTerm(); ok && len(g.Terms) > 1 {
			g.Terms = without(g.Terms, t)
			return []string{"unterm " + t}
		}
	case 8: // one terminal out, one in: the size of the set stays
		if t, ok := unusedTerm(); ok {
			nt := fmt.Sprintf("zq%d", n)
			g.Terms = append(without(g.Terms, t), nt)
			ls := []string{"unterm " + t, "terms " + nt}
			if r.Chance(1, 2) {
				ls[0], ls[1] = ls[1], ls[0]
			}
			return ls
		}
	case 9: // NonTerminals.Add with a production, reached from an existing head
		x := fmt.Sprintf("Xq%d", n)
		g.NonTerms = append(append([]string{}, g.NonTerms...), x)
		nw := gx.P{Head: x, Body: []string{hx.Pick(r, g.Terms)}}
		g.Prods = append(append([]gx.P{}, g.Prods...), nw)
		ls := []string{"nonterms " + x, descLine("prod", nw)}
		if p, ok := existing(1); ok && r.Chance(2, 3) {
			use := gx.P{Head: p.Head, Body: []string{hx.Pick(r, g.Terms), x}}
			g.Prods = append(g.Prods, use)
			ls = append(ls, descLine([]string{"prod", "getadd"}[r.Intn(2)], use))
		}
		return ls
	case 10: // Productions.RemoveAll and NonTerminals.Remove of a non-terminal no body uses
		var c []string
		for _, x := range g.NonTerms {
			if x != g.Start && !bodyUses(*g, x) && !contains(g.Terms, Q+x) {
				c = append(c, x)
			}
		}
		if len(c) > 0 {
			x := c[r.Intn(len(c))]
			var ps []gx.P
			for _, p := range g.Prods {
				if p.Head != x {
					ps = append(ps, p)
				}
			}
			g.Prods, g.NonTerms = ps, without(g.NonTerms, x)
			return []string{"unprodall " + x, "unnonterm " + x}
		}
	case 11: // a field replaced by a clone of itself
		return []string{"refresh " + []string{"prods", "terms", "nonterms"}[r.Intn(3)]}
	case 12: // Start = another non-terminal
		x := hx.Pick(r, g.NonTerms)
		if headCountOf(*g, x) > 0 {
			g.Start = x
			return []string{"start " + x}
		}
	}
	return nil
}

// EditHistory: rounds of queries (q gives them for the grammar as it is) with in-place edits of every kind between
// them, on one grammar object.  from: the kind of the first edit (the kinds follow each other, so that a family
// numbered from 0 meets every kind first).
func EditHistory(r *hx.Rand, g gx.G, from, rounds int, q func(gx.G) []string) []string {
	ops := append(g.Lines(), q(g)...)
	g2 := cloneG(g)
	for k := 0; k < rounds; k++ {
		kind := from + k
		if k > 0 && r.Chance(1, 3) {
			kind = r.Intn(EditKinds)
		}
		ls := RandomEdit(r, &g2, kind, k)
		if ls == nil {
			ls = RandomEdit(r, &g2, 2, k) // the default: Add on the set of a head
		}
		ops = append(ops, ls...)
		ops = append(ops, q(g2)...)
	}
	return ops
}

// KeptHistory: objects made at one time and used after the grammar has been edited: a FIRST closure, a FOLLOW
// function, a parsing table (they answer for the grammar as it was) and a parser (it answers for the grammar as it is).
// words: the inputs for the parser.
func KeptHistory(r *hx.Rand, g gx.G, from int, words func(gx.G) []string) []string {
	ops := append(g.Lines(), "keep first F1", "keep follow O1", "keep table T1", "keep parser P1")
	askKept := func(g0 gx.G, tag string) []string {
		var qs []string
		ss := Strings(g0, 2)
		for k := 0; k < 6 && len(ss) > 0; k++ {
			pre := "first "
			if r.Chance(1, 4) {
				pre = "firstbuf "
			}
			qs = append(qs, "with F"+tag+" "+pre+strings.Join(ss[r.Intn(len(ss))], " "))
		}
		for _, n := range g0.NonTerms {
			if r.Chance(2, 3) {
				qs = append(qs, "with O"+tag+" follow "+n)
			}
			for _, t := range append(append([]string{}, g0.Terms...), "$") {
				if r.Chance(1, 3) {
					qs = append(qs, "with T"+tag+" cell "+n+" "+t)
				}
			}
		}
		return qs
	}
	askParser := func(gNow gx.G, tag string) []string {
		var qs []string
		for _, w := range words(gNow) {
			cmd := "parse"
			switch r.Intn(8) {
			case 0:
				cmd = "ast"
			case 1:
				cmd = "parse0"
			}
			qs = append(qs, strings.TrimRight("with P"+tag+" "+cmd+" "+w, " "))
		}
		return qs
	}
	ops = append(ops, askKept(g, "1")...)
	ops = append(ops, askParser(g, "1")...)
	g2 := cloneG(g)
	for k := 0; k < 3; k++ {
		kind := from + k
		if kind%EditKinds == 10 { // the kept objects are asked about the symbols of their grammar: keep them declared
			kind = 2
		}
		ls := RandomEdit(r, &g2, kind, k)
		if ls == nil {
			ls = RandomEdit(r, &g2, 0, k)
		}
		ops = append(ops, ls...)
		ops = append(ops, askParser(g2, "1")...)
		ops = append(ops, askKept(g, "1")...)
		if k == 1 {
			// a second generation of objects, made from the edited grammar
			ops = append(ops, "keep first F2", "keep parser P2")
			if qs := askKept(g2, "2"); len(qs) > 3 {
				ops = append(ops, qs[:3]...)
			}
		}
		if k == 2 {
			ops = append(ops, askParser(g2, "2")...)
		}
		ops = append(ops, "ll1", "table")
	}
	ops = append(ops, "with F9 first", "with P1 first", "unchanged")
	return ops
}

// BufferQueries asks one FIRST closure for many strings through ONE buffer of the caller (`firstbuf`), each string
// written over the one before, then for some of them again.
func BufferQueries(r *hx.Rand, g gx.G, n int) []string {
	ss := Strings(g, 3)
	var ops []string
	for k := 0; k < n && len(ss) > 0; k++ {
		s := ss[r.Intn(len(ss))]
		ops = append(ops, "firstbuf "+strings.Join(s, " "))
		if r.Chance(1, 6) {
			ops = append(ops, "first "+strings.Join(s, " "))
		}
	}
	return ops
}

// ---------------------------------------------------------------- size thresholds

// SweepSizes are the sizes the threshold families visit (quick: the ones around 64 and 256 and one large one).
func SweepSizes(thorough bool) []int {
	if thorough {
		return []int{1, 2, 63, 64, 65, 66, 127, 128, 129, 130, 255, 256, 257, 258, 1023, 1024, 1025}
	}
	return []int{63, 64, 65, 66, 130, 257}
}

func numbered(prefix string, n int) []string {
	out := make([]string, n)
	for i := range out {
		out[i] = fmt.Sprintf("%s%04d", prefix, i)
	}
	return out
}

// Sweep builds a grammar that is large in ONE dimension — n terminals, n non-terminals, one head with n alternatives, one
// body of n symbols — and small in all others, in which the symbols at the far end of the dimension (the terminals that
// sort last, the last non-terminal of a chain, the last alternative, the last symbol of the body) take part in the
// FIRST and FOLLOW sets; with the queries that look at both ends, an LL(1) conflict on a late terminal, and edits that
// grow the grammar past the size and shrink it back.
func Sweep(r *hx.Rand, dim string, n int) (gx.G, []string) {
	var g gx.G
	var qs []string
	late := func(xs []string) []string { // the members around the thresholds and at both ends
		var out []string
		for _, i := range []int{0, 1, 62, 63, 64, 65, 127, 128, 129, 255, 256, 257, len(xs) - 2, len(xs) - 1} {
			if i >= 0 && i < len(xs) && !contains(out, xs[i]) {
				out = append(out, xs[i])
			}
		}
		return out
	}
	switch dim {
	case "terminals":
		// S -> A B ; A -> t (for the late t) | ε ; B -> t A (for the late t) | t_last | t_last S : a conflict on the last terminal
		ts := numbered("t", n)
		g = gx.G{Terms: ts, NonTerms: []string{"S", "A", "B"}, Start: "S"}
		g.Prods = append(g.Prods, gx.P{Head: "S", Body: []string{"A", "B"}}, gx.P{Head: "A"})
		for _, t := range late(ts) {
			g.Prods = append(g.Prods, gx.P{Head: "A", Body: []string{t}})
		}
		for _, t := range late(ts)[len(late(ts))/2:] {
			g.Prods = append(g.Prods, gx.P{Head: "B", Body: []string{t, "A"}})
		}
		g.Prods = append(g.Prods, gx.P{Head: "B", Body: []string{ts[n-1]}}, gx.P{Head: "B", Body: []string{ts[n-1], "S"}})
		qs = append(qs, "nullable", "first S", "first A", "first B", "first A B", "first B A", "first A A "+ts[n-1], "follow S", "follow A", "follow B", "ll1", "table")
		for _, t := range late(ts) {
			qs = append(qs, "first "+t, "cell A "+t, "cell B "+t, "cell S "+t)
		}
		// one more terminal, sorted last, beginning a derivation; and away again
		nt := fmt.Sprintf("t%04d", n)
		qs = append(qs, "terms "+nt, "getadd A : "+nt, "first S", "first A", "follow B", "ll1", "cell A "+nt, "cell S "+nt, "table",
			"getremove A : "+nt, "unterm "+nt, "first S", "follow A", "table", "unchanged")
	case "nonterminals":
		// a chain N0 -> N1 | a, …, N_last -> b | ε : FIRST(N0) gets b only through all of them
		ns := numbered("N", n)
		g = gx.G{Terms: []string{"a", "b", "c"}, NonTerms: ns, Start: ns[0]}
		// (listed from the far end: the Model iterates in list order and is through in two passes, the Go code iterates its
		// hash tables in shuffled order and needs as many passes as the shuffle makes it need)
		g.Prods = append(g.Prods, gx.P{Head: ns[n-1], Body: []string{"b"}}, gx.P{Head: ns[n-1]})
		for i := n - 2; i >= 0; i-- {
			g.Prods = append(g.Prods, gx.P{Head: ns[i], Body: []string{ns[i+1], "c"}})
			if i%7 == 0 {
				g.Prods = append(g.Prods, gx.P{Head: ns[i], Body: []string{"a"}})
			}
		}
		qs = append(qs, "nullable", "ll1", "table")
		for _, x := range late(ns) {
			qs = append(qs, "first "+x, "follow "+x, "cell "+x+" b", "cell "+x+" c")
		}
		nn := fmt.Sprintf("N%04d", n)
		qs = append(qs, "nonterms "+nn, "prod "+nn+" : a b", "getadd "+ns[n-1]+" : "+nn, "first "+ns[0], "first "+nn, "follow "+nn, "ll1",
			"getremove "+ns[n-1]+" : "+nn, "unprodall "+nn, "unnonterm "+nn, "first "+ns[0], "follow "+ns[n-1], "unchanged")
	case "alternatives":
		// S -> t_i A (one alternative per terminal) | ε ; A -> S | t_0
		ts := numbered("t", n)
		g = gx.G{Terms: ts, NonTerms: []string{"S", "A"}, Start: "S"}
		for _, t := range ts {
			g.Prods = append(g.Prods, gx.P{Head: "S", Body: []string{t, "A"}})
		}
		g.Prods = append(g.Prods, gx.P{Head: "S"}, gx.P{Head: "A", Body: []string{"S"}}, gx.P{Head: "A", Body: []string{ts[0]}})
		qs = append(qs, "nullable", "first S", "first A", "first A S", "follow S", "follow A", "ll1", "table")
		for _, t := range late(ts) {
			qs = append(qs, "cell S "+t, "cell A "+t)
		}
		qs = append(qs, "getremove S : "+ts[n-1]+" A", "first S", "ll1", "cell S "+ts[n-1], "getadd S : "+ts[n-1]+" A", "first S", "cell S "+ts[n-1], "unchanged")
	case "body":
		// S -> A^(n-1) b ; A -> a | ε : FIRST(S) has b only behind n-1 nullable symbols
		body := make([]string, n)
		for i := range body {
			body[i] = "A"
		}
		body[n-1] = "b"
		g = gx.G{Terms: []string{"a", "b"}, NonTerms: []string{"S", "A"}, Start: "S",
			Prods: []gx.P{{Head: "S", Body: body}, {Head: "A", Body: []string{"a"}}, {Head: "A"}}}
		qs = append(qs, "nullable", "first S", "first A", "first "+strings.Join(body, " "), "first "+strings.Join(body[1:], " "), "first "+strings.Join(body[:n-1], " "),
			"follow S", "follow A", "ll1", "table",
			fmt.Sprintf("setsym S %d A : %s", n-1, strings.Join(body, " ")), "nullable", "first S", "follow A", "ll1",
			"unchanged")
	}
	return g, qs
}

// ---------------------------------------------------------------- names that share a hash bucket

// The grammar and parser packages keep their tables (FIRST by symbol, FOLLOW and the productions by non-terminal, the
// rows and columns of the parsing table) in quadratic-probing hash tables of 31, then 67, … slots, hashed by
// grammar.HashSymbol / HashNonTerminal / HashTerminal.  A probe sequence visits (m+1)/2 slots; that a free one is among
// them rests on the load factor.  SameBucketNames finds, by asking the library's own tables where they put a key, names
// that all start their probe sequence at ONE slot of an m-slot table: nNT non-terminals and nT terminals.
//
//	kind "symbol":      by grammar.HashSymbol (non-terminals and terminals in one table)
//	kind "nonterminal": the non-terminals by grammar.HashNonTerminal (the terminals are then ordinary names)
//	kind "terminal":    the terminals by grammar.HashTerminal
func SameBucketNames(kind string, m, nNT, nT int) (nts, ts []string) {
	ntSlot := func(name string) int {
		return startSlot(grammar.HashSymbol, grammar.EqSymbol, m, grammar.Symbol(grammar.NonTerminal(name)))
	}
	tSlot := func(name string) int {
		return startSlot(grammar.HashSymbol, grammar.EqSymbol, m, grammar.Symbol(grammar.Terminal(name)))
	}
	switch kind {
	case "nonterminal":
		ntSlot = func(name string) int {
			return startSlot(grammar.HashNonTerminal, grammar.EqNonTerminal, m, grammar.NonTerminal(name))
		}
		tSlot = nil
	case "terminal":
		tSlot = func(name string) int {
			return startSlot(grammar.HashTerminal, grammar.EqTerminal, m, grammar.Terminal(name))
		}
		ntSlot = nil
	}
	byN, byT := make([][]string, m), make([][]string, m)
	for k := 0; k < 40*m*(nNT+nT+1); k++ {
		if ntSlot != nil {
			n := fmt.Sprintf("Q%d", k)
			byN[ntSlot(n)] = append(byN[ntSlot(n)], n)
		}
		if tSlot != nil {
			t := fmt.Sprintf("q%d", k)
			byT[tSlot(t)] = append(byT[tSlot(t)], t)
		}
		for slot := 0; slot < m; slot++ {
			if (ntSlot == nil || len(byN[slot]) >= nNT) && (tSlot == nil || len(byT[slot]) >= nT) {
				if ntSlot != nil {
					nts = byN[slot][:nNT]
				} else {
					nts = numbered("Q", nNT)
				}
				if tSlot != nil {
					ts = byT[slot][:nT]
				} else {
					ts = numbered("q", nT)
				}
				return nts, ts
			}
		}
	}
	return numbered("Q", nNT), numbered("q", nT)
}

// startSlot: where a quadratic-probing table of m slots (as the library builds it) puts the key when it is empty.
func startSlot[K any](h hash.HashFunc[K], eq generic.EqualFunc[K], m int, key K) int {
	t := symboltable.NewQuadraticHashTable[K, int](h, eq, func(a, b int) bool { return a == b }, symboltable.HashOpts{InitialCap: m})
	t.Put(key, 0)
	if st, ok := symboltable.VerifHashSlots[K, int](t); ok && len(st.Slots) == 1 {
		return st.Slots[0].Index
	}
	return 0
}

// ChainGrammar: N0 -> t0 N1 | t1, …, N_last -> t1 | ε over the given names (LL(1); terminals beyond the second are only
// declared).  Listed from the far end (see Sweep).
func ChainGrammar(ns, ts []string) gx.G {
	g := gx.G{NonTerms: ns, Terms: ts, Start: ns[0]}
	t0, t1 := ts[0], ts[len(ts)-1]
	n := len(ns)
	if t0 != t1 {
		g.Prods = append(g.Prods, gx.P{Head: ns[n-1], Body: []string{t1}})
	}
	g.Prods = append(g.Prods, gx.P{Head: ns[n-1]})
	for i := n - 2; i >= 0; i-- {
		g.Prods = append(g.Prods, gx.P{Head: ns[i], Body: []string{t0, ns[i+1]}})
		if t0 != t1 {
			g.Prods = append(g.Prods, gx.P{Head: ns[i], Body: []string{t1}})
		}
	}
	return g
}

// TreeGrammar: N_i -> t0 N_(2i+1) | t1 N_(2i+2), the non-terminals without children -> ε (LL(1), as deep as log n:
// the fixpoints and the Model are through in a few passes whatever n is).  Listed from the far end.
func TreeGrammar(ns, ts []string) gx.G {
	g := gx.G{NonTerms: ns, Terms: ts, Start: ns[0]}
	t0, t1 := ts[0], ts[len(ts)-1]
	n := len(ns)
	for i := n - 1; i >= 0; i-- {
		l, r := 2*i+1, 2*i+2
		if l >= n {
			g.Prods = append(g.Prods, gx.P{Head: ns[i]})
			continue
		}
		g.Prods = append(g.Prods, gx.P{Head: ns[i], Body: []string{t0, ns[l]}})
		if r < n && t0 != t1 {
			g.Prods = append(g.Prods, gx.P{Head: ns[i], Body: []string{t1, ns[r]}})
		} else if t0 != t1 {
			g.Prods = append(g.Prods, gx.P{Head: ns[i], Body: []string{t1}})
		}
	}
	return g
}

// KeywordGrammar: S -> t_i N (one alternative per terminal) | ε, the non-terminals beyond the first two in a chain
// behind N (LL(1)): a keyword table.
func KeywordGrammar(ns, ts []string) gx.G {
	g := gx.G{NonTerms: ns, Terms: ts, Start: ns[0]}
	tail := ns[0]
	if len(ns) > 1 {
		tail = ns[1]
	}
	for i, t := range ts {
		if tail == ns[0] || i%2 == 1 {
			g.Prods = append(g.Prods, gx.P{Head: ns[0], Body: []string{t}})
		} else {
			g.Prods = append(g.Prods, gx.P{Head: ns[0], Body: []string{t, tail}})
		}
	}
	g.Prods = append(g.Prods, gx.P{Head: ns[0]})
	for i := 1; i < len(ns); i++ {
		if i+1 < len(ns) {
			g.Prods = append(g.Prods, gx.P{Head: ns[i], Body: []string{ns[i+1]}})
		} else {
			g.Prods = append(g.Prods, gx.P{Head: ns[i]})
		}
	}
	return g
}

// Sentence of a ChainGrammar / KeywordGrammar: a short one.
func shortSentence(g gx.G) string {
	for w := range g.LangK(2) {
		if w != "" {
			return w
		}
	}
	return ""
}

// BucketGrammars: small grammars all of whose symbols (or non-terminals, or terminals) start at one slot of the 31-slot
// (17–23 of them) or the 67-slot (35–40) table.  k numbers the variant.
func BucketGrammars(k int) (gx.G, string) {
	kinds := []string{"symbol", "nonterminal", "terminal"}
	kind := kinds[k%3]
	m, total := 31, 17+(k/3)%7
	if (k/3)%5 == 4 {
		m, total = 67, 35+(k/3)%6
	}
	var nNT, nT int
	switch kind {
	case "symbol":
		nNT = 2 + (k/3)%(total-3)
		nT = total - nNT
	case "nonterminal":
		nNT, nT = total, 2
	default:
		nNT, nT = 2, total
	}
	ns, ts := SameBucketNames(kind, m, nNT, nT)
	var g gx.G
	if (k/3)%2 == 0 || nT < 3 {
		g = ChainGrammar(ns, ts)
	} else {
		g = KeywordGrammar(ns, ts)
	}
	return g, fmt.Sprintf("bucket=%s slots=%d nts=%d ts=%d", kind, m, nNT, nT)
}

// BucketQueries: every analysis once, FIRST of every symbol, a parse.
func BucketQueries(g gx.G) []string {
	qs := []string{"nullable"}
	for _, x := range append(append([]string{}, g.NonTerms...), g.Terms...) {
		qs = append(qs, "first "+x)
	}
	for _, n := range g.NonTerms {
		qs = append(qs, "follow "+n)
	}
	qs = append(qs, "ll1", "table", strings.TrimRight("parse "+shortSentence(g), " "), "parse "+g.Terms[0]+" "+g.Terms[0]+" "+g.Terms[0], "unchanged")
	return qs
}

// ---------------------------------------------------------------- exactly one LL(1) violation, at every number of alternatives

// LL1Kinds: the kinds of violation OneViolation makes (3: none, the control).
var LL1Kinds = []string{"first-first", "first-follow-through-eps", "first-follow-through-nullable-body", "none"}

// OneViolation: S -> A x, and A with m alternatives A -> t_i (distinct terminals), among them exactly ONE violation of the
// LL(1) conditions of the given kind, the offending alternative being the one with the terminal at position pos of the
// sorted terminals (0 early, 1 middle, 2 late; cmpProduction sorts bodies with more non-terminals first, then more
// terminals, then by their rendering, the empty body last):
//
//	first-first                         A -> t_p and A -> t_p z
//	first-follow-through-eps            A -> ε, and x = t_p: FIRST(A -> t_p) meets FOLLOW(A)
//	first-follow-through-nullable-body  A -> B with B -> ε (the nullable alternative sorts FIRST), and x = t_p
//	none                                A -> ε and x = z: LL(1)
func OneViolation(kind, m, pos int) gx.G {
	plain := m - 1 // m alternatives in all: the plain ones and the extra one
	if plain < 1 {
		plain = 1
	}
	ts := numbered("t", plain)
	p := []int{0, plain / 2, plain - 1}[pos%3]
	g := gx.G{Terms: append(append([]string{}, ts...), "z"), NonTerms: []string{"S", "A"}, Start: "S"}
	x := "z"
	for _, t := range ts {
		g.Prods = append(g.Prods, gx.P{Head: "A", Body: []string{t}})
	}
	switch kind % len(LL1Kinds) {
	case 0:
		g.Prods = append(g.Prods, gx.P{Head: "A", Body: []string{ts[p], "z"}})
	case 1:
		g.Prods = append(g.Prods, gx.P{Head: "A"})
		x = ts[p]
	case 2:
		g.NonTerms = append(g.NonTerms, "B")
		g.Prods = append(g.Prods, gx.P{Head: "A", Body: []string{"B"}}, gx.P{Head: "B"})
		x = ts[p]
	case 3:
		g.Prods = append(g.Prods, gx.P{Head: "A"})
	}
	g.Prods = append([]gx.P{{Head: "S", Body: []string{"A", x}}}, g.Prods...)
	return g
}

func descLine(kind string, p gx.P) string {
	return strings.TrimRight(kind+" "+p.Head+" : "+strings.Join(p.Body, " "), " ")
}

// queriesOnly is Queries without the description lines.
func queriesOnly(r *hx.Rand, g gx.G, maxStrings int) []string {
	return Queries(r, g, maxStrings)[len(g.Lines()):]
}

func Main(run *hx.Run) {
	run.Stats.Rule = Rule
	for _, f := range hx.CorpusFiles("C10") {
		cs, _ := hx.ReadReplay(f)
		for _, c := range cs {
			run.Do(hx.HeaderGet(c.Header, "comp"), c, Exec)
		}
	}
	mixes := Mixes()
	names := hx.SortedKeys(mixes)
	cross, crossExact := 0, 0
	for _, name := range names {
		r := run.R.Fork(name)
		n := run.Scale(250)
		for k := 0; k < n; k++ {
			g := gx.Random(r, mixes[name])
			if name == "non-reduced" && r.Chance(1, 2) {
				// graft an unreachable and an unproductive non-terminal
				g.NonTerms = append(g.NonTerms, "U", "V")
				g.Prods = append(g.Prods, gx.P{Head: "U", Body: []string{"U", g.Terms[0]}}, gx.P{Head: "V", Body: []string{g.Terms[0], "S"}}, gx.P{Head: "V", Body: nil})
				if r.Chance(1, 2) {
					g.Prods = append(g.Prods, gx.P{Head: "S", Body: []string{"U"}})
				}
			}
			g, nm := MaybeRename(r, g, k)
			c := hx.Case{Header: fmt.Sprintf("comp=analysis mix=%s names=%s shuffle=%d", name, nm, r.Intn(1<<30)), Ops: Queries(r, g, 160)}
			run.Do("analysis", c, Exec)
			if len(g.NonTerms) <= 3 && len(g.Prods) <= 6 && (run.Thorough() || k%4 == 0) {
				msg, exact := CrossCheck(g, 7, 4000)
				cross++
				if exact {
					crossExact++
				}
				if msg != "" {
					bc := hx.Case{Header: "comp=oracle-selfcheck", Ops: g.Lines()}
					run.Do("oracle-selfcheck", bc, func(hx.Case) hx.Result {
						outs := make([]string, len(bc.Ops))
						for i := range outs {
							outs[i] = "ok"
						}
						return hx.Result{Outs: outs, BadOp: len(outs) - 1, What: "oracle self-check failed: " + msg}
					})
				}
			}
		}
	}
	// repeated non-terminals inside one body
	{
		r := run.R.Fork("repeats")
		for k := 0; k < run.Scale(250); k++ {
			g, nm := MaybeRename(r, WithRepeats(r, gx.Random(r, mixes[names[r.Intn(len(names))]])), k)
			c := hx.Case{Header: fmt.Sprintf("comp=analysis mix=repeats names=%s shuffle=%d", nm, r.Intn(1<<30)), Ops: Queries(r, g, 60)}
			run.Do("analysis", c, Exec)
		}
	}
	// ε-chains of depth 3..6, each under many iteration orders
	{
		r := run.R.Fork("eps-chain-family")
		for k := 0; k < run.Scale(30); k++ {
			g, nm := MaybeRename(r, EpsChain(r, r.Range(3, 6)), k)
			ops := Queries(r, g, 40)
			for sd := 0; sd < 12; sd++ {
				c := hx.Case{Header: fmt.Sprintf("comp=analysis mix=eps-chain-family names=%s shuffle=%d", nm, r.Intn(1<<30)), Ops: ops}
				run.Do("analysis", c, Exec)
			}
		}
	}
	// the same *CFG object changed in place between two rounds of queries
	{
		r := run.R.Fork("in-place")
		for k := 0; k < run.Scale(120); k++ {
			g, nm := MaybeRename(r, gx.Random(r, mixes[names[r.Intn(len(names))]]), k)
			ops := Queries(r, g, 30)
			g2 := g
			for round := 0; round < 2; round++ {
				p, ok := RandomProd(r, g2)
				if !ok {
					break
				}
				g2.Prods = append(append([]gx.P{}, g2.Prods...), p)
				ops = append(ops, descLine("prod", p))
				ops = append(ops, queriesOnly(r, g2, 30)...)
				if r.Chance(1, 2) {
					ops = append(ops, descLine("unprod", p))
					g2.Prods = g2.Prods[:len(g2.Prods)-1]
					ops = append(ops, queriesOnly(r, g2, 20)...)
				}
			}
			c := hx.Case{Header: fmt.Sprintf("comp=analysis mix=in-place names=%s shuffle=%d", nm, r.Intn(1<<30)), Ops: ops}
			run.Do("analysis", c, Exec)
		}
	}
	// grammars Verify() rejects: which errors it reports, and what the analyses do when they are run all the same
	{
		r := run.R.Fork("malformed")
		for k := 0; k < run.Scale(160); k++ {
			g, nm := MaybeRename(r, gx.Random(r, mixes[names[r.Intn(len(names))]]), k/2) // k/2: every kind of Malform meets renamed grammars
			g = Malform(r, g, k)
			if r.Chance(1, 5) {
				g = Malform(r, g, r.Intn(MalformKinds))
			}
			c := hx.Case{Header: fmt.Sprintf("comp=analysis mix=malformed names=%s shuffle=%d", nm, r.Intn(1<<30)), Ops: ForcedQueries(r, g)}
			run.Do("analysis", c, Exec)
		}
	}
	// the memo table of the FIRST closure, the table accessors, FOLLOW of a non-terminal that does not exist;
	// half of the grammars with a terminal named like a non-terminal
	{
		r := run.R.Fork("memo-and-accessors")
		for k := 0; k < run.Scale(120); k++ {
			g, nm := MaybeRename(r, gx.Random(r, mixes[names[r.Intn(len(names))]]), k/2)
			if k%2 == 1 {
				g = SharedNames(r, g)
			}
			ops := append(g.Lines(), "verify")
			ops = append(ops, MemoQueries(r, g)...)
			ops = append(ops, "table")
			ops = append(ops, CellQueries(r, g)...)
			ops = append(ops, queriesOnly(r, g, 25)...)
			ops = append(ops, MemoQueries(r, g)...)
			switch r.Intn(3) {
			case 0:
				ops = append(ops, "follow Z")
			case 1:
				ops = append(ops, "first "+hx.Pick(r, g.Terms)+" z", "first z")
			}
			c := hx.Case{Header: fmt.Sprintf("comp=analysis mix=memo-and-accessors names=%s shuffle=%d", nm, r.Intn(1<<30)), Ops: ops}
			run.Do("analysis", c, Exec)
		}
	}
	// different strings of symbols that the library writes alike (it hashes strings by their written form): both asked of
	// one FIRST closure, in either order, and both inside bodies, where FOLLOW / IsLL1 / the table construction ask for them
	{
		r := run.R.Fork("name-collisions")
		for k := 0; k < run.Scale(150); k++ {
			sc := NameSchemes[k%len(NameSchemes)]
			g, pair := Colliding(r, gx.Random(r, mixes[names[r.Intn(len(names))]]), sc)
			ops := g.Lines()
			for _, s := range pair {
				ops = append(ops, strings.TrimRight("first "+strings.Join(s, " "), " "))
			}
			qs := queriesOnly(r, g, 80)
			if k%2 == 1 { // FOLLOW, IsLL1 and the table before any query of ours
				qs = append(qs[len(qs)-3-len(g.NonTerms):], qs[:len(qs)-3-len(g.NonTerms)]...)
			}
			ops = append(ops, qs...)
			for i := len(pair) - 1; i >= 0; i-- {
				ops = append(ops, strings.TrimRight("first "+strings.Join(pair[i], " "), " "))
			}
			c := hx.Case{Header: fmt.Sprintf("comp=analysis mix=name-collisions names=%s shuffle=%d", sc.Name, r.Intn(1<<30)), Ops: ops}
			run.Do("analysis", c, Exec)
		}
	}
	// one grammar object over time: every way the API lets a caller change it in place, queries before and after
	{
		r := run.R.Fork("edits")
		for k := 0; k < run.Scale(130); k++ {
			g, nm := MaybeRename(r, gx.Random(r, mixes[names[r.Intn(len(names))]]), k)
			ops := EditHistory(r, g, k, 4, func(h gx.G) []string { return queriesOnly(r, h, 16) })
			c := hx.Case{Header: fmt.Sprintf("comp=analysis mix=edits names=%s shuffle=%d", nm, r.Intn(1<<30)), Ops: ops}
			run.Do("analysis", c, Exec)
		}
	}
	// objects kept across edits: FIRST closure, FOLLOW function, table (the grammar as it was), parser (as it is)
	{
		r := run.R.Fork("kept-objects")
		for k := 0; k < run.Scale(60); k++ {
			g, nm := MaybeRename(r, gx.Random(r, mixes[names[r.Intn(len(names))]]), k)
			ops := KeptHistory(r, g, k, func(h gx.G) []string {
				ws := h.Words(2)
				var out []string
				for j := 0; j < 5; j++ {
					out = append(out, ws[r.Intn(len(ws))])
				}
				return out
			})
			c := hx.Case{Header: fmt.Sprintf("comp=analysis mix=kept-objects names=%s eof=%s shuffle=%d", nm, EOFKinds[k%len(EOFKinds)], r.Intn(1<<30)), Ops: ops}
			run.Do("analysis", c, Exec)
		}
	}
	// size thresholds: one dimension large, all others small
	{
		r := run.R.Fork("sweep")
		for _, dim := range []string{"terminals", "nonterminals", "alternatives", "body"} {
			for _, n := range SweepSizes(run.Thorough()) {
				g, qs := Sweep(r, dim, n)
				c := hx.Case{Header: fmt.Sprintf("comp=analysis mix=sweep dim=%s size=%d shuffle=%d", dim, n, r.Intn(1<<30)), Ops: append(g.Lines(), qs...)}
				run.Do("analysis", c, Exec)
			}
		}
	}
	// exactly one LL(1) violation (or none) in a head with m alternatives, for EVERY m from 2 to 40 and at the sweep sizes,
	// each kind with the offending alternative early / in the middle / late in the sort order: IsLL1's verdict against the
	// table's conflicts and the oracle
	{
		r := run.R.Fork("one-violation")
		ms := []int{}
		for m := 2; m <= 40; m++ {
			ms = append(ms, m)
		}
		ms = append(ms, 63, 64, 65, 66, 130, 257)
		for _, m := range ms {
			for kind := range LL1Kinds {
				for pos := 0; pos < 3; pos++ {
					if kind == 3 && pos > 0 {
						continue
					}
					g := OneViolation(kind, m, pos)
					ops := append(g.Lines(), "ll1", "table", "first A", "follow A", "cell A "+g.Terms[0], "cell A "+g.Terms[len(g.Terms)-2], "unchanged")
					c := hx.Case{Header: fmt.Sprintf("comp=analysis mix=one-violation kind=%s alternatives=%d pos=%d shuffle=%d", LL1Kinds[kind], m, pos, r.Intn(1<<30)), Ops: ops}
					run.Do("analysis", c, Exec)
				}
			}
		}
	}
	// (enlarged budget) every number of non-terminals (a shallow tree) and of terminals (a keyword table) from 1 to 200
	if run.Huge() {
		r := run.R.Fork("every-size")
		for n := 1; n <= 200; n++ {
			for d, g := range []gx.G{TreeGrammar(numbered("N", n), []string{"a", "b"}), KeywordGrammar([]string{"S", "A"}, numbered("t", n))} {
				ops := append(g.Lines(), "first "+g.Start, "follow "+g.NonTerms[len(g.NonTerms)-1], "ll1", "cell "+g.Start+" "+g.Terms[len(g.Terms)-1], "unchanged")
				c := hx.Case{Header: fmt.Sprintf("comp=analysis mix=every-size dim=%s size=%d shuffle=%d", []string{"nonterminals", "terminals"}[d], n, r.Intn(1<<30)), Ops: ops}
				run.Do("analysis", c, Exec)
			}
		}
	}
	// small grammars whose symbols share ONE probe path of the library's 31-slot (67-slot) hash tables
	{
		r := run.R.Fork("same-bucket")
		n := 42
		if run.Huge() {
			n = 84
		}
		for k := 0; k < n; k++ {
			g, what := BucketGrammars(k)
			c := hx.Case{Header: fmt.Sprintf("comp=analysis mix=same-bucket %s shuffle=%d", what, r.Intn(1<<30)), Ops: append(g.Lines(), BucketQueries(g)...)}
			run.Do("analysis", c, Exec)
		}
	}
	// the caller's slice used for one string after the other (kept last: see the fix of the memo table's key)
	{
		r := run.R.Fork("reused-buffer")
		for k := 0; k < run.Scale(40); k++ {
			g, nm := MaybeRename(r, gx.Random(r, mixes[names[r.Intn(len(names))]]), k)
			ops := append(g.Lines(), BufferQueries(r, g, 50)...)
			ops = append(ops, queriesOnly(r, g, 12)...)
			c := hx.Case{Header: fmt.Sprintf("comp=analysis mix=reused-buffer names=%s shuffle=%d", nm, r.Intn(1<<30)), Ops: ops}
			run.Do("analysis", c, Exec)
		}
	}
	if run.Thorough() {
		// every grammar over non-terminals {S,A}, terminal {a}, 1-2 alternatives each, bodies of length <= 2
		n := 0
		Enumerate([]string{"S", "A"}, []string{"a"}, 2, 2, func(g gx.G) {
			n++
			c := hx.Case{Header: fmt.Sprintf("comp=analysis mix=exhaustive shuffle=%d", n), Ops: Queries(run.R, g, 1000)}
			run.Do("analysis", c, Exec)
			if msg, exact := CrossCheck(g, 7, 4000); msg != "" {
				panic("oracle self-check failed on " + g.Show() + ": " + msg)
			} else {
				cross++
				if exact {
					crossExact++
				}
			}
		})
		// the same grammars with the non-terminals called A and AA: [A A] / [AA], [A AA] / [AA A] / [A A A] are written alike
		m := 0
		Enumerate([]string{"A", "AA"}, []string{"a"}, 2, 2, func(g gx.G) {
			m++
			if m%2 == 0 { // every other one
				return
			}
			ops := g.Lines()
			if m%4 == 1 {
				ops = append(ops, "first AA", "first A A", "first AA A", "first A AA")
			} else {
				ops = append(ops, "follow A", "follow AA", "ll1", "table")
			}
			c := hx.Case{Header: fmt.Sprintf("comp=analysis mix=exhaustive names=concatenations shuffle=%d", m), Ops: append(ops, queriesOnly(run.R, g, 1000)...)}
			run.Do("analysis", c, Exec)
		})
		run.Stats.Extra["exhaustive_part"] = fmt.Sprintf("all %d grammars over {S,A} x {a} with 1-2 alternatives per non-terminal and bodies of length <=2, FIRST on every string of length <=3; every other one again with the non-terminals named A and AA", n)
	}
	run.Stats.Extra["oracle_crosschecked_by_enumeration"] = cross
	run.Stats.Extra["oracle_equal_to_enumeration"] = crossExact
}

// Enumerate calls f for every grammar whose non-terminals nts each have between 1 and maxAlts
// distinct alternatives drawn from the bodies of length <= maxBody over nts ∪ ts (start = nts[0]).
func Enumerate(nts, ts []string, maxAlts, maxBody int, f func(gx.G)) {
	syms := append(append([]string{}, nts...), ts...)
	bodies := [][]string{{}}
	level := [][]string{{}}
	for i := 0; i < maxBody; i++ {
		var next [][]string
		for _, s := range level {
			for _, x := range syms {
				next = append(next, append(append([]string{}, s...), x))
			}
		}
		bodies = append(bodies, next...)
		level = next
	}
	// alternative sets: non-empty subsets of bodies of size <= maxAlts (as index lists)
	var altSets [][]int
	var rec func(start int, cur []int)
	rec = func(start int, cur []int) {
		if len(cur) > 0 {
			altSets = append(altSets, append([]int{}, cur...))
		}
		if len(cur) == maxAlts {
			return
		}
		for i := start; i < len(bodies); i++ {
			rec(i+1, append(cur, i))
		}
	}
	rec(0, nil)
	choice := make([]int, len(nts))
	for {
		g := gx.G{Terms: ts, NonTerms: nts, Start: nts[0]}
		for k, n := range nts {
			for _, bi := range altSets[choice[k]] {
				g.Prods = append(g.Prods, gx.P{Head: n, Body: bodies[bi]})
			}
		}
		f(g)
		i := len(nts) - 1
		for i >= 0 {
			choice[i]++
			if choice[i] < len(altSets) {
				break
			}
			choice[i] = 0
			i--
		}
		if i < 0 {
			return
		}
	}
}
