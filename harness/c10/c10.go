// Package c10: nullable / FIRST / FOLLOW / IsLL1 / predictive parsing table (C10) and the executor
// shared with C12 (predictive parser), run on the real grammar and parser/predictive packages and
// judged by an independent oracle (left-corner reachability, follow-graph reachability, the exact
// bounded language of gx, brute-force enumeration of bounded sentential forms).
package c10

import (
	"fmt"
	"io"
	"sort"
	"strconv"
	"strings"
	"time"

	"github.com/moorara/algo/grammar"
	"github.com/moorara/algo/lexer"
	"github.com/moorara/algo/parser"
	"github.com/moorara/algo/parser/predictive"
	"github.com/moorara/algo/set"
	"github.com/moorara/algo/symboltable"

	"verifharness/gx"
	"verifharness/hx"
)

const Rule = "cases = (grammar, iteration-shuffle seed, queries) drawn from VERIF_SEED: random valid grammars " +
	"(<=5 non-terminals, <=3 terminals, bodies <=4) from five mixes (default, epsilon-heavy chains, unit/left-recursive, " +
	"with unreachable and unproductive non-terminals, near-LL(1)); queries: nullable, FIRST of every symbol string of " +
	"length <=3 (sampled above 160 strings), FOLLOW of every non-terminal, ll1, table, unchanged; non-trivial = the grammar " +
	"has a nullable non-terminal, a left-corner cycle, or an unreachable/unproductive non-terminal; distinct = distinct (header, op list)"

// ---------------------------------------------------------------- independent oracle

type strset = map[string]bool

type Oracle struct {
	G         gx.G
	Nullable  strset
	first     map[string]strset // non-terminal -> terminals (left-corner reachability)
	follow    map[string]strset // non-terminal -> terminals (follow-graph reachability)
	followEnd strset
	Reach     strset
	Prod      strset
	AllReach  bool
	Reduced   bool
}

func (o *Oracle) nullableStr(body []string) bool {
	for _, s := range body {
		if !o.G.IsNonTerm(s) || !o.Nullable[s] {
			return false
		}
	}
	return true
}

// FirstStr: terminals that can begin a string derived from body, and whether body derives ε.
func (o *Oracle) FirstStr(body []string) (strset, bool) {
	out := strset{}
	for _, s := range body {
		if !o.G.IsNonTerm(s) {
			out[s] = true
			return out, false
		}
		for t := range o.first[s] {
			out[t] = true
		}
		if !o.Nullable[s] {
			return out, false
		}
	}
	return out, true
}

func NewOracle(g gx.G) *Oracle {
	o := &Oracle{G: g, Nullable: g.Nullable(), Reach: g.Reachable(), Prod: g.Productive()}
	o.AllReach, o.Reduced = true, true
	for _, n := range g.NonTerms {
		if !o.Reach[n] {
			o.AllReach, o.Reduced = false, false
		}
		if !o.Prod[n] {
			o.Reduced = false
		}
	}
	// left-corner graph: X -> Y when X -> α Y β with α nullable
	lc := map[string][]string{}
	for _, p := range g.Prods {
		for _, y := range p.Body {
			lc[p.Head] = append(lc[p.Head], y)
			if !g.IsNonTerm(y) || !o.Nullable[y] {
				break
			}
		}
	}
	o.first = map[string]strset{}
	for _, n := range g.NonTerms {
		seen := strset{n: true}
		stack := []string{n}
		ts := strset{}
		for len(stack) > 0 {
			x := stack[len(stack)-1]
			stack = stack[:len(stack)-1]
			for _, y := range lc[x] {
				if !g.IsNonTerm(y) {
					ts[y] = true
				} else if !seen[y] {
					seen[y] = true
					stack = append(stack, y)
				}
			}
		}
		o.first[n] = ts
	}
	// follow graph: base(B) ⊇ FIRST(β) for A -> α B β ; edge A -> B when β is nullable ; $ ∈ base(S)
	base := map[string]strset{}
	baseEnd := strset{g.Start: true}
	edges := map[string][]string{}
	for _, n := range g.NonTerms {
		base[n] = strset{}
	}
	for _, p := range g.Prods {
		for i, b := range p.Body {
			if !g.IsNonTerm(b) {
				continue
			}
			f, eps := o.FirstStr(p.Body[i+1:])
			if base[b] == nil {
				base[b] = strset{}
			}
			for t := range f {
				base[b][t] = true
			}
			if eps {
				edges[p.Head] = append(edges[p.Head], b)
			}
		}
	}
	o.follow = map[string]strset{}
	o.followEnd = strset{}
	for _, n := range g.NonTerms {
		o.follow[n] = strset{}
	}
	for _, a := range g.NonTerms { // push base(a) to everything reachable from a
		seen := strset{a: true}
		stack := []string{a}
		for len(stack) > 0 {
			x := stack[len(stack)-1]
			stack = stack[:len(stack)-1]
			for t := range base[a] {
				o.follow[x][t] = true
			}
			if baseEnd[a] {
				o.followEnd[x] = true
			}
			for _, y := range edges[x] {
				if !seen[y] {
					seen[y] = true
					stack = append(stack, y)
				}
			}
		}
	}
	return o
}

// CellCount: number of productions the textbook construction puts into M[A,a] (a == "$": endmarker).
func (o *Oracle) Cell(A, a string) []string {
	var ps []string
	for _, p := range o.G.Prods {
		if p.Head != A {
			continue
		}
		f, eps := o.FirstStr(p.Body)
		in := false
		if a == "$" {
			in = eps && o.followEnd[A]
		} else {
			in = f[a] || (eps && o.follow[A][a])
		}
		if in {
			ps = append(ps, prodKey(p.Head, p.Body))
		}
	}
	sort.Strings(ps)
	return ps
}

func (o *Oracle) ConflictFree() bool {
	for _, n := range o.G.NonTerms {
		for _, t := range append(append([]string{}, o.G.Terms...), "$") {
			if len(o.Cell(n, t)) > 1 {
				return false
			}
		}
	}
	return true
}

// restricted returns the sub-grammar of the reachable non-terminals.
func restricted(g gx.G, reach strset) gx.G {
	r := gx.G{Terms: g.Terms, Start: g.Start}
	for _, n := range g.NonTerms {
		if reach[n] {
			r.NonTerms = append(r.NonTerms, n)
		}
	}
	for _, p := range g.Prods {
		if reach[p.Head] {
			r.Prods = append(r.Prods, p)
		}
	}
	return r
}

// ---------------------------------------------------------------- brute force: bounded sentential forms

// Brute enumerates the sentential forms of length <= maxLen derivable from start (any rewriting
// order), at most maxForms of them. complete=false when the cap was hit.
func Brute(g gx.G, start []string, maxLen, maxForms int) (forms [][]string, complete bool) {
	key := func(f []string) string { return strings.Join(f, " ") }
	seen := map[string]bool{key(start): true}
	queue := [][]string{start}
	byHead := map[string][][]string{}
	for _, p := range g.Prods {
		byHead[p.Head] = append(byHead[p.Head], p.Body)
	}
	complete = true
	for len(queue) > 0 {
		f := queue[0]
		queue = queue[1:]
		forms = append(forms, f)
		for i, s := range f {
			if !g.IsNonTerm(s) {
				continue
			}
			for _, body := range byHead[s] {
				if len(f)-1+len(body) > maxLen {
					continue
				}
				nf := make([]string, 0, len(f)-1+len(body))
				nf = append(nf, f[:i]...)
				nf = append(nf, body...)
				nf = append(nf, f[i+1:]...)
				k := key(nf)
				if !seen[k] {
					if len(seen) >= maxForms {
						complete = false
						continue
					}
					seen[k] = true
					queue = append(queue, nf)
				}
			}
		}
	}
	return forms, complete
}

// ---------------------------------------------------------------- rendering (byte-identical to Driver/C10.lean)

func showSet(m strset) string {
	return "{" + strings.Join(hx.SortedKeys(m), ",") + "}"
}

func showBody(b []string) string {
	if len(b) == 0 {
		return "ε"
	}
	return strings.Join(b, " ")
}

func prodKey(h string, b []string) string { return h + "→" + showBody(b) }

func symNames(s grammar.String[grammar.Symbol]) []string {
	out := make([]string, len(s))
	for i, x := range s {
		out[i] = string(symName(x))
	}
	return out
}

func symName(x grammar.Symbol) string {
	switch v := x.(type) {
	case grammar.Terminal:
		return string(v)
	case grammar.NonTerminal:
		return string(v)
	}
	return "?"
}

func prodKeyOf(p *grammar.Production) string {
	if p == nil {
		return "<nil>"
	}
	return prodKey(string(p.Head), symNames(p.Body))
}

func termSet(s set.Set[grammar.Terminal]) strset {
	m := strset{}
	for t := range s.All() {
		m[string(t)] = true
	}
	return m
}

type sliceLexer struct {
	toks []string
	i    int
}

func (l *sliceLexer) NextToken() (lexer.Token, error) {
	if l.i >= len(l.toks) {
		return lexer.Token{}, io.EOF
	}
	t := l.toks[l.i]
	tok := lexer.Token{Terminal: grammar.Terminal(t), Lexeme: strconv.Itoa(l.i), Pos: lexer.Position{Offset: l.i}}
	l.i++
	return tok, nil
}

func classify(err error) string {
	msg := err.Error()
	switch {
	case strings.Contains(msg, "failed to construct the predictive parsing table"):
		return "ok table-error"
	case strings.Contains(msg, "unexpected terminal"):
		return "ok reject terminal"
	case strings.Contains(msg, "unacceptable input"):
		return "ok reject noentry"
	case strings.Contains(msg, "after the end of the sentence"):
		return "ok reject trailing"
	}
	return "ok reject other:" + strings.ReplaceAll(msg, "\n", " ")
}

func showTree(n parser.Node) string {
	switch v := n.(type) {
	case *parser.LeafNode:
		lex := v.Lexeme
		if lex == "" {
			lex = "?"
		}
		return string(v.Terminal) + "@" + lex
	case *parser.InternalNode:
		if v.Production == nil {
			return "(" + string(v.NonTerminal) + "?)"
		}
		var b strings.Builder
		b.WriteString("(" + prodKeyOf(v.Production))
		for _, k := range v.Children {
			b.WriteString(" " + showTree(k))
		}
		b.WriteString(")")
		return b.String()
	}
	return "<nil>"
}

func treeYield(n parser.Node, out *[]string) {
	switch v := n.(type) {
	case *parser.LeafNode:
		*out = append(*out, string(v.Terminal))
	case *parser.InternalNode:
		for _, k := range v.Children {
			treeYield(k, out)
		}
	}
}

// checkTree: root symbol, every internal node carries a production of its non-terminal whose body
// spells the children; leaves carry lexemes 0,1,2,… left to right; pre-order productions returned.
func checkTree(n parser.Node, g gx.G, pre *[]string, leafNo *int) string {
	switch v := n.(type) {
	case *parser.LeafNode:
		if v.Lexeme != strconv.Itoa(*leafNo) || v.Position.Offset != *leafNo {
			return fmt.Sprintf("leaf %s carries lexeme %q / offset %d, want %d", v.Terminal, v.Lexeme, v.Position.Offset, *leafNo)
		}
		*leafNo++
	case *parser.InternalNode:
		if v.Production == nil {
			return "internal node " + string(v.NonTerminal) + " without production"
		}
		if v.Production.Head != v.NonTerminal {
			return "node " + string(v.NonTerminal) + " carries " + prodKeyOf(v.Production)
		}
		*pre = append(*pre, prodKeyOf(v.Production))
		if len(v.Children) != len(v.Production.Body) {
			return "node " + prodKeyOf(v.Production) + " has " + strconv.Itoa(len(v.Children)) + " children"
		}
		for i, k := range v.Children {
			if k.Symbol().Name() != v.Production.Body[i].Name() || k.Symbol().IsTerminal() != v.Production.Body[i].IsTerminal() {
				return "child " + strconv.Itoa(i) + " of " + prodKeyOf(v.Production) + " is " + k.Symbol().Name()
			}
			if msg := checkTree(k, g, pre, leafNo); msg != "" {
				return msg
			}
		}
	default:
		return "nil node"
	}
	return ""
}

// replayLeftmost applies the productions as a leftmost derivation from the start symbol; "" if the
// result is exactly w.
func replayLeftmost(g gx.G, prods []string, w []string) string {
	form := []string{g.Start}
	for k, pk := range prods {
		i := 0
		for i < len(form) && !g.IsNonTerm(form[i]) {
			i++
		}
		if i == len(form) {
			return fmt.Sprintf("production %d (%s) emitted but the sentential form %v has no non-terminal left", k, pk, form)
		}
		var body []string
		found := false
		for _, p := range g.Prods {
			if p.Head == form[i] && prodKey(p.Head, p.Body) == pk {
				body, found = p.Body, true
			}
		}
		if !found {
			return fmt.Sprintf("production %d (%s) is not a production of the leftmost non-terminal %s", k, pk, form[i])
		}
		nf := append(append(append([]string{}, form[:i]...), body...), form[i+1:]...)
		form = nf
	}
	if strings.Join(form, " ") != strings.Join(w, " ") {
		return fmt.Sprintf("the emitted productions derive %v, not the input %v", form, w)
	}
	return ""
}

// ---------------------------------------------------------------- executor

// Exec runs one case (grammar lines + queries) on the real code.
func Exec(c hx.Case) hx.Result {
	res := hx.Result{BadOp: -1}
	bad := func(i int, format string, a ...any) {
		if res.BadOp < 0 {
			res.BadOp = i
			res.What = fmt.Sprintf(format, a...)
		}
	}
	tags := map[string]bool{}
	G, _ := gx.ParseLines(c.Ops)
	// NewCFG keeps sets: normalise the description the same way for the oracle
	{
		seen := map[string]bool{}
		var ps []gx.P
		for _, p := range G.Prods {
			if k := prodKey(p.Head, p.Body); !seen[k] {
				seen[k] = true
				ps = append(ps, p)
			}
		}
		G.Prods = ps
	}
	if s, err := strconv.ParseInt(hx.HeaderGet(c.Header, "shuffle"), 10, 64); err == nil {
		set.VerifSetShuffleSeed(s)
		symboltable.VerifSetShuffleSeed(s + 1)
	}
	cfg := G.ToCFG()
	clone := cfg.Clone()
	valid := cfg.Verify() == nil
	var orc *Oracle
	var langK strset
	langKk := -1
	var first grammar.FIRST
	var follow grammar.FOLLOW
	var tableErr error
	var table *predictive.ParsingTable
	tableBuilt := false
	ensureTable := func() {
		if !tableBuilt {
			table, tableErr = predictive.BuildParsingTable(cfg)
			tableBuilt = true
		}
	}
	if valid {
		orc = NewOracle(G)
		if len(orc.Nullable) > 0 {
			tags["nullable"] = true
		}
		for _, p := range G.Prods {
			if len(p.Body) > 0 && orc.nullableStr(p.Body) {
				tags["eps-chain"] = true
			}
			if len(p.Body) > 0 && p.Body[0] == p.Head {
				tags["left-recursive"] = true
			}
		}
		if !orc.AllReach {
			tags["unreachable-nt"] = true
		}
		if !orc.Reduced && orc.AllReach {
			tags["unproductive-nt"] = true
		}
		for _, n := range G.NonTerms {
			if !orc.Prod[n] {
				tags["unproductive-nt"] = true
			}
		}
		if orc.ConflictFree() {
			tags["ll1"] = true
		} else {
			tags["not-ll1"] = true
		}
	} else {
		tags["invalid-grammar"] = true
	}
	maxWord := 0
	for _, op := range c.Ops {
		f := strings.Fields(op)
		if len(f) > 0 && (f[0] == "parse" || f[0] == "ast") && len(f)-1 > maxWord {
			maxWord = len(f) - 1
		}
	}
	inLang := func(w []string) bool {
		if langKk < 0 {
			langKk = maxWord
			langK = G.LangK(langKk)
		}
		return langK[strings.Join(w, " ")]
	}
	sentences, nonSentences, trailing := 0, 0, 0

	for i, op := range c.Ops {
		f := strings.Fields(op)
		if len(f) == 0 {
			res.Outs = append(res.Outs, "bad-op")
			continue
		}
		switch f[0] {
		case "terms", "nonterms", "start", "prod":
			res.Outs = append(res.Outs, "ok")
			continue
		}
		out := "bad-op"
		hung := false
		kind := ""
		run := func() {
			kind = hx.Try(func() {
				if f[0] == "unchanged" {
					same := cfg.Equal(clone)
					out = "ok " + strconv.FormatBool(same)
					if !same {
						bad(i, "the caller's grammar was modified: %s, was %s", gx.FromCFG(cfg).Show(), gx.FromCFG(clone).Show())
					}
					return
				}
				if !valid {
					out = "ok invalid"
					return
				}
				switch f[0] {
				case "nullable":
					got := strset{}
					for n := range cfg.NullableNonTerminals().All() {
						got[string(n)] = true
					}
					out = "ok " + showSet(got)
					if showSet(got) != showSet(orc.Nullable) {
						bad(i, "NullableNonTerminals = %s, the non-terminals deriving ε are %s", showSet(got), showSet(orc.Nullable))
					}
				case "first":
					if first == nil {
						first = cfg.ComputeFIRST()
					}
					var s grammar.String[grammar.Symbol]
					for _, w := range f[1:] {
						if G.IsNonTerm(w) {
							s = append(s, grammar.NonTerminal(w))
						} else {
							s = append(s, grammar.Terminal(w))
						}
					}
					r := first(s)
					got := termSet(r.Terminals)
					out = fmt.Sprintf("ok %s eps=%v", showSet(got), r.IncludesEmpty)
					declared := true
					for _, w := range f[1:] {
						if !G.IsNonTerm(w) && !contains(G.Terms, w) {
							declared = false
						}
					}
					if declared {
						want, eps := orc.FirstStr(f[1:])
						if showSet(got) != showSet(want) || eps != r.IncludesEmpty {
							bad(i, "FIRST(%s) = %s eps=%v, left-corner reachability gives %s eps=%v", showBody(f[1:]), showSet(got), r.IncludesEmpty, showSet(want), eps)
						}
					}
				case "follow":
					if first == nil {
						first = cfg.ComputeFIRST()
					}
					if follow == nil {
						follow = cfg.ComputeFOLLOW(first)
					}
					r := follow(grammar.NonTerminal(f[1]))
					got := termSet(r.Terminals)
					out = fmt.Sprintf("ok %s end=%v", showSet(got), r.IncludesEndmarker)
					if orc.AllReach {
						if showSet(got) != showSet(orc.follow[f[1]]) || r.IncludesEndmarker != orc.followEnd[f[1]] {
							bad(i, "FOLLOW(%s) = %s end=%v, follow-graph reachability gives %s end=%v", f[1], showSet(got), r.IncludesEndmarker, showSet(orc.follow[f[1]]), orc.followEnd[f[1]])
						}
					} else if orc.Reach[f[1]] {
						// the property is silent here; what can follow A in a sentential form must still be present
						sub := NewOracle(restricted(G, orc.Reach))
						for t := range sub.follow[f[1]] {
							if !got[t] {
								bad(i, "FOLLOW(%s) = %s misses %s, which follows it in a sentential form", f[1], showSet(got), t)
							}
						}
						if sub.followEnd[f[1]] && !r.IncludesEndmarker {
							bad(i, "FOLLOW(%s) misses the endmarker although %s can end a sentential form", f[1], f[1])
						}
					}
				case "ll1":
					err := cfg.IsLL1()
					if err == nil {
						out = "ok true"
					} else {
						var items []string
						if me, ok := err.(interface{ Unwrap() []error }); ok {
							for _, e := range me.Unwrap() {
								le, ok := e.(*grammar.LL1Error)
								if !ok {
									items = append(items, "?"+e.Error())
									continue
								}
								a, b := showBody(symNames(le.Alpha)), showBody(symNames(le.Beta))
								msg := le.Error()
								switch {
								case strings.HasPrefix(msg, "FIRST(α) and FIRST(β)"):
									if b < a {
										a, b = b, a
									}
									items = append(items, fmt.Sprintf("ff %s: %s | %s", le.A, a, b))
								case strings.HasPrefix(msg, "ε is in FIRST(α)"):
									items = append(items, fmt.Sprintf("ef %s: eps=%s other=%s", le.A, a, b))
								case strings.HasPrefix(msg, "ε is in FIRST(β)"):
									items = append(items, fmt.Sprintf("ef %s: eps=%s other=%s", le.A, b, a))
								default:
									items = append(items, "?"+msg)
								}
							}
						}
						sort.Strings(items)
						items = dedupSorted(items)
						out = "ok false [" + strings.Join(items, "; ") + "]"
					}
					// the two claims of the property that relate IsLL1 to the table
					t2, terr := predictive.BuildParsingTable(cfg.Clone())
					_ = t2
					if terr != nil && err == nil {
						bad(i, "the parsing table has a conflict (%s) but IsLL1 reports no error", strings.ReplaceAll(terr.Error(), "\n", " "))
					}
					if orc.Reduced && (err == nil) != (terr == nil) {
						bad(i, "reduced grammar: IsLL1 error=%v but table conflict=%v", err != nil, terr != nil)
					}
					if orc.AllReach && (terr == nil) != orc.ConflictFree() {
						bad(i, "table conflict=%v, textbook construction from the oracle's FIRST/FOLLOW gives conflict=%v", terr != nil, !orc.ConflictFree())
					}
				case "table":
					ensureTable()
					rows := append([]string{}, G.NonTerms...)
					sort.Strings(rows)
					rows = dedupSorted(rows)
					cols := append([]string{}, G.Terms...)
					sort.Strings(cols)
					cols = append(dedupSorted(cols), "$")
					var confl, cells []string
					for _, A := range rows {
						for _, a := range cols {
							ta := grammar.Terminal(a)
							if a == "$" {
								ta = grammar.Endmarker
							}
							ps, sync, ok := predictive.VerifCell(table, grammar.NonTerminal(A), ta)
							if !ok {
								if orc.AllReach && len(orc.Cell(A, a)) > 0 {
									bad(i, "M[%s,%s] is empty, the textbook construction gives %v", A, a, orc.Cell(A, a))
								}
								continue
							}
							var keys []string
							for _, p := range ps {
								keys = append(keys, prodKeyOf(p))
							}
							sort.Strings(keys)
							if len(keys) > 1 {
								confl = append(confl, A+"/"+a)
							}
							if len(keys) > 0 {
								cells = append(cells, A+"/"+a+":{"+strings.Join(keys, "|")+"}")
							} else if sync {
								cells = append(cells, A+"/"+a+":sync")
							}
							if orc.AllReach && strings.Join(keys, "|") != strings.Join(orc.Cell(A, a), "|") {
								bad(i, "M[%s,%s] = %v, the textbook construction gives %v", A, a, keys, orc.Cell(A, a))
							}
							if !table.IsEmpty(grammar.NonTerminal(A), ta) != (len(keys) > 0) {
								bad(i, "IsEmpty(%s,%s) disagrees with the stored productions %v", A, a, keys)
							}
						}
					}
					out = "ok conflicts=[" + strings.Join(confl, " ") + "] cells=[" + strings.Join(cells, " ") + "]"
					if (tableErr != nil) != (len(confl) > 0) {
						bad(i, "BuildParsingTable error=%v but cells with more than one production: %v", tableErr != nil, confl)
					}
					trows, tcols := predictive.VerifRowsAndColumns(table)
					if len(trows) != len(rows) || len(tcols) != len(cols) {
						bad(i, "the table iterates %d rows x %d columns, the grammar has %d non-terminals and %d terminals + endmarker", len(trows), len(tcols), len(rows), len(cols)-1)
					}
				case "parse", "ast":
					w := f[1:]
					p := predictive.New(cfg, &sliceLexer{toks: w})
					var prods []string
					var err error
					var root parser.Node
					if f[0] == "parse" {
						err = p.Parse(func(*lexer.Token) error { return nil }, func(pr *grammar.Production) error {
							prods = append(prods, prodKeyOf(pr))
							return nil
						})
					} else {
						root, err = p.ParseAndBuildAST()
					}
					accepted := err == nil
					switch {
					case err != nil:
						out = classify(err)
					case f[0] == "parse":
						out = "ok accept " + strings.Join(prods, "; ")
					default:
						var y []string
						treeYield(root, &y)
						out = "ok " + showTree(root) + " yield=[" + strings.Join(y, " ") + "]"
					}
					ensureTable()
					if tableErr != nil {
						if out != "ok table-error" {
							bad(i, "the table has conflicts but Parse answered %q", out)
						}
						return
					}
					member := inLang(w)
					if member {
						sentences++
					} else {
						nonSentences++
						for k := 0; k < len(w); k++ {
							if inLang(w[:k]) {
								trailing++
								break
							}
						}
					}
					if accepted != member {
						bad(i, "%s %v: accepted=%v but sentence of G=%v", f[0], w, accepted, member)
						return
					}
					if accepted && f[0] == "parse" {
						if msg := replayLeftmost(G, prods, w); msg != "" {
							bad(i, "parse %v: %s", w, msg)
						}
					}
					if accepted && f[0] == "ast" {
						var y, pre []string
						treeYield(root, &y)
						if strings.Join(y, " ") != strings.Join(w, " ") {
							bad(i, "ast %v: the yield of the tree is %v", w, y)
						}
						leaf := 0
						if in, ok := root.(*parser.InternalNode); !ok || string(in.NonTerminal) != G.Start {
							bad(i, "ast %v: the root is not the start symbol", w)
						} else if msg := checkTree(root, G, &pre, &leaf); msg != "" {
							bad(i, "ast %v: %s", w, msg)
						} else if msg := replayLeftmost(G, pre, w); msg != "" {
							bad(i, "ast %v: pre-order productions: %s", w, msg)
						}
					}
				}
			})
		}
		if f[0] == "parse" || f[0] == "ast" {
			hung = !hx.WithTimeout(5*time.Second, run)
		} else {
			run()
		}
		if hung {
			res.Outs = append(res.Outs, "hang")
			bad(i, "%s did not return", op)
			tags["hang"] = true
			break
		}
		if kind != "" {
			res.Outs = append(res.Outs, "panic")
			// the FIRST / FOLLOW closures panic on undeclared symbols by contract
			undeclared := false
			if f[0] == "first" || f[0] == "follow" {
				for _, w := range f[1:] {
					if !G.IsNonTerm(w) && !contains(G.Terms, w) {
						undeclared = true
					}
				}
				if f[0] == "follow" && len(f) > 1 && !G.IsNonTerm(f[1]) {
					undeclared = true
				}
			}
			if !undeclared {
				bad(i, "%s panicked (%s)", op, kind)
			}
			tags["panic"] = true
			break
		}
		res.Outs = append(res.Outs, out)
	}
	if sentences > 0 {
		tags["parsed-sentence"] = true
	}
	if nonSentences > 0 {
		tags["parsed-non-sentence"] = true
	}
	if trailing > 0 {
		tags["sentence-plus-trailing"] = true
	}
	if hx.HeaderGet(c.Header, "comp") == "predictive" {
		res.Nontrivial = valid && tags["ll1"] && sentences > 0 && nonSentences > 0 && trailing > 0
	} else {
		res.Nontrivial = valid && (tags["nullable"] || tags["left-recursive"] || tags["unreachable-nt"] || tags["unproductive-nt"] || hasLeftCornerCycle(G, orc))
	}
	for t := range tags {
		res.Tags = append(res.Tags, t)
	}
	sort.Strings(res.Tags)
	return res
}

func contains(xs []string, x string) bool {
	for _, y := range xs {
		if y == x {
			return true
		}
	}
	return false
}

func dedupSorted(xs []string) []string {
	out := xs[:0]
	for i, x := range xs {
		if i == 0 || x != xs[i-1] {
			out = append(out, x)
		}
	}
	return out
}

func hasLeftCornerCycle(g gx.G, o *Oracle) bool {
	if o == nil {
		return false
	}
	lc := map[string][]string{}
	for _, p := range g.Prods {
		for _, y := range p.Body {
			if g.IsNonTerm(y) {
				lc[p.Head] = append(lc[p.Head], y)
			}
			if !g.IsNonTerm(y) || !o.Nullable[y] {
				break
			}
		}
	}
	for _, n := range g.NonTerms {
		seen := strset{}
		stack := append([]string{}, lc[n]...)
		for len(stack) > 0 {
			x := stack[len(stack)-1]
			stack = stack[:len(stack)-1]
			if x == n {
				return true
			}
			if !seen[x] {
				seen[x] = true
				stack = append(stack, lc[x]...)
			}
		}
	}
	return false
}

// ---------------------------------------------------------------- oracle self-check by brute force

// CrossCheck compares the reachability oracle with brute-force enumeration of bounded sentential
// forms. It returns "" or a description of an element the enumeration found and the oracle lacks
// (the oracle is then wrong), and whether the two agreed exactly.
func CrossCheck(g gx.G, maxLen, maxForms int) (problem string, exact bool) {
	o := NewOracle(g)
	exact = true
	for _, n := range g.NonTerms {
		forms, _ := Brute(g, []string{n}, maxLen, maxForms)
		gotFirst := strset{}
		gotNull := false
		for _, f := range forms {
			if len(f) == 0 {
				gotNull = true
			} else if !g.IsNonTerm(f[0]) {
				gotFirst[f[0]] = true
			}
		}
		if gotNull && !o.Nullable[n] {
			return fmt.Sprintf("%s derives ε by enumeration but the oracle says it is not nullable", n), false
		}
		for t := range gotFirst {
			if !o.first[n][t] {
				return fmt.Sprintf("%s derives a form starting with %s but the oracle's FIRST(%s) = %s", n, t, n, showSet(o.first[n])), false
			}
		}
		if gotNull != o.Nullable[n] || len(gotFirst) != len(o.first[n]) {
			exact = false
		}
	}
	if o.AllReach {
		forms, _ := Brute(g, []string{g.Start}, maxLen, maxForms)
		got := map[string]strset{}
		gotEnd := strset{}
		for _, n := range g.NonTerms {
			got[n] = strset{}
		}
		for _, f := range forms {
			for i, s := range f {
				if !g.IsNonTerm(s) {
					continue
				}
				if i+1 == len(f) {
					gotEnd[s] = true
				} else if !g.IsNonTerm(f[i+1]) {
					got[s][f[i+1]] = true
				}
			}
		}
		for _, n := range g.NonTerms {
			for t := range got[n] {
				if !o.follow[n][t] {
					return fmt.Sprintf("%s is followed by %s in a sentential form but the oracle's FOLLOW(%s) = %s", n, t, n, showSet(o.follow[n])), false
				}
			}
			if gotEnd[n] && !o.followEnd[n] {
				return fmt.Sprintf("%s ends a sentential form but the oracle's FOLLOW(%s) lacks the endmarker", n, n), false
			}
			if len(got[n]) != len(o.follow[n]) || gotEnd[n] != o.followEnd[n] {
				exact = false
			}
		}
	}
	return "", exact
}

// ---------------------------------------------------------------- generation

// Mixes are the generator settings used by C10 and C12.
func Mixes() map[string]gx.GenOpts {
	return map[string]gx.GenOpts{
		"default":     gx.DefaultOpts(),
		"eps-chains":  {MaxNonTerms: 5, MaxTerms: 2, MaxAlts: 3, MaxBody: 3, EpsChance: 35, UnitChance: 20, LeftRec: 5, CommonPref: 5},
		"recursive":   {MaxNonTerms: 3, MaxTerms: 3, MaxAlts: 3, MaxBody: 4, EpsChance: 10, UnitChance: 25, LeftRec: 40, CommonPref: 10},
		"non-reduced": {MaxNonTerms: 5, MaxTerms: 3, MaxAlts: 2, MaxBody: 3, EpsChance: 15, UnitChance: 15, LeftRec: 25, CommonPref: 0},
		"near-ll1":    {MaxNonTerms: 4, MaxTerms: 3, MaxAlts: 2, MaxBody: 3, EpsChance: 25, UnitChance: 5, LeftRec: 0, CommonPref: 0},
	}
}

// Strings enumerates the symbol strings of length 1..k over the grammar's symbols.
func Strings(g gx.G, k int) [][]string {
	syms := append(append([]string{}, g.NonTerms...), g.Terms...)
	var out [][]string
	level := [][]string{{}}
	for i := 0; i < k; i++ {
		var next [][]string
		for _, s := range level {
			for _, x := range syms {
				next = append(next, append(append([]string{}, s...), x))
			}
		}
		out = append(out, next...)
		level = next
	}
	return out
}

// Queries builds the op list of a C10 case.
func Queries(r *hx.Rand, g gx.G, maxStrings int) []string {
	ops := g.Lines()
	ops = append(ops, "nullable", "first")
	ss := Strings(g, 3)
	if len(ss) > maxStrings {
		// all of length <= 2, a sample of length 3
		var keep [][]string
		var long [][]string
		for _, s := range ss {
			if len(s) <= 2 {
				keep = append(keep, s)
			} else {
				long = append(long, s)
			}
		}
		for len(keep) < maxStrings && len(long) > 0 {
			j := r.Intn(len(long))
			keep = append(keep, long[j])
			long[j] = long[len(long)-1]
			long = long[:len(long)-1]
		}
		ss = keep
	}
	for _, s := range ss {
		ops = append(ops, "first "+strings.Join(s, " "))
	}
	for _, n := range g.NonTerms {
		ops = append(ops, "follow "+n)
	}
	ops = append(ops, "ll1", "table", "unchanged")
	return ops
}

func Main(run *hx.Run) {
	run.Stats.Rule = Rule
	for _, f := range hx.CorpusFiles("C10") {
		cs, _ := hx.ReadReplay(f)
		for _, c := range cs {
			run.Do(hx.HeaderGet(c.Header, "comp"), c, Exec)
		}
	}
	mixes := Mixes()
	names := hx.SortedKeys(mixes)
	cross, crossExact := 0, 0
	for _, name := range names {
		r := run.R.Fork(name)
		n := run.Scale(70)
		for k := 0; k < n; k++ {
			g := gx.Random(r, mixes[name])
			if name == "non-reduced" && r.Chance(1, 2) {
				// graft an unreachable and an unproductive non-terminal
				g.NonTerms = append(g.NonTerms, "U", "V")
				g.Prods = append(g.Prods, gx.P{Head: "U", Body: []string{"U", g.Terms[0]}}, gx.P{Head: "V", Body: []string{g.Terms[0], "S"}}, gx.P{Head: "V", Body: nil})
				if r.Chance(1, 2) {
					g.Prods = append(g.Prods, gx.P{Head: "S", Body: []string{"U"}})
				}
			}
			c := hx.Case{Header: fmt.Sprintf("comp=analysis mix=%s shuffle=%d", name, r.Intn(1<<30)), Ops: Queries(r, g, 160)}
			run.Do("analysis", c, Exec)
			if len(g.NonTerms) <= 3 && len(g.Prods) <= 6 && (run.Thorough() || k%4 == 0) {
				msg, exact := CrossCheck(g, 7, 4000)
				cross++
				if exact {
					crossExact++
				}
				if msg != "" {
					bc := hx.Case{Header: "comp=oracle-selfcheck", Ops: g.Lines()}
					run.Do("oracle-selfcheck", bc, func(hx.Case) hx.Result {
						outs := make([]string, len(bc.Ops))
						for i := range outs {
							outs[i] = "ok"
						}
						return hx.Result{Outs: outs, BadOp: len(outs) - 1, What: "oracle self-check failed: " + msg}
					})
				}
			}
		}
	}
	if run.Thorough() {
		// every grammar over non-terminals {S,A}, terminal {a}, 1-2 alternatives each, bodies of length <= 2
		n := 0
		Enumerate([]string{"S", "A"}, []string{"a"}, 2, 2, func(g gx.G) {
			n++
			c := hx.Case{Header: fmt.Sprintf("comp=analysis mix=exhaustive shuffle=%d", n), Ops: Queries(run.R, g, 1000)}
			run.Do("analysis", c, Exec)
			if msg, exact := CrossCheck(g, 7, 4000); msg != "" {
				panic("oracle self-check failed on " + g.Show() + ": " + msg)
			} else {
				cross++
				if exact {
					crossExact++
				}
			}
		})
		run.Stats.Extra["exhaustive_part"] = fmt.Sprintf("all %d grammars over {S,A} x {a} with 1-2 alternatives per non-terminal and bodies of length <=2, FIRST on every string of length <=3", n)
	}
	run.Stats.Extra["oracle_crosschecked_by_enumeration"] = cross
	run.Stats.Extra["oracle_equal_to_enumeration"] = crossExact
}

// Enumerate calls f for every grammar whose non-terminals nts each have between 1 and maxAlts
// distinct alternatives drawn from the bodies of length <= maxBody over nts ∪ ts (start = nts[0]).
func Enumerate(nts, ts []string, maxAlts, maxBody int, f func(gx.G)) {
	syms := append(append([]string{}, nts...), ts...)
	bodies := [][]string{{}}
	level := [][]string{{}}
	for i := 0; i < maxBody; i++ {
		var next [][]string
		for _, s := range level {
			for _, x := range syms {
				next = append(next, append(append([]string{}, s...), x))
			}
		}
		bodies = append(bodies, next...)
		level = next
	}
	// alternative sets: non-empty subsets of bodies of size <= maxAlts (as index lists)
	var altSets [][]int
	var rec func(start int, cur []int)
	rec = func(start int, cur []int) {
		if len(cur) > 0 {
			altSets = append(altSets, append([]int{}, cur...))
		}
		if len(cur) == maxAlts {
			return
		}
		for i := start; i < len(bodies); i++ {
			rec(i+1, append(cur, i))
		}
	}
	rec(0, nil)
	choice := make([]int, len(nts))
	for {
		g := gx.G{Terms: ts, NonTerms: nts, Start: nts[0]}
		for k, n := range nts {
			for _, bi := range altSets[choice[k]] {
				g.Prods = append(g.Prods, gx.P{Head: n, Body: bodies[bi]})
			}
		}
		f(g)
		i := len(nts) - 1
		for i >= 0 {
			choice[i]++
			if choice[i] < len(altSets) {
				break
			}
			choice[i] = 0
			i--
		}
		if i < 0 {
			return
		}
	}
}
