// Package c09: CFG transformations reach their normal form, results pass Verify(), inputs are never mutated.
package c09

import (
	"fmt"
	"strings"

	"github.com/moorara/algo/grammar"
	lrcanonical "github.com/moorara/algo/parser/lr/canonical"
	lrlookahead "github.com/moorara/algo/parser/lr/lookahead"
	lrsimple "github.com/moorara/algo/parser/lr/simple"
	"github.com/moorara/algo/parser/predictive"

	"verifharness/c08"
	"verifharness/gx"
	"verifharness/hx"
)

const Rule = "case = (grammar, one transformation): description lines, the transformation op (canonical result, " +
	"compared with the Lean Model), `post <op>` (every post-condition of Spec/C09.lean on the result, compared " +
	"with Lean's decision procedures) and, for small grammars, `parsers` (the grammar is handed to " +
	"predictive.BuildParsingTable and the SLR/LALR/LR(1) table constructors); oracle = independent Go " +
	"analyses (nullable fixpoint, unit graph, left-corner graph, pairwise first symbols, reachability): the " +
	"op's own normal form holds, the result passes Verify() and the independent validity check, IsCNF() " +
	"agrees with the independent CNF check, the receiver equals a clone taken before the call AND renders to " +
	"the same text as before (a deep rendering: Clone shares the production values); grammars as in C08 (incl. " +
	"terminals named like non-terminals, pipelines T1 then T2, names that look generated — A, A₁, A₂, A′, aₙ … with a body of 3-5 symbols; " +
	"post-conditions only where the result grammar depends on Go's iteration order —, bodies of 99-104 symbols, names as a dimension — gx.NameSchemes, alternatives rendered alike, a terminal that only a like-rendered " +
	"non-terminal keeps in use; `post1 <op>` = validity + the op's own normal form where cmpProduction ties make the result grammar depend on hash " +
	"iteration —, threshold sweeps: one dimension (body length / index of a nullable symbol, non-terminals in a chain with the left-recursive cluster " +
	"late or early in the order, terminals = alternatives = productions, prefix group, unit closure, nullable, unreachable symbols) at 63-70, thorough " +
	"127-134, 255-262 and, on the implementation and the Go oracle only (hx.Case.NoModel: also unit closures and nullable chains from 127 and chains " +
	"from 255 up, where Lean's decision procedures dominate), 1023-1025; second round as in C08: every size 0-200 of the cheap dimensions, heads / terminals on one probe path of the 31- / 67-slot table " +
	"(gx.SameBucketNames), special shapes at the sweep sizes, terminals named like upcoming fresh names; of the families with 130+ non-terminals the quick " +
	"tier runs the middle size only and chains of more than 96 non-terminals mostly oracle-only) plus helper cases (Verify() and " +
	"IsCNF() as error lists, AnyMatch / AllMatch / SelectMatch, Equal, the comparators and hashes, on valid and on malformed " +
	"grammars) and `parsers` on malformed grammars (the caller's grammar stays unchanged whether the constructor returns or " +
	"panics; the Model predicts which for predictive.BuildParsingTable); non-trivial = the input did not already satisfy the op's post-condition (or, for `parsers`, " +
	"a table was built); distinct = distinct (grammar, op)"

// PostLine renders every post-condition for g (the result) relative to orig (the input), byte-identical to
// the Lean driver's showPost.
func PostLine(orig, g gx.G) string {
	b := func(ok bool, _ string) string {
		if ok {
			return "true"
		}
		return "false"
	}
	loose := "false"
	if c08.LooseCNF(g) {
		loose = "true"
	}
	return fmt.Sprintf("ok valid=%s noempty=%s nounit=%s reach=%s nocycle=%s noleftrec=%s leftfactored=%s cnf=%s loosecnf=%s",
		b(c08.Valid(g)), b(c08.NoEmptyExceptFreshStart(orig, g)), b(c08.NoUnit(g)), b(c08.AllReachable(g)),
		b(c08.NoCycle(g)), b(c08.NoLeftRecursion(g)), b(c08.LeftFactored(g)), b(c08.CNF(g)), loose)
}

// PostLine1 is the answer to `post1 <op>`: validity and the op's own normal form only — what does not depend on which of
// several equally good result grammars came out (cases whose result depends on Go's iteration order, harness/c08/names.go:
// OrderSafe).  Byte-identical to the Lean driver's showPost1.
func PostLine1(op string, g gx.G) string {
	b := func(ok bool, _ string) string {
		if ok {
			return "true"
		}
		return "false"
	}
	line := "ok valid=" + b(c08.Valid(g))
	switch op {
	case "leftrec":
		line += " noleftrec=" + b(c08.NoLeftRecursion(g))
	case "cnf":
		line += " cnf=" + b(c08.CNF(g))
	}
	return line
}

// post evaluates the op's own post-condition on the result.
func post(op string, orig, h gx.G) (name string, ok bool, why string) {
	switch op {
	case "emptyfree":
		ok, why = c08.NoEmptyExceptFreshStart(orig, h)
		return "no ε-production except for a fresh start symbol", ok, why
	case "singlefree":
		ok, why = c08.NoUnit(h)
		return "no unit production", ok, why
	case "unreachable":
		ok, why = c08.AllReachable(h)
		return "only symbols reachable from the start", ok, why
	case "cycles":
		ok, why = c08.NoCycle(h)
		return "no derivation A ⇒⁺ A", ok, why
	case "leftrec":
		ok, why = c08.NoLeftRecursion(h)
		return "no derivation A ⇒⁺ A α", ok, why
	case "leftfactor":
		ok, why = c08.LeftFactored(h)
		return "no two alternatives with a common prefix", ok, why
	case "cnf":
		ok, why = c08.CNF(h)
		return "Chomsky normal form", ok, why
	}
	return "", true, ""
}

// alreadyHolds: the input satisfies the op's post-condition (the transformation had nothing to do).
func alreadyHolds(op string, g gx.G) bool {
	switch op {
	case "emptyfree":
		for _, p := range g.Prods {
			if len(p.Body) == 0 {
				return false
			}
		}
		return true
	case "cnfstart", "cnfterm", "cnfbin":
		return false
	}
	_, ok, _ := post(op, g, g)
	return ok
}

// residualLeftFactor: every head of h that still has two alternatives with the same first symbol has no
// alternative whose first symbol is unique (LeftFactor only factors a head that has both kinds).
func residualLeftFactor(h gx.G) bool {
	cnt := map[[2]string]int{}
	for _, p := range h.Prods {
		f := ""
		if len(p.Body) > 0 {
			f = p.Body[0]
		}
		cnt[[2]string{p.Head, f}]++
	}
	multi, single := map[string]bool{}, map[string]bool{}
	for k, c := range cnt {
		if c >= 2 {
			multi[k[0]] = true
		} else {
			single[k[0]] = true
		}
	}
	for hd := range multi {
		if single[hd] {
			return false
		}
	}
	return true
}

// onlyStartLacksProductions: the independent validity check fails for exactly one reason, the start symbol
// has no production.
func onlyStartLacksProductions(h gx.G) bool {
	for _, p := range h.Prods {
		if p.Head == h.Start {
			return false
		}
	}
	fixed := h
	fixed.Prods = append(append([]gx.P{}, h.Prods...), gx.P{Head: h.Start})
	ok, _ := c08.Valid(fixed)
	return ok
}

type ctor struct {
	name string
	f    func(*grammar.CFG)
}

var ctors = []ctor{
	{"predictive.BuildParsingTable", func(c *grammar.CFG) { predictive.BuildParsingTable(c) }},
	{"lr/simple.BuildParsingTable", func(c *grammar.CFG) { lrsimple.BuildParsingTable(c, nil) }},
	{"lr/lookahead.BuildParsingTable", func(c *grammar.CFG) { lrlookahead.BuildParsingTable(c, nil) }},
	{"lr/canonical.BuildParsingTable", func(c *grammar.CFG) { lrcanonical.BuildParsingTable(c, nil) }},
}

// Exec runs one case on the real code and checks post-conditions, Verify() and input immutability.
func Exec(c hx.Case) hx.Result {
	res := hx.Result{BadOp: -1}
	bad := func(i int, sig, format string, a ...any) {
		if res.BadOp < 0 {
			res.BadOp = i
			res.What = fmt.Sprintf(format, a...)
			res.Sig = sig
		}
	}
	p := c08.ParseCase(c)
	g := p.G
	tags := map[string]bool{}
	for i := 0; i < p.NDef; i++ {
		res.Outs = append(res.Outs, "ok")
	}
	if len(p.Ops) > 0 && !c08.Builds(g) {
		res.Outs = append(res.Outs, "hang")
		bad(p.NDef, "", "NewCFG did not return for this grammar")
		return res
	}
	valid, _ := c08.Valid(g)
	inScope := valid
	if !inScope {
		tags["input-not-valid(oracle off)"] = true
	}
	if !c08.Hygienic(g) {
		tags["in:names-with-reserved-suffix"] = true
	}
	for _, f := range c08.Features(g) {
		tags[f] = true
	}
	emptyLang := !g.Productive()[g.Start]
	nontrivial := false

	for j, op := range p.Ops {
		i := p.NDef + j
		f := strings.Fields(op)
		switch {
		case (len(f) == 1 && c08.IsOp(f[0])) || (len(f) == 2 && (f[0] == "post" || f[0] == "post1") && c08.IsOp(f[1])):
			name := f[len(f)-1]
			isPost := len(f) == 2
			cfg := c08.ToCFG(g)
			before := cfg.Clone()
			// Clone shares the *Production values with the original, so Equal cannot see an in-place edit of a
			// production; the rendering below reads every symbol and is compared as text
			snapshot := c08.FromCFG(cfg).Show()
			out, kind, msg, hung := c08.Timed(name, cfg)
			tags["op="+name] = true
			if hung {
				res.Outs = append(res.Outs, "hang")
				bad(i, "", "%s did not return", name)
				continue
			}
			if after := c08.FromCFG(cfg).Show(); !cfg.Equal(before) || after != snapshot {
				bad(i, "", "%s mutated its receiver: %s became %s", name, snapshot, after)
			}
			if kind != "" {
				res.Outs = append(res.Outs, "panic")
				tags["panic:"+kind] = true
				if inScope {
					if c08.NameExhausted(msg) {
						bad(i, "fresh-names-exhausted", "%s panicked: %s", name, msg)
					} else {
						bad(i, "", "%s panicked (%s): %s", name, kind, msg)
					}
				}
				continue
			}
			h := c08.FromCFG(out)
			if isPost && f[0] == "post1" {
				res.Outs = append(res.Outs, PostLine1(name, h))
			} else if isPost {
				res.Outs = append(res.Outs, PostLine(g, h))
			} else {
				res.Outs = append(res.Outs, "ok "+h.Show())
			}
			if !inScope {
				continue
			}
			if !alreadyHolds(name, g) {
				nontrivial = true
				tags["had-work:"+name] = true
			}
			// Verify() and the independent validity check
			verr := out.Verify()
			iv, ivWhy := c08.Valid(h)
			if (verr == nil) != iv {
				bad(i, "", "Verify() = %v but the independent validity check says %v (%s) on %s", verr, iv, ivWhy, h.Show())
			}
			if !iv {
				sig := ""
				if emptyLang && onlyStartLacksProductions(h) {
					sig = "empty-language-start-without-production"
				}
				bad(i, sig, "result of %s fails Verify(): %s; result %s", name, ivWhy, h.Show())
			}
			// the op's normal form
			if pn, ok, why := post(name, g, h); !ok {
				sig := ""
				if name == "leftfactor" && residualLeftFactor(h) {
					sig = "leftfactor-head-without-singleton-alternative"
				}
				bad(i, sig, "result of %s violates its post-condition (%s): %s; result %s", name, pn, why, h.Show())
			}
			if name == "cycles" {
				// EliminateCycles ends with EliminateUnreachableProductions (C09_cycles_allReachable)
				if ok, why := c08.AllReachable(h); !ok {
					bad(i, "", "result of cycles has a symbol that is not reachable from the start symbol: %s; result %s", why, h.Show())
				}
			}
			if name == "cnf" {
				lib := out.IsCNF() == nil
				if lib != c08.LooseCNF(h) {
					bad(i, "", "IsCNF() = %v but the independent check of the same form says %v on %s", lib, c08.LooseCNF(h), h.Show())
				}
				if strict, _ := c08.CNF(h); strict && !lib {
					bad(i, "", "IsCNF() rejects a grammar in Chomsky normal form: %s", h.Show())
				}
			}
		case len(f) == 1 && f[0] == "parsers":
			line := "ok unchanged"
			predictiveOutcome := "returned"
			for _, ct := range ctors {
				cfg := c08.ToCFG(g)
				before := cfg.Clone()
				snapshot := c08.FromCFG(cfg).Show()
				var kind string
				done := hx.WithTimeout(5e9, func() { kind = hx.Try(func() { ct.f(cfg) }) })
				if !done {
					tags["parsers:timeout:"+ct.name] = true
					if ct.name == "predictive.BuildParsingTable" {
						predictiveOutcome = "hang"
					}
					continue // the constructor is still running on cfg; nothing can be compared
				}
				if kind != "" {
					tags["parsers:panic:"+ct.name] = true // owned by C11 (D18); immutability is still checked
					if ct.name == "predictive.BuildParsingTable" {
						predictiveOutcome = "panic"
						if inScope {
							bad(i, "", "predictive.BuildParsingTable panicked (%s) on a grammar that passes Verify()", kind)
						}
					}
				} else {
					nontrivial = true
				}
				if after := c08.FromCFG(cfg).Show(); !cfg.Equal(before) || after != snapshot {
					line = "ok MUTATED by " + ct.name
					bad(i, "", "%s changed the caller's grammar: %s became %s", ct.name, snapshot, after)
					break
				}
			}
			tags["op=parsers"] = true
			if line == "ok unchanged" {
				line += " predictive=" + predictiveOutcome
			}
			res.Outs = append(res.Outs, line)
		case c08.IsHelperOp(f[0]):
			out, what, ts := c08.HelperOp(g, f)
			if out == "" {
				res.Outs = append(res.Outs, "bad-op")
				continue
			}
			res.Outs = append(res.Outs, out)
			tags["op=helpers"] = true
			for _, t := range ts {
				tags[t] = true
			}
			if what != "" {
				bad(i, "", "%s: %s", op, what)
			}
		default:
			res.Outs = append(res.Outs, "bad-op")
		}
	}
	res.Nontrivial = nontrivial
	for t := range tags {
		res.Tags = append(res.Tags, t)
	}
	return res
}

func caseFor(g gx.G, mix, op string) hx.Case {
	ops := append(g.Lines(), op, "post "+op)
	return hx.Case{Header: fmt.Sprintf("comp=%s mix=%s", op, mix), Ops: ops}
}

func smallForParsers(g gx.G) bool {
	total := 0
	for _, p := range g.Prods {
		total += len(p.Body) + 1
	}
	return len(g.NonTerms) <= 3 && len(g.Prods) <= 7 && total <= 24
}

func Main(run *hx.Run) {
	run.Stats.Rule = Rule
	var lim c08.SigLimiter
	for _, f := range hx.CorpusFiles("C09") {
		cs, _ := hx.ReadReplay(f)
		for _, c := range cs {
			lim.Do(run, hx.HeaderGet(c.Header, "comp"), c, Exec)
		}
	}
	for _, m := range c08.Mixes {
		r := run.R.Fork(m.Name)
		n := run.Scale(24)
		for k := 0; k < n; k++ {
			g := c08.GenGrammar(r, m)
			for _, op := range c08.OpsFor(g) {
				lim.Do(run, op, caseFor(g, m.Name, op), Exec)
			}
			if smallForParsers(g) {
				lim.Do(run, "parsers", hx.Case{Header: "comp=parsers mix=" + m.Name, Ops: append(g.Lines(), "parsers")}, Exec)
			}
		}
	}
	{
		// terminals named like non-terminals (if → 'if e stmt)
		r := run.R.Fork("keyword-names")
		for k := 0; k < run.Scale(12); k++ {
			g := c08.KeywordNames(r, c08.GenGrammar(r, c08.Mixes[k%len(c08.Mixes)]))
			for _, op := range c08.OpsFor(g) {
				lim.Do(run, op, caseFor(g, "keyword-names", op), Exec)
			}
			if smallForParsers(g) {
				lim.Do(run, "parsers", hx.Case{Header: "comp=parsers mix=keyword-names", Ops: append(g.Lines(), "parsers")}, Exec)
			}
		}
	}
	{
		// pipelines: every ordered pair (T₁, T₂)
		r := run.R.Fork("pipelines")
		for k := 0; k < run.Scale(6); k++ {
			g := c08.GenGrammar(r, c08.Mixes[k%len(c08.Mixes)])
			if r.Intn(4) == 0 {
				g = c08.KeywordNames(r, g)
			}
			piped := c08.Piped(g)
			for _, t1 := range c08.Ops {
				h, ok := piped[t1]
				if !ok {
					continue
				}
				for _, t2 := range c08.OpsFor(h) {
					lim.Do(run, t2, caseFor(h, "pipe-"+t1, t2), Exec)
				}
			}
		}
	}
	{
		// names that already look generated (A, A₁, A₂, A′, aₙ, …) with bodies long enough for BIN; where the result
		// grammar depends on Go's iteration order only the post-conditions are compared
		r := run.R.Fork("suffixed-names")
		for k := 0; k < run.Scale(24); k++ {
			g := c08.SuffixedNames(r, c08.GenGrammar(r, c08.Mixes[k%len(c08.Mixes)]))
			comps, cases := c08.SuffixedCases(g, "suffixed-names", caseFor, func(g gx.G, mix, op string) hx.Case {
				return hx.Case{Header: fmt.Sprintf("comp=%s mix=%s", op, mix), Ops: append(g.Lines(), "post1 "+op)}
			})
			for i := range cases {
				lim.Do(run, comps[i], cases[i], Exec)
			}
		}
	}
	{
		// names as a dimension (see harness/c08/names.go: NamedGrammars)
		c08.NamedGrammars(run.R.Fork("names"), run.Scale(4), run.Scale(10), func(mix string, g gx.G) {
			comps, cases := c08.SuffixedCases(g, mix, caseFor, func(g gx.G, mix, op string) hx.Case {
				return hx.Case{Header: fmt.Sprintf("comp=%s mix=%s", op, mix), Ops: append(g.Lines(), "post1 "+op)}
			})
			for i := range cases {
				lim.Do(run, comps[i], cases[i], Exec)
			}
		})
	}
	all := c08.SizeCases(run.Thorough())
	all = append(all, c08.BucketCases()...)                        // heads / terminals on one probe path of the 31-slot (and 67-slot) table
	all = append(all, c08.ShapeCases(run.Thorough())...)           // each transformation's special shapes at the sweep sizes
	all = append(all, c08.DenseCases(run.Seed, run.Thorough())...) // every size from 0 to 200 of the cheap dimensions
	heavy := map[string]int{}
	for _, sc := range all {
		// Lean's decision procedures for the post-conditions are cubic in the number of non-terminals: of the families with 130+
		// non-terminals the quick tier runs the middle size (t of t-1, t, t+1) only; C08 runs all of them on every check
		if !run.Thorough() && (strings.HasPrefix(sc.Mix, "size-nullable") || strings.HasPrefix(sc.Mix, "size-unit-closure") ||
			strings.HasPrefix(sc.Mix, "shape-unit-chain") || strings.HasPrefix(sc.Mix, "shape-print-alike-6")) {
			heavy[sc.Mix]++
			if heavy[sc.Mix]%3 != 2 {
				continue
			}
		}
		// threshold sweeps: one dimension at 63 / 64 / 65 (thorough: up to 257), everything else small
		for _, op := range sc.Ops {
			c := caseFor(sc.G, sc.Mix, op)
			c.NoModel = sc.NoModel09
			lim.Do(run, op, c, Exec)
		}
	}
	{
		// bodies around the limit of BIN's 99 numeric suffixes
		for n := 99; n <= 104; n++ {
			lim.Do(run, "cnfbin", caseFor(c08.LongBody(n, false), "long-body", "cnfbin"), Exec)
			lim.Do(run, "cnf", caseFor(c08.LongBody(n, true), "long-body", "cnf"), Exec)
		}
	}
	{
		// Verify() / IsCNF() / the *Match queries / Equal / the comparators and hashes on valid grammars (every third with
		// a terminal named like a non-terminal) and on grammars broken in each of the ways Verify() reports
		r := run.R.Fork("helpers")
		for k := 0; k < run.Scale(40); k++ {
			g := c08.GenGrammar(r, c08.Mixes[k%len(c08.Mixes)])
			if k%3 == 1 {
				g = c08.KeywordNames(r, g)
			}
			if k%4 == 2 {
				g = c08.WithEndmarker(g)
			}
			if k%2 == 1 {
				g = c08.MalformX(r, g, k/2)
			}
			ops := append(g.Lines(), c08.HelperQueries(r, g)...)
			if ok, _ := c08.Valid(g); ok {
				for _, op := range c08.OpsFor(g) {
					ops = append(ops, "eq "+op)
				}
			}
			lim.Do(run, "helpers", hx.Case{Header: "comp=helpers mix=helpers", Ops: ops}, Exec)
			if smallForParsers(g) || k%2 == 1 {
				lim.Do(run, "parsers", hx.Case{Header: "comp=parsers mix=helpers", Ops: append(g.Lines(), "verify", "parsers")}, Exec)
			}
		}
		// the shape on which ComputeFIRST returns and ComputeFOLLOW asks the FIRST closure for an undeclared symbol
		for k := 0; k < run.Scale(6); k++ {
			g := c08.GenGrammar(r, c08.Mixes[k%len(c08.Mixes)])
			g.Prods = append(g.Prods, gx.P{Head: hx.Pick(r, g.NonTerms), Body: []string{hx.Pick(r, g.Terms), hx.Pick(r, g.NonTerms), []string{"z", "^Z"}[k%2]}})
			lim.Do(run, "parsers", hx.Case{Header: "comp=parsers mix=follow-closure-panic", Ops: append(g.Lines(), "verify", "parsers")}, Exec)
		}
	}
	{
		// grammars Verify() rejects: correspondence only (the property does not speak about them)
		r := run.R.Fork("malformed")
		for k := 0; k < run.Scale(12); k++ {
			g := c08.Malform(r, c08.GenGrammar(r, c08.Mixes[k%len(c08.Mixes)]))
			for _, op := range c08.OpsFor(g) {
				lim.Do(run, op, caseFor(g, "malformed", op), Exec)
			}
		}
	}
	if run.Thorough() {
		n := 0
		c08.SmallShapes(func(g gx.G) {
			n++
			for _, op := range c08.Ops {
				if op == "leftrec" && !c08.LeftRecFeasible(g) {
					continue
				}
				lim.Do(run, op, caseFor(g, "small-shapes", op), Exec)
			}
			if n%7 == 0 {
				lim.Do(run, "parsers", hx.Case{Header: "comp=parsers mix=small-shapes", Ops: append(g.Lines(), "parsers")}, Exec)
			}
		})
		run.Stats.Extra["exhaustive_part"] = fmt.Sprintf("all %d grammars over S,A / a,b with 1-2 alternatives of length<=2 per non-terminal, seven transformations each (+ parser constructors on every 7th)", n)
	}
}
