module verifharness

go 1.23.4

require github.com/moorara/algo v0.0.0

require golang.org/x/exp v0.0.0-20250305212735-054e65f0b394 // indirect

replace github.com/moorara/algo => /repo
