// Package c15: AVL / Red-Black balance invariants and the truth of Height(), checked on the tree shape
// rebuilt from Traverse(VLR)+Traverse(LVR) and on the colours/cached heights shown by symboltable.VerifDump.
// The op executor (and the sorted-map oracle for every other call) is the one of package c01.
package c15

import (
	"fmt"
	"strconv"
	"strings"

	"github.com/moorara/algo/generic"

	"verifharness/c01"
	"verifharness/hx"
)

const Rule = "cases = (tree kind, constructor arguments of each table: comparator (8 lawful orders, normalised or not) and value " +
	"equality, history) drawn from VERIF_SEED: keys inserted in sorted, reverse-sorted, " +
	"zig-zag or random order (4-300 keys quick, up to 10^4 thorough), then a churn phase of Delete (present and absent " +
	"keys), DeleteMin, DeleteMax, re-insertions and now and then SelectMatch/PartitionMatch (the history goes on with the " +
	"derived table); a third of the small cases then empty the table (DeleteAll or draining), call the three deletes and " +
	"Height on the empty table and refill it; Traverse in all eight orders and an invalid one, with and without a stopping " +
	"visitor; plus mixed histories of package c01's generator (every query, two or three tables with their own comparators, " +
	"key universes of 4-16 and of 16-64 keys) with a check after every mutator; plus the threshold sweep of package c01 " +
	"(0,1,2,63,64,65,255,256,257,1023,1024,1025 and 65536 keys - thorough: also 65535,65537,70000 - inserted in sorted, reverse, " +
	"zig-zag or random order, queries at the threshold ranks, growth past and shrinking below the size with all kinds of " +
	"delete; half of them with keys spread 2^5x apart) with a check after the load and after every delete; every size from 0 to 200 " +
	"(load, battery, one delete of each kind, check after each); random-order loads of 300, 800, 1500, 2500, 5000 keys followed " +
	"by random-order deletes, re-insertions and DeleteMin/DeleteMax with a check every n/6 mutations, plus oracle-only (NoModel) " +
	"random loads of 2500 keys with churn and a check every 40 mutations (3 Red-Black, 1 AVL, 1 BST; three times as many when " +
	"thorough / searching / code changed); one case in five instantiates K with string and/or V with a struct, a []int or an any; " +
	"after every mutator (small tables) or periodically (large ones) a " +
	"`height` call, at which the harness rebuilds the shape from the pre-order and in-order traversals and checks " +
	"Height() = longest root-to-leaf path, AVL: every node's subtree heights differ by <= 1 and cached = real heights, " +
	"Red-Black: black root, no red right link, no two reds in a row, equal black height on every path, " +
	"2^height <= (n+1)^2; `dump` lines compare heights/colours/sizes with the Lean Model; every case but the oracle-only " +
	"random loads runs on the Lean Model as well; " +
	"non-trivial = at least one such check ran on a table holding >= 4 keys; distinct = distinct (header, op list)"

func keysOf(l []c01.KV) []int {
	out := make([]int, len(l))
	for i, e := range l {
		out[i] = e.K
	}
	return out
}

// checkAVL: real heights differ by <= 1 everywhere and equal the cached ones; returns the real height.
func checkAVL(n *c01.Shape, cached *c01.Shape) (int, error) {
	if n == nil {
		return 0, nil
	}
	var cl, cr *c01.Shape
	if cached != nil {
		cl, cr = cached.L, cached.R
	}
	hl, err := checkAVL(n.L, cl)
	if err != nil {
		return 0, err
	}
	hr, err := checkAVL(n.R, cr)
	if err != nil {
		return 0, err
	}
	if hl-hr > 1 || hr-hl > 1 {
		return 0, fmt.Errorf("node %d: subtree heights %d and %d differ by more than 1", n.Key, hl, hr)
	}
	h := 1 + max(hl, hr)
	if cached != nil && cached.Height != h {
		return 0, fmt.Errorf("node %d: cached height %d, real height %d", n.Key, cached.Height, h)
	}
	return h, nil
}

// checkRB: colour invariants of a left-leaning red-black tree; returns the black height.
func checkRB(n *c01.Shape) (int, error) {
	if n == nil {
		return 0, nil
	}
	if n.R != nil && n.R.Red {
		return 0, fmt.Errorf("node %d has a red right link", n.Key)
	}
	if n.Red && n.L != nil && n.L.Red {
		return 0, fmt.Errorf("node %d and its left child are both red", n.Key)
	}
	bl, err := checkRB(n.L)
	if err != nil {
		return 0, err
	}
	br, err := checkRB(n.R)
	if err != nil {
		return 0, err
	}
	if bl != br {
		return 0, fmt.Errorf("node %d: black heights %d (left) and %d (right)", n.Key, bl, br)
	}
	if !n.Red {
		bl++
	}
	return bl, nil
}

func hook(m *c01.Machine, i int, f []string, out string, bad func(string, ...any), tags map[string]bool) {
	if len(f) == 0 || f[0] != "height" {
		return
	}
	h, err := strconv.Atoi(strings.TrimPrefix(out, "ok "))
	if err != nil {
		bad("unparsable height %q", out)
		return
	}
	pre := keysOf(c01.Collect(m.A, generic.VLR, 0))
	in := keysOf(c01.Collect(m.A, generic.LVR, 0))
	shape, err := c01.Rebuild(pre, in)
	if err != nil {
		bad("pre-order/in-order traversals do not describe a tree: %v", err)
		return
	}
	n := len(in)
	if n >= 4 {
		tags["checked>=4keys"] = true
	}
	if n >= 1000 {
		tags["checked>=1000keys"] = true
	}
	if rh := shape.RealHeight(); rh != h {
		bad("Height() = %d but the longest root-to-leaf path of the tree has %d nodes (%d keys)", h, rh, n)
		return
	}
	dump, derr := c01.ParseDump(m.Comp, m.A.Dump())
	if derr != nil {
		bad("unparsable dump: %v", derr)
		return
	}
	if dump.Keys() != shape.Keys() {
		bad("the dumped tree and the tree rebuilt from the traversals differ")
		return
	}
	switch m.Comp {
	case "avl":
		if _, err := checkAVL(shape, dump); err != nil {
			bad("AVL invariant broken: %v", err)
		}
		tags["avl-checked"] = true
	case "rb":
		if dump != nil && dump.Red {
			bad("Red-Black invariant broken: red root")
		}
		if _, err := checkRB(dump); err != nil {
			bad("Red-Black invariant broken: %v", err)
		}
		// 2^h <= (n+1)^2, i.e. h <= 2*log2(n+1)
		if h < 62 && (uint64(1)<<uint(h)) > uint64(n+1)*uint64(n+1) {
			bad("height %d exceeds 2*log2(%d+1)", h, n)
		}
		tags["rb-checked"] = true
	case "bst":
		tags["bst-checked"] = true
	}
}

func Exec(c hx.Case) hx.Result {
	res := c01.ExecWith(c, hook, false)
	res.Nontrivial = false
	for _, t := range res.Tags {
		if t == "checked>=4keys" {
			res.Nontrivial = true
		}
	}
	return res
}

func order(r *hx.Rand, family string, n int) []int { return c01.InsertionOrder(r, family, n) }

var orderNames = []string{"vlr", "vrl", "lvr", "rvl", "lrv", "rlv", "ascending", "descending", "other"}

var derivePreds = []string{"true", "kmod 2 0", "kmod 3 1", "vmod 2 1", "klt 7", "sumlt 12"}

var Families = c01.Families

// GenHistory: fill in the given order, then churn; `height` (and `dump`) every `every` mutators.
func GenHistory(r *hx.Rand, family string, n, churn, every int, small bool) []string {
	var ops []string
	mut := 0
	check := func() {
		mut++
		if mut%every == 0 {
			ops = append(ops, "height")
			if small {
				ops = append(ops, "dump")
				if r.Chance(1, 4) {
					ops = append(ops, "traverse vlr 0", "traverse lvr 0", "size")
				}
				if r.Chance(1, 6) {
					// the other orders of _traverse (and an order that is none of the eight), with and without a visitor that stops
					ops = append(ops, fmt.Sprintf("traverse %s %d", hx.Pick(r, orderNames), r.Intn(2)*r.Range(1, 5)))
				}
			} else if r.Chance(1, 8) {
				ops = append(ops, "dump")
			}
		}
	}
	for _, k := range order(r, family, n) {
		ops = append(ops, fmt.Sprintf("put %d %d", k, k%10))
		check()
	}
	for j := 0; j < churn; j++ {
		switch x := r.Intn(100); {
		case x < 40:
			ops = append(ops, fmt.Sprintf("delete %d", r.Range(-1, n)))
		case x < 55:
			ops = append(ops, "deletemin")
		case x < 69:
			ops = append(ops, "deletemax")
		case x < 70:
			// the other ways to a table: SelectMatch / PartitionMatch build new tables with Put; carry on with the result
			if small {
				ops = append(ops, hx.Pick(r, []string{"selectmatch", "partitionmatch"})+" "+hx.Pick(r, derivePreds), "swap", "height", "dump")
			} else {
				ops = append(ops, hx.Pick(r, []string{"selectmatch", "partitionmatch"})+" "+hx.Pick(r, derivePreds), "swap")
			}
		default:
			ops = append(ops, fmt.Sprintf("put %d %d", r.Range(0, n+n/4), r.Intn(10)))
		}
		check()
	}
	ops = append(ops, "height", "dump", "size")
	if small && r.Chance(1, 3) {
		// empty the table (DeleteAll, or one DeleteMin/DeleteMax more than there are keys), look at the empty tree, refill
		if r.Bool() {
			ops = append(ops, "deleteall")
		} else {
			for j := 0; j < 8 && j < n; j++ {
				ops = append(ops, hx.Pick(r, []string{"deletemin", "deletemax"}))
			}
			ops = append(ops, "deleteall")
		}
		ops = append(ops, "height", "dump", "deletemin", "deletemax", "delete 0", "height", "traverse "+hx.Pick(r, orderNames)+" 0", "dump")
		for _, k := range order(r, family, r.Range(3, 9)) {
			ops = append(ops, fmt.Sprintf("put %d %d", k, k%10), "height", "dump")
		}
	}
	return ops
}

// withHeights: a `height` check after every call that can change a table or bring another one to the front.
func withHeights(in []string) []string {
	var ops []string
	for _, op := range in {
		ops = append(ops, op)
		switch strings.Fields(op)[0] {
		case "put", "delete", "deletemin", "deletemax", "deleteall", "swap", "swapc", "selectmatch", "partitionmatch":
			ops = append(ops, "height")
		}
	}
	return ops
}

func permutations(n int, f func([]int)) {
	p := make([]int, n)
	for i := range p {
		p[i] = i
	}
	var rec func(k int)
	rec = func(k int) {
		if k == n {
			f(p)
			return
		}
		for i := k; i < n; i++ {
			p[k], p[i] = p[i], p[k]
			rec(k + 1)
			p[k], p[i] = p[i], p[k]
		}
	}
	rec(0)
}

func Main(run *hx.Run) {
	run.Stats.Rule = Rule
	for _, f := range hx.CorpusFiles("C15") {
		cs, _ := hx.ReadReplay(f)
		for _, c := range cs {
			run.Do(hx.HeaderGet(c.Header, "comp"), c, Exec)
		}
	}
	for _, comp := range []string{"avl", "rb", "bst"} {
		r := run.R.Fork(comp)
		n := run.Scale(120)
		if comp == "bst" {
			n = run.Scale(30)
		}
		for k := 0; k < n; k++ {
			family := Families[k%len(Families)]
			size := r.Range(4, 40)
			every := 1
			small := true
			if k%6 == 5 {
				size = r.Range(100, 300)
				every = r.Range(5, 20)
				small = false
			}
			c := hx.Case{Header: fmt.Sprintf("comp=%s %s family=%s", comp, c01.Params(r, c01.CmpNames), family),
				Ops: GenHistory(r, family, size, size*2, every, small)}
			run.Do(comp, c, Exec)
		}
	}
	// mixed histories of package c01 (every query, all eight traversal orders, Equal, the *Match family, two tables) with a
	// `height` check after every call that can change a table: the query code reads the nodes the invariants are about
	for _, comp := range []string{"avl", "rb", "bst"} {
		r := run.R.Fork(comp + "/mixed")
		n := run.Scale(45)
		for k := 0; k < n; k++ {
			u, l, lo := r.Range(4, 16), 50, 0
			if k%3 == 2 {
				u, l = r.Range(16, 64), 150 // the shapes that need a dozen keys or more (a two-children delete below an unbalanced ancestor)
			}
			if k%4 == 3 {
				lo = -u / 2
			}
			c := hx.Case{Header: fmt.Sprintf("comp=%s %s%s family=mixed dump=1", comp, c01.Params(r, c01.CmpNames), c01.TypeParams(r)),
				Ops: withHeights(c01.GenOpsAt(r, l, lo, u))}
			run.Do(comp, c, Exec)
		}
	}
	// size thresholds: the sweep of package c01 (it asks `height` after the load and after every mutation)
	for _, comp := range []string{"avl", "rb", "bst"} {
		c01.SweepCases(run, run.R.Fork(comp+"/sweep"), comp, func(c hx.Case) { run.Do(comp, c, Exec) })
	}
	// every size from 0 to 200, and irregular shapes: random-order loads and churn on 300 … 5000 keys (package c01)
	for _, comp := range []string{"avl", "rb", "bst"} {
		r := run.R.Fork(comp + "/smallsizes")
		for n := 0; n <= 200; n++ {
			family := Families[(n+int(run.Seed))%len(Families)]
			c := hx.Case{Header: fmt.Sprintf("comp=%s %s%s family=size-%s n=%d", comp, c01.Params(r, c01.CmpNames), c01.TypeParams(r), family, n),
				Ops: c01.SmallSizeOps(r, family, n)}
			run.Do(comp, c, Exec)
		}
		c01.RandLoadCases(run, run.R.Fork(comp+"/randload"), comp, c01.RandLoadOpts{N: 2500, HeightEvery: 40, RB: 3, Other: 1},
			func(c hx.Case) { run.Do(comp, c, Exec) })
	}
	if run.Thorough() {
		// large tables: 10^3 - 10^4 keys in the adversarial insertion orders, long churn
		for _, comp := range []string{"avl", "rb"} {
			r := run.R.Fork(comp + "/large")
			for _, family := range Families {
				for _, size := range []int{1000, 3000, 10000} {
					c := hx.Case{Header: fmt.Sprintf("comp=%s cmp=asc family=%s", comp, family),
						Ops: GenHistory(r, family, size, size, size/20, false)}
					run.Do(comp, c, Exec)
				}
			}
		}
		// (a) every history of length <= 6 over the 8 mutating calls on 3 keys, `height` after every call
		alpha := []string{"put 0 0", "put 1 1", "put 2 2", "delete 0", "delete 1", "delete 2", "deletemin", "deletemax"}
		for _, comp := range []string{"avl", "rb"} {
			for n := 1; n <= 6; n++ {
				c01.Exhaustive(alpha, n, func(ops []string) {
					full := make([]string, 0, 2*len(ops)+1)
					for _, op := range ops {
						full = append(full, op, "height")
					}
					full = append(full, "dump")
					run.Do(comp, hx.Case{Header: fmt.Sprintf("comp=%s cmp=asc family=exhaustive3", comp), Ops: full}, Exec)
				})
			}
		}
		// (b) every insertion order of 5 keys followed by every sequence of <= 3 mutators over 12 calls
		alpha5 := []string{"delete 0", "delete 1", "delete 2", "delete 3", "delete 4", "deletemin", "deletemax",
			"put 5 5", "put -1 1", "delete 5", "put 2 9", "delete -1"}
		for _, comp := range []string{"avl", "rb"} {
			permutations(5, func(p []int) {
				var fill []string
				for _, k := range p {
					fill = append(fill, fmt.Sprintf("put %d %d", k, k))
				}
				for n := 0; n <= 3; n++ {
					c01.Exhaustive(alpha5, n, func(ops []string) {
						full := append([]string{}, fill...)
						full = append(full, "height")
						for _, op := range ops {
							full = append(full, op, "height")
						}
						full = append(full, "dump")
						run.Do(comp, hx.Case{Header: fmt.Sprintf("comp=%s cmp=asc family=exhaustive5", comp), Ops: full}, Exec)
					})
				}
			})
		}
		run.Stats.Exhaustive = true
		run.Stats.Extra["exhaustive_part"] = "avl and rb: (a) all histories of length<=6 over {put 0,1,2; delete 0,1,2; deletemin; deletemax}; " +
			"(b) all 120 insertion orders of 5 keys followed by all sequences of <=3 calls over 12 mutators; height checked after every call"
	}
}
