package c04

// Axis 4: the heaps are generic in K and V, the rest of this harness instantiates them with int only.  Here the same
// operation streams run on heaps whose keys and values are strings, structs, pointers, slices (not comparable at
// run time), `any` holding mixed dynamic types, and a struct that contains a slice.  Every element stands for an
// integer (toK / fromK, toV / fromV), the comparator and the value equality are those of the integers, and every
// output line prints the integers — so the lines are the ones the (generic) Lean Model prints for the same stream.
// The verif dump hooks are written for int heaps: typed cases carry no `dump` and no `mergeother` operations.
//
//	header  ... kv=str|struct|ptr|slice|any|slicestruct

import (
	"fmt"
	"strconv"
	"strings"

	"github.com/moorara/algo/heap"

	"verifharness/hx"
)

type inst[K, V any] struct {
	toK   func(int) K
	fromK func(K) int
	toV   func(int) V
	fromV func(V) int
}

type skey struct {
	N   int
	Tag string
}

type sliceStruct struct {
	S    []int
	Note string
}

func anyOf(n int) any {
	switch {
	case n < 0:
		return skey{N: n, Tag: "neg"}
	case n%2 == 0:
		return n
	}
	return strconv.Itoa(n)
}

func intOfAny(x any) int {
	switch x := x.(type) {
	case int:
		return x
	case string:
		n, _ := strconv.Atoi(x)
		return n
	case skey:
		return x.N
	}
	panic("harness: unknown dynamic type")
}

// TypedKinds lists the instantiations (header kv=...).
var TypedKinds = []string{"str", "struct", "ptr", "slice", "any", "slicestruct"}

func execTypedCase(c hx.Case, res *hx.Result) {
	atoi := func(s string) int { n, _ := strconv.Atoi(s); return n }
	switch hx.HeaderGet(c.Header, "kv") {
	case "str":
		execTyped(c, res, inst[string, string]{strconv.Itoa, atoi, func(n int) string { return "v" + strconv.Itoa(n) }, func(s string) int { return atoi(s[1:]) }})
	case "struct":
		execTyped(c, res, inst[skey, skey]{func(n int) skey { return skey{n, "k"} }, func(k skey) int { return k.N },
			func(n int) skey { return skey{n, "v"} }, func(k skey) int { return k.N }})
	case "ptr":
		execTyped(c, res, inst[*skey, *skey]{func(n int) *skey { return &skey{n, "k"} }, func(k *skey) int { return k.N },
			func(n int) *skey { return &skey{n, "v"} }, func(k *skey) int { return k.N }})
	case "slice":
		execTyped(c, res, inst[[]int, []int]{func(n int) []int { return []int{n} }, func(k []int) int { return k[0] },
			func(n int) []int { return []int{7, n} }, func(k []int) int { return k[1] }})
	case "any":
		execTyped(c, res, inst[any, any]{anyOf, intOfAny, anyOf, intOfAny})
	case "slicestruct":
		execTyped(c, res, inst[sliceStruct, sliceStruct]{func(n int) sliceStruct { return sliceStruct{[]int{n}, "k"} }, func(k sliceStruct) int { return k.S[0] },
			func(n int) sliceStruct { return sliceStruct{[]int{n, n}, "v"} }, func(k sliceStruct) int { return k.S[1] }})
	}
}

type typedReg[K, V any] struct {
	h     heap.Heap[K, V]
	pairs map[kv]int
	n     int
	keys  *keyBag
	vals  map[int]int
}

func execTyped[K, V any](c hx.Case, res *hx.Result, in inst[K, V]) {
	comp := hx.HeaderGet(c.Header, "comp")
	ori := hx.HeaderGet(c.Header, "ori")
	size, _ := strconv.Atoi(hx.HeaderGet(c.Header, "size"))
	cmp := cmpOf(ori)
	cmpK := func(a, b K) int { return cmp(in.fromK(a), in.fromK(b)) }
	eqV := func(a, b V) bool { return in.fromV(a) == in.fromV(b) }
	res.Tags = []string{"comp=" + comp, "ori=" + ori, "kv=" + hx.HeaderGet(c.Header, "kv")}
	bad := func(i int, format string, a ...any) {
		if res.BadOp < 0 {
			res.BadOp = i
			res.What = fmt.Sprintf(format, a...)
		}
	}
	mk := func() heap.Heap[K, V] {
		switch comp {
		case "binary":
			return heap.NewBinary[K, V](size, cmpK, eqV)
		case "binomial":
			return heap.NewBinomial[K, V](cmpK, eqV)
		}
		return heap.NewFibonacci[K, V](cmpK, eqV)
	}
	var regs []*typedReg[K, V]
	get := func(r int) *typedReg[K, V] {
		for len(regs) <= r {
			regs = append(regs, &typedReg[K, V]{h: mk(), pairs: map[kv]int{}, keys: &keyBag{cmp: cmp}, vals: map[int]int{}})
		}
		return regs[r]
	}
	peak := 0
	for i, op := range c.Ops {
		f := strings.Fields(op)
		out := "bad-op"
		kind := hx.Try(func() {
			if len(f) < 2 {
				return
			}
			r, err := strconv.Atoi(f[1])
			if err != nil || r < 0 || (comp == "binary" && r != 0) {
				return
			}
			g := get(r)
			switch {
			case f[0] == "merge" && len(f) == 3 && comp != "binary":
				s, _ := strconv.Atoi(f[2])
				if s < 0 {
					return
				}
				gs := get(s)
				g.h.(heap.MergeableHeap[K, V]).Merge(gs.h.(heap.MergeableHeap[K, V]))
				out = "ok"
				if s == r {
					return
				}
				for p, m := range gs.pairs {
					for ; m > 0; m-- {
						g.pairs[p]++
						g.n++
						g.keys.add(p.k)
						g.vals[p.v]++
					}
				}
				gs.pairs, gs.n, gs.keys, gs.vals = map[kv]int{}, 0, &keyBag{cmp: cmp}, map[int]int{}
			case f[0] == "ins" && len(f) == 4:
				k, _ := strconv.Atoi(f[2])
				v, _ := strconv.Atoi(f[3])
				g.h.Insert(in.toK(k), in.toV(v))
				g.pairs[kv{k, v}]++
				g.n++
				g.keys.add(k)
				g.vals[v]++
				out = "ok"
			case (f[0] == "del" || f[0] == "peek") && len(f) == 2:
				var kk K
				var vv V
				var ok bool
				if f[0] == "del" {
					kk, vv, ok = g.h.Delete()
				} else {
					kk, vv, ok = g.h.Peek()
				}
				if !ok {
					out = "ok none"
					if g.n > 0 {
						bad(i, "%s reported empty while %d entries are held", f[0], g.n)
					}
					return
				}
				k, v := in.fromK(kk), in.fromV(vv)
				out = optKV(k, v, true)
				switch {
				case g.n == 0:
					bad(i, "%s on an empty heap returned (%d,%d)", f[0], k, v)
				case g.pairs[kv{k, v}] == 0:
					bad(i, "%s returned (%d,%d), which is not a held pair", f[0], k, v)
				case !g.keys.extremal(k):
					bad(i, "%s returned key %d, which is not extremal among the held keys", f[0], k)
				default:
					if f[0] == "del" {
						if g.pairs[kv{k, v}]--; g.pairs[kv{k, v}] == 0 {
							delete(g.pairs, kv{k, v})
						}
						g.n--
						g.keys.del(k)
						g.vals[v]--
					}
				}
			case f[0] == "clear" && len(f) == 2:
				g.h.DeleteAll()
				g.pairs, g.n, g.keys, g.vals = map[kv]int{}, 0, &keyBag{cmp: cmp}, map[int]int{}
				out = "ok"
			case f[0] == "size" && len(f) == 2:
				n := g.h.Size()
				out = "ok " + strconv.Itoa(n)
				if n != g.n {
					bad(i, "size = %d, %d entries are held", n, g.n)
				}
			case f[0] == "empty" && len(f) == 2:
				e := g.h.IsEmpty()
				out = "ok " + strconv.FormatBool(e)
				if e != (g.n == 0) {
					bad(i, "isEmpty = %v with %d entries held", e, g.n)
				}
			case f[0] == "hask" && len(f) == 3:
				k, _ := strconv.Atoi(f[2])
				got := g.h.ContainsKey(in.toK(k))
				out = "ok " + strconv.FormatBool(got)
				if want := g.keys.has(k); got != want {
					bad(i, "containsKey %d = %v, the held multiset says %v", k, got, want)
				}
			case f[0] == "hasv" && len(f) == 3:
				v, _ := strconv.Atoi(f[2])
				got := g.h.ContainsValue(in.toV(v))
				out = "ok " + strconv.FormatBool(got)
				if want := g.vals[v] > 0; got != want {
					bad(i, "containsValue %d = %v, the held multiset says %v", v, got, want)
				}
			}
			if g.n > peak {
				peak = g.n
			}
		})
		if kind != "" {
			res.Outs = append(res.Outs, "panic")
			bad(i, "%s panicked (%s) on a heap of %s keys and values", op, kind, hx.HeaderGet(c.Header, "kv"))
			res.Tags = append(res.Tags, "panic")
			break
		}
		res.Outs = append(res.Outs, out)
	}
	res.Nontrivial = peak >= 4
}

// typedOps: an op stream without the operations that need the int-only hooks
func typedOps(ops []string) []string {
	out := make([]string, 0, len(ops))
	for _, op := range ops {
		if strings.HasPrefix(op, "dump ") || strings.HasPrefix(op, "mergeother ") {
			continue
		}
		out = append(out, op)
	}
	return out
}

// ---------------------------------------------------------------- every size from 0 to 200

// genEverySize: exactly n entries (for the binary heap created with initial size n as well), every query, for the
// mergeable heaps a Merge with a second heap of m entries, then a complete drain
func genEverySize(r *hx.Rand, comp string, n int) []string {
	s := &sweep{r: r, keys: []string{"asc", "desc", "random", "equal"}[n%4], peak: n + 1, dumpMax: 40}
	for j := 0; j < n; j++ {
		s.ins(0, s.key(j))
	}
	s.battery(0, n)
	s.add("dump 0")
	total := n
	if comp != "binary" {
		m := []int{0, 1, n, n + 1, 7, 31, 32, 33}[n%8]
		for j := 0; j < m; j++ {
			s.ins(1, s.anyKey())
		}
		s.add("merge 0 1")
		s.add("size 0")
		s.add("size 1")
		total += m
	} else {
		s.ins(0, s.anyKey())
		s.ins(0, s.anyKey())
		total += 2
	}
	s.add("dump 0")
	for j := 0; j <= total; j++ {
		s.add("del 0")
		if j == total/2 {
			s.add("peek 0")
			s.add("dump 0")
		}
	}
	s.add("size 0")
	s.add("dump 0")
	return s.ops
}

// genMixedAtSize (axis 5: two special conditions at once): three heaps built with different comparators, each filled
// to a threshold size, merged into one another and drained
func genMixedAtSize(r *hx.Rand, sizes [3]int) []string {
	s := &sweep{r: r, keys: hx.Pick(r, []string{"asc", "desc", "random", "equal"}), peak: sizes[0] + sizes[1] + sizes[2], dumpMax: 40}
	j := 0
	for reg, n := range sizes {
		for i := 0; i < n; i++ {
			s.ins(reg, s.key(j))
			j++
		}
		if r.Bool() && n > 1 {
			s.add("del %d", reg)
			s.ins(reg, s.anyKey())
		}
	}
	s.add("merge 1 2")
	s.battery(1, sizes[1]+sizes[2])
	s.add("merge 0 1")
	s.battery(0, s.peak)
	s.add("merge 0 0")
	s.add("size 1")
	s.add("size 2")
	s.ins(2, s.anyKey())
	s.add("merge 2 0")
	s.battery(2, s.peak+1)
	s.drain(2, s.peak+1)
	return s.ops
}

func secondRound(run *hx.Run) {
	for _, comp := range comps {
		if gaveUp(comp) {
			continue
		}
		r := run.R.Fork(comp + "-round2")
		// every size from 0 to 200
		for n := 0; n <= 200; n++ {
			size := 0
			if comp == "binary" {
				size = n
			}
			if !gaveUp(comp) {
				run.Do(comp, hx.Case{Header: header(comp, oris[n%len(oris)], size), Ops: genEverySize(r, comp, n)}, Exec)
			}
		}
		// other instantiations of K and V
		for _, kind := range TypedKinds {
			for k := 0; k < run.Scale(12); k++ {
				ori := hx.Pick(r, oris)
				var ops []string
				switch k % 4 {
				case 0:
					ops = genTies(r, comp)
				case 1:
					if comp != "binary" {
						ops = genMergeEdges(r, comp)
					} else {
						ops = genChurn(r, comp, 1)
					}
				default:
					ops = genMixed(r, comp, r.Range(8, 90), 3)
				}
				if !gaveUp(comp) {
					run.Do(comp, hx.Case{Header: header(comp, ori, r.Intn(3)) + " kv=" + kind, Ops: typedOps(ops)}, Exec)
				}
			}
			// and once through the thresholds up to 257 entries
			if !gaveUp(comp) {
				run.Do(comp, hx.Case{Header: header(comp, hx.Pick(r, oris), 0) + " kv=" + kind, Ops: typedOps(genSweep(r, comp, "random", 257, 0))}, Exec)
			}
		}
		if comp == "binary" {
			continue
		}
		// different comparators AND threshold sizes
		for _, sz := range [][3]int{{64, 64, 64}, {128, 129, 1}, {255, 257, 256}, {1024, 63, 65}, {1, 1023, 128}, {127, 128, 129}} {
			class := hx.Pick(r, sameOrder)
			o := hx.Pick(r, class) + "," + hx.Pick(r, class) + "," + class[len(class)-1]
			if !gaveUp(comp) {
				run.Do(comp, hx.Case{Header: header(comp, "min", 0) + " oris=" + o, Ops: genMixedAtSize(r, sz)}, Exec)
			}
		}
	}
}
