// Package c04: binary, binomial and Fibonacci heaps (heap package) against a multiset oracle.
//
// A case runs on a family of heaps ("registers"; binary uses register 0 only); after `merge d s` BOTH heaps
// stay in use (the operand must have been left empty by Merge, any structure it still shares with the
// receiver shows up in the following operations and dumps).  The oracle keeps one
// multiset of (key, value) pairs per register and checks ADMISSIBILITY of every outcome (any held pair
// with an extremal key is an acceptable answer of Peek/Delete); the exact outputs and the internal
// structure (dump) are compared with the Lean Model by bin/check.
package c04

import (
	"fmt"
	"math/bits"
	"strconv"
	"strings"
	"sync"
	"time"

	"github.com/moorara/algo/heap"

	"verifharness/hx"
)

const Rule = "cases = (implementation, comparator min|max|half and the non-normalised minraw a-b | min7 7(a-b) | maxraw b-a, " +
	"initial size 0-4 for binary, op sequence over a family of heaps) drawn from VERIF_SEED: keys from a 6-value " +
	"universe (dense duplicates; occasionally 0-40 or only 2 values for long runs of ties), every " +
	"inserted value distinct so a wrong pair is visible, phases of filling and draining, Merge between heaps " +
	"built in the same case with BOTH heaps used afterwards (receiver fresh / drained / DeleteAll-ed / non-empty, " +
	"operand empty or not, the same operand merged again, self-merge, and Merge with an operand of another type - a " +
	"non-empty heap of the other mergeable implementation and the nil interface - which must change neither side), long insert/delete churn crossing " +
	"binary-heap resize boundaries, state dumps " +
	"(array / forest in root-list order) after mutations. The constructor is part of every case. " +
	"Size families (every tier): one heap walked through 1, 2, 63-65, 255-257, 1023-1025 held entries and drained through the same sizes " +
	"(keys ascending / descending / all equal / random / of extreme magnitude MinInt..MaxInt under min and max), with a battery of every query at each size, " +
	"three Deletes back below each threshold and up again, a self-merge and a burst of Insert+Delete at the peak (thorough: also through 4095-4097 and 16385); " +
	"NewBinary with initial size 0, 1, 2, 63-65, 255-257, 1023-1025 (thorough: 4095-4097, 65535-65537) filled past its first doubling and drained through its halvings; " +
	"Merge of two heaps of 63+1, 64+64, 65+63, 255+257, 256+256, 1+1023, 1024+1024, 1025+1, 0+1024, 1024+0, ~2^12+2^12 entries (both used afterwards, the operand merged again, " +
	"everything merged back the other way, drained); chains of 4-12 Merges of heaps of sizes 1, 1, 2, 4, ... into one heap or as a tournament; " +
	"one heap of 65535 / 65536 / 65537 / 70000 entries per implementation and a Merge of two heaps of ~2^16 entries per mergeable implementation. " +
	"The executable Models of the binary and the Fibonacci heap are quadratic at 2^16 entries (15 s / 3 min; written for proofs: lists), so in the quick tier the 2^16 cases are " +
	"judged by the Go oracle alone (extra.oracle_only_cases); the thorough tier compares the binomial Model at every one of these sizes, the binary Model once, and all three at 16385 entries. " +
	"Mixed comparators (header oris=a,b,c: heap r of the family is built with comparator r mod 3): random histories with Merges over three heaps built with different comparators of one order " +
	"(min / a-b / 7(a-b), or max / b-a: the full property is claimed) or of different orders (the Model says what the code does; the oracle claims the union of the entries only, " +
	"no extremality, until the receiver has been emptied - tag foreign-order-no-extremality-claim). " +
	"Second round: EVERY number of entries 0..200 per implementation (binary: also as initial size; mergeable: plus a Merge with a second heap of 0/1/n/n+1/7/31/32/33 entries), drained; " +
	"three heaps built with different comparators of one order filled to 64/128/129/255-257/1023/1024 entries each, merged and drained (comparators AND sizes at once); " +
	"type instantiation (header kv=str|struct|ptr|slice|any|slicestruct): the same streams on heaps whose K and V are strings, structs, pointers, []int (not comparable), any with mixed dynamic types, " +
	"a struct containing a slice - every element stands for an integer and prints as it, so the lines equal the generic Model's; no dumps there (the dump hooks are int-only). " +
	"Huge families (run.Huge(): thorough, witness search, or budget enlarged because a modelled function's digest changed; header huge=1, `bulk` lines, oracle-only with an oracle made for the size: " +
	"distinct keys, value 2k+1, a heap is a sorted slice): one heap of 131071 / 196608 / 262143 / 262144 / 262145 entries per implementation (ascending: the minimum in the tree of order 17), " +
	"Merges of 2^17-1 + 2^16-1, 2^16-1 + 2^17-1, 2^17 + 2^16, 2 x 131071, 2 x 262143 entries, Fibonacci heaps of 4 871 000 entries and 3*10^6 + 2*10^6 merged (floor(log_phi n)+1 passes 32 at 4 870 847), " +
	"binomial 4 871 000, binary 5*10^6; the 2^18-1 Delete and the 2^17-1 + 2^16-1 Merge are in the corpus and run on every check. " +
	"non-trivial = at least one operation whose " +
	"consolidation linked >= 2 trees, or a binary-heap resize (grow or shrink) (typed / huge cases: >= 4 entries held); distinct = distinct (header, op list)"

type kv struct{ k, v int }

func cmpMin(a, b int) int {
	switch {
	case a < b:
		return -1
	case a > b:
		return 1
	}
	return 0
}
func cmpMax(a, b int) int { return cmpMin(b, a) }

// floor division by 2, as Lean's Int `/` (keys are never negative in generated cases, corpus may use them)
func half(a int) int {
	if a >= 0 {
		return a / 2
	}
	return -((-a + 1) / 2)
}
func cmpHalf(a, b int) int { return cmpMin(half(a), half(b)) }

func eqInt(a, b int) bool { return a == b }

func cmpOf(ori string) func(int, int) int {
	switch ori {
	case "max":
		return cmpMax
	case "half":
		return cmpHalf
	case "minraw": // not normalised to -1/0/+1: only the sign may matter
		return func(a, b int) int { return a - b }
	case "min7":
		return func(a, b int) int { return 7 * (a - b) }
	case "maxraw":
		return func(a, b int) int { return b - a }
	}
	return cmpMin
}

// reg is one heap of the family with what the oracle knows about it: the multiset of held pairs, the held keys
// in the order of the heap's own comparator (for extremality and ContainsKey by binary search) and the held values.
type reg struct {
	h        heap.Heap[int, int]
	ori      string             // the comparator this heap was built with
	cmp      func(int, int) int //
	pairs    map[kv]int
	n        int // number of held pairs
	keys     *keyBag
	vals     map[int]int
	everHeld bool // held an entry at some point
	merged   bool // was the operand of a Merge
	// foreign: the heap absorbed the trees of a non-empty heap that was ordered by a DIFFERENT order (Merge with
	// a heap built with another comparator): it still holds the union of the entries, but nothing promises that
	// Peek/Delete find an extremal key until it has been emptied.  (Comparators that differ only in the magnitude
	// of their results, min / a-b / 7(a-b), are the same order.)
	foreign bool
}

func newReg(comp string, size int, ori string) *reg {
	cmp := cmpOf(ori)
	return &reg{h: newHeap(comp, size, cmp), ori: ori, cmp: cmp, pairs: map[kv]int{}, keys: &keyBag{cmp: cmp}, vals: map[int]int{}}
}

func (g *reg) add(p kv) {
	g.pairs[p]++
	g.n++
	g.keys.add(p.k)
	g.vals[p.v]++
}

func (g *reg) remove(p kv) {
	if g.pairs[p]--; g.pairs[p] == 0 {
		delete(g.pairs, p)
	}
	g.n--
	g.keys.del(p.k)
	g.vals[p.v]--
	if g.n == 0 {
		g.foreign = false
	}
}

func (g *reg) clear() {
	g.pairs, g.n, g.keys, g.vals, g.foreign = map[kv]int{}, 0, &keyBag{cmp: g.cmp}, map[int]int{}, false
}

// orderOf: comparators that induce the same order (they differ in the magnitude of their results only)
func orderOf(ori string) string {
	switch ori {
	case "max", "maxraw":
		return "max"
	case "half":
		return "half"
	}
	return "min"
}

func newHeap(comp string, size int, cmp func(int, int) int) heap.Heap[int, int] {
	switch comp {
	case "binary":
		return heap.NewBinary[int, int](size, cmp, eqInt)
	case "binomial":
		return heap.NewBinomial[int, int](cmp, eqInt)
	case "fibonacci":
		return heap.NewFibonacci[int, int](cmp, eqInt)
	}
	return nil
}

func optKV(k, v int, ok bool) string {
	if ok {
		return "ok some " + strconv.Itoa(k) + " " + strconv.Itoa(v)
	}
	return "ok none"
}

var (
	hangMu sync.Mutex
	hangs  = map[string]int{} // component -> cases that did not return (their goroutines keep spinning)
)

// a component that hung twice is not exercised further in this run: every further hang costs the
// watchdog time and leaks a spinning goroutine, and two witnesses are enough
func gaveUp(comp string) bool {
	hangMu.Lock()
	defer hangMu.Unlock()
	return hangs[comp] >= 2
}

const watchdog = 10 * time.Second

// Exec runs one case on the real heap package with a per-case watchdog (a consolidation that never
// returns must end the case with "hang", not stall the run).
func Exec(c hx.Case) hx.Result {
	var mu sync.Mutex
	res := hx.Result{BadOp: -1}
	done := make(chan struct{})
	go func() {
		defer close(done)
		exec(c, &res, &mu)
	}()
	// (a case of several hundred thousand operations gets proportionally more time)
	limit := watchdog + time.Duration(len(c.Ops)/10000)*time.Second
	if hx.HeaderGet(c.Header, "huge") != "" {
		limit = 90 * time.Second // millions of entries behind a single line
	}
	select {
	case <-done:
		return res
	case <-time.After(limit):
		hangMu.Lock()
		hangs[hx.HeaderGet(c.Header, "comp")]++
		hangMu.Unlock()
		mu.Lock()
		defer mu.Unlock()
		snap := hx.Result{BadOp: res.BadOp, What: res.What, Sig: res.Sig, Nontrivial: res.Nontrivial}
		snap.Outs = append(append([]string{}, res.Outs...), "hang")
		if snap.BadOp < 0 {
			snap.BadOp = len(snap.Outs) - 1
			snap.What = fmt.Sprintf("%s did not return within %v", c.Ops[min(len(snap.Outs)-1, len(c.Ops)-1)], limit)
		}
		snap.Tags = []string{"hang"}
		return snap
	}
}

func exec(c hx.Case, res *hx.Result, mu *sync.Mutex) {
	if hx.HeaderGet(c.Header, "huge") != "" {
		var r hx.Result
		r.BadOp = -1
		execHuge(c, &r)
		mu.Lock()
		*res = r
		mu.Unlock()
		return
	}
	if hx.HeaderGet(c.Header, "kv") != "" {
		var r hx.Result
		r.BadOp = -1
		execTypedCase(c, &r)
		mu.Lock()
		*res = r
		mu.Unlock()
		return
	}
	comp := hx.HeaderGet(c.Header, "comp")
	ori := hx.HeaderGet(c.Header, "ori")
	size, _ := strconv.Atoi(hx.HeaderGet(c.Header, "size"))
	mergeable := comp != "binary"
	// oris=a,b,c: heap r of the family is built with comparator oris[r mod 3] (absent: every heap with `ori`)
	oris := []string{ori}
	if v := hx.HeaderGet(c.Header, "oris"); v != "" && mergeable {
		oris = strings.Split(v, ",")
	}
	bad := func(i int, format string, a ...any) {
		if res.BadOp < 0 {
			res.BadOp = i
			res.What = fmt.Sprintf(format, a...)
		}
	}
	tags := map[string]bool{"comp=" + comp: true}
	for _, o := range oris {
		tags["ori="+o] = true
	}
	// the constructor is part of the history (initial size 0 included)
	var probe heap.Heap[int, int]
	if kind := hx.Try(func() { probe = newHeap(comp, size, cmpOf(ori)) }); kind != "" {
		mu.Lock()
		res.Outs = append(res.Outs, "panic")
		bad(0, "the constructor of the %s heap (initial size %d) panicked (%s)", comp, size, kind)
		res.Tags = []string{"panic"}
		mu.Unlock()
		return
	}
	if probe == nil {
		return
	}
	var regs []*reg
	get := func(r int) *reg {
		for len(regs) <= r {
			regs = append(regs, newReg(comp, size, oris[len(regs)%len(oris)]))
		}
		return regs[r]
	}
	extremal := func(g *reg, k int) bool {
		fast := g.keys.extremal(k)
		if g.n <= 24 { // small states: the definition itself, pair by pair
			slow := true
			for p := range g.pairs {
				if g.cmp(k, p.k) > 0 {
					slow = false
				}
			}
			if slow != fast {
				bad(len(res.Outs), "harness: the two oracles of extremality disagree on key %d", k)
			}
			return slow
		}
		return fast
	}
	links := func(n int) {
		if n >= 2 {
			tags["links>=2"] = true
			res.Nontrivial = true
		}
		if n >= 4 {
			tags["links>=4"] = true
		}
	}
	degOf := func(rs [][2]int, v int) int {
		for _, r := range rs {
			if r[0] == v {
				return r[1]
			}
		}
		return 0
	}
	maxBag := 0
	mixed := false // a Merge between heaps built with different comparators happened

	for i, op := range c.Ops {
		f := strings.Fields(op)
		out := "bad-op"
		kind := hx.Try(func() {
			if len(f) < 2 {
				return
			}
			if f[0] == "maxdeg" && len(f) == 3 && comp == "fibonacci" {
				lo, _ := strconv.Atoi(f[1])
				hi, _ := strconv.Atoi(f[2])
				var parts []string
				last := ""
				for n := lo; n <= hi; n++ {
					d := heap.VerifMaxDegree(n)
					v := strconv.Itoa(d)
					if d <= 0 {
						v = "panic" // make([]T, d) with d <= 0 … negative panics; 0 makes roots[0] panic
					}
					// what index safety needs: degree <= floor(log2 n) < maxDegree(n)
					if n >= 1 && d < bits.Len(uint(n)) {
						bad(i, "maxDegree(%d) = %d is not above floor(log2 n) = %d", n, d, bits.Len(uint(n))-1)
					}
					if v != last {
						parts = append(parts, strconv.Itoa(n)+":"+v)
						last = v
					}
				}
				out = "ok " + strings.Join(parts, " ")
				tags["maxdeg"] = true
				return
			}
			if f[0] == "mergeother" && len(f) == 2 && mergeable {
				// Merge with an operand that is not a heap of the receiver's type ("the new heap must have the same
				// underlying type"): a non-empty heap of the other mergeable implementation, then the nil interface.
				// The receiver must hold what it held (judged by the following operations and the next dump), the
				// operand must not lose anything either.
				d, err := strconv.Atoi(f[1])
				if err != nil || d < 0 {
					return
				}
				rd := get(d)
				otherComp := "fibonacci"
				if comp == "fibonacci" {
					otherComp = "binomial"
				}
				other := newHeap(otherComp, 0, rd.cmp).(heap.MergeableHeap[int, int])
				other.Insert(-5, -50)
				other.Insert(9, -90)
				other.Insert(2, -20)
				rd.h.(heap.MergeableHeap[int, int]).Merge(other)
				rd.h.(heap.MergeableHeap[int, int]).Merge(nil)
				out = "ok"
				tags["merge-other-type"] = true
				if n := rd.h.Size(); n != rd.n {
					bad(i, "after Merge with a %s heap the receiver holds %d entries, it held %d", otherComp, n, rd.n)
				}
				if rd.h.ContainsValue(-50) || rd.h.ContainsValue(-90) || rd.h.ContainsValue(-20) {
					bad(i, "Merge with a %s heap moved entries into the %s heap", otherComp, comp)
				}
				if n := other.Size(); n != 3 || !other.ContainsValue(-50) || !other.ContainsValue(-90) || !other.ContainsValue(-20) {
					bad(i, "Merge with a %s heap changed the operand (size %d)", otherComp, n)
				}
				return
			}
			if f[0] == "merge" && len(f) == 3 && mergeable {
				d, _ := strconv.Atoi(f[1])
				s, _ := strconv.Atoi(f[2])
				if d < 0 || s < 0 {
					return
				}
				get(max(d, s))
				rd, rs := regs[d], regs[s]
				before := len(heap.VerifRoots(rd.h)) + len(heap.VerifRoots(rs.h))
				rd.h.(heap.MergeableHeap[int, int]).Merge(rs.h.(heap.MergeableHeap[int, int]))
				out = "ok"
				if d == s {
					tags["merge-self"] = true
					return // merging a heap into itself changes nothing
				}
				if comp == "binomial" {
					links(before - len(heap.VerifRoots(rd.h)))
				}
				switch {
				case rd.n > 0 && rs.n > 0:
					tags["merge-both-nonempty"] = true
				case rd.n == 0 && rs.n > 0:
					tags["merge-into-empty-receiver"] = true
					if rd.everHeld {
						tags["merge-into-drained-or-cleared-receiver"] = true
					}
				case rs.n == 0:
					tags["merge-empty-operand"] = true
				}
				if rs.merged {
					tags["merge-same-operand-again"] = true
				}
				if rs.n >= 64 && rd.n >= 64 {
					tags["merge-both>=64"] = true
				}
				if rs.n >= 1024 && rd.n >= 1024 {
					tags["merge-both>=1024"] = true
				}
				if rd.ori != rs.ori {
					mixed = true
					if orderOf(rd.ori) == orderOf(rs.ori) {
						tags["merge-other-comparator-same-order"] = true
					} else {
						tags["merge-other-comparator-other-order"] = true
						if rs.n > 0 {
							rd.foreign = true
						}
					}
				}
				if rs.foreign && rs.n > 0 {
					rd.foreign = true
				}
				rs.merged = true
				for p, m := range rs.pairs {
					for ; m > 0; m-- {
						rd.add(p)
					}
				}
				rd.everHeld = rd.everHeld || rd.n > 0
				rs.clear() // the operand stays in use and must be empty now
				if rd.n > maxBag {
					maxBag = rd.n
				}
				return
			}
			r, err := strconv.Atoi(f[1])
			if err != nil || r < 0 || (!mergeable && r != 0) {
				return
			}
			g := get(r)
			switch {
			case f[0] == "ins" && len(f) == 4:
				k, _ := strconv.Atoi(f[2])
				v, _ := strconv.Atoi(f[3])
				capBefore := heap.VerifCap(g.h)
				var before int
				watch := g.n <= 5000 // the statistics on linking read the root list: only on heaps of moderate size
				if comp == "binomial" && watch {
					before = len(heap.VerifRoots(g.h))
				}
				g.h.Insert(k, v)
				if g.merged {
					tags["operand-used-after-merge"] = true
				}
				g.everHeld = true
				g.add(kv{k, v})
				if g.n > maxBag {
					maxBag = g.n
				}
				if comp == "binomial" && watch {
					links(before + 1 - len(heap.VerifRoots(g.h)))
				}
				if c2 := heap.VerifCap(g.h); c2 != capBefore {
					tags["resize-grow"] = true
					res.Nontrivial = true
				}
				out = "ok"
			case (f[0] == "del" || f[0] == "peek") && len(f) == 2:
				var k, v int
				var ok bool
				var rootsBefore [][2]int
				capBefore := heap.VerifCap(g.h)
				watch := mergeable && g.n <= 5000
				if f[0] == "del" {
					if watch {
						rootsBefore = heap.VerifRoots(g.h)
					}
					k, v, ok = g.h.Delete()
				} else {
					k, v, ok = g.h.Peek()
				}
				out = optKV(k, v, ok)
				if g.n == 0 {
					if ok {
						bad(i, "%s on an empty heap returned (%d,%d)", f[0], k, v)
					}
					tags[f[0]+"-empty"] = true
					break
				}
				if !ok {
					bad(i, "%s reported empty while %d entries are held", f[0], g.n)
					break
				}
				if g.pairs[kv{k, v}] == 0 {
					bad(i, "%s returned (%d,%d), which is not a held pair", f[0], k, v)
					break
				}
				if g.foreign {
					tags["foreign-order-no-extremality-claim"] = true
				} else if !extremal(g, k) {
					bad(i, "%s returned key %d, which is not extremal among the held keys", f[0], k)
				}
				if g.keys.count(k) >= 2 {
					tags["extremal-tie"] = true
				}
				if f[0] == "del" {
					g.remove(kv{k, v})
					if watch {
						links(len(rootsBefore) - 1 + degOf(rootsBefore, v) - len(heap.VerifRoots(g.h)))
					}
					if c2 := heap.VerifCap(g.h); c2 != capBefore {
						tags["resize-shrink"] = true
						res.Nontrivial = true
					}
				}
			case f[0] == "clear" && len(f) == 2:
				g.h.DeleteAll()
				g.clear()
				out = "ok"
			case f[0] == "size" && len(f) == 2:
				n := g.h.Size()
				out = "ok " + strconv.Itoa(n)
				if n != g.n {
					bad(i, "size = %d, %d entries are held", n, g.n)
				}
			case f[0] == "empty" && len(f) == 2:
				e := g.h.IsEmpty()
				out = "ok " + strconv.FormatBool(e)
				if e != (g.n == 0) {
					bad(i, "isEmpty = %v with %d entries held", e, g.n)
				}
			case f[0] == "hask" && len(f) == 3:
				k, _ := strconv.Atoi(f[2])
				got := g.h.ContainsKey(k)
				out = "ok " + strconv.FormatBool(got)
				if want := g.keys.has(k); got != want {
					bad(i, "containsKey %d = %v, the held multiset says %v", k, got, want)
				}
			case f[0] == "hasv" && len(f) == 3:
				v, _ := strconv.Atoi(f[2])
				got := g.h.ContainsValue(v)
				out = "ok " + strconv.FormatBool(got)
				if want := g.vals[v] > 0; got != want {
					bad(i, "containsValue %d = %v, the held multiset says %v", v, got, g.vals[v] > 0)
				}
			case f[0] == "dump" && len(f) == 2:
				out = "ok " + heap.VerifDump(g.h)
			}
		})
		mu.Lock()
		if kind != "" {
			res.Outs = append(res.Outs, "panic")
			bad(i, "%s panicked (%s)", op, kind)
			tags["panic"] = true
			mu.Unlock()
			break
		}
		res.Outs = append(res.Outs, out)
		mu.Unlock()
	}
	if maxBag >= 16 {
		tags["held>=16"] = true
	}
	for _, t := range []int{64, 256, 1024, 65536} {
		if maxBag >= t {
			tags["held>="+strconv.Itoa(t)] = true
		}
	}
	if mixed {
		tags["mixed-comparators"] = true
	}
	mu.Lock()
	for t := range tags {
		res.Tags = append(res.Tags, t)
	}
	mu.Unlock()
}

// ---------------------------------------------------------------- generators

type gen struct {
	r        *hx.Rand
	comp     string
	universe int
	nregs    int
	next     int   // next fresh value
	held     []int // approximate number of entries per register (for steering only)
	ops      []string
}

func (g *gen) reg() int {
	if g.nregs <= 1 {
		return 0
	}
	// register 0 is the main heap; the others are merge operands
	if g.r.Chance(3, 5) {
		return 0
	}
	return g.r.Range(1, g.nregs-1)
}

func (g *gen) add(op string) { g.ops = append(g.ops, op) }

func (g *gen) ins(r int) {
	g.next++
	k := g.r.Intn(g.universe)
	if g.r.Chance(1, 30) {
		k = -1 // below the universe: a new extremum for min, the last one out for max
	}
	g.add(fmt.Sprintf("ins %d %d %d", r, k, g.next))
	g.held[r]++
}

func (g *gen) del(r int) {
	g.add(fmt.Sprintf("del %d", r))
	if g.held[r] > 0 {
		g.held[r]--
	}
}

func (g *gen) query(r int) {
	switch x := g.r.Intn(100); {
	case x < 25:
		g.add(fmt.Sprintf("peek %d", r))
	case x < 45:
		g.add(fmt.Sprintf("hask %d %d", r, g.r.Range(-1, g.universe)))
	case x < 70:
		// a value that was inserted at some point (maybe deleted since, maybe in another register) or never
		g.add(fmt.Sprintf("hasv %d %d", r, g.r.Range(-1, max(g.next, 0)+1)))
	case x < 85:
		g.add(fmt.Sprintf("size %d", r))
	default:
		g.add(fmt.Sprintf("empty %d", r))
	}
}

func (g *gen) merge() {
	if g.comp != "binary" && g.r.Chance(1, 12) { // an operand of another type: ignored
		d := g.r.Intn(g.nregs)
		g.add(fmt.Sprintf("mergeother %d", d))
		if g.r.Chance(1, 2) {
			g.add(fmt.Sprintf("size %d", d))
			g.add(fmt.Sprintf("dump %d", d))
		}
		return
	}
	if g.nregs < 2 {
		return
	}
	d := g.r.Intn(g.nregs)
	s := g.r.Intn(g.nregs - 1)
	if s >= d {
		s++
	}
	if g.r.Chance(1, 2) { // often into the main heap
		d, s = 0, g.r.Range(1, g.nregs-1)
	}
	if g.r.Chance(1, 25) { // a heap merged into itself
		s = d
	}
	g.add(fmt.Sprintf("merge %d %d", d, s))
	if d != s {
		g.held[d] += g.held[s]
		g.held[s] = 0
	}
	if g.r.Chance(1, 3) { // look at the operand right away
		g.add(fmt.Sprintf("size %d", s))
		g.add(fmt.Sprintf("dump %d", s))
	}
}

// mixed: phases of filling and draining with queries, merges and dumps in between
func genMixed(r *hx.Rand, comp string, n int, dumpEvery int) []string {
	g := &gen{r: r, comp: comp, universe: 6, nregs: 1}
	switch r.Intn(8) {
	case 0:
		g.universe = 41
	case 1:
		g.universe = 2 // long runs of ties for the extremum
	}
	if comp != "binary" {
		g.nregs = r.Range(1, 3)
	}
	if r.Chance(1, 4) {
		g.next = -2 // the first values are -1 and 0 (a sentinel-like value and the zero value), then 1, 2, ...
	}
	g.held = make([]int, g.nregs)
	fill := true
	phase := r.Range(2, 14)
	for len(g.ops) < n {
		if phase == 0 {
			fill = !fill
			phase = r.Range(2, 14)
		}
		phase--
		mut := false
		switch x := r.Intn(100); {
		case x < 62:
			rg := g.reg()
			if fill == (r.Intn(10) < 8) {
				g.ins(rg)
			} else {
				g.del(rg)
			}
			mut = true
		case x < 70 && (g.nregs > 1 || (comp != "binary" && x < 63)):
			g.merge()
			mut = true
		case x < 72:
			g.add(fmt.Sprintf("clear %d", g.reg()))
			mut = true
		default:
			g.query(g.reg())
		}
		if mut && r.Intn(dumpEvery) == 0 {
			g.add(fmt.Sprintf("dump %d", r.Intn(g.nregs)))
		}
	}
	for k := 0; k < g.nregs; k++ {
		g.add(fmt.Sprintf("size %d", k))
		g.add(fmt.Sprintf("dump %d", k))
	}
	return g.ops
}

// churn: grow to a peak well beyond several capacity doublings, drain (several halvings), repeat; dumps are
// rare (they are long) but every Delete/Peek outcome is compared
func genChurn(r *hx.Rand, comp string, rounds int) []string {
	g := &gen{r: r, comp: comp, universe: 6, nregs: 1}
	if comp != "binary" && r.Bool() {
		g.nregs = 2
	}
	g.held = make([]int, g.nregs)
	for round := 0; round < rounds; round++ {
		peak := hx.Pick(r, []int{9, 17, 33, 40, 70, 130})
		for g.held[0] < peak {
			if r.Intn(10) < 8 {
				g.ins(0)
			} else {
				g.del(0)
			}
			if g.nregs > 1 && r.Intn(12) == 0 {
				for k := r.Range(1, 9); k > 0; k-- {
					g.ins(1)
				}
				if r.Bool() {
					g.del(1)
				}
				g.add("merge 0 1")
				g.held[0] += g.held[1]
				g.held[1] = 0
			}
			if r.Intn(40) == 0 {
				g.query(0)
			}
		}
		g.add("dump 0")
		low := r.Intn(4)
		for g.held[0] > low {
			if r.Intn(10) < 9 {
				g.del(0)
			} else {
				g.ins(0)
			}
			if r.Intn(40) == 0 {
				g.query(0)
			}
			if r.Intn(60) == 0 {
				g.add("dump 0")
			}
		}
		g.add("size 0")
		g.add("dump 0")
	}
	return g.ops
}

// mergeEdges: the boundary constructions around Merge.  The receiver is fresh, filled and drained by Delete,
// filled and DeleteAll-ed, or non-empty; the operand is empty, fresh-filled, or itself a former operand; after the
// Merge both heaps are used again (inserts into the operand, deletes from both, the same Merge repeated, the
// Merge the other way round), with dumps of both.
func genMergeEdges(r *hx.Rand, comp string) []string {
	g := &gen{r: r, comp: comp, universe: hx.Pick(r, []int{2, 6, 6}), nregs: 2}
	if r.Chance(1, 3) {
		g.nregs = 3
	}
	g.held = make([]int, g.nregs)
	fill := func(rg, n int) {
		for k := 0; k < n; k++ {
			g.ins(rg)
		}
	}
	both := func() {
		for k := 0; k < g.nregs; k++ {
			g.add(fmt.Sprintf("size %d", k))
			g.add(fmt.Sprintf("dump %d", k))
		}
	}
	rounds := r.Range(1, 4)
	for round := 0; round < rounds; round++ {
		d := r.Intn(g.nregs)
		s := (d + 1 + r.Intn(g.nregs-1)) % g.nregs
		switch r.Intn(4) { // the receiver
		case 0: // as it is (fresh in the first round)
		case 1: // drained by Delete
			fill(d, r.Range(1, 5))
			for g.held[d] > 0 {
				g.del(d)
			}
			if r.Bool() {
				g.del(d)
			}
		case 2: // DeleteAll-ed
			fill(d, r.Range(1, 5))
			g.add(fmt.Sprintf("clear %d", d))
			g.held[d] = 0
		case 3:
			fill(d, r.Range(1, 6))
			if r.Bool() {
				g.del(d)
			}
		}
		switch r.Intn(4) { // the operand
		case 0: // as it is (maybe empty, maybe a former operand)
		case 1:
			fill(s, r.Range(1, 6))
		case 2:
			fill(s, r.Range(2, 7))
			g.del(s)
		case 3:
			fill(s, r.Range(1, 3))
			g.add(fmt.Sprintf("clear %d", s))
			g.held[s] = 0
		}
		g.add(fmt.Sprintf("merge %d %d", d, s))
		g.held[d] += g.held[s]
		g.held[s] = 0
		both()
		// keep using both
		for k := r.Range(1, 6); k > 0; k-- {
			switch r.Intn(7) {
			case 0, 1:
				g.ins(s)
			case 2:
				g.del(s)
			case 3:
				g.del(d)
			case 4:
				g.ins(d)
			case 5:
				g.add(fmt.Sprintf("merge %d %d", d, s)) // the same operand again
				g.held[d] += g.held[s]
				g.held[s] = 0
			case 6:
				g.add(fmt.Sprintf("merge %d %d", s, d)) // the other way round
				g.held[s] += g.held[d]
				g.held[d] = 0
			}
			if r.Intn(12) == 0 {
				g.add(fmt.Sprintf("mergeother %d", hx.Pick(r, []int{d, s}))) // an operand of another type: ignored
			}
			if r.Intn(3) == 0 {
				g.query(r.Intn(g.nregs))
			}
		}
		both()
	}
	for k := 0; k < g.nregs; k++ {
		for n := g.held[k] + 1; n > 0; n-- {
			g.add(fmt.Sprintf("del %d", k))
		}
	}
	both()
	return g.ops
}

// ties: many entries over two keys, then a complete drain: every Delete has several candidates tying for the
// extremum (the Model must mirror which one the code picks, the oracle accepts any)
func genTies(r *hx.Rand, comp string) []string {
	g := &gen{r: r, comp: comp, universe: 2, nregs: 1}
	g.held = make([]int, 1)
	n := r.Range(6, 40)
	for k := 0; k < n; k++ {
		g.ins(0)
		if r.Intn(6) == 0 {
			g.del(0)
		}
	}
	g.add("dump 0")
	for g.held[0] > 0 {
		g.del(0)
		if r.Intn(5) == 0 {
			g.add("peek 0")
		}
		if r.Intn(8) == 0 {
			g.add("dump 0")
		}
		if r.Intn(10) == 0 {
			g.ins(0)
		}
	}
	g.add("del 0")
	g.add("size 0")
	g.add("dump 0")
	return g.ops
}

// exhaustive enumerates every op sequence of the given length over the alphabet.
func exhaustive(alpha []string, n int, f func([]string)) {
	idx := make([]int, n)
	for {
		ops := make([]string, n)
		for i, k := range idx {
			ops[i] = alpha[k]
		}
		f(ops)
		i := n - 1
		for i >= 0 {
			idx[i]++
			if idx[i] < len(alpha) {
				break
			}
			idx[i] = 0
			i--
		}
		if i < 0 {
			return
		}
	}
}

// number the values of "ins r k" templates so that every inserted value is distinct
func withValues(ops []string) []string {
	out := make([]string, 0, len(ops)+3)
	v := 0
	for _, op := range ops {
		if strings.HasPrefix(op, "ins ") {
			v++
			op = op + " " + strconv.Itoa(v)
		}
		out = append(out, op)
	}
	return out
}

var comps = []string{"binary", "binomial", "fibonacci"}
// the first two are the normalised min / max orientations
var oris = []string{"min", "max", "half", "minraw", "min7", "maxraw"}

func header(comp, ori string, size int) string {
	if comp == "binary" {
		return fmt.Sprintf("comp=%s ori=%s size=%d", comp, ori, size)
	}
	return fmt.Sprintf("comp=%s ori=%s", comp, ori)
}

func Main(run *hx.Run) {
	run.Stats.Rule = Rule
	for _, f := range hx.CorpusFiles("C04") {
		cs, _ := hx.ReadReplay(f)
		for _, c := range cs {
			if comp := hx.HeaderGet(c.Header, "comp"); !gaveUp(comp) {
				run.Do(comp, c, Exec)
			}
		}
	}
	for _, comp := range comps {
		r := run.R.Fork(comp)
		n := run.Scale(1500)
		for k := 0; k < n && !gaveUp(comp); k++ {
			ori := hx.Pick(r, oris)
			length := r.Range(4, 90)
			size := r.Intn(5)
			if r.Chance(1, 2) {
				size = r.Intn(2) // NewBinary(0, …) and NewBinary(1, …)
			}
			c := hx.Case{Header: header(comp, ori, size), Ops: genMixed(r, comp, length, 3)}
			run.Do(comp, c, Exec)
		}
		rt := run.R.Fork(comp + "-ties")
		n = run.Scale(150)
		for k := 0; k < n && !gaveUp(comp); k++ {
			run.Do(comp, hx.Case{Header: header(comp, hx.Pick(rt, oris), rt.Intn(3)), Ops: genTies(rt, comp)}, Exec)
		}
		if comp != "binary" {
			rm := run.R.Fork(comp + "-merge-edges")
			n = run.Scale(500)
			for k := 0; k < n && !gaveUp(comp); k++ {
				run.Do(comp, hx.Case{Header: header(comp, hx.Pick(rm, oris), 0), Ops: genMergeEdges(rm, comp)}, Exec)
			}
		}
		rc := run.R.Fork(comp + "-churn")
		n = run.Scale(40)
		for k := 0; k < n && !gaveUp(comp); k++ {
			c := hx.Case{Header: header(comp, hx.Pick(rc, oris), rc.Intn(5)), Ops: genChurn(rc, comp, rc.Range(1, 3))}
			run.Do(comp, c, Exec)
		}
	}
	hardFamilies(run)
	secondRound(run)
	hugeFamilies(run)

	// maxDegree: the integer Model of the float computation, on every n of a range
	hi := 100000
	if run.Thorough() {
		hi = 1000000
	}
	run.Do("fibonacci", hx.Case{Header: header("fibonacci", "min", 0), Ops: []string{fmt.Sprintf("maxdeg 1 %d", hi)}}, Exec)

	if run.Thorough() {
		// binary: every history of length <= 7 over {ins 0, ins 1, ins 2, del, clear} for initial sizes 0..2
		alphaB := []string{"ins 0 0", "ins 0 1", "ins 0 2", "del 0", "clear 0"}
		for _, ori := range []string{"min", "maxraw"} {
			for size := 0; size <= 2; size++ {
				for n := 1; n <= 7; n++ {
					exhaustive(alphaB, n, func(ops []string) {
						if gaveUp("binary") {
							return
						}
						ops = append(withValues(ops), "peek 0", "size 0", "dump 0")
						run.Do("binary", hx.Case{Header: header("binary", ori, size), Ops: ops}, Exec)
					})
				}
			}
		}
		// mergeable: every history of length <= 6 over two registers with merges both ways
		alphaM := []string{"ins 0 0", "ins 0 1", "ins 1 0", "ins 1 1", "del 0", "del 1", "merge 0 1", "merge 1 0", "mergeother 0"}
		for _, comp := range comps[1:] {
			for _, ori := range []string{"min7", "max"} {
				for n := 1; n <= 6; n++ {
					exhaustive(alphaM, n, func(ops []string) {
						if gaveUp(comp) {
							return
						}
						ops = append(withValues(ops), "peek 0", "size 0", "dump 0", "dump 1")
						run.Do(comp, hx.Case{Header: header(comp, ori, 0), Ops: ops}, Exec)
					})
				}
			}
			// one heap, three keys, length <= 8: deeper consolidations
			alphaS := []string{"ins 0 0", "ins 0 1", "ins 0 2", "del 0"}
			for n := 7; n <= 8; n++ {
				exhaustive(alphaS, n, func(ops []string) {
					if gaveUp(comp) {
						return
					}
					ops = append(withValues(ops), "del 0", "dump 0")
					run.Do(comp, hx.Case{Header: header(comp, "min", 0), Ops: ops}, Exec)
				})
			}
		}
		run.Stats.Extra["exhaustive_part"] = "binary: all histories of length<=7 over {ins k0,k1,k2; del; clear}, sizes 0..2, min and maxraw; " +
			"binomial and fibonacci: all histories of length<=6 over two heaps {ins r k (2x2), del r, merge both ways, merge with a heap of another type, both heaps used on}, min7 and max, " +
			"and all histories of length 7..8 over {ins k0,k1,k2; del} on one heap"
	}
}
