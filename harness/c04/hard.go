package c04

// Families that aim at what dense small random histories do not reach (HARDENING.md):
//   - size thresholds: 0, 1, 2, 63..65, 255..257, 1023..1025, 4095..4097, 65535..65537, 70000 held entries (and, for the
//     binary heap, initial sizes) with a battery of every query on both sides of each threshold, for keys inserted in
//     ascending / descending / random order, all equal, or of extreme magnitude;
//   - Merge of two large heaps, chains of Merges (sizes 1, 1, 2, 4, ... : one long carry), a heap merged into
//     itself at every size, the same operand merged again, both heaps used afterwards;
//   - heaps of one family built with DIFFERENT comparators and merged.

import (
	"fmt"
	"math"
	"sort"

	"verifharness/hx"
)

// ---------------------------------------------------------------- oracle bookkeeping

// keyBag is the multiset of held keys kept in comparator order, extremal key LAST, so that extremality and
// ContainsKey cost a binary search and a drain costs O(1) per Delete.  New keys wait in `pending` until the next
// question is asked.  cmp must be a total preorder on the keys in use.
type keyBag struct {
	cmp     func(a, b int) int
	sorted  []int // cmp-descending
	pending []int
}

func (b *keyBag) add(k int) { b.pending = append(b.pending, k) }

func (b *keyBag) norm() {
	if len(b.pending) == 0 {
		return
	}
	p := b.pending
	sort.SliceStable(p, func(i, j int) bool { return b.cmp(p[i], p[j]) > 0 })
	out := make([]int, 0, len(b.sorted)+len(p))
	i, j := 0, 0
	for i < len(b.sorted) && j < len(p) {
		if b.cmp(b.sorted[i], p[j]) >= 0 {
			out = append(out, b.sorted[i])
			i++
		} else {
			out = append(out, p[j])
			j++
		}
	}
	out = append(append(out, b.sorted[i:]...), p[j:]...)
	b.sorted, b.pending = out, nil
}

// [lo, hi): the positions of the keys that compare equal to k
func (b *keyBag) span(k int) (lo, hi int) {
	b.norm()
	lo = sort.Search(len(b.sorted), func(i int) bool { return b.cmp(b.sorted[i], k) <= 0 })
	hi = sort.Search(len(b.sorted), func(i int) bool { return b.cmp(b.sorted[i], k) < 0 })
	return lo, hi
}

func (b *keyBag) count(k int) int { lo, hi := b.span(k); return hi - lo }
func (b *keyBag) has(k int) bool  { return b.count(k) > 0 }

func (b *keyBag) del(k int) {
	lo, hi := b.span(k)
	if hi <= lo {
		panic(fmt.Sprintf("harness: key %d is not in the oracle's key multiset", k))
	}
	b.sorted = append(b.sorted[:hi-1], b.sorted[hi:]...)
}

// extremal: no held key is strictly better than k
func (b *keyBag) extremal(k int) bool {
	b.norm()
	return len(b.sorted) == 0 || b.cmp(k, b.sorted[len(b.sorted)-1]) <= 0
}

// ---------------------------------------------------------------- threshold sweeps

// Thresholds are the sizes around which programmers put special cases (HARDENING.md, axis 1).
var Thresholds = []int{1, 2, 63, 64, 65, 255, 256, 257, 1023, 1024, 1025, 4095, 4096, 4097, 65535, 65536, 65537}

func isThreshold(n int) bool {
	i := sort.SearchInts(Thresholds, n)
	return i < len(Thresholds) && Thresholds[i] == n
}

var extremeKeys = []int{math.MinInt, math.MinInt + 1, -(1 << 32), -1, 0, 1, 1<<31 - 1, 1 << 31, 1<<32 + 1, 1<<53 + 1, math.MaxInt - 1, math.MaxInt}

type sweep struct {
	r       *hx.Rand
	keys    string // asc | desc | equal | random | extreme
	peak    int
	dumpMax int // dumps while at most this many entries are held, and at the middle of each threshold triple up to 5000
	ops     []string
	next    int // next fresh value
	lastKey int
}

func (s *sweep) add(format string, a ...any) { s.ops = append(s.ops, fmt.Sprintf(format, a...)) }

func (s *sweep) key(j int) int {
	switch s.keys {
	case "asc":
		return j
	case "desc":
		return s.peak - j
	case "equal":
		return 7
	case "extreme":
		return hx.Pick(s.r, extremeKeys)
	}
	return s.r.Intn(4*s.peak + 1)
}

func (s *sweep) anyKey() int {
	if s.keys == "extreme" {
		return hx.Pick(s.r, extremeKeys)
	}
	return s.r.Range(-3, 4*s.peak+3)
}

func (s *sweep) ins(reg, k int) {
	s.next++
	s.lastKey = k
	s.add("ins %d %d %d", reg, k, s.next)
}

// battery: every query, on register reg holding `held` entries
func (s *sweep) battery(reg, held int) {
	s.add("size %d", reg)
	s.add("empty %d", reg)
	s.add("peek %d", reg)
	s.add("hask %d %d", reg, s.lastKey)
	s.add("hasv %d %d", reg, -7)
	if held <= 5000 { // (a membership query walks the whole heap)
		s.add("hask %d %d", reg, s.anyKey())
		s.add("hask %d %d", reg, -12345)
		s.add("hasv %d %d", reg, s.next)
		s.add("hasv %d %d", reg, s.r.Intn(s.next+2))
	}
	if held <= s.dumpMax || held <= 5000 && isThreshold(held) && isThreshold(held-1) && isThreshold(held+1) {
		s.add("dump %d", reg)
	}
}

// fill register reg from `from` to `to` entries, asking everything at each threshold and stepping back below it
func (s *sweep) fill(reg, from, to int) {
	for held := from; held < to; {
		s.ins(reg, s.key(held))
		held++
		if isThreshold(held) || held > 3 && isThreshold(held-1) {
			s.battery(reg, held)
		}
		if held > 3 && isThreshold(held-1) {
			for d := 0; d < 3; d++ {
				s.add("del %d", reg)
			}
			s.battery(reg, held-3)
			for d := 0; d < 3; d++ {
				s.ins(reg, s.anyKey())
			}
			s.add("size %d", reg)
			s.add("peek %d", reg)
		}
	}
}

// drain register reg from `held` entries to none through the same thresholds
func (s *sweep) drain(reg, held int) {
	for held > 0 {
		s.add("del %d", reg)
		held--
		if isThreshold(held) || isThreshold(held+1) {
			s.battery(reg, held)
		}
	}
	s.add("del %d", reg)
	s.add("peek %d", reg)
	s.battery(reg, 0)
	s.add("dump %d", reg)
}

// genSweep: one heap through every threshold up to peak and down again; in between a self-merge (mergeable heaps)
// and a burst of inserts and deletes at the peak.
func genSweep(r *hx.Rand, comp, keys string, peak, dumpMax int) []string {
	s := &sweep{r: r, keys: keys, peak: peak, dumpMax: dumpMax}
	s.battery(0, 0)
	s.fill(0, 0, peak)
	s.add("dump 0")
	if comp != "binary" {
		s.add("merge 0 0")
		s.add("mergeother 0")
		s.battery(0, peak)
	}
	for k := 0; k < 40; k++ {
		s.ins(0, s.anyKey())
		s.add("del 0")
	}
	s.battery(0, peak)
	s.drain(0, peak)
	return s.ops
}

// genInitialSize: NewBinary(size) for a size at a threshold: fill beyond the initial capacity (one doubling), ask,
// drain (halvings), refill a little.
func genInitialSize(r *hx.Rand, size int, keys string) []string {
	peak := size + 2 + r.Intn(3)
	s := &sweep{r: r, keys: keys, peak: peak, dumpMax: 80}
	s.battery(0, 0)
	s.add("dump 0")
	for held := 0; held < peak; {
		s.ins(0, s.key(held))
		held++
		if held >= size-1 && held <= size+2 {
			s.battery(0, held)
			s.add("dump 0")
		}
	}
	s.add("dump 0")
	for held := peak; held > 0; {
		s.add("del 0")
		held--
		if held == size || held == size/2 || held == size/4 || held == size/4-1 || held <= 1 {
			s.battery(0, held)
			s.add("dump 0")
		}
	}
	s.add("del 0")
	s.add("clear 0")
	s.add("dump 0")
	s.ins(0, 1)
	s.ins(0, 0)
	s.add("del 0")
	s.add("dump 0")
	return s.ops
}

// ---------------------------------------------------------------- Merge at scale

// genBigMerge: two heaps of a and b entries (sizes around the thresholds) merged; both used afterwards; the same
// operand merged again (empty), refilled and merged once more, the receiver merged into itself and into the operand.
func genBigMerge(r *hx.Rand, a, b int, keys string, dumpMax int) []string {
	s := &sweep{r: r, keys: keys, peak: a + b, dumpMax: dumpMax}
	for j := 0; j < a; j++ {
		s.ins(0, s.key(j))
		if j%7 == 3 && r.Chance(1, 8) {
			s.add("del 0")
			s.ins(0, s.anyKey())
		}
	}
	for j := 0; j < b; j++ {
		s.ins(1, s.key(a+j))
	}
	if r.Bool() && b > 1 {
		s.add("del 1") // consolidate the operand first
		s.ins(1, s.anyKey())
	}
	s.battery(0, a)
	s.battery(1, b)
	s.add("merge 0 1")
	s.battery(0, a+b)
	s.battery(1, 0)
	s.add("dump 1")
	s.add("merge 0 1") // the same (now empty) operand again
	s.add("merge 0 0")
	s.add("size 0")
	s.add("del 0")
	s.add("peek 0")
	// the operand is a heap like any other
	for j := 0; j < 5; j++ {
		s.ins(1, s.anyKey())
	}
	s.add("del 1")
	s.battery(1, 4)
	s.add("merge 0 1")
	s.battery(0, a+b+3)
	s.add("merge 1 0") // everything over to the other heap
	s.battery(1, a+b+3)
	s.battery(0, 0)
	s.drain(1, a+b+3)
	s.add("del 0")
	s.add("dump 0")
	return s.ops
}

// genMergeChain: heaps 1..m of sizes 1, 1, 2, 4, 8, ... merged into heap 0 one after the other (for the binomial
// heap every Merge is one long carry), or pairwise like a tournament; then a self-merge and a drain.
func genMergeChain(r *hx.Rand, m int, keys string, dumpMax int) []string {
	total := 0
	sizes := make([]int, m+1)
	for k := 1; k <= m; k++ {
		sizes[k] = 1
		if k > 1 {
			sizes[k] = 1 << uint(k-2)
		}
		if r.Chance(1, 4) {
			sizes[k] += r.Range(-1, 1)
			if sizes[k] < 0 {
				sizes[k] = 0
			}
		}
		total += sizes[k]
	}
	s := &sweep{r: r, keys: keys, peak: total, dumpMax: dumpMax}
	j := 0
	for k := 1; k <= m; k++ {
		for i := 0; i < sizes[k]; i++ {
			s.ins(k, s.key(j))
			j++
		}
	}
	if r.Bool() {
		held := 0
		for k := 1; k <= m; k++ {
			s.add("merge 0 %d", k)
			held += sizes[k]
			if isThreshold(held) || isThreshold(held-1) || isThreshold(held+1) || k == m {
				s.battery(0, held)
			}
			if r.Chance(1, 3) {
				s.add("size %d", k)
				s.add("dump %d", k)
			}
		}
	} else {
		// tournament: 2 into 1, 4 into 3, ...; then 3 into 1, 7 into 5, ...; the last one into 0
		for step := 1; step < m; step *= 2 {
			for k := 1; k+step <= m; k += 2 * step {
				s.add("merge %d %d", k, k+step)
			}
		}
		s.add("merge 0 1")
		s.battery(0, total)
	}
	s.add("merge 0 0")
	s.add("dump 0")
	for k := 1; k <= m; k++ {
		if r.Chance(1, 2) {
			s.add("merge 0 %d", k) // every operand is empty now
		}
	}
	s.add("size 0")
	s.drain(0, total)
	return s.ops
}

// ---------------------------------------------------------------- heaps of one family built with different comparators

// sameOrder lists comparators that induce the same order on int keys (they differ in the magnitude of what they
// return): heaps built with them can be merged and the result is a priority queue of that order.
var sameOrder = [][]string{{"min", "minraw", "min7"}, {"max", "maxraw"}}

func genMixedComparators(r *hx.Rand, comp string, n int, dumpEvery int) (oris string, ops []string) {
	var list []string
	if r.Chance(3, 4) {
		class := hx.Pick(r, sameOrder)
		for k := 0; k < 3; k++ {
			list = append(list, hx.Pick(r, class))
		}
		if list[0] == list[1] && list[1] == list[2] {
			list[1] = class[(indexOf(class, list[0])+1)%len(class)]
		}
	} else {
		// different orders: the Model says what the code does; the oracle claims the union of the entries only
		all := []string{"min", "max", "half", "minraw", "maxraw", "min7"}
		for k := 0; k < 3; k++ {
			list = append(list, hx.Pick(r, all))
		}
	}
	oris = list[0] + "," + list[1] + "," + list[2]
	g := &gen{r: r, comp: comp, universe: hx.Pick(r, []int{2, 6, 6, 41}), nregs: 3}
	g.held = make([]int, g.nregs)
	for len(g.ops) < n {
		mut := true
		switch x := r.Intn(100); {
		case x < 45:
			g.ins(r.Intn(g.nregs))
		case x < 62:
			g.del(r.Intn(g.nregs))
		case x < 80:
			g.merge()
		case x < 82:
			g.add(fmt.Sprintf("clear %d", r.Intn(g.nregs)))
		default:
			g.query(r.Intn(g.nregs))
			mut = false
		}
		if mut && r.Intn(dumpEvery) == 0 {
			g.add(fmt.Sprintf("dump %d", r.Intn(g.nregs)))
		}
	}
	for k := 0; k < g.nregs; k++ {
		g.add(fmt.Sprintf("size %d", k))
		g.add(fmt.Sprintf("dump %d", k))
		for n := g.held[k] + 1; n > 0; n-- {
			g.add(fmt.Sprintf("del %d", k))
		}
	}
	return oris, g.ops
}

func indexOf(xs []string, x string) int {
	for i, y := range xs {
		if y == x {
			return i
		}
	}
	return 0
}

// ---------------------------------------------------------------- driver of the families

// the comparators that really compare (a-b overflows on keys of extreme magnitude)
var comparingOris = []string{"min", "max"}

func hardFamilies(run *hx.Run) {
	for ci, comp := range comps {
		if gaveUp(comp) {
			continue
		}
		r := run.R.Fork(comp + "-hard")
		do := func(ori string, size int, ops []string, noModel bool) {
			if !gaveUp(comp) {
				run.Do(comp, hx.Case{Header: header(comp, ori, size), Ops: ops, NoModel: noModel}, Exec)
			}
		}

		// one heap through 1, 2, 63-65, 255-257, 1023-1025 entries and back, per key order
		for _, keys := range []string{"asc", "desc", "equal", "random", "extreme"} {
			ori := hx.Pick(r, oris)
			if keys == "extreme" {
				ori = hx.Pick(r, comparingOris)
			}
			do(ori, hx.Pick(r, []int{0, 0, 1, 2, 3}), genSweep(r, comp, keys, 1025+r.Intn(3), 70), false)
		}
		if run.Thorough() {
			for _, keys := range []string{"asc", "desc", "equal", "random"} {
				do(hx.Pick(r, oris), r.Intn(3), genSweep(r, comp, keys, 4097+r.Intn(3), 70), false)
			}
		}

		// 65535 .. 70000 entries.  At this size the executable Models of the binary and the Fibonacci heap are quadratic
		// (15 s and 3 min; the binomial Model needs 2 s): in the quick tier these cases are judged by the oracle alone
		// (NoModel); the thorough tier compares the binomial and once the binary Model, and all three at 16385 entries.
		pick := int((run.Seed + uint64(ci)) % 4)
		big := []int{[]int{65536, 65537, 65535, 70000}[pick]}
		orders := []string{[]string{"random", "asc", "desc", "equal"}[pick]}
		if run.Thorough() {
			big = []int{65535, 65536, 65537, 70000}
			orders = []string{"asc", "desc", "equal", "random"}
		}
		for bi, peak := range big {
			// thorough: the binomial heap is compared with its Model at every one of these sizes, the binary heap once
			noModel := comp == "fibonacci" || !run.Thorough() || comp == "binary" && bi != 1
			do(hx.Pick(r, oris), r.Intn(2), genSweep(r, comp, orders[bi%len(orders)], peak, 2), noModel)
		}
		if run.Thorough() {
			// the largest size at which all three Models still answer in seconds
			do(hx.Pick(r, oris), 0, genSweep(r, comp, "random", 16385, 2), false)
		}

		if comp == "binary" {
			// initial sizes at the thresholds
			sizes := []int{0, 1, 2, 63, 64, 65, 255, 256, 257, 1023, 1024, 1025}
			if run.Thorough() {
				sizes = append(sizes, 4095, 4096, 4097, 65535, 65536, 65537)
			}
			for _, size := range sizes {
				do(hx.Pick(r, oris), size, genInitialSize(r, size, hx.Pick(r, []string{"asc", "desc", "equal", "random"})), false)
			}
			continue
		}

		// Merge of two large heaps
		pairs := [][2]int{{63, 1}, {64, 64}, {65, 63}, {255, 257}, {256, 256}, {1, 1023}, {1024, 1024}, {1025, 1}, {0, 1024}, {1024, 0}}
		if run.Thorough() {
			pairs = append(pairs, [2]int{4096, 4096}, [2]int{4095, 4097}, [2]int{1023, 1025}, [2]int{257, 255}, [2]int{63, 65})
		}
		for _, p := range pairs {
			do(hx.Pick(r, oris), 0, genBigMerge(r, p[0], p[1], hx.Pick(r, []string{"asc", "desc", "equal", "random"}), 70), false)
		}
		{
			// two heaps of 2^16 entries: oracle only in the quick tier (the binomial Model needs 10 s here; thorough
			// compares it); 2^13 + 2^13 resp. 2^11 + 2^11 entries with the Model in every tier
			a := []int{65536, 32768, 65535, 40000}[pick]
			do(hx.Pick(r, oris), 0, genBigMerge(r, a, 65536, "random", 2), comp == "fibonacci" || !run.Thorough())
			m := 4096
			if comp == "fibonacci" {
				m = 2048
			}
			do(hx.Pick(r, oris), 0, genBigMerge(r, m-pick, m+pick, "random", 2), false)
		}
		// chains of Merges
		for k := 0; k < run.Scale(4); k++ {
			do(hx.Pick(r, oris), 0, genMergeChain(r, r.Range(4, 12), hx.Pick(r, []string{"asc", "desc", "equal", "random"}), 70), false)
		}
		if run.Thorough() {
			do(hx.Pick(r, oris), 0, genMergeChain(r, 18, "random", 2), comp == "fibonacci")
		}
		// heaps built with different comparators, merged
		for k := 0; k < run.Scale(150); k++ {
			o, ops := genMixedComparators(r, comp, r.Range(6, 70), 3)
			if !gaveUp(comp) {
				run.Do(comp, hx.Case{Header: header(comp, "min", 0) + " oris=" + o, Ops: ops}, Exec)
			}
		}
	}
}
