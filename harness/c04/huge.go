package c04

// Huge cases (run.Huge(): thorough tier, witness search, or a budget enlarged because modelled code changed): heaps
// of 2^17+2^16, 2^18-1 and 5*10^6 entries, where fixed-size tables "large enough for any heap" stop being large
// enough.  They are judged by the oracle alone (NoModel) and the oracle is made for this size: every key is held at
// most once and every value is 2*key+1, so a heap is a sorted slice of keys, Delete must deliver its first (min) or
// last (max) element, and Merge is the merge of two sorted slices.
//
//	header  comp=... ori=min|max size=<n> huge=1
//	bulk r n a c off   Insert(off + (a*i+c) mod n, value) for i = 0..n-1 into heap r (gcd(a, n) = 1)
//	deln r m           m times Delete on heap r, each checked; prints the number delivered and the last key
//	ins r k v (v = 2k+1, k not held) | del r | peek r | size r | empty r | hask r k | merge d s | clear r

import (
	"fmt"
	"sort"
	"strconv"
	"strings"

	"github.com/moorara/algo/heap"

	"verifharness/hx"
)

type hugeReg struct {
	h    heap.Heap[int, int]
	keys []int // ascending, distinct
}

func execHuge(c hx.Case, res *hx.Result) {
	comp := hx.HeaderGet(c.Header, "comp")
	ori := hx.HeaderGet(c.Header, "ori")
	size, _ := strconv.Atoi(hx.HeaderGet(c.Header, "size"))
	max := ori == "max"
	cmp := cmpOf(ori)
	res.Tags = []string{"comp=" + comp, "ori=" + ori, "huge"}
	bad := func(i int, format string, a ...any) {
		if res.BadOp < 0 {
			res.BadOp = i
			res.What = fmt.Sprintf(format, a...)
		}
	}
	var regs []*hugeReg
	get := func(r int) *hugeReg {
		for len(regs) <= r {
			regs = append(regs, &hugeReg{h: newHeap(comp, size, cmp)})
		}
		return regs[r]
	}
	peak := 0
	// one Delete or Peek on g, checked
	top := func(i int, g *hugeReg, del bool) (string, int, bool) {
		var k, v int
		var ok bool
		what := "peek"
		if del {
			what = "del"
			k, v, ok = g.h.Delete()
		} else {
			k, v, ok = g.h.Peek()
		}
		if len(g.keys) == 0 {
			if ok {
				bad(i, "%s on an empty heap returned (%d,%d)", what, k, v)
			}
			return "ok none", 0, false
		}
		want := g.keys[0]
		if max {
			want = g.keys[len(g.keys)-1]
		}
		switch {
		case !ok:
			bad(i, "%s reported empty while %d entries are held", what, len(g.keys))
		case k != want:
			bad(i, "%s returned key %d, the extremal held key is %d (%d entries held)", what, k, want, len(g.keys))
		case v != 2*k+1:
			bad(i, "%s returned (%d,%d), which is not a held pair", what, k, v)
		}
		if del && ok {
			if max {
				g.keys = g.keys[:len(g.keys)-1]
			} else {
				g.keys = g.keys[1:]
			}
		}
		return optKV(k, v, ok), k, ok
	}
	for i, op := range c.Ops {
		f := strings.Fields(op)
		out := "bad-op"
		kind := hx.Try(func() {
			if len(f) < 2 {
				return
			}
			r, err := strconv.Atoi(f[1])
			if err != nil || r < 0 {
				return
			}
			g := get(r)
			switch {
			case f[0] == "bulk" && len(f) == 6 && len(g.keys) == 0:
				n, _ := strconv.Atoi(f[2])
				a, _ := strconv.Atoi(f[3])
				c0, _ := strconv.Atoi(f[4])
				off, _ := strconv.Atoi(f[5])
				for j := 0; j < n; j++ {
					k := off + int((int64(a)*int64(j)+int64(c0))%int64(n))
					g.h.Insert(k, 2*k+1)
				}
				g.keys = make([]int, n)
				for j := range g.keys {
					g.keys[j] = off + j
				}
				out = "ok"
			case f[0] == "deln" && len(f) == 3:
				m, _ := strconv.Atoi(f[2])
				cnt, last := 0, 0
				for j := 0; j < m && res.BadOp < 0; j++ {
					_, k, ok := top(i, g, true)
					if !ok {
						break
					}
					cnt, last = cnt+1, k
				}
				out = fmt.Sprintf("ok %d %d", cnt, last)
			case f[0] == "del" && len(f) == 2:
				out, _, _ = top(i, g, true)
			case f[0] == "peek" && len(f) == 2:
				out, _, _ = top(i, g, false)
			case f[0] == "ins" && len(f) == 4:
				k, _ := strconv.Atoi(f[2])
				v, _ := strconv.Atoi(f[3])
				p := sort.SearchInts(g.keys, k)
				if v != 2*k+1 || p < len(g.keys) && g.keys[p] == k {
					return // not a case for this oracle
				}
				g.h.Insert(k, v)
				g.keys = append(g.keys, 0)
				copy(g.keys[p+1:], g.keys[p:])
				g.keys[p] = k
				out = "ok"
			case f[0] == "merge" && len(f) == 3 && comp != "binary":
				s, _ := strconv.Atoi(f[2])
				if s < 0 {
					return
				}
				gs := get(s)
				g.h.(heap.MergeableHeap[int, int]).Merge(gs.h.(heap.MergeableHeap[int, int]))
				if s != r {
					m := make([]int, 0, len(g.keys)+len(gs.keys))
					x, y := g.keys, gs.keys
					for len(x) > 0 && len(y) > 0 {
						if x[0] <= y[0] {
							m, x = append(m, x[0]), x[1:]
						} else {
							m, y = append(m, y[0]), y[1:]
						}
					}
					g.keys, gs.keys = append(append(m, x...), y...), nil
				}
				out = "ok"
			case f[0] == "clear" && len(f) == 2:
				g.h.DeleteAll()
				g.keys = nil
				out = "ok"
			case f[0] == "size" && len(f) == 2:
				n := g.h.Size()
				if n != len(g.keys) {
					bad(i, "size = %d, %d entries are held", n, len(g.keys))
				}
				out = "ok " + strconv.Itoa(n)
			case f[0] == "empty" && len(f) == 2:
				e := g.h.IsEmpty()
				if e != (len(g.keys) == 0) {
					bad(i, "isEmpty = %v with %d entries held", e, len(g.keys))
				}
				out = "ok " + strconv.FormatBool(e)
			case f[0] == "hask" && len(f) == 3:
				k, _ := strconv.Atoi(f[2])
				got := g.h.ContainsKey(k)
				p := sort.SearchInts(g.keys, k)
				if want := p < len(g.keys) && g.keys[p] == k; got != want {
					bad(i, "containsKey %d = %v, the held set says %v", k, got, want)
				}
				out = "ok " + strconv.FormatBool(got)
			}
			if len(g.keys) > peak {
				peak = len(g.keys)
			}
		})
		if kind != "" {
			res.Outs = append(res.Outs, "panic")
			bad(i, "%s panicked (%s)", op, kind)
			res.Tags = append(res.Tags, "panic")
			break
		}
		// the Model does not run cases of this size: its driver answers "ok" to every line of a huge case, and so
		// does this executor (what was returned is in the oracle's message when it objects) - a replay of a huge
		// case therefore compares equal unless an operation panics
		if out != "bad-op" {
			if res.BadOp == i {
				res.What += "; returned: " + out
			}
			out = "ok"
		}
		res.Outs = append(res.Outs, out)
	}
	res.Nontrivial = peak >= 4
	for _, t := range []int{65536, 196606, 262143, 4870848} {
		if peak >= t {
			res.Tags = append(res.Tags, "held>="+strconv.Itoa(t))
		}
	}
}

func strideFor(n int) int {
	gcd := func(a, b int) int {
		for b != 0 {
			a, b = b, a%b
		}
		return a
	}
	a := n/2 + n/16 + 1
	for gcd(a, n) != 1 {
		a++
	}
	return a
}

func bulkOp(r, n int, pattern string, off int) string {
	a, c := 1, 0
	switch pattern {
	case "desc":
		a, c = n-1, n-1
	case "perm":
		a, c = strideFor(n), 12345%n
	}
	if n == 1 {
		a, c = 1, 0
	}
	return fmt.Sprintf("bulk %d %d %d %d %d", r, n, a, c, off)
}

// one heap of n entries: the first consolidating Deletes, new extremal entries, a run of checked Deletes
func genHugeOne(n int, pattern string, max bool) []string {
	far := func(k int) int {
		if max {
			return n + 10 + k
		}
		return -10 - k
	}
	ops := []string{bulkOp(0, n, pattern, 0), "size 0", "peek 0", "del 0", "peek 0", "del 0", "size 0"}
	for j := 0; j < 3; j++ {
		k := far(3 - j)
		ops = append(ops, fmt.Sprintf("ins 0 %d %d", k, 2*k+1))
	}
	ops = append(ops, "peek 0", "del 0", "peek 0", "del 0", "del 0", "peek 0", "deln 0 300", "size 0", fmt.Sprintf("hask 0 %d", n/2), "hask 0 -5")
	return ops
}

// two heaps of a and b entries with interleaved or adjacent keys, merged; both used afterwards
func genHugeMerge(a, b int, pattern string, interleave bool) []string {
	ops := []string{bulkOp(0, a, pattern, 0), bulkOp(1, b, pattern, a)}
	if interleave { // a Delete on each first: the Fibonacci heaps are consolidated, the binomial ones lose a tree
		ops = append(ops, "del 0", "del 1")
	}
	ops = append(ops, "merge 0 1", "size 0", "size 1", "peek 0", "del 0", "peek 0", "deln 0 200", "merge 0 1", "merge 0 0",
		"ins 1 -7 -13", "merge 0 1", "peek 0", "del 0", "del 0", "size 0", "merge 1 0", "size 1", "deln 1 200", "size 1", "del 0")
	return ops
}

func hugeFamilies(run *hx.Run) {
	if !run.Huge() {
		return
	}
	do := func(comp, ori string, ops []string) {
		if !gaveUp(comp) {
			run.Do(comp, hx.Case{Header: header(comp, ori, 0) + " huge=1", Ops: ops, NoModel: true}, Exec)
		}
	}
	for _, comp := range comps {
		// 2^18-1 entries: binomial trees of every order 0..17 (ascending keys: the minimum sits in the tree of order 17)
		for k, n := range []int{262143, 196608, 262144, 262145, 131071} {
			ori := []string{"min", "max"}[k%2]
			do(comp, ori, genHugeOne(n, []string{"asc", "perm", "desc"}[k%3], ori == "max"))
		}
		if comp == "binary" {
			do(comp, "min", genHugeOne(5000000, "perm", false))
			continue
		}
		// Merge: 2^17-1 + 2^16-1 entries (17 + 16 trees), and the sizes next to them
		for k, p := range [][2]int{{131071, 65535}, {65535, 131071}, {131072, 65536}, {131071, 131071}, {262143, 262143}, {200000, 1}} {
			do(comp, []string{"min", "max"}[k%2], genHugeMerge(p[0], p[1], []string{"asc", "perm", "desc"}[k%3], k%2 == 1))
		}
	}
	// 5*10^6 entries: floor(log_phi n)+1 passes 32 at n = 4870847
	do("fibonacci", "min", genHugeOne(4870848+152, "perm", false))
	do("fibonacci", "max", genHugeMerge(3000000, 2000000, "asc", false))
	do("binomial", "min", genHugeOne(4870848+152, "asc", false))
}
