// Package hx holds what every property harness shares: the seeded PRNG, the case/replay format,
// panic and hang capture, the shrinker and the statistics that end up in the evidence file.
package hx

import (
	"bufio"
	"encoding/json"
	"fmt"
	"hash/fnv"
	"os"
	"path/filepath"
	"runtime/debug"
	"sort"
	"strconv"
	"strings"
	"time"
)

// ---------------------------------------------------------------- PRNG (splitmix64)

type Rand struct{ s uint64 }

func NewRand(seed uint64) *Rand { return &Rand{s: seed*0x9E3779B97F4A7C15 + 0x1234567} }

func (r *Rand) U64() uint64 {
	r.s += 0x9E3779B97F4A7C15
	z := r.s
	z = (z ^ (z >> 30)) * 0xBF58476D1CE4E5B9
	z = (z ^ (z >> 27)) * 0x94D049BB133111EB
	return z ^ (z >> 31)
}

// Intn returns a value in [0,n).
func (r *Rand) Intn(n int) int {
	if n <= 0 {
		return 0
	}
	return int(r.U64() % uint64(n))
}

// Range returns a value in [lo,hi].
func (r *Rand) Range(lo, hi int) int { return lo + r.Intn(hi-lo+1) }

func (r *Rand) Bool() bool { return r.U64()&1 == 1 }

// Chance is true with probability num/den.
func (r *Rand) Chance(num, den int) bool { return r.Intn(den) < num }

func Pick[T any](r *Rand, xs []T) T { return xs[r.Intn(len(xs))] }

// Fork derives an independent stream (so adding draws in one generator does not shift another).
func (r *Rand) Fork(label string) *Rand {
	h := fnv.New64a()
	h.Write([]byte(label))
	return NewRand(r.U64() ^ h.Sum64())
}

// ---------------------------------------------------------------- cases

// Case is one operation stream: a header of key=value words and one op per line.
type Case struct {
	Header string   // e.g. "comp=queue block=2"
	Ops    []string // e.g. "enq 3"
	// NoModel: run on the implementation and judge by the oracle only; the case is not handed to the Lean Model
	// (for sizes at which the executable Model, written for proofs and not for speed, would dominate the run time).
	// Counted apart in the statistics ("oracle_only_cases"); use sparingly and say so in the Rule text.
	NoModel bool
}

// Result is what executing a case on the implementation produced.
type Result struct {
	Outs []string // one canonical line per op (same format as the Lean driver prints)
	// BadOp is the index of the first op whose outcome the oracle (an independent, simple reference
	// of the property's abstract spec) does not admit, or -1.
	BadOp int
	What  string // human description of the inadmissible step
	// Sig names the known-findings signature the inadmissible step matches ("" = none).
	Sig string
	// Nontrivial: the case reached at least one branch on the property's non-trivial list.
	Nontrivial bool
	Tags       []string // branches hit, for the distribution histogram
}

type Exec func(c Case) Result

// ---------------------------------------------------------------- panic / hang capture

// Try runs f and classifies a panic: "" (none), "index", "nil", "explicit".
func Try(f func()) (kind string) {
	defer func() {
		if r := recover(); r != nil {
			msg := fmt.Sprint(r)
			switch {
			case strings.Contains(msg, "index out of range"), strings.Contains(msg, "slice bounds out of range"):
				kind = "index"
			case strings.Contains(msg, "nil pointer"), strings.Contains(msg, "invalid memory address"):
				kind = "nil"
			default:
				kind = "explicit"
			}
		}
	}()
	f()
	return ""
}

// WithTimeout runs f in a goroutine; ok=false if it did not return within d (the goroutine leaks;
// callers stop the case and, for long runs, the process is short-lived anyway).
func WithTimeout(d time.Duration, f func()) (ok bool) {
	done := make(chan struct{})
	go func() { defer close(done); f() }()
	select {
	case <-done:
		return true
	case <-time.After(d):
		return false
	}
}

// ---------------------------------------------------------------- run bookkeeping

type Violation struct {
	Component string `json:"component"`
	CaseNo    int    `json:"case"`
	What      string `json:"what"`
	Sig       string `json:"signature"`
	Replay    string `json:"replay"`
	Ops       int    `json:"ops_after_shrink"`
}

type Stats struct {
	Property    string         `json:"property"`
	Seed        uint64         `json:"seed"`
	Tier        string         `json:"tier"`
	Evaluations int            `json:"evaluations"`
	Ops         int            `json:"ops"`
	Nontrivial  int            `json:"distinct_nontrivial"`
	Rule        string         `json:"rule"`
	Samples     []string       `json:"samples"`
	Tags        map[string]int `json:"distribution"`
	Violations  []Violation    `json:"oracle_violations"`
	Exhaustive  bool           `json:"exhaustive"`
	Extra       map[string]any `json:"extra,omitempty"`
}

type Run struct {
	Prop   string
	Seed   uint64
	Tier   string // quick | thorough
	Out    string // output directory
	Budget float64
	R      *Rand
	Search bool // this run is a witness-search round of bin/check (a proof or the correspondence already broke)

	Stats Stats
	seen  map[uint64]struct{}
	ops   *bufio.Writer
	impl  *bufio.Writer
	fo    *os.File
	fi    *os.File
	n     int
	hung  bool

	cur    *os.File // current-case.ops
	curBuf []byte
	curLen int
}

func NewRun(prop string, seed uint64, tier, out string, budget float64) *Run {
	os.MkdirAll(out, 0o755)
	// a runaway recursion of (changed) code under test ends in "fatal error: stack overflow", which no recover()
	// catches: keep the limit low so that it ends quickly; Do leaves the case in current-case.ops for bin/check
	debug.SetMaxStack(256 << 20)
	os.Remove(filepath.Join(out, "current-case.ops"))
	fo, err := os.Create(filepath.Join(out, "ops.txt"))
	if err != nil {
		panic(err)
	}
	fi, err := os.Create(filepath.Join(out, "impl.txt"))
	if err != nil {
		panic(err)
	}
	return &Run{Prop: prop, Seed: seed, Tier: tier, Out: out, Budget: budget, R: NewRand(seed),
		Stats: Stats{Property: prop, Seed: seed, Tier: tier, Tags: map[string]int{}, Extra: map[string]any{}},
		seen:  map[uint64]struct{}{}, ops: bufio.NewWriterSize(fo, 1<<20), impl: bufio.NewWriterSize(fi, 1<<20), fo: fo, fi: fi}
}

// caseTimeout is the per-case safety net of Run.Do (VERIF_CASE_TIMEOUT seconds, 0 disables; default 120 s —
// far above any legitimate case, which takes milliseconds to a few seconds).
func caseTimeout() time.Duration {
	if v := os.Getenv("VERIF_CASE_TIMEOUT"); v != "" {
		if n, err := strconv.Atoi(v); err == nil {
			return time.Duration(n) * time.Second
		}
	}
	return 120 * time.Second
}

func (r *Run) Thorough() bool { return r.Tier == "thorough" }

// Huge: the families that are too expensive for every quick run (millions of entries, inputs of megabytes) are run
// in the thorough tier, in a witness search, and — the point — in any run whose budget was enlarged because the
// digest of a modelled function changed: code that changed is explored at sizes the unchanged code is not.
func (r *Run) Huge() bool { return r.Thorough() || r.Search || r.Budget > 1 }

// Scale multiplies a quick-tier count by the budget factor (thorough, or enlarged because modelled
// code changed).
func (r *Run) Scale(n int) int {
	v := int(float64(n) * r.Budget)
	if v < 1 {
		v = 1
	}
	return v
}

// Do executes one case on the implementation, records ops and outputs for the Model comparison,
// and shrinks + records a replay when the oracle objects.
func (r *Run) Do(component string, c Case, exec Exec) Result {
	if r.hung {
		// an earlier case hung: its goroutine is still spinning (Go cannot kill it), so every further
		// case would only add to the pile. The hang is already recorded as a violation; stop exploring.
		return Result{BadOp: -1}
	}
	r.n++
	// what is being executed, for the case that the process does not survive it (stack overflow, fatal runtime
	// error, out of memory): bin/check turns the file into the replay of a violation when the harness dies
	// (one open file, rewritten in place: two system calls per case — the bounded-exhaustive tiers run millions of cases)
	if r.cur == nil {
		r.cur, _ = os.OpenFile(filepath.Join(r.Out, "current-case.ops"), os.O_CREATE|os.O_RDWR|os.O_TRUNC, 0o644)
	}
	if r.cur != nil {
		r.curBuf = r.curBuf[:0]
		r.curBuf = fmt.Appendf(r.curBuf, "# property=%s component=%s seed=%d\n# the harness process died while executing this case\n# case 1 %s\n", r.Prop, component, r.Seed, c.Header)
		for _, op := range c.Ops {
			r.curBuf = append(r.curBuf, op...)
			r.curBuf = append(r.curBuf, '\n')
		}
		if len(r.curBuf) < r.curLen { // shorter than what is in the file: cut the old tail off
			r.cur.Truncate(int64(len(r.curBuf)))
		}
		r.cur.WriteAt(r.curBuf, 0)
		r.curLen = len(r.curBuf)
	}
	// Safety net: an executor without a watchdog of its own must not let a non-returning operation of
	// (changed) code under test stall the whole check. A case that does not come back within
	// CaseTimeout is recorded as a hang: inadmissible for every property (no operation of the modelled
	// code may fail to return), no shrinking (the goroutine cannot be killed), exploration stops.
	var res Result
	if d := caseTimeout(); d > 0 {
		ch := make(chan Result, 1)
		go func() { ch <- exec(c) }()
		select {
		case res = <-ch:
		case <-time.After(d):
			res = Result{Outs: []string{"hang"}, BadOp: 0, Nontrivial: true, Tags: []string{"case-watchdog"},
				What: fmt.Sprintf("the case did not return within %v: some operation of the implementation never returns", d)}
			if len(c.Ops) == 0 {
				c.Ops = []string{"(case without operations)"}
			}
		}
	} else {
		res = exec(c)
	}
	for _, o := range res.Outs {
		if o == "hang" || strings.HasPrefix(o, "hang ") {
			r.hung = true
		}
	}
	if c.NoModel {
		n, _ := r.Stats.Extra["oracle_only_cases"].(int)
		r.Stats.Extra["oracle_only_cases"] = n + 1
	} else {
		fmt.Fprintf(r.ops, "# case %d %s\n", r.n, c.Header)
		fmt.Fprintf(r.impl, "# case %d\n", r.n)
		for i, op := range c.Ops {
			if i >= len(res.Outs) {
				break // the executor stopped the case (panic/hang): later ops are not part of it
			}
			r.ops.WriteString(op)
			r.ops.WriteByte('\n')
			r.impl.WriteString(res.Outs[i])
			r.impl.WriteByte('\n')
		}
	}
	r.Stats.Evaluations++
	r.Stats.Ops += len(res.Outs)
	for _, t := range res.Tags {
		r.Stats.Tags[t]++
	}
	if res.Nontrivial {
		h := fnv.New64a()
		h.Write([]byte(c.Header))
		for _, op := range c.Ops {
			h.Write([]byte{0})
			h.Write([]byte(op))
		}
		k := h.Sum64()
		if _, dup := r.seen[k]; !dup {
			r.seen[k] = struct{}{}
			r.Stats.Nontrivial++
		}
	}
	if len(r.Stats.Samples) < 3 && len(c.Ops) > 0 && (res.Nontrivial || r.n > 50) {
		ops := c.Ops
		if len(ops) > 24 {
			ops = ops[:24]
		}
		r.Stats.Samples = append(r.Stats.Samples, c.Header+" :: "+strings.Join(ops, "; "))
	}
	if res.BadOp >= 0 && len(r.Stats.Violations) < 20 {
		small, sres := c, res
		if !r.hung { // never re-run a hanging case: each run leaks a spinning goroutine
			small, sres = Shrink(c, exec)
		}
		name := filepath.Join(r.Out, fmt.Sprintf("replay-%s-%s-%d.ops", r.Prop, component, r.n))
		WriteReplay(name, r.Prop, component, r.Seed, small, sres)
		r.Stats.Violations = append(r.Stats.Violations, Violation{Component: component, CaseNo: r.n,
			What: sres.What, Sig: sres.Sig, Replay: name, Ops: len(small.Ops)})
	}
	return res
}

func (r *Run) Finish() {
	if r.cur != nil {
		r.cur.Close()
	}
	os.Remove(filepath.Join(r.Out, "current-case.ops"))
	r.ops.Flush()
	r.impl.Flush()
	r.fo.Close()
	r.fi.Close()
	if len(r.Stats.Samples) == 0 {
		r.Stats.Samples = []string{"(no case generated)"}
	}
	b, _ := json.MarshalIndent(r.Stats, "", " ")
	os.WriteFile(filepath.Join(r.Out, "stats.json"), b, 0o644)
}

// Shrink is a plain delta debugger over the op list: drop chunks, then single ops, as long as the
// oracle still objects (to any op, with the same signature class).
func Shrink(c Case, exec Exec) (Case, Result) {
	best := c
	bres := exec(c)
	if bres.BadOp < 0 {
		return c, bres
	}
	// nothing after the bad op matters
	best.Ops = append([]string{}, best.Ops[:bres.BadOp+1]...)
	bres = exec(best)
	if bres.BadOp < 0 { // non-deterministic: keep the original
		return c, exec(c)
	}
	deadline := time.Now().Add(20 * time.Second)
	chunk := len(best.Ops) / 2
	if chunk < 1 {
		chunk = 1
	}
	for chunk >= 1 && time.Now().Before(deadline) {
		removed := false
		for i := 0; i+chunk <= len(best.Ops) && time.Now().Before(deadline); {
			cand := Case{Header: best.Header}
			cand.Ops = append(append([]string{}, best.Ops[:i]...), best.Ops[i+chunk:]...)
			if len(cand.Ops) == 0 {
				i += chunk
				continue
			}
			res := exec(cand)
			if res.BadOp >= 0 && res.Sig == bres.Sig {
				cand.Ops = cand.Ops[:res.BadOp+1]
				best, bres = cand, exec(cand)
				removed = true
			} else {
				i += chunk
			}
		}
		if !removed {
			chunk /= 2
		}
	}
	return best, bres
}

func WriteReplay(path, prop, component string, seed uint64, c Case, res Result) {
	var b strings.Builder
	fmt.Fprintf(&b, "# property=%s component=%s seed=%d\n", prop, component, seed)
	fmt.Fprintf(&b, "# inadmissible: op %d: %s\n", res.BadOp, res.What)
	if res.Sig != "" {
		fmt.Fprintf(&b, "# signature: %s\n", res.Sig)
	}
	fmt.Fprintf(&b, "# case 1 %s\n", c.Header)
	for i, op := range c.Ops {
		out := ""
		if i < len(res.Outs) {
			out = res.Outs[i]
		}
		fmt.Fprintf(&b, "%s\n#   impl> %s\n", op, out)
	}
	os.WriteFile(path, []byte(b.String()), 0o644)
}

// ReadReplay parses a replay/corpus file (lines starting with '#' other than "# case" are comments).
func ReadReplay(path string) ([]Case, error) {
	data, err := os.ReadFile(path)
	if err != nil {
		return nil, err
	}
	var cases []Case
	for _, line := range strings.Split(string(data), "\n") {
		line = strings.TrimRight(line, "\r")
		if strings.HasPrefix(line, "# case") {
			f := strings.Fields(line)
			hdr := ""
			if len(f) > 3 {
				hdr = strings.Join(f[3:], " ")
			}
			cases = append(cases, Case{Header: hdr})
			continue
		}
		if strings.HasPrefix(line, "#") || strings.TrimSpace(line) == "" {
			continue
		}
		if len(cases) == 0 {
			cases = append(cases, Case{})
		}
		cases[len(cases)-1].Ops = append(cases[len(cases)-1].Ops, line)
	}
	return cases, nil
}

// HeaderGet returns the value of key in a "k=v k=v" header.
func HeaderGet(hdr, key string) string {
	for _, w := range strings.Fields(hdr) {
		if kv := strings.SplitN(w, "=", 2); len(kv) == 2 && kv[0] == key {
			return kv[1]
		}
	}
	return ""
}

func SortedKeys[V any](m map[string]V) []string {
	ks := make([]string, 0, len(m))
	for k := range m {
		ks = append(ks, k)
	}
	sort.Strings(ks)
	return ks
}

// CorpusFiles lists /verif/corpus/<prop>/*.ops (run first on every check).
func CorpusFiles(prop string) []string {
	fs, _ := filepath.Glob(filepath.Join("/verif/corpus", prop, "*.ops"))
	sort.Strings(fs)
	return fs
}
