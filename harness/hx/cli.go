package hx

import (
	"flag"
	"fmt"
	"os"
)

// CLI is the main function of every per-property harness command (cmd/cXX):
//
//	harness-Cxx -out DIR [-seed N] [-tier quick|thorough] [-budget F] [-replay FILE]
func CLI(prop string, gen func(*Run), exec Exec) {
	seed := flag.Uint64("seed", 1, "VERIF_SEED")
	tier := flag.String("tier", "quick", "quick|thorough")
	out := flag.String("out", "", "output directory")
	budget := flag.Float64("budget", 1, "multiplier for the number of generated cases")
	replay := flag.String("replay", "", "replay file: run only its cases")
	search := flag.Bool("search", false, "witness-search round (something already broke): favour finding one failing input fast")
	flag.Parse()
	if *out == "" {
		fmt.Fprintln(os.Stderr, "usage: harness -out DIR [-seed N] [-tier T] [-budget F] [-replay FILE]")
		os.Exit(2)
	}
	if *tier == "thorough" && *budget == 1 {
		*budget = 10
	}
	run := NewRun(prop, *seed, *tier, *out, *budget)
	run.Search = *search
	if *replay != "" {
		cs, err := ReadReplay(*replay)
		if err != nil {
			fmt.Fprintln(os.Stderr, err)
			os.Exit(2)
		}
		for _, c := range cs {
			comp := HeaderGet(c.Header, "comp")
			res := run.Do(comp, c, exec)
			for i, o := range res.Outs {
				mark := ""
				if i == res.BadOp {
					mark = "    <-- not admitted by the spec: " + res.What
				}
				fmt.Printf("%-28s impl> %s%s\n", c.Ops[i], o, mark)
			}
		}
	} else {
		gen(run)
	}
	run.Finish()
}
