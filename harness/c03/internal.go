package c03

// The library-internal users of the quadratic table that property C03 names: grammar.Productions
// (grammar/production.go) and lr.ParsingTable (parser/lr/parsing_table.go). Both are driven through their public
// API under the 2 s watchdog; the oracle is "every call returns" (plus a builtin-map reading of what Get / ACTION /
// GOTO must answer). After every mutating call the internal table is summarised (m, n, u and a digest of every
// occupied slot) and compared with the Model, which is constructed with the HashOpts of the same constructor call
// sites (Generated/C03CallSites.lean). The internal tables are reached from here with reflect + unsafe (the
// fields are unexported and no hook exists for them); nothing is written through these references.
//
// The generators search, with the REAL hash functions (grammar.HashNonTerminal, grammar.HashTerminal,
// lr.HashState) and the tables' hash mix, for names / states whose home slots collide modulo the table sizes the
// resize policy reaches (31, then 67): only such keys can fill the (m+1)/2 slots a quadratic probe sequence visits.

import (
	"errors"
	"fmt"
	"reflect"
	"sort"
	"strconv"
	"strings"
	"time"
	"unsafe"

	"github.com/moorara/algo/grammar"
	"github.com/moorara/algo/parser/lr"
	"github.com/moorara/algo/set"
	"github.com/moorara/algo/symboltable"

	"verifharness/c02"
	"verifharness/hx"
)

const (
	fnvOffset = 14695981039346656037
	fnvPrime  = 1099511628211
)

// fieldOf reads the unexported field `name` of the struct ptr points to.
func fieldOf[T any](ptr any, name string) (t T, ok bool) {
	defer func() {
		if recover() != nil {
			ok = false
		}
	}()
	v := reflect.ValueOf(ptr).Elem().FieldByName(name)
	if !v.IsValid() {
		return t, false
	}
	v = reflect.NewAt(v.Type(), unsafe.Pointer(v.UnsafeAddr())).Elem()
	t, ok = v.Interface().(T)
	return
}

// summary renders `m= n= u= h=` for an internal table; size summarises a stored value.
func summary[K, V any](t symboltable.SymbolTable[K, V], dig func(K) uint64, size func(V) int) (string, symboltable.VerifHashState[K, V]) {
	s, ok := symboltable.VerifHashSlots(t)
	if !ok {
		return "not-a-hash-table", s
	}
	d := uint64(fnvOffset)
	step := func(x uint64) { d = (d ^ x) * fnvPrime }
	for _, e := range s.Slots {
		step(uint64(e.Index))
		step(dig(e.Key))
		step(uint64(size(e.Val)))
		if e.Deleted {
			step(1)
		} else {
			step(0)
		}
	}
	return fmt.Sprintf("m=%d n=%d u=%d h=%016x", s.M, s.N, s.U, d), s
}

func probes[K, V any](t symboltable.SymbolTable[K, V], key K) (g, fd int) {
	g, fd, _ = probesM(t, key)
	return
}

// probesM also returns the capacity of the table at the time of the walk.
func probesM[K, V any](t symboltable.SymbolTable[K, V], key K) (g, fd, m int) {
	g, fd = -1, -1
	hx.WithTimeout(10*time.Second, func() {
		hx.Try(func() {
			st, _ := symboltable.VerifHashSlots(t)
			m = st.M
			g, fd = symboltable.VerifProbes(t, key, 4*st.M+4)
		})
	})
	return
}

// boundOK is the property's bound: a probe walk ends within the capacity.
func boundOK(g, fd, m int) bool { return g >= 0 && fd >= 0 && g <= m && fd <= m }

type runner struct {
	res  hx.Result
	tags map[string]bool
}

func (r *runner) bad(i int, format string, a ...any) {
	if r.res.BadOp < 0 {
		r.res.BadOp = i
		r.res.What = fmt.Sprintf(format, a...)
	}
}

// call runs f under the watchdog; false = the case ends here (hang or panic, already recorded).
func (r *runner) call(i int, op string, f func()) bool {
	var kind string
	if !hx.WithTimeout(mode.Watchdog, func() { kind = hx.Try(f) }) {
		r.res.Outs = append(r.res.Outs, "hang")
		r.bad(i, "%s did not return within %v", op, mode.Watchdog)
		r.tags["hang"] = true
		c02.HangsObserved++
		return false
	}
	if kind != "" {
		r.res.Outs = append(r.res.Outs, "panic")
		r.bad(i, "%s panicked (%s)", op, kind)
		r.tags["panic"] = true
		return false
	}
	return true
}

// predictedHang: after one real hang in this process, a lookup whose probe walk does not stop within 4m+4 steps is
// reported without being executed (every executed one leaks a goroutine that spins forever).
func (r *runner) predictedHang(i int, op string, g, fd int, lookup bool) bool {
	if c02.HangsObserved > 0 && lookup && (g == -1 || fd == -1) {
		r.res.Outs = append(r.res.Outs, "hang")
		r.bad(i, "%s would not return: its probe walk does not stop", op)
		r.tags["hang"] = true
		r.tags["hang-predicted"] = true
		return true
	}
	return false
}

func (r *runner) finish(nontrivial bool) hx.Result {
	r.res.Nontrivial = nontrivial
	for t := range r.tags {
		r.res.Tags = append(r.res.Tags, t)
	}
	sort.Strings(r.res.Tags)
	return r.res
}

func strDig[S ~string](s S) uint64 { return c02.BytesDig(string(s)) }

// ---------------------------------------------------------------- grammar.Productions

func execProductions(c hx.Case) hx.Result {
	r := &runner{res: hx.Result{BadOp: -1}, tags: map[string]bool{"comp=productions": true}}
	seed, _ := strconv.ParseInt(hx.HeaderGet(c.Header, "shuffle"), 10, 64)
	symboltable.VerifSetShuffleSeed(seed)
	p := grammar.NewProductions()
	type tabT = symboltable.SymbolTable[grammar.NonTerminal, set.Set[*grammar.Production]]
	tab, okTab := fieldOf[tabT](p, "table")
	sum := func() string {
		if !okTab {
			return "no-table-field"
		}
		s, st := summary(tab, strDig[grammar.NonTerminal], func(v set.Set[*grammar.Production]) int { return v.Size() })
		if st.M > 31 {
			r.tags["resize-grow"] = true
		}
		if st.U > st.N {
			r.tags["tombstones-present"] = true
		}
		return s
	}
	oracle := map[string]map[int]bool{}
	long := false
	for i, op := range c.Ops {
		f := strings.Fields(op)
		if len(f) < 2 {
			r.res.Outs = append(r.res.Outs, "bad-op")
			continue
		}
		head := c02.ParseBytes(f[1])
		nt := grammar.NonTerminal(head)
		g, fd := 0, 0
		if okTab {
			var m int
			g, fd, m = probesM(tab, nt)
			if g >= 3 || fd >= 3 {
				long = true
			}
			if !boundOK(g, fd, m) && f[0] != "probes" {
				r.bad(i, "%s: the probe walk of the head (get=%d find=%d) exceeds the capacity %d", op, g, fd, m)
			}
			if g > 16 || fd > 16 {
				r.tags["walk>16"] = true
			}
		}
		out := "bad-op"
		switch f[0] {
		case "add":
			body, _ := strconv.Atoi(f[len(f)-1])
			if !r.call(i, op, func() {
				p.Add(&grammar.Production{Head: nt, Body: grammar.String[grammar.Symbol]{grammar.Terminal("t" + strconv.Itoa(body))}})
			}) {
				return r.finish(true)
			}
			if oracle[head] == nil {
				oracle[head] = map[int]bool{}
			}
			oracle[head][body] = true
			out = "ok | " + sum()
		case "get":
			if r.predictedHang(i, op, g, fd, true) {
				return r.finish(true)
			}
			var s set.Set[*grammar.Production]
			if !r.call(i, op, func() { s = p.Get(nt) }) {
				return r.finish(true)
			}
			if s == nil {
				out = "ok none"
				if len(oracle[head]) > 0 {
					r.bad(i, "Get(%s) = nil, %d productions were added", f[1], len(oracle[head]))
				}
			} else {
				out = "ok some " + strconv.Itoa(s.Size())
				if _, held := oracle[head]; !held || s.Size() != len(oracle[head]) {
					r.bad(i, "Get(%s) holds %d productions, %d were added (held=%v)", f[1], s.Size(), len(oracle[head]), held)
				}
			}
		case "removeall":
			if r.predictedHang(i, op, g, fd, true) {
				return r.finish(true)
			}
			if !r.call(i, op, func() { p.RemoveAll(nt) }) {
				return r.finish(true)
			}
			delete(oracle, head)
			out = "ok | " + sum()
		case "probes":
			out = fmt.Sprintf("ok get=%d find=%d", g, fd)
		}
		r.res.Outs = append(r.res.Outs, out)
	}
	if long {
		r.tags["walk>=3"] = true
	}
	return r.finish(long || r.tags["resize-grow"])
}

// ---------------------------------------------------------------- lr.ParsingTable

func execLRTable(c hx.Case) hx.Result {
	r := &runner{res: hx.Result{BadOp: -1}, tags: map[string]bool{"comp=lrtable": true}}
	seed, _ := strconv.ParseInt(hx.HeaderGet(c.Header, "shuffle"), 10, 64)
	symboltable.VerifSetShuffleSeed(seed)
	t := lr.NewParsingTable(nil, nil, nil, nil)
	type actRow = symboltable.SymbolTable[grammar.Terminal, set.Set[*lr.Action]]
	type gotoRow = symboltable.SymbolTable[grammar.NonTerminal, lr.State]
	actions, okA := fieldOf[symboltable.SymbolTable[lr.State, actRow]](t, "actions")
	gotos, okG := fieldOf[symboltable.SymbolTable[lr.State, gotoRow]](t, "gotos")
	stDig := func(s lr.State) uint64 { return uint64(s) }
	rowStr := func(m, n, u int, ok bool) string {
		if !ok {
			return "-"
		}
		return fmt.Sprintf("m=%d n=%d u=%d", m, n, u)
	}
	sumA := func(s lr.State) string {
		if !okA {
			return "no-actions-field"
		}
		o, st := summary(actions, stDig, func(v actRow) int { return v.Size() })
		if st.M > 31 {
			r.tags["resize-grow"] = true
		}
		row, ok := actions.Get(s)
		if !ok {
			return o + " row:-"
		}
		rs, ok2 := symboltable.VerifHashSlots(row)
		if rs.M > 31 {
			r.tags["row-resize-grow"] = true
		}
		return o + " row:" + rowStr(rs.M, rs.N, rs.U, ok2)
	}
	sumG := func(s lr.State) string {
		if !okG {
			return "no-gotos-field"
		}
		o, st := summary(gotos, stDig, func(v gotoRow) int { return v.Size() })
		if st.M > 31 {
			r.tags["resize-grow"] = true
		}
		row, ok := gotos.Get(s)
		if !ok {
			return o + " row:-"
		}
		rs, ok2 := symboltable.VerifHashSlots(row)
		if rs.M > 31 {
			r.tags["row-resize-grow"] = true
		}
		return o + " row:" + rowStr(rs.M, rs.N, rs.U, ok2)
	}
	type cell struct {
		s int
		x string
	}
	acts := map[cell]map[int]bool{}
	gos := map[cell]int{}
	long := false
	for i, op := range c.Ops {
		f := strings.Fields(op)
		if len(f) < 2 {
			r.res.Outs = append(r.res.Outs, "bad-op")
			continue
		}
		sv, _ := strconv.Atoi(f[1])
		s := lr.State(sv)
		sym := ""
		if len(f) > 2 {
			sym = c02.ParseBytes(f[2])
		}
		ga, fa, gg, fg := 0, 0, 0, 0
		if okA && okG {
			var ma, mg int
			ga, fa, ma = probesM(actions, s)
			gg, fg, mg = probesM(gotos, s)
			if (!boundOK(ga, fa, ma) || !boundOK(gg, fg, mg)) && f[0] != "probes" {
				r.bad(i, "%s: the probe walk of the state (ACTION get=%d find=%d of %d, GOTO get=%d find=%d of %d) exceeds the capacity", op, ga, fa, ma, gg, fg, mg)
			}
			if ga >= 3 || fa >= 3 || gg >= 3 || fg >= 3 {
				long = true
			}
			if ga > 16 || fa > 16 || gg > 16 || fg > 16 {
				r.tags["walk>16"] = true
			}
		}
		out := "bad-op"
		switch f[0] {
		case "addaction":
			id, _ := strconv.Atoi(f[len(f)-1])
			var single bool
			if !r.call(i, op, func() {
				single = t.AddACTION(s, grammar.Terminal(sym), &lr.Action{Type: lr.SHIFT, State: lr.State(id)})
			}) {
				return r.finish(true)
			}
			k := cell{sv, sym}
			if acts[k] == nil {
				acts[k] = map[int]bool{}
			}
			acts[k][id] = true
			if single != (len(acts[k]) == 1) {
				r.bad(i, "AddACTION(%d,%s,%d) = %v, the cell holds %d actions", sv, f[2], id, single, len(acts[k]))
			}
			out = "ok " + strconv.FormatBool(single) + " | " + sumA(s)
		case "setgoto":
			next, _ := strconv.Atoi(f[len(f)-1])
			if !r.call(i, op, func() { t.SetGOTO(s, grammar.NonTerminal(sym), lr.State(next)) }) {
				return r.finish(true)
			}
			if next != -1 {
				gos[cell{sv, sym}] = next
			}
			out = "ok | " + sumG(s)
		case "action":
			if r.predictedHang(i, op, ga, fa, true) {
				return r.finish(true)
			}
			var a *lr.Action
			var err error
			if !r.call(i, op, func() { a, err = t.ACTION(s, grammar.Terminal(sym)) }) {
				return r.finish(true)
			}
			want := acts[cell{sv, sym}]
			var ce *lr.ConflictError
			switch {
			case err == nil:
				out = "ok some " + strconv.Itoa(int(a.State))
				if len(want) != 1 || !want[int(a.State)] {
					r.bad(i, "ACTION(%d,%s) = SHIFT %d, the cell holds %d actions", sv, f[2], a.State, len(want))
				}
			case errors.As(err, &ce):
				out = "ok conflict " + strconv.Itoa(ce.Actions.Size())
				if ce.Actions.Size() != len(want) {
					r.bad(i, "ACTION(%d,%s) reports %d conflicting actions, %d were added", sv, f[2], ce.Actions.Size(), len(want))
				}
			default:
				out = "ok none"
				if len(want) > 0 {
					r.bad(i, "ACTION(%d,%s) finds nothing, %d actions were added", sv, f[2], len(want))
				}
			}
		case "goto":
			if r.predictedHang(i, op, gg, fg, true) {
				return r.finish(true)
			}
			var next lr.State
			var err error
			if !r.call(i, op, func() { next, err = t.GOTO(s, grammar.NonTerminal(sym)) }) {
				return r.finish(true)
			}
			want, held := gos[cell{sv, sym}]
			if err != nil {
				out = "ok none"
				if held {
					r.bad(i, "GOTO(%d,%s) finds nothing, %d was set", sv, f[2], want)
				}
			} else {
				out = "ok some " + strconv.Itoa(int(next))
				if !held || want != int(next) {
					r.bad(i, "GOTO(%d,%s) = %d, set: %d (held=%v)", sv, f[2], next, want, held)
				}
			}
		case "probes":
			out = fmt.Sprintf("ok A:get=%d find=%d G:get=%d find=%d", ga, fa, gg, fg)
		}
		r.res.Outs = append(r.res.Outs, out)
	}
	if long {
		r.tags["walk>=3"] = true
	}
	return r.finish(long || r.tags["resize-grow"] || r.tags["row-resize-grow"])
}

// ---------------------------------------------------------------- colliding keys, found with the real hash functions

func mix(h uint64) uint64 { return h ^ (h >> 20) ^ (h >> 12) ^ (h >> 7) ^ (h >> 4) }

// collide returns `want` numbers i >= from whose key hashes (hashOf(i), mixed like the tables do) have home slot
// `slots[j]` modulo `mods[j]` for every j.
func collide(hashOf func(int) uint64, mods, slots []int, from, want int) []int {
	var out []int
	for i := from; len(out) < want && i < from+40_000_000; i++ {
		h := mix(hashOf(i))
		ok := true
		for j, m := range mods {
			if int(h%uint64(m)) != slots[j] {
				ok = false
				break
			}
		}
		if ok {
			out = append(out, i)
		}
	}
	return out
}

func ntName(i int) string { return "N" + strconv.Itoa(i) }
func tName(i int) string  { return "t" + strconv.Itoa(i) }

func hashNT(i int) uint64    { return grammar.HashNonTerminal(grammar.NonTerminal(ntName(i))) }
func hashT(i int) uint64     { return grammar.HashTerminal(grammar.Terminal(tName(i))) }
func hashState(i int) uint64 { return lr.HashState(lr.State(i)) }

func hexName(s string) string { return c02.ShowBytes(s) }

// genProdFill: colliding heads, added one after the other, with lookups of further colliding heads that are absent.
func genProdFill(r *hx.Rand, heads []int, absent []int) []string {
	var ops []string
	for i, h := range heads {
		ops = append(ops, fmt.Sprintf("add %s %d", hexName(ntName(h)), r.Intn(3)))
		if r.Chance(1, 4) {
			ops = append(ops, fmt.Sprintf("add %s %d", hexName(ntName(h)), r.Intn(3)))
		}
		if r.Chance(1, 3) || i >= 14 {
			a := absent[r.Intn(len(absent))]
			ops = append(ops, "probes "+hexName(ntName(a)), "get "+hexName(ntName(a)), "get "+hexName(ntName(heads[r.Intn(i+1)])))
		}
	}
	ops = append(ops, "removeall "+hexName(ntName(absent[0])), "get "+hexName(ntName(heads[0])))
	return ops
}

// genProdChurn: add / removeall cycles over fresh colliding heads on top of a few resident ones.
func genProdChurn(r *hx.Rand, heads []int, resident int) []string {
	var ops []string
	for _, h := range heads[:resident] {
		ops = append(ops, fmt.Sprintf("add %s 0", hexName(ntName(h))))
	}
	for _, h := range heads[resident:] {
		n := hexName(ntName(h))
		ops = append(ops, "add "+n+" 1")
		if r.Chance(1, 3) {
			ops = append(ops, "add "+n+" 2", "get "+n)
		}
		ops = append(ops, "removeall "+n)
		if r.Chance(1, 4) {
			ops = append(ops, "get "+n, "probes "+n, "get "+hexName(ntName(heads[r.Intn(resident+1)])))
		}
	}
	return ops
}

func genProdMixed(r *hx.Rand, n, universe int) []string {
	var ops []string
	for len(ops) < n {
		h := hexName(ntName(r.Intn(universe)))
		if r.Chance(1, 12) {
			h = "x" // the empty head
		}
		switch x := r.Intn(10); {
		case x < 5:
			ops = append(ops, fmt.Sprintf("add %s %d", h, r.Intn(4)))
		case x < 7:
			ops = append(ops, "removeall "+h)
		case x < 9:
			ops = append(ops, "get "+h)
		default:
			ops = append(ops, "probes "+h)
		}
	}
	return ops
}

// genLRFill: colliding states; for each an action and a goto entry, lookups of absent colliding states on the way.
func genLRFill(r *hx.Rand, states []int, absent []int) []string {
	var ops []string
	for i, s := range states {
		switch r.Intn(3) {
		case 0:
			ops = append(ops, fmt.Sprintf("addaction %d %s %d", s, hexName(tName(r.Intn(4))), r.Intn(50)))
		case 1:
			ops = append(ops, fmt.Sprintf("setgoto %d %s %d", s, hexName(ntName(r.Intn(4))), r.Intn(50)))
		default:
			ops = append(ops, fmt.Sprintf("addaction %d %s %d", s, hexName(tName(r.Intn(4))), r.Intn(50)),
				fmt.Sprintf("setgoto %d %s %d", s, hexName(ntName(r.Intn(4))), r.Intn(50)))
		}
		if r.Chance(1, 3) || i >= 14 {
			a := absent[r.Intn(len(absent))]
			ops = append(ops, fmt.Sprintf("probes %d", a), fmt.Sprintf("action %d %s", a, hexName(tName(0))),
				fmt.Sprintf("goto %d %s", a, hexName(ntName(0))), fmt.Sprintf("action %d %s", states[r.Intn(i+1)], hexName(tName(r.Intn(4)))))
		}
	}
	return ops
}

// genLRRow: one state, many colliding terminals / non-terminals in its row.
func genLRRow(r *hx.Rand, terms, nts []int) []string {
	var ops []string
	s := r.Intn(5)
	for i := range terms {
		ops = append(ops, fmt.Sprintf("addaction %d %s %d", s, hexName(tName(terms[i])), i))
		if i < len(nts) {
			ops = append(ops, fmt.Sprintf("setgoto %d %s %d", s, hexName(ntName(nts[i])), i))
		}
		if r.Chance(1, 4) {
			ops = append(ops, fmt.Sprintf("addaction %d %s %d", s, hexName(tName(terms[r.Intn(i+1)])), i+100),
				fmt.Sprintf("action %d %s", s, hexName(tName(terms[r.Intn(i+1)]))),
				fmt.Sprintf("goto %d %s", s, hexName(ntName(nts[r.Intn(len(nts))]))))
		}
	}
	return ops
}

func genLRMixed(r *hx.Rand, n, universe int) []string {
	var ops []string
	for len(ops) < n {
		s := r.Intn(universe)
		switch x := r.Intn(10); {
		case x < 3:
			ops = append(ops, fmt.Sprintf("addaction %d %s %d", s, hexName(tName(r.Intn(6))), r.Intn(5)))
		case x < 6:
			nx := r.Intn(universe)
			if r.Chance(1, 10) {
				nx = -1
			}
			ops = append(ops, fmt.Sprintf("setgoto %d %s %d", s, hexName(ntName(r.Intn(6))), nx))
		case x < 8:
			ops = append(ops, fmt.Sprintf("action %d %s", s, hexName(tName(r.Intn(6)))))
		case x < 9:
			ops = append(ops, fmt.Sprintf("goto %d %s", s, hexName(ntName(r.Intn(6)))))
		default:
			ops = append(ops, fmt.Sprintf("probes %d", s))
		}
	}
	return ops
}

// genProdBig: n distinct heads (real hash values, no search for collisions), every one looked up, some removed and
// added again: the table behind grammar.Productions with more than 16 / 64 / 256 / 1024 keys.
func genProdBig(r *hx.Rand, n int) []string {
	var ops []string
	base := r.Intn(100000)
	name := func(i int) string { return hexName(ntName(base + i)) }
	for i := 0; i < n; i++ {
		ops = append(ops, fmt.Sprintf("add %s %d", name(i), r.Intn(3)))
		if r.Chance(1, 6) {
			ops = append(ops, "get "+name(r.Intn(i+1)), "get "+name(n+r.Intn(50)), "probes "+name(n+r.Intn(50)))
		}
	}
	for i := 0; i < n; i += 1 + r.Intn(3) {
		ops = append(ops, "get "+name(i))
	}
	for i := 0; i < n; i += 1 + r.Intn(4) { // shrinks the table on the way
		ops = append(ops, "removeall "+name(i))
		if r.Chance(1, 5) {
			ops = append(ops, "get "+name(i), fmt.Sprintf("add %s 1", name(i)), "get "+name(i))
		}
	}
	ops = append(ops, "get "+name(0), "get "+name(n-1), "probes "+name(n+7))
	return ops
}

// genLRBig: n states with an action and a goto entry each, and one state whose rows hold `row` symbols.
func genLRBig(r *hx.Rand, n, row int) []string {
	var ops []string
	base := r.Intn(1000)
	for i := 0; i < n; i++ {
		s := base + i
		ops = append(ops, fmt.Sprintf("addaction %d %s %d", s, hexName(tName(i%7)), i%50),
			fmt.Sprintf("setgoto %d %s %d", s, hexName(ntName(i%5)), (i+1)%n))
		if r.Chance(1, 6) {
			q := base + r.Intn(i+1)
			ops = append(ops, fmt.Sprintf("action %d %s", q, hexName(tName((q-base)%7))), fmt.Sprintf("goto %d %s", q, hexName(ntName((q-base)%5))),
				fmt.Sprintf("action %d %s", base+n+r.Intn(40), hexName(tName(0))), fmt.Sprintf("probes %d", base+n+r.Intn(40)))
		}
	}
	s := base + r.Intn(n)
	for j := 0; j < row; j++ {
		ops = append(ops, fmt.Sprintf("addaction %d %s %d", s, hexName(tName(100+j)), j), fmt.Sprintf("setgoto %d %s %d", s, hexName(ntName(100+j)), j))
		if r.Chance(1, 8) {
			ops = append(ops, fmt.Sprintf("action %d %s", s, hexName(tName(100+r.Intn(j+1)))), fmt.Sprintf("goto %d %s", s, hexName(ntName(100+row+3))))
		}
	}
	for i := 0; i < n; i += 1 + r.Intn(5) {
		ops = append(ops, fmt.Sprintf("action %d %s", base+i, hexName(tName(i%7))), fmt.Sprintf("goto %d %s", base+i, hexName(ntName(i%5))))
	}
	return ops
}

// ---------------------------------------------------------------- FIRST / FOLLOW tables (judged by the oracle only)

// execFirstFollow: the tables behind ComputeFIRST / ComputeFOLLOW (quadratic tables keyed by grammar symbol resp.
// non-terminal, default options) with n non-terminals. No Model of these two functions exists here (they are the
// subject of C10); the case is judged by this oracle alone: both calls return under the watchdog, and the sets are
// the ones the grammar has by construction.
//
//	shape=chain  N_i -> t_i N_{i+1} | t_i     FIRST(N_i) = {t_i}, FOLLOW(N_i) = {$}
//	shape=fan    S -> N_0 | … | N_{n-1}, N_i -> t_i    FIRST(S) = all n terminals, FOLLOW(N_i) = {$}
func execFirstFollow(c hx.Case) hx.Result {
	r := &runner{res: hx.Result{BadOp: -1}, tags: map[string]bool{"comp=firstfollow": true}}
	n, _ := strconv.Atoi(hx.HeaderGet(c.Header, "n"))
	shape := hx.HeaderGet(c.Header, "shape")
	if n < 1 {
		n = 1
	}
	var terms []grammar.Terminal
	var nts []grammar.NonTerminal
	var prods []*grammar.Production
	for i := 0; i < n; i++ {
		terms = append(terms, grammar.Terminal(tName(i)))
		nts = append(nts, grammar.NonTerminal(ntName(i)))
	}
	start := nts[0]
	if shape == "fan" {
		start = grammar.NonTerminal("S")
		for i := 0; i < n; i++ {
			prods = append(prods, &grammar.Production{Head: start, Body: grammar.String[grammar.Symbol]{nts[i]}},
				&grammar.Production{Head: nts[i], Body: grammar.String[grammar.Symbol]{terms[i]}})
		}
		nts = append(nts, start)
	} else {
		for i := 0; i < n; i++ {
			if i+1 < n {
				prods = append(prods, &grammar.Production{Head: nts[i], Body: grammar.String[grammar.Symbol]{terms[i], nts[i+1]}})
			}
			prods = append(prods, &grammar.Production{Head: nts[i], Body: grammar.String[grammar.Symbol]{terms[i]}})
		}
	}
	var g *grammar.CFG
	var first grammar.FIRST
	var follow grammar.FOLLOW
	watchdog := 30 * time.Second
	for i, op := range c.Ops {
		var kind string
		out := "bad-op"
		returned := hx.WithTimeout(watchdog, func() {
			kind = hx.Try(func() {
				switch op {
				case "build":
					g = grammar.NewCFG(terms, nts, prods, start)
					out = "ok"
				case "first":
					if g == nil {
						return
					}
					first = g.ComputeFIRST()
					bad := 0
					for j := 0; j < n; j++ {
						f := first(grammar.String[grammar.Symbol]{grammar.NonTerminal(ntName(j))})
						if f == nil || f.IncludesEmpty || f.Terminals.Size() != 1 || !f.Terminals.Contains(terms[j]) {
							bad++
						}
					}
					if shape == "fan" {
						f := first(grammar.String[grammar.Symbol]{start})
						if f == nil || f.IncludesEmpty || f.Terminals.Size() != n {
							bad++
						}
					}
					if bad > 0 {
						r.bad(i, "FIRST is wrong for %d of the %d non-terminals (shape %s)", bad, n, shape)
					}
					out = fmt.Sprintf("ok first wrong=%d", bad)
				case "follow":
					if g == nil || first == nil {
						return
					}
					follow = g.ComputeFOLLOW(first)
					bad := 0
					for j := 0; j < n; j++ {
						f := follow(grammar.NonTerminal(ntName(j)))
						if f == nil || !f.IncludesEndmarker || f.Terminals.Size() != 0 {
							bad++
						}
					}
					if bad > 0 {
						r.bad(i, "FOLLOW is wrong for %d of the %d non-terminals (shape %s)", bad, n, shape)
					}
					out = fmt.Sprintf("ok follow wrong=%d", bad)
				}
			})
		})
		if !returned {
			r.res.Outs = append(r.res.Outs, "hang")
			r.bad(i, "%s did not return within %v (n=%d, shape=%s)", op, watchdog, n, shape)
			r.tags["hang"] = true
			c02.HangsObserved++
			return r.finish(true)
		}
		if kind != "" {
			r.res.Outs = append(r.res.Outs, "panic")
			r.bad(i, "%s panicked (%s)", op, kind)
			return r.finish(true)
		}
		r.res.Outs = append(r.res.Outs, out)
	}
	for _, th := range []int{16, 64, 256, 1024} {
		if n > th {
			r.tags[fmt.Sprintf("keys>%d", th)] = true
		}
	}
	return r.finish(n > 16)
}

// mainInternal generates the cases of the two library-internal components; true = stop the run.
func mainInternal(run *hx.Run, lim *c02.Limiter) bool {
	r := run.R.Fork("internal-users")
	do := func(comp string, ops []string) bool {
		run.Do(comp, hx.Case{Header: fmt.Sprintf("comp=%s shuffle=%d", comp, r.Intn(1000)), Ops: ops}, Exec)
		return lim.Stop(run)
	}
	rounds := run.Scale(3)
	if rounds > 12 {
		rounds = 12
	}
	for k := 0; k < rounds; k++ {
		from := r.Intn(5000)
		slot31, slot67 := r.Intn(31), r.Intn(67)
		// heads / states / symbols colliding modulo 31 (the initial size)
		h31 := collide(hashNT, []int{31}, []int{slot31}, from, 60)
		s31 := collide(hashState, []int{31}, []int{slot31}, from, 60)
		t31 := collide(hashT, []int{31}, []int{slot31}, from, 40)
		// … and modulo 31 and 67 (the size after the first growth) at once
		h67 := collide(hashNT, []int{31, 67}, []int{slot31, slot67}, from, 44)
		s67 := collide(hashState, []int{31, 67}, []int{slot31, slot67}, from, 44)
		if len(h31) < 60 || len(s31) < 60 || len(t31) < 40 || len(h67) < 44 || len(s67) < 44 {
			continue
		}
		n := r.Range(17, 34)
		if do("productions", genProdFill(r, h31[:n], h31[40:])) ||
			do("lrtable", genLRFill(r, s31[:n], s31[40:])) ||
			do("productions", genProdFill(r, h67[:r.Range(20, 40)], h67[40:])) ||
			do("lrtable", genLRFill(r, s67[:r.Range(20, 40)], s67[40:])) ||
			do("productions", genProdChurn(r, h31, r.Intn(8))) ||
			do("productions", genProdChurn(r, h67, r.Intn(8))) ||
			do("lrtable", genLRRow(r, t31[:r.Range(17, 36)], h31[:20])) {
			return true
		}
	}
	// more than 16 / 64 / 256 (thorough: 1024) keys in the internal tables, and next to those sizes
	sizes := []int{17, 65, 257}
	if run.Thorough() && !lim.Search() {
		sizes = []int{16, 17, 63, 64, 65, 255, 256, 257, 1023, 1024, 1025}
	}
	for _, n := range sizes {
		if do("productions", genProdBig(r, n)) || do("lrtable", genLRBig(r, n, n/4+17)) {
			return true
		}
		for _, shape := range []string{"chain", "fan"} {
			if n > 300 && shape == "chain" && !run.Thorough() {
				continue
			}
			run.Do("firstfollow", hx.Case{Header: fmt.Sprintf("comp=firstfollow n=%d shape=%s", n, shape), Ops: []string{"build", "first", "follow"}, NoModel: true}, Exec)
			if lim.Stop(run) {
				return true
			}
		}
	}
	for k, n := 0, run.Scale(10); k < n; k++ {
		if do("productions", genProdMixed(r, r.Range(20, 160), r.Range(4, 80))) ||
			do("lrtable", genLRMixed(r, r.Range(20, 160), r.Range(4, 80))) {
			return true
		}
	}
	return false
}
