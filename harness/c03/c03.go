// Package c03: every hash-table operation returns, within a number of probes bounded by the capacity
// (property C03). The executor is the one of C02 (real tables, builtin-map oracle, state digests) with
// two additions: every call runs under a watchdog, so that a probe loop that never returns is observed
// as `hang`, and before every put/get/delete the probe walk of the key is measured through the hook
// symboltable.VerifProbes and must not exceed the capacity.
package c03

import (
	"fmt"
	"time"

	"verifharness/c02"
	"verifharness/hx"
)

const Rule = "cases = (implementation, hash function, HashOpts, shuffle seed, history): churn histories (put k_i, delete k_i for fresh k_i, " +
	"with re-insertion of old keys and lookups of absent keys) long enough to pass every table size the resize policy reaches, under " +
	"constant / mod-3 / mod-capacity / identity / FNV hashes; fills of colliding live keys up to each load boundary followed by lookups of " +
	"absent colliding keys; fill / DeleteAll cycles with fresh keys below the grow threshold; initial capacities whose doubling lands " +
	"next to the square of a prime; grow/shrink oscillation; each call under a 2 s watchdog, probe walks measured before every put/get/delete and " +
	"compared with the Model's count; non-trivial = a probe/chain walk of length >= 3 or a resize (including same-size re-hash) occurred; " +
	"components productions / lrtable: grammar.Productions (Add/Get/RemoveAll) and lr.ParsingTable (AddACTION/SetGOTO/ACTION/GOTO) driven " +
	"through their API with head non-terminals / states / row symbols whose REAL hashes collide modulo 31 and modulo (31, 67) — fills past the " +
	"(m+1)/2 slots a quadratic probe sequence reaches, lookups of absent colliding keys, add/removeall churn with fresh colliding heads — every " +
	"call under the watchdog, internal tables (m, n, u, slot digest) compared with the Model built from the call sites' HashOpts; " +
	"hardening round: the generators of C02 with probe counts measured before every call and bounded by the capacity - threshold sweeps of the number of entries " +
	"(0 .. 1025, 4482 / 9409, one size around 2^16 per seed for two implementations; thorough: all), long grow / shrink walks that visit many capacities under well-spread " +
	"and under fully colliding hash functions (constants 0, 1, 5, 2^63, 2^64-1, mod 3, single bits) incl. the walk 31 .. 1117 .. 563 .. 293 past the prime squares 289 / 529, " +
	"capacities next to powers of two and prime squares, load-factor bounds at the edges, churn of hundreds of operations with a small live set under every hash shape; " +
	"productions / lrtable with 17 / 65 / 257 (thorough: 16 .. 1025) distinct keys and rows of n/4+17 symbols; component firstfollow (ORACLE ONLY, not run on the Model: " +
	"ComputeFIRST / ComputeFOLLOW of grammars with that many non-terminals must return within 30 s with the sets the grammar has by construction; counted as oracle_only_cases); " +
	"second round (generators of C02, probe counts bounded): key / value types other than int, every pair of a 6 x 5 grid of load-factor bounds (min > max/2 included) x {mod 3, constant} x a " +
	"grow-then-shrink walk with probe counts after every step, every entry count 0..200 with the probe counts of all keys at every step, walks through the capacity graph past the prime squares " +
	"11^2 .. 101^2 with every key colliding (oracle only above 2000 slots, run.Huge()), tables of 10^6 entries (oracle only, run.Huge()); " +
	"distinct = distinct (header, op list)"

var mode = c02.Mode{ProbeBound: true, Watchdog: 10 * time.Second}

func Exec(c hx.Case) hx.Result {
	switch hx.HeaderGet(c.Header, "comp") {
	case "productions":
		return execProductions(c)
	case "lrtable":
		return execLRTable(c)
	case "firstfollow":
		return execFirstFollow(c)
	}
	return c02.ExecMode(c, mode)
}

// genFill: n colliding live keys (no deletes), then lookups / deletes of absent keys — the D26 shape at every size.
func genFill(r *hx.Rand, n int) []string {
	var ops []string
	for i := 1; i <= n; i++ {
		ops = append(ops, fmt.Sprintf("put %d %d", i, i))
		if r.Chance(1, 6) || i == n {
			ops = append(ops, "probes 100000", "get 100000", "delete 100001", fmt.Sprintf("probes %d", r.Range(1, i)))
		}
	}
	return ops
}

// genOscillate: hold the size at a resize boundary and step over it back and forth.
func genOscillate(r *hx.Rand, n, rounds int) []string {
	var ops []string
	for i := 0; i < n; i++ {
		ops = append(ops, fmt.Sprintf("put %d %d", i, i))
	}
	for c := 0; c < rounds; c++ {
		w := r.Range(1, 6)
		for j := 0; j < w; j++ {
			ops = append(ops, fmt.Sprintf("delete %d", n-1-j))
		}
		ops = append(ops, "probes -3", "get -3")
		for j := 0; j < w; j++ {
			ops = append(ops, fmt.Sprintf("put %d %d", n-1-j, c))
		}
		if r.Chance(1, 3) {
			ops = append(ops, fmt.Sprintf("put %d %d", 5000+c, c), fmt.Sprintf("delete %d", 5000+c))
		}
	}
	ops = append(ops, "size", "all")
	return ops
}

func Main(run *hx.Run) {
	run.Stats.Rule = Rule
	lim := c02.NewLimiter(run)
	for _, f := range hx.CorpusFiles("C03") {
		cs, _ := hx.ReadReplay(f)
		for _, c := range cs {
			run.Do(hx.HeaderGet(c.Header, "comp"), c, Exec)
		}
	}
	if mainInternal(run, lim) {
		return
	}
	if c02.MainHarden(run, lim, Exec, true) {
		return
	}
	degenerate := []string{"const", "mod3", "modm", "id", "fnv"}
	for _, comp := range c02.Comps {
		r := run.R.Fork(comp)
		do := func(c hx.Case) bool {
			run.Do(comp, c, Exec)
			return lim.Stop(run)
		}
		// DeleteAll cycles with fresh keys: the slots DeleteAll leaves behind must really be free
		for k, n := 0, run.Scale(15); k < n; k++ {
			hdr := c02.Header(r, comp, degenerate[(k+4)%len(degenerate)])
			if do(hx.Case{Header: hdr, Ops: c02.GenDeleteAllCycles(r, hdr, r.Range(4, 9), true)}) {
				return
			}
		}
		// capacities whose doubling lands just below the square of a prime (59 -> 118 .. 121 = 11^2,
		// 131 -> 263 -> 526 .. 529 = 23^2): colliding keys past that size
		if comp == "quadratic" || comp == "double" {
			for _, cf := range [][2]int{{59, 75}, {263, 290}, {131, 290}} {
				if cf[0] != 59 && lim.Search() {
					continue
				}
				for _, hname := range []string{"const", "mod3"} {
					hdr := fmt.Sprintf("comp=%s hash=%s cap=%d shuffle=%d", comp, hname, cf[0], r.Intn(1000))
					n := cf[1]
					if hname == "mod3" {
						n = 3 * cf[1] / 2
					}
					if do(hx.Case{Header: hdr, Ops: genFill(r, n)}) {
						return
					}
				}
			}
		}
		// churn with a small resident set: the live size stays small, the number of deletes is unbounded
		for k, n := 0, run.Scale(25); k < n; k++ {
			hname := degenerate[k%len(degenerate)]
			cycles := r.Range(40, 400)
			if do(hx.Case{Header: c02.Header(r, comp, hname), Ops: c02.GenChurn(r, r.Intn(20), cycles, true)}) {
				return
			}
		}
		// churn on top of a resident set that has pushed the table to a larger size
		sizes := []int{20, 40, 80, 150}
		if run.Thorough() && !lim.Search() {
			sizes = []int{20, 40, 80, 150, 300, 600, 1100, 2100} // m up to 2^12 / the prime above it
		}
		for _, base := range sizes {
			for _, hname := range []string{"const", "id", "fnv"} {
				if hname == "const" && base > 700 && comp != "chain" {
					continue // quadratic cost in the table size; the smaller sizes cover the policy
				}
				if do(hx.Case{Header: c02.Header(r, comp, hname), Ops: c02.GenChurn(r, base, 2*base+50, true)}) {
					return
				}
			}
		}
		// colliding live keys up to the load boundary, then absent keys
		for k, n := 0, run.Scale(15); k < n; k++ {
			hname := []string{"const", "mod3", "modm"}[k%3]
			if do(hx.Case{Header: c02.Header(r, comp, hname), Ops: genFill(r, r.Range(10, 140))}) {
				return
			}
		}
		// oscillation around a boundary
		for k, n := 0, run.Scale(15); k < n; k++ {
			hname := degenerate[r.Intn(len(degenerate))]
			if do(hx.Case{Header: c02.Header(r, comp, hname), Ops: genOscillate(r, r.Range(8, 200), r.Range(10, 60))}) {
				return
			}
		}
	}
}
