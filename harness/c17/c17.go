// Package c17: the three union-find implementations against reachability over the union pairs.
package c17

import (
	"fmt"
	"strconv"
	"strings"
	"sync"
	"time"

	"github.com/moorara/algo/unionfind"

	"verifharness/hx"
)

const Rule = "cases = (implementation, n, op sequence) drawn from VERIF_SEED, every op sequence run on all three " +
	"implementations (quickfind, quickunion, weighted) and their answers also compared with each other: " +
	"n<=8 with dense unions, n up to 64 random, chains/stars/pairings that build the deepest and the widest trees, " +
	"arguments from [-2, n+1] so invalid ones occur everywhere; oracle = breadth-first reachability over the valid " +
	"union pairs; non-trivial = the history merged two classes that both had >= 2 elements, or repeated a union of two " +
	"distinct already connected elements, or passed an invalid argument after at least one merge; " +
	"distinct = distinct (header, op list)"

var comps = []string{"quickfind", "quickunion", "weighted"}

func newUF(comp string, n int) unionfind.UnionFind {
	switch comp {
	case "quickfind":
		return unionfind.NewQuickFind(n)
	case "quickunion":
		return unionfind.NewQuickUnion(n)
	case "weighted":
		return unionfind.NewWeightedQuickUnion(n)
	}
	return nil
}

// oracle: nothing but the list of valid union pairs, queried by breadth-first search.
type oracle struct {
	n   int
	adj [][]int
}

func (o *oracle) valid(p int) bool { return 0 <= p && p < o.n }

func (o *oracle) add(p, q int) {
	if o.valid(p) && o.valid(q) {
		o.adj[p] = append(o.adj[p], q)
		o.adj[q] = append(o.adj[q], p)
	}
}

// class returns the set of elements reachable from p (p valid).
func (o *oracle) class(p int) []bool {
	seen := make([]bool, o.n)
	seen[p] = true
	queue := []int{p}
	for len(queue) > 0 {
		x := queue[0]
		queue = queue[1:]
		for _, y := range o.adj[x] {
			if !seen[y] {
				seen[y] = true
				queue = append(queue, y)
			}
		}
	}
	return seen
}

func (o *oracle) connected(p, q int) bool {
	return o.valid(p) && o.valid(q) && o.class(p)[q]
}

func (o *oracle) classes() int {
	done := make([]bool, o.n)
	k := 0
	for i := 0; i < o.n; i++ {
		if !done[i] {
			k++
			for j, b := range o.class(i) {
				if b {
					done[j] = true
				}
			}
		}
	}
	return k
}

func size(set []bool) int {
	k := 0
	for _, b := range set {
		if b {
			k++
		}
	}
	return k
}

// Exec runs one case on the real unionfind package (the header's implementation produces the output
// lines; the other two run alongside for the cross comparison) and on the reachability oracle.
func Exec(c hx.Case) hx.Result {
	var mu sync.Mutex
	res := &hx.Result{BadOp: -1}
	finished := hx.WithTimeout(watchdog, func() { execCase(c, res, &mu) })
	mu.Lock()
	defer mu.Unlock()
	if finished {
		return *res
	}
	// a Find loop that never returns: the goroutine is stuck inside op len(Outs)
	snap := hx.Result{BadOp: res.BadOp, What: res.What, Outs: append([]string{}, res.Outs...), Tags: []string{"hang"}}
	i := len(snap.Outs)
	snap.Outs = append(snap.Outs, "hang")
	if snap.BadOp < 0 {
		snap.BadOp = i
		snap.What = fmt.Sprintf("%s did not return within %v", c.Ops[i], watchdog)
	}
	return snap
}

const watchdog = 5 * time.Second

func execCase(c hx.Case, res *hx.Result, mu *sync.Mutex) {
	comp := hx.HeaderGet(c.Header, "comp")
	n, _ := strconv.Atoi(hx.HeaderGet(c.Header, "n"))
	if n < 0 {
		n = 0
	}
	bad := func(i int, format string, a ...any) {
		if res.BadOp < 0 {
			res.BadOp = i
			res.What = fmt.Sprintf(format, a...)
		}
	}
	tags := map[string]bool{"comp=" + comp: true}
	u := newUF(comp, n)
	if u == nil {
		for range c.Ops {
			res.Outs = append(res.Outs, "bad-case")
		}
		return
	}
	var others []unionfind.UnionFind
	var otherNames []string
	for _, k := range comps {
		if k != comp {
			others = append(others, newUF(k, n))
			otherNames = append(otherNames, k)
		}
	}
	o := &oracle{n: n, adj: make([][]int, n)}
	merges := 0
	nontrivial := false

	atoi := func(s string) int { v, _ := strconv.Atoi(s); return v }
	// the two other implementations only feed the cross comparison: their panics are reported, not printed
	safe := func(i int, name string, f func()) {
		if k := hx.Try(f); k != "" {
			bad(i, "%s panicked (%s) on the same history", name, k)
		}
	}

	for i, op := range c.Ops {
		f := strings.Fields(op)
		out := "bad-op"
		kind := hx.Try(func() {
			switch {
			case f[0] == "union" && len(f) == 3:
				p, q := atoi(f[1]), atoi(f[2])
				u.Union(p, q)
				for k, w := range others {
					safe(i, otherNames[k], func() { w.Union(p, q) })
				}
				out = "ok"
				if !o.valid(p) || !o.valid(q) {
					tags["union-invalid"] = true
					if merges > 0 {
						nontrivial = true
					}
				} else if p == q {
					tags["union-self"] = true
				} else {
					cp := o.class(p)
					if cp[q] {
						tags["union-redundant"] = true
						nontrivial = true
					} else {
						tags["union-merge"] = true
						merges++
						if size(cp) >= 2 && size(o.class(q)) >= 2 {
							tags["union-merge-two-trees"] = true
							nontrivial = true
						}
					}
				}
				o.add(p, q)
			case f[0] == "find" && len(f) == 2:
				p := atoi(f[1])
				r, ok := u.Find(p)
				out = fmt.Sprintf("ok %d %v", r, ok)
				if !o.valid(p) {
					tags["find-invalid"] = true
					if merges > 0 {
						nontrivial = true
					}
					if ok || r != -1 {
						bad(i, "find %d (out of range, n=%d) returned (%d,%v), want (-1,false)", p, n, r, ok)
					}
					break
				}
				if !ok || !o.valid(r) {
					bad(i, "find %d returned (%d,%v): not a valid representative", p, r, ok)
					break
				}
				cls := o.class(p)
				if !cls[r] {
					bad(i, "find %d returned %d, which no chain of unions links to %d", p, r, p)
				}
				// same representative iff connected, against every element
				step := 1
				if n > 64 { // long chains: a sample keeps the case linear
					step = n / 16
				}
				for x := 0; x < n; x += step {
					rx, okx := u.Find(x)
					if !okx || (rx == r) != cls[x] {
						bad(i, "find %d = %d and find %d = (%d,%v), but reachable(%d,%d) = %v", p, r, x, rx, okx, p, x, cls[x])
						break
					}
				}
				for k, w := range others {
					safe(i, otherNames[k], func() {
						if _, okw := w.Find(p); !okw {
							bad(i, "find %d: %s says not found, %s found %d", p, otherNames[k], comp, r)
						}
					})
				}
			case f[0] == "connected" && len(f) == 3:
				p, q := atoi(f[1]), atoi(f[2])
				got := u.IsConnected(p, q)
				out = "ok " + strconv.FormatBool(got)
				if !o.valid(p) || !o.valid(q) {
					tags["connected-invalid"] = true
					if merges > 0 {
						nontrivial = true
					}
				}
				if want := o.connected(p, q); got != want {
					bad(i, "connected %d %d = %v, reachability over the union pairs says %v", p, q, got, want)
				}
				for k, w := range others {
					safe(i, otherNames[k], func() {
						if g := w.IsConnected(p, q); g != got {
							bad(i, "connected %d %d: %s says %v, %s says %v", p, q, comp, got, otherNames[k], g)
						}
					})
				}
			case f[0] == "count" && len(f) == 1:
				got := u.Count()
				out = "ok " + strconv.Itoa(got)
				if want := o.classes(); got != want {
					bad(i, "count = %d, the union pairs leave %d classes", got, want)
				}
				if got != n-merges {
					bad(i, "count = %d, want n - merges = %d - %d", got, n, merges)
				}
				for k, w := range others {
					if g := w.Count(); g != got {
						bad(i, "count: %s says %d, %s says %d", comp, got, otherNames[k], g)
					}
				}
			case f[0] == "dump" && len(f) == 1:
				out = "ok " + unionfind.VerifDump(u)
			}
		})
		mu.Lock()
		if kind != "" {
			res.Outs = append(res.Outs, "panic")
			bad(i, "%s panicked (%s)", op, kind)
			tags["panic"] = true
			mu.Unlock()
			break
		}
		res.Outs = append(res.Outs, out)
		mu.Unlock()
	}
	if merges > 0 {
		tags["merged"] = true
	}
	if n > 0 && merges == n-1 {
		tags["all-joined"] = true
	}
	mu.Lock()
	defer mu.Unlock()
	res.Nontrivial = nontrivial
	for t := range tags {
		res.Tags = append(res.Tags, t)
	}
}

// ---------------------------------------------------------------- generators

// arg draws an argument: mostly valid, otherwise anywhere in [-2, n+1].
func arg(r *hx.Rand, n, validPct int) int {
	if n > 0 && r.Intn(100) < validPct {
		return r.Intn(n)
	}
	return r.Range(-2, n+1)
}

func queryOp(r *hx.Rand, n, validPct int) string {
	switch x := r.Intn(100); {
	case x < 40:
		return fmt.Sprintf("connected %d %d", arg(r, n, validPct), arg(r, n, validPct))
	case x < 75:
		return fmt.Sprintf("find %d", arg(r, n, validPct))
	case x < 90:
		return "count"
	default:
		return "dump"
	}
}

// genMixed interleaves unions and queries; unionPct is the share of unions.
func genMixed(r *hx.Rand, n, length, unionPct, validPct int) []string {
	var ops []string
	for len(ops) < length {
		if r.Intn(100) < unionPct {
			ops = append(ops, fmt.Sprintf("union %d %d", arg(r, n, validPct), arg(r, n, validPct)))
		} else {
			ops = append(ops, queryOp(r, n, validPct))
		}
	}
	return ops
}

// sweep appends the queries that expose the whole state: dump, count, find of every element and of the
// out-of-range neighbours, connected for a band of pairs.
func sweep(ops []string, n int) []string {
	ops = append(ops, "dump", "count")
	for p := -1; p <= n; p++ {
		ops = append(ops, fmt.Sprintf("find %d", p))
	}
	for p := 0; p < n; p++ {
		for q := p + 1; q < n && q <= p+3; q++ {
			ops = append(ops, fmt.Sprintf("connected %d %d", p, q))
		}
	}
	if n > 0 {
		ops = append(ops, fmt.Sprintf("connected 0 %d", n-1), fmt.Sprintf("connected %d 0", n-1),
			fmt.Sprintf("connected 0 %d", n), "connected -1 0", "connected 0 0")
	}
	return ops
}

// shapes: histories that build the extreme forests.
func genShape(r *hx.Rand, n int, shape string) []string {
	var ops []string
	u := func(p, q int) { ops = append(ops, fmt.Sprintf("union %d %d", p, q)) }
	switch shape {
	case "chain-up": // quick-union: the path 0 -> 1 -> ... -> n-1 (depth n-1: Find's loop bound is met exactly)
		for i := 1; i < n; i++ {
			u(0, i)
		}
	case "chain-down":
		for i := n - 2; i >= 0; i-- {
			u(n-1, i)
		}
	case "chain-adjacent":
		for i := 0; i+1 < n; i++ {
			u(i, i+1)
		}
	case "chain-adjacent-rev":
		for i := n - 1; i > 0; i-- {
			u(i, i-1)
		}
	case "star":
		for i := 1; i < n; i++ {
			u(i, 0)
		}
	case "pairing": // binomial-tree shape for the weighted variant: equal sizes meet at every level
		for step := 1; step < n; step *= 2 {
			for i := 0; i+step < n; i += 2 * step {
				if r.Bool() {
					u(i, i+step)
				} else {
					u(i+step, i)
				}
			}
		}
	case "two-halves": // two chains, then one union joining the two deep trees, then every union again
		h := n / 2
		for i := 1; i < h; i++ {
			u(0, i)
		}
		for i := h + 1; i < n; i++ {
			u(h, i)
		}
		ops = append(ops, "dump")
		if n >= 2 {
			u(r.Intn(h+1), h+r.Intn(n-h))
		}
		for i := 1; i < n; i++ {
			u(i, i-1)
		}
	}
	if r.Chance(1, 3) { // sprinkle invalid calls: they must change nothing
		k := r.Intn(len(ops) + 1)
		inv := []string{fmt.Sprintf("union %d %d", -1, r.Intn(n+1)), fmt.Sprintf("union %d %d", r.Intn(n+1), n), fmt.Sprintf("union %d %d", n+1, -2)}
		ops = append(ops[:k:k], append(inv, ops[k:]...)...)
	}
	return sweep(ops, n)
}

var shapes = []string{"chain-up", "chain-down", "chain-adjacent", "chain-adjacent-rev", "star", "pairing", "two-halves"}

// all3 runs one op list on the three implementations.
func all3(run *hx.Run, n int, ops []string) {
	for _, comp := range comps {
		run.Do(comp, hx.Case{Header: fmt.Sprintf("comp=%s n=%d", comp, n), Ops: ops}, Exec)
	}
}

// sequences enumerates every sequence over alpha of exactly the given length.
func sequences(alpha []string, length int, f func([]string)) {
	idx := make([]int, length)
	for {
		ops := make([]string, length)
		for i, k := range idx {
			ops[i] = alpha[k]
		}
		f(ops)
		i := length - 1
		for i >= 0 {
			idx[i]++
			if idx[i] < len(alpha) {
				break
			}
			idx[i] = 0
			i--
		}
		if i < 0 {
			return
		}
	}
}

func unionAlphabet(lo, hi int, distinct bool) []string {
	var a []string
	for p := lo; p <= hi; p++ {
		for q := lo; q <= hi; q++ {
			if distinct && p == q {
				continue
			}
			a = append(a, fmt.Sprintf("union %d %d", p, q))
		}
	}
	return a
}

// finalQueries exposes the state after an enumerated history (short: these cases are many).
func finalQueries(ops []string, n int) []string {
	ops = append(ops, "dump", "count")
	for p := 0; p < n; p++ {
		ops = append(ops, fmt.Sprintf("find %d", p))
	}
	for p := 0; p < n; p++ {
		for q := p + 1; q < n; q++ {
			ops = append(ops, fmt.Sprintf("connected %d %d", p, q))
		}
	}
	return ops
}

func Main(run *hx.Run) {
	run.Stats.Rule = Rule
	for _, f := range hx.CorpusFiles("C17") {
		cs, _ := hx.ReadReplay(f)
		for _, c := range cs {
			run.Do(hx.HeaderGet(c.Header, "comp"), c, Exec)
		}
	}

	// 1. small n, dense unions, arguments mostly valid
	r := run.R.Fork("dense")
	for k, m := 0, run.Scale(900); k < m; k++ {
		n := r.Range(0, 8)
		all3(run, n, genMixed(r, n, r.Range(4, 40), 55, 85))
	}
	// 2. arguments anywhere in [-2, n+1]
	r = run.R.Fork("invalid")
	for k, m := 0, run.Scale(400); k < m; k++ {
		n := r.Range(0, 6)
		all3(run, n, genMixed(r, n, r.Range(4, 30), 50, 0))
	}
	// 3. larger n: a union phase that joins most classes, then queries, then mixed
	r = run.R.Fork("random")
	for k, m := 0, run.Scale(350); k < m; k++ {
		n := r.Range(9, 64)
		ops := genMixed(r, n, r.Range(n/2, 2*n), 90, 95)
		ops = append(ops, genMixed(r, n, r.Range(5, 40), 30, 90)...)
		if r.Chance(1, 3) {
			ops = sweep(ops, n)
		}
		all3(run, n, ops)
	}
	// 4. extreme forests
	r = run.R.Fork("shapes")
	for k, m := 0, run.Scale(150); k < m; k++ {
		n := r.Range(1, 64)
		if r.Chance(1, 2) {
			n = r.Range(1, 9)
		}
		all3(run, n, genShape(r, n, hx.Pick(r, shapes)))
	}

	if run.Thorough() {
		// every sequence of <= 5 unions, followed by the queries that expose the whole state
		exh := func(n int, alpha []string, maxLen int) {
			for length := 0; length <= maxLen; length++ {
				sequences(alpha, length, func(ops []string) { all3(run, n, finalQueries(ops, n)) })
			}
		}
		exh(1, unionAlphabet(-1, 1, false), 4) // n=1, arguments -1..1 (valid and invalid)
		exh(2, unionAlphabet(-1, 2, false), 4) // n=2, arguments -1..2 (valid and invalid), 16 calls
		exh(3, unionAlphabet(0, 2, false), 5)  // n=3, all 9 valid calls
		exh(4, unionAlphabet(0, 3, true), 5)   // n=4, the 12 calls with p != q
		exh(5, unionAlphabet(0, 4, true), 3)   // n=5, 20 calls
		run.Stats.Extra["exhaustive_part"] = "on each of the three implementations: every sequence of <=4 Union calls with arguments in [-1,n] for n=1,2; " +
			"every sequence of <=5 Union calls for n=3 (all 9 argument pairs) and n=4 (the 12 pairs p!=q); <=3 calls for n=5; " +
			"each followed by dump, count, find of every element and connected of every pair"
		// long chains: the deepest tree the fuel bound must accommodate
		for _, n := range []int{128, 512, 2048} {
			for _, shape := range []string{"chain-up", "chain-adjacent", "pairing"} {
				all3(run, n, genShape(r, n, shape))
			}
		}
	}
}
