// Package c17: the three union-find implementations against reachability over the union pairs.
package c17

import (
	"fmt"
	"runtime"
	"strconv"
	"strings"
	"sync"
	"time"

	"github.com/moorara/algo/unionfind"

	"verifharness/hx"
)

const Rule = "cases = (implementation, n, op sequence) drawn from VERIF_SEED, every op sequence run on all three " +
	"implementations (quickfind, quickunion, weighted) and their answers also compared with each other: " +
	"n<=8 with dense unions, n up to 64 random, chains/stars/pairings that build the deepest and the widest trees, " +
	"arguments from [-2, n+1] (and now and then +-2^31, +-2^32, MaxInt64, MinInt64) so invalid ones occur everywhere; " +
	"a threshold family run on every check (fam=size): n = 63..66, 255..257, 1023..1025 on all three implementations with " +
	"adversarial union orders (chain sweeps Union(i,i+1) forwards and backwards giving quick-union trees of depth n-1, " +
	"Union(0,i), Union(n-1,i), star, pairing rounds, unions among the LAST elements, two deep trees joined), probed " +
	"after k = 1, 2, 63..65, 255..257, 1023..1025, n-2, n-1 unions and at the end with Find/IsConnected/Count on the first, " +
	"last, middle and threshold elements and on invalid ones; and (fam=big, header solo=1: one implementation per case, " +
	"because a history that is linear for one is quadratic for another) n = 65535, 65536, 65537, 70001 with the chain " +
	"sweeps and pairing rounds for quick-union / weighted and unions touching the last, first and middle elements for " +
	"quick-find, some under GOMAXPROCS 3 and 7 (header procs=k); under run.Huge() (thorough tier, witness search, enlarged budget) also n = 2^20 and 2^20+1 " +
	"(fam=huge, oracle only: oracle_only_cases); oracle = breadth-first reachability over the valid " +
	"union pairs (for n > 64 cached as explicit class lists that are re-validated by a full breadth-first labelling at " +
	"every Count and at the end of the case); non-trivial = the history merged two classes that both had >= 2 elements, or repeated a union of two " +
	"distinct already connected elements, or passed an invalid argument after at least one merge; " +
	"distinct = distinct (header, op list)"

var comps = []string{"quickfind", "quickunion", "weighted"}

func newUF(comp string, n int) unionfind.UnionFind {
	switch comp {
	case "quickfind":
		return unionfind.NewQuickFind(n)
	case "quickunion":
		return unionfind.NewQuickUnion(n)
	case "weighted":
		return unionfind.NewWeightedQuickUnion(n)
	}
	return nil
}

// oracle: the list of valid union pairs. Small cases (n <= bfsEvery) answer every question by a breadth-first search
// over the pairs, as the property is worded. For the large sizes that would make a case quadratic, so the oracle also
// keeps the classes as explicit member lists (a union moves the shorter list into the longer one) and answers from
// those; the lists are compared with a full breadth-first labelling over the pairs at every Count and at the end of
// the case (check), so they are a cache of the reachability relation, never a second opinion.
type oracle struct {
	n     int
	adj   [][]int
	label []int   // label[x]: the class x is in
	mem   [][]int // mem[l]: the members of class l (nil once merged into another)
	k     int     // number of classes
}

const bfsEvery = 64

func newOracle(n int) *oracle {
	o := &oracle{n: n, adj: make([][]int, n), label: make([]int, n), mem: make([][]int, n), k: n}
	for i := 0; i < n; i++ {
		o.label[i] = i
		o.mem[i] = []int{i}
	}
	return o
}

func (o *oracle) valid(p int) bool { return 0 <= p && p < o.n }

func (o *oracle) add(p, q int) {
	if !o.valid(p) || !o.valid(q) {
		return
	}
	o.adj[p] = append(o.adj[p], q)
	o.adj[q] = append(o.adj[q], p)
	a, b := o.label[p], o.label[q]
	if a == b {
		return
	}
	if len(o.mem[a]) < len(o.mem[b]) {
		a, b = b, a
	}
	for _, x := range o.mem[b] {
		o.label[x] = a
	}
	o.mem[a] = append(o.mem[a], o.mem[b]...)
	o.mem[b] = nil
	o.k--
}

// class returns the set of elements reachable from p (p valid), by breadth-first search over the union pairs.
func (o *oracle) class(p int) []bool {
	seen := make([]bool, o.n)
	seen[p] = true
	queue := []int{p}
	for len(queue) > 0 {
		x := queue[0]
		queue = queue[1:]
		for _, y := range o.adj[x] {
			if !seen[y] {
				seen[y] = true
				queue = append(queue, y)
			}
		}
	}
	return seen
}

// same: are p and q (both valid) linked by a chain of unions?
func (o *oracle) same(p, q int) bool {
	if o.n <= bfsEvery {
		return o.class(p)[q]
	}
	return o.label[p] == o.label[q]
}

func (o *oracle) connected(p, q int) bool {
	return o.valid(p) && o.valid(q) && o.same(p, q)
}

func (o *oracle) classSize(p int) int {
	if o.n <= bfsEvery {
		return size(o.class(p))
	}
	return len(o.mem[o.label[p]])
}

// classes counts the classes by breadth-first search (linear in n + number of pairs) and, on the way, checks the
// member lists against it; what != "" reports a disagreement inside the oracle itself.
func (o *oracle) classes() (k int, what string) {
	done := make([]bool, o.n)
	for i := 0; i < o.n; i++ {
		if done[i] {
			continue
		}
		k++
		cnt := 0
		done[i] = true
		queue := []int{i}
		for len(queue) > 0 {
			x := queue[0]
			queue = queue[1:]
			cnt++
			if o.label[x] != o.label[i] {
				what = fmt.Sprintf("oracle: %d and %d are linked by unions but carry different labels", i, x)
			}
			for _, y := range o.adj[x] {
				if !done[y] {
					done[y] = true
					queue = append(queue, y)
				}
			}
		}
		if cnt != len(o.mem[o.label[i]]) {
			what = fmt.Sprintf("oracle: the class of %d has %d members by search and %d in the list", i, cnt, len(o.mem[o.label[i]]))
		}
	}
	if k != o.k {
		what = fmt.Sprintf("oracle: %d classes by search, %d by the lists", k, o.k)
	}
	return k, what
}

func size(set []bool) int {
	k := 0
	for _, b := range set {
		if b {
			k++
		}
	}
	return k
}

// Exec runs one case on the real unionfind package (the header's implementation produces the output
// lines; the other two run alongside for the cross comparison) and on the reachability oracle.
func Exec(c hx.Case) hx.Result {
	var mu sync.Mutex
	res := &hx.Result{BadOp: -1}
	limit := watchdog
	if hx.HeaderGet(c.Header, "fam") == "huge" { // 2^20 elements, a million operations
		limit = 12 * watchdog
	}
	finished := hx.WithTimeout(limit, func() { execCase(c, res, &mu) })
	mu.Lock()
	defer mu.Unlock()
	if finished {
		return *res
	}
	// a Find loop that never returns: the goroutine is stuck inside op len(Outs)
	snap := hx.Result{BadOp: res.BadOp, What: res.What, Outs: append([]string{}, res.Outs...), Tags: []string{"hang"}}
	i := len(snap.Outs)
	snap.Outs = append(snap.Outs, "hang")
	if snap.BadOp < 0 {
		snap.BadOp = i
		snap.What = fmt.Sprintf("%s did not return within %v", c.Ops[i], limit)
	}
	return snap
}

const watchdog = 20 * time.Second

func execCase(c hx.Case, res *hx.Result, mu *sync.Mutex) {
	comp := hx.HeaderGet(c.Header, "comp")
	n, _ := strconv.Atoi(hx.HeaderGet(c.Header, "n"))
	if n < 0 {
		n = 0
	}
	bad := func(i int, format string, a ...any) {
		if res.BadOp < 0 {
			res.BadOp = i
			res.What = fmt.Sprintf(format, a...)
		}
	}
	tags := map[string]bool{"comp=" + comp: true}
	u := newUF(comp, n)
	if u == nil {
		for range c.Ops {
			res.Outs = append(res.Outs, "bad-case")
		}
		return
	}
	var others []unionfind.UnionFind
	var otherNames []string
	// solo=1 (large n): the header's implementation alone; the histories of that family are linear for one
	// implementation and quadratic for another (a chain of n unions costs quick-find n*n steps)
	solo := hx.HeaderGet(c.Header, "solo") == "1"
	if fam := hx.HeaderGet(c.Header, "fam"); fam != "" {
		tags["fam="+fam] = true
	}
	for _, t := range []int{64, 256, 1024, 65536} {
		if n > t {
			tags["n>"+strconv.Itoa(t)] = true
		}
	}
	// procs=k: the case runs with GOMAXPROCS(k) (the answers of a sequential API must not depend on it)
	if k, err := strconv.Atoi(hx.HeaderGet(c.Header, "procs")); err == nil && k >= 1 {
		defer runtime.GOMAXPROCS(runtime.GOMAXPROCS(k))
		tags["procs-set"] = true
	}
	for _, k := range comps {
		if k != comp && !solo {
			others = append(others, newUF(k, n))
			otherNames = append(otherNames, k)
		}
	}
	o := newOracle(n)
	merges := 0
	nontrivial := false

	atoi := func(s string) int { v, _ := strconv.Atoi(s); return v }
	// the two other implementations only feed the cross comparison: their panics are reported, not printed
	safe := func(i int, name string, f func()) {
		if k := hx.Try(f); k != "" {
			bad(i, "%s panicked (%s) on the same history", name, k)
		}
	}

	for i, op := range c.Ops {
		f := strings.Fields(op)
		out := "bad-op"
		kind := hx.Try(func() {
			switch {
			case f[0] == "union" && len(f) == 3:
				p, q := atoi(f[1]), atoi(f[2])
				u.Union(p, q)
				for k, w := range others {
					safe(i, otherNames[k], func() { w.Union(p, q) })
				}
				out = "ok"
				if !o.valid(p) || !o.valid(q) {
					tags["union-invalid"] = true
					if merges > 0 {
						nontrivial = true
					}
				} else if p == q {
					tags["union-self"] = true
				} else {
					if o.same(p, q) {
						tags["union-redundant"] = true
						nontrivial = true
					} else {
						tags["union-merge"] = true
						merges++
						if o.classSize(p) >= 2 && o.classSize(q) >= 2 {
							tags["union-merge-two-trees"] = true
							nontrivial = true
						}
					}
				}
				o.add(p, q)
			case f[0] == "find" && len(f) == 2:
				p := atoi(f[1])
				r, ok := u.Find(p)
				out = fmt.Sprintf("ok %d %v", r, ok)
				if !o.valid(p) {
					tags["find-invalid"] = true
					if merges > 0 {
						nontrivial = true
					}
					if ok || r != -1 {
						bad(i, "find %d (out of range, n=%d) returned (%d,%v), want (-1,false)", p, n, r, ok)
					}
					break
				}
				if !ok || !o.valid(r) {
					bad(i, "find %d returned (%d,%v): not a valid representative", p, r, ok)
					break
				}
				if !o.same(p, r) {
					bad(i, "find %d returned %d, which no chain of unions links to %d", p, r, p)
				}
				if r != p {
					tags["find-non-root"] = true
				}
				// same representative iff connected, against every element
				step := 1
				if n > 64 { // long chains: a sample keeps the case linear
					step = n / 16
				}
				sample := []int{0, n - 1, n / 2} // first, last, middle, then a regular sample
				for x := 0; x < n; x += step {
					sample = append(sample, x)
				}
				for _, x := range sample {
					rx, okx := u.Find(x)
					if want := o.same(p, x); !okx || (rx == r) != want {
						bad(i, "find %d = %d and find %d = (%d,%v), but reachable(%d,%d) = %v", p, r, x, rx, okx, p, x, want)
						break
					}
				}
				for k, w := range others {
					safe(i, otherNames[k], func() {
						if _, okw := w.Find(p); !okw {
							bad(i, "find %d: %s says not found, %s found %d", p, otherNames[k], comp, r)
						}
					})
				}
			case f[0] == "connected" && len(f) == 3:
				p, q := atoi(f[1]), atoi(f[2])
				got := u.IsConnected(p, q)
				out = "ok " + strconv.FormatBool(got)
				if !o.valid(p) || !o.valid(q) {
					tags["connected-invalid"] = true
					if merges > 0 {
						nontrivial = true
					}
				}
				if want := o.connected(p, q); got != want {
					bad(i, "connected %d %d = %v, reachability over the union pairs says %v", p, q, got, want)
				}
				for k, w := range others {
					safe(i, otherNames[k], func() {
						if g := w.IsConnected(p, q); g != got {
							bad(i, "connected %d %d: %s says %v, %s says %v", p, q, comp, got, otherNames[k], g)
						}
					})
				}
			case f[0] == "count" && len(f) == 1:
				got := u.Count()
				out = "ok " + strconv.Itoa(got)
				want, inner := o.classes()
				if inner != "" {
					bad(i, "%s", inner)
				}
				if got != want {
					bad(i, "count = %d, the union pairs leave %d classes", got, want)
				}
				if got != n-merges {
					bad(i, "count = %d, want n - merges = %d - %d", got, n, merges)
				}
				for k, w := range others {
					if g := w.Count(); g != got {
						bad(i, "count: %s says %d, %s says %d", comp, got, otherNames[k], g)
					}
				}
			case f[0] == "dump" && len(f) == 1:
				out = "ok " + unionfind.VerifDump(u)
			}
		})
		mu.Lock()
		if kind != "" {
			res.Outs = append(res.Outs, "panic")
			bad(i, "%s panicked (%s)", op, kind)
			tags["panic"] = true
			mu.Unlock()
			break
		}
		res.Outs = append(res.Outs, out)
		mu.Unlock()
	}
	if _, inner := o.classes(); inner != "" {
		bad(len(c.Ops)-1, "%s", inner)
	}
	if merges > 0 {
		tags["merged"] = true
	}
	if n > 0 && merges == n-1 {
		tags["all-joined"] = true
	}
	mu.Lock()
	defer mu.Unlock()
	res.Nontrivial = nontrivial
	for t := range tags {
		res.Tags = append(res.Tags, t)
	}
}

// ---------------------------------------------------------------- generators

// arg draws an argument: mostly valid, otherwise anywhere in [-2, n+1].
func arg(r *hx.Rand, n, validPct int) int {
	if n > 0 && r.Intn(100) < validPct {
		return r.Intn(n)
	}
	if r.Chance(1, 12) {
		return hx.Pick(r, extremeArgs)
	}
	return r.Range(-2, n+1)
}

// arguments that are invalid for every n the harness uses, at the magnitudes where a conversion would wrap
var extremeArgs = []int{1 << 31, -(1 << 31), 1 << 32, 1<<32 + 1, -(1 << 32), 1<<63 - 1, -1 << 63}

func queryOp(r *hx.Rand, n, validPct int) string {
	switch x := r.Intn(100); {
	case x < 40:
		return fmt.Sprintf("connected %d %d", arg(r, n, validPct), arg(r, n, validPct))
	case x < 75:
		return fmt.Sprintf("find %d", arg(r, n, validPct))
	case x < 90:
		return "count"
	default:
		return "dump"
	}
}

// genMixed interleaves unions and queries; unionPct is the share of unions.
func genMixed(r *hx.Rand, n, length, unionPct, validPct int) []string {
	var ops []string
	for len(ops) < length {
		if r.Intn(100) < unionPct {
			ops = append(ops, fmt.Sprintf("union %d %d", arg(r, n, validPct), arg(r, n, validPct)))
		} else {
			ops = append(ops, queryOp(r, n, validPct))
		}
	}
	return ops
}

// sweep appends the queries that expose the whole state: dump, count, find of every element and of the
// out-of-range neighbours, connected for a band of pairs.
func sweep(ops []string, n int) []string {
	ops = append(ops, "dump", "count")
	for p := -1; p <= n; p++ {
		ops = append(ops, fmt.Sprintf("find %d", p))
	}
	for p := 0; p < n; p++ {
		for q := p + 1; q < n && q <= p+3; q++ {
			ops = append(ops, fmt.Sprintf("connected %d %d", p, q))
		}
	}
	if n > 0 {
		ops = append(ops, fmt.Sprintf("connected 0 %d", n-1), fmt.Sprintf("connected %d 0", n-1),
			fmt.Sprintf("connected 0 %d", n), "connected -1 0", "connected 0 0")
	}
	return ops
}

// shapes: histories that build the extreme forests.
func genShape(r *hx.Rand, n int, shape string) []string {
	var ops []string
	u := func(p, q int) { ops = append(ops, fmt.Sprintf("union %d %d", p, q)) }
	switch shape {
	case "chain-up": // quick-union: the path 0 -> 1 -> ... -> n-1 (depth n-1: Find's loop bound is met exactly)
		for i := 1; i < n; i++ {
			u(0, i)
		}
	case "chain-down":
		for i := n - 2; i >= 0; i-- {
			u(n-1, i)
		}
	case "chain-adjacent":
		for i := 0; i+1 < n; i++ {
			u(i, i+1)
		}
	case "chain-adjacent-rev":
		for i := n - 1; i > 0; i-- {
			u(i, i-1)
		}
	case "star":
		for i := 1; i < n; i++ {
			u(i, 0)
		}
	case "pairing": // binomial-tree shape for the weighted variant: equal sizes meet at every level
		for step := 1; step < n; step *= 2 {
			for i := 0; i+step < n; i += 2 * step {
				if r.Bool() {
					u(i, i+step)
				} else {
					u(i+step, i)
				}
			}
		}
	case "two-halves": // two chains, then one union joining the two deep trees, then every union again
		h := n / 2
		for i := 1; i < h; i++ {
			u(0, i)
		}
		for i := h + 1; i < n; i++ {
			u(h, i)
		}
		ops = append(ops, "dump")
		if n >= 2 {
			u(r.Intn(h+1), h+r.Intn(n-h))
		}
		for i := 1; i < n; i++ {
			u(i, i-1)
		}
	}
	if r.Chance(1, 3) { // sprinkle invalid calls: they must change nothing
		k := r.Intn(len(ops) + 1)
		inv := []string{fmt.Sprintf("union %d %d", -1, r.Intn(n+1)), fmt.Sprintf("union %d %d", r.Intn(n+1), n), fmt.Sprintf("union %d %d", n+1, -2)}
		ops = append(ops[:k:k], append(inv, ops[k:]...)...)
	}
	return sweep(ops, n)
}

// ---------------------------------------------------------------- threshold family (size dimension)

var sizeMarks = []int{1, 2, 63, 64, 65, 255, 256, 257, 1023, 1024, 1025, 65535, 65536, 65537, 1<<20 - 1, 1 << 20, 1<<20 + 1}

// elems: the elements worth asking about for a structure of n elements — first, last, middle, the ones next to a
// threshold, and invalid ones of every magnitude.
func elems(n int) []int {
	cand := []int{-1, 0, 1, 2, n / 2, n - 3, n - 2, n - 1, n, n + 1}
	for _, t := range sizeMarks {
		if t >= 63 {
			cand = append(cand, t)
		}
	}
	cand = append(cand, extremeArgs...)
	seen := map[int]bool{}
	var out []int
	for _, x := range cand {
		if x > n+1 && x < 1<<31 { // a threshold above this n: just another invalid argument
			continue
		}
		if !seen[x] {
			seen[x] = true
			out = append(out, x)
		}
	}
	return out
}

// battery: count, find of every element of elems(n), connected over pairs of them (light: only pairs with the
// first and the last element and neighbours).
func battery(ops []string, n int, light bool) []string {
	ops = append(ops, "count")
	es := elems(n)
	if light {
		es = []int{-1, 0, 1, n / 2, n - 2, n - 1, n}
	}
	for _, p := range es {
		ops = append(ops, fmt.Sprintf("find %d", p))
	}
	for i, p := range es {
		ops = append(ops, fmt.Sprintf("connected 0 %d", p), fmt.Sprintf("connected %d %d", p, n-1))
		if i+1 < len(es) {
			ops = append(ops, fmt.Sprintf("connected %d %d", p, es[i+1]))
		}
	}
	ops = append(ops, fmt.Sprintf("connected %d %d", n-1, n-1), "connected 0 0")
	return ops
}

// orderOf lists the unions of an adversarial order over n elements.
func orderOf(order string, n int) [][2]int {
	var us [][2]int
	u := func(p, q int) { us = append(us, [2]int{p, q}) }
	switch order {
	case "sweep-up": // quick-union: 0 -> 1 -> ... -> n-1, depth n-1, each union in constant time
		for i := 0; i+1 < n; i++ {
			u(i, i+1)
		}
	case "sweep-down": // n-1 -> n-2 -> ... -> 0
		for i := n - 1; i > 0; i-- {
			u(i, i-1)
		}
	case "sweep-up-swapped": // Union(i+1, i): every new element goes below the old root
		for i := 0; i+1 < n; i++ {
			u(i+1, i)
		}
	case "from-first": // Union(0, i): Find(0) walks the whole chain before every link
		for i := 1; i < n; i++ {
			u(0, i)
		}
	case "from-last": // Union(n-1, i)
		for i := 0; i+1 < n; i++ {
			u(n-1, i)
		}
	case "star": // Union(i, 0)
		for i := 1; i < n; i++ {
			u(i, 0)
		}
	case "star-last": // Union(i, n-1)
		for i := n - 2; i >= 0; i-- {
			u(i, n-1)
		}
	case "pairing": // rounds of equal-size merges (the deepest weighted trees)
		for step := 1; step < n; step *= 2 {
			for i := 0; i+step < n; i += 2 * step {
				u(i, i+step)
			}
		}
	case "pairing-from-last": // the same, counted from the last element downwards
		for step := 1; step < n; step *= 2 {
			for i := n - 1; i-step >= 0; i -= 2 * step {
				u(i, i-step)
			}
		}
	case "last-elements": // only the last few elements, the first one and the middle one take part
		k := n - 1
		u(k, 0)
		u(k-1, k)
		u(n/2, k-2)
		u(k-2, k-1)
		u(k-3, n/2+1)
		u(0, k-3)
		u(k, k-4)
		u(1, k)
	case "two-deep-trees": // two chains, joined at their far ends, then everything again
		h := n / 2
		for i := 0; i+1 < h; i++ {
			u(i, i+1)
		}
		for i := n - 1; i > h; i-- {
			u(i, i-1)
		}
		u(0, n-1)
		u(n-1, 0)
		u(h-1, h)
	}
	return us
}

// sizeCase: the unions of an order, probed after k unions for every k next to a threshold, then the full battery,
// then every union once more (all redundant now or merging what is left) and the battery again.
func sizeCase(order string, n int, big bool) []string {
	marks := map[int]bool{}
	for _, t := range sizeMarks {
		marks[t] = true
	}
	us := orderOf(order, n)
	marks[len(us)-1] = true
	var ops []string
	for k, pq := range us {
		ops = append(ops, fmt.Sprintf("union %d %d", pq[0], pq[1]))
		if marks[k+1] {
			// what was just linked, the two ends, and an element the unions have not reached yet
			p, q := pq[0], pq[1]
			ops = append(ops, "count", fmt.Sprintf("find %d", p), fmt.Sprintf("find %d", q), "find 0", fmt.Sprintf("find %d", n-1),
				fmt.Sprintf("connected %d %d", p, q), fmt.Sprintf("connected 0 %d", n-1), fmt.Sprintf("connected %d %d", us[0][0], q),
				fmt.Sprintf("connected %d %d", us[0][0], us[len(us)-1][1]))
		}
	}
	if !big {
		ops = append(ops, "dump")
	}
	ops = battery(ops, n, false)
	// invalid arguments must change nothing
	ops = append(ops, fmt.Sprintf("union %d 0", n), fmt.Sprintf("union 0 %d", n), "union -1 0", fmt.Sprintf("union %d %d", n-1, 1<<32),
		fmt.Sprintf("union %d 0", -1<<63), fmt.Sprintf("union %d %d", n-1, n-1))
	redo := us
	if big && len(redo) > 40 {
		redo = append(append([][2]int{}, us[:20]...), us[len(us)-20:]...)
	}
	for _, pq := range redo {
		ops = append(ops, fmt.Sprintf("union %d %d", pq[1], pq[0]))
	}
	return battery(ops, n, big)
}

var sizeOrders = []string{"sweep-up", "sweep-down", "sweep-up-swapped", "from-first", "from-last", "star", "star-last",
	"pairing", "pairing-from-last", "last-elements", "two-deep-trees"}

// sizeFamily is deterministic (no PRNG draw): it runs the same on every check.
func sizeFamily(run *hx.Run) {
	// all three implementations on the same history (and compared with each other)
	for _, n := range []int{63, 64, 65, 66} {
		for _, order := range sizeOrders {
			all3fam(run, n, sizeCase(order, n, false), "size")
		}
	}
	mid := map[int][]string{
		255: {"sweep-down", "pairing"}, 256: {"sweep-up", "pairing-from-last", "last-elements"}, 257: {"from-last", "star-last", "two-deep-trees"},
		1023: {"sweep-up-swapped", "pairing-from-last"}, 1024: {"sweep-down", "pairing", "last-elements"}, 1025: {"sweep-up", "from-first", "two-deep-trees"},
	}
	for _, n := range []int{255, 256, 257, 1023, 1024, 1025} {
		orders := mid[n]
		if run.Thorough() {
			orders = sizeOrders
		}
		for _, order := range orders {
			all3fam(run, n, sizeCase(order, n, false), "size")
		}
	}
	if run.Thorough() {
		for _, n := range []int{127, 128, 129, 511, 512, 513, 2047, 2048, 2049, 4097} {
			for _, order := range []string{"sweep-up", "sweep-down", "pairing", "last-elements", "two-deep-trees"} {
				all3fam(run, n, sizeCase(order, n, false), "size")
			}
		}
	}
	// large n, one implementation per case. quick-find: a union costs n steps, so only a few of them, among the
	// last, first and middle elements; quick-union and weighted: the sweeps (constant time per union) and pairings.
	solo := func(comp string, n int, order string, procs int) {
		hdr := fmt.Sprintf("comp=%s n=%d fam=big solo=1", comp, n)
		if procs > 0 {
			hdr += fmt.Sprintf(" procs=%d", procs)
		}
		run.Do(comp, hx.Case{Header: hdr, Ops: sizeCase(order, n, true)}, Exec)
	}
	for i, n := range []int{65535, 65536, 65537, 70001} {
		solo("quickfind", n, "last-elements", 0)
		solo("quickfind", n, "last-elements", []int{3, 7, 2, 5}[i])
		solo("quickunion", n, []string{"sweep-up", "sweep-down", "sweep-up-swapped", "sweep-up"}[i], 0)
		solo("weighted", n, []string{"pairing", "pairing-from-last", "sweep-up", "star-last"}[i], 0)
		if run.Thorough() {
			solo("quickunion", n, "two-deep-trees", 0)
			solo("quickunion", n, "pairing-from-last", 3)
			solo("weighted", n, "sweep-down", 0)
			solo("weighted", n, "two-deep-trees", 7)
			solo("quickfind", n, "last-elements", 16)
		}
	}
}

// hugeFamily: 2^20 elements (run.Huge(): thorough tier, witness search, enlarged budget), one implementation per case,
// judged by the oracle only.
func hugeFamily(run *hx.Run) {
	n := 1 << 20
	for _, cfg := range [][2]string{{"quickunion", "sweep-up"}, {"quickunion", "sweep-down"}, {"weighted", "pairing"}, {"weighted", "sweep-up-swapped"},
		{"quickfind", "last-elements"}} {
		for _, m := range []int{n, n + 1} {
			hdr := fmt.Sprintf("comp=%s n=%d fam=huge solo=1", cfg[0], m)
			if cfg[0] == "quickfind" {
				hdr += " procs=5"
			}
			run.Do(cfg[0], hx.Case{Header: hdr, Ops: sizeCase(cfg[1], m, true), NoModel: true}, Exec)
		}
	}
}

// all3fam: all3 with a family name in the header.
func all3fam(run *hx.Run, n int, ops []string, fam string) {
	for _, comp := range comps {
		run.Do(comp, hx.Case{Header: fmt.Sprintf("comp=%s n=%d fam=%s", comp, n, fam), Ops: ops}, Exec)
	}
}

var shapes = []string{"chain-up", "chain-down", "chain-adjacent", "chain-adjacent-rev", "star", "pairing", "two-halves"}

// all3 runs one op list on the three implementations.
func all3(run *hx.Run, n int, ops []string) {
	for _, comp := range comps {
		run.Do(comp, hx.Case{Header: fmt.Sprintf("comp=%s n=%d", comp, n), Ops: ops}, Exec)
	}
}

// sequences enumerates every sequence over alpha of exactly the given length.
func sequences(alpha []string, length int, f func([]string)) {
	idx := make([]int, length)
	for {
		ops := make([]string, length)
		for i, k := range idx {
			ops[i] = alpha[k]
		}
		f(ops)
		i := length - 1
		for i >= 0 {
			idx[i]++
			if idx[i] < len(alpha) {
				break
			}
			idx[i] = 0
			i--
		}
		if i < 0 {
			return
		}
	}
}

func unionAlphabet(lo, hi int, distinct bool) []string {
	var a []string
	for p := lo; p <= hi; p++ {
		for q := lo; q <= hi; q++ {
			if distinct && p == q {
				continue
			}
			a = append(a, fmt.Sprintf("union %d %d", p, q))
		}
	}
	return a
}

// finalQueries exposes the state after an enumerated history (short: these cases are many).
func finalQueries(ops []string, n int) []string {
	ops = append(ops, "dump", "count")
	for p := 0; p < n; p++ {
		ops = append(ops, fmt.Sprintf("find %d", p))
	}
	for p := 0; p < n; p++ {
		for q := p + 1; q < n; q++ {
			ops = append(ops, fmt.Sprintf("connected %d %d", p, q))
		}
	}
	return ops
}

func Main(run *hx.Run) {
	run.Stats.Rule = Rule
	for _, f := range hx.CorpusFiles("C17") {
		cs, _ := hx.ReadReplay(f)
		for _, c := range cs {
			run.Do(hx.HeaderGet(c.Header, "comp"), c, Exec)
		}
	}

	// 1. small n, dense unions, arguments mostly valid
	r := run.R.Fork("dense")
	for k, m := 0, run.Scale(900); k < m; k++ {
		n := r.Range(0, 8)
		all3(run, n, genMixed(r, n, r.Range(4, 40), 55, 85))
	}
	// 2. arguments anywhere in [-2, n+1]
	r = run.R.Fork("invalid")
	for k, m := 0, run.Scale(400); k < m; k++ {
		n := r.Range(0, 6)
		all3(run, n, genMixed(r, n, r.Range(4, 30), 50, 0))
	}
	// 3. larger n: a union phase that joins most classes, then queries, then mixed
	r = run.R.Fork("random")
	for k, m := 0, run.Scale(350); k < m; k++ {
		n := r.Range(9, 64)
		ops := genMixed(r, n, r.Range(n/2, 2*n), 90, 95)
		ops = append(ops, genMixed(r, n, r.Range(5, 40), 30, 90)...)
		if r.Chance(1, 3) {
			ops = sweep(ops, n)
		}
		all3(run, n, ops)
	}
	// 4. extreme forests
	r = run.R.Fork("shapes")
	for k, m := 0, run.Scale(150); k < m; k++ {
		n := r.Range(1, 64)
		if r.Chance(1, 2) {
			n = r.Range(1, 9)
		}
		all3(run, n, genShape(r, n, hx.Pick(r, shapes)))
	}

	// the threshold family comes after the short random histories: a change that breaks everyday behaviour is then
	// reported (and shrunk) on a short history, and the long ones only speak up for what needs their size
	sizeFamily(run)
	if run.Huge() {
		hugeFamily(run)
	}

	if run.Thorough() {
		// every sequence of <= 5 unions, followed by the queries that expose the whole state
		exh := func(n int, alpha []string, maxLen int) {
			for length := 0; length <= maxLen; length++ {
				sequences(alpha, length, func(ops []string) { all3(run, n, finalQueries(ops, n)) })
			}
		}
		exh(1, unionAlphabet(-1, 1, false), 4) // n=1, arguments -1..1 (valid and invalid)
		exh(2, unionAlphabet(-1, 2, false), 4) // n=2, arguments -1..2 (valid and invalid), 16 calls
		exh(3, unionAlphabet(0, 2, false), 5)  // n=3, all 9 valid calls
		exh(4, unionAlphabet(0, 3, true), 5)   // n=4, the 12 calls with p != q
		exh(5, unionAlphabet(0, 4, true), 3)   // n=5, 20 calls
		run.Stats.Extra["exhaustive_part"] = "on each of the three implementations: every sequence of <=4 Union calls with arguments in [-1,n] for n=1,2; " +
			"every sequence of <=5 Union calls for n=3 (all 9 argument pairs) and n=4 (the 12 pairs p!=q); <=3 calls for n=5; " +
			"each followed by dump, count, find of every element and connected of every pair"
		// long chains: the deepest tree the fuel bound must accommodate
		for _, n := range []int{128, 512, 2048} {
			for _, shape := range []string{"chain-up", "chain-adjacent", "pairing"} {
				all3(run, n, genShape(r, n, shape))
			}
		}
	}
}
