// Package c17: the three union-find implementations against reachability over the union pairs.
package c17

import (
	"fmt"
	"strconv"
	"strings"
	"sync"
	"time"

	"github.com/moorara/algo/unionfind"

	"verifharness/hx"
)

const Rule = "cases = (implementation, n, op sequence) drawn from VERIF_SEED, every op sequence run on all three " +
	"implementations (quickfind, quickunion, weighted) and their answers also compared with each other: " +
	"n<=8 with dense unions, n up to 64 random, chains/stars/pairings that build the deepest and the widest trees, " +
	"arguments from [-2, n+1] so invalid ones occur everywhere; oracle = breadth-first reachability over the valid " +
	"union pairs; non-trivial = the history merged two classes that both had >= 2 elements, or repeated a union of two " +
	"distinct already connected elements, or passed an invalid argument after at least one merge; " +
	"distinct = distinct (header, op list)"

var comps = []string{"quickfind", "quickunion", "weighted"}

func newUF(comp string, n int) unionfind.UnionFind {
	switch comp {
	case "quickfind":
		return unionfind.NewQuickFind(n)
	case "quickunion":
		return unionfind.NewQuickUnion(n)
	case "weighted":
		return unionfind.NewWeightedQuickUnion(n)
	}
	return nil
}

// oracle: nothing but the list of valid union pairs, queried by breadth-first search.
type oracle struct {
	n   int
	adj [][]int
}

func (o *oracle) valid(p int) bool { return 0 <= p && p < o.n }

func (o *oracle) add(p, q int) {
	if o.valid(p) && o.valid(q) {
		o.adj[p] = append(o.adj[p], q)
		o.adj[q] = append(o.adj[q], p)
	}
}

// class returns the set of elements reachable from p (p valid).
func (o *oracle) class(p int) []bool {
	seen := make([]bool, o.n)
	seen[p] = true
	queue := []int{p}
	for len(queue) > 0 {
		x := queue[0]
		queue = queue[1:]
		for _, y := range o.adj[x] {
			if !seen[y] {
				seen[y] = true
				queue = append(queue, y)
			}
		}
	}
	return seen
}

func (o *oracle) connected(p, q int) bool {
	return o.valid(p) && o.valid(q) && o.class(p)[q]
}

func (o *oracle) classes() int {
	done := make([]bool, o.n)
	k := 0
	for i := 0; i < o.n; i++ {
		if !done[i] {
			k++
			for j, b := range o.class(i) {
				if b {
					done[j] = true
				}
			}
		}
	}
	return k
}

func size(set []bool) int {
	k := 0
	for _, b := range set {
		if b {
			k++
		}
	}
	return k
}

// Exec runs one case on the real unionfind package (the header's implementation produces the output
// lines; the other two run alongside for the cross comparison) and on the reachability oracle.
func Exec(c hx.Case) hx.Result {
	var mu sync.Mutex
	res := &hx.Result{BadOp: -1}
	finished := hx.WithTimeout(watchdog, func() { execCase(c, res, &mu) })
	mu.Lock()
	defer mu.Unlock()
	if finished {
		return *res
	}
	// a Find loop that never returns: the goroutine is stuck inside op len(Outs)
	snap := hx.Result{BadOp: res.BadOp, What: res.What, Outs: append([]string{}, res.Outs...), Tags: []string{"hang"}}
	i := len(snap.Outs)
	snap.Outs = append(snap.Outs, "hang")
	if snap.BadOp < 0 {
		snap.BadOp = i
		snap.What = fmt.Sprintf("%s did not return within %v", c.Ops[i], watchdog)
	}
	return snap
}

const watchdog = 5 * time.Second

func execCase(c hx.Case, res *hx.Result, mu *sync.Mutex) {
	comp := hx.HeaderGet(c.Header, "comp")
	n, _ := strconv.Atoi(hx.HeaderGet(c.Header, "n"))
	if n < 0 {
		n = 0
	}
	bad := func(i int, format string, a ...any) {
		if res.BadOp < 0 {
			res.BadOp = i
			res.What = fmt.Sprintf(format, a...)
		}
	}
	tags := map[string]bool{"comp=" + comp: true}
	u := newUF(comp, n)
	if u == nil {
		for range c.Ops {
			res.Outs = append(res.Outs, "bad-case")
		}
		return
	}
	var others []unionfind.UnionFind
	var otherNames []string
	for _, k := range comps {
		if k != comp {
			others = append(others, newUF(k, n))
			otherNames = append(otherNames, k)
		}
	}
	o := &oracle{n: n, adj: make([][]int, n)}
	merges := 0
	nontrivial := false

	atoi := func(s string) int { v, _ := strconv.Atoi(s); return v }

	for i, op := range c.Ops {
		f := strings.Fields(op)
		out := "bad-op"
		kind := hx.Try(func() {
			switch {
			case f[0] == "union" && len(f) == 3:
				p, q := atoi(f[1]), atoi(f[2])
				u.Union(p, q)
				for _, w := range others {
					w.Union(p, q)
				}
				out = "ok"
				if !o.valid(p) || !o.valid(q) {
					tags["union-invalid"] = true
					if merges > 0 {
						nontrivial = true
					}
				} else if p == q {
					tags["union-self"] = true
				} else {
					cp := o.class(p)
					if cp[q] {
						tags["union-redundant"] = true
						nontrivial = true
					} else {
						tags["union-merge"] = true
						merges++
						if size(cp) >= 2 && size(o.class(q)) >= 2 {
							tags["union-merge-two-trees"] = true
							nontrivial = true
						}
					}
				}
				o.add(p, q)
			case f[0] == "find" && len(f) == 2:
				p := atoi(f[1])
				r, ok := u.Find(p)
				out = fmt.Sprintf("ok %d %v", r, ok)
				if !o.valid(p) {
					tags["find-invalid"] = true
					if merges > 0 {
						nontrivial = true
					}
					if ok || r != -1 {
						bad(i, "find %d (out of range, n=%d) returned (%d,%v), want (-1,false)", p, n, r, ok)
					}
					break
				}
				if !ok || !o.valid(r) {
					bad(i, "find %d returned (%d,%v): not a valid representative", p, r, ok)
					break
				}
				cls := o.class(p)
				if !cls[r] {
					bad(i, "find %d returned %d, which no chain of unions links to %d", p, r, p)
				}
				// same representative iff connected, against every element
				for x := 0; x < n; x++ {
					rx, okx := u.Find(x)
					if !okx || (rx == r) != cls[x] {
						bad(i, "find %d = %d and find %d = (%d,%v), but reachable(%d,%d) = %v", p, r, x, rx, okx, p, x, cls[x])
						break
					}
				}
				for k, w := range others {
					if _, okw := w.Find(p); !okw {
						bad(i, "find %d: %s says not found, %s found %d", p, otherNames[k], comp, r)
					}
				}
			case f[0] == "connected" && len(f) == 3:
				p, q := atoi(f[1]), atoi(f[2])
				got := u.IsConnected(p, q)
				out = "ok " + strconv.FormatBool(got)
				if !o.valid(p) || !o.valid(q) {
					tags["connected-invalid"] = true
					if merges > 0 {
						nontrivial = true
					}
				}
				if want := o.connected(p, q); got != want {
					bad(i, "connected %d %d = %v, reachability over the union pairs says %v", p, q, got, want)
				}
				for k, w := range others {
					if g := w.IsConnected(p, q); g != got {
						bad(i, "connected %d %d: %s says %v, %s says %v", p, q, comp, got, otherNames[k], g)
					}
				}
			case f[0] == "count" && len(f) == 1:
				got := u.Count()
				out = "ok " + strconv.Itoa(got)
				if want := o.classes(); got != want {
					bad(i, "count = %d, the union pairs leave %d classes", got, want)
				}
				if got != n-merges {
					bad(i, "count = %d, want n - merges = %d - %d", got, n, merges)
				}
				for k, w := range others {
					if g := w.Count(); g != got {
						bad(i, "count: %s says %d, %s says %d", comp, got, otherNames[k], g)
					}
				}
			case f[0] == "dump" && len(f) == 1:
				out = "ok " + unionfind.VerifDump(u)
			}
		})
		mu.Lock()
		if kind != "" {
			res.Outs = append(res.Outs, "panic")
			bad(i, "%s panicked (%s)", op, kind)
			tags["panic"] = true
			mu.Unlock()
			break
		}
		res.Outs = append(res.Outs, out)
		mu.Unlock()
	}
	if merges > 0 {
		tags["merged"] = true
	}
	if n > 0 && merges == n-1 {
		tags["all-joined"] = true
	}
	mu.Lock()
	defer mu.Unlock()
	res.Nontrivial = nontrivial
	for t := range tags {
		res.Tags = append(res.Tags, t)
	}
}
