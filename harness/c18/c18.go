// Package c18: queue, stack and soft queue (list package) against an abstract sequence.
package c18

import (
	"fmt"
	"strconv"
	"strings"

	"github.com/moorara/algo/list"

	"verifharness/hx"
)

const Rule = "cases = (component, block size, op sequence) drawn from VERIF_SEED: block sizes 1-5 and 1024, " +
	"values from a small universe so Contains hits stale cells; phases of filling and draining so block " +
	"boundaries are crossed both ways; non-trivial = the history crossed a block boundary at least once in " +
	"each direction or drained to empty and refilled; distinct = distinct (header, op list)"

func eq(a, b int) bool { return a == b }

func optInt(v int, ok bool) string {
	if ok {
		return "ok some " + strconv.Itoa(v)
	}
	return "ok none"
}

// Exec runs one case on the real list package and on a slice oracle.
func Exec(c hx.Case) hx.Result {
	comp := hx.HeaderGet(c.Header, "comp")
	block, _ := strconv.Atoi(hx.HeaderGet(c.Header, "block"))
	if block < 1 {
		block = 1
	}
	res := hx.Result{BadOp: -1}
	bad := func(i int, format string, a ...any) {
		if res.BadOp < 0 {
			res.BadOp = i
			res.What = fmt.Sprintf(format, a...)
		}
	}
	tags := map[string]bool{}
	var model []int // the abstract sequence (queue: front first; stack: bottom first)
	emptied, refilled := false, false
	maxLen := 0

	switch comp {
	case "queue", "stack":
		var q list.Queue[int]
		var s list.Stack[int]
		if comp == "queue" {
			q = list.NewQueue[int](block, eq)
		} else {
			s = list.NewStack[int](block, eq)
		}
		for i, op := range c.Ops {
			f := strings.Fields(op)
			out := "bad-op"
			kind := hx.Try(func() {
				switch f[0] {
				case "enq", "push":
					v, _ := strconv.Atoi(f[1])
					if comp == "queue" {
						q.Enqueue(v)
					} else {
						s.Push(v)
					}
					if emptied && len(model) == 0 {
						refilled = true
					}
					model = append(model, v)
					if len(model) > maxLen {
						maxLen = len(model)
					}
					out = "ok"
				case "deq", "pop":
					var v int
					var ok bool
					if comp == "queue" {
						v, ok = q.Dequeue()
					} else {
						v, ok = s.Pop()
					}
					out = optInt(v, ok)
					if len(model) == 0 {
						if ok {
							bad(i, "%s on empty returned a value %d", f[0], v)
						}
					} else {
						var want int
						if comp == "queue" {
							want, model = model[0], model[1:]
						} else {
							want, model = model[len(model)-1], model[:len(model)-1]
						}
						if !ok || v != want {
							bad(i, "%s returned (%d,%v), abstract sequence gives %d", f[0], v, ok, want)
						}
						if len(model) == 0 {
							emptied = true
						}
					}
				case "peek":
					var v int
					var ok bool
					if comp == "queue" {
						v, ok = q.Peek()
					} else {
						v, ok = s.Peek()
					}
					out = optInt(v, ok)
					if len(model) == 0 {
						if ok {
							bad(i, "peek on empty returned %d", v)
						}
					} else {
						want := model[0]
						if comp == "stack" {
							want = model[len(model)-1]
						}
						if !ok || v != want {
							bad(i, "peek returned (%d,%v), want %d", v, ok, want)
						}
					}
				case "contains":
					v, _ := strconv.Atoi(f[1])
					var got bool
					if comp == "queue" {
						got = q.Contains(v)
					} else {
						got = s.Contains(v)
					}
					out = "ok " + strconv.FormatBool(got)
					want := false
					for _, x := range model {
						if x == v {
							want = true
						}
					}
					if got != want {
						bad(i, "contains %d = %v, abstract sequence says %v", v, got, want)
					}
				case "size":
					var n int
					if comp == "queue" {
						n = q.Size()
					} else {
						n = s.Size()
					}
					out = "ok " + strconv.Itoa(n)
					if n != len(model) {
						bad(i, "size = %d, want %d", n, len(model))
					}
				case "isempty":
					var e bool
					if comp == "queue" {
						e = q.IsEmpty()
					} else {
						e = s.IsEmpty()
					}
					out = "ok " + strconv.FormatBool(e)
					if e != (len(model) == 0) {
						bad(i, "isempty = %v with %d held", e, len(model))
					}
				}
			})
			if kind != "" {
				res.Outs = append(res.Outs, "panic")
				bad(i, "%s panicked (%s)", op, kind)
				tags["panic"] = true
				break
			}
			res.Outs = append(res.Outs, out)
		}
	case "soft":
		q := list.NewSoftQueue[int](eq)
		var all []int
		front := 0
		for i, op := range c.Ops {
			f := strings.Fields(op)
			out := "bad-op"
			kind := hx.Try(func() {
				switch f[0] {
				case "enq":
					v, _ := strconv.Atoi(f[1])
					idx := q.Enqueue(v)
					out = "ok " + strconv.Itoa(idx)
					if idx != len(all) {
						bad(i, "enqueue returned index %d, want %d", idx, len(all))
					}
					all = append(all, v)
				case "deq", "peek":
					var v, idx int
					if f[0] == "deq" {
						v, idx = q.Dequeue()
					} else {
						v, idx = q.Peek()
					}
					if idx >= 0 {
						out = fmt.Sprintf("ok some %d %d", v, idx)
					} else {
						out = "ok none -1"
					}
					if front >= len(all) {
						if idx != -1 {
							bad(i, "%s on empty returned index %d", f[0], idx)
						}
						emptied = true
					} else {
						if idx != front || v != all[front] {
							bad(i, "%s returned (%d,%d), want (%d,%d)", f[0], v, idx, all[front], front)
						}
						if f[0] == "deq" {
							front++
						}
					}
				case "contains":
					v, _ := strconv.Atoi(f[1])
					got := q.Contains(v)
					out = "ok " + strconv.Itoa(got)
					want := -1
					for j, x := range all {
						if x == v {
							want = j
							break
						}
					}
					if got != want {
						bad(i, "contains %d = %d, want %d", v, got, want)
					}
				case "size":
					n := q.Size()
					out = "ok " + strconv.Itoa(n)
					if n != len(all)-front {
						bad(i, "size = %d, want %d", n, len(all)-front)
					}
				case "isempty":
					e := q.IsEmpty()
					out = "ok " + strconv.FormatBool(e)
					if e != (front >= len(all)) {
						bad(i, "isempty = %v", e)
					}
				case "values":
					vs := q.Values()
					ss := make([]string, len(vs))
					for j, v := range vs {
						ss[j] = strconv.Itoa(v)
					}
					out = "ok [" + strings.Join(ss, " ") + "]"
					// The caller owns what Values() returns: scribbling on it (and appending to it) must not
					// reach the queue. An implementation that hands out its own backing array is exposed by
					// every later op of the case.
					defer func(vs []int) {
						for j := range vs {
							vs[j] = -99
						}
						_ = append(vs, -98, -97)
					}(vs)
					if len(vs) != len(all) {
						bad(i, "values has %d entries, want %d", len(vs), len(all))
					} else {
						for j := range vs {
							if vs[j] != all[j] {
								bad(i, "values[%d] = %d, want %d (positions must be stable)", j, vs[j], all[j])
							}
						}
					}
				}
			})
			if kind != "" {
				res.Outs = append(res.Outs, "panic")
				bad(i, "%s panicked (%s)", op, kind)
				break
			}
			res.Outs = append(res.Outs, out)
		}
		maxLen = len(all)
		refilled = emptied && front < len(all)
	}

	if maxLen > block {
		tags["crossed-block"] = true
	}
	if emptied {
		tags["drained"] = true
	}
	if refilled {
		tags["drained-and-refilled"] = true
	}
	tags["comp="+comp] = true
	res.Nontrivial = (maxLen > block && emptied) || refilled
	for t := range tags {
		res.Tags = append(res.Tags, t)
	}
	return res
}

func genOps(r *hx.Rand, comp string, n, universe int) []string {
	add, rem := "enq", "deq"
	if comp == "stack" {
		add, rem = "push", "pop"
	}
	var ops []string
	fill := true
	phase := r.Range(1, 12)
	for len(ops) < n {
		if phase == 0 {
			fill = !fill
			phase = r.Range(1, 12)
		}
		phase--
		x := r.Intn(100)
		switch {
		case x < 55:
			if fill == (r.Intn(10) < 8) {
				ops = append(ops, fmt.Sprintf("%s %d", add, r.Intn(universe)))
			} else {
				ops = append(ops, rem)
			}
		case x < 65:
			ops = append(ops, "peek")
		case x < 85:
			ops = append(ops, fmt.Sprintf("contains %d", r.Intn(universe+1)))
		case x < 92:
			ops = append(ops, "size")
		case x < 96:
			ops = append(ops, "isempty")
		default:
			if comp == "soft" {
				ops = append(ops, "values")
			} else {
				ops = append(ops, rem)
			}
		}
	}
	return ops
}

// exhaustive enumerates every op sequence of the given length over the alphabet.
func exhaustive(alpha []string, n int, f func([]string)) {
	idx := make([]int, n)
	for {
		ops := make([]string, n)
		for i, k := range idx {
			ops[i] = alpha[k]
		}
		f(ops)
		i := n - 1
		for i >= 0 {
			idx[i]++
			if idx[i] < len(alpha) {
				break
			}
			idx[i] = 0
			i--
		}
		if i < 0 {
			return
		}
	}
}

func Main(run *hx.Run) {
	run.Stats.Rule = Rule
	for _, f := range hx.CorpusFiles("C18") {
		cs, _ := hx.ReadReplay(f)
		for _, c := range cs {
			run.Do(hx.HeaderGet(c.Header, "comp"), c, Exec)
		}
	}
	blocks := []int{1, 2, 3, 4, 5, 1024}
	for _, comp := range []string{"queue", "stack", "soft"} {
		r := run.R.Fork(comp)
		n := run.Scale(300)
		for k := 0; k < n; k++ {
			b := hx.Pick(r, blocks)
			length := r.Range(5, 80)
			if b == 1024 && r.Chance(1, 4) {
				length = 2300
			}
			c := hx.Case{Header: fmt.Sprintf("comp=%s block=%d", comp, b), Ops: genOps(r, comp, length, 5)}
			run.Do(comp, c, Exec)
		}
	}
	if run.Thorough() {
		// every history of length ≤ 7 over {add 0, add 1, remove, contains 0, contains 1} for blocks 1..3
		for _, comp := range []string{"queue", "stack"} {
			add, rem := "enq", "deq"
			if comp == "stack" {
				add, rem = "push", "pop"
			}
			alpha := []string{add + " 0", add + " 1", rem, "contains 0", "contains 1"}
			for b := 1; b <= 3; b++ {
				for n := 1; n <= 7; n++ {
					exhaustive(alpha, n, func(ops []string) {
						run.Do(comp, hx.Case{Header: fmt.Sprintf("comp=%s block=%d", comp, b), Ops: append(ops, "size", "peek")}, Exec)
					})
				}
			}
		}
		run.Stats.Extra["exhaustive_part"] = "all histories of length<=7 over 5 ops, blocks 1..3, queue and stack"
	}
}
