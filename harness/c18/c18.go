// Package c18: queue, stack and soft queue (list package) against an abstract sequence.
package c18

import (
	"fmt"
	"slices"
	"strconv"
	"strings"
	"sync"
	"time"

	"github.com/moorara/algo/list"

	"verifharness/hx"
)

const Rule = "cases = (component, block size, op sequence) drawn from VERIF_SEED: block sizes 1-5 and 1024, " +
	"values from a small universe so Contains hits stale cells; phases of filling and draining so block " +
	"boundaries are crossed both ways; plus a threshold-sweep family run on every check (comp=queue|stack|soft, " +
	"fam=sweep): block sizes 1-5, 63-65, 255-257, 1023-1025, fills of distinct values (and of values repeating " +
	"with a period, and of 0/-1/MaxInt64/MinInt64) up to 64/256/1024 blocks and past 1024, 2048 and 65536 values " +
	"ever added, drained to empty exactly at / one before / one after a block boundary (and one removal past " +
	"empty) and refilled, with Size/Peek/IsEmpty/Contains (oldest, newest, just removed, not yet added, the values " +
	"at positions t-1, t, t+1 of every threshold and block boundary) and, for the soft queue, Values at every " +
	"threshold of size, of values ever added and of values removed; the same without Contains on structures created with a " +
	"nil equal function (header eq=nil; the library creates its own stacks and queues that way); every block size 1-200 with a little over " +
	"two blocks; block size 4096 (Huge(): also 4095, 4097, 8192 and, oracle only, 65536) with two and three blocks in use, emptied exactly at / " +
	"one before / one after a block end, then Contains of the first and last values added, Peek, Size before anything is added again (fam=bigblock); " +
	"element types other than int (header elem=string|struct|ptr|slice|sbox|any: string, a struct, a fresh pointer per value compared by pointee, " +
	"[]int with slices.Equal, a struct holding a slice, any holding int/string/[]int/such a struct by turns; each element is mapped to the integer " +
	"it stands for in the output, so the lines are those of the Model) on sweeps and random histories (fam=typed); the soft queue at 65537 values is judged by " +
	"the Go oracle only (the Model's append-to-a-List Enqueue is quadratic), counted as oracle_only_cases; " +
	"non-trivial = the history crossed a block boundary at least once in " +
	"each direction or drained to empty and refilled; distinct = distinct (header, op list)"

func eq(a, b int) bool { return a == b }

func optInt(v int, ok bool) string {
	if ok {
		return "ok some " + strconv.Itoa(v)
	}
	return "ok none"
}

// caseLimit is the watchdog for one case (the longest ones, 130 000 operations, take a few hundredths of a second).
const caseLimit = 30 * time.Second

type published struct {
	mu  sync.Mutex
	res hx.Result
}

// Exec runs one case under a watchdog: an operation of the implementation that does not return is reported as
// `hang` at that operation (the goroutine is left behind; hx.Run stops exploring after a hang).
func Exec(c hx.Case) hx.Result {
	pub := &published{res: hx.Result{BadOp: -1}}
	done := make(chan struct{})
	go func() {
		defer close(done)
		res := execCase(c, pub)
		pub.mu.Lock()
		pub.res = res
		pub.mu.Unlock()
	}()
	select {
	case <-done:
		return pub.res
	case <-time.After(caseLimit):
	}
	pub.mu.Lock()
	res := pub.res
	pub.mu.Unlock()
	res.Outs = append(append([]string{}, res.Outs...), "hang")
	if res.BadOp < 0 {
		res.BadOp = len(res.Outs) - 1
		op := "?"
		if res.BadOp < len(c.Ops) {
			op = c.Ops[res.BadOp]
		}
		res.What = fmt.Sprintf("%s did not return within %v", op, caseLimit)
	}
	res.Tags = append(append([]string{}, res.Tags...), "hang")
	return res
}

// execCase runs one case on the real list package and on a slice oracle; before every operation it publishes
// what it has so far.
func execCase(c hx.Case, pub *published) hx.Result {
	switch hx.HeaderGet(c.Header, "elem") {
	case "", "int":
		return runTyped(c, pub, codec[int]{enc: func(v int) int { return v }, dec: func(v int) int { return v }, eq: eq})
	case "string":
		return runTyped(c, pub, codec[string]{enc: strconv.Itoa, dec: func(t string) int { v, _ := strconv.Atoi(t); return v },
			eq: func(a, b string) bool { return a == b }})
	case "struct":
		return runTyped(c, pub, codec[rec]{enc: func(v int) rec { return rec{K: v, Name: "v" + strconv.Itoa(v)} }, dec: func(t rec) int { return t.K },
			eq: func(a, b rec) bool { return a.K == b.K }})
	case "ptr": // a new pointer for every value handed in: equal pointees, different pointers
		return runTyped(c, pub, codec[*int]{enc: func(v int) *int { p := new(int); *p = v; return p }, dec: func(t *int) int { return *t },
			eq: func(a, b *int) bool { return a == b || (a != nil && b != nil && *a == *b) }})
	case "slice": // not comparable with ==
		return runTyped(c, pub, codec[[]int]{enc: func(v int) []int { return []int{v, -v} }, dec: func(t []int) int { return t[0] }, eq: slices.Equal[[]int]})
	case "sbox": // a struct with a slice inside: not comparable either
		return runTyped(c, pub, codec[sbox]{enc: func(v int) sbox { return sbox{id: []int{v}, tag: "s"} }, dec: func(t sbox) int { return t.id[0] },
			eq: func(a, b sbox) bool { return slices.Equal(a.id, b.id) }})
	case "any": // dynamic types int, string, []int, sbox by the value's residue
		return runTyped(c, pub, codec[any]{enc: encAny, dec: func(t any) int { v, _ := decAny(t); return v },
			eq: func(a, b any) bool { x, okx := decAny(a); y, oky := decAny(b); return okx && oky && x == y }})
	}
	res := hx.Result{BadOp: -1}
	for range c.Ops {
		res.Outs = append(res.Outs, "bad-case")
	}
	return res
}

// codec: how the integers of the line protocol travel through a container of element type T (header elem=…);
// equal(enc(a), enc(b)) iff a == b, so the Model (generic, run on Int) gives the same output lines.
type codec[T any] struct {
	enc func(int) T
	dec func(T) int
	eq  func(a, b T) bool
}

type rec struct {
	K    int
	Name string
}

type sbox struct {
	id  []int
	tag string
}

func encAny(v int) any {
	switch ((v % 4) + 4) % 4 {
	case 0:
		return v
	case 1:
		return strconv.Itoa(v)
	case 2:
		return []int{v}
	}
	return sbox{id: []int{v}}
}

func decAny(t any) (int, bool) {
	switch x := t.(type) {
	case int:
		return x, true
	case string:
		v, err := strconv.Atoi(x)
		return v, err == nil
	case []int:
		if len(x) == 1 {
			return x[0], true
		}
	case sbox:
		if len(x.id) == 1 {
			return x.id[0], true
		}
	}
	return 0, false
}

func runTyped[T any](c hx.Case, pub *published, cd codec[T]) hx.Result {
	comp := hx.HeaderGet(c.Header, "comp")
	block, _ := strconv.Atoi(hx.HeaderGet(c.Header, "block"))
	if block < 1 {
		block = 1
	}
	res := hx.Result{BadOp: -1}
	bad := func(i int, format string, a ...any) {
		if res.BadOp < 0 {
			res.BadOp = i
			res.What = fmt.Sprintf(format, a...)
		}
	}
	publish := func() {
		pub.mu.Lock()
		pub.res = res
		pub.mu.Unlock()
	}
	tags := map[string]bool{}
	var model []int // the abstract sequence (queue: front first; stack: bottom first)
	emptied, refilled := false, false
	maxLen := 0
	ever := 0 // values ever added
	// eq=nil: no equal function (the library itself creates its stacks and queues that way where it never calls
	// Contains); such a case has no contains op
	eqf := cd.eq
	if el := hx.HeaderGet(c.Header, "elem"); el != "" {
		tags["elem="+el] = true
	}
	if hx.HeaderGet(c.Header, "eq") == "nil" {
		eqf = nil
		tags["equal=nil"] = true
	}

	switch comp {
	case "queue", "stack":
		var q list.Queue[T]
		var s list.Stack[T]
		if comp == "queue" {
			q = list.NewQueue[T](block, eqf)
		} else {
			s = list.NewStack[T](block, eqf)
		}
		decOK := func(t T, ok bool) (int, bool) {
			if !ok {
				return 0, false
			}
			return cd.dec(t), true
		}
		for i, op := range c.Ops {
			publish()
			f := strings.Fields(op)
			out := "bad-op"
			kind := hx.Try(func() {
				switch f[0] {
				case "enq", "push":
					v, _ := strconv.Atoi(f[1])
					if comp == "queue" {
						q.Enqueue(cd.enc(v))
					} else {
						s.Push(cd.enc(v))
					}
					if emptied && len(model) == 0 {
						refilled = true
					}
					model = append(model, v)
					ever++
					if len(model) > maxLen {
						maxLen = len(model)
					}
					out = "ok"
				case "deq", "pop":
					var v int
					var ok bool
					if comp == "queue" {
						v, ok = decOK(q.Dequeue())
					} else {
						v, ok = decOK(s.Pop())
					}
					out = optInt(v, ok)
					if len(model) == 0 {
						if ok {
							bad(i, "%s on empty returned a value %d", f[0], v)
						}
					} else {
						var want int
						if comp == "queue" {
							want, model = model[0], model[1:]
						} else {
							want, model = model[len(model)-1], model[:len(model)-1]
						}
						if !ok || v != want {
							bad(i, "%s returned (%d,%v), abstract sequence gives %d", f[0], v, ok, want)
						}
						if len(model) == 0 {
							emptied = true
						}
					}
				case "peek":
					var v int
					var ok bool
					if comp == "queue" {
						v, ok = decOK(q.Peek())
					} else {
						v, ok = decOK(s.Peek())
					}
					out = optInt(v, ok)
					if len(model) == 0 {
						if ok {
							bad(i, "peek on empty returned %d", v)
						}
					} else {
						want := model[0]
						if comp == "stack" {
							want = model[len(model)-1]
						}
						if !ok || v != want {
							bad(i, "peek returned (%d,%v), want %d", v, ok, want)
						}
					}
				case "contains":
					v, _ := strconv.Atoi(f[1])
					var got bool
					if comp == "queue" {
						got = q.Contains(cd.enc(v))
					} else {
						got = s.Contains(cd.enc(v))
					}
					out = "ok " + strconv.FormatBool(got)
					want := false
					for _, x := range model {
						if x == v {
							want = true
						}
					}
					if got != want {
						bad(i, "contains %d = %v, abstract sequence says %v", v, got, want)
					}
				case "size":
					var n int
					if comp == "queue" {
						n = q.Size()
					} else {
						n = s.Size()
					}
					out = "ok " + strconv.Itoa(n)
					if n != len(model) {
						bad(i, "size = %d, want %d", n, len(model))
					}
				case "isempty":
					var e bool
					if comp == "queue" {
						e = q.IsEmpty()
					} else {
						e = s.IsEmpty()
					}
					out = "ok " + strconv.FormatBool(e)
					if e != (len(model) == 0) {
						bad(i, "isempty = %v with %d held", e, len(model))
					}
				}
			})
			if kind != "" {
				res.Outs = append(res.Outs, "panic")
				bad(i, "%s panicked (%s)", op, kind)
				tags["panic"] = true
				break
			}
			res.Outs = append(res.Outs, out)
		}
	case "soft":
		q := list.NewSoftQueue[T](eqf)
		decIdx := func(t T, idx int) (int, int) {
			if idx < 0 {
				return 0, idx
			}
			return cd.dec(t), idx
		}
		var all []int
		front := 0
		for i, op := range c.Ops {
			publish()
			f := strings.Fields(op)
			out := "bad-op"
			kind := hx.Try(func() {
				switch f[0] {
				case "enq":
					v, _ := strconv.Atoi(f[1])
					idx := q.Enqueue(cd.enc(v))
					out = "ok " + strconv.Itoa(idx)
					if idx != len(all) {
						bad(i, "enqueue returned index %d, want %d", idx, len(all))
					}
					all = append(all, v)
				case "deq", "peek":
					var v, idx int
					if f[0] == "deq" {
						v, idx = decIdx(q.Dequeue())
					} else {
						v, idx = decIdx(q.Peek())
					}
					if idx >= 0 {
						out = fmt.Sprintf("ok some %d %d", v, idx)
					} else {
						out = "ok none -1"
					}
					if front >= len(all) {
						if idx != -1 {
							bad(i, "%s on empty returned index %d", f[0], idx)
						}
						emptied = true
					} else {
						if idx != front || v != all[front] {
							bad(i, "%s returned (%d,%d), want (%d,%d)", f[0], v, idx, all[front], front)
						}
						if f[0] == "deq" {
							front++
						}
					}
				case "contains":
					v, _ := strconv.Atoi(f[1])
					got := q.Contains(cd.enc(v))
					out = "ok " + strconv.Itoa(got)
					want := -1
					for j, x := range all {
						if x == v {
							want = j
							break
						}
					}
					if got != want {
						bad(i, "contains %d = %d, want %d", v, got, want)
					}
				case "size":
					n := q.Size()
					out = "ok " + strconv.Itoa(n)
					if n != len(all)-front {
						bad(i, "size = %d, want %d", n, len(all)-front)
					}
				case "isempty":
					e := q.IsEmpty()
					out = "ok " + strconv.FormatBool(e)
					if e != (front >= len(all)) {
						bad(i, "isempty = %v", e)
					}
				case "values":
					tvs := q.Values()
					vs := make([]int, len(tvs))
					ss := make([]string, len(tvs))
					for j, t := range tvs {
						vs[j] = cd.dec(t)
						ss[j] = strconv.Itoa(vs[j])
					}
					out = "ok [" + strings.Join(ss, " ") + "]"
					// The caller owns what Values() returns: scribbling on it (and appending to it) must not
					// reach the queue. An implementation that hands out its own backing array is exposed by
					// every later op of the case.
					defer func(tvs []T) {
						for j := range tvs {
							tvs[j] = cd.enc(-99)
						}
						_ = append(tvs, cd.enc(-98), cd.enc(-97))
					}(tvs)
					if len(vs) != len(all) {
						bad(i, "values has %d entries, want %d", len(vs), len(all))
					} else {
						for j := range vs {
							if vs[j] != all[j] {
								bad(i, "values[%d] = %d, want %d (positions must be stable)", j, vs[j], all[j])
							}
						}
					}
				}
			})
			if kind != "" {
				res.Outs = append(res.Outs, "panic")
				bad(i, "%s panicked (%s)", op, kind)
				break
			}
			res.Outs = append(res.Outs, out)
		}
		maxLen = len(all)
		ever = len(all)
		refilled = emptied && front < len(all)
	}

	if maxLen > block {
		tags["crossed-block"] = true
	}
	for _, t := range []int{64, 256, 1024, 2048, 65536} {
		if ever > t {
			tags["values-ever-added>"+strconv.Itoa(t)] = true
		}
		if comp != "soft" && maxLen > t*block {
			tags["blocks>"+strconv.Itoa(t)] = true
		}
	}
	if comp != "soft" && block >= 63 && block != 1024 {
		tags["block-size-63..1025"] = true
	}
	if fam := hx.HeaderGet(c.Header, "fam"); fam != "" {
		tags["fam="+fam] = true
	}
	if emptied {
		tags["drained"] = true
	}
	if refilled {
		tags["drained-and-refilled"] = true
	}
	tags["comp="+comp] = true
	res.Nontrivial = (maxLen > block && emptied) || refilled
	for t := range tags {
		res.Tags = append(res.Tags, t)
	}
	return res
}

func genOps(r *hx.Rand, comp string, n, universe int) []string {
	add, rem := "enq", "deq"
	if comp == "stack" {
		add, rem = "push", "pop"
	}
	var ops []string
	fill := true
	phase := r.Range(1, 12)
	for len(ops) < n {
		if phase == 0 {
			fill = !fill
			phase = r.Range(1, 12)
		}
		phase--
		x := r.Intn(100)
		switch {
		case x < 55:
			if fill == (r.Intn(10) < 8) {
				ops = append(ops, fmt.Sprintf("%s %d", add, r.Intn(universe)))
			} else {
				ops = append(ops, rem)
			}
		case x < 65:
			ops = append(ops, "peek")
		case x < 85:
			ops = append(ops, fmt.Sprintf("contains %d", r.Intn(universe+1)))
		case x < 92:
			ops = append(ops, "size")
		case x < 96:
			ops = append(ops, "isempty")
		default:
			if comp == "soft" {
				ops = append(ops, "values")
			} else {
				ops = append(ops, rem)
			}
		}
	}
	return ops
}

// ---------------------------------------------------------------- threshold sweeps (size dimensions)

// thresholds are the sizes programmers pick for masks, counters and blocks.
var thresholds = []int{1, 2, 64, 256, 1024, 2048, 65536}

func near(m map[int]bool, x int) {
	for d := -1; d <= 1; d++ {
		if x+d >= 0 {
			m[x+d] = true
		}
	}
}

// sweep builds one long history. It keeps an abstract sequence of its own, only to choose what to probe
// (the verdicts are the oracle's in Exec).
type sweep struct {
	comp  string
	block int             // 0 for the soft queue
	val   func(i int) int // the i-th value ever added
	ops   []string
	live  []int // values held, oldest first
	ever  int   // values ever added
	gone  int   // removals that returned a value
	last  []int // the values removed last (at most 2)
	marks map[int]bool
	heavy map[int]bool // soft queue: where Values() is printed too
}

func newSweep(comp string, block int, val func(int) int) *sweep {
	s := &sweep{comp: comp, block: block, val: val, marks: map[int]bool{0: true}, heavy: map[int]bool{}}
	for _, t := range thresholds {
		near(s.marks, t)
		if b := block; b > 0 {
			near(s.marks, t*b)   // t blocks
			near(s.marks, t/b*b) // the block boundaries next to t values
			near(s.marks, (t+b-1)/b*b)
		}
		if t >= 1024 {
			near(s.heavy, t)
		}
	}
	return s
}

func (s *sweep) emit(format string, a ...any) { s.ops = append(s.ops, fmt.Sprintf(format, a...)) }

func (s *sweep) add() {
	v := s.val(s.ever)
	s.ever++
	s.live = append(s.live, v)
	if s.comp == "stack" {
		s.emit("push %d", v)
	} else {
		s.emit("enq %d", v)
	}
	if s.marks[len(s.live)] || s.marks[s.ever] {
		s.probe(s.heavy[s.ever])
	}
}

func (s *sweep) rem() {
	if s.comp == "stack" {
		s.emit("pop")
	} else {
		s.emit("deq")
	}
	if len(s.live) == 0 {
		return
	}
	var v int
	if s.comp == "stack" {
		v, s.live = s.live[len(s.live)-1], s.live[:len(s.live)-1]
	} else {
		v, s.live = s.live[0], s.live[1:]
	}
	s.gone++
	s.last = append(s.last, v)
	if len(s.last) > 2 {
		s.last = s.last[1:]
	}
	if s.marks[len(s.live)] || s.marks[s.gone] {
		s.probe(s.heavy[s.gone])
	}
}

// probe: the full battery of queries at this point of the history.
func (s *sweep) probe(values bool) {
	s.emit("size")
	s.emit("isempty")
	s.emit("peek")
	var cands []int
	seen := map[int]bool{}
	cand := func(v int) {
		if !seen[v] {
			seen[v] = true
			cands = append(cands, v)
		}
	}
	at := func(p int) { // the value at position p of what is held
		if 0 <= p && p < len(s.live) {
			cand(s.live[p])
		}
	}
	n := len(s.live)
	at(0)
	at(1)
	at(n - 1)
	at(n - 2)
	at(n / 2)
	for _, v := range s.last {
		cand(v)
	}
	cand(s.val(s.ever)) // not added yet
	if b := s.block; b > 0 {
		// the cells on both sides of the first and the last block boundary inside what is held
		at(b - 1)
		at(b)
		at(n - b - 1)
		at(n - b)
		// values added long ago (removed or not): the first ones, the ones a block back from the newest
		for _, j := range []int{0, 1, b - 1, b, s.ever - b - 1, s.ever - b, s.ever - 1} {
			if 0 <= j && j < s.ever {
				cand(s.val(j))
			}
		}
	} else {
		// soft queue: positions count from the first value ever added
		for _, t := range thresholds {
			for d := -1; d <= 1; d++ {
				if j := t + d; j >= 0 && j <= s.ever {
					cand(s.val(j))
				}
			}
		}
		cand(s.val(0))
	}
	for _, v := range cands {
		s.emit("contains %d", v)
	}
	if values && s.comp == "soft" {
		s.emit("values")
	}
}

// history: fill n, drain all but `leave` (leave = 0: one more removal on the empty structure), refill past one
// block, drain half of that, add one, drain everything and remove once more.
func (s *sweep) history(n, leave int) hx.Case {
	for i := 0; i < n; i++ {
		s.add()
	}
	s.probe(true)
	for len(s.live) > leave {
		s.rem()
	}
	if leave == 0 {
		s.rem()
	}
	s.probe(true)
	m := s.block + 2
	if s.block == 0 || m > 70 {
		m = 7
	}
	for i := 0; i < m; i++ {
		s.add()
	}
	s.probe(false)
	for i := 0; i < (m+1)/2; i++ {
		s.rem()
	}
	s.probe(false)
	s.add()
	for len(s.live) > 0 {
		s.rem()
	}
	s.rem()
	s.probe(true)
	hdr := fmt.Sprintf("comp=%s block=%d fam=sweep", s.comp, s.block)
	if s.comp == "soft" {
		hdr = "comp=soft fam=sweep"
	}
	return hx.Case{Header: hdr, Ops: s.ops}
}

// withoutContains: the same history for a structure created with a nil equal function.
func withoutContains(c hx.Case) hx.Case {
	var ops []string
	for _, op := range c.Ops {
		if !strings.HasPrefix(op, "contains") {
			ops = append(ops, op)
		}
	}
	return hx.Case{Header: c.Header + " eq=nil", Ops: ops}
}

var elemTypes = []string{"string", "struct", "ptr", "slice", "sbox", "any"}

func distinct(i int) int { return i } // the first value is 0, Go's zero value of int: unused cells hold it too

func periodic(p int) func(int) int { return func(i int) int { return i % p } }

var extremeVals = []int{0, -1, 1<<63 - 1, -1 << 63, 1}

func extremes(i int) int { return extremeVals[(i*i+i/3)%len(extremeVals)] }

// sweeps: the threshold family. Everything here is deterministic (no draw from the PRNG): it runs on every check.
func sweeps(run *hx.Run) {
	type cfg struct{ block, blocks int }
	// block size x number of blocks filled: 64 / 256 blocks for the small sizes, past 1024 and 2048 values for the
	// large ones
	cfgs := []cfg{{1, 257}, {2, 257}, {3, 257}, {4, 257}, {5, 257},
		{63, 17}, {64, 17}, {65, 17}, {255, 5}, {256, 5}, {257, 5}, {1023, 3}, {1024, 3}, {1025, 3},
		{1, 2049}, {2, 1025}, {5, 411}} // the small block sizes past 2048 values (1024 blocks of 2)
	if run.Thorough() {
		cfgs = append(cfgs, cfg{1, 1025}, cfg{2, 1025}, cfg{3, 1025}, cfg{5, 1025}, cfg{63, 66}, cfg{64, 65}, cfg{65, 258},
			cfg{255, 9}, cfg{256, 17}, cfg{257, 9}, cfg{1023, 5}, cfg{1025, 5})
	}
	for _, comp := range []string{"queue", "stack"} {
		for _, c := range cfgs {
			n := c.block * c.blocks
			// empty exactly at a block boundary; one value before it; one value after it, leaving one behind
			run.Do(comp, newSweep(comp, c.block, distinct).history(n, 0), Exec)
			run.Do(comp, newSweep(comp, c.block, distinct).history(n-1, 0), Exec)
			run.Do(comp, newSweep(comp, c.block, distinct).history(n+1, 1), Exec)
			if run.Thorough() {
				run.Do(comp, newSweep(comp, c.block, distinct).history(n+1, 0), Exec)
				run.Do(comp, newSweep(comp, c.block, distinct).history(n, 1), Exec)
				run.Do(comp, newSweep(comp, c.block, periodic(c.block+1)).history(n, 0), Exec)
			}
		}
		// values that repeat with a period just above the block size, and extreme magnitudes
		for _, b := range []int{1, 2, 3, 5, 64, 1024} {
			run.Do(comp, newSweep(comp, b, periodic(b+1)).history(2*b+67, 0), Exec)
			run.Do(comp, newSweep(comp, b, extremes).history(3*b+1, 1), Exec)
		}
		// past 65536 values: the library's own block size (64 blocks), and 1024 blocks of 64
		run.Do(comp, newSweep(comp, 1024, distinct).history(65*1024, 0), Exec)
		run.Do(comp, newSweep(comp, 64, distinct).history(1025*64+1, 1), Exec)
		if run.Thorough() {
			run.Do(comp, newSweep(comp, 1024, periodic(1025)).history(65*1024+1, 0), Exec)
			run.Do(comp, newSweep(comp, 256, distinct).history(257*256, 0), Exec)
			run.Do(comp, newSweep(comp, 65, distinct).history(70000, 1), Exec)
		}
	}
	// every block size from 1 to 200 (thresholds that are not powers of two): a little more than two blocks, emptied
	// exactly at the block end (even sizes) or one value later
	for _, comp := range []string{"queue", "stack"} {
		for b := 1; b <= 200; b++ {
			if b%2 == 0 {
				run.Do(comp, newSweep(comp, b, distinct).history(2*b, 0), Exec)
			} else {
				run.Do(comp, newSweep(comp, b, distinct).history(2*b+1, 1), Exec)
			}
		}
	}
	// large blocks, two and three of them in use, emptied exactly at / one before / one after a block end, then
	// Contains (of the values added first and last), Peek and Size before anything is added again
	type bigCfg struct {
		block   int
		noModel bool
	}
	bigs := []bigCfg{{4096, false}}
	if run.Huge() {
		bigs = append(bigs, bigCfg{4095, false}, bigCfg{4097, false}, bigCfg{8192, false}, bigCfg{65536, true})
	}
	for _, comp := range []string{"queue", "stack"} {
		for _, bg := range bigs {
			for _, k := range []int{2, 3} {
				if bg.block == 65536 && k == 3 {
					continue
				}
				for _, d := range []int{0, -1, 1} {
					// one before / one after the block end: at 4096 both, at 4095 only after, at 4097 only before
					if d != 0 && (k == 3 || bg.block > 4097 || (bg.block == 4095 && d < 0) || (bg.block == 4097 && d > 0)) {
						continue
					}
					if k == 3 && bg.block != 4096 {
						continue
					}
					c := newSweep(comp, bg.block, distinct).history(k*bg.block+d, 0)
					c.Header = strings.Replace(c.Header, "fam=sweep", "fam=bigblock", 1)
					c.NoModel = bg.noModel
					run.Do(comp, c, Exec)
				}
			}
		}
	}
	// element types other than int (header elem=…): string, a struct, a pointer (a new one per value), []int and a
	// struct holding a slice (not comparable with ==), any holding int / string / []int / such a struct by turns
	for _, el := range elemTypes {
		for _, comp := range []string{"queue", "stack", "soft"} {
			b := 3
			if comp == "soft" {
				b = 0
			}
			for k, c := range []hx.Case{newSweep(comp, b, distinct).history(17, 0), newSweep(comp, b, periodic(4)).history(23, 1),
				newSweep(comp, b, extremes).history(9, 1)} {
				if k == 2 && el == "string" { // as good as any
					continue
				}
				c.Header = strings.Replace(c.Header, "fam=sweep", "fam=typed elem="+el, 1)
				run.Do(comp, c, Exec)
			}
		}
	}
	// no equal function, no Contains
	for _, comp := range []string{"queue", "stack", "soft"} {
		for _, b := range []int{1, 3, 64, 1024} {
			if comp == "soft" && b != 1 {
				continue
			}
			c := newSweep(comp, b, distinct).history(2*b+67, 0)
			if comp == "soft" {
				c = newSweep(comp, 0, distinct).history(1030, 0)
			}
			run.Do(comp, withoutContains(c), Exec)
		}
	}
	// the soft queue has no block size: values ever added / values removed / size
	for _, n := range []int{1023, 1024, 1025, 2049} {
		run.Do("soft", newSweep("soft", 0, distinct).history(n, 0), Exec)
	}
	run.Do("soft", newSweep("soft", 0, periodic(1030)).history(2100, 1), Exec)
	run.Do("soft", newSweep("soft", 0, extremes).history(70, 0), Exec)
	if run.Thorough() {
		run.Do("soft", newSweep("soft", 0, distinct).history(4100, 1), Exec)
		run.Do("soft", newSweep("soft", 0, periodic(1024)).history(3100, 0), Exec)
	}
	// 65537 values: the Model's Enqueue appends to a List (quadratic): judged by the oracle only
	big := newSweep("soft", 0, distinct).history(65537, 0)
	big.NoModel = true
	run.Do("soft", big, Exec)
	if run.Thorough() {
		big = newSweep("soft", 0, periodic(65000)).history(70001, 1)
		big.NoModel = true
		run.Do("soft", big, Exec)
	}
}

// exhaustive enumerates every op sequence of the given length over the alphabet.
func exhaustive(alpha []string, n int, f func([]string)) {
	idx := make([]int, n)
	for {
		ops := make([]string, n)
		for i, k := range idx {
			ops[i] = alpha[k]
		}
		f(ops)
		i := n - 1
		for i >= 0 {
			idx[i]++
			if idx[i] < len(alpha) {
				break
			}
			idx[i] = 0
			i--
		}
		if i < 0 {
			return
		}
	}
}

func Main(run *hx.Run) {
	run.Stats.Rule = Rule
	for _, f := range hx.CorpusFiles("C18") {
		cs, _ := hx.ReadReplay(f)
		for _, c := range cs {
			run.Do(hx.HeaderGet(c.Header, "comp"), c, Exec)
		}
	}
	blocks := []int{1, 2, 3, 4, 5, 1024}
	for _, comp := range []string{"queue", "stack", "soft"} {
		r := run.R.Fork(comp)
		n := run.Scale(300)
		for k := 0; k < n; k++ {
			b := hx.Pick(r, blocks)
			length := r.Range(5, 80)
			if b == 1024 && r.Chance(1, 4) {
				length = 2300
			}
			c := hx.Case{Header: fmt.Sprintf("comp=%s block=%d", comp, b), Ops: genOps(r, comp, length, 5)}
			run.Do(comp, c, Exec)
		}
	}
	// random histories over the other element types
	rt := run.R.Fork("typed")
	for k, n := 0, run.Scale(120); k < n; k++ {
		comp := hx.Pick(rt, []string{"queue", "stack", "soft"})
		c := hx.Case{Header: fmt.Sprintf("comp=%s block=%d fam=typed elem=%s", comp, hx.Pick(rt, []int{1, 2, 3, 5}), hx.Pick(rt, elemTypes)),
			Ops: genOps(rt, comp, rt.Range(5, 60), 5)}
		run.Do(comp, c, Exec)
	}
	// the threshold family comes after the short random histories: a change that breaks everyday behaviour is then
	// reported (and shrunk) on a short history, and the long ones only speak up for what needs their size
	sweeps(run)
	if run.Thorough() {
		// every history of length ≤ 7 over {add 0, add 1, remove, contains 0, contains 1} for blocks 1..3
		for _, comp := range []string{"queue", "stack"} {
			add, rem := "enq", "deq"
			if comp == "stack" {
				add, rem = "push", "pop"
			}
			alpha := []string{add + " 0", add + " 1", rem, "contains 0", "contains 1"}
			for b := 1; b <= 3; b++ {
				for n := 1; n <= 7; n++ {
					exhaustive(alpha, n, func(ops []string) {
						run.Do(comp, hx.Case{Header: fmt.Sprintf("comp=%s block=%d", comp, b), Ops: append(ops, "size", "peek")}, Exec)
					})
				}
			}
		}
		run.Stats.Extra["exhaustive_part"] = "all histories of length<=7 over 5 ops, blocks 1..3, queue and stack"
	}
}
