package c05

// Huge cases (run.Huge(): thorough tier, witness search, or a budget enlarged because modelled code changed): heaps
// of 2^18 and 5*10^6 entries, where fixed-size tables "large enough for any heap" stop being large enough.  They
// are judged by the oracle alone (NoModel) and the oracle is made for this size: the bulk of the entries is a
// permutation of the keys 0..n-1 (index i holds key (a*i+c) mod n, value letters[key mod 5]), so the extremal held
// bulk key is found by a pointer that only moves forward; the few entries inserted or re-keyed individually live
// in a small map.
//
//	header  comp=... cap=<cap> ord=min|max huge=1
//	bulk n a c       Insert(i, (a*i+c) mod n, letter) for i = 0..n-1 (gcd(a, n) = 1); prints the number accepted
//	deln m           m times Delete, each checked; prints the number of entries delivered and the last (index, key)
//	insert / delete / peek / deleteindex / peekindex / containsindex / changekey / size / isempty as usual

import (
	"fmt"
	"strconv"
	"strings"

	"github.com/moorara/algo/heap"

	"verifharness/hx"
)

func execHuge(c hx.Case) (res hx.Result) {
	comp := hx.HeaderGet(c.Header, "comp")
	cap := atoi(hx.HeaderGet(c.Header, "cap"))
	ord := hx.HeaderGet(c.Header, "ord")
	cmp := cmpFor(ord)
	res = hx.Result{BadOp: -1, Tags: []string{"comp=" + comp, "huge", "ord=" + ord}}
	bad := func(i int, format string, a ...any) {
		if res.BadOp < 0 {
			res.BadOp = i
			res.What = fmt.Sprintf(format, a...)
		}
	}
	var h heap.IndexedHeap[int, string]
	if kind := hx.Try(func() { h = newHeap(comp, cap, cmp) }); kind != "" || h == nil {
		res.Outs = append(res.Outs, "panic")
		bad(0, "the constructor of %s with capacity %d panicked (%s)", comp, cap, kind)
		return res
	}
	// the bulk
	n, a, c0 := 0, 1, 0
	var heldKey []bool  // by key
	var idxOfKey []int32 // key -> index
	keyOf := func(i int) int { return int((int64(a)*int64(i) + int64(c0)) % int64(n)) }
	lo, hi := 0, -1 // smallest / largest bulk key that may still be held
	overlay := map[int]kv{}
	size := 0
	inBulk := func(i int) bool { return i >= 0 && i < n && heldKey[keyOf(i)] }
	entry := func(i int) (kv, bool) {
		if e, ok := overlay[i]; ok {
			return e, true
		}
		if inBulk(i) {
			k := keyOf(i)
			return kv{k: k, v: letters[k%5]}, true
		}
		return kv{}, false
	}
	// an extremal held key (ok = false: the heap is empty)
	extKey := func() (int, bool) {
		best, ok := 0, false
		for lo <= hi && !heldKey[lo] {
			lo++
		}
		for hi >= lo && !heldKey[hi] {
			hi--
		}
		if lo <= hi {
			best, ok = lo, true
			if cmp(hi, lo) < 0 {
				best = hi
			}
		}
		for _, e := range overlay {
			if !ok || cmp(e.k, best) < 0 {
				best, ok = e.k, true
			}
		}
		return best, ok
	}
	remove := func(i int) {
		if _, ok := overlay[i]; ok {
			delete(overlay, i)
		} else {
			heldKey[keyOf(i)] = false
		}
		size--
	}
	// one Delete or Peek, checked
	top := func(i int, what string, del bool) (string, int, int, bool) {
		var idx, k int
		var v string
		var ok bool
		if del {
			idx, k, v, ok = h.Delete()
		} else {
			idx, k, v, ok = h.Peek()
		}
		want, any := extKey()
		if !any {
			if ok {
				bad(i, "%s on empty returned index %d", what, idx)
			}
			return "ok none", idx, k, false
		}
		e, held := entry(idx)
		switch {
		case !ok:
			bad(i, "%s returned false with %d entries held", what, size)
		case !held:
			bad(i, "%s returned index %d which is not held", what, idx)
		case e.k != k || e.v != v:
			bad(i, "%s returned (%d,%d,%s) but index %d holds (%d,%s)", what, idx, k, v, idx, e.k, e.v)
		case cmp(k, want) > 0:
			bad(i, "%s returned key %d which is not extremal (key %d is held)", what, k, want)
		}
		if ok && held && del {
			remove(idx)
		}
		return fmt.Sprintf("ok some %d %d %s", idx, k, v), idx, k, ok
	}

	for i, op := range c.Ops {
		f := strings.Fields(op)
		out := "bad-op"
		kind := hx.Try(func() {
			switch {
			case f[0] == "bulk" && len(f) == 4 && n == 0:
				n, a, c0 = atoi(f[1]), atoi(f[2]), atoi(f[3])
				heldKey = make([]bool, n)
				idxOfKey = make([]int32, n)
				acc := 0
				for j := 0; j < n; j++ {
					k := keyOf(j)
					got := h.Insert(j, k, letters[k%5])
					want := j < cap && !heldKey[k]
					if got != want {
						bad(i, "Insert(%d) = %v, want %v", j, got, want)
						break
					}
					if got {
						heldKey[k] = true
						idxOfKey[k] = int32(j)
						acc++
					}
				}
				size += acc
				lo, hi = 0, n-1
				out = "ok " + strconv.Itoa(acc)
			case f[0] == "deln" && len(f) == 2:
				m, cnt, li, lk := atoi(f[1]), 0, -1, 0
				for j := 0; j < m && res.BadOp < 0; j++ {
					_, idx, k, ok := top(i, "Delete", true)
					if !ok {
						break
					}
					cnt, li, lk = cnt+1, idx, k
				}
				out = fmt.Sprintf("ok %d %d %d", cnt, li, lk)
			case f[0] == "delete" && len(f) == 1:
				out, _, _, _ = top(i, "Delete", true)
			case f[0] == "peek" && len(f) == 1:
				out, _, _, _ = top(i, "Peek", false)
			case f[0] == "insert" && len(f) == 4:
				idx, k, v := atoi(f[1]), atoi(f[2]), f[3]
				got := h.Insert(idx, k, v)
				_, held := entry(idx)
				want := 0 <= idx && idx < cap && !held
				if got != want {
					bad(i, "Insert(%d) = %v, want %v (in range and free)", idx, got, want)
				}
				if want {
					overlay[idx] = kv{k: k, v: v}
					size++
				}
				out = "ok " + strconv.FormatBool(got)
			case f[0] == "changekey" && len(f) == 3:
				idx, k := atoi(f[1]), atoi(f[2])
				e, held := entry(idx)
				got := h.ChangeKey(idx, k)
				if got != held {
					bad(i, "ChangeKey(%d) = %v, index held = %v", idx, got, held)
				}
				if held {
					if _, ok := overlay[idx]; !ok {
						heldKey[keyOf(idx)] = false
					}
					overlay[idx] = kv{k: k, v: e.v}
				}
				out = "ok " + strconv.FormatBool(got)
			case (f[0] == "deleteindex" || f[0] == "peekindex") && len(f) == 2:
				idx := atoi(f[1])
				e, held := entry(idx)
				var k int
				var v string
				var ok bool
				if f[0] == "deleteindex" {
					k, v, ok = h.DeleteIndex(idx)
				} else {
					k, v, ok = h.PeekIndex(idx)
				}
				if ok != held {
					bad(i, "%s(%d) ok=%v, index held = %v", f[0], idx, ok, held)
				} else if held && (e.k != k || e.v != v) {
					bad(i, "%s(%d) returned (%d,%s), held (%d,%s)", f[0], idx, k, v, e.k, e.v)
				}
				if held && f[0] == "deleteindex" {
					remove(idx)
				}
				out = "ok none"
				if ok {
					out = fmt.Sprintf("ok some %d %s", k, v)
				}
			case f[0] == "containsindex" && len(f) == 2:
				idx := atoi(f[1])
				got := h.ContainsIndex(idx)
				if _, held := entry(idx); got != held {
					bad(i, "ContainsIndex(%d) = %v, index held = %v", idx, got, held)
				}
				out = "ok " + strconv.FormatBool(got)
			case f[0] == "size" && len(f) == 1:
				got := h.Size()
				if got != size {
					bad(i, "Size = %d, %d entries held", got, size)
				}
				out = "ok " + strconv.Itoa(got)
			case f[0] == "isempty" && len(f) == 1:
				got := h.IsEmpty()
				if got != (size == 0) {
					bad(i, "IsEmpty = %v with %d entries held", got, size)
				}
				out = "ok " + strconv.FormatBool(got)
			}
		})
		if kind != "" {
			res.Outs = append(res.Outs, "panic")
			bad(i, "%s panicked (%s) with %d entries held", op, kind, size)
			res.Tags = append(res.Tags, "panic")
			break
		}
		// the Model does not run cases of this size: its driver answers "ok" to every line of a huge case, and so
		// does this executor (what was returned is in the oracle's message when it objects) - a replay of a huge
		// case therefore compares equal unless an operation panics
		if out != "bad-op" {
			if res.BadOp == i {
				res.What += "; returned: " + out
			}
			out = "ok"
		}
		res.Outs = append(res.Outs, out)
	}
	res.Nontrivial = n >= 3
	for _, t := range []int{65536, 262143, 4870848} {
		if n >= t {
			res.Tags = append(res.Tags, "held>="+strconv.Itoa(t))
		}
	}
	return res
}

// coprime stride near 0.5647*n (so that consecutive indices are far apart in key order)
func strideFor(n int) int {
	gcd := func(a, b int) int {
		for b != 0 {
			a, b = b, a%b
		}
		return a
	}
	a := n/2 + n/16 + 1
	for gcd(a, n) != 1 {
		a++
	}
	return a
}

// genHuge: a bulk of n entries (pattern: "asc" key = index, "desc" key = n-1-index, "perm" a stride permutation), then
// what moves the extremum around: Delete, Peek, DeleteIndex of the extremum and of early indices, three new extremal
// entries inserted worst first, a key change of the extremum away from the front, and a run of checked Deletes.
func genHuge(n, spare int, pattern string, neg bool) []string {
	a, c := 1, 0
	switch pattern {
	case "desc":
		a, c = n-1, n-1
	case "perm":
		a, c = strideFor(n), 12345%n
	}
	inv := func(k int) int { // the index that holds bulk key k: brute force over a small window is not possible; solve a*i+c = k (mod n)
		// extended Euclid
		g, x := n, 0
		r, y := a%n, 1
		for r != 0 {
			q := g / r
			g, r = r, g-q*r
			x, y = y, x-q*y
		}
		x = ((x % n) + n) % n // a^-1 mod n
		return int((int64(x) * int64(((k-c)%n+n)%n)) % int64(n))
	}
	far := func(k int) int { // keys beyond the bulk, more extremal the larger k
		if neg {
			return n + 10 + k
		}
		return -10 - k
	}
	first, step := 0, 1 // bulk keys in extremal order
	if neg {
		first, step = n-1, -1
	}
	ops := []string{fmt.Sprintf("bulk %d %d %d", n, a, c), "size", "peek"}
	ops = append(ops, "delete", "peek", "size") // first consolidation of everything
	ops = append(ops, fmt.Sprintf("deleteindex %d", inv(first+step)), "peek")
	ops = append(ops, fmt.Sprintf("changekey %d %d", inv(first+2*step), far(-40)), "peek") // away from the front (keys far(-40) are inside / behind the bulk: behind for neg=false means larger)
	for j := 0; j < 3 && j < spare; j++ {
		ops = append(ops, fmt.Sprintf("insert %d %d %s", n+j, far(3-j), letters[j]))
	}
	ops = append(ops, "peek", "delete", "peek", "delete", "peek", "delete", "peek")
	for _, i := range []int{0, 1, 5, 1000 % n, n / 3, n - 1} {
		ops = append(ops, fmt.Sprintf("deleteindex %d", i), "peek", fmt.Sprintf("containsindex %d", i))
	}
	ops = append(ops, "deln 300", "peek", "size")
	ops = append(ops, fmt.Sprintf("insert %d %d %s", 0, far(1), "b"), "peek", "delete", "peek", "deln 40", "size")
	return ops
}

func hugeFamilies(run *hx.Run) {
	if !run.Huge() {
		return
	}
	type hc struct {
		comp    string
		n       int
		pattern string
		neg     bool
	}
	var cases []hc
	for _, comp := range []string{"ibinomial", "ifibonacci", "ibinary"} {
		// 2^18-1 entries: trees of every order 0..17; 2^17+2^16: two large trees; 2^18 and 2^18+1 next to it
		for k, n := range []int{262143, 196608, 262144, 262145, 131071} {
			cases = append(cases, hc{comp, n, []string{"asc", "perm", "desc"}[k%3], k%2 == 1})
		}
	}
	// 5*10^6 entries: floor(log_phi n)+1 passes 32 at n = 4870847
	cases = append(cases, hc{"ifibonacci", 4870848 + 152, "perm", false}, hc{"ifibonacci", 5000000, "asc", true},
		hc{"ibinomial", 4870848 + 152, "perm", true}, hc{"ibinary", 5000000, "perm", false})
	for _, x := range cases {
		ord := "min"
		if x.neg {
			ord = "max"
		}
		hdr := fmt.Sprintf("comp=%s cap=%d ord=%s huge=1", x.comp, x.n+3, ord)
		run.Do(x.comp, hx.Case{Header: hdr, Ops: genHuge(x.n, 3, x.pattern, x.neg), NoModel: true}, Exec)
	}
}
