package c05

// Families that aim at what dense small random histories do not reach (HARDENING.md):
//   - capacities 0, 1, 2 and the size thresholds 63..65, 255..257, 1023..1025, 4095..4097, 65535..65537, 70000
//     (held entries AND capacity), with a battery of every query on both sides of each threshold;
//   - index arguments -1, MinInt, MaxInt, MaxInt-1, cap, cap+1, ... in every operation that takes an index;
//   - keys of extreme magnitude;
//   - Fibonacci trees thinned as far as the cascading-cut rule allows (a root of degree d over F(d+2) entries),
//     where consolidate's table of floor(log_phi n)+1 slots has no slot to spare.

import (
	"fmt"
	"math"
	"sort"
	"strconv"
	"strings"
	"time"

	"github.com/moorara/algo/heap"

	"verifharness/hx"
)

// ---------------------------------------------------------------- oracle bookkeeping

// keyBag is the multiset of held keys (one representative per entry) kept in comparator order, extremal key LAST,
// so that extremality and ContainsKey cost a binary search and a drain costs O(1) per Delete.  New keys wait in
// `pending` until the next question is asked.  cmp must be a total preorder on the keys in use.
type keyBag struct {
	cmp     func(a, b int) int
	sorted  []int // cmp-descending
	pending []int
}

func (b *keyBag) add(k int) { b.pending = append(b.pending, k) }

func (b *keyBag) norm() {
	if len(b.pending) == 0 {
		return
	}
	p := b.pending
	sort.SliceStable(p, func(i, j int) bool { return b.cmp(p[i], p[j]) > 0 })
	out := make([]int, 0, len(b.sorted)+len(p))
	i, j := 0, 0
	for i < len(b.sorted) && j < len(p) {
		if b.cmp(b.sorted[i], p[j]) >= 0 {
			out = append(out, b.sorted[i])
			i++
		} else {
			out = append(out, p[j])
			j++
		}
	}
	out = append(append(out, b.sorted[i:]...), p[j:]...)
	b.sorted, b.pending = out, nil
}

// last index holding a key that compares equal to k, or -1
func (b *keyBag) find(k int) int {
	b.norm()
	// first index whose key is strictly closer to the extremal end than k
	i := sort.Search(len(b.sorted), func(i int) bool { return b.cmp(b.sorted[i], k) < 0 })
	if i > 0 && b.cmp(b.sorted[i-1], k) == 0 {
		return i - 1
	}
	return -1
}

func (b *keyBag) has(k int) bool { return b.find(k) >= 0 }

func (b *keyBag) del(k int) {
	i := b.find(k)
	if i < 0 {
		panic(fmt.Sprintf("harness: key %d is not in the oracle's key multiset", k))
	}
	b.sorted = append(b.sorted[:i], b.sorted[i+1:]...)
}

// extremal: no held key is strictly better than k
func (b *keyBag) extremal(k int) bool {
	b.norm()
	return len(b.sorted) == 0 || b.cmp(k, b.sorted[len(b.sorted)-1]) <= 0
}

func tagIndex(tags map[string]bool, idx, cap int) {
	switch {
	case idx == math.MaxInt:
		tags["index=MaxInt"] = true
	case idx == math.MinInt:
		tags["index=MinInt"] = true
	case idx == cap:
		tags["index=cap"] = true
	case idx == -1:
		tags["index=-1"] = true
	case idx > cap+1 || idx < -2:
		tags["index-far-out-of-range"] = true
	}
}

// fibMaxRootDegree reads the largest degree among the roots out of a dump of the indexed Fibonacci heap (-1: none).
func fibMaxRootDegree(d string) int {
	i := strings.Index(d, "ext=")
	if i < 0 {
		return -1
	}
	best, depth := -1, 0
	s := d[i+4:]
	for p := 0; p < len(s); p++ {
		switch s[p] {
		case '(':
			if depth == 0 {
				// (index key val degree mark ^parent ...
				q := p + 1
				f := 0
				start := q
				for ; q < len(s) && f < 4; q++ {
					if s[q] == ' ' {
						f++
						if f == 3 {
							start = q + 1
						}
					}
				}
				if f == 4 {
					if n, err := strconv.Atoi(s[start : q-1]); err == nil && n > best {
						best = n
					}
				}
			}
			depth++
		case ')':
			depth--
		case ' ':
			if depth == 0 {
				return best
			}
		}
	}
	return best
}

// ---------------------------------------------------------------- index and capacity edges

// Thresholds are the sizes around which programmers put special cases (HARDENING.md, axis 1).
var Thresholds = []int{1, 2, 63, 64, 65, 255, 256, 257, 1023, 1024, 1025, 4095, 4096, 4097, 65535, 65536, 65537}

func isThreshold(n int) bool {
	i := sort.SearchInts(Thresholds, n)
	return i < len(Thresholds) && Thresholds[i] == n
}

var extremeIdx = []int{-1, math.MinInt, math.MinInt + 1, math.MaxInt, math.MaxInt - 1, 1 << 31, 1<<31 - 1, 1 << 32, -(1 << 31), -(1<<31 + 1), 1 << 62, -2}

// every index worth trying on a heap of this capacity: the extremes, the two ends of the valid range and what
// lies just beyond it
func edgeIdx(cap int) []int {
	out := []int{cap, cap + 1, 2 * cap, 2*cap + 1}
	if cap > 0 {
		out = append(out, 0, cap-1)
	}
	if cap > 2 {
		out = append(out, 1, cap/2)
	}
	return append(out, extremeIdx...)
}

// indexOps: the five operations that take an index, each with every edge index
func indexOps(r *hx.Rand, cap int, insertToo bool) []string {
	var ops []string
	for _, i := range edgeIdx(cap) {
		ops = append(ops, fmt.Sprintf("containsindex %d", i), fmt.Sprintf("peekindex %d", i))
		switch r.Intn(3) {
		case 0:
			ops = append(ops, fmt.Sprintf("changekey %d %d", i, r.Intn(9)), fmt.Sprintf("deleteindex %d", i))
		case 1:
			ops = append(ops, fmt.Sprintf("deleteindex %d", i), fmt.Sprintf("changekey %d %d", i, r.Intn(9)))
		default:
			ops = append(ops, fmt.Sprintf("changekey %d %d", i, r.Intn(9)))
		}
		if insertToo {
			ops = append(ops, fmt.Sprintf("insert %d %d %s", i, r.Intn(9), hx.Pick(r, letters)))
		}
		ops = append(ops, fmt.Sprintf("containsindex %d", i))
	}
	return append(ops, "size", "dump")
}

// genIndexEdges: on the empty heap, on a half-filled heap and on the full heap (capacity 0: three times on the
// empty heap, which is also full), every index operation with every edge index; then a drain.
func genIndexEdges(r *hx.Rand, cap int) []string {
	ops := []string{"size", "isempty", "peek", "delete", "dump", "containskey 0", "containsvalue a"}
	ops = append(ops, indexOps(r, cap, false)...)
	for i := 0; i < cap; i += 2 {
		ops = append(ops, fmt.Sprintf("insert %d %d %s", i, r.Intn(9), hx.Pick(r, letters)))
	}
	ops = append(ops, indexOps(r, cap, true)...)
	for i := 0; i < cap; i++ { // the rest (those already held answer false)
		ops = append(ops, fmt.Sprintf("insert %d %d %s", i, r.Intn(9), hx.Pick(r, letters)))
	}
	ops = append(ops, "size", "peek")
	ops = append(ops, indexOps(r, cap, true)...)
	ops = append(ops, "deleteall")
	ops = append(ops, indexOps(r, cap, true)...)
	return append(ops, drain(cap)...)
}

// ---------------------------------------------------------------- threshold sweeps

type sweepCfg struct {
	cap      int
	fill     int    // entries to insert (<= cap)
	keys     string // asc | desc | equal | random | extreme
	idxOrder string // asc | desc | random
	dumpMax  int    // dumps only while at most this many entries are held (and one at the peak)
	storm    int    // number of ChangeKey / DeleteIndex operations at the peak
}

var extremeKeys = []int{math.MinInt, math.MinInt + 1, -(1 << 32), -1, 0, 1, 1<<31 - 1, 1 << 31, 1<<32 + 1, 1<<53 + 1, math.MaxInt - 1, math.MaxInt}

// genSweep fills a heap through every threshold size, asks every query on both sides of each threshold (and
// shrinks back below it and grows again), storms the full heap with ChangeKey and DeleteIndex, and drains it
// through the same thresholds.
func genSweep(r *hx.Rand, g sweepCfg) []string {
	var ops []string
	add := func(format string, a ...any) { ops = append(ops, fmt.Sprintf(format, a...)) }
	order := make([]int, g.cap)
	for i := range order {
		order[i] = i
	}
	switch g.idxOrder {
	case "desc":
		for i := range order {
			order[i] = g.cap - 1 - i
		}
	case "random":
		for i := g.cap - 1; i > 0; i-- {
			j := r.Intn(i + 1)
			order[i], order[j] = order[j], order[i]
		}
	}
	order = order[:g.fill]
	key := func(j int) int {
		switch g.keys {
		case "asc":
			return j
		case "desc":
			return g.fill - j
		case "equal":
			return 7
		case "extreme":
			return hx.Pick(r, extremeKeys)
		}
		return r.Intn(4*g.fill + 1)
	}
	anyKey := func() int {
		if g.keys == "extreme" {
			return hx.Pick(r, extremeKeys)
		}
		return r.Range(-3, 4*g.fill+3)
	}
	held := 0
	lastKey := 0
	battery := func() {
		ops = append(ops, "size", "isempty", "peek")
		add("containskey %d", lastKey)
		add("containskey %d", anyKey())
		add("containskey %d", -12345)
		ops = append(ops, "containsvalue "+hx.Pick(r, letters), "containsvalue z")
		probes := []int{0, g.cap - 1, g.cap / 2, g.cap, -1, math.MaxInt}
		if held > 0 {
			probes = append(probes, order[held-1], order[0], order[r.Intn(held)])
		}
		if held < g.fill {
			probes = append(probes, order[held])
		}
		for _, i := range probes {
			add("containsindex %d", i)
			add("peekindex %d", i)
		}
		// the whole state: always while it is short, at the middle of each threshold triple, and never on the
		// way through a huge array (the dump of the array-based heap is as long as its capacity)
		if g.cap <= 5000 && (held <= g.dumpMax || isThreshold(held) && isThreshold(held-1) && isThreshold(held+1)) {
			ops = append(ops, "dump")
		}
	}
	battery()
	for j, i := range order {
		lastKey = key(j)
		add("insert %d %d %s", i, lastKey, letters[(i+j)%5])
		held++
		if isThreshold(held) || isThreshold(held-1) && held > 3 {
			battery()
		}
		if held > 3 && isThreshold(held-1) {
			// back below the threshold and up again: DeleteIndex of the newest three, queries, re-Insert
			for d := 1; d <= 3; d++ {
				add("deleteindex %d", order[held-d])
			}
			held -= 3
			battery()
			for d := 0; d < 3; d++ {
				lastKey = anyKey()
				add("insert %d %d %s", order[held], lastKey, hx.Pick(r, letters))
				held++
			}
			ops = append(ops, "size", "peek")
		}
	}
	// the peak
	ops = append(ops, "dump")
	battery()
	inOrder := map[int]bool{}
	for _, i := range order {
		inOrder[i] = true
	}
	for _, i := range edgeIdx(g.cap) { // occupied or out of range: every Insert answers false
		if 0 <= i && i < g.cap && !inOrder[i] {
			continue // a free slot: filling it would shift the sizes at which the drain below asks its questions
		}
		add("insert %d %d %s", i, anyKey(), hx.Pick(r, letters))
		add("changekey %d %d", i, anyKey())
		add("peekindex %d", i)
	}
	ops = append(ops, "size")
	for s := 0; s < g.storm && held > 0; s++ {
		i := order[r.Intn(g.fill)]
		switch r.Intn(5) {
		case 0, 1, 2:
			add("changekey %d %d", i, anyKey())
		case 3:
			add("deleteindex %d", i)
			add("insert %d %d %s", i, anyKey(), hx.Pick(r, letters))
		default:
			add("peekindex %d", i)
		}
		if g.fill <= 5000 && r.Chance(1, 30) {
			ops = append(ops, "dump", "peek")
		}
	}
	ops = append(ops, "size", "peek", "dump")
	// every slot of `order` is held again: drain through the thresholds
	held = g.fill
	for held > 0 {
		ops = append(ops, "delete")
		held--
		if isThreshold(held) || isThreshold(held+1) {
			// `order` no longer says which indices are held: probe with held = 0 bookkeeping
			h := held
			held = 0
			battery()
			held = h
		}
	}
	ops = append(ops, "delete", "size", "isempty", "dump")
	return ops
}

// ---------------------------------------------------------------- maximally thinned Fibonacci trees

type fnode struct {
	idx, deg int
	marked   bool
	parent   int // index of the parent, -1 for a root
	children []int
}

// parseFibForest reads the forest out of a dump of the indexed Fibonacci heap: index -> node, and the roots in
// list order.
func parseFibForest(d string) (map[int]*fnode, []int) {
	nodes := map[int]*fnode{}
	var roots []int
	i := strings.Index(d, "ext=")
	if i < 0 {
		return nodes, roots
	}
	s := d[i+4:]
	var stack []int
	p := 0
	for p < len(s) {
		switch s[p] {
		case '(':
			q := strings.IndexAny(s[p:], "^")
			if q < 0 {
				return nodes, roots
			}
			f := strings.Fields(s[p+1 : p+q])
			if len(f) < 5 {
				return nodes, roots
			}
			n := &fnode{idx: atoi(f[0]), deg: atoi(f[len(f)-2]), marked: f[len(f)-1] == "*", parent: -1}
			if len(stack) > 0 {
				n.parent = stack[len(stack)-1]
				nodes[n.parent].children = append(nodes[n.parent].children, n.idx)
			} else {
				roots = append(roots, n.idx)
			}
			nodes[n.idx] = n
			stack = append(stack, n.idx)
			p += q
		case ')':
			stack = stack[:len(stack)-1]
			p++
		case ' ':
			if len(stack) == 0 {
				return nodes, roots
			}
			p++
		default:
			p++
		}
	}
	return nodes, roots
}

// genThin builds, on an indexed Fibonacci heap of capacity 2^k+1, one tree of degree k that holds only F(k+2)
// entries — the thinnest the cascading-cut rule allows: a binomial tree B_k comes out of 2^k+1 Inserts and one
// Delete; then every non-root node loses its child of largest degree (DeleteIndex, which marks the node), and
// what was cut off is deleted entry by entry before the next cut.  The implementation itself is consulted (through
// the dump hook) for the shape of the forest, so the construction follows whatever linking order the code uses.
// With such a tree as the only one, consolidate's table has exactly degree+1 slots: Insert of a new extremal
// entry and Delete consolidate at that size; DeleteIndex below a chain of marked ancestors cascades all the way up;
// then the heap is drained.  neg: keys are negated (max orientation).
func genThin(r *hx.Rand, k int, neg bool, dumps bool) (cap int, ops []string) {
	cap = 1<<uint(k) + 1
	sg := 1
	if neg {
		sg = -1
	}
	steer := heap.NewIndexedFibonacci[int, string](cap, cmpFor("min"), eqVal)
	do := func(op string) {
		ops = append(ops, op)
		f := strings.Fields(op)
		switch f[0] {
		case "insert":
			steer.Insert(atoi(f[1]), sg*atoi(f[2]), f[3])
		case "delete":
			steer.Delete()
		case "deleteindex":
			steer.DeleteIndex(atoi(f[1]))
		case "changekey":
			steer.ChangeKey(atoi(f[1]), sg*atoi(f[2]))
		}
	}
	// a changed implementation may panic while steering: the case generated so far reproduces it under Exec
	defer func() { _ = recover() }()

	perm := make([]int, cap)
	for i := range perm {
		perm[i] = i
	}
	for i := cap - 1; i > 0; i-- {
		j := r.Intn(i + 1)
		perm[i], perm[j] = perm[j], perm[i]
	}
	for j, i := range perm {
		do(fmt.Sprintf("insert %d %d %s", i, sg*(1000+j), letters[i%5]))
	}
	do("delete")
	if dumps {
		ops = append(ops, "dump")
	}
	lost := map[int]bool{} // nodes of the big tree that have given up their largest child
	low := 0               // keys below every key in use
	for rounds := 0; rounds < 4*cap; rounds++ {
		nodes, roots := parseFibForest(heap.VerifIndexedDump(steer))
		if len(roots) == 0 {
			break
		}
		// the tree being thinned: the root of largest degree
		top := roots[0]
		for _, x := range roots {
			if nodes[x].deg > nodes[top].deg {
				top = x
			}
		}
		// everything outside that tree goes first, roots before their descendants
		var garbage []int
		for _, x := range roots {
			if x == top {
				continue
			}
			queue := []int{x}
			for len(queue) > 0 {
				y := queue[0]
				queue = queue[1:]
				garbage = append(garbage, y)
				queue = append(queue, nodes[y].children...)
			}
		}
		if len(garbage) > 0 {
			for _, y := range garbage {
				do(fmt.Sprintf("deleteindex %d", y))
			}
			if dumps && r.Chance(1, 4) {
				ops = append(ops, "dump", "peek")
			}
			continue
		}
		// the next cut: a non-root node that still has all its children, taken breadth first; it loses the child
		// of largest degree
		cut := -1
		queue := append([]int{}, nodes[top].children...)
		for len(queue) > 0 && cut < 0 {
			y := queue[0]
			queue = queue[1:]
			n := nodes[y]
			if !lost[y] && len(n.children) > 0 {
				best := n.children[0]
				for _, c := range n.children {
					if nodes[c].deg > nodes[best].deg {
						best = c
					}
				}
				lost[y] = true
				cut = best
			}
			queue = append(queue, n.children...)
		}
		if cut < 0 {
			break // as thin as it gets
		}
		do(fmt.Sprintf("deleteindex %d", cut))
	}
	ops = append(ops, "size", "peek", "dump")
	// consolidate with the thin tree as (nearly) the only root: a new extremal entry, Delete; two, Delete; ...
	free := func() int {
		for i := 0; i < cap; i++ {
			if !steer.ContainsIndex(i) {
				return i
			}
		}
		return -1
	}
	for round := 0; round < 3; round++ {
		for j := 0; j <= round; j++ {
			if i := free(); i >= 0 {
				low--
				do(fmt.Sprintf("insert %d %d %s", i, sg*low, hx.Pick(r, letters)))
			}
		}
		do("delete")
		ops = append(ops, "dump", "size")
	}
	// a leaf at the bottom of a chain of marked ancestors: DeleteIndex cascades up the whole chain
	{
		nodes, _ := parseFibForest(heap.VerifIndexedDump(steer))
		bestLeaf, bestChain := -1, -1
		for _, n := range nodes {
			if len(n.children) > 0 || n.parent < 0 {
				continue
			}
			chain := 0
			for p := n.parent; p >= 0 && nodes[p].marked && nodes[p].parent >= 0; p = nodes[p].parent {
				chain++
			}
			if chain > bestChain || chain == bestChain && n.idx < bestLeaf {
				bestLeaf, bestChain = n.idx, chain
			}
		}
		if bestLeaf >= 0 {
			low--
			do(fmt.Sprintf("changekey %d %d", bestLeaf, sg*low)) // a key decrease that cuts and cascades
			ops = append(ops, "dump", "peek")
			do("delete")
			ops = append(ops, "dump")
		}
	}
	n := steer.Size()
	for j := 0; j <= n; j++ {
		do("delete")
		if dumps && (j < 8 || j%16 == 0) {
			ops = append(ops, "dump")
		}
	}
	ops = append(ops, "size", "isempty", "dump")
	return cap, ops
}

// ---------------------------------------------------------------- driver of the families

func hardFamilies(run *hx.Run) {
	hdr := func(comp string, cap int, ord string) string { return fmt.Sprintf("comp=%s cap=%d ord=%s", comp, cap, ord) }
	for ci, comp := range Comps {
		r := run.R.Fork(comp + "-hard")

		// capacities 0, 1, 2, ... x every index operation x every edge index
		for _, cap := range []int{0, 1, 2, 3, 8, 64} {
			for k := 0; k < run.Scale(2); k++ {
				run.Do(comp, hx.Case{Header: hdr(comp, cap, hx.Pick(r, Ords)), Ops: genIndexEdges(r, cap)}, Exec)
			}
		}

		// capacity exactly at / next to a threshold, filled completely
		exact := []int{63, 64, 65, 255, 256, 257, 1023, 1024}
		if run.Thorough() {
			exact = append(exact, 4095, 4096, 4097)
		}
		for _, cap := range exact {
			g := sweepCfg{cap: cap, fill: cap, keys: hx.Pick(r, []string{"asc", "desc", "equal", "random"}),
				idxOrder: hx.Pick(r, []string{"asc", "desc", "random"}), dumpMax: 70, storm: 30}
			run.Do(comp, hx.Case{Header: hdr(comp, cap, hx.Pick(r, Ords)), Ops: genSweep(r, g)}, Exec)
		}

		// one heap walked through every threshold up to 1025 entries, for each key order
		for _, keys := range []string{"asc", "desc", "equal", "random", "extreme"} {
			ord := hx.Pick(r, Ords)
			if keys == "extreme" { // a-b overflows on such keys: only the comparators that compare
				ord = hx.Pick(r, []string{"min", "max"})
			}
			cap := 1025 + r.Intn(40)
			g := sweepCfg{cap: cap, fill: 1025, keys: keys, idxOrder: hx.Pick(r, []string{"asc", "desc", "random"}), dumpMax: 70, storm: 120}
			run.Do(comp, hx.Case{Header: hdr(comp, cap, ord), Ops: genSweep(r, g)}, Exec)
		}
		if run.Thorough() {
			for _, keys := range []string{"asc", "desc", "equal", "random"} {
				cap := 4097 + r.Intn(3)
				g := sweepCfg{cap: cap, fill: 4097, keys: keys, idxOrder: hx.Pick(r, []string{"asc", "desc", "random"}), dumpMax: 70, storm: 300}
				run.Do(comp, hx.Case{Header: hdr(comp, cap, hx.Pick(r, Ords)), Ops: genSweep(r, g)}, Exec)
			}
		}

		// 65535 .. 70000 entries.  The executable Models of the two linked heaps search their trees for a node and
		// need minutes at this size: those cases are judged by the oracle alone (NoModel); the array-based Model of
		// the indexed binary heap keeps up and is compared as usual.
		pick := int((run.Seed + uint64(ci)) % 4)
		big := []int{[]int{65536, 65537, 65535, 70000}[pick]}
		orders := []string{[]string{"random", "asc", "desc", "equal"}[pick]}
		if run.Thorough() {
			big = []int{65535, 65536, 65537, 70000}
			orders = []string{"asc", "desc", "equal", "random"}
		}
		for bi, cap := range big {
			keys := orders[bi%len(orders)]
			g := sweepCfg{cap: cap, fill: cap, keys: keys, idxOrder: hx.Pick(r, []string{"asc", "desc", "random"}), dumpMax: 2, storm: 200}
			run.Do(comp, hx.Case{Header: hdr(comp, cap, hx.Pick(r, Ords)), Ops: genSweep(r, g), NoModel: comp != "ibinary"}, Exec)
		}
		if run.Thorough() && comp != "ibinary" {
			// the largest size at which the linked Models still answer in seconds
			g := sweepCfg{cap: 16385, fill: 16385, keys: "random", idxOrder: "random", dumpMax: 2, storm: 200}
			run.Do(comp, hx.Case{Header: hdr(comp, 16385, hx.Pick(r, Ords)), Ops: genSweep(r, g)}, Exec)
		}
	}

	// thin Fibonacci trees
	r := run.R.Fork("ifibonacci-thin")
	ks := []int{3, 4, 5, 6, 7, 8, 10}
	if run.Thorough() {
		ks = []int{3, 4, 5, 6, 7, 8, 9, 10, 11, 12}
	}
	for _, k := range ks {
		for _, neg := range []bool{false, true} {
			var cap int
			var ops []string
			// the generator runs the implementation: a changed implementation that loops must not stall the run
			if !hx.WithTimeout(60*time.Second, func() { cap, ops = genThin(r, k, neg, k <= 10) }) {
				return
			}
			ord := hx.Pick(r, []string{"min", "mind"})
			if neg {
				ord = hx.Pick(r, []string{"max", "maxd7"})
			}
			run.Do("ifibonacci", hx.Case{Header: hdr("ifibonacci", cap, ord), Ops: ops}, Exec)
		}
	}
	if run.Thorough() {
		var cap int
		var ops []string
		if !hx.WithTimeout(300*time.Second, func() { cap, ops = genThin(r, 14, false, false) }) {
			return
		}
		run.Do("ifibonacci", hx.Case{Header: hdr("ifibonacci", cap, "min"), Ops: ops, NoModel: true}, Exec)
	}
}
