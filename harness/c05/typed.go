package c05

// Axis 4: the indexed heaps are generic in K and V, the rest of this harness instantiates them with int keys and
// string values only.  Here the same operation streams run on heaps whose keys and values are strings, structs,
// pointers, slices (not comparable at run time), `any` holding mixed dynamic types, and a struct that contains a
// slice.  Every key stands for an integer and every value for a letter; comparator and value equality are those of
// the integers / letters and every output line prints them — the lines the (generic) Lean Model prints for the same
// stream.  The dump hook is written for (int, string) heaps: typed cases carry no `dump` operations.
//
//	header  ... kv=str|struct|ptr|slice|any|slicestruct

import (
	"fmt"
	"strconv"
	"strings"

	"github.com/moorara/algo/heap"

	"verifharness/hx"
)

type inst[K, V any] struct {
	toK   func(int) K
	fromK func(K) int
	toV   func(string) V
	fromV func(V) string
}

type skey struct {
	N   int
	Tag string
}

type sliceStruct struct {
	S    []int
	Note string
}

func anyOf(n int) any {
	switch {
	case n < 0:
		return skey{N: n, Tag: "neg"}
	case n%2 == 0:
		return n
	}
	return strconv.Itoa(n)
}

func intOfAny(x any) int {
	switch x := x.(type) {
	case int:
		return x
	case string:
		return atoi(x)
	case skey:
		return x.N
	}
	panic("harness: unknown dynamic type")
}

func anyOfS(s string) any {
	if s < "c" {
		return s
	}
	return []byte(s)
}

func strOfAny(x any) string {
	switch x := x.(type) {
	case string:
		return x
	case []byte:
		return string(x)
	}
	panic("harness: unknown dynamic type")
}

// TypedKinds lists the instantiations (header kv=...).
var TypedKinds = []string{"str", "struct", "ptr", "slice", "any", "slicestruct"}

func execTypedCase(c hx.Case) hx.Result {
	switch hx.HeaderGet(c.Header, "kv") {
	case "str":
		return execTyped(c, inst[string, string]{strconv.Itoa, atoi, func(s string) string { return s }, func(s string) string { return s }})
	case "struct":
		return execTyped(c, inst[skey, skey]{func(n int) skey { return skey{n, "k"} }, func(k skey) int { return k.N },
			func(s string) skey { return skey{1, s} }, func(k skey) string { return k.Tag }})
	case "ptr":
		return execTyped(c, inst[*skey, *skey]{func(n int) *skey { return &skey{n, "k"} }, func(k *skey) int { return k.N },
			func(s string) *skey { return &skey{1, s} }, func(k *skey) string { return k.Tag }})
	case "slice":
		return execTyped(c, inst[[]int, []byte]{func(n int) []int { return []int{n} }, func(k []int) int { return k[0] },
			func(s string) []byte { return []byte(s) }, func(b []byte) string { return string(b) }})
	case "any":
		return execTyped(c, inst[any, any]{anyOf, intOfAny, anyOfS, strOfAny})
	case "slicestruct":
		return execTyped(c, inst[sliceStruct, sliceStruct]{func(n int) sliceStruct { return sliceStruct{[]int{n}, "k"} }, func(k sliceStruct) int { return k.S[0] },
			func(s string) sliceStruct { return sliceStruct{[]int{0}, s} }, func(k sliceStruct) string { return k.Note }})
	}
	return hx.Result{BadOp: -1}
}

func execTyped[K, V any](c hx.Case, in inst[K, V]) (res hx.Result) {
	comp := hx.HeaderGet(c.Header, "comp")
	cap := atoi(hx.HeaderGet(c.Header, "cap"))
	ord := hx.HeaderGet(c.Header, "ord")
	cmp := cmpFor(ord)
	cmpK := func(a, b K) int { return cmp(in.fromK(a), in.fromK(b)) }
	eqV := func(a, b V) bool { return in.fromV(a) == in.fromV(b) }
	res = hx.Result{BadOp: -1, Tags: []string{"comp=" + comp, "ord=" + ord, "kv=" + hx.HeaderGet(c.Header, "kv")}}
	bad := func(i int, format string, a ...any) {
		if res.BadOp < 0 {
			res.BadOp = i
			res.What = fmt.Sprintf(format, a...)
		}
	}
	var h heap.IndexedHeap[K, V]
	kind := hx.Try(func() {
		switch comp {
		case "ibinary":
			h = heap.NewIndexedBinary[K, V](cap, cmpK, eqV)
		case "ibinomial":
			h = heap.NewIndexedBinomial[K, V](cap, cmpK, eqV)
		case "ifibonacci":
			h = heap.NewIndexedFibonacci[K, V](cap, cmpK, eqV)
		}
	})
	if kind != "" || h == nil {
		res.Outs = append(res.Outs, "panic")
		bad(0, "the constructor of %s with capacity %d panicked (%s)", comp, cap, kind)
		return res
	}
	model := map[int]kv{}
	keys := &keyBag{cmp: cmp}
	vals := map[string]int{}
	put := func(idx int, e kv) {
		if old, held := model[idx]; held {
			keys.del(old.k)
			vals[old.v]--
		}
		model[idx] = e
		keys.add(e.k)
		vals[e.v]++
	}
	drop := func(idx int) {
		if old, held := model[idx]; held {
			keys.del(old.k)
			vals[old.v]--
			delete(model, idx)
		}
	}
	maxHeld := 0
	for i, op := range c.Ops {
		f := strings.Fields(op)
		out := "bad-op"
		kind := hx.Try(func() {
			switch {
			case f[0] == "insert" && len(f) == 4:
				idx, k, v := atoi(f[1]), atoi(f[2]), f[3]
				got := h.Insert(idx, in.toK(k), in.toV(v))
				out = "ok " + strconv.FormatBool(got)
				_, held := model[idx]
				want := 0 <= idx && idx < cap && !held
				if got != want {
					bad(i, "Insert(%d) = %v, want %v (in range and free)", idx, got, want)
				}
				if want {
					put(idx, kv{k: k, v: v})
				}
			case f[0] == "changekey" && len(f) == 3:
				idx, k := atoi(f[1]), atoi(f[2])
				old, held := model[idx]
				got := h.ChangeKey(idx, in.toK(k))
				out = "ok " + strconv.FormatBool(got)
				if got != held {
					bad(i, "ChangeKey(%d) = %v, index held = %v", idx, got, held)
				}
				if held {
					ne := kv{k: k, v: old.v}
					if cmp(k, old.k) == 0 {
						for _, a := range append([]int{old.k}, old.alt...) {
							if a != k {
								ne.alt = append(ne.alt, a)
							}
						}
					}
					put(idx, ne)
				}
			case (f[0] == "delete" || f[0] == "peek") && len(f) == 1:
				var idx int
				var kk K
				var vv V
				var ok bool
				if f[0] == "delete" {
					idx, kk, vv, ok = h.Delete()
				} else {
					idx, kk, vv, ok = h.Peek()
				}
				if !ok {
					out = "ok none"
					if len(model) > 0 {
						bad(i, "%s returned false with %d entries held", f[0], len(model))
					}
					return
				}
				k, v := in.fromK(kk), in.fromV(vv)
				out = fmt.Sprintf("ok some %d %d %s", idx, k, v)
				e, held := model[idx]
				switch {
				case len(model) == 0:
					bad(i, "%s on empty returned index %d", f[0], idx)
				case !held:
					bad(i, "%s returned index %d which is not held", f[0], idx)
				case !e.admits(k) || e.v != v:
					bad(i, "%s returned (%d,%d,%s) but index %d holds (%d,%s)", f[0], idx, k, v, idx, e.k, e.v)
				case !keys.extremal(k):
					bad(i, "%s returned key %d which is not extremal", f[0], k)
				}
				if held {
					if f[0] == "delete" {
						drop(idx)
					} else if e.admits(k) {
						model[idx] = kv{k: k, v: e.v}
					}
				}
			case (f[0] == "deleteindex" || f[0] == "peekindex") && len(f) == 2:
				idx := atoi(f[1])
				var kk K
				var vv V
				var ok bool
				if f[0] == "deleteindex" {
					kk, vv, ok = h.DeleteIndex(idx)
				} else {
					kk, vv, ok = h.PeekIndex(idx)
				}
				e, held := model[idx]
				out = "ok none"
				if ok {
					k, v := in.fromK(kk), in.fromV(vv)
					out = fmt.Sprintf("ok some %d %s", k, v)
					if held && (!e.admits(k) || e.v != v) {
						bad(i, "%s(%d) returned (%d,%s), held (%d,%s)", f[0], idx, k, v, e.k, e.v)
					} else if held && f[0] == "peekindex" {
						model[idx] = kv{k: k, v: e.v}
					}
				}
				if ok != held {
					bad(i, "%s(%d) ok=%v, index held = %v", f[0], idx, ok, held)
				}
				if held && f[0] == "deleteindex" {
					drop(idx)
				}
			case f[0] == "deleteall" && len(f) == 1:
				h.DeleteAll()
				out = "ok"
				model, keys, vals = map[int]kv{}, &keyBag{cmp: cmp}, map[string]int{}
			case f[0] == "containsindex" && len(f) == 2:
				idx := atoi(f[1])
				got := h.ContainsIndex(idx)
				out = "ok " + strconv.FormatBool(got)
				if _, held := model[idx]; got != held {
					bad(i, "ContainsIndex(%d) = %v, index held = %v", idx, got, held)
				}
			case f[0] == "containskey" && len(f) == 2:
				k := atoi(f[1])
				got := h.ContainsKey(in.toK(k))
				out = "ok " + strconv.FormatBool(got)
				if want := keys.has(k); got != want {
					bad(i, "ContainsKey(%d) = %v, want %v", k, got, want)
				}
			case f[0] == "containsvalue" && len(f) == 2:
				got := h.ContainsValue(in.toV(f[1]))
				out = "ok " + strconv.FormatBool(got)
				if want := vals[f[1]] > 0; got != want {
					bad(i, "ContainsValue(%s) = %v, want %v", f[1], got, want)
				}
			case f[0] == "size" && len(f) == 1:
				n := h.Size()
				out = "ok " + strconv.Itoa(n)
				if n != len(model) {
					bad(i, "Size = %d, %d entries held", n, len(model))
				}
			case f[0] == "isempty" && len(f) == 1:
				e := h.IsEmpty()
				out = "ok " + strconv.FormatBool(e)
				if e != (len(model) == 0) {
					bad(i, "IsEmpty = %v with %d entries held", e, len(model))
				}
			}
		})
		if kind != "" {
			res.Outs = append(res.Outs, "panic")
			bad(i, "%s panicked (%s) on a heap of %s keys and values", op, kind, hx.HeaderGet(c.Header, "kv"))
			res.Tags = append(res.Tags, "panic")
			break
		}
		res.Outs = append(res.Outs, out)
		if len(model) > maxHeld {
			maxHeld = len(model)
		}
	}
	res.Nontrivial = maxHeld >= 3
	return res
}

func typedOps(ops []string) []string {
	out := make([]string, 0, len(ops))
	for _, op := range ops {
		if op != "dump" {
			out = append(out, op)
		}
	}
	return out
}

// genEveryCap: a heap of exactly this capacity, filled completely (index order and key pattern rotate with the
// capacity), the ends of the index range, one ChangeKey each way, DeleteIndex of the first, the middle and the last
// index with re-Insert, then a complete drain
func genEveryCap(r *hx.Rand, cap int) []string {
	var ops []string
	add := func(format string, a ...any) { ops = append(ops, fmt.Sprintf(format, a...)) }
	for j := 0; j < cap; j++ {
		i := j
		if cap%2 == 1 {
			i = cap - 1 - j
		}
		k := []int{j, cap - j, 7, r.Intn(2*cap + 1)}[cap%4]
		add("insert %d %d %s", i, k, letters[(i+cap)%5])
	}
	ops = append(ops, "size", "peek", "dump")
	for _, i := range []int{cap, cap - 1, -1, 0} {
		add("insert %d 1 a", i)
		add("containsindex %d", i)
		add("peekindex %d", i)
	}
	if cap > 0 {
		add("changekey %d %d", cap/2, -5)
		add("changekey %d %d", (cap+1)/3, 3*cap+5)
		ops = append(ops, "dump", "peek")
		for _, i := range []int{0, cap / 2, cap - 1} {
			add("deleteindex %d", i)
			add("containsindex %d", i)
			add("insert %d %d %s", i, r.Intn(cap+1), hx.Pick(r, letters))
		}
		ops = append(ops, "dump")
	}
	add("containskey %d", 7)
	ops = append(ops, "containsvalue a", "size")
	for j := 0; j <= cap; j++ {
		ops = append(ops, "delete")
		if j == cap/2 {
			ops = append(ops, "dump", "peek")
		}
	}
	return append(ops, "size", "isempty", "dump")
}

func secondRound(run *hx.Run) {
	for _, comp := range Comps {
		r := run.R.Fork(comp + "-round2")
		hdr := func(cap int, ord string) string { return fmt.Sprintf("comp=%s cap=%d ord=%s", comp, cap, ord) }
		for cap := 0; cap <= 200; cap++ {
			run.Do(comp, hx.Case{Header: hdr(cap, Ords[cap%len(Ords)]), Ops: genEveryCap(r, cap)}, Exec)
		}
		for _, kind := range TypedKinds {
			for k := 0; k < run.Scale(12); k++ {
				cap := r.Range(0, 12)
				var ops []string
				switch k % 4 {
				case 0:
					cap = r.Range(8, 16)
					ops = fullStorm(r, cap)
				case 1:
					cap = r.Range(4, 10)
					ops = sparseDeleteAll(r, cap)
				default:
					ops = append(genOps(r, genCfg{cap: cap, universe: hx.Pick(r, []int{3, 6, 20}), sparse: r.Chance(1, 3), n: r.Range(8, 90)}), drain(cap)...)
				}
				run.Do(comp, hx.Case{Header: hdr(cap, hx.Pick(r, Ords)) + " kv=" + kind, Ops: typedOps(ops)}, Exec)
			}
			g := sweepCfg{cap: 257, fill: 257, keys: "random", idxOrder: "random", dumpMax: 0, storm: 60}
			run.Do(comp, hx.Case{Header: hdr(257, hx.Pick(r, Ords)) + " kv=" + kind, Ops: typedOps(genSweep(r, g))}, Exec)
		}
	}
}
