// Package c05: indexed binary / binomial / Fibonacci heaps against a partial map index -> (key,value).
package c05

import (
	"fmt"
	"strconv"
	"strings"

	"github.com/moorara/algo/generic"
	"github.com/moorara/algo/heap"

	"verifharness/hx"
)

const Rule = "cases = (implementation, capacity 0-12 (thorough: up to 40), comparator min | max | a-b | 7*(b-a) | half, op sequence) drawn from " +
	"VERIF_SEED: indices from [-2, cap+1] (so ~25% of index arguments are out of range or refer to a free/occupied " +
	"slot the wrong way) and, 1 in 40, from the ends of the int range (-1, MinInt, MinInt+1, MaxInt, MaxInt-1, 2^31, 2^32, 2^62), " +
	"keys from a small universe (dense ties), values from 5 letters, dense and sparse index " +
	"sets, ChangeKey both up and down, DeleteIndex of root / leaf / middle entries, drain phases, DeleteAll; a " +
	"state dump (heap/pos/kvs arrays, forests with parent links, marks and the nodes[] map) after ~1/3 of the ops. " +
	"The constructor is part of every case (a constructor that panics is the failing first operation). " +
	"Size/zero families (every tier, from the corpus on): capacities 0, 1, 2, 3, 8, 64 with each of the five index operations on each of ~20 edge " +
	"indices on the empty, half-filled, full and DeleteAll-ed heap; heaps of capacity exactly 63, 64, 65, 255, 256, 257, 1023, 1024 " +
	"(thorough: 4095-4097) filled completely; heaps walked through 1, 2, 63-65, 255-257, 1023-1025 held entries (keys ascending / descending / " +
	"all equal / random / of extreme magnitude MinInt..MaxInt; index order ascending / descending / random) with a battery of all queries at each size, a step back " +
	"below each threshold and up again, a storm of ChangeKey / DeleteIndex at the peak and a drain through the same sizes; one heap of " +
	"65535 / 65536 / 65537 / 70000 entries per implementation (thorough: all four, plus 4097 and 16385). " +
	"At 65535+ entries the executable Models of the two LINKED heaps need minutes (they search their trees for a node), so those cases - and the " +
	"thorough 2^14 thin-tree case - are judged by the Go oracle alone (extra.oracle_only_cases); the indexed binary heap is compared with its Model at every size. " +
	"Thin Fibonacci trees: from the binomial tree left by 2^k+1 Inserts and one Delete (k = 3..10, thorough ..12 and 14), every non-root node " +
	"loses its child of largest degree by DeleteIndex and what was cut off is deleted, until one tree of degree k holds F(k+2) entries - " +
	"consolidate's table of floor(log_phi n)+1 slots then has none to spare (tag fib-degree-slack=0); then Insert+Delete at that size, a key " +
	"decrease below a chain of marked ancestors (cascading cut), and a drain. " +
	"Second round: EVERY capacity 0..200 per implementation, filled completely (index order and key pattern rotate), the ends of the index range, ChangeKey both ways, " +
	"DeleteIndex of first / middle / last with re-Insert, drained; type instantiation (header kv=str|struct|ptr|slice|any|slicestruct): the same streams on heaps whose K and V are strings, " +
	"structs, pointers, []int / []byte (not comparable), any with mixed dynamic types, a struct containing a slice - every key stands for an integer and every value for a letter and prints as it, so the " +
	"lines equal the generic Model's; no dumps there (the dump hook is (int,string)-only). " +
	"Huge families (run.Huge(): thorough, witness search, or budget enlarged because a modelled function's digest changed; header huge=1, a `bulk n a c` line inserts the permutation key (a*i+c) mod n, oracle-only " +
	"with an oracle made for the size: a forward-moving pointer over the bulk keys plus a small map of the entries inserted / re-keyed individually): capacity 131071 / 196608 / 262143 / 262144 / 262145 filled " +
	"completely per implementation (ascending / stride permutation / descending keys, min and max), indexed Fibonacci heaps of 4 871 000 and 5*10^6 entries (floor(log_phi n)+1 passes 32 at 4 870 847), " +
	"indexed binomial 4 871 000, indexed binary 5*10^6 - each with Delete, Peek, DeleteIndex of the runner-up and of early indices, a key change away from the front, three new extremal entries inserted worst first, " +
	"and 340 checked Deletes; the 2^18-1 cases are in the corpus and run on every check. " +
	"non-trivial = the history held >= 3 entries at once (typed / huge cases: that alone) and, while holding >= 3, executed a successful ChangeKey or " +
	"DeleteIndex, followed later by a successful Delete or Peek, and for ifibonacci additionally a ChangeKey that " +
	"cut a node out of its tree (root count rose; tag fib-cascading-cut = it rose by >= 2, i.e. a marked parent " +
	"was cut as well); distinct = distinct (header, op list); " +
	"component maxdeg compares indexedFibonacci.maxDegree (floating point) with the Model's integer log_phi"

// kv is an abstract entry.  k is a representative key; alt lists further key objects the Spec also admits for
// this index (after ChangeKey(i, k) the entry holds k, or still the old key object when it compares equal to k);
// all of them compare equal, so any representative serves for extremality / ContainsKey.  Observing the entry's
// key (Peek, Delete, PeekIndex, DeleteIndex) must yield one of them and then fixes it.
type kv struct {
	k   int
	v   string
	alt []int
}

func (e kv) admits(k int) bool {
	if e.k == k {
		return true
	}
	for _, a := range e.alt {
		if a == k {
			return true
		}
	}
	return false
}

// cmpFor: min/max are the normalised comparators (-1/0/1); mind and maxd7 return non-normalised values
// (a-b and 7*(b-a)), which a CompareFunc is allowed to do and which the code must only use by sign.
func cmpFor(ord string) generic.CompareFunc[int] {
	switch ord {
	case "half": // 2i and 2i+1 compare equal: distinct keys tie, and ChangeKey may keep the old key object
		return func(a, b int) int {
			x, y := half(a), half(b)
			switch {
			case x < y:
				return -1
			case x > y:
				return 1
			}
			return 0
		}
	case "mind":
		return func(a, b int) int { return a - b }
	case "maxd7":
		return func(a, b int) int { return 7 * (b - a) }
	}
	if ord == "max" {
		return func(a, b int) int {
			switch {
			case a > b:
				return -1
			case a < b:
				return 1
			}
			return 0
		}
	}
	return func(a, b int) int {
		switch {
		case a < b:
			return -1
		case a > b:
			return 1
		}
		return 0
	}
}

// floor division by 2, as Lean's Int `/`
func half(a int) int {
	if a >= 0 {
		return a / 2
	}
	return -((-a + 1) / 2)
}

func eqVal(a, b string) bool { return a == b }

func newHeap(comp string, cap int, cmp generic.CompareFunc[int]) heap.IndexedHeap[int, string] {
	switch comp {
	case "ibinary":
		return heap.NewIndexedBinary[int, string](cap, cmp, eqVal)
	case "ibinomial":
		return heap.NewIndexedBinomial[int, string](cap, cmp, eqVal)
	case "ifibonacci":
		return heap.NewIndexedFibonacci[int, string](cap, cmp, eqVal)
	}
	return nil
}

func atoi(s string) int { n, _ := strconv.Atoi(s); return n }

// fibRoots counts the trees of the root list of an indexed Fibonacci heap (from the dump hook).
func fibRoots(h heap.IndexedHeap[int, string]) int {
	d := heap.VerifIndexedDump(h)
	i := strings.Index(d, "ext=")
	if i < 0 {
		return 0
	}
	depth, n := 0, 0
	for _, ch := range d[i+4:] {
		switch ch {
		case '(':
			if depth == 0 {
				n++
			}
			depth++
		case ')':
			depth--
		case ' ':
			if depth == 0 {
				return n
			}
		}
	}
	return n
}

// Exec runs one case on the real heap package and checks every outcome against a map[int]kv oracle.
func Exec(c hx.Case) (res hx.Result) {
	comp := hx.HeaderGet(c.Header, "comp")
	if hx.HeaderGet(c.Header, "huge") != "" {
		return execHuge(c)
	}
	if hx.HeaderGet(c.Header, "kv") != "" {
		return execTypedCase(c)
	}
	res = hx.Result{BadOp: -1}
	bad := func(i int, sig string, format string, a ...any) {
		if res.BadOp < 0 {
			res.BadOp = i
			res.What = fmt.Sprintf(format, a...)
			res.Sig = sig
		}
	}
	tags := map[string]bool{"comp=" + comp: true}
	defer func() {
		for t := range tags {
			res.Tags = append(res.Tags, t)
		}
	}()

	if comp == "maxdeg" {
		for i, op := range c.Ops {
			f := strings.Fields(op)
			out := "bad-op"
			if len(f) == 2 && f[0] == "maxdeg" {
				n := atoi(f[1])
				d := heap.VerifIndexedMaxDegree(n)
				out = "ok " + strconv.Itoa(d)
				// oracle: d-1 = floor(log_phi n), i.e. phi^(d-1) <= n < phi^d, decided with Fibonacci numbers:
				// phi^k = F(k)*phi + F(k-1), and a*phi + b <= n  <=>  a*phi <= n-b (exact integer test below).
				if n >= 1 && !(phiPowLE(d-1, n) && !phiPowLE(d, n)) {
					bad(i, "", "maxDegree(%d) = %d is not floor(log_phi n)+1", n, d)
				}
			}
			res.Outs = append(res.Outs, out)
		}
		res.Nontrivial = len(c.Ops) > 0
		return res
	}

	cap := atoi(hx.HeaderGet(c.Header, "cap"))
	if cap < 0 {
		cap = 0
	}
	ord := hx.HeaderGet(c.Header, "ord")
	cmp := cmpFor(ord)
	// the constructor is part of the history: "for indexed heaps of any capacity" includes capacity 0, and a
	// constructor that panics ends the case at its first operation
	var h heap.IndexedHeap[int, string]
	if kind := hx.Try(func() { h = newHeap(comp, cap, cmp) }); kind != "" {
		res.Outs = append(res.Outs, "panic")
		bad(0, "", "the constructor of %s with capacity %d panicked (%s)", comp, cap, kind)
		tags["panic"] = true
		return res
	}
	if h == nil {
		for range c.Ops {
			res.Outs = append(res.Outs, "bad-case")
		}
		return res
	}
	tags["ord="+ord] = true
	switch {
	case cap == 0:
		tags["cap=0"] = true
	case cap <= 2:
		tags["cap<=2"] = true
	}

	model := map[int]kv{}      // the abstract partial map
	keys := &keyBag{cmp: cmp}  // the held keys (one representative per entry), for extremality and ContainsKey
	vals := map[string]int{}   // value -> number of held entries carrying it
	extremal := func(k int) bool {
		fast := keys.extremal(k)
		if len(model) <= 24 { // small states: the definition itself, entry by entry
			slow := true
			for _, e := range model {
				if cmp(k, e.k) > 0 {
					slow = false
				}
			}
			if slow != fast {
				bad(len(res.Outs), "", "harness: the two oracles of extremality disagree on key %d", k)
			}
			return slow
		}
		return fast
	}
	put := func(idx int, e kv) {
		if old, held := model[idx]; held {
			keys.del(old.k)
			vals[old.v]--
		}
		model[idx] = e
		keys.add(e.k)
		vals[e.v]++
	}
	drop := func(idx int) {
		if old, held := model[idx]; held {
			keys.del(old.k)
			vals[old.v]--
			delete(model, idx)
		}
	}
	maxHeld := 0
	armed, fired := false, false // non-trivial rule
	fibCut := false              // ifibonacci: a ChangeKey cut a node out of its tree

	for i, op := range c.Ops {
		f := strings.Fields(op)
		out := "bad-op"
		kind := hx.Try(func() {
			switch {
			case f[0] == "insert" && len(f) == 4:
				idx, k, v := atoi(f[1]), atoi(f[2]), f[3]
				got := h.Insert(idx, k, v)
				out = "ok " + strconv.FormatBool(got)
				_, held := model[idx]
				want := 0 <= idx && idx < cap && !held
				if got != want {
					bad(i, "", "Insert(%d) = %v, want %v (in range and free)", idx, got, want)
				}
				if want {
					put(idx, kv{k: k, v: v})
				}
				if idx < 0 || idx >= cap {
					tags["insert-out-of-range"] = true
				} else if held {
					tags["insert-occupied"] = true
				}
				tagIndex(tags, idx, cap)
			case f[0] == "changekey" && len(f) == 3:
				idx, k := atoi(f[1]), atoi(f[2])
				old, held := model[idx]
				rootsBefore := 0
				// counting the trees reads the whole forest: only on heaps of moderate size
				watchCut := comp == "ifibonacci" && held && cmp(k, old.k) < 0 && len(model) <= 2048
				if watchCut {
					rootsBefore = fibRoots(h)
				}
				got := h.ChangeKey(idx, k)
				tagIndex(tags, idx, cap)
				if watchCut {
					// a key decrease never consolidates: every new tree in the root list is a node that was cut;
					// two or more new trees = the cut cascaded into a marked parent
					switch d := fibRoots(h) - rootsBefore; {
					case d >= 2:
						tags["fib-cascading-cut"] = true
						tags["fib-cut"] = true
						fibCut = true
					case d == 1:
						tags["fib-cut"] = true
						fibCut = true
					}
				}
				out = "ok " + strconv.FormatBool(got)
				if got != held {
					bad(i, "", "ChangeKey(%d) = %v, index held = %v", idx, got, held)
				}
				if held {
					ne := kv{k: k, v: old.v}
					if cmp(k, old.k) == 0 { // Spec: the old key object(s) may be kept
						for _, a := range append([]int{old.k}, old.alt...) {
							if a != k {
								ne.alt = append(ne.alt, a)
							}
						}
						if len(ne.alt) > 0 {
							tags["changekey-equal-distinct-key"] = true
						}
					}
					put(idx, ne)
					switch c := cmp(k, old.k); {
					case c < 0:
						tags["changekey-towards-root"] = true
					case c > 0:
						tags["changekey-away-from-root"] = true
					default:
						tags["changekey-same"] = true
					}
					if len(model) >= 3 {
						armed = true
					}
				} else {
					tags["changekey-unheld"] = true
				}
			case f[0] == "delete" && len(f) == 1:
				idx, k, v, ok := h.Delete()
				if ok {
					out = fmt.Sprintf("ok some %d %d %s", idx, k, v)
				} else {
					out = "ok none"
				}
				if len(model) == 0 {
					if ok {
						bad(i, "", "Delete on empty returned index %d", idx)
					}
				} else {
					e, held := model[idx]
					switch {
					case !ok:
						bad(i, "", "Delete returned false with %d entries held", len(model))
					case !held:
						bad(i, "", "Delete returned index %d which is not held", idx)
					case !e.admits(k) || e.v != v:
						bad(i, "", "Delete returned (%d,%d,%s) but index %d holds (%d,%s)", idx, k, v, idx, e.k, e.v)
					case !extremal(k):
						bad(i, "", "Delete returned key %d which is not extremal", k)
					}
					drop(idx)
					if armed {
						fired = true
					}
				}
			case f[0] == "peek" && len(f) == 1:
				idx, k, v, ok := h.Peek()
				if ok {
					out = fmt.Sprintf("ok some %d %d %s", idx, k, v)
				} else {
					out = "ok none"
				}
				if len(model) == 0 {
					if ok {
						bad(i, "", "Peek on empty returned index %d", idx)
					}
				} else {
					e, held := model[idx]
					switch {
					case !ok:
						bad(i, "", "Peek returned false with %d entries held", len(model))
					case !held:
						bad(i, "", "Peek returned index %d which is not held", idx)
					case !e.admits(k) || e.v != v:
						bad(i, "", "Peek returned (%d,%d,%s) but index %d holds (%d,%s)", idx, k, v, idx, e.k, e.v)
					case !extremal(k):
						bad(i, "", "Peek returned key %d which is not extremal", k)
					}
					if ok && held && e.admits(k) {
						if k != e.k {
							tags["kept-old-key-observed"] = true
						}
						model[idx] = kv{k: k, v: e.v}
					}
					if armed {
						fired = true
					}
				}
			case f[0] == "deleteindex" && len(f) == 2:
				idx := atoi(f[1])
				k, v, ok := h.DeleteIndex(idx)
				if ok {
					out = fmt.Sprintf("ok some %d %s", k, v)
				} else {
					out = "ok none"
				}
				e, held := model[idx]
				tagIndex(tags, idx, cap)
				if ok != held {
					bad(i, "", "DeleteIndex(%d) ok=%v, index held = %v", idx, ok, held)
				} else if held && (!e.admits(k) || e.v != v) {
					bad(i, "", "DeleteIndex(%d) returned (%d,%s), held (%d,%s)", idx, k, v, e.k, e.v)
				}
				if held {
					if len(model) >= 3 {
						armed = true
					}
					if extremal(e.k) {
						tags["deleteindex-extremal"] = true
					} else {
						tags["deleteindex-inner"] = true
					}
					drop(idx)
				} else {
					tags["deleteindex-unheld"] = true
				}
			case f[0] == "deleteall" && len(f) == 1:
				h.DeleteAll()
				out = "ok"
				model = map[int]kv{}
				keys = &keyBag{cmp: cmp}
				vals = map[string]int{}
				tags["deleteall"] = true
			case f[0] == "peekindex" && len(f) == 2:
				idx := atoi(f[1])
				k, v, ok := h.PeekIndex(idx)
				tagIndex(tags, idx, cap)
				if ok {
					out = fmt.Sprintf("ok some %d %s", k, v)
				} else {
					out = "ok none"
				}
				e, held := model[idx]
				if ok != held {
					bad(i, "", "PeekIndex(%d) ok=%v, index held = %v", idx, ok, held)
				} else if held && (!e.admits(k) || e.v != v) {
					bad(i, "", "PeekIndex(%d) returned (%d,%s), held (%d,%s)", idx, k, v, e.k, e.v)
				} else if held {
					if k != e.k {
						tags["kept-old-key-observed"] = true
					}
					model[idx] = kv{k: k, v: e.v}
				}
			case f[0] == "containsindex" && len(f) == 2:
				idx := atoi(f[1])
				got := h.ContainsIndex(idx)
				tagIndex(tags, idx, cap)
				out = "ok " + strconv.FormatBool(got)
				if _, held := model[idx]; got != held {
					bad(i, "", "ContainsIndex(%d) = %v, index held = %v", idx, got, held)
				}
			case f[0] == "containskey" && len(f) == 2:
				k := atoi(f[1])
				got := h.ContainsKey(k)
				out = "ok " + strconv.FormatBool(got)
				want := keys.has(k)
				if len(model) <= 24 {
					slow := false
					for _, e := range model {
						if cmp(e.k, k) == 0 {
							slow = true
						}
					}
					if slow != want {
						bad(i, "", "harness: the two oracles of ContainsKey disagree on key %d", k)
					}
				}
				if got != want {
					bad(i, "", "ContainsKey(%d) = %v, want %v", k, got, want)
				}
			case f[0] == "containsvalue" && len(f) == 2:
				got := h.ContainsValue(f[1])
				out = "ok " + strconv.FormatBool(got)
				want := vals[f[1]] > 0
				if got != want {
					bad(i, "", "ContainsValue(%s) = %v, want %v", f[1], got, want)
				}
			case f[0] == "size" && len(f) == 1:
				n := h.Size()
				out = "ok " + strconv.Itoa(n)
				if n != len(model) {
					bad(i, "", "Size = %d, %d entries held", n, len(model))
				}
			case f[0] == "isempty" && len(f) == 1:
				e := h.IsEmpty()
				out = "ok " + strconv.FormatBool(e)
				if e != (len(model) == 0) {
					bad(i, "", "IsEmpty = %v with %d entries held", e, len(model))
				}
			case f[0] == "dump" && len(f) == 1:
				d := heap.VerifIndexedDump(h)
				out = "ok " + d
				if strings.Contains(d, "?") || strings.Contains(d, "badlinks") {
					bad(i, "", "dump shows a dangling nodes[] entry or inconsistent prev/next links: %s", d)
				}
				if strings.Contains(d, "*") {
					tags["marked-node"] = true
				}
				if comp == "ifibonacci" && len(model) >= 5 {
					// how close the largest root degree is to the last slot of consolidate's table for this many
					// entries (0 = a tree as thin as the bound allows)
					if deg := fibMaxRootDegree(d); deg >= 0 {
						switch slack := heap.VerifIndexedMaxDegree(len(model)) - 1 - deg; {
						case slack <= 0:
							tags["fib-degree-slack=0"] = true
						case slack == 1:
							tags["fib-degree-slack=1"] = true
						}
					}
				}
			}
		})
		if kind != "" {
			res.Outs = append(res.Outs, "panic")
			bad(i, "", "%s panicked (%s)", op, kind)
			tags["panic"] = true
			break
		}
		res.Outs = append(res.Outs, out)
		if len(model) > maxHeld {
			maxHeld = len(model)
		}
	}

	if maxHeld >= 3 {
		tags["held>=3"] = true
	}
	for _, t := range []int{64, 256, 1024, 65536} {
		if maxHeld >= t {
			tags["held>="+strconv.Itoa(t)] = true
		}
	}
	if maxHeld == cap && cap > 0 {
		tags["filled-to-capacity"] = true
	}
	res.Nontrivial = maxHeld >= 3 && armed && fired && (comp != "ifibonacci" || fibCut)
	return res
}

// phiPowLE reports phi^k <= n for the golden ratio phi, k >= 0, n >= 0, in exact integer arithmetic:
// phi^k = (L(k) + F(k)*sqrt5)/2 with Lucas/Fibonacci numbers, so phi^k <= n <=> F(k)*sqrt5 <= 2n - L(k)
// <=> 2n >= L(k) and 5*F(k)^2 <= (2n-L(k))^2.
func phiPowLE(k, n int) bool {
	if k < 0 {
		return n >= 1
	}
	f0, f1 := 0, 1 // F(0), F(1)
	l0, l1 := 2, 1 // L(0), L(1)
	for j := 0; j < k; j++ {
		f0, f1 = f1, f0+f1
		l0, l1 = l1, l0+l1
	}
	d := 2*n - l0
	return d >= 0 && 5*f0*f0 <= d*d
}

// ---------------------------------------------------------------- generators

var letters = []string{"a", "b", "c", "d", "e"}

type genCfg struct {
	cap      int
	universe int // keys from [0, universe)
	sparse   bool
	n        int
}

func genOps(r *hx.Rand, g genCfg) []string {
	var ops []string
	// indices actually used by a sparse case: a random subset of about a third of the slots
	var pool []int
	for i := 0; i < g.cap; i++ {
		if !g.sparse || r.Chance(1, 3) {
			pool = append(pool, i)
		}
	}
	if len(pool) == 0 {
		pool = []int{g.cap - 1}
	}
	idx := func() int {
		if r.Chance(1, 40) {
			return hx.Pick(r, extremeIdx) // -1, MinInt, MaxInt, MaxInt-1, 2^31, ...
		}
		if r.Chance(1, 5) {
			return r.Range(-2, g.cap+1)
		}
		return hx.Pick(r, pool)
	}
	key := func() int {
		if r.Chance(1, 25) {
			return -1 // below the universe (and the value the heaps use as "no index" / "no position")
		}
		return r.Intn(g.universe)
	}
	fill := true
	phase := r.Range(2, 14)
	for len(ops) < g.n {
		if phase == 0 {
			fill = !fill
			phase = r.Range(2, 14)
		}
		phase--
		x := r.Intn(100)
		switch {
		case x < 30:
			if fill || r.Chance(1, 4) {
				ops = append(ops, fmt.Sprintf("insert %d %d %s", idx(), key(), hx.Pick(r, letters)))
			} else if r.Bool() {
				ops = append(ops, "delete")
			} else {
				ops = append(ops, fmt.Sprintf("deleteindex %d", idx()))
			}
		case x < 50:
			ops = append(ops, fmt.Sprintf("changekey %d %d", idx(), key()))
		case x < 58:
			ops = append(ops, fmt.Sprintf("deleteindex %d", idx()))
		case x < 66:
			ops = append(ops, "delete")
		case x < 72:
			ops = append(ops, "peek")
		case x < 77:
			ops = append(ops, fmt.Sprintf("peekindex %d", idx()))
		case x < 81:
			ops = append(ops, fmt.Sprintf("containsindex %d", idx()))
		case x < 86:
			ops = append(ops, fmt.Sprintf("containskey %d", r.Range(-1, g.universe)))
		case x < 90:
			ops = append(ops, "containsvalue "+hx.Pick(r, append(letters, "z")))
		case x < 93:
			ops = append(ops, "size")
		case x < 95:
			ops = append(ops, "isempty")
		case x < 96:
			ops = append(ops, "deleteall")
		default:
			ops = append(ops, "dump")
		}
		if r.Chance(1, 3) {
			ops = append(ops, "dump")
		}
	}
	ops = append(ops, "dump", "size", "peek")
	return ops
}

// drain empties the heap with Delete, so every entry's extremality is checked.
func drain(n int) []string {
	var ops []string
	for i := 0; i <= n; i++ {
		ops = append(ops, "delete")
	}
	return append(ops, "dump")
}

// sparseDeleteAll: hold a sparse index set (high indices included), DeleteAll, then every index-based query
// and a re-Insert for every index.
func sparseDeleteAll(r *hx.Rand, cap int) []string {
	var ops []string
	var held []int
	for i := 0; i < cap; i++ {
		if r.Chance(2, 5) || i == cap-1 {
			held = append(held, i)
			ops = append(ops, fmt.Sprintf("insert %d %d %s", i, r.Intn(8), hx.Pick(r, letters)))
		}
	}
	if r.Bool() {
		ops = append(ops, "delete")
	}
	ops = append(ops, "dump", "deleteall", "dump", "size", "isempty", "peek")
	for i := -1; i <= cap; i++ {
		ops = append(ops, fmt.Sprintf("containsindex %d", i), fmt.Sprintf("peekindex %d", i))
	}
	ops = append(ops, "containskey 3", "containsvalue a")
	for i := cap - 1; i >= 0; i-- {
		switch r.Intn(3) {
		case 0:
			ops = append(ops, fmt.Sprintf("changekey %d 1", i), fmt.Sprintf("deleteindex %d", i))
		case 1:
			ops = append(ops, fmt.Sprintf("deleteindex %d", i))
		}
		ops = append(ops, fmt.Sprintf("insert %d %d %s", i, r.Intn(8), hx.Pick(r, letters)))
	}
	ops = append(ops, "dump", "size")
	return append(ops, drain(cap)...)
}

// smallExhaustive: bounded-exhaustive families cheap enough for the quick tier.
//   - duplicate keys: every assignment of keys {5,7} (ties everywhere) to n <= 5 entries inserted in index
//     order, then DeleteIndex of each index in turn (in particular of the last heap position), then a drain;
//   - cut then consolidate: capacity 3..6 filled in increasing / decreasing key order, one Delete (builds
//     trees), then every pair drawn from {DeleteIndex i, ChangeKey i to the front} and a drain.
func smallExhaustive(run *hx.Run, comp string) {
	for _, ord := range []string{"min", "max", "half"} {
		for n := 2; n <= 5; n++ {
			for mask := 0; mask < 1<<uint(n); mask++ {
				for del := 0; del < n; del++ {
					var ops []string
					for i := 0; i < n; i++ {
						k := 5
						if mask>>uint(i)&1 == 1 {
							k = 7
						}
						ops = append(ops, fmt.Sprintf("insert %d %d %s", i, k, letters[i%5]))
					}
					ops = append(ops, fmt.Sprintf("deleteindex %d", del), "dump", "peek")
					ops = append(ops, drain(n)...)
					run.Do(comp, hx.Case{Header: fmt.Sprintf("comp=%s cap=%d ord=%s", comp, n+1, ord), Ops: ops}, Exec)
				}
			}
		}
	}
	for cap := 3; cap <= 6; cap++ {
		var alpha []string
		for i := 0; i < cap; i++ {
			alpha = append(alpha, fmt.Sprintf("deleteindex %d", i), fmt.Sprintf("changekey %d -1", i))
		}
		for fam := 0; fam < 2; fam++ {
			for a := range alpha {
				for b := range alpha {
					var ops []string
					for i := 0; i < cap; i++ {
						k := i
						if fam == 1 {
							k = cap - i
						}
						ops = append(ops, fmt.Sprintf("insert %d %d %s", i, k, letters[i%5]))
					}
					ops = append(ops, "delete", "dump", alpha[a], "dump", alpha[b], "dump", "peek")
					ops = append(ops, drain(cap)...)
					run.Do(comp, hx.Case{Header: fmt.Sprintf("comp=%s cap=%d ord=min", comp, cap), Ops: ops}, Exec)
				}
			}
		}
	}
}

// exhaustive enumerates every op sequence of the given length over the alphabet.
func exhaustive(alpha []string, n int, f func([]string)) {
	idx := make([]int, n)
	for {
		ops := make([]string, n)
		for i, k := range idx {
			ops[i] = alpha[k]
		}
		f(ops)
		i := n - 1
		for i >= 0 {
			idx[i]++
			if idx[i] < len(alpha) {
				break
			}
			idx[i] = 0
			i--
		}
		if i < 0 {
			return
		}
	}
}

var Comps = []string{"ibinary", "ibinomial", "ifibonacci"}

var Ords = []string{"min", "max", "mind", "maxd7", "half"}

// fullStorm: fill every slot of a heap of capacity cap (so the linked heaps hold trees of order >= 3), then
// rounds of many ChangeKey calls in both directions with large jumps (an entry must sink / rise several
// levels), each round followed by a complete drain with Delete (every entry's extremality is checked) and a
// refill.  Dumps after the fill, after every few ChangeKeys and during the drain.
func fullStorm(r *hx.Rand, cap int) []string {
	var ops []string
	fill := func() {
		perm := make([]int, cap)
		for i := range perm {
			perm[i] = i
		}
		for i := cap - 1; i > 0; i-- {
			j := r.Intn(i + 1)
			perm[i], perm[j] = perm[j], perm[i]
		}
		for _, i := range perm {
			ops = append(ops, fmt.Sprintf("insert %d %d %s", i, 10*r.Range(1, 9), hx.Pick(r, letters)))
		}
		ops = append(ops, "dump")
	}
	rounds := r.Range(2, 3)
	for k := 0; k < rounds; k++ {
		fill()
		if r.Bool() {
			// one Delete first: consolidates the Fibonacci root list into trees
			i := r.Intn(cap)
			ops = append(ops, "delete", "dump", fmt.Sprintf("insert %d %d %s", i, 10*r.Range(1, 9), hx.Pick(r, letters)),
				fmt.Sprintf("deleteindex %d", i), fmt.Sprintf("insert %d %d %s", i, 10*r.Range(1, 9), hx.Pick(r, letters)), "delete",
				fmt.Sprintf("insert %d %d %s", r.Intn(cap), 10*r.Range(1, 9), hx.Pick(r, letters)))
		}
		m := r.Range(cap/2, 2*cap)
		for j := 0; j < m; j++ {
			key := hx.Pick(r, []int{-50, -5, 5, 15, 25, 35, 45, 55, 65, 75, 85, 95, 150})
			ops = append(ops, fmt.Sprintf("changekey %d %d", r.Intn(cap), key))
			if r.Chance(1, 3) {
				ops = append(ops, "dump", "peek")
			}
			if r.Chance(1, 8) {
				i := r.Intn(cap)
				ops = append(ops, fmt.Sprintf("deleteindex %d", i), fmt.Sprintf("insert %d %d %s", i, 10*r.Range(1, 9), hx.Pick(r, letters)))
			}
		}
		ops = append(ops, "dump")
		for j := 0; j <= cap; j++ {
			ops = append(ops, "delete")
			if j%4 == 1 {
				ops = append(ops, "dump")
			}
		}
		ops = append(ops, "size", "isempty")
	}
	return ops
}

func Main(run *hx.Run) {
	run.Stats.Rule = Rule
	for _, f := range hx.CorpusFiles("C05") {
		cs, _ := hx.ReadReplay(f)
		for _, c := range cs {
			run.Do(hx.HeaderGet(c.Header, "comp"), c, Exec)
		}
	}

	// maxDegree: floating-point log_phi against the integer version of the Model
	{
		r := run.R.Fork("maxdeg")
		limit := 3000
		if run.Thorough() {
			limit = 1000000
		}
		var ops []string
		flush := func() {
			if len(ops) > 0 {
				run.Do("maxdeg", hx.Case{Header: "comp=maxdeg", Ops: ops}, Exec)
				ops = nil
			}
		}
		for n := 1; n <= limit; n++ {
			ops = append(ops, fmt.Sprintf("maxdeg %d", n))
			if len(ops) == 5000 {
				flush()
			}
		}
		// around every Lucas number (where phi^k is closest to an integer) and random large sizes
		l0, l1 := 2, 1
		for k := 0; k <= 30; k++ {
			for d := -2; d <= 2; d++ {
				if l0+d >= 1 {
					ops = append(ops, fmt.Sprintf("maxdeg %d", l0+d))
				}
			}
			l0, l1 = l1, l0+l1
		}
		for k := 0; k < run.Scale(200); k++ {
			ops = append(ops, fmt.Sprintf("maxdeg %d", 1+r.Intn(1<<uint(r.Range(4, 30)))))
		}
		flush()
	}

	maxCap := 12
	if run.Thorough() {
		maxCap = 40
	}
	for _, comp := range Comps {
		r := run.R.Fork(comp)
		n := run.Scale(2500)
		for k := 0; k < n; k++ {
			cap := r.Range(0, 12)
			if run.Thorough() && r.Chance(1, 5) {
				cap = r.Range(13, maxCap)
			}
			g := genCfg{cap: cap, universe: hx.Pick(r, []int{3, 6, 6, 20, 100}), sparse: r.Chance(1, 3), n: r.Range(8, 90)}
			if cap > 12 {
				g.n = r.Range(60, 400)
			}
			ord := hx.Pick(r, Ords)
			ops := genOps(r, g)
			if r.Chance(1, 3) {
				ops = append(ops, drain(cap)...)
			}
			run.Do(comp, hx.Case{Header: fmt.Sprintf("comp=%s cap=%d ord=%s", comp, cap, ord), Ops: ops}, Exec)
		}
		smallExhaustive(run, comp)
		for k := 0; k < run.Scale(60); k++ {
			cap := r.Range(4, 10)
			run.Do(comp, hx.Case{Header: fmt.Sprintf("comp=%s cap=%d ord=%s", comp, cap, hx.Pick(r, Ords)), Ops: sparseDeleteAll(r, cap)}, Exec)
		}
		// full heaps of capacity 8..16 under a storm of ChangeKey in both directions, then drained
		for k := 0; k < run.Scale(120); k++ {
			cap := r.Range(8, 16)
			ord := hx.Pick(r, Ords)
			run.Do(comp, hx.Case{Header: fmt.Sprintf("comp=%s cap=%d ord=%s", comp, cap, ord), Ops: fullStorm(r, cap)}, Exec)
		}
		// adversarial families: fill completely in ascending / descending / zig-zag key order, then a storm of
		// ChangeKey and DeleteIndex on every position, then drain
		for _, cap := range []int{1, 2, 3, 4, 5, 7, 8, 9, 12} {
			for fam := 0; fam < 3; fam++ {
				for _, ord := range Ords {
					var ops []string
					for i := 0; i < cap; i++ {
						k := i
						switch fam {
						case 1:
							k = cap - i
						case 2:
							k = (i % 2) * (cap - i)
						}
						ops = append(ops, fmt.Sprintf("insert %d %d %s", i, k, letters[i%5]))
					}
					ops = append(ops, "dump")
					for j := 0; j < 3*cap; j++ {
						switch r.Intn(3) {
						case 0:
							ops = append(ops, fmt.Sprintf("changekey %d %d", r.Intn(cap), r.Intn(2*cap+1)-cap/2))
						case 1:
							i := r.Intn(cap)
							ops = append(ops, fmt.Sprintf("deleteindex %d", i), "dump", fmt.Sprintf("insert %d %d %s", i, r.Intn(cap+1), hx.Pick(r, letters)))
						default:
							ops = append(ops, "delete", "dump", fmt.Sprintf("insert %d %d %s", r.Intn(cap), r.Intn(cap+1), hx.Pick(r, letters)))
						}
						ops = append(ops, "dump", "peek")
					}
					ops = append(ops, drain(cap)...)
					run.Do(comp, hx.Case{Header: fmt.Sprintf("comp=%s cap=%d ord=%s", comp, cap, ord), Ops: ops}, Exec)
				}
			}
		}
	}

	hardFamilies(run)
	secondRound(run)
	hugeFamilies(run)

	if run.Thorough() {
		// every history of length <= 6 over a 9-letter alphabet, cap 3 (index 3 is out of range), both orders
		alpha := []string{"insert 0 1 a", "insert 1 0 b", "insert 2 1 c", "insert 3 0 d", "changekey 1 2", "changekey 2 0",
			"delete", "deleteindex 0", "deleteindex 2"}
		alpha6 := []string{"insert 0 1 a", "insert 1 0 b", "insert 2 1 c", "changekey 1 2", "changekey 2 0", "deleteindex 0"}
		for _, comp := range Comps {
			for _, ord := range []string{"min", "max"} {
				for n := 1; n <= 5; n++ {
					exhaustive(alpha, n, func(ops []string) {
						run.Do(comp, hx.Case{Header: fmt.Sprintf("comp=%s cap=3 ord=%s", comp, ord),
							Ops: append(ops, "dump", "peek", "containskey 0", "size")}, Exec)
					})
				}
				// length 6 and 7 over the six ops that matter most for the linked structures
				for n := 6; n <= 7; n++ {
					if n == 7 && comp == "ibinary" {
						continue // fully proved; length 7 only for the two linked implementations
					}
					exhaustive(alpha6, n, func(ops []string) {
						run.Do(comp, hx.Case{Header: fmt.Sprintf("comp=%s cap=3 ord=%s", comp, ord),
							Ops: append(ops, "dump", "delete", "dump")}, Exec)
					})
				}
			}
		}
		run.Stats.Extra["exhaustive_part"] = "all histories of length<=5 over 9 ops and of length 6-7 over 6 ops (cap 3, one out-of-range index), 3 implementations x min/max; maxDegree for every n <= 10^6"
	}
}
