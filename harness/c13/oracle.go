package c13

// Oracle parts that do not depend on the word table of a case: membership of ONE (possibly long) word in the
// language of an expression over hand-built automata, and a minimal-state count that scales to large DFAs.
// Nothing here reads a result of the code under test.

import (
	"math/bits"
	"sort"
	"strconv"
	"strings"
)

// expr is the language of a register as an expression over hand-built automata (raw snapshots):
// 'l' leaf, 'u' union, 'c' concatenation (left to right), 's' Kleene star of kids[0].
type expr struct {
	kind byte
	leaf *raw
	kids []*expr
}

// regular = the expression needs no splitting of the word (leaves and unions only)
func (e *expr) regular() bool {
	switch e.kind {
	case 'l':
		return true
	case 'u':
		for _, k := range e.kids {
			if !k.regular() {
				return false
			}
		}
		return true
	}
	return false
}

// maxSplitWord bounds the word length for which concatenations and stars are decided (a table of all sub-words)
const maxSplitWord = 1300

// member decides w ∈ L(e); known = false when the word is too long for the sub-word table
func (e *expr) member(w []int) (in, known bool) {
	if e.regular() {
		return e.direct(w), true
	}
	if len(w) > maxSplitWord {
		return false, false
	}
	t := e.table(w)
	n := len(w)
	return t[0][n>>6]&(1<<(uint(n)&63)) != 0, true
}

func (e *expr) direct(w []int) bool {
	if e.kind == 'l' {
		return e.leaf.accepts(w)
	}
	for _, k := range e.kids {
		if k.direct(w) {
			return true
		}
	}
	return false
}

// table[i] = the set {j | w[i:j] ∈ L(e)} as a bit set over 0..len(w)
func (e *expr) table(w []int) [][]uint64 {
	n := len(w)
	words := n/64 + 1
	t := make([][]uint64, n+1)
	for i := range t {
		t[i] = make([]uint64, words)
	}
	set := func(row []uint64, j int) { row[j>>6] |= 1 << (uint(j) & 63) }
	has := func(row []uint64, j int) bool { return row[j>>6]&(1<<(uint(j)&63)) != 0 }
	switch e.kind {
	case 'l':
		if c := e.leaf.compile(); c != nil {
			c.table(w, t)
			break
		}
		r := e.leaf
		S0 := r.closure(map[int]bool{r.start: true})
		acc0 := r.hasFinal(S0)
		for i := 0; i <= n; i++ {
			S := S0
			if acc0 {
				set(t[i], i)
			}
			for j := i; j < n && len(S) > 0; j++ {
				S = r.step(S, w[j])
				if r.hasFinal(S) {
					set(t[i], j+1)
				}
			}
		}
	case 'u':
		for _, k := range e.kids {
			kt := k.table(w)
			for i := range t {
				for q := range t[i] {
					t[i][q] |= kt[i][q]
				}
			}
		}
	case 'c':
		cur := e.kids[0].table(w)
		for _, k := range e.kids[1:] {
			kt := k.table(w)
			nxt := make([][]uint64, n+1)
			for i := 0; i <= n; i++ {
				nxt[i] = make([]uint64, words)
				for m := i; m <= n; m++ {
					if has(cur[i], m) {
						for q := range nxt[i] {
							nxt[i][q] |= kt[m][q]
						}
					}
				}
			}
			cur = nxt
		}
		t = cur
	case 's':
		kt := e.kids[0].table(w)
		for i := n; i >= 0; i-- {
			set(t[i], i)
			for m := i + 1; m <= n; m++ {
				if has(kt[i], m) {
					for q := range t[i] {
						t[i][q] |= t[m][q]
					}
				}
			}
		}
	}
	return t
}

// minimalCountMoore: the number of classes of Moore's refinement over all states (a missing transition is its own
// target, different from every state).  Same answer as the table-filling count, in O(rounds * states * symbols).
func (r *dstruct) minimalCountMoore() int {
	class := map[int]int{}
	for _, s := range r.states {
		if r.final[s] {
			class[s] = 1
		} else {
			class[s] = 0
		}
	}
	count := func() int {
		seen := map[int]bool{}
		for _, c := range class {
			seen[c] = true
		}
		return len(seen)
	}
	cur := count()
	for {
		ids := map[string]int{}
		next := make(map[int]int, len(class))
		var b strings.Builder
		for _, s := range r.states {
			b.Reset()
			b.WriteString(strconv.Itoa(class[s]))
			for _, a := range r.syms {
				b.WriteByte(',')
				if t, ok := r.next[[2]int{s, a}]; ok {
					b.WriteString(strconv.Itoa(class[t]))
				} else {
					b.WriteByte('x')
				}
			}
			k := b.String()
			id, ok := ids[k]
			if !ok {
				id = len(ids)
				ids[k] = id
			}
			next[s] = id
		}
		class = next
		if n := count(); n == cur {
			return n
		} else {
			cur = n
		}
	}
}

// sortedKeys of a state set
func sortedSet(m map[int]bool) []int {
	out := make([]int, 0, len(m))
	for x := range m {
		out = append(out, x)
	}
	sort.Ints(out)
	return out
}

// compiled: a frozen raw with its states numbered, as bit sets (for the sub-word tables, which simulate it from
// every position of the word); nil for automata too large for a closure row per state
type compiled struct {
	words int
	start []uint64           // eps-closure of the start state
	fin   []uint64           // accepting states
	step  map[int][][]uint64 // symbol -> state -> eps-closure of its targets (nil: none)
}

func (r *raw) compile() *compiled {
	if r.comp != nil {
		return r.comp
	}
	st := r.states()
	if len(st) > 2048 || !r.shared {
		return nil
	}
	idx := make(map[int]int, len(st))
	for i, s := range st {
		idx[s] = i
	}
	c := &compiled{words: len(st)/64 + 1, step: map[int][][]uint64{}}
	bits := func(S map[int]bool) []uint64 {
		b := make([]uint64, c.words)
		for s := range S {
			b[idx[s]>>6] |= 1 << (uint(idx[s]) & 63)
		}
		return b
	}
	c.start = bits(r.closure(map[int]bool{r.start: true}))
	fin := map[int]bool{}
	for f := range r.final {
		if _, ok := idx[f]; ok {
			fin[f] = true
		}
	}
	c.fin = bits(fin)
	for k, ts := range r.out {
		if k[1] == 0 || len(ts) == 0 {
			continue
		}
		if c.step[k[1]] == nil {
			c.step[k[1]] = make([][]uint64, len(st))
		}
		T := map[int]bool{}
		for t := range ts {
			T[t] = true
		}
		c.step[k[1]][idx[k[0]]] = bits(r.closure(T))
	}
	r.comp = c
	return c
}

func (c *compiled) table(w []int, t [][]uint64) {
	n := len(w)
	meets := func(a, b []uint64) bool {
		for i := range a {
			if a[i]&b[i] != 0 {
				return true
			}
		}
		return false
	}
	acc0 := meets(c.start, c.fin)
	cur := make([]uint64, c.words)
	nxt := make([]uint64, c.words)
	for i := 0; i <= n; i++ {
		copy(cur, c.start)
		if acc0 {
			t[i][i>>6] |= 1 << (uint(i) & 63)
		}
		for j := i; j < n; j++ {
			rows := c.step[w[j]]
			for q := range nxt {
				nxt[q] = 0
			}
			any := false
			if rows != nil {
				for q, word := range cur {
					for word != 0 {
						b := word & -word
						word ^= b
						s := q<<6 + trailing(b)
						if row := rows[s]; row != nil {
							for x := range nxt {
								nxt[x] |= row[x]
							}
							any = true
						}
					}
				}
			}
			if !any {
				break
			}
			cur, nxt = nxt, cur
			if meets(cur, c.fin) {
				t[i][(j+1)>>6] |= 1 << (uint(j+1) & 63)
			}
		}
	}
}

func trailing(b uint64) int { return bits.TrailingZeros64(b) }
