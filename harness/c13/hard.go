package c13

// Hardening families (HARDENING.md): threshold sweeps along every size-like dimension of an automaton (Axis 1),
// unusual but legal ways of using the API (Axis 2) and state ids / symbols that coincide with something internal
// (Axis 3).  Every family is a generator of ordinary cases of the line protocol; header key fam=<name>.

import (
	"fmt"
	"math"
	"os"
	"strconv"
	"strings"

	"verifharness/hx"
)

// sizes above which a case is judged by the oracle only (hx.Case.NoModel): the executable Lean Model is a list
// program written for the proofs (association lists, quadratic set operations, a cubic self-check after Minimize).
// A family also gets the hint `model`: the quick tier hands the larger sizes to the Model for a few cases chosen by
// the seed only (a Model run at 1024 states costs seconds), the thorough tier for all of them.
const (
	modelCapStates   = 1100 // linear operations of the implementation
	modelCapMinimize = 300  // Minimize (stableB of the driver is cubic; a path needs a round per state)
	subsetCap        = 130  // subset constructions that ask for (size) closures in each of (size) subsets
)

// ---------------------------------------------------------------- state ids and symbols

// idScheme maps the index of a state to its id
type idScheme struct {
	name string
	f    func(i int) int
}

func idSchemes() []idScheme {
	return []idScheme{
		{"plain", func(i int) int { return i }},
		{"gaps", func(i int) int { return 7 + 3*i }},
		{"negative", func(i int) int { return -2 - i }},
		{"huge-sparse", func(i int) int { return 1<<40 + i*1000003 }},
		{"top", func(i int) int { return math.MaxInt - i }},
		{"bottom", func(i int) int { return math.MinInt + i }},
		{"low-byte-equal", func(i int) int { return 5 + i<<8 }},
		{"low-16-equal", func(i int) int { return 5 + i<<16 }},
		{"low-32-equal", func(i int) int { return 5 + i<<32 }},
		{"non-rune", func(i int) int { return 0xD7FE + i }}, // runs through the surrogate range
		{"above-rune", func(i int) int { return 0x10FFFE + i }},
	}
}

// wildIDs: the pool the small random cases draw from (Axis 3: negative, MaxInt/MinInt, outside the rune range,
// surrogates, ids that are equal after truncation to 8, 16 or 32 bits); never -1, the "invalid state"
var wildIDs = []int{
	math.MaxInt, math.MaxInt - 1, math.MinInt, math.MinInt + 1, -2, -3, -256, -65536, -0x110000,
	5, 5 + 1<<8, 5 + 1<<16, 5 + 1<<32, 5 + 1<<8 + 1<<32, 1 << 31, 1<<31 - 1, -(1 << 31), 1 << 32, 1<<32 + 5, 1 << 62,
	0xD800, 0xD801, 0xDFFF, 0xFFFD, 0x10FFFF, 0x110000, 0x110001, 3000001, 3000002, 255, 256, 65535, 65536, 0, 1,
}

// symbol schemes of the small random cases: contiguous, with gaps, and pairs on either side of every boundary of
// the UTF-8 / UTF-16 encodings of a rune, the largest rune, a surrogate, the extremes of int32 (eps = 0 is never a
// member of an alphabet: the package says so)
var sigmaSchemes = [][]int{
	{97, 98}, {97, 99}, {98, 120}, {1, 98}, {97, 98, 99}, {97, 100, 120},
	{0x7F, 0x80}, {0x7FF, 0x800}, {0xFFFF, 0x10000}, {0x10FFFE, 0x10FFFF}, {0xD7FF, 0xD800}, {0xDFFF, 0xE000},
	{1, math.MaxInt32}, {-1, math.MinInt32}, {0xFFFD, 0x110000}, {0x80, 0x800, 0x10000},
}

// symbols of a large alphabet: m consecutive code points placed so that they straddle a boundary
func bigSigma(r *hx.Rand, m int) []int {
	var lo int
	switch r.Intn(7) {
	case 0:
		lo = 1 // starts right after eps
	case 1:
		lo = 0x80 - m/2
		if lo < 1 {
			lo = 1
		}
	case 2:
		lo = 0x800 - m/2
	case 3:
		lo = 0x10000 - m/2
	case 4:
		lo = 0x10FFFF - m + 1 // ends at the largest rune
	case 5:
		lo = 0xD800 - m/2 // into the surrogates
	default:
		lo = 0x110000 - m/2 // across the end of the rune range
	}
	out := make([]int, m)
	for i := range out {
		out[i] = lo + i
	}
	return out
}

func rep(a, n int) []int {
	w := make([]int, n)
	for i := range w {
		w[i] = a
	}
	return w
}

func accw(x string, w []int) string { return fmt.Sprintf("accw %s %s", x, joinInts(w)) }

// ---------------------------------------------------------------- Axis 1: number of states, word length

// famChain: a DFA that is one long path, built to n-1 states, queried, grown to n and to n+1 states and queried on
// each side; every operation whose running time is (near) linear is applied, the others below their caps.
func famChain(r *hx.Rand, n int, model bool) hx.Case {
	sch := hx.Pick(r, idSchemes())
	id := sch.f
	if n < 3 {
		n = 3
	}
	ops := []string{fmt.Sprintf("dfa A %d %d", id(0), id(n-2))}
	for i := 0; i+1 <= n-2; i++ {
		ops = append(ops, fmt.Sprintf("dadd A %d 97 %d", id(i), id(i+1)))
	}
	ops = append(ops, fmt.Sprintf("dadd A %d 98 %d", id(0), id(n-2))) // a short cut: the language is {a^(n-2), b}
	query := func(m int, tag string, heavy bool) {
		// A has m states here and accepts a^(n-2) .. a^(m-1) and b
		for _, l := range []int{m - 2, m - 1, m, m + 1} {
			if l >= 0 {
				ops = append(ops, accw("A", rep(97, l)))
			}
		}
		ops = append(ops, fmt.Sprintf("next A %d 97", id(m-1)), fmt.Sprintf("next A %d 97", id(m-2)), "equal A A",
			"clone K"+tag+" A", "equal K"+tag+" A", "tonfa N"+tag+" A", accw("N"+tag, rep(97, m-1)), accw("N"+tag, rep(97, m)),
			"reidx R"+tag+" A", accw("R"+tag, rep(97, m-1)), "elim L"+tag+" A", accw("L"+tag, rep(97, m-1)), "union U"+tag+" N"+tag+" N"+tag, accw("U"+tag, rep(97, m-1)))
		if !heavy {
			return
		}
		ops = append(ops, "star S"+tag+" N"+tag, accw("S"+tag, []int{98, 98, 98}), "concat C"+tag+" N"+tag+" N"+tag, accw("C"+tag, []int{98, 98}), accw("C"+tag, []int{98}),
			"acc A", "symbols A", "states A", fmt.Sprintf("trans A %d", r.Intn(4)), "iso A A", "equal L"+tag+" A", "states R"+tag)
		if m <= modelCapStates {
			ops = append(ops, "todfa D"+tag+" N"+tag, accw("D"+tag, rep(97, m-1)), "combine X"+tag+" A A", accw("X"+tag, rep(97, m-1)))
			if m <= 300 { // the oracle decides a concatenation or a star with a table of all sub-words
				ops = append(ops, accw("S"+tag, append(rep(97, m-1), 98)), accw("C"+tag, append([]int{98}, rep(97, m-1)...)),
					accw("S"+tag, append(rep(97, m-1), rep(97, m-1)...)), accw("C"+tag, rep(97, 2*m-2)))
			}
		}
		if m <= modelCapMinimize {
			ops = append(ops, "min M"+tag+" A", accw("M"+tag, rep(97, m-1)), "states M"+tag)
		}
	}
	if n > modelCapStates {
		// implementation only: the operations that take well under a second at this size, a few of them per case
		menu := [][]string{
			{"clone K A", "equal K A", accw("K", rep(97, n-2))},
			{"tonfa N A", accw("N", rep(97, n-2)), accw("N", rep(97, n-1))},
			{"reidx R A", accw("R", rep(97, n-2)), accw("R", []int{98})},
			{"elim L A", accw("L", rep(97, n-2)), "equal L A"},
			{"tonfa N A", "union U N N", accw("U", rep(97, n-2)), accw("U", []int{98, 98})},
			{"tonfa N A", "star S N", accw("S", []int{98, 98, 98}), accw("S", []int{98, 97})},
			{"tonfa N A", "concat C N N", accw("C", []int{98, 98}), accw("C", []int{98})},
			{"states A", "symbols A", "trans A 3"},
			{"iso A A", "equal A A"},
			{"acc A", fmt.Sprintf("next A %d 97", id(n-2)), fmt.Sprintf("next A %d 97", id(n-3))},
		}
		pick := func(k int) {
			for ; k > 0; k-- {
				ops = append(ops, hx.Pick(r, menu)...)
			}
		}
		ops = append(ops, accw("A", rep(97, n-2)), accw("A", rep(97, n-1)))
		pick(1)
		ops = append(ops, fmt.Sprintf("dadd A %d 97 %d", id(n-2), id(n-1)), fmt.Sprintf("addfinal A %d", id(n-1)), accw("A", rep(97, n-1)), accw("A", rep(97, n)))
		pick(1)
		if model { // here: the thorough tier, which can afford more of them
			pick(4)
		}
		return hx.Case{Header: fmt.Sprintf("comp=automata k=2 sig=97,98 fam=chain n=%d ids=%s", n, sch.name), Ops: ops, NoModel: true}
	}
	heavyAt := r.Intn(3) // the expensive operations run on one side of the size only
	query(n-1, "1", heavyAt == 0)
	ops = append(ops, fmt.Sprintf("dadd A %d 97 %d", id(n-2), id(n-1)), fmt.Sprintf("addfinal A %d", id(n-1)))
	query(n, "2", heavyAt == 1)
	ops = append(ops, fmt.Sprintf("dadd A %d 97 %d", id(n-1), id(n)), fmt.Sprintf("addfinal A %d", id(n)))
	query(n+1, "3", heavyAt == 2)
	// the results of the first round were kept: read them again
	ops = append(ops, accw("K1", rep(97, n-2)), accw("K1", rep(97, n-1)), accw("R1", rep(97, n-2)), accw("U1", rep(97, n-1)), "equal K1 A", "equal K3 A")
	if n <= modelCapStates {
		var ps []string
		for i := 0; i <= n; i++ {
			ps = append(ps, fmt.Sprintf("%d:%d", id(i), id(i)+1)) // order-preserving: the first arrangement Isomorphic tries
		}
		if sch.name != "top" {
			ops = append(ops, "rename Q A "+strings.Join(ps, ","), "iso A Q", "iso Q A", accw("Q", rep(97, n)))
		}
	}
	return hx.Case{Header: fmt.Sprintf("comp=automata k=2 sig=97,98 fam=chain n=%d ids=%s", n, sch.name), Ops: ops, NoModel: !model || n > modelCapStates}
}

// famCycle: a complete DFA that is one cycle; all states accepting (Minimize: one class, the initial partition has
// an empty group) or every other one (two classes): Minimize is linear here, so it runs at every size.
func famCycle(r *hx.Rand, n int, model bool) hx.Case {
	sch := hx.Pick(r, idSchemes())
	id := sch.f
	if n < 2 {
		n = 2
	}
	every := r.Range(1, 3)
	if n%every != 0 {
		every = 1
	}
	var fin []int
	for i := 0; i < n; i += every {
		fin = append(fin, id(i))
	}
	ops := []string{fmt.Sprintf("dfa A %d %s", id(0), joinInts(fin))}
	for i := 0; i < n; i++ {
		ops = append(ops, fmt.Sprintf("dadd A %d 97 %d", id(i), id((i+1)%n)))
	}
	ops = append(ops, "acc A", accw("A", rep(97, n)), accw("A", rep(97, n+1)), accw("A", rep(97, 2*n+every)), "min M A", "states M", "acc M", accw("M", rep(97, n+1)))
	if n > 4096 { // implementation only; the other operations at this size are the business of the chain family
		ops = append(ops, fmt.Sprintf("dadd A %d 97 %d", id(n-1), id(n)), accw("A", rep(97, n)), accw("A", rep(97, n+1)), "acc M", accw("M", rep(97, n+1)))
		return hx.Case{Header: fmt.Sprintf("comp=automata k=3 sig=97 fam=cycle n=%d every=%d ids=%s", n, every, sch.name), Ops: ops, NoModel: true}
	}
	ops = append(ops, "min MM M", "iso M MM", "reidx R A", "elim L A", "equal L A", "clone K A", "equal A K", "tonfa N A", accw("N", rep(97, n+1)),
		// break the cycle: the last state loses its way back and gets a way out
		fmt.Sprintf("dadd A %d 97 %d", id(n-1), id(n)), "acc A", accw("A", rep(97, n)), accw("A", rep(97, n+1)), "acc M", accw("M", rep(97, n+1)), "reidx R2 A", accw("R2", rep(97, n)), "elim L2 A", accw("L2", rep(97, n-1)))
	if n <= modelCapMinimize { // now a path: Minimize needs a round per state
		ops = append(ops, "min M2 A", accw("M2", rep(97, n)), accw("M2", rep(97, n+1)), "states M2")
	}
	return hx.Case{Header: fmt.Sprintf("comp=automata k=3 sig=97 fam=cycle n=%d every=%d ids=%s", n, every, sch.name), Ops: ops, NoModel: !model || n > modelCapStates}
}

// famFan: an NFA whose eps-closure of the start state has more than n states (a fan of eps-moves and an eps-path):
// the stack and the closure set of εClosure, and the subsets of the subset construction, cross the size.
func famFan(r *hx.Rand, n int, model bool) hx.Case {
	sch := hx.Pick(r, idSchemes())
	id := sch.f
	// states: 0 start, 1 final, 2..n+1 fan, n+2..2n+1 path
	fan := make([]int, n)
	for i := range fan {
		fan[i] = id(2 + i)
	}
	ops := []string{fmt.Sprintf("nfa A %d %d", id(0), id(1))}
	half := n / 2
	ops = append(ops, fmt.Sprintf("add A %d 0 %s", id(0), joinInts(fan[:half]))) // one call with many targets
	for _, t := range fan[half:] {                                               // and many calls with one target
		ops = append(ops, fmt.Sprintf("add A %d 0 %d", id(0), t))
	}
	for i, s := range fan {
		a := 97
		if i%2 == 1 {
			a = 98
		}
		ops = append(ops, fmt.Sprintf("add A %d %d %d", s, a, id(1)))
	}
	path := n
	if path > 300 {
		path = 300
	}
	prev := id(0)
	for i := 0; i < path; i++ {
		ops = append(ops, fmt.Sprintf("add A %d 0 %d", prev, id(n+2+i)))
		prev = id(n + 2 + i)
	}
	ops = append(ops, fmt.Sprintf("add A %d 99 %d", prev, id(1)), fmt.Sprintf("add A %d 97 %d", id(1), id(0)))
	ops = append(ops, "acc A", accw("A", []int{97, 97}), accw("A", []int{99, 97, 98}), "todfa D A", "acc D", accw("D", []int{98, 97, 99}), "states A", "symbols A", fmt.Sprintf("next A %d 0", id(0)), "trans A 2",
		"clone K A", "equal K A", "equal A A", "iso A A", "star S A", accw("S", []int{97, 98}), "union U A A", accw("U", []int{99}), "concat C A A", accw("C", []int{97, 99}), accw("C", []int{97}), "todfa DC C", "min MC DC",
		// one more eps-target, and an eps-move out of the end of the path (a state that the start reaches by eps-moves only)
		fmt.Sprintf("add A %d 0 %d", id(0), id(2*n+400)), fmt.Sprintf("add A %d 100 %d", id(2*n+400), id(1)),
		fmt.Sprintf("add A %d 0 %d", prev, id(2*n+401)), fmt.Sprintf("add A %d 101 %d", id(2*n+401), id(1)),
		"acc A", accw("A", []int{100}), accw("A", []int{101}), accw("A", []int{99, 97, 101}), "todfa D2 A", accw("D2", []int{101}), accw("D2", []int{100, 97, 99}), accw("D", []int{101}), accw("K", []int{100}), accw("U", []int{98}))
	return hx.Case{Header: fmt.Sprintf("comp=automata k=1 sig=97,98,99 fam=fan n=%d ids=%s", n, sch.name), Ops: ops, NoModel: !model || n > modelCapStates}
}

// famFinals: n accepting states.  NFA: every operation that walks over Final (Union, Star, Concat, ToDFA); DFA: Minimize
// with a large accepting group, CombineDFA's final map.
func famFinals(r *hx.Rand, n int, model bool) hx.Case {
	sch := hx.Pick(r, idSchemes())
	id := sch.f
	fin := make([]int, n)
	for i := range fin {
		fin[i] = id(1 + i)
	}
	// the start state reaches the first 32 accepting states, every accepting state the one 32 further on; some lead back
	// (all of them straight from the start would give Concat n*n transitions to write)
	first := fin
	if len(first) > 32 {
		first = fin[:32]
	}
	ops := []string{fmt.Sprintf("nfa A %d %s", id(0), joinInts(fin[:n-1])), fmt.Sprintf("add A %d 97 %s", id(0), joinInts(first))}
	for i, f := range fin {
		if i+32 < n {
			ops = append(ops, fmt.Sprintf("add A %d 97 %d", f, fin[i+32]))
		}
		if i%3 == 0 {
			ops = append(ops, fmt.Sprintf("add A %d 98 %d", f, id(0)))
		}
	}
	ops = append(ops, "acc A", accw("A", []int{97, 98, 97}), "star S A", accw("S", []int{97, 97}), "union U A A", accw("U", []int{97, 98}), "concat C A A", accw("C", []int{97, 97}), accw("C", []int{97, 98, 97, 97}),
		"todfa D A", accw("D", []int{97, 98, 97}), "min M D", "states A",
		fmt.Sprintf("addfinal A %d", fin[n-1]), fmt.Sprintf("addfinal A %d", id(n+1)), fmt.Sprintf("add A %d 99 %d", id(0), id(n+1)),
		"acc A", accw("A", []int{99}), "star S2 A", accw("S2", []int{99, 97}), "union U2 A A", "concat C2 A A", accw("C2", []int{99, 99}), accw("C2", []int{99, 97}), "todfa D2 A", accw("D2", []int{99}),
		accw("S", []int{99}), accw("C", []int{97, 99}), "acc D", "clone K A", "equal K A", "iso A A")
	// the DFA side: a path whose states are all accepting but one
	m := n
	if m > modelCapMinimize-10 {
		m = modelCapMinimize - 10 // Minimize needs a round per state of the path, each quadratic in the accepting group
	}
	ops = append(ops, fmt.Sprintf("dfa B %d %s", id(0), joinInts(fin[:m])))
	for i := 0; i < m; i++ {
		ops = append(ops, fmt.Sprintf("dadd B %d 97 %d", id(i), id(i+1)))
	}
	ops = append(ops, "acc B", accw("B", rep(97, m)), accw("B", rep(97, m+1)), "min MB B", accw("MB", rep(97, m)), "combine X B B", accw("X", rep(97, m)), "elim LB B", "reidx RB B", "tonfa NB B", "equal B B")
	return hx.Case{Header: fmt.Sprintf("comp=automata k=1 sig=97,98,99 fam=finals n=%d ids=%s", n, sch.name), Ops: ops, NoModel: !model || n > modelCapStates}
}

// ---------------------------------------------------------------- Axis 1: alphabet size

// famAlphabet: m input symbols.  A: two states, every symbol leads from the first to the second.  B: a star, every
// symbol leads to a state of its own (the queue of ReindexStates holds m states), each of which goes on with the
// next symbol only: m+2 classes for Minimize, found in one round.
func famAlphabet(r *hx.Rand, m int, model bool) hx.Case {
	sig := bigSigma(r, m)
	sch := hx.Pick(r, idSchemes())
	id := sch.f
	ops := []string{fmt.Sprintf("dfa A %d %d", id(0), id(1))}
	for _, a := range sig {
		ops = append(ops, fmt.Sprintf("dadd A %d %d %d", id(0), a, id(1)))
	}
	ops = append(ops, fmt.Sprintf("dadd A %d %d %d", id(1), sig[0], id(1)))
	ops = append(ops, "acc A", "symbols A", "min MA A", "tonfa NA A", "todfa DA NA", "star SA NA", "acc SA", "concat CA NA NA", accw("CA", []int{sig[m-1], sig[0]}), accw("CA", []int{sig[m-1], sig[m-1]}),
		"reidx RA A", "elim LA A", "clone KA A", "equal KA A", "iso A A", "trans A "+fmt.Sprint(m-1), "trans A "+fmt.Sprint(m+2))
	ops = append(ops, fmt.Sprintf("dfa B %d %d", id(0), id(1)))
	for i, a := range sig {
		ops = append(ops, fmt.Sprintf("dadd B %d %d %d", id(0), a, id(2+i)), fmt.Sprintf("dadd B %d %d %d", id(2+i), sig[(i+1)%m], id(1)))
	}
	ops = append(ops, "acc B", accw("B", []int{sig[0], sig[1%m]}), accw("B", []int{sig[m-1], sig[0]}), accw("B", []int{sig[m-1], sig[m-1]}), accw("B", []int{sig[m/2], sig[(m/2+1)%m]}),
		"symbols B", "states B", "reidx RB B", accw("RB", []int{sig[m-1], sig[0]}), "elim LB B", "tonfa NB B", "union U NA NB", "acc U", "equal B B", "iso B B")
	small := m <= subsetCap // the subset construction asks for m closures in each of m subsets
	if small {
		ops = append(ops, "todfa DB NB", accw("DB", []int{sig[m-1], sig[0]}), "combine X A B", "acc X", accw("X", []int{sig[m-1], sig[0]}))
	} else {
		ops = append(ops, "combine X A A", "acc X")
	}
	if m+2 <= modelCapMinimize {
		ops = append(ops, "min MB B", "states MB", accw("MB", []int{sig[m-1], sig[0]}), accw("MB", []int{sig[0], sig[0]}))
	}
	// one more symbol on either side of the threshold: grow, query again
	extra := sig[m-1] + 1
	ops = append(ops, fmt.Sprintf("dadd A %d %d %d", id(0), extra, id(1)), fmt.Sprintf("dadd B %d %d %d", id(0), extra, id(1)), "symbols A", "symbols B", accw("A", []int{extra}), accw("B", []int{extra}),
		"acc A", "acc X")
	if small {
		ops = append(ops, "combine X2 A B", accw("X2", []int{extra}))
	}
	return hx.Case{Header: fmt.Sprintf("comp=automata k=1 sig=%s fam=alphabet m=%d ids=%s", joinInts(sig), m, sch.name), Ops: ops, NoModel: !model || m > modelCapStates}
}

// ---------------------------------------------------------------- Axis 1: Minimize — classes and rounds

// famClasses: a binary tree over {x,y} with n leaves; leaf j leaves on the symbols that are the bits of j+1 for an
// accepting sink.  All states are pairwise inequivalent (about 2n classes, found in about log n rounds); with
// twin = true the right half of the tree repeats the left one, so that Minimize has to merge it away level by level.
func famClasses(r *hx.Rand, n int, twin bool, model bool) hx.Case {
	sch := hx.Pick(r, idSchemes())
	id := sch.f
	leaves := n
	if twin {
		leaves = 2 * n
	}
	if leaves < 2 {
		leaves = 2
	}
	bits := 1
	for 1<<bits <= 2*leaves+2 {
		bits++
	}
	// heap numbering: node v has children 2v+1, 2v+2; the leaves are the nodes without children
	inner := leaves - 1
	sink := 2*leaves - 1
	ops := []string{fmt.Sprintf("dfa A %d %d", id(0), id(sink))}
	for v := 0; v < inner; v++ {
		ops = append(ops, fmt.Sprintf("dadd A %d 120 %d", id(v), id(2*v+1)), fmt.Sprintf("dadd A %d 121 %d", id(v), id(2*v+2)))
	}
	for j := 0; j < leaves; j++ {
		code := j + 1
		if twin {
			// a leaf and its twin (same position in the other half of its level) get the same code
			code = twinCode(inner+j, leaves) + 1
		}
		for b := 0; b < bits; b++ {
			if code&(1<<b) != 0 {
				ops = append(ops, fmt.Sprintf("dadd A %d %d %d", id(inner+j), 200+b, id(sink)))
			}
		}
	}
	ops = append(ops, "acc A", "min M A", "states M", "acc M")
	if 2*leaves <= modelCapMinimize {
		ops = append(ops, "min MM M", "states MM", "reidx R A", "min MR R", "states MR", "elim L A", "equal L A", "tonfa N A", "todfa D N", "min MD D", "states MD", "combine X A A", "acc X")
	}
	return hx.Case{Header: fmt.Sprintf("comp=automata k=2 sig=120,121,200 fam=classes n=%d twin=%v ids=%s", n, twin, sch.name), Ops: ops, NoModel: !model || 2*leaves > modelCapStates}
}

// twinCode: the index of heap node v within the left half of its level (levels of a complete tree; the last, partial
// level is folded by its own width)
func twinCode(v, leaves int) int {
	// level start: 2^d - 1
	start, width := 0, 1
	for start+width <= v {
		start += width
		width *= 2
	}
	pos := v - start
	if width >= 2 {
		pos %= width / 2
	}
	return pos + start
}

// famRounds: a path (with a second symbol that leads back to the start): state i is told from state i+1 only in
// round n-i, so that the refinement needs about n rounds — one new group per round.
func famRounds(r *hx.Rand, n int, model bool) hx.Case {
	sch := hx.Pick(r, idSchemes())
	id := sch.f
	allFinal := r.Chance(1, 3) // all states accepting: the first group of the initial partition is empty
	fin := []int{id(n - 1)}
	if allFinal {
		fin = nil
		for i := 0; i < n; i++ {
			fin = append(fin, id(i))
		}
	}
	if n < 3 {
		n = 3
	}
	ops := []string{fmt.Sprintf("dfa A %d %s", id(0), joinInts(fin))}
	for i := 0; i+1 < n; i++ {
		ops = append(ops, fmt.Sprintf("dadd A %d 97 %d", id(i), id(i+1)))
		if i%2 == 0 {
			ops = append(ops, fmt.Sprintf("dadd A %d 98 %d", id(i), id(0)))
		}
	}
	ops = append(ops, "acc A", accw("A", rep(97, n-1)), accw("A", rep(97, n)), "min M A", "states M", accw("M", rep(97, n-1)), accw("M", rep(97, n)), accw("M", append(rep(97, n-3), 98, 97)),
		"states M")
	if n <= 130 {
		ops = append(ops, "min MM M", "states MM", "equal M MM")
	}
	if n > 200 {
		return hx.Case{Header: fmt.Sprintf("comp=automata k=3 sig=97,98,99 fam=rounds n=%d allfinal=%v ids=%s", n, allFinal, sch.name), Ops: ops, NoModel: !model || n > modelCapMinimize}
	}
	// a twin of the path's second half hangs off the start: Minimize has to merge it back, one state per round from the far end
	ops = append(ops, fmt.Sprintf("dadd A %d 99 %d", id(0), id(2*n)))
	for i := n / 2; i+1 < n; i++ {
		t := id(2*n + i + 1 - n/2)
		if i+1 == n-1 {
			t = id(n - 1)
		}
		ops = append(ops, fmt.Sprintf("dadd A %d 97 %d", id(2*n+i-n/2), t))
		if allFinal {
			ops = append(ops, fmt.Sprintf("addfinal A %d", id(2*n+i-n/2)))
		}
		if i%2 == 0 {
			ops = append(ops, fmt.Sprintf("dadd A %d 98 %d", id(2*n+i-n/2), id(0)))
		}
	}
	ops = append(ops, "min M2 A", "states M2", accw("M2", append([]int{99}, rep(97, n-1-n/2)...)), accw("M2", append([]int{99}, rep(97, n-n/2)...)), "acc M2", "acc M")
	return hx.Case{Header: fmt.Sprintf("comp=automata k=3 sig=97,98,99 fam=rounds n=%d allfinal=%v ids=%s", n, allFinal, sch.name), Ops: ops, NoModel: !model || n+n/2 > modelCapMinimize}
}

// ---------------------------------------------------------------- Axis 1: number of operands

// famOperands: Union / Concat / CombineDFA with k operands, drawn with repetition from a few objects (so the same
// object occurs many times in one call) and, for a part of the list, objects of their own.
func famOperands(r *hx.Rand, k int, model bool) hx.Case {
	ops := []string{
		"nfa A 3 5", "add A 3 97 5", // {a}
		"nfa B 2 2,4", "add B 2 97 4", // {eps, a}
		"nfa Z 0 1", "add Z 0 97 1", "add Z 1 98 0", // a(ba)*
		"dfa DA 4 6", "dadd DA 4 97 6", // {a}
		"dfa DB 1 3", "dadd DB 1 97 2", "dadd DB 2 97 3", // {aa}
		"dfa DZ 7 7", "dadd DZ 7 98 7", // b*
	}
	own := k / 3
	if own > 90 {
		own = 90
	}
	var ownN, ownD []string
	for i := 0; i < own; i++ {
		x, y := fmt.Sprintf("P%d", i), fmt.Sprintf("E%d", i)
		ops = append(ops, fmt.Sprintf("nfa %s %d %d", x, i, i+1), fmt.Sprintf("add %s %d 97 %d", x, i, i+1))
		ops = append(ops, fmt.Sprintf("dfa %s %d %d", y, i, i+2), fmt.Sprintf("dadd %s %d 97 %d", y, i, i+1), fmt.Sprintf("dadd %s %d 98 %d", y, i+1, i+2)) // {ab}
		ownN = append(ownN, x)
		ownD = append(ownD, y)
	}
	list := func(pool, ownL []string, n int) (string, int) {
		var xs []string
		as := 0
		for i := 0; i < n; i++ {
			x := hx.Pick(r, pool)
			if i < len(ownL) && r.Chance(2, 3) {
				x = ownL[i]
			}
			if x == "A" || strings.HasPrefix(x, "P") {
				as++
			}
			xs = append(xs, x)
		}
		return strings.Join(xs, " "), as
	}
	ul, _ := list([]string{"A", "B", "Z"}, ownN, k)
	cl, as := list([]string{"A", "B"}, ownN, k) // concatenation of {a} and {eps,a}: a^as .. a^k
	dl, _ := list([]string{"DA", "DB", "DZ"}, ownD, k)
	ops = append(ops, "union U "+ul, "acc U", "concat C "+cl, "acc C", accw("C", rep(97, as)), accw("C", rep(97, k)), accw("C", rep(97, k+1)))
	if as > 0 {
		ops = append(ops, accw("C", rep(97, as-1)))
	}
	ops = append(ops, "todfa DU U", "acc DU")
	if k <= 65 { // the subsets of the concatenation have up to k members, and there are k of them
		ops = append(ops, "todfa DC C", accw("DC", rep(97, k)), accw("DC", rep(97, k+1)), "min MC DC", "states MC")
	}
	ops = append(ops, "combine X "+dl, "acc X", "min MX X",
		// the operands are edited afterwards: the results must not move, a second call sees the edit
		"add A 3 98 5", "dadd DA 4 98 6", "acc U", "acc C", "acc X", accw("C", rep(97, k)), "union U2 "+ul, "acc U2", "concat C2 "+cl, accw("C2", rep(98, k)), "combine X2 "+dl, "acc X2")
	return hx.Case{Header: fmt.Sprintf("comp=automata k=3 sig=97,98 fam=operands k=%d", k), Ops: ops, NoModel: !model}
}

// ---------------------------------------------------------------- Axis 1: word length

// walk: a word of about the given length that the hand-built automaton described by the building ops can follow
// (random walk over its non-eps transitions, eps-moves taken silently), ending in an accepting state when it finds one
func walk(r *hx.Rand, build []string, length int) []int {
	type tr struct{ a, t int }
	out := map[int][]tr{}
	final := map[int]bool{}
	start := 0
	for _, op := range build {
		f := strings.Fields(op)
		switch f[0] {
		case "nfa", "dfa":
			fmt.Sscan(f[2], &start)
			l, _ := parseList(f[3])
			for _, x := range l {
				final[x] = true
			}
		case "add":
			var s, a int
			fmt.Sscan(f[2], &s)
			fmt.Sscan(f[3], &a)
			l, _ := parseList(f[4])
			for _, t := range l {
				out[s] = append(out[s], tr{a, t})
			}
		case "dadd":
			var s, a, t int
			fmt.Sscan(f[2], &s)
			fmt.Sscan(f[3], &a)
			fmt.Sscan(f[4], &t)
			out[s] = append(out[s], tr{a, t})
		}
	}
	var w []int
	cur := start
	for steps := 0; steps < 4*length+8; steps++ {
		if len(w) >= length && final[cur] {
			break
		}
		if len(w) >= length+40 || len(out[cur]) == 0 {
			break
		}
		e := hx.Pick(r, out[cur])
		if e.a != 0 {
			w = append(w, e.a)
		}
		cur = e.t
	}
	return w
}

// loopy: building ops of a small automaton in which long walks exist (every state has a way on)
func loopy(r *hx.Rand, x string, nfa bool, sigma []int) []string {
	n := r.Range(2, 4)
	st := ids(r, n)
	fin := []int{hx.Pick(r, st)}
	if r.Chance(1, 2) {
		fin = append(fin, hx.Pick(r, st))
	}
	var ops []string
	if nfa {
		ops = append(ops, fmt.Sprintf("nfa %s %d %s", x, st[0], joinInts(fin)))
		for i, s := range st {
			ops = append(ops, fmt.Sprintf("add %s %d %d %d", x, s, hx.Pick(r, sigma), st[(i+1)%n]))
			if r.Chance(1, 2) {
				ops = append(ops, fmt.Sprintf("add %s %d %d %d", x, s, hx.Pick(r, sigma), hx.Pick(r, st)))
			}
			if r.Chance(1, 4) {
				ops = append(ops, fmt.Sprintf("add %s %d 0 %d", x, s, hx.Pick(r, st)))
			}
		}
	} else {
		ops = append(ops, fmt.Sprintf("dfa %s %d %s", x, st[0], joinInts(fin)))
		for i, s := range st {
			ops = append(ops, fmt.Sprintf("dadd %s %d %d %d", x, s, sigma[0], st[(i+1)%n]))
			if r.Chance(2, 3) {
				ops = append(ops, fmt.Sprintf("dadd %s %d %d %d", x, s, sigma[1], hx.Pick(r, st)))
			}
		}
	}
	return ops
}

// famWords: words of about the given length on small automata and on everything derived from them
func famWords(r *hx.Rand, length int, model bool) hx.Case {
	sigma := hx.Pick(r, sigmaSchemes)
	a := loopy(r, "A", true, sigma)
	b := loopy(r, "B", true, sigma)
	d := loopy(r, "G", false, sigma)
	ops := append(append(append([]string{}, a...), b...), d...)
	ops = append(ops, "star S A", "union U A B", "concat C A B", "concat C3 A B A", "todfa D A", "min M D", "elim L M", "reidx R L", "tonfa N R", "todfa DC C", "min MC DC",
		"min MG G", "tonfa NG G", "combine X G MG", "clone K A", "star SN NG", "concat CG NG A")
	split := length <= maxSplitWord // concatenations and stars are decided by the oracle up to this length
	rounds := 2
	if length > 5000 {
		rounds = 1
	}
	for q := 0; q < rounds; q++ {
		wa, wb, wg := walk(r, a, length), walk(r, b, length), walk(r, d, length)
		for _, x := range []string{"A", "D", "M", "L", "R", "N", "K", "U"} {
			ops = append(ops, accw(x, wa))
		}
		ops = append(ops, accw("B", wb), accw("U", wb), accw("G", wg), accw("MG", wg), accw("NG", wg), accw("X", wg))
		// flip one symbol somewhere: mostly rejected, at a point deep inside the word
		if len(wa) > 2 {
			w2 := append([]int{}, wa...)
			p := r.Intn(len(w2))
			w2[p] = hx.Pick(r, sigma)
			ops = append(ops, accw("A", w2), accw("M", w2), accw("R", w2))
		}
		if split {
			h := length / 2
			ha, hb, hg := walk(r, a, h), walk(r, b, h), walk(r, d, h)
			ops = append(ops, accw("C", append(append([]int{}, ha...), hb...)), accw("DC", append(append([]int{}, ha...), hb...)), accw("MC", append(append([]int{}, ha...), hb...)),
				accw("C", append(append([]int{}, hb...), ha...)), accw("S", append(append([]int{}, ha...), ha...)), accw("SN", append(append([]int{}, hg...), hg...)),
				accw("CG", append(append([]int{}, hg...), ha...)))
			t := length / 3
			ta, tb, tc := walk(r, a, t), walk(r, b, t), walk(r, a, t)
			ops = append(ops, accw("C3", append(append(append([]int{}, ta...), tb...), tc...)), accw("S", append(append(append([]int{}, ta...), tc...), ta...)))
		}
	}
	return hx.Case{Header: fmt.Sprintf("comp=automata k=3 sig=%s fam=words len=%d", joinInts(sigma), length), Ops: ops, NoModel: !model}
}

// ---------------------------------------------------------------- Axis 2: the same object twice

// famSame: the same object as receiver and argument, or several times in one operand list, for every combinator and
// comparison; then the object is edited and everything is read and done again.
func famSame(r *hx.Rand) hx.Case {
	sigma := hx.Pick(r, sigmaSchemes)
	a := genNFA(r, "A", 4, sigma)
	if r.Chance(1, 2) { // a transition back into the start state, as a rule
		st := statesOfOps(a)
		a = append(a, fmt.Sprintf("add A %d %d %d", hx.Pick(r, st), hx.Pick(r, sigma), st0(a)))
	}
	b := genNFA(r, "B", 3, sigma)
	g := genDFA(r, "G", 4, sigma)
	h := genDFA(r, "H", 3, sigma)
	sa, sg := statesOfOps(a), statesOfOps(g)
	ops := append(append(append(append([]string{}, a...), b...), g...), h...)
	round := func(t string) {
		ops = append(ops, "union U"+t+" A A", "union V"+t+" A A A", "union W"+t+" A B A", "union W2"+t+" B A A",
			"concat C"+t+" A A", "concat E"+t+" A A A", "concat F"+t+" A B A", "concat F2"+t+" B A A", "concat F3"+t+" A A B",
			"star S"+t+" A", "star SS"+t+" S"+t, "union US"+t+" S"+t+" S"+t, "concat CS"+t+" S"+t+" S"+t,
			"equal A A", "iso A A", "todfa D"+t+" A", "todfa D2"+t+" A", "equal D"+t+" D2"+t, "iso D"+t+" D2"+t,
			"combine X"+t+" G G", "combine Y"+t+" G G G", "combine Z"+t+" G H G", "combine Z2"+t+" H G G", "combine Z3"+t+" D"+t+" D"+t,
			"equal G G", "iso G G", "min M"+t+" G", "min MM"+t+" M"+t, "iso M"+t+" MM"+t, "equal X"+t+" X"+t, "iso X"+t+" X"+t)
	}
	round("1")
	ops = append(ops, scribble(r, "A", sa, sigma, false), scribble(r, "G", sg, sigma, true))
	if r.Chance(1, 2) {
		ops = append(ops, fmt.Sprintf("addfinal A %d", hx.Pick(r, sa)), fmt.Sprintf("addfinal G %d", hx.Pick(r, sg)))
	}
	// the results of the first round are read again, then everything is done again on the edited objects
	for _, x := range []string{"U1", "V1", "W1", "C1", "E1", "F1", "F21", "F31", "S1", "SS1", "US1", "CS1", "D1", "X1", "Y1", "Z1", "Z31", "M1"} {
		ops = append(ops, "acc "+x)
	}
	ops = append(ops, "dump C1", "dump X1", "dump E1")
	round("2")
	ops = append(ops, "acc A", "acc G")
	return hx.Case{Header: fmt.Sprintf("comp=automata k=3 sig=%s fam=same-object alias=1", joinInts(sigma)), Ops: ops}
}

// st0: the start state of the automaton the building ops describe
func st0(build []string) int {
	var s int
	fmt.Sscan(strings.Fields(build[0])[2], &s)
	return s
}

// ---------------------------------------------------------------- Axis 2: query, edit, query again

// famQEQ: ONE automaton is queried (every kind of query), edited through the API (a transition, an eps-move out of a
// state that other states reach by eps-moves, a new state, a new symbol, a final state added in place, the start
// state moved), and queried again, several times over; earlier results are kept and read again at the end.
func famQEQ(r *hx.Rand, nfa bool) hx.Case {
	sigma := hx.Pick(r, sigmaSchemes)
	var ops, kept []string
	var st, epsTargets, fin []int
	fresh := 0
	newState := func() int {
		if len(st) >= 8 {
			return hx.Pick(r, st)
		}
		for {
			v := hx.Pick(r, wildIDs)
			if r.Chance(1, 2) {
				v = r.Range(-9, 30)
			}
			dup := v == -1
			for _, s := range st {
				if s == v {
					dup = true
				}
			}
			if !dup {
				st = append(st, v)
				return v
			}
		}
	}
	name := func(p string) string {
		fresh++
		x := fmt.Sprintf("%s%d", p, fresh)
		kept = append(kept, x)
		return x
	}
	if nfa {
		// an eps-heavy NFA: a spine of eps-moves with branches
		n := r.Range(2, 5)
		for i := 0; i < n; i++ {
			newState()
		}
		if r.Chance(3, 4) {
			fin = append(fin, hx.Pick(r, st))
		}
		ops = append(ops, fmt.Sprintf("nfa A %d %s", st[0], joinInts(fin)))
		for i := 0; i+1 < n; i++ {
			if r.Chance(2, 3) {
				ops = append(ops, fmt.Sprintf("add A %d 0 %d", st[i], st[i+1]))
				epsTargets = append(epsTargets, st[i+1])
			}
		}
		for e := r.Range(1, n+1); e > 0; e-- {
			ops = append(ops, fmt.Sprintf("add A %d %d %d", hx.Pick(r, st), hx.Pick(r, sigma), hx.Pick(r, st)))
		}
	} else {
		ops = append(ops, genDFA(r, "A", 4, sigma)...)
		st = statesOfOps(ops)
		ops = append(ops, genDFA(r, "B", 3, sigma)...)
	}
	query := func(all bool) {
		var qs []func()
		q := func(f func()) { qs = append(qs, f) }
		q(func() { ops = append(ops, "acc A") })
		q(func() { ops = append(ops, "states A", "symbols A") })
		q(func() {
			ops = append(ops, fmt.Sprintf("next A %d %d", hx.Pick(r, st), hx.Pick(r, append([]int{0}, sigma...))))
		})
		q(func() { ops = append(ops, fmt.Sprintf("trans A %d", r.Intn(5)), "dump A") })
		q(func() { k := name("K"); ops = append(ops, "clone "+k+" A", "equal "+k+" A", "equal A A") })
		q(func() {
			ops = append(ops, "iso A A")
			if len(st) <= 6 { // Isomorphic tries the arrangements of the states one after the other
				x := name("Q")
				ops = append(ops, "rename "+x+" A "+renaming(r, st), "iso A "+x)
			}
		})
		if nfa {
			q(func() { ops = append(ops, "todfa "+name("D")+" A") })
			q(func() { d := name("D"); ops = append(ops, "todfa "+d+" A", "min "+name("M")+" "+d) })
			q(func() { ops = append(ops, "star "+name("S")+" A") })
			q(func() { ops = append(ops, "union "+name("U")+" A A") })
			q(func() { ops = append(ops, "concat "+name("C")+" A A") })
			q(func() {
				w := make([]int, r.Range(1, 4))
				for i := range w {
					w[i] = hx.Pick(r, sigma)
					if r.Chance(1, 8) {
						w[i] = 0 // the code point of eps inside a word: no property speaks about it, implementation and Model must agree
					}
				}
				ops = append(ops, accw("A", w))
			})
		} else {
			q(func() { ops = append(ops, "min "+name("M")+" A") })
			q(func() { l := name("L"); ops = append(ops, "elim "+l+" A", "reidx "+name("R")+" "+l) })
			q(func() { ops = append(ops, "reidx "+name("R")+" A") })
			q(func() { n := name("N"); ops = append(ops, "tonfa "+n+" A", "todfa "+name("D")+" "+n) })
			q(func() { ops = append(ops, "combine "+name("X")+" A A") })
			q(func() { ops = append(ops, "combine "+name("X")+" A B", "combine "+name("X")+" B A") })
		}
		if all {
			for _, f := range qs {
				f()
			}
			return
		}
		for k := r.Range(1, 4); k > 0; k-- {
			hx.Pick(r, qs)()
		}
	}
	edit := func() {
		for k := r.Range(1, 3); k > 0; k-- {
			s, t := hx.Pick(r, st), hx.Pick(r, st)
			if nfa && len(epsTargets) > 0 && r.Chance(2, 3) {
				s = hx.Pick(r, epsTargets) // a state that other states reach by eps-moves
			}
			switch c := r.Intn(10); {
			case nfa && c < 2: // an eps-move between existing states
				ops = append(ops, fmt.Sprintf("add A %d 0 %d", s, t))
				epsTargets = append(epsTargets, t)
			case nfa && c < 4: // an eps-move to a new state that goes on to an accepting state (or anywhere)
				v := newState()
				if len(fin) > 0 && r.Chance(2, 3) {
					t = hx.Pick(r, fin)
				}
				ops = append(ops, fmt.Sprintf("add A %d 0 %d", s, v), fmt.Sprintf("add A %d %d %d", v, hx.Pick(r, sigma), t))
				epsTargets = append(epsTargets, v)
			case c < 6: // a transition between existing states
				if nfa {
					ops = append(ops, fmt.Sprintf("add A %d %d %d", s, hx.Pick(r, sigma), t))
				} else {
					ops = append(ops, fmt.Sprintf("dadd A %d %d %d", s, hx.Pick(r, sigma), t))
				}
			case c < 8: // a new state, with a way in and a way out
				v := newState()
				a, b := hx.Pick(r, sigma), hx.Pick(r, sigma)
				if nfa {
					if r.Chance(1, 2) {
						a = 0
					}
					ops = append(ops, fmt.Sprintf("add A %d %d %d", s, a, v), fmt.Sprintf("add A %d %d %d", v, b, t))
				} else {
					ops = append(ops, fmt.Sprintf("dadd A %d %d %d", s, a, v), fmt.Sprintf("dadd A %d %d %d", v, b, t))
				}
			case c < 9:
				ops = append(ops, fmt.Sprintf("addfinal A %d", s))
				fin = append(fin, s)
			default:
				if r.Chance(1, 2) {
					ops = append(ops, fmt.Sprintf("setstart A %d", s))
				} else {
					ops = append(ops, fmt.Sprintf("setfinal A sorted %s", joinInts([]int{s, t})))
				}
			}
		}
	}
	for rounds := r.Range(2, 4); rounds > 0; rounds-- {
		query(false)
		edit()
	}
	query(true)
	// earlier results: kept, read again
	for _, x := range kept {
		if r.Chance(1, 2) {
			ops = append(ops, "acc "+x)
		}
	}
	fam := "query-edit-query-dfa"
	if nfa {
		fam = "query-edit-query-nfa"
	}
	return hx.Case{Header: fmt.Sprintf("comp=automata k=4 sig=%s fam=%s alias=1", joinInts(sigma), fam), Ops: ops}
}

// famClone: Clone, then either side is edited (transitions, Final in place, Start), both sides are read
func famClone(r *hx.Rand) hx.Case {
	sigma := hx.Pick(r, sigmaSchemes)
	a := genNFA(r, "A", 4, sigma)
	g := genDFA(r, "G", 4, sigma)
	sa, sg := statesOfOps(a), statesOfOps(g)
	ops := append(append([]string{}, a...), g...)
	ops = append(ops, "clone K A", "clone KG G", "clone KK K", "tonfa NG G", "clone KN NG")
	edit := func(x string, st []int, dfa bool) {
		switch r.Intn(4) {
		case 0:
			ops = append(ops, fmt.Sprintf("addfinal %s %d", x, hx.Pick(r, st)))
		case 1:
			ops = append(ops, fmt.Sprintf("setstart %s %d", x, hx.Pick(r, st)))
		default:
			ops = append(ops, scribble(r, x, st, sigma, dfa))
		}
	}
	for q := r.Range(2, 5); q > 0; q-- {
		switch r.Intn(6) {
		case 0:
			edit("A", sa, false)
		case 1:
			edit("K", sa, false)
		case 2:
			edit("G", sg, true)
		case 3:
			edit("KG", sg, true)
		case 4:
			edit("KK", sa, false)
		default:
			edit("NG", sg, false)
		}
		ops = append(ops, "acc A", "acc K", "acc KK", "acc G", "acc KG", "acc NG", "acc KN", "equal K A", "equal KG G", "equal KK K", "equal KN NG")
	}
	ops = append(ops, "dump A", "dump K", "dump G", "dump KG", "states K", "symbols KG", "iso A K", "iso G KG")
	return hx.Case{Header: fmt.Sprintf("comp=automata k=4 sig=%s fam=clone-edit alias=1", joinInts(sigma)), Ops: ops}
}

// ---------------------------------------------------------------- the sweep

var thresholds = []int{63, 64, 65, 255, 256, 257, 1023, 1024, 1025}

// sweepSizes: all thresholds up to cap
func sweepSizes(r *hx.Rand, thorough bool, cap int) []int {
	var out []int
	for _, t := range thresholds {
		if t <= cap {
			out = append(out, t)
		}
	}
	return out
}

// oneFamily: VERIF_C13_FAMILY=<name>:<size> runs a single family case (a debugging aid; never set by bin/check)
func oneFamily(run *hx.Run) bool {
	v := os.Getenv("VERIF_C13_FAMILY")
	if v == "" {
		return false
	}
	name, arg, _ := strings.Cut(v, ":")
	n, _ := strconv.Atoi(arg)
	r := run.R.Fork("hard")
	model := os.Getenv("VERIF_C13_NOMODEL") == ""
	fams := map[string]func() hx.Case{
		"chain": func() hx.Case { return famChain(r, n, model) }, "cycle": func() hx.Case { return famCycle(r, n, model) },
		"fan": func() hx.Case { return famFan(r, n, model) }, "finals": func() hx.Case { return famFinals(r, n, model) },
		"alphabet": func() hx.Case { return famAlphabet(r, n, model) }, "classes": func() hx.Case { return famClasses(r, n, false, model) },
		"twins": func() hx.Case { return famClasses(r, n, true, model) }, "rounds": func() hx.Case { return famRounds(r, n, model) },
		"operands": func() hx.Case { return famOperands(r, n, model) }, "words": func() hx.Case { return famWords(r, n, model) },
		"same": func() hx.Case { return famSame(r) }, "qeq-nfa": func() hx.Case { return famQEQ(r, true) },
		"qeq-dfa": func() hx.Case { return famQEQ(r, false) }, "clone": func() hx.Case { return famClone(r) },
	}
	if f, ok := fams[name]; ok {
		reps := 1
		if n == 0 {
			reps = 50
		}
		for i := 0; i < reps; i++ {
			run.Do("automata", f(), Exec)
		}
	}
	return true
}

// job: one case of the sweep; cost = what the Model pays for it (0 cheap, 1 about a second, 2 seconds)
type job struct {
	cost int
	mk   func(model bool) hx.Case
}

func band(n int) int {
	switch {
	case n <= 130:
		return 0
	case n <= 300:
		return 1
	}
	return 2
}

// hardFamilies runs the threshold sweeps (Axis 1).  The Axis 2 families are part of genCase.
//
// quick: per dimension one size of the band 63..65 and one of the bands 255..257 / 1023..1025, chosen by the seed; all
// cases run on the implementation under the oracle, the Model runs the small band, two cases of the middle band and
// one of the large band (chosen by the seed); one 65536-sized case (implementation only).
// thorough: every size of every band, the boundary sizes of the small dimensions, everything below the caps with the Model.
func hardFamilies(run *hx.Run) {
	r := run.R.Fork("hard")
	th := run.Thorough()
	var jobs []job
	add := func(cost int, mk func(model bool) hx.Case) { jobs = append(jobs, job{cost, mk}) }
	// one dimension: the sizes to run it at
	dim := func(cap int, mk func(n int, m bool) hx.Case) {
		var sizes []int
		if th {
			sizes = sweepSizes(r, true, cap)
		} else {
			// the band around 64 always, and one of the two larger bands
			sizes = []int{thresholds[r.Intn(3)]}
			if t := thresholds[3+r.Intn(6)]; t <= cap {
				sizes = append(sizes, t)
			} else {
				sizes = append(sizes, thresholds[3+r.Intn(3)])
			}
		}
		for _, n := range sizes {
			n := n
			add(band(n), func(m bool) hx.Case { return mk(n, m) })
		}
	}
	dim(1<<20, func(n int, m bool) hx.Case { return famChain(r, n, m) })
	dim(1<<20, func(n int, m bool) hx.Case { return famCycle(r, n, m) })
	dim(1<<20, func(n int, m bool) hx.Case { return famFan(r, n, m) })
	dim(1<<20, func(n int, m bool) hx.Case { return famFinals(r, n, m) })
	dim(1<<20, func(n int, m bool) hx.Case { return famAlphabet(r, n, m) })
	dim(300, func(n int, m bool) hx.Case { return famRounds(r, n, m) })
	dim(300, func(n int, m bool) hx.Case { return famClasses(r, n/2, false, m) })
	dim(300, func(n int, m bool) hx.Case { return famClasses(r, n/4, true, m) })
	dim(300, func(n int, m bool) hx.Case { return famOperands(r, n, m) })
	add(0, func(m bool) hx.Case { return famFan(r, 127+r.Intn(3), m) })             // the block size of the stack of εClosure
	add(1, func(m bool) hx.Case { return famClasses(r, 129+r.Intn(20), false, m) }) // more than 256 classes, still with the Model
	add(0, func(m bool) hx.Case { return famWords(r, []int{1000, 1023, 1024, 1025}[r.Intn(4)], m) })
	add(0, func(m bool) hx.Case { return famWords(r, 4096+r.Intn(3), m) })
	// a size at which only the implementation runs (an oracle-only case)
	add(3, func(bool) hx.Case { return famChain(r, []int{65535, 65536, 65537, 70000}[r.Intn(4)], false) })
	if th {
		for _, n := range []int{3, 4, 5, 70000, 65535, 65536, 65537} {
			n := n
			add(3, func(m bool) hx.Case { return famChain(r, n, m) })
		}
		for _, n := range []int{2, 3, 4096, 65535, 65536, 65537} {
			n := n
			add(3, func(m bool) hx.Case { return famCycle(r, n, m) })
		}
		for _, n := range []int{1, 2, 126, 127, 128, 129, 130, 2048, 4096, 4097} {
			n := n
			add(0, func(m bool) hx.Case { return famFan(r, n, m) })
		}
		for _, n := range []int{2, 3, 4096} {
			n := n
			add(0, func(m bool) hx.Case { return famFinals(r, n, m) })
			add(0, func(m bool) hx.Case { return famAlphabet(r, n, m) })
		}
		for _, n := range []int{2, 3, 31, 32, 33, 127, 128, 129} {
			n := n
			add(0, func(m bool) hx.Case { return famClasses(r, n, false, m) })
			add(0, func(m bool) hx.Case { return famClasses(r, n, true, m) })
			add(0, func(m bool) hx.Case { return famRounds(r, n+1, m) })
		}
		add(3, func(m bool) hx.Case { return famClasses(r, 257, true, m) })
		add(3, func(m bool) hx.Case { return famClasses(r, 513, false, m) })
		for _, k := range []int{1, 2, 3, 127, 128, 129} {
			k := k
			add(0, func(m bool) hx.Case { return famOperands(r, k, m) })
		}
		for _, l := range []int{0, 1, 2, 255, 256, 257, 1000, 1023, 1024, 1025, 1100, 65536, 70000} {
			l := l
			add(0, func(m bool) hx.Case { return famWords(r, l, m) })
		}
	}
	// which of the costly cases the Model runs in the quick tier
	model := make([]bool, len(jobs))
	var mid, large []int
	for i, j := range jobs {
		switch {
		case th || j.cost == 0:
			model[i] = true
		case j.cost == 1:
			mid = append(mid, i)
		case j.cost == 2:
			large = append(large, i)
		}
	}
	if !th {
		for q := 0; q < 2 && len(mid) > 0; q++ {
			model[hx.Pick(r, mid)] = true
		}
		if len(large) > 0 {
			model[hx.Pick(r, large)] = true
		}
	}
	for i, j := range jobs {
		run.Do("automata", j.mk(model[i]), Exec)
	}
}
