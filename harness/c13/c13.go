// Package c13: automata conversions and combinators (automata package) against languages computed
// independently: a direct NFA simulation of the automata the case builds by hand, and brute-force
// language algebra (union, every split for concatenation, dynamic programming for the Kleene star)
// for everything derived from them.
package c13

import (
	"fmt"
	"iter"
	"os"
	"sort"
	"strconv"
	"strings"
	"time"

	"github.com/moorara/algo/automata"
	"github.com/moorara/algo/set"

	"verifharness/hx"
)

const Rule = "cases = little programs over named automata drawn from VERIF_SEED: hand-built NFAs/DFAs over {a,b} " +
	"(eps-moves, 1-5 states with ids from non-contiguous ranges, unreachable and dead states, accepting start " +
	"states, start states with incoming edges) followed by ToDFA/ToNFA/Star/Union/Concat/Minimize/" +
	"EliminateDeadStates/ReindexStates/Clone/CombineDFA/Isomorphic(renamed copy) ops; every result is checked " +
	"on ALL words of length <= k (k=5: 63 words) against the oracle language, Minimize against a table-filling " +
	"minimal state count, CombineDFA's final map word by word; non-trivial = some op consumed an automaton with " +
	"an eps-move, an accepting start state, a start state with an incoming edge, an unreachable or a dead " +
	"state, or Minimize merged states, or a renaming was not the identity, or it is an aliasing case (operands are " +
	"mutated with Add after an operation and the earlier results re-checked on all words and re-dumped, then the " +
	"results are mutated and the operands re-checked); alphabets with gaps ({a,c}, {b,x}, {1,b}), mostly partial " +
	"DFAs, state ids mostly with gaps and sometimes negative (never -1), alphabets of two or three symbols; cases " +
	"that assign the exported Start/Final fields directly (Final as a sorted, an insertion-ordered or an unordered " +
	"set; with an unordered set only languages, not structures, are compared); every case ends with read-only ops on hand-built and derived " +
	"automata: States, Symbols (NFA and DFA), the exported Next (entries that exist, missing ones, eps, an entry with an " +
	"empty target set) and a range over Transitions() broken off after k = 0, a few, or more transitions than there " +
	"are, each checked against the entries the case added when the automaton is hand-built; distinct = distinct (header, op list). " +
	"HARDENING families (hard.go; header fam=…, non-trivial by construction). Axis 1, threshold sweeps at 63..65, 255..257, " +
	"1023..1025 (quick: per dimension one size around 64 and one of the two larger bands, by the seed; thorough: all, plus 2, 3, " +
	"4096, 65535..65537, 70000): number of states (a path DFA built to n-1, n, n+1 states and queried on each side with every " +
	"operation; a cycle; an NFA whose eps-closure has n states: fan and path, the block size 128 of the closure stack), number " +
	"of accepting states, alphabet size (symbols straddling 0x80, 0x800, 0x10000, 0x10FFFF, the surrogates, starting right after " +
	"eps), Minimize with more than 64 / 256 / 1024 classes (a binary tree of pairwise inequivalent states, and one with twin " +
	"halves to merge) and with as many refinement rounds as states (a path, also with every state accepting), 63..257 operands " +
	"of Union/Concat/CombineDFA (drawn with repetition from a few objects), words of length 1000..1025, 4096, 65536 on small " +
	"automata and everything derived from them (membership in a concatenation or star of hand-built automata is decided by a " +
	"table over all sub-words, up to length 1300), one path DFA of 65535..70000 states. Above the size the executable Model can " +
	"afford (1100 states; Minimize 300 states when it needs a round per state; in the quick tier the larger bands except three " +
	"cases chosen by the seed) a case is ORACLE-ONLY (hx.Case.NoModel, counted as oracle_only_cases). Axis 2, as kinds of the " +
	"random cases: the same object as receiver and argument or several times in one operand list for Union, Concat, Star of Star, " +
	"CombineDFA, Equal, Isomorphic, then edited and all results read and made again; ONE automaton queried (every query kind), " +
	"edited (a transition, an eps-move out of a state that other states reach by eps-moves, a new state, `addfinal` = Final.Add " +
	"in place, Start/Final assigned) and queried again, several rounds, the earlier results read again at the end; Clone, then " +
	"either side edited; Equal(x, x) and Isomorphic(x, x) must be true, Equal of two hand-built automata must say whether they " +
	"were built alike. In EVERY case the harness writes to whatever the API handed it or it handed the API, right after the call: " +
	"the slices returned by States/Symbols/Next, the Transition values and their Next slices, CombineDFA's final map, the " +
	"final/next slices given to NewNFA/NewDFA/Add, the operand lists of Union/Concat/CombineDFA, the words given to Accept. " +
	"Axis 3: state ids drawn from MaxInt, MinInt, +-2^31, 2^32, 2^62, the surrogate range, ids above 0x10FFFF, negative ids, " +
	"ids equal in their low 8/16/32 bits (never -1); symbols on either side of every UTF-8/UTF-16 boundary, MaxInt32, MinInt32, -1 " +
	"(never 0 = eps, which the package excludes from alphabets)"

// ---------------------------------------------------------------- words and languages

type words struct {
	sigma []int
	k     int
	all   [][]int
	off   []int       // off[n] = index of the first word of length n
	dig   map[int]int // position of a symbol in sigma (the last one, should sigma repeat a symbol)
}

func mkWords(sigma []int, k int) *words {
	w := &words{sigma: sigma, k: k, dig: map[int]int{}}
	for q, a := range sigma {
		w.dig[a] = q
	}
	pow := 1
	for n := 0; n <= k; n++ {
		w.off = append(w.off, len(w.all))
		for v := 0; v < pow; v++ {
			word := make([]int, n)
			x := v
			for i := n - 1; i >= 0; i-- {
				word[i] = sigma[x%len(sigma)]
				x /= len(sigma)
			}
			w.all = append(w.all, word)
		}
		pow *= len(sigma)
	}
	return w
}

// lang[i] == true iff word i is in the language (restricted to words of length <= k)
type lang []bool

func (ws *words) union(ls ...lang) lang {
	r := make(lang, len(ws.all))
	for _, l := range ls {
		for i, b := range l {
			r[i] = r[i] || b
		}
	}
	return r
}

// index of the sub-word all[i][from:to]
func (ws *words) sub(i, from, to int) int {
	if len(ws.sigma) == 1 {
		return ws.off[to-from]
	}
	w := ws.all[i]
	v := 0
	for j := from; j < to; j++ {
		v = v*len(ws.sigma) + ws.dig[w[j]]
	}
	return ws.off[to-from] + v
}

func (ws *words) concat(a, b lang) lang {
	r := make(lang, len(ws.all))
	for i, w := range ws.all {
		for cut := 0; cut <= len(w); cut++ {
			if a[ws.sub(i, 0, cut)] && b[ws.sub(i, cut, len(w))] {
				r[i] = true
				break
			}
		}
	}
	return r
}

// w in L* iff w is empty or w = u v with u a non-empty prefix in L and v in L* (dynamic programming on suffixes)
func (ws *words) star(a lang) lang {
	r := make(lang, len(ws.all))
	for i, w := range ws.all {
		n := len(w)
		ok := make([]bool, n+1) // ok[p]: w[p:] in L*
		ok[n] = true
		for p := n - 1; p >= 0; p-- {
			for q := p + 1; q <= n; q++ {
				if ok[q] && a[ws.sub(i, p, q)] {
					ok[p] = true
					break
				}
			}
		}
		r[i] = ok[0]
	}
	return r
}

// ---------------------------------------------------------------- independent structure + simulation

// raw is the harness's own picture of a hand-built automaton (never read back from the code under test).
// A raw that an expression of the oracle refers to (shared) is never written again: the register gets a copy first.
type raw struct {
	start  int
	final  map[int]bool
	keys   map[[2]int]bool         // (s, a) pairs for which Add was called (an NFA entry can have an empty target set)
	out    map[[2]int]map[int]bool // (s, a) -> targets
	shared bool
	comp   *compiled // bit-set form of a shared (hence frozen) raw, made on demand
}

func newRaw(start int, fs []int) *raw {
	r := &raw{start: start, final: map[int]bool{}, keys: map[[2]int]bool{}, out: map[[2]int]map[int]bool{}}
	for _, x := range fs {
		r.final[x] = true
	}
	return r
}

func (r *raw) clone() *raw {
	c := newRaw(r.start, nil)
	for f := range r.final {
		c.final[f] = true
	}
	for k := range r.keys {
		c.keys[k] = true
	}
	for k, ts := range r.out {
		m := make(map[int]bool, len(ts))
		for t := range ts {
			m[t] = true
		}
		c.out[k] = m
	}
	return c
}

// addEdges: NFA.Add(s, a, ts)
func (r *raw) addEdges(s, a int, ts []int) {
	k := [2]int{s, a}
	r.keys[k] = true
	if r.out[k] == nil {
		r.out[k] = map[int]bool{}
	}
	for _, t := range ts {
		r.out[k][t] = true
	}
}

// setEdge: DFA.Add(s, a, t) replaces the previous target
func (r *raw) setEdge(s, a, t int) {
	k := [2]int{s, a}
	r.keys[k] = true
	r.out[k] = map[int]bool{t: true}
}

// targets of the entry (s, a), ascending; ok = the entry exists
func (r *raw) entry(s, a int) (ts []int, ok bool) {
	if !r.keys[[2]int{s, a}] {
		return nil, false
	}
	for t := range r.out[[2]int{s, a}] {
		ts = append(ts, t)
	}
	sort.Ints(ts)
	return ts, true
}

// the sorted symbols that label an entry (without eps for an NFA) and the sorted states: what Symbols()/States() promise
func (r *raw) symbols(nfa bool) []int {
	seen := map[int]bool{}
	out := []int{}
	for k := range r.keys {
		if !(nfa && k[1] == 0) && !seen[k[1]] {
			seen[k[1]] = true
			out = append(out, k[1])
		}
	}
	sort.Ints(out)
	return out
}

func (r *raw) states() []int {
	seen := map[int]bool{r.start: true}
	for f := range r.final {
		seen[f] = true
	}
	for k := range r.keys {
		seen[k[0]] = true
	}
	for _, ts := range r.out {
		for t := range ts {
			seen[t] = true
		}
	}
	out := []int{}
	for x := range seen {
		out = append(out, x)
	}
	sort.Ints(out)
	return out
}

func sameInts(a, b []int) bool {
	if len(a) != len(b) {
		return false
	}
	for i := range a {
		if a[i] != b[i] {
			return false
		}
	}
	return true
}

func allDigits(x string) bool {
	if x == "" {
		return false
	}
	for _, c := range x {
		if c < '0' || c > '9' {
			return false
		}
	}
	return true
}

// closure adds to S everything reachable from it on eps-edges (work list)
func (r *raw) closure(S map[int]bool) map[int]bool {
	stack := make([]int, 0, len(S))
	for s := range S {
		stack = append(stack, s)
	}
	for len(stack) > 0 {
		s := stack[len(stack)-1]
		stack = stack[:len(stack)-1]
		for t := range r.out[[2]int{s, 0}] {
			if !S[t] {
				S[t] = true
				stack = append(stack, t)
			}
		}
	}
	return S
}

// step: the states reachable from S by one a-edge followed by eps-edges
func (r *raw) step(S map[int]bool, a int) map[int]bool {
	T := map[int]bool{}
	for s := range S {
		for t := range r.out[[2]int{s, a}] {
			T[t] = true
		}
	}
	return r.closure(T)
}

func (r *raw) hasFinal(S map[int]bool) bool {
	for s := range S {
		if r.final[s] {
			return true
		}
	}
	return false
}

func (r *raw) accepts(w []int) bool {
	S := r.closure(map[int]bool{r.start: true})
	for _, a := range w {
		if len(S) == 0 {
			return false
		}
		S = r.step(S, a)
	}
	return r.hasFinal(S)
}

func (r *raw) language(ws *words) lang {
	l := make(lang, len(ws.all))
	for i, w := range ws.all {
		l[i] = r.accepts(w)
	}
	return l
}

// pullTwice: two pull iterators over the same automaton, alive at once, advanced alternately for three steps and then
// abandoned (stop); they must yield the same transitions
func pullTwice[T any](s1, s2 iter.Seq[T], same func(a, b T) bool) string {
	n1, stop1 := iter.Pull(s1)
	n2, stop2 := iter.Pull(s2)
	defer stop1()
	defer stop2()
	for j := 0; j < 3; j++ {
		a, ok1 := n1()
		b, ok2 := n2()
		if ok1 != ok2 {
			return fmt.Sprintf("of two iterators over the same automaton one ended after %d transitions, the other did not", j)
		}
		if !ok1 {
			break
		}
		if !same(a, b) {
			return fmt.Sprintf("two iterators over the same automaton disagree on transition %d", j)
		}
	}
	return ""
}

func sameRaw(a, b *raw) bool {
	if a.start != b.start || len(a.final) != len(b.final) || len(a.keys) != len(b.keys) {
		return false
	}
	for f := range a.final {
		if !b.final[f] {
			return false
		}
	}
	for k := range a.keys {
		if !b.keys[k] || len(a.out[k]) != len(b.out[k]) {
			return false
		}
		for t := range a.out[k] {
			if !b.out[k][t] {
				return false
			}
		}
	}
	return true
}

// abbrev shows the beginning of a long word
func abbrev(w []int) string {
	if len(w) <= 12 {
		return fmt.Sprint(w)
	}
	return fmt.Sprint(w[:12]) + "…"
}

// structure of a DFA as data (read through the public API of an *input* of the op under test)
type dstruct struct {
	start  int
	states []int
	final  map[int]bool
	next   map[[2]int]int
	syms   []int
}

func structOf(d *automata.DFA) *dstruct {
	r := &dstruct{start: int(d.Start), final: map[int]bool{}, next: map[[2]int]int{}}
	seen := map[int]bool{int(d.Start): true}
	for f := range d.Final.All() {
		r.final[int(f)] = true
		seen[int(f)] = true
	}
	sy := map[int]bool{}
	for tr := range d.Transitions() {
		r.next[[2]int{int(tr.State), int(tr.Symbol)}] = int(tr.Next)
		seen[int(tr.State)] = true
		seen[int(tr.Next)] = true
		sy[int(tr.Symbol)] = true
	}
	for s := range seen {
		r.states = append(r.states, s)
	}
	sort.Ints(r.states)
	for a := range sy {
		r.syms = append(r.syms, a)
	}
	sort.Ints(r.syms)
	return r
}

func (r *dstruct) reachable() map[int]bool {
	succ := map[int][]int{}
	for k, t := range r.next {
		succ[k[0]] = append(succ[k[0]], t)
	}
	R := map[int]bool{r.start: true}
	work := []int{r.start}
	for len(work) > 0 {
		s := work[len(work)-1]
		work = work[:len(work)-1]
		for _, t := range succ[s] {
			if !R[t] {
				R[t] = true
				work = append(work, t)
			}
		}
	}
	return R
}

func (r *dstruct) live() map[int]bool {
	pred := map[int][]int{}
	for k, t := range r.next {
		pred[t] = append(pred[t], k[0])
	}
	L := map[int]bool{}
	var work []int
	for f := range r.final {
		L[f] = true
		work = append(work, f)
	}
	for len(work) > 0 {
		t := work[len(work)-1]
		work = work[:len(work)-1]
		for _, s := range pred[t] {
			if !L[s] {
				L[s] = true
				work = append(work, s)
			}
		}
	}
	return L
}

// minimalCount: number of classes of the table-filling algorithm over all states (a missing transition
// behaves like a transition to an implicit rejecting sink, which is distinguishable from every live state).
func (r *dstruct) minimalCount() int {
	n := len(r.states)
	idx := map[int]int{}
	for i, s := range r.states {
		idx[s] = i
	}
	dist := make([][]bool, n)
	for i := range dist {
		dist[i] = make([]bool, n)
		for j := range dist[i] {
			dist[i][j] = r.final[r.states[i]] != r.final[r.states[j]]
		}
	}
	for changed := true; changed; {
		changed = false
		for i := 0; i < n; i++ {
			for j := 0; j < n; j++ {
				if dist[i][j] {
					continue
				}
				for _, a := range r.syms {
					ti, oki := r.next[[2]int{r.states[i], a}]
					tj, okj := r.next[[2]int{r.states[j], a}]
					if oki != okj || (oki && dist[idx[ti]][idx[tj]]) {
						dist[i][j] = true
						changed = true
						break
					}
				}
			}
		}
	}
	classes := 0
	for i := 0; i < n; i++ {
		first := true
		for j := 0; j < i; j++ {
			if !dist[i][j] {
				first = false
			}
		}
		if first {
			classes++
		}
	}
	return classes
}

// ---------------------------------------------------------------- registers

type reg struct {
	n    *automata.NFA
	d    *automata.DFA
	raw  *raw // non-nil for hand-built automata
	lang lang // oracle language on the words of the case (nil = unknown); stale while dirty
	// dirty: raw was edited since lang was computed (languages of hand-built automata are computed on demand)
	dirty bool
	ex    *expr // oracle language of a derived automaton as an expression over hand-built ones (nil = unknown)
	// renamedFrom/bijective: set by `rename`
	renamedFrom string
	nonIdentity bool
}

func parseList(s string) ([]int, bool) {
	if s == "-" {
		return nil, true
	}
	var r []int
	for _, f := range strings.Split(s, ",") {
		v, err := strconv.Atoi(f)
		if err != nil {
			return nil, false
		}
		r = append(r, v)
	}
	return r, true
}

func states(xs []int) []automata.State {
	r := make([]automata.State, len(xs))
	for i, x := range xs {
		r[i] = automata.State(x)
	}
	return r
}

// ints converts a slice of states or symbols to ints
func ints[T ~int | ~int32](xs []T) []int {
	r := make([]int, len(xs))
	for i, x := range xs {
		r[i] = int(x)
	}
	return r
}

func showStates(xs []automata.State) string {
	ss := make([]string, len(xs))
	for i, x := range xs {
		ss[i] = strconv.Itoa(int(x))
	}
	return "[" + strings.Join(ss, " ") + "]"
}

func showSymbols(xs []automata.Symbol) string {
	ss := make([]string, len(xs))
	for i, x := range xs {
		ss[i] = strconv.Itoa(int(x))
	}
	return "[" + strings.Join(ss, " ") + "]"
}

func finals(f automata.States) []automata.State {
	var r []automata.State
	for s := range f.All() {
		r = append(r, s)
	}
	sort.Slice(r, func(i, j int) bool { return r[i] < r[j] })
	return r
}

// The caller of the API owns what it is handed (slices returned by States/Symbols/Next, the Transition values and
// their Next slices, CombineDFA's final map) and what it passes in (final/next slices, operand lists, words).
// The harness writes to all of them as soon as it has read them: the automaton must not notice.
func scribStates(xs []automata.State) {
	for i := range xs {
		xs[i] = automata.State(-424200 - i)
	}
}

func scribSymbols(xs []automata.Symbol) {
	for i := range xs {
		xs[i] = automata.Symbol(4242 + i)
	}
}

func dumpNFA(n *automata.NFA) string {
	var ts []string
	for tr := range n.Transitions() {
		nx := make([]string, len(tr.Next))
		for i, t := range tr.Next {
			nx[i] = strconv.Itoa(int(t))
		}
		ts = append(ts, fmt.Sprintf("%d/%d/%s", tr.State, tr.Symbol, strings.Join(nx, ",")))
		scribStates(tr.Next)
		tr.State, tr.Symbol, tr.Next = -9, 9, append(tr.Next, 5)
	}
	return fmt.Sprintf("n %d %s [%s]", n.Start, showStates(finals(n.Final)), strings.Join(ts, " "))
}

func dumpDFA(d *automata.DFA) string {
	var ts []string
	for tr := range d.Transitions() {
		ts = append(ts, fmt.Sprintf("%d/%d/%d", tr.State, tr.Symbol, tr.Next))
		tr.State, tr.Symbol, tr.Next = -9, 9, -9
	}
	return fmt.Sprintf("d %d %s [%s]", d.Start, showStates(finals(d.Final)), strings.Join(ts, " "))
}

func toStr(w []int) automata.String {
	r := make(automata.String, len(w))
	for i, a := range w {
		r[i] = automata.Symbol(a)
	}
	return r
}

func (r *reg) accept(w []int) bool {
	s := toStr(w)
	var got bool
	if r.n != nil {
		got = r.n.Accept(s)
	} else {
		got = r.d.Accept(s)
	}
	scribSymbols(s)
	return got
}

// features of an operand that make a case non-trivial
func nfaFeatures(n *automata.NFA, tags map[string]bool) bool {
	nt := false
	if n.Final.Contains(n.Start) {
		tags["accepting-start"] = true
		nt = true
	}
	for tr := range n.Transitions() {
		if tr.Symbol == automata.E && len(tr.Next) > 0 {
			tags["eps-move"] = true
			nt = true
		}
		for _, t := range tr.Next {
			if t == n.Start {
				tags["start-has-incoming"] = true
				nt = true
			}
		}
	}
	return nt
}

func dfaFeatures(d *automata.DFA, tags map[string]bool) bool {
	st := structOf(d)
	R, L := st.reachable(), st.live()
	nt := false
	for _, s := range st.states {
		if !R[s] {
			tags["unreachable-state"] = true
			nt = true
		}
		if !L[s] {
			tags["dead-state"] = true
			nt = true
		}
	}
	if st.final[st.start] {
		tags["accepting-start"] = true
		nt = true
	}
	for _, t := range st.next {
		if t == st.start {
			tags["start-has-incoming"] = true
			nt = true
		}
	}
	return nt
}

// ---------------------------------------------------------------- Exec

// VERIF_C13_TIMING=1: report operations that take more than 50 ms on stderr (a debugging aid)
var slowOps = os.Getenv("VERIF_C13_TIMING") != ""
var slowCase = func() time.Duration {
	if os.Getenv("VERIF_C13_TIMING") == "all" {
		return 0
	}
	return 150 * time.Millisecond
}()

// Exec runs one case on the real automata package, checking every step against the oracle.
func Exec(c hx.Case) hx.Result {
	if slowOps {
		t0 := time.Now()
		defer func() {
			if d := time.Since(t0); d > slowCase {
				h := c.Header
				if i := strings.Index(h, "sig="); i >= 0 && len(h) > i+40 {
					h = h[:i+40] + "…" + h[strings.LastIndex(h, "fam="):]
				}
				fmt.Fprintf(os.Stderr, "slow case (%v, nomodel=%v): %s\n", d.Round(time.Millisecond), c.NoModel, h)
			}
		}()
	}
	res := hx.Result{BadOp: -1}
	sigma := []int{97, 98}
	if s := hx.HeaderGet(c.Header, "sig"); s != "" {
		if l, ok := parseList(s); ok && len(l) > 0 {
			sigma = l
		}
	}
	k := 5
	if s := hx.HeaderGet(c.Header, "k"); s != "" {
		if v, err := strconv.Atoi(s); err == nil && v >= 0 {
			k = v
		}
	}
	ws := mkWords(sigma, k)
	quiet := hx.HeaderGet(c.Header, "quiet") != ""
	quietOps := map[string]bool{"dump": true, "todfa": true, "tonfa": true, "star": true, "union": true, "concat": true,
		"min": true, "elim": true, "reidx": true, "clone": true, "rename": true, "combine": true}
	tags := map[string]bool{}
	nontrivial := false
	regs := map[string]*reg{}
	// a Final field assigned a set that is not a sorted one: from then on `addfinal` is not an op of the case
	// (the Model's Final is a list whose order mirrors a sorted set's)
	unsortedFinal := false
	// langOf: the oracle language of a register on the words of the case (hand-built automata: on demand)
	langOf := func(r *reg) lang {
		if r.raw != nil && r.dirty {
			r.lang = r.raw.language(ws)
			r.dirty = false
		}
		return r.lang
	}
	// exOf: the oracle language as an expression; a hand-built automaton becomes a leaf and its raw is frozen
	exOf := func(r *reg) *expr {
		if r.raw != nil {
			r.raw.shared = true
			return &expr{kind: 'l', leaf: r.raw}
		}
		return r.ex
	}
	// own: called before the raw of a register is written
	own := func(r *reg) {
		if r.raw != nil && r.raw.shared {
			r.raw = r.raw.clone()
		}
	}
	// edited: a register was written through the API
	edited := func(r *reg) {
		if r.raw != nil {
			r.dirty = true
		} else {
			r.lang = nil
		}
		r.ex = nil
	}

	bad := func(i int, sig string, format string, a ...any) {
		if res.BadOp < 0 {
			res.BadOp = i
			res.What = fmt.Sprintf(format, a...)
			res.Sig = sig
		}
	}
	// checkLang compares the real result on every word with the oracle language
	checkLang := func(i int, op string, r *reg, sig string) {
		if langOf(r) == nil {
			return
		}
		for j, w := range ws.all {
			if got := r.accept(w); got != r.lang[j] {
				bad(i, sig, "%s: result accepts %v = %v, the oracle language says %v", op, w, got, r.lang[j])
				return
			}
		}
	}
	getN := func(x string) *reg {
		if r, ok := regs[x]; ok && r.n != nil {
			return r
		}
		return nil
	}
	getD := func(x string) *reg {
		if r, ok := regs[x]; ok && r.d != nil {
			return r
		}
		return nil
	}

	for i, op := range c.Ops {
		f := strings.Fields(op)
		out := "bad-op"
		var kind string
		t0op := time.Now()
		finished := hx.WithTimeout(20*time.Second, func() {
			kind = hx.Try(func() {
				if len(f) == 0 {
					return
				}
				switch f[0] {
				case "nfa", "dfa":
					if len(f) != 4 {
						return
					}
					s, err := strconv.Atoi(f[2])
					fs, ok := parseList(f[3])
					if err != nil || !ok {
						return
					}
					r := &reg{raw: newRaw(s, fs), dirty: true}
					fsl := states(fs)
					if f[0] == "nfa" {
						r.n = automata.NewNFA(automata.State(s), fsl)
					} else {
						r.d = automata.NewDFA(automata.State(s), fsl)
					}
					scribStates(fsl)
					regs[f[1]] = r
					out = "ok"
				case "add":
					if len(f) != 5 {
						return
					}
					r := getN(f[1])
					s, e1 := strconv.Atoi(f[2])
					a, e2 := strconv.Atoi(f[3])
					ts, ok := parseList(f[4])
					if r == nil || e1 != nil || e2 != nil || !ok {
						return
					}
					tsl := states(ts)
					r.n.Add(automata.State(s), automata.Symbol(a), tsl)
					scribStates(tsl)
					own(r)
					if r.raw != nil {
						r.raw.addEdges(s, a, ts)
					}
					edited(r)
					out = "ok"
				case "dadd":
					if len(f) != 5 {
						return
					}
					r := getD(f[1])
					s, e1 := strconv.Atoi(f[2])
					a, e2 := strconv.Atoi(f[3])
					t, e3 := strconv.Atoi(f[4])
					if r == nil || e1 != nil || e2 != nil || e3 != nil {
						return
					}
					r.d.Add(automata.State(s), automata.Symbol(a), automata.State(t))
					own(r)
					if r.raw != nil {
						r.raw.setEdge(s, a, t) // Put replaces the previous target
					}
					edited(r)
					out = "ok"
				case "setstart":
					// direct assignment of the exported Start field
					if len(f) != 3 || regs[f[1]] == nil {
						return
					}
					v, err := strconv.Atoi(f[2])
					if err != nil {
						return
					}
					r := regs[f[1]]
					if r.n != nil {
						r.n.Start = automata.State(v)
					} else {
						r.d.Start = automata.State(v)
					}
					own(r)
					if r.raw != nil {
						r.raw.start = v
					}
					edited(r)
					tags["direct-start"] = true
					nontrivial = true
					out = "ok"
				case "setfinal":
					// direct assignment of the exported Final field: a sorted, an insertion-ordered or an unordered set
					if len(f) != 4 || regs[f[1]] == nil {
						return
					}
					fs, ok := parseList(f[3])
					if !ok {
						return
					}
					var st automata.States
					switch f[2] {
					case "sorted":
						st = automata.NewStates(states(fs)...)
					case "stable":
						st = set.NewStable(automata.EqState, states(fs)...)
					case "unordered":
						st = set.New(automata.EqState, states(fs)...)
					default:
						return
					}
					r := regs[f[1]]
					if r.n != nil {
						r.n.Final = st
					} else {
						r.d.Final = st
					}
					own(r)
					if r.raw != nil {
						r.raw.final = map[int]bool{}
						for _, x := range fs {
							r.raw.final[x] = true
						}
					}
					edited(r)
					if f[2] != "sorted" {
						unsortedFinal = true
					}
					tags["direct-final-"+f[2]] = true
					nontrivial = true
					out = "ok"
				case "addfinal":
					// X.Final.Add(s): the exported Final set edited in place (only while every Final of the case is a sorted set)
					if len(f) != 3 || regs[f[1]] == nil || unsortedFinal {
						return
					}
					v, err := strconv.Atoi(f[2])
					if err != nil {
						return
					}
					r := regs[f[1]]
					if r.n != nil {
						r.n.Final.Add(automata.State(v))
					} else {
						r.d.Final.Add(automata.State(v))
					}
					own(r)
					if r.raw != nil {
						r.raw.final[v] = true
					}
					edited(r)
					tags["final-add-in-place"] = true
					out = "ok"
				case "dump":
					if len(f) != 2 || regs[f[1]] == nil {
						return
					}
					if r := regs[f[1]]; r.n != nil {
						out = "ok " + dumpNFA(r.n)
					} else {
						out = "ok " + dumpDFA(r.d)
					}
				case "states":
					if len(f) != 2 || regs[f[1]] == nil {
						return
					}
					r := regs[f[1]]
					var got []automata.State
					if r.n != nil {
						got = r.n.States()
					} else {
						got = r.d.States()
					}
					out = "ok " + showStates(got)
					if r.raw != nil {
						if want := r.raw.states(); !sameInts(ints(got), want) {
							bad(i, "", "states %s = %v, the automaton was built with the states %v", f[1], got, want)
						}
					}
					scribStates(got)
					tags["op=states"] = true
				case "symbols":
					if len(f) != 2 || regs[f[1]] == nil {
						return
					}
					r := regs[f[1]]
					var got []automata.Symbol
					if r.n != nil {
						got = r.n.Symbols()
						tags["op=symbols-nfa"] = true
					} else {
						got = r.d.Symbols()
						tags["op=symbols-dfa"] = true
					}
					out = "ok " + showSymbols(got)
					if r.raw != nil {
						// sorted, duplicate-free symbols of the table (an NFA leaves eps out)
						if want := r.raw.symbols(r.n != nil); !sameInts(ints(got), want) {
							bad(i, "", "symbols %s = %v, the table of the automaton has the symbols %v", f[1], got, want)
						}
					}
					scribSymbols(got)
				case "next":
					// next X s a: the exported Next (NFA: nil or the target list; DFA: the target or -1)
					if len(f) != 4 || regs[f[1]] == nil {
						return
					}
					sv, e1 := strconv.Atoi(f[2])
					av, e2 := strconv.Atoi(f[3])
					if e1 != nil || e2 != nil {
						return
					}
					r := regs[f[1]]
					if r.n != nil {
						got := r.n.Next(automata.State(sv), automata.Symbol(av))
						switch {
						case got == nil:
							out = "ok nil"
							tags["next-nfa-nil"] = true
						case len(got) == 0:
							out = "ok []"
							tags["next-nfa-empty-entry"] = true
						default:
							out = "ok " + showStates(got)
							tags["next-nfa-targets"] = true
						}
						if r.raw != nil {
							want, ok := r.raw.entry(sv, av)
							if ok != (got != nil) || !sameInts(ints(got), want) {
								bad(i, "", "next %s %d %d = %v (nil=%v), the automaton was built with the targets %v (entry=%v)", f[1], sv, av, got, got == nil, want, ok)
							}
						}
						scribStates(got)
					} else {
						got := r.d.Next(automata.State(sv), automata.Symbol(av))
						out = "ok " + strconv.Itoa(int(got))
						if got == -1 {
							tags["next-dfa-none"] = true
						} else {
							tags["next-dfa-target"] = true
						}
						if r.raw != nil {
							want, ok := r.raw.entry(sv, av)
							if (!ok && got != -1) || (ok && (len(want) != 1 || int(got) != want[0])) {
								bad(i, "", "next %s %d %d = %d, the automaton was built with the target %v", f[1], sv, av, got, want)
							}
						}
					}
				case "trans":
					// trans X k: range over X.Transitions() and break as soon as k transitions have been collected
					if len(f) != 3 || regs[f[1]] == nil || !allDigits(f[2]) {
						return
					}
					k, err := strconv.Atoi(f[2])
					if err != nil {
						return
					}
					r := regs[f[1]]
					var ts []string
					cnt, broke := 0, false
					type item struct {
						s, a int
						nx   []int
					}
					var items []item
					// the iterator value is obtained once and run twice (the loop below, and once more to the end); while the
					// loop is in its first round a second, complete loop over the same automaton runs inside it; before that, two
					// pull iterators over the same automaton are advanced alternately and abandoned after three steps
					inner, again := -1, 0
					if r.n != nil {
						if msg := pullTwice(r.n.Transitions(), r.n.Transitions(), func(a, b *automata.Transition[[]automata.State]) bool {
							return a.State == b.State && a.Symbol == b.Symbol && sameInts(ints(a.Next), ints(b.Next))
						}); msg != "" {
							bad(i, "", "trans %s: %s", f[1], msg)
						}
						seq := r.n.Transitions()
						for tr := range seq {
							if cnt == k {
								broke = true
								break
							}
							if cnt == 0 {
								inner = 0
								for range r.n.Transitions() {
									inner++
								}
							}
							nx := make([]string, len(tr.Next))
							for q, t := range tr.Next {
								nx[q] = strconv.Itoa(int(t))
							}
							ts = append(ts, fmt.Sprintf("%d/%d/%s", tr.State, tr.Symbol, strings.Join(nx, ",")))
							items = append(items, item{int(tr.State), int(tr.Symbol), ints(tr.Next)})
							scribStates(tr.Next)
							tr.State, tr.Symbol = -9, 9
							cnt++
						}
						for range seq {
							again++
						}
					} else {
						if msg := pullTwice(r.d.Transitions(), r.d.Transitions(), func(a, b *automata.Transition[automata.State]) bool {
							return *a == *b
						}); msg != "" {
							bad(i, "", "trans %s: %s", f[1], msg)
						}
						seq := r.d.Transitions()
						for range seq {
							again++
						}
						for tr := range seq {
							if cnt == k {
								broke = true
								break
							}
							if cnt == 0 {
								inner = 0
								for range r.d.Transitions() {
									inner++
								}
							}
							ts = append(ts, fmt.Sprintf("%d/%d/%d", tr.State, tr.Symbol, tr.Next))
							items = append(items, item{int(tr.State), int(tr.Symbol), []int{int(tr.Next)}})
							tr.State, tr.Symbol, tr.Next = -9, 9, -9
							cnt++
						}
					}
					out = "ok [" + strings.Join(ts, " ") + "]"
					if inner >= 0 && inner != again {
						bad(i, "", "trans %s: a loop over Transitions() nested in another one saw %d transitions, the iterator run a second time %d", f[1], inner, again)
					}
					if !broke && cnt != again {
						bad(i, "", "trans %s: the same iterator value yielded %d transitions in one run and %d in the other", f[1], cnt, again)
					}
					if r.raw != nil && again != len(r.raw.keys) {
						bad(i, "", "trans %s: the iterator yielded %d transitions, the table has %d entries", f[1], again, len(r.raw.keys))
					}
					if broke {
						tags["trans-early-exit"] = true
					} else {
						tags["trans-complete"] = true
					}
					if r.raw != nil {
						// an iterator over the table: min(k, entries) distinct entries, each with its own target set
						total := len(r.raw.keys)
						if want := min(k, total); cnt != want || broke != (k < total) {
							bad(i, "", "trans %s %d yielded %d transitions (stopped early = %v), the table has %d entries", f[1], k, cnt, broke, total)
						}
						seen := map[[2]int]bool{}
						for _, it := range items {
							want, ok := r.raw.entry(it.s, it.a)
							if !ok || seen[[2]int{it.s, it.a}] || !sameInts(it.nx, want) {
								bad(i, "", "trans %s %d yielded %d/%d/%v: entry exists = %v, targets built = %v, yielded before = %v", f[1], k, it.s, it.a, it.nx, ok, want, seen[[2]int{it.s, it.a}])
							}
							seen[[2]int{it.s, it.a}] = true
						}
					}
				case "acc":
					if len(f) != 2 || regs[f[1]] == nil {
						return
					}
					r := regs[f[1]]
					var b strings.Builder
					lg := langOf(r)
					for j, w := range ws.all {
						got := r.accept(w)
						if got {
							b.WriteByte('1')
						} else {
							b.WriteByte('0')
						}
						if lg != nil && got != lg[j] {
							bad(i, "", "acc %s: accepts %v = %v, the oracle language says %v", f[1], w, got, lg[j])
						}
					}
					out = "ok " + b.String()
				case "accw":
					if len(f) != 3 || regs[f[1]] == nil {
						return
					}
					w, ok := parseList(f[2])
					if !ok {
						return
					}
					r := regs[f[1]]
					got := r.accept(w)
					out = "ok " + strconv.FormatBool(got)
					hasE := false
					for _, a := range w {
						if a == 0 {
							hasE = true
						}
					}
					if e := exOf(r); e != nil && !hasE {
						if want, known := e.member(w); known && got != want {
							bad(i, "", "accw %s (a word of length %d, %s) = %v, the oracle language says %v", f[1], len(w), abbrev(w), got, want)
						}
						if len(w) >= 1000 {
							tags["word>=1000"] = true
						}
					}
				case "todfa":
					if len(f) != 3 || getN(f[2]) == nil {
						return
					}
					src := getN(f[2])
					nontrivial = nfaFeatures(src.n, tags) || nontrivial
					r := &reg{d: src.n.ToDFA(), lang: langOf(src), ex: exOf(src)}
					regs[f[1]] = r
					out = "ok " + dumpDFA(r.d)
					checkLang(i, "ToDFA", r, "")
					tags["op=todfa"] = true
				case "tonfa":
					if len(f) != 3 || getD(f[2]) == nil {
						return
					}
					src := getD(f[2])
					nontrivial = dfaFeatures(src.d, tags) || nontrivial
					r := &reg{n: src.d.ToNFA(), lang: langOf(src), ex: exOf(src)}
					regs[f[1]] = r
					out = "ok " + dumpNFA(r.n)
					checkLang(i, "ToNFA", r, "")
					tags["op=tonfa"] = true
				case "star":
					if len(f) != 3 || getN(f[2]) == nil {
						return
					}
					src := getN(f[2])
					nontrivial = nfaFeatures(src.n, tags) || nontrivial
					r := &reg{n: src.n.Star()}
					if l := langOf(src); l != nil {
						r.lang = ws.star(l)
					}
					if e := exOf(src); e != nil {
						r.ex = &expr{kind: 's', kids: []*expr{e}}
					}
					regs[f[1]] = r
					out = "ok " + dumpNFA(r.n)
					checkLang(i, "Star", r, "")
					tags["op=star"] = true
				case "union", "concat":
					if len(f) < 3 {
						return
					}
					var ns []*automata.NFA
					var ls []lang
					var es []*expr
					known, eknown := true, true
					risky := false
					for q, x := range f[2:] {
						r := getN(x)
						if r == nil {
							return
						}
						ns = append(ns, r.n)
						ls = append(ls, langOf(r))
						if langOf(r) == nil {
							known = false
						}
						es = append(es, exOf(r))
						if exOf(r) == nil {
							eknown = false
						}
						for _, y := range f[2 : 2+q] {
							if y == x {
								tags["same-object-twice:"+f[0]] = true
								nontrivial = true
							}
						}
						t := map[string]bool{}
						nfaFeatures(r.n, t)
						if t["accepting-start"] || (q > 0 && t["start-has-incoming"]) {
							risky = true
						}
						nontrivial = nfaFeatures(r.n, tags) || nontrivial
					}
					r := &reg{}
					if len(ns) > 64 {
						tags["operands>64:"+f[0]] = true
					}
					rest := append([]*automata.NFA{}, ns[1:]...) // the variadic slice is the caller's: cleared after the call
					if f[0] == "union" {
						r.n = ns[0].Union(rest...)
						clear(rest)
						if known {
							r.lang = ws.union(ls...)
						}
						if eknown {
							r.ex = &expr{kind: 'u', kids: es}
						}
						regs[f[1]] = r
						out = "ok " + dumpNFA(r.n)
						checkLang(i, "Union", r, "")
						tags["op=union"] = true
					} else {
						r.n = ns[0].Concat(rest...)
						clear(rest)
						if eknown {
							r.ex = &expr{kind: 'c', kids: es}
						}
						if known {
							l := ls[0]
							for _, m := range ls[1:] {
								l = ws.concat(l, m)
							}
							r.lang = l
						}
						regs[f[1]] = r
						out = "ok " + dumpNFA(r.n)
						sig := ""
						if risky {
							sig = "concat:operand-start-accepting-or-with-incoming-edge"
						}
						checkLang(i, "Concat", r, sig)
						tags["op=concat"] = true
					}
				case "min", "elim", "reidx":
					if len(f) != 3 || getD(f[2]) == nil {
						return
					}
					src := getD(f[2])
					nontrivial = dfaFeatures(src.d, tags) || nontrivial
					r := &reg{lang: langOf(src), ex: exOf(src)}
					switch f[0] {
					case "min":
						st := structOf(src.d)
						r.d = src.d.Minimize()
						clean := true
						R, L := st.reachable(), st.live()
						for _, s := range st.states {
							if !R[s] || !L[s] {
								clean = false
							}
						}
						got := len(r.d.States())
						if got < len(st.states) {
							tags["minimize-merged"] = true
							nontrivial = true
						}
						if clean {
							want := 0
							if len(st.states) <= 24 {
								want = st.minimalCount()
							} else {
								want = st.minimalCountMoore()
							}
							if want > 64 {
								tags["minimize-classes>64"] = true
							}
							if got != want {
								bad(i, "", "Minimize of a DFA without unreachable/dead states has %d states, the table-filling minimum is %d", got, want)
							}
							tags["minimize-checked-minimal"] = true
						}
					case "elim":
						r.d = src.d.EliminateDeadStates()
					case "reidx":
						r.d = src.d.ReindexStates()
					}
					regs[f[1]] = r
					out = "ok " + dumpDFA(r.d)
					checkLang(i, f[0], r, "")
					tags["op="+f[0]] = true
				case "clone":
					if len(f) != 3 || regs[f[2]] == nil {
						return
					}
					src := regs[f[2]]
					r := &reg{lang: langOf(src), ex: exOf(src)}
					if src.n != nil {
						r.n = src.n.Clone()
						out = "ok " + dumpNFA(r.n)
					} else {
						r.d = src.d.Clone()
						out = "ok " + dumpDFA(r.d)
					}
					regs[f[1]] = r
					checkLang(i, "Clone", r, "")
					tags["op=clone"] = true
				case "rename":
					// rename Y X s:t,s:t,…   (a copy of X built through the public API with renamed states)
					if len(f) != 4 || regs[f[2]] == nil {
						return
					}
					src := regs[f[2]]
					mp := map[int]int{}
					if f[3] != "-" {
						for _, p := range strings.Split(f[3], ",") {
							kv := strings.Split(p, ":")
							if len(kv) != 2 {
								return
							}
							a, e1 := strconv.Atoi(kv[0])
							b, e2 := strconv.Atoi(kv[1])
							if e1 != nil || e2 != nil {
								return
							}
							mp[a] = b
						}
					}
					ren := func(s automata.State) automata.State {
						if t, ok := mp[int(s)]; ok {
							return automata.State(t)
						}
						return s
					}
					r := &reg{renamedFrom: f[2]}
					var all []automata.State
					if src.n != nil {
						all = src.n.States()
						var fs []automata.State
						for _, s := range finals(src.n.Final) {
							fs = append(fs, ren(s))
						}
						r.n = automata.NewNFA(ren(src.n.Start), fs)
						for tr := range src.n.Transitions() {
							var nx []automata.State
							for _, t := range tr.Next {
								nx = append(nx, ren(t))
							}
							r.n.Add(ren(tr.State), tr.Symbol, nx)
						}
						out = "ok " + dumpNFA(r.n)
					} else {
						all = src.d.States()
						var fs []automata.State
						for _, s := range finals(src.d.Final) {
							fs = append(fs, ren(s))
						}
						r.d = automata.NewDFA(ren(src.d.Start), fs)
						for tr := range src.d.Transitions() {
							r.d.Add(ren(tr.State), tr.Symbol, ren(tr.Next))
						}
						out = "ok " + dumpDFA(r.d)
					}
					// injective on the states of the source?
					img := map[automata.State]bool{}
					inj := true
					for _, s := range all {
						if img[ren(s)] {
							inj = false
						}
						img[ren(s)] = true
						if ren(s) != s {
							r.nonIdentity = true
						}
					}
					if inj {
						r.lang = langOf(src)
						r.ex = exOf(src)
					} else {
						r.renamedFrom = ""
					}
					regs[f[1]] = r
					checkLang(i, "renamed copy", r, "")
				case "combine":
					if len(f) < 2 {
						return
					}
					var ds []*automata.DFA
					var ls []lang
					var es []*expr
					known, eknown := true, true
					for q, x := range f[2:] {
						r := getD(x)
						if r == nil {
							return
						}
						ds = append(ds, r.d)
						ls = append(ls, langOf(r))
						if langOf(r) == nil {
							known = false
						}
						es = append(es, exOf(r))
						if exOf(r) == nil {
							eknown = false
						}
						for _, y := range f[2 : 2+q] {
							if y == x {
								tags["same-object-twice:combine"] = true
								nontrivial = true
							}
						}
						if len(f) <= 2+8 || q < 4 { // the features of the first operands tell enough about a long list
							nontrivial = dfaFeatures(r.d, tags) || nontrivial
						}
					}
					if len(ds) > 64 {
						tags["operands>64:combine"] = true
					}
					nds := len(ds)
					d, fm := automata.CombineDFA(ds...)
					clear(ds) // the variadic slice is the caller's
					r := &reg{d: d}
					if known {
						r.lang = ws.union(ls...)
					}
					if eknown && len(es) > 0 {
						r.ex = &expr{kind: 'u', kids: es}
					}
					regs[f[1]] = r
					parts := make([]string, len(fm))
					for q, m := range fm {
						parts[q] = showStates(m)
					}
					out = "ok " + dumpDFA(d) + " | " + strings.Join(parts, " ")
					checkLang(i, "CombineDFA", r, "")
					if known {
						// the final map: after reading w the combined DFA is in a state of finalMap[q] iff operand q accepts w
						for j, w := range ws.all {
							cur := d.Start
							for _, a := range w {
								cur = d.Next(cur, automata.Symbol(a))
							}
							for q := 0; q < nds; q++ {
								in := false
								if q < len(fm) {
									for _, s := range fm[q] {
										if s == cur {
											in = true
										}
									}
								}
								if in != ls[q][j] {
									bad(i, "", "CombineDFA: after %v the combined DFA is in state %d, finalMap[%d] contains it = %v, operand %d accepts = %v", w, cur, q, in, q, ls[q][j])
								}
							}
						}
					}
					for _, m := range fm { // the final map is the caller's
						scribStates(m)
					}
					tags["op=combine"] = true
				case "iso", "equal":
					if len(f) != 3 || regs[f[1]] == nil || regs[f[2]] == nil {
						return
					}
					a, b := regs[f[1]], regs[f[2]]
					if (a.n != nil) != (b.n != nil) {
						return
					}
					var got bool
					if f[0] == "iso" {
						if a.n != nil {
							got = a.n.Isomorphic(b.n)
						} else {
							got = a.d.Isomorphic(b.d)
						}
						if (b.renamedFrom == f[1] || a.renamedFrom == f[2]) && !got {
							bad(i, "iso:renamed-copy-rejected", "Isomorphic(%s, %s) = false although one is a copy of the other with its states renamed by a bijection", f[1], f[2])
						}
						if b.renamedFrom == f[1] && b.nonIdentity || a.renamedFrom == f[2] && a.nonIdentity {
							tags["iso-nonidentity-renaming"] = true
							nontrivial = true
						}
						if f[1] == f[2] {
							tags["same-object-twice:iso"] = true
							nontrivial = true
							if !got {
								bad(i, "iso:renamed-copy-rejected", "%s.Isomorphic(%s) = false: the identity is a renaming", f[1], f[2])
							}
						}
						if la, lb := langOf(a), langOf(b); got && la != nil && lb != nil {
							for j := range ws.all {
								if la[j] != lb[j] {
									bad(i, "", "Isomorphic(%s, %s) = true but the languages differ on %v", f[1], f[2], ws.all[j])
									break
								}
							}
						}
						tags["op=iso"] = true
					} else {
						if a.n != nil {
							got = a.n.Equal(b.n)
						} else {
							got = a.d.Equal(b.d)
						}
						if f[1] == f[2] {
							tags["same-object-twice:equal"] = true
							nontrivial = true
							if !got {
								bad(i, "", "%s.Equal(%s) = false for one and the same automaton", f[1], f[2])
							}
						} else if a.raw != nil && b.raw != nil {
							// two hand-built automata are Equal iff they were built with the same start, finals and entries
							if want := sameRaw(a.raw, b.raw); got != want {
								bad(i, "", "%s.Equal(%s) = %v, the two automata were built with the same start state, final states and entries = %v", f[1], f[2], got, want)
							}
						}
					}
					out = "ok " + strconv.FormatBool(got)
				}
			})
		})
		if slowOps && time.Since(t0op) > 50*time.Millisecond {
			fmt.Fprintf(os.Stderr, "slow op %d (%v): %.60s\n", i, time.Since(t0op).Round(time.Millisecond), op)
		}
		if !finished {
			res.Outs = append(res.Outs, "hang")
			bad(i, "", "%s did not return", op)
			tags["hang"] = true
			break
		}
		if kind != "" {
			res.Outs = append(res.Outs, "panic")
			sig := ""
			if len(f) > 0 && f[0] == "iso" {
				sig = "iso:panic"
			}
			bad(i, sig, "%s panicked (%s)", op, kind)
			tags["panic"] = true
			break
		}
		if quiet && len(f) > 0 && quietOps[f[0]] && strings.HasPrefix(out, "ok ") {
			out = "ok" // the structure depends on the iteration order of an unordered Final set: only languages are compared
		}
		res.Outs = append(res.Outs, out)
	}
	if hx.HeaderGet(c.Header, "alias") != "" {
		tags["aliasing-case"] = true
		nontrivial = true
	}
	if fam := hx.HeaderGet(c.Header, "fam"); fam != "" {
		// a threshold-sweep or API-usage family (hard.go): non-trivial by construction
		tags["family="+fam] = true
		nontrivial = true
	}
	res.Nontrivial = nontrivial
	for t := range tags {
		res.Tags = append(res.Tags, t)
	}
	sort.Strings(res.Tags)
	return res
}

// ---------------------------------------------------------------- generation

func joinInts(xs []int) string {
	if len(xs) == 0 {
		return "-"
	}
	ss := make([]string, len(xs))
	for i, x := range xs {
		ss[i] = strconv.Itoa(x)
	}
	return strings.Join(ss, ",")
}

// ids draws n distinct state ids from a non-contiguous range
func ids(r *hx.Rand, n int) []int {
	switch r.Intn(10) {
	case 7, 8: // Axis 3: MaxInt/MinInt, outside the rune range, surrogates, equal after truncation to 8/16/32 bits
		seen := map[int]bool{}
		var xs []int
		for len(xs) < n {
			v := hx.Pick(r, wildIDs)
			if !seen[v] {
				seen[v] = true
				xs = append(xs, v)
			}
		}
		return xs
	case 9: // ids that differ in the bits above the low 8, 16 or 32 only
		sh := []uint{8, 16, 32}[r.Intn(3)]
		base := r.Intn(7)
		xs := make([]int, n)
		for i := range xs {
			xs[i] = base + (i+r.Intn(2)*8)<<sh
		}
		for i := range xs { // distinct by construction only if the random offsets do not collide
			for j := 0; j < i; j++ {
				if xs[i] == xs[j] {
					xs[i] = base + (i+16+j)<<sh
				}
			}
		}
		return xs
	case 6: // negative ids as well (never -1, the "invalid state")
		seen := map[int]bool{}
		var xs []int
		for len(xs) < n {
			v := r.Range(-7, 9)
			if v != -1 && !seen[v] {
				seen[v] = true
				xs = append(xs, v)
			}
		}
		return xs
	case 0: // 0..n-1
		xs := make([]int, n)
		for i := range xs {
			xs[i] = i
		}
		return xs
	case 1: // base+2i
		base := r.Intn(7)
		xs := make([]int, n)
		for i := range xs {
			xs[i] = base + 2*i
		}
		return xs
	default: // random distinct ids in 0..13, shuffled (so the start state is not the smallest)
		seen := map[int]bool{}
		var xs []int
		for len(xs) < n {
			v := r.Intn(14)
			if !seen[v] {
				seen[v] = true
				xs = append(xs, v)
			}
		}
		return xs
	}
}

// genNFA emits the ops that build a random NFA named x
func genNFA(r *hx.Rand, x string, maxStates int, sigma []int) []string {
	n := r.Range(1, maxStates)
	st := ids(r, n)
	var fin []int
	for _, s := range st {
		if r.Chance(1, 3) {
			fin = append(fin, s)
		}
	}
	if len(fin) == 0 && r.Chance(4, 5) {
		fin = append(fin, hx.Pick(r, st))
	}
	ops := []string{fmt.Sprintf("nfa %s %d %s", x, st[0], joinInts(fin))}
	edges := r.Range(0, 2*n+1)
	for e := 0; e < edges; e++ {
		a := hx.Pick(r, sigma)
		if r.Chance(1, 6) {
			a = 0
		}
		k := 1
		if r.Chance(1, 4) {
			k = 2
		}
		var ts []int
		for j := 0; j < k; j++ {
			ts = append(ts, hx.Pick(r, st))
		}
		if r.Chance(1, 40) {
			ts = nil // an entry with an empty target set
		}
		ops = append(ops, fmt.Sprintf("add %s %d %d %s", x, hx.Pick(r, st), a, joinInts(ts)))
	}
	return ops
}

// genDFA emits the ops that build a random (partial) DFA named x
func genDFA(r *hx.Rand, x string, maxStates int, sigma []int) []string {
	n := r.Range(1, maxStates)
	st := ids(r, n)
	var fin []int
	for _, s := range st {
		if r.Chance(2, 5) {
			fin = append(fin, s)
		}
	}
	if len(fin) == 0 && r.Chance(4, 5) {
		fin = append(fin, hx.Pick(r, st))
	}
	shape := r.Intn(12)
	if shape < 2 { // every state accepting: the initial partition of Minimize has an empty group
		fin = append([]int{}, st...)
	}
	ops := []string{fmt.Sprintf("dfa %s %d %s", x, st[0], joinInts(fin))}
	if shape == 2 { // no transition at all, the start state accepting or not
		if r.Chance(3, 4) {
			ops[0] = fmt.Sprintf("dfa %s %d %d", x, st[0], st[0])
		}
		return ops
	}
	if shape == 3 && n > 1 {
		// one cycle through all the states; the only accepting state hangs off one of them (every state of the cycle is
		// live, but only by going round)
		f := st[0] + 1
		for again := true; again; {
			again = f == -1
			for _, s := range st {
				if s == f {
					again = true
				}
			}
			if again {
				f++
			}
		}
		ops = []string{fmt.Sprintf("dfa %s %d %d", x, st[0], f)}
		for i, s := range st {
			ops = append(ops, fmt.Sprintf("dadd %s %d %d %d", x, s, sigma[0], st[(i+1)%n]))
		}
		ops = append(ops, fmt.Sprintf("dadd %s %d %d %d", x, hx.Pick(r, st), sigma[len(sigma)-1], f))
		if r.Chance(1, 2) {
			ops = append(ops, fmt.Sprintf("dadd %s %d %d %d", x, f, hx.Pick(r, sigma), hx.Pick(r, st)))
		}
		return ops
	}
	total := r.Chance(1, 4) // mostly partial DFAs
	density := r.Range(1, 3)
	for _, s := range st {
		for _, a := range sigma {
			if total || r.Chance(density, 4) {
				ops = append(ops, fmt.Sprintf("dadd %s %d %d %d", x, s, a, hx.Pick(r, st)))
			}
		}
	}
	return ops
}

// renaming draws a random injective renaming of the given states (sometimes the identity, sometimes onto the same set)
func renaming(r *hx.Rand, st []int) string {
	if len(st) == 0 {
		return "-"
	}
	target := make([]int, len(st))
	switch r.Intn(3) {
	case 0: // a permutation of the same ids
		copy(target, st)
		for i := len(target) - 1; i > 0; i-- {
			j := r.Intn(i + 1)
			target[i], target[j] = target[j], target[i]
		}
	case 1: // fresh non-contiguous ids
		seen := map[int]bool{}
		for i := range target {
			v := r.Intn(40)
			for seen[v] {
				v = r.Intn(40)
			}
			seen[v] = true
			target[i] = v
		}
	default: // shift
		d := r.Range(1, 9)
		for i := range target {
			target[i] = st[i] + d
		}
	}
	for i := range target {
		if target[i] == -1 { // -1 is not a state id
			for j := range target {
				target[j] += 50
			}
			break
		}
	}
	ps := make([]string, len(st))
	for i := range st {
		ps[i] = fmt.Sprintf("%d:%d", st[i], target[i])
	}
	return strings.Join(ps, ",")
}

// statesOfOps collects the state ids mentioned by building ops (for renamings)
func statesOfOps(ops []string) []int {
	seen := map[int]bool{}
	var out []int
	add := func(v int) {
		if !seen[v] {
			seen[v] = true
			out = append(out, v)
		}
	}
	for _, op := range ops {
		f := strings.Fields(op)
		switch f[0] {
		case "nfa", "dfa":
			v, _ := strconv.Atoi(f[2])
			add(v)
			l, _ := parseList(f[3])
			for _, x := range l {
				add(x)
			}
		case "add":
			v, _ := strconv.Atoi(f[2])
			add(v)
			l, _ := parseList(f[4])
			for _, x := range l {
				add(x)
			}
		case "dadd":
			v, _ := strconv.Atoi(f[2])
			add(v)
			w, _ := strconv.Atoi(f[4])
			add(w)
		}
	}
	sort.Ints(out)
	return out
}

// an edge over the states the building ops of an automaton mention (used to scribble on operands/results)
func scribble(r *hx.Rand, x string, st []int, sigma []int, dfa bool) string {
	s, t := 0, 1
	if len(st) > 0 {
		s, t = hx.Pick(r, st), hx.Pick(r, st)
	}
	if dfa {
		return fmt.Sprintf("dadd %s %d %d %d", x, s, hx.Pick(r, sigma), t)
	}
	a := hx.Pick(r, sigma)
	if r.Chance(1, 4) {
		a = 0
	}
	return fmt.Sprintf("add %s %d %d %d", x, s, a, t)
}

// probe emits read-only ops on the automaton x: States, Symbols, a dump, the exported Next on entries that exist,
// on missing ones and on eps, and a range over Transitions() that is broken off after k transitions (k = 0, a few,
// or more than there are).  st = state ids worth asking for.
func probe(r *hx.Rand, x string, st []int, sigma []int, full bool) []string {
	if len(st) == 0 {
		st = []int{0, 1}
	}
	sym := func() int {
		switch r.Intn(8) {
		case 0:
			return 0 // eps
		case 1:
			return 121 // not in any alphabet
		default:
			return hx.Pick(r, sigma)
		}
	}
	state := func() int {
		if r.Chance(1, 8) {
			return 77 // not a state
		}
		return hx.Pick(r, st)
	}
	k := r.Intn(4)
	if r.Chance(1, 5) {
		k = r.Range(4, 40)
	}
	ops := []string{fmt.Sprintf("trans %s %d", x, k), fmt.Sprintf("next %s %d %d", x, state(), sym())}
	if full {
		ops = append(ops, "symbols "+x, "states "+x, fmt.Sprintf("next %s %d %d", x, state(), sym()),
			fmt.Sprintf("next %s %d %d", x, hx.Pick(r, st), hx.Pick(r, sigma)), fmt.Sprintf("trans %s %d", x, r.Intn(3)), "dump "+x)
	}
	return ops
}

func genCase(r *hx.Rand) hx.Case {
	var ops []string
	maxN := 4
	if r.Chance(1, 3) {
		maxN = 5
	}
	// the alphabet: contiguous or with gaps (the words of `acc` are over exactly these symbols)
	sigma := sigmaSchemes[r.Intn(6)]
	if r.Chance(1, 3) {
		sigma = hx.Pick(r, sigmaSchemes) // symbols on either side of an encoding boundary, the extremes of a rune
	}
	kw := 5
	if len(sigma) > 2 {
		kw = 4 // 121 words
	}
	kind := r.Intn(14)
	switch kind {
	case 9:
		return famSame(r)
	case 10, 11:
		return famQEQ(r, true)
	case 12:
		return famQEQ(r, false)
	case 13:
		return famClone(r)
	}
	switch kind {
	case 0, 1: // NFA pipeline
		a := genNFA(r, "A", maxN, sigma)
		b := genNFA(r, "B", maxN, sigma)
		ops = append(ops, a...)
		ops = append(ops, b...)
		ops = append(ops, "acc A", "star S A", "union U A B", "concat C A B", "concat C2 B A")
		if r.Chance(1, 2) {
			ops = append(ops, genNFA(r, "Z", 3, sigma)...)
			ops = append(ops, "union U3 A B Z", "concat C3 A Z B", "concat C4 Z A")
		}
		if r.Chance(1, 2) {
			ops = append(ops, "concat C5 A A", "star SS S", "concat C6 S B", "concat C7 B S")
		}
		ops = append(ops, "todfa D A", "todfa DC C", "min M DC", "elim L DC", "reidx R L", "min M2 R")
		ops = append(ops, "clone K A", "equal K A", "rename Q A "+renaming(r, statesOfOps(a)), "iso A Q", "iso Q A", "iso A B")
		ops = append(ops, probe(r, "A", statesOfOps(a), sigma, true)...)
		ops = append(ops, probe(r, "B", statesOfOps(b), sigma, r.Chance(1, 2))...)
		ops = append(ops, probe(r, hx.Pick(r, []string{"S", "U", "C", "C2", "K", "Q"}), []int{0, 1, 2, 3}, sigma, false)...)
		ops = append(ops, probe(r, hx.Pick(r, []string{"D", "DC", "M", "L", "R", "M2"}), []int{0, 1, 2}, sigma, true)...)
	case 2: // DFA pipeline
		a := genDFA(r, "A", maxN, sigma)
		b := genDFA(r, "B", maxN, sigma)
		ops = append(ops, a...)
		ops = append(ops, b...)
		ops = append(ops, "acc A", "min M A", "elim L A", "reidx R A", "reidx RL L", "min ML RL", "tonfa N A", "todfa D N", "clone K A", "equal K A")
		ops = append(ops, "combine X A B", "combine Y B A M", "combine W A")
		ops = append(ops, "rename Q A "+renaming(r, statesOfOps(a)), "iso A Q", "iso Q A", "iso A B", "iso M ML")
		ops = append(ops, probe(r, "A", statesOfOps(a), sigma, true)...)
		ops = append(ops, probe(r, "B", statesOfOps(b), sigma, r.Chance(1, 2))...)
		ops = append(ops, probe(r, hx.Pick(r, []string{"M", "L", "R", "RL", "ML", "D", "K", "X", "Y", "W"}), []int{0, 1, 2, 3}, sigma, true)...)
		ops = append(ops, probe(r, "N", statesOfOps(a), sigma, false)...)
	case 3: // mixed: regular-expression-like nesting
		ops = append(ops, genNFA(r, "A", 3, sigma)...)
		ops = append(ops, genNFA(r, "B", 3, sigma)...)
		ops = append(ops, genNFA(r, "Z", 3, sigma)...)
		ops = append(ops, "star S A", "concat C S B", "union U C Z", "star T U", "concat V T A", "todfa D V", "elim L D", "reidx R L", "min M R", "tonfa N M", "star W N")
		ops = append(ops, probe(r, hx.Pick(r, []string{"A", "B", "Z", "S", "C", "U", "T", "V", "N", "W"}), []int{0, 1, 2, 3, 4}, sigma, true)...)
		ops = append(ops, probe(r, hx.Pick(r, []string{"D", "L", "R", "M"}), []int{0, 1, 2}, sigma, true)...)
	case 4: // Minimize on DFAs produced by the subset construction (no unreachable states), cleaned first
		ops = append(ops, genNFA(r, "A", maxN, sigma)...)
		ops = append(ops, "todfa D A", "elim L D", "reidx R L", "min M R", "min MM M", "iso M MM", "combine X R M", "tonfa N R", "star S N", "todfa DS S", "min MS DS")
		ops = append(ops, probe(r, hx.Pick(r, []string{"D", "L", "R", "M", "MM", "X", "DS", "MS"}), []int{0, 1, 2, 3}, sigma, true)...)
		ops = append(ops, probe(r, hx.Pick(r, []string{"A", "N", "S"}), []int{0, 1, 2, 3}, sigma, true)...)
	case 5: // aliasing, NFA side: scribble on the operands after an operation, then on the results
		a := genNFA(r, "A", maxN, sigma)
		b := genNFA(r, "B", maxN, sigma)
		sa, sb := statesOfOps(a), statesOfOps(b)
		ops = append(ops, a...)
		ops = append(ops, b...)
		ops = append(ops, "union U A B", "concat C A B", "star S A", "todfa D A", "clone K A")
		ops = append(ops, scribble(r, "A", sa, sigma, false), scribble(r, "B", sb, sigma, false), scribble(r, "A", sa, sigma, false))
		ops = append(ops, "acc U", "acc C", "acc S", "acc D", "acc K", "dump U", "dump C", "dump S", "dump D", "dump K")
		// now the other way round: scribble on the results, the operands must not move
		ops = append(ops, "union U A B", "concat C A B", "star S A", "todfa D A", "clone K A", "tonfa N D")
		ops = append(ops, scribble(r, "U", []int{0, 1, 2, 3}, sigma, false), scribble(r, "C", []int{0, 1, 2}, sigma, false),
			scribble(r, "S", []int{0, 1, 2}, sigma, false), scribble(r, "D", []int{0, 1}, sigma, true),
			scribble(r, "K", sa, sigma, false), scribble(r, "N", []int{0, 1}, sigma, false))
		ops = append(ops, "acc A", "acc B", "dump A", "dump B", "acc D", "dump D", "equal K A")
		ops = append(ops, probe(r, "A", sa, sigma, true)...)
		ops = append(ops, probe(r, hx.Pick(r, []string{"U", "C", "S", "K", "N"}), []int{0, 1, 2, 3}, sigma, false)...)
		ops = append(ops, probe(r, "D", []int{0, 1, 2}, sigma, false)...)
	case 7, 8: // direct assignment of the exported Start / Final fields
		kindF := "stable"
		if kind == 8 {
			kindF = "unordered" // iteration order is shuffled: only languages are compared (quiet=1)
		} else if r.Chance(1, 3) {
			kindF = "sorted"
		}
		a := genNFA(r, "A", maxN, sigma)
		b := genDFA(r, "B", maxN, sigma)
		sa, sb := statesOfOps(a), statesOfOps(b)
		pickSome := func(st []int) []int {
			var out []int
			for _, x := range st {
				if r.Chance(1, 2) {
					out = append(out, x)
				}
			}
			for i := len(out) - 1; i > 0; i-- { // not in ascending order
				j := r.Intn(i + 1)
				out[i], out[j] = out[j], out[i]
			}
			return out
		}
		ops = append(ops, a...)
		ops = append(ops, b...)
		ops = append(ops, fmt.Sprintf("setfinal A %s %s", kindF, joinInts(pickSome(sa))), fmt.Sprintf("setstart A %d", hx.Pick(r, sa)))
		ops = append(ops, fmt.Sprintf("setfinal B %s %s", kindF, joinInts(pickSome(sb))), fmt.Sprintf("setstart B %d", hx.Pick(r, sb)))
		ops = append(ops, "acc A", "acc B", "star S A", "acc S", "union U A A", "acc U", "concat C A A", "acc C", "todfa D A", "acc D", "clone K A", "acc K", "equal K A",
			"min M B", "acc M", "elim L B", "acc L", "reidx R B", "acc R", "tonfa N B", "acc N", "clone KB B", "acc KB", "combine X B B", "acc X",
			"rename Q A "+renaming(r, sa), "iso A Q", "rename QB B "+renaming(r, sb), "iso B QB", "min MD D", "acc MD")
		// two automata that differ in the KIND of their Final set only: a clone whose Final is assigned the same members as a sorted set
		fa, fb := pickSome(sa), pickSome(sb)
		ops = append(ops, fmt.Sprintf("setfinal A %s %s", kindF, joinInts(fa)), "clone KS A", fmt.Sprintf("setfinal KS sorted %s", joinInts(fa)), "equal KS A", "equal A KS", "iso A KS", "acc KS",
			fmt.Sprintf("setfinal B %s %s", kindF, joinInts(fb)), "clone KT B", fmt.Sprintf("setfinal KT sorted %s", joinInts(fb)), "equal KT B", "equal B KT", "iso KT B", "acc KT", "union UK A KS", "acc UK", "combine XK B KT", "acc XK")
		// read-only ops on the hand-built automata only: a derived structure depends on the iteration order of an unordered Final
		ops = append(ops, probe(r, "A", sa, sigma, true)...)
		ops = append(ops, probe(r, "B", sb, sigma, true)...)
	default: // aliasing, DFA side
		a := genDFA(r, "A", maxN, sigma)
		b := genDFA(r, "B", maxN, sigma)
		sa, sb := statesOfOps(a), statesOfOps(b)
		ops = append(ops, a...)
		ops = append(ops, b...)
		ops = append(ops, "min M A", "elim L A", "reidx R A", "clone K A", "tonfa N A", "combine X A B")
		ops = append(ops, scribble(r, "A", sa, sigma, true), scribble(r, "B", sb, sigma, true), scribble(r, "A", sa, sigma, true))
		ops = append(ops, "acc M", "acc L", "acc R", "acc K", "acc N", "acc X", "dump M", "dump L", "dump R", "dump K", "dump N", "dump X")
		ops = append(ops, "min M A", "elim L A", "reidx R A", "clone K A", "tonfa N A", "combine X A B")
		ops = append(ops, scribble(r, "M", []int{0, 1}, sigma, true), scribble(r, "L", sa, sigma, true), scribble(r, "R", []int{0, 1}, sigma, true),
			scribble(r, "K", sa, sigma, true), scribble(r, "N", sa, sigma, false), scribble(r, "X", []int{0, 1, 2}, sigma, true))
		ops = append(ops, "acc A", "acc B", "dump A", "dump B", "min M2 A", "equal K A")
		ops = append(ops, probe(r, "A", sa, sigma, true)...)
		ops = append(ops, probe(r, hx.Pick(r, []string{"M", "L", "R", "K", "X", "M2"}), []int{0, 1, 2}, sigma, false)...)
		ops = append(ops, probe(r, "N", sa, sigma, false)...)
	}
	if kind == 5 || kind == 6 {
		return hx.Case{Header: fmt.Sprintf("comp=automata k=4 sig=%s alias=1", joinInts(sigma)), Ops: ops}
	}
	if kind == 8 {
		return hx.Case{Header: fmt.Sprintf("comp=automata k=4 sig=%s quiet=1", joinInts(sigma)), Ops: ops}
	}
	return hx.Case{Header: fmt.Sprintf("comp=automata k=%d sig=%s", kw, joinInts(sigma)), Ops: ops}
}

// exhaustive2 enumerates every NFA with states {p,q} over {a,b,eps}
func exhaustive2(run *hx.Run) int {
	p, q := 3, 7
	st := []int{p, q}
	subsets := [][]int{nil, {p}, {q}, {p, q}}
	count := 0
	for start := 0; start < 2; start++ {
		for fi := 0; fi < 4; fi++ {
			for code := 0; code < 4096; code++ {
				ops := []string{fmt.Sprintf("nfa A %d %s", st[start], joinInts(subsets[fi]))}
				c := code
				for _, s := range st {
					for _, a := range []int{97, 98, 0} {
						ts := subsets[c%4]
						c /= 4
						if len(ts) > 0 {
							ops = append(ops, fmt.Sprintf("add A %d %d %s", s, a, joinInts(ts)))
						}
					}
				}
				ops = append(ops,
					"nfa P 0 1", "add P 0 97 1", "add P 1 98 0", // a(ba)*
					"acc A", "star S A", "union U A P", "concat C A P", "concat C2 P A", "concat C3 A A",
					"todfa D A", "elim L D", "reidx R L", "min M R", "rename Q A 3:7,7:3", "iso A Q",
					"states A", "symbols A", "next A 3 97", "next A 7 0", "next A 7 98", fmt.Sprintf("trans A %d", code%5), "trans A 6",
					"symbols D", "states M", "next D 0 98", fmt.Sprintf("trans D %d", code%3), "trans M 1")
				run.Do("automata", hx.Case{Header: "comp=automata k=4", Ops: ops}, Exec)
				count++
			}
		}
	}
	return count
}

func Main(run *hx.Run) {
	run.Stats.Rule = Rule
	for _, f := range hx.CorpusFiles("C13") {
		cs, _ := hx.ReadReplay(f)
		for _, c := range cs {
			run.Do(hx.HeaderGet(c.Header, "comp"), c, Exec)
		}
	}
	if oneFamily(run) {
		return
	}
	hardFamilies(run)
	r := run.R.Fork("automata")
	n := run.Scale(700)
	for i := 0; i < n; i++ {
		run.Do("automata", genCase(r), Exec)
	}
	if run.Thorough() {
		cnt := exhaustive2(run)
		run.Stats.Exhaustive = true
		run.Stats.Extra["exhaustive_part"] = fmt.Sprintf("all %d NFAs with states {3,7} over {a,b,eps} (either start, every final set, every transition relation): Star, Union/Concat with a(ba)* on either side, self-Concat, ToDFA, EliminateDeadStates, ReindexStates, Minimize (minimality), Isomorphic with the swapped copy; all words of length <= 4", cnt)
	}
}
