// Package c19: the two-buffer input reader (lexer/input) against the decoded source.
//
// Oracle (independent of the code under test): unicode/utf8.DecodeRune over the source bytes plus two
// integers (consumed prefix, start of the pending lexeme) and the sizes of the pending runes; for what a caller
// prints of a position (Position.String, (*InputError).Error, Token.String) a hand-formatted expectation, for
// Equal / IsZero a field-by-field comparison.
package c19

import (
	"bytes"
	"encoding/hex"
	"errors"
	"fmt"
	"hash/fnv"
	"io"
	"strconv"
	"strings"
	"time"
	"unicode/utf8"

	"github.com/moorara/algo/grammar"
	"github.com/moorara/algo/lexer"
	"github.com/moorara/algo/lexer/input"

	"verifharness/hx"
)

const Rule = "cases = (source bytes, buffer size n, reader script, call sequence) drawn from VERIF_SEED: sources over " +
	"{a-e, blank, newline, CR, TAB, 2/3/4-byte runes incl. the first and last scalar of every length and runes that coincide with " +
	"something internal or conventional (U+FFFD, U+EEEE = grammar.Endmarker, U+FEFF, U+2028, U+0085), NUL (separate stream), every " +
	"class of ill-formed UTF-8 (separate stream)} with lengths around multiples of n and 2n and empty; n in 1..8 plus 16 and 64; " +
	"readers full / one-byte / half / data-with-EOF / random scripts of chunk caps with zero-length reads and EOF-with-data; " +
	"comp=input keeps the pending lexeme <= n bytes (the property's precondition; from the first call that breaks it on — only " +
	"shrunk or hand-written sequences do — the oracle is silent) and mixes next/retract/lexeme/skip incl. " +
	"scanner-style 'read until delimiter, retract, lexeme'; comp=stream is next-only for any n; comp=wild ignores the " +
	"precondition and injects I/O errors (no oracle, implementation vs Model only); every string returned by Lexeme is kept " +
	"uncopied for the whole case (across op reset: while later Inputs work) and compared after later calls with a deep copy taken " +
	"at receipt and with the source span (in every stream); " +
	"SIZE SWEEP: n in {63,64,65, 100,101,102, 127,128,129, 255,256,257, 1023,1024,1025, 4095,4096,4097, 65536} x readers {full, k bytes " +
	"per Read for k=1..7, half, data-with-EOF alone and with short reads, (0,nil) answers interleaved and up to 1000 in a row (the " +
	"loop of load has no limit on empty reads: any finite number is tolerated, the Model's fuel is the script length), mixtures} x " +
	"source lengths {0,1,n-1,n,n+1,2n-1,2n,2n+1,10n} with a multi-byte rune straddling every multiple of n at every split, filled " +
	"with text of period 23 (no half repeats the one it replaces); call sequences of batches of Next (op nexts k) up to shortly " +
	"before each half boundary, single calls with retractions across it, lexemes of exactly n bytes (and, comp=wild, n+1..2n+1), " +
	"the end of input read into and retracted out of; quick: per n one reader that needs > 100 Reads per half for certain plus a " +
	"handful of random (reader, length, style), thorough: the whole grid; for n > 64 the header says dump=sum and buffer, stacks and " +
	"lexemes are compared by FNV-1a hash (the Lean Model runs every one of these cases: no oracle-only cases); comp=wild also: " +
	"readers that fail once (at once / while the 2nd or 3rd half is loaded, with and without bytes) and recover, end of input " +
	"signalled by an error WRAPPING io.EOF or by an error of a custom type (to the code: I/O errors), buffer size 0 (New succeeds, " +
	"Next panics); LONG HISTORIES: 2000-6000 calls on one Input at n in 1..64; " +
	"non-trivial = the case reloaded a buffer " +
	"half and also (used a reader with short reads or EOF-with-data, or consumed a rune straddling a half boundary, or " +
	"retracted across a half boundary or at end of input), or an ill-formed sequence was reported; every case gives New a file " +
	"name (empty, plain, with a directory and a non-ASCII rune, with a space, with ':' and '=', formatting verbs, quotes, a " +
	"backslash, the end marker, digits and colons that look like a position); every position that comes back " +
	"(Lexeme, Skip, inside the *InputError of Next) is also rendered through Position.String() resp. (*InputError).Error() and " +
	"compared byte for byte with the Model and with a hand-formatted expectation; comp=position applies Position.String/Equal/" +
	"IsZero and Token.String/Equal to explicit values (ops pos, tok: file name empty or not, line and column positive or not, " +
	"equal and differing in exactly one field, zero and non-zero in exactly one field, the end marker terminal, names that %q " +
	"escapes) and is non-trivial when it rendered both forms of a position and saw Equal true and false; thorough: every call " +
	"sequence of length <= 7 (64 per case, separated by op reset = drop the Input, make another over the same source); " +
	"distinct = distinct (header, op list)"

// ---------------------------------------------------------------- scripted reader

type answer struct {
	half bool // cap = (len(p)+1)/2
	cap  int
	flag byte // 'n' none, 'e' EOF together with the last data, 'x' I/O error, 'w' an error wrapping io.EOF, 'c' an error of a custom type
}

type script struct {
	ans     []answer
	tailEOF bool
	// cycle: these answers over and over, cycleLeft answers in all ((source length + 2) rounds), then as without a script
	cycle     []answer
	cycleLeft int
	cyclePos  int
}

var errIO = errors.New("verif: i/o error")

// errWrappedEOF: errors.Is(err, io.EOF) but err != io.EOF. The io.Reader contract asks for io.EOF itself ("callers
// will test for EOF using =="), so to the code under test this is an I/O error like any other.
var errWrappedEOF = fmt.Errorf("verif: read: %w", io.EOF)

type customErr struct{ code int }

func (e *customErr) Error() string { return "verif: custom error " + strconv.Itoa(e.code) }

type reader struct {
	rest []byte
	s    script
	// statistics
	calls, short, zero, dataEOF int
}

func (r *reader) Read(p []byte) (int, error) {
	r.calls++
	a := answer{cap: len(p), flag: 'n'}
	scripted := false
	if len(r.s.ans) > 0 {
		a, r.s.ans = r.s.ans[0], r.s.ans[1:]
		scripted = true
	} else if r.s.cycleLeft > 0 {
		a = r.s.cycle[r.s.cyclePos]
		r.s.cyclePos = (r.s.cyclePos + 1) % len(r.s.cycle)
		r.s.cycleLeft--
		scripted = true
	} else if r.s.tailEOF {
		a.flag = 'e'
	}
	m := len(p)
	if a.half {
		m = (len(p) + 1) / 2
	} else if a.cap < m {
		m = a.cap
	}
	if len(r.rest) < m {
		m = len(r.rest)
	}
	copy(p, r.rest[:m])
	r.rest = r.rest[m:]
	if m < len(p) && len(r.rest) > 0 {
		r.short++
	}
	switch a.flag {
	case 'x':
		return m, errIO
	case 'w':
		return m, errWrappedEOF
	case 'c':
		return m, &customErr{code: r.calls}
	}
	stall := scripted && !a.half && a.cap == 0 && a.flag == 'n'
	if m == 0 && stall {
		r.zero++
		return 0, nil
	}
	if len(r.rest) == 0 && (a.flag == 'e' || m == 0) {
		if m > 0 {
			r.dataEOF++
		}
		return m, io.EOF
	}
	if m == 0 {
		r.zero++
	}
	return m, nil
}

// parseReader: full | one | half | dataeof | chunks:<tok>,<tok>,… | cycle:<tok>,<tok>,…  with tok = (h|<cap>)[e|x|w|c]
// or E (tail reports EOF with data) or <count>*<tok>; cycle = the token list repeated (source length + 2) times
func parseReader(spec string, srcLen int) (script, bool) {
	rep := func(a answer) script {
		return script{cycle: []answer{a}, cycleLeft: srcLen + 2}
	}
	switch spec {
	case "full", "":
		return script{}, true
	case "dataeof":
		return script{tailEOF: true}, true
	case "one":
		return rep(answer{cap: 1, flag: 'n'}), true
	case "half":
		return rep(answer{half: true, flag: 'n'}), true
	}
	cyc := strings.HasPrefix(spec, "cycle:")
	if !strings.HasPrefix(spec, "chunks:") && !cyc {
		return script{}, false
	}
	s := script{}
	body := strings.TrimPrefix(strings.TrimPrefix(spec, "chunks:"), "cycle:")
	if body == "" {
		return s, true
	}
	for _, tok := range strings.Split(body, ",") {
		if tok == "E" {
			s.tailEOF = true
			continue
		}
		count := 1
		if parts := strings.Split(tok, "*"); len(parts) == 2 {
			v, err := strconv.Atoi(parts[0])
			if err != nil || v < 0 || !decimal(parts[0]) {
				return script{}, false
			}
			count, tok = v, parts[1]
		} else if len(parts) != 1 {
			return script{}, false
		}
		a := answer{flag: 'n'}
		if tok == "E" {
			return script{}, false
		}
		if l := len(tok); l > 0 && strings.IndexByte("exwc", tok[l-1]) >= 0 {
			a.flag = tok[l-1]
			tok = tok[:l-1]
		}
		if tok == "h" {
			a.half = true
		} else {
			v, err := strconv.Atoi(tok)
			if err != nil || v < 0 || !decimal(tok) {
				return script{}, false
			}
			a.cap = v
		}
		for ; count > 0; count-- {
			s.ans = append(s.ans, a)
		}
	}
	if cyc {
		s.cycle, s.ans = s.ans, nil
		if len(s.cycle) > 0 {
			s.cycleLeft = len(s.cycle) * (srcLen + 2)
		}
	}
	return s, true
}

// decimal: digits only (strconv.Atoi also takes a sign, String.toNat? of the Lean driver does not)
func decimal(w string) bool {
	if w == "" {
		return false
	}
	for i := 0; i < len(w); i++ {
		if w[i] < '0' || w[i] > '9' {
			return false
		}
	}
	return true
}

func (s script) hasIOErr() bool {
	for _, as := range [][]answer{s.ans, s.cycle} {
		for _, a := range as {
			if a.flag == 'x' || a.flag == 'w' || a.flag == 'c' {
				return true
			}
		}
	}
	return false
}

// parseSrc: <seg>+<seg>+… with seg = x<hex> | <count>*x<hex>
func parseSrc(spec string) ([]byte, bool) {
	var src []byte
	for _, seg := range strings.Split(spec, "+") {
		count := 1
		if parts := strings.Split(seg, "*"); len(parts) == 2 {
			v, err := strconv.Atoi(parts[0])
			if err != nil || !decimal(parts[0]) {
				return nil, false
			}
			count, seg = v, parts[1]
		} else if len(parts) != 1 {
			return nil, false
		}
		if !strings.HasPrefix(seg, "x") {
			return nil, false
		}
		b, err := hex.DecodeString(seg[1:])
		if err != nil {
			return nil, false
		}
		for ; count > 0; count-- {
			src = append(src, b...)
		}
	}
	return src, true
}

func fnvBytes(b []byte) string {
	h := fnv.New64a()
	h.Write(b)
	return fmt.Sprintf("%016x", h.Sum64())
}

// sumDump replaces buf=x<hex> of a state dump by buf=h<FNV-1a 64 of the buffer> (header dump=sum)
func sumDump(d string) string {
	if !strings.HasPrefix(d, "buf=x") {
		return d
	}
	end := strings.IndexByte(d, ' ')
	if end < 0 {
		end = len(d)
	}
	b, err := hex.DecodeString(d[5:end])
	if err != nil {
		return d
	}
	d = "buf=h" + fnvBytes(b) + d[end:]
	// the two stacks: length and hash of the values, bottom first
	for _, key := range []string{" rs=[", " lc=["} {
		a := strings.Index(d, key)
		if a < 0 {
			continue
		}
		z := strings.IndexByte(d[a:], ']')
		if z < 0 {
			continue
		}
		body := d[a+len(key) : a+z]
		h, cnt := uint64(0xcbf29ce484222325), 0
		for len(body) > 0 {
			w := body
			if sp := strings.IndexByte(body, ' '); sp >= 0 {
				w, body = body[:sp], body[sp+1:]
			} else {
				body = ""
			}
			v, _ := strconv.ParseInt(w, 10, 64)
			h = (h ^ uint64(v)) * 0x100000001b3
			cnt++
		}
		d = d[:a] + key[:4] + "n" + strconv.Itoa(cnt) + ":h" + fmt.Sprintf("%016x", h) + d[a+z+1:]
	}
	return d
}

// ---------------------------------------------------------------- oracle helpers

// lineCol returns the 1-based line and column (in runes) of byte offset p of src, and the rune offset.
func lineCol(src []byte, p int) (off, line, col int) {
	line, col = 1, 1
	for i := 0; i < p; {
		r, sz := utf8.DecodeRune(src[i:])
		if r == '\n' {
			line++
			col = 1
		} else {
			col++
		}
		off++
		i += sz
	}
	return
}

func posStr(p lexer.Position) string { return fmt.Sprintf("%d %d %d", p.Offset, p.Line, p.Column) }

// wantPosString is what the documentation of lexer.Position.String promises, formatted by hand (oracle; never
// calls the code under test): the file name and a colon when there is a file name, then line:column when both
// are known (positive), else the offset.
func wantPosString(file string, off, line, col int) string {
	s := ""
	if file != "" {
		s = file + ":"
	}
	if line >= 1 && col >= 1 {
		return s + strconv.Itoa(line) + ":" + strconv.Itoa(col)
	}
	return s + strconv.Itoa(off)
}

// wantTerminalString: "$" for the end marker U+EEEE, else the name in double quotes with '"' and '\\' escaped
// (only names of printable ASCII reach this).
func wantTerminalString(name string) string {
	if name == "\uEEEE" {
		return "$"
	}
	var b strings.Builder
	b.WriteByte('"')
	for i := 0; i < len(name); i++ {
		if name[i] == '"' || name[i] == '\\' {
			b.WriteByte('\\')
		}
		b.WriteByte(name[i])
	}
	b.WriteByte('"')
	return b.String()
}

func quoted(s string) string { return "\"" + s + "\"" }

// parseStr decodes x<hex> into a string; only well-formed UTF-8 without line breaks is a value of the protocol.
func parseStr(w string) (string, bool) {
	if !strings.HasPrefix(w, "x") {
		return "", false
	}
	b, err := hex.DecodeString(w[1:])
	if err != nil || !utf8.Valid(b) || bytes.ContainsAny(b, "\n\r") {
		return "", false
	}
	return string(b), true
}

func parsePosition(f []string) (lexer.Position, bool) {
	if len(f) != 4 {
		return lexer.Position{}, false
	}
	file, ok := parseStr(f[0])
	off, e1 := strconv.Atoi(f[1])
	line, e2 := strconv.Atoi(f[2])
	col, e3 := strconv.Atoi(f[3])
	if !ok || e1 != nil || e2 != nil || e3 != nil {
		return lexer.Position{}, false
	}
	return lexer.Position{Filename: file, Offset: off, Line: line, Column: col}, true
}

func parseToken(f []string) (lexer.Token, bool) {
	if len(f) != 6 {
		return lexer.Token{}, false
	}
	term, ok1 := parseStr(f[0])
	lex, ok2 := parseStr(f[1])
	p, ok3 := parsePosition(f[2:])
	if !ok1 || !ok2 || !ok3 {
		return lexer.Token{}, false
	}
	if term != "\uEEEE" { // %q is modelled for printable ASCII only
		for i := 0; i < len(term); i++ {
			if term[i] < 0x20 || term[i] > 0x7e {
				return lexer.Token{}, false
			}
		}
	}
	return lexer.Token{Terminal: grammar.Terminal(term), Lexeme: lex, Pos: p}, true
}

// posFields prints a position field by field (never through its own String method, which is under test).
func posFields(p lexer.Position) string {
	return fmt.Sprintf("{%q %d %d %d}", p.Filename, p.Offset, p.Line, p.Column)
}

func samePos(p, q lexer.Position) bool {
	return p.Filename == q.Filename && p.Offset == q.Offset && p.Line == q.Line && p.Column == q.Column
}

// valueOp executes the ops on explicit values: pos (Position.String/Equal/IsZero) and tok (Token.String/Equal).
// ok=false: not such an op.
func valueOp(f []string, i int, bad func(int, string, string, ...any), tags map[string]bool) (out string, ok bool) {
	switch f[0] {
	case "pos":
		if len(f) != 9 {
			return "bad-op", true
		}
		p, ok1 := parsePosition(f[1:5])
		q, ok2 := parsePosition(f[5:9])
		if !ok1 || !ok2 {
			return "bad-op", true
		}
		ps, qs, eq, pz, qz := p.String(), q.String(), p.Equal(q), p.IsZero(), q.IsZero()
		out = fmt.Sprintf("ok %s %s eq=%t zero=%t,%t", quoted(ps), quoted(qs), eq, pz, qz)
		for _, x := range []struct {
			p    lexer.Position
			s    string
			zero bool
		}{{p, ps, pz}, {q, qs, qz}} {
			if want := wantPosString(x.p.Filename, x.p.Offset, x.p.Line, x.p.Column); x.s != want {
				bad(i, "", "Position%s.String() = %q, want %q", posFields(x.p), x.s, want)
			}
			if want := x.p.Filename == "" && x.p.Offset == 0 && x.p.Line == 0 && x.p.Column == 0; x.zero != want {
				bad(i, "", "Position%s.IsZero() = %t", posFields(x.p), x.zero)
			}
			tags[map[bool]string{true: "pos-file", false: "pos-nofile"}[x.p.Filename != ""]] = true
			tags[map[bool]string{true: "pos-linecol", false: "pos-offset-only"}[x.p.Line > 0 && x.p.Column > 0]] = true
			tags[map[bool]string{true: "pos-zero", false: "pos-nonzero"}[x.zero]] = true
		}
		if eq != samePos(p, q) {
			bad(i, "", "Position%s.Equal(%s) = %t", posFields(p), posFields(q), eq)
		}
		tags[map[bool]string{true: "pos-equal", false: "pos-unequal"}[eq]] = true
		return out, true
	case "tok":
		if len(f) != 13 {
			return "bad-op", true
		}
		t, ok1 := parseToken(f[1:7])
		u, ok2 := parseToken(f[7:13])
		if !ok1 || !ok2 {
			return "bad-op", true
		}
		ts, us, eq := t.String(), u.String(), t.Equal(u)
		out = fmt.Sprintf("ok %s %s eq=%t", quoted(ts), quoted(us), eq)
		for _, x := range []struct {
			t lexer.Token
			s string
		}{{t, ts}, {u, us}} {
			want := wantTerminalString(string(x.t.Terminal)) + " <" + x.t.Lexeme + ", " +
				wantPosString(x.t.Pos.Filename, x.t.Pos.Offset, x.t.Pos.Line, x.t.Pos.Column) + ">"
			if x.s != want {
				bad(i, "", "Token.String() = %q, want %q", x.s, want)
			}
		}
		if want := t.Terminal == u.Terminal && t.Lexeme == u.Lexeme && samePos(t.Pos, u.Pos); eq != want {
			bad(i, "", "Token{%q %q %s}.Equal(Token{%q %q %s}) = %t", string(t.Terminal), t.Lexeme, posFields(t.Pos), string(u.Terminal), u.Lexeme, posFields(u.Pos), eq)
		}
		tags[map[bool]string{true: "tok-equal", false: "tok-unequal"}[eq]] = true
		return out, true
	}
	return "", false
}

// ---------------------------------------------------------------- executor

func Exec(c hx.Case) hx.Result {
	var res hx.Result
	done := make(chan struct{})
	go func() { defer close(done); res = exec(c) }()
	select {
	case <-done:
		return res
	case <-time.After(20 * time.Second):
		// an operation does not return: the case ends here (outputs so far + hang)
		return hx.Result{Outs: []string{"hang"}, BadOp: 0, What: "an operation of the case did not return within 20 s", Tags: []string{"hang"}}
	}
}

func exec(c hx.Case) hx.Result {
	comp := hx.HeaderGet(c.Header, "comp")
	n, _ := strconv.Atoi(hx.HeaderGet(c.Header, "n"))
	srcSpec := hx.HeaderGet(c.Header, "src")
	if srcSpec == "" {
		srcSpec = "x"
	}
	src, okSrc := parseSrc(srcSpec)
	readerSpec := hx.HeaderGet(c.Header, "reader")
	sc, okReader := parseReader(readerSpec, len(src))
	sum := hx.HeaderGet(c.Header, "dump") == "sum"
	file, okFile := "", true
	if w := hx.HeaderGet(c.Header, "file"); w != "" {
		file, okFile = parseStr(w)
	}
	res := hx.Result{BadOp: -1}
	if !okSrc || !okReader || !okFile || n < 0 || (n < 1 && comp != "wild") {
		for range c.Ops {
			res.Outs = append(res.Outs, "bad-case")
		}
		return res
	}
	checked := comp != "wild" && !sc.hasIOErr() // the oracle speaks about readers that deliver the source
	bad := func(i int, sig string, format string, a ...any) {
		if res.BadOp < 0 {
			res.BadOp = i
			res.What = fmt.Sprintf(format, a...)
			res.Sig = sig
		}
	}
	tags := map[string]bool{}

	rd := &reader{rest: append([]byte{}, src...), s: sc}
	rd0, short, zero, dataEOF := rd, 0, 0, 0 // statistics of the readers of earlier Inputs of the case (op reset)
	var in *input.Input
	closed := false

	// oracle state
	pos, begin := 0, 0 // byte offsets into src: consumed prefix, start of the pending lexeme
	var sizes []int    // sizes of the pending runes
	stop := false      // after an ill-formed sequence was reported nothing more is specified

	// Every string handed out by Lexeme is kept for the whole case, exactly as it was returned (a caller keeps
	// its lexemes: they are to concatenate to the consumed prefix), next to a deep copy taken at receipt and the
	// oracle's expectation. After every later call and at the end of the case each kept string is compared again.
	type keptLexeme struct {
		op     int
		got    string // the value returned, never copied
		clone  string // strings.Clone(got) at receipt
		want   string // the pending part of the source at that time ("" when the oracle no longer follows)
		wanted bool
	}
	var kept []keptLexeme
	recheck := func(at int, all bool) {
		from := 0
		if !all && len(kept) > 128 {
			from = len(kept) - 128 // every 64th op and at the end of the case all of them are read again
		}
		for _, k := range kept[from:] {
			if k.got != k.clone {
				bad(at, "", "the lexeme returned at op %d (%q) changed later: after op %d the same string reads %q",
					k.op, k.clone, at, strings.Clone(k.got))
				tags["kept-lexeme-changed"] = true
				return
			}
			if checked && k.wanted && k.got != k.want {
				bad(at, "", "the lexeme returned at op %d no longer equals the source span %q: it reads %q", k.op, k.want, strings.Clone(k.got))
				return
			}
		}
	}
	lastWasNextOK := false

	// showNext prints what Next returned; the text of an *InputError is checked against the documented format at once
	showNext := func(i int, r rune, err error) string {
		var ie *input.InputError
		switch {
		case err == nil:
			return "ok r " + strconv.Itoa(int(r))
		case err == io.EOF:
			return "ok err eof"
		case errors.As(err, &ie):
			text := err.Error()
			// formatting, whatever the stream: Error() is the position as Position.String documents it, ": ", the description
			if want := wantPosString(file, ie.Pos.Offset, ie.Pos.Line, ie.Pos.Column) + ": " + ie.Description; text != want {
				bad(i, "", "the error of next reads %q, want %q (file name given to New %q, position %s)", text, want, file, posFields(ie.Pos))
			}
			tags["error-text"] = true
			return "ok err utf8 " + posStr(ie.Pos) + " " + quoted(text)
		default:
			return "ok err other"
		}
	}
	// checkNext: the oracle for one call of Next
	checkNext := func(i int, r rune, err error) {
		var ie *input.InputError
		if err != nil && err != io.EOF {
			errors.As(err, &ie)
		}
		lastWasNextOK = false
		if pos == len(src) {
			tags["eof-reached"] = true
			if err != io.EOF {
				bad(i, "", "next at end of input returned (%d,%v), want io.EOF", r, err)
			}
			return
		}
		want, sz := utf8.DecodeRune(src[pos:])
		if want == utf8.RuneError && sz == 1 {
			// ill-formed: must be reported, and not as the ordinary end of input
			stop = true
			if err == nil {
				bad(i, "", "ill-formed UTF-8 at byte %d decoded silently as %d", pos, r)
			} else if err == io.EOF {
				sig := ""
				if !utf8.FullRune(src[pos:]) {
					sig = "truncated_rune_at_end"
				}
				bad(i, sig, "ill-formed UTF-8 at byte %d reported as the ordinary end of input (io.EOF)", pos)
			} else {
				tags["invalid-utf8-reported"] = true
				// the error names the place of the ill-formed sequence: line and column of its first byte
				if _, line, col := lineCol(src, pos); ie != nil {
					if want := wantPosString(file, -1, line, col) + ": invalid utf-8 character"; err.Error() != want {
						bad(i, "", "ill-formed UTF-8 at byte %d (line %d, column %d) reported as %q, want %q", pos, line, col, err.Error(), want)
					}
				}
			}
			return
		}
		if err != nil || r != want {
			sig := ""
			if src[pos] == 0 && err == io.EOF {
				sig = "nul_in_source"
			}
			bad(i, sig, "next at byte %d returned (%d,%v), the source decodes to %d (buffer size %d, reader %s)", pos, r, err, want, n, readerSpec)
			return
		}
		if sz > 1 && pos/n != (pos+sz-1)/n {
			tags["rune-straddles-halves"] = true
		}
		if len(kept) > 0 && pos/n != (pos+sz)/n {
			tags["lexeme-kept-across-reload"] = true
		}
		pos += sz
		sizes = append(sizes, sz)
		lastWasNextOK = true
		if pos > n {
			tags["reload"] = true
		}
		if pos > 2*n {
			tags["wrap"] = true
		}
	}

	for i, op := range c.Ops {
		f := strings.Fields(op)
		out := "bad-op"
		var check func()
		hung := false
		kind := hx.Try(func() {
			if vout, isValueOp := valueOp(f, i, bad, tags); isValueOp {
				out = vout
				return
			}
			if len(f) == 1 && f[0] == "reset" {
				// the Input is dropped; the next new makes another one over the same source, the reader starts again.
				// Lexemes handed out so far stay with the caller and are read again after every later call.
				sc2, _ := parseReader(readerSpec, len(src))
				rd = &reader{rest: append([]byte{}, src...), s: sc2}
				short, zero, dataEOF = short+rd0.short, zero+rd0.zero, dataEOF+rd0.dataEOF
				rd0 = rd
				in, closed = nil, false
				pos, begin, sizes, stop, lastWasNextOK = 0, 0, sizes[:0], false, false
				checked = comp != "wild" && !sc.hasIOErr()
				out = "ok reset"
				tags["reset"] = true
				return
			}
			if closed && len(f) == 1 {
				out = "ok noinput"
				return
			}
			k := 0
			if f[0] == "nexts" && len(f) == 2 && decimal(f[1]) && in != nil {
				k, _ = strconv.Atoi(f[1])
			} else if (f[0] == "new") != (in == nil) || len(f) != 1 {
				return // bad-op: new on a live input, anything else before new
			}
			switch f[0] {
			case "new":
				var err error
				in, err = input.New(file, rd, n)
				switch {
				case err == nil:
					out = "ok"
				case err == io.EOF:
					out, in, closed = "ok err eof", nil, true
				default:
					out, in, closed = "ok err other", nil, true
				}
				check = func() {
					if err != nil && !(err == io.EOF && len(src) == 0) {
						bad(i, "", "New failed with %v on a source of %d bytes", err, len(src))
					}
				}
			case "next":
				r, err := in.Next()
				out = showNext(i, r, err)
				check = func() { checkNext(i, r, err) }
			case "nexts":
				// Next until k runes have come back or something that is not a rune has
				type nr struct {
					r   rune
					err error
				}
				var got []nr
				h, last := uint64(0xcbf29ce484222325), "-"
				for len(got) < k {
					r, err := in.Next()
					got = append(got, nr{r, err})
					if err != nil {
						last = showNext(i, r, err)
						break
					}
					h = (h ^ uint64(r)) * 0x100000001b3
				}
				cnt := len(got)
				if last != "-" {
					cnt--
				}
				out = fmt.Sprintf("ok nexts %d h%016x then %s", cnt, h, last)
				tags["nexts-batch"] = true
				check = func() {
					for _, g := range got {
						if res.BadOp >= 0 || stop {
							break
						}
						checkNext(i, g.r, g.err)
					}
				}
			case "retract":
				in.Retract()
				out = "ok"
				check = func() {
					if len(sizes) > 0 {
						sz := sizes[len(sizes)-1]
						sizes = sizes[:len(sizes)-1]
						if pos == len(src) && lastWasNextOK {
							tags["retract-at-eof"] = true
						}
						if pos/n != (pos-sz)/n {
							tags["retract-across-halves"] = true
						}
						pos -= sz
					}
					lastWasNextOK = false
				}
			case "lexeme":
				// (with an empty buffer, n = 0, both pointers stay 0: the loop body never runs and Lexeme returns)
				if n > 0 && !input.VerifLexemeReturns(in) {
					hung = true // the copying loop of Lexeme cannot terminate from this state (not called: it would exhaust memory)
					return
				}
				s, p := in.Lexeme()
				ps := p.String()
				if sum {
					out = "ok l" + strconv.Itoa(len(s)) + ":h" + fnvBytes([]byte(s)) + " " + posStr(p) + " " + quoted(ps)
				} else {
					out = "ok x" + hex.EncodeToString([]byte(s)) + " " + posStr(p) + " " + quoted(ps)
				}
				if want := wantPosString(file, p.Offset, p.Line, p.Column); ps != want {
					bad(i, "", "the position of the lexeme reads %q, want %q (file name given to New %q, position %s)", ps, want, file, posFields(p))
				}
				kl := keptLexeme{op: i, got: s, clone: strings.Clone(s)}
				if checked && !stop && pos <= len(src) && begin <= pos {
					kl.want, kl.wanted = string(src[begin:pos]), true
				}
				kept = append(kept, kl)
				check = func() {
					want := string(src[begin:pos])
					_, line, col := lineCol(src, begin)
					if s != want {
						bad(i, "", "lexeme = %q, the pending part of the source is %q", s, want)
					} else if p.Line != line || p.Column != col {
						bad(i, "", "lexeme %q reported at %d:%d, its first rune is at %d:%d", s, p.Line, p.Column, line, col)
					} else if want := wantPosString(file, -1, line, col); ps != want {
						bad(i, "", "lexeme %q: its position reads %q, its first rune is at %q", s, ps, want)
					}
					begin, sizes = pos, sizes[:0]
					lastWasNextOK = false
				}
			case "skip":
				p := in.Skip()
				ps := p.String()
				out = "ok " + posStr(p) + " " + quoted(ps)
				if want := wantPosString(file, p.Offset, p.Line, p.Column); ps != want {
					bad(i, "", "the position returned by skip reads %q, want %q (file name given to New %q, position %s)", ps, want, file, posFields(p))
				}
				check = func() {
					_, line, col := lineCol(src, begin)
					if p.Line != line || p.Column != col {
						bad(i, "", "skip reported %d:%d, the skipped span starts at %d:%d", p.Line, p.Column, line, col)
					} else if want := wantPosString(file, -1, line, col); ps != want {
						bad(i, "", "skip: its position reads %q, the skipped span starts at %q", ps, want)
					}
					begin, sizes = pos, sizes[:0]
					lastWasNextOK = false
				}
			}
			if in != nil {
				if sum {
					out += " | " + sumDump(input.VerifDump(in))
				} else {
					out += " | " + input.VerifDump(in)
				}
			}
		})
		if hung {
			res.Outs = append(res.Outs, "hang")
			if checked {
				bad(i, "", "%s never returns (forward is outside the buffer)", op)
			}
			tags["hang"] = true
			break
		}
		if kind != "" {
			res.Outs = append(res.Outs, "panic")
			if checked {
				bad(i, "", "%s panicked (%s)", op, kind)
			}
			tags["panic"] = true
			break
		}
		res.Outs = append(res.Outs, out)
		// strings are immutable: a kept lexeme must read the same after every later call, in every stream
		recheck(i, i%64 == 0 || i == len(c.Ops)-1)
		if checked && !stop && check != nil {
			check()
			if pos-begin > n && comp == "input" {
				// the pending lexeme exceeds the buffer size: from here on the property says nothing. The
				// generators never get here; a shrunk or hand-written call sequence may. (pos and begin are
				// computed from the source and the calls alone, never from what the implementation returned.)
				tags["precondition-broken"] = true
				checked = false
			}
		}
	}

	if short+rd.short > 0 {
		tags["short-reads"] = true
	}
	if zero+rd.zero > 0 {
		tags["zero-length-reads"] = true
	}
	if dataEOF+rd.dataEOF > 0 {
		tags["data-with-eof"] = true
	}
	tags["comp="+comp] = true
	tags["n="+strconv.Itoa(n)] = true
	res.Nontrivial = (tags["reload"] && (tags["short-reads"] || tags["data-with-eof"] || tags["rune-straddles-halves"] ||
		tags["retract-across-halves"] || tags["retract-at-eof"])) || tags["invalid-utf8-reported"] ||
		(comp == "position" && tags["pos-linecol"] && tags["pos-offset-only"] && tags["pos-equal"] && tags["pos-unequal"])
	if file != "" {
		tags["file-name"] = true
	} else {
		tags["no-file-name"] = true
	}
	for t := range tags {
		res.Tags = append(res.Tags, t)
	}
	return res
}

// ---------------------------------------------------------------- generators

var (
	// besides ordinary text: runes that coincide with something internal or conventional — CR and TAB, U+FFFD (what a
	// decoder substitutes for ill-formed input, here well-formed), U+EEEE (grammar.Endmarker), U+FEFF (byte order mark),
	// U+2028 (a line separator that is NOT a new line for the line counter), U+0085, U+00A0
	ascii   = []string{"a", "b", "c", "d", "e", " ", "\n", "\n", "\r", "\t"}
	twoB    = []string{"\u00e9", "\u0080", "\u07ff", "\u01a9", "\u0085", "\u00a0"}
	threeB  = []string{"\u20ac", "\u0800", "\uffff", "\ud7ff", "\ue000", "\uaa40", "\ufffd", "\ueeee", "\ufeff", "\u2028"}
	fourB   = []string{"\U00010000", "\U0010ffff", "\U0001f600", "\U00040000"}
	invalid = []string{
		"\x80", "\xbf", "\xc0\x80", "\xc1\xbf", "\xf5\x80\x80\x80", "\xff", // lone continuation, never-valid leads
		"\xe0\x80\x80", "\xe0\x9f\xbf", "\xed\xa0\x80", "\xed\xbf\xbf", // overlong 3-byte, surrogates
		"\xf0\x80\x80\x80", "\xf0\x8f\xbf\xbf", "\xf4\x90\x80\x80", // overlong 4-byte, above U+10FFFF
		"\xc3a", "\xc3\xc3", "\xe2\x82a", "\xe2a\xac", "\xf0\x90\x80a", "\xf0\x90a\x80", "\xf0a\x80\x80", // bad continuation
		"\xe2\x82\xc0", "\xf0\x90\x80\xc0", "\xf0\x90\xc0\x80",
	}
	truncated = []string{"\xc3", "\xe2", "\xe2\x82", "\xf0", "\xf0\x90", "\xf0\x90\x80"}
)

func genSource(r *hx.Rand, n, maxRune int, wantLen int) []byte {
	var b []byte
	for len(b) < wantLen {
		x := r.Intn(100)
		var s string
		switch {
		case x < 50 || maxRune < 2:
			s = hx.Pick(r, ascii)
		case x < 68 || maxRune < 3:
			s = hx.Pick(r, twoB)
		case x < 86 || maxRune < 4:
			s = hx.Pick(r, threeB)
		default:
			s = hx.Pick(r, fourB)
		}
		b = append(b, s...)
	}
	return b
}

// pickLen: lengths around multiples of n and 2n, small ones, empty.
func pickLen(r *hx.Rand, n int) int {
	switch r.Intn(10) {
	case 0:
		return r.Intn(3)
	case 1, 2, 3:
		return r.Range(1, 4)*n + r.Range(-1, 1)
	case 4, 5:
		return r.Range(1, 3)*2*n + r.Range(-1, 1)
	default:
		return r.Range(1, 6*n+4)
	}
}

func genReader(r *hx.Rand, n, srcLen int, ioerr bool) string {
	switch r.Intn(10) {
	case 0, 1:
		return "full"
	case 2:
		return "one"
	case 3:
		return "half"
	case 4:
		return "dataeof"
	}
	if n < 1 {
		n = 1
	}
	k := r.Range(1, 2*srcLen/((n+1)/2)+6)
	if k > 60 {
		k = 60
	}
	toks := make([]string, 0, k+1)
	for j := 0; j < k; j++ {
		var t string
		switch x := r.Intn(12); {
		case x == 0:
			t = "0"
		case x == 1:
			t = "h"
		case x < 6:
			t = "1"
		default:
			t = strconv.Itoa(r.Range(1, n+1))
		}
		if r.Chance(1, 6) {
			t += "e"
		} else if ioerr && r.Chance(1, 10) {
			t += "x"
		}
		toks = append(toks, t)
	}
	if r.Bool() {
		toks = append(toks, "E")
	}
	return "chunks:" + strings.Join(toks, ",")
}

// genOps produces a call sequence; when keep is set the pending lexeme never exceeds n bytes
// (the generator follows the decoded source to know the size of the next rune).
func genOps(r *hx.Rand, src []byte, n int, length int, keep bool) []string {
	ops := []string{"new"}
	pos, begin := 0, 0
	var sizes []int
	scanner := r.Chance(1, 3) // read until a delimiter, retract it, take the lexeme
	flush := func() {
		if r.Chance(2, 3) {
			ops = append(ops, "lexeme")
		} else {
			ops = append(ops, "skip")
		}
		begin, sizes = pos, sizes[:0]
	}
	next := func() bool { // returns false at end of input or at an ill-formed sequence
		if pos >= len(src) {
			ops = append(ops, "next")
			return false
		}
		rr, sz := utf8.DecodeRune(src[pos:])
		if rr == utf8.RuneError && sz == 1 {
			ops = append(ops, "next")
			pos = len(src) + 1 // unspecified from here on: stop tracking
			return false
		}
		if keep && pos-begin+sz > n {
			if pos == begin {
				// the rune alone is longer than n: cannot be consumed within the precondition
				ops = append(ops, "next", "skip")
				pos += sz
				begin, sizes = pos, sizes[:0]
				return true
			}
			flush()
		}
		ops = append(ops, "next")
		pos += sz
		sizes = append(sizes, sz)
		return true
	}
	retract := func() {
		ops = append(ops, "retract")
		if len(sizes) > 0 {
			pos -= sizes[len(sizes)-1]
			sizes = sizes[:len(sizes)-1]
		}
	}
	eofs := 0
	for len(ops) < length && eofs < 3 {
		if pos > len(src) {
			// after an ill-formed sequence: a few arbitrary calls, the oracle no longer follows
			ops = append(ops, hx.Pick(r, []string{"next", "retract", "lexeme", "skip"}))
			eofs++
			continue
		}
		if scanner {
			ok := true
			for ok && len(ops) < length {
				ok = next()
				if ok && pos <= len(src) && (src[pos-1] == ' ' || src[pos-1] == '\n') {
					break
				}
			}
			if !ok {
				eofs++
			}
			if len(sizes) > 1 && r.Chance(4, 5) {
				retract()
			}
			flush()
			if r.Chance(1, 4) && pos < len(src) {
				next()
				flush()
			}
			continue
		}
		switch x := r.Intn(100); {
		case x < 58:
			if !next() {
				eofs++
			}
		case x < 76:
			k := 1
			if r.Chance(1, 4) {
				k = r.Range(2, 4)
			}
			for ; k > 0; k-- {
				retract()
			}
		case x < 90:
			ops = append(ops, "lexeme")
			begin, sizes = pos, sizes[:0]
		default:
			ops = append(ops, "skip")
			begin, sizes = pos, sizes[:0]
		}
	}
	return ops
}

func header(comp string, src []byte, n int, reader string, file string) string {
	return fmt.Sprintf("comp=%s src=x%s n=%d reader=%s file=x%s", comp, hex.EncodeToString(src), n, reader, hex.EncodeToString([]byte(file)))
}

// file names given to New: none (twice as likely), plain, with a directory and a non-ASCII rune, with a space,
// with the separators of the rendering and of the header
// and names that look like something else to the rendering: formatting verbs, quotes, a backslash, the end marker, digits
var fileNames = []string{"", "", "a.src", "dir/\u00fc.txt", "x y", "a:b=c", "%d%s%!", "\"q\"", "a\\b", "\uEEEE", "$", "3:7", "0"}

// ---- explicit positions and tokens (ops pos, tok)

func hexStr(s string) string { return "x" + hex.EncodeToString([]byte(s)) }

func posArgs(p lexer.Position) string {
	return fmt.Sprintf("%s %d %d %d", hexStr(p.Filename), p.Offset, p.Line, p.Column)
}

func posOp(p, q lexer.Position) string { return "pos " + posArgs(p) + " " + posArgs(q) }

func tokOp(t, u lexer.Token) string {
	return "tok " + hexStr(string(t.Terminal)) + " " + hexStr(t.Lexeme) + " " + posArgs(t.Pos) + " " +
		hexStr(string(u.Terminal)) + " " + hexStr(u.Lexeme) + " " + posArgs(u.Pos)
}

// systematicValueOps: every branch of Position.String / Equal / IsZero and Token.String / Equal, the same on every run:
// file name empty / not, (line, column) both positive / line not / column not / neither, equal, differing in exactly
// one field, zero, non-zero in exactly one field; tokens equal, differing in terminal / lexeme / position, the end marker,
// names with characters %q escapes.
func systematicValueOps() []string {
	var ops []string
	for _, f := range []string{"", "a.src"} {
		for _, lc := range [][2]int{{3, 5}, {0, 5}, {3, 0}, {0, 0}, {-1, 4}, {2, -7}, {1, 1}} {
			p := lexer.Position{Filename: f, Offset: 17, Line: lc[0], Column: lc[1]}
			ops = append(ops, posOp(p, p))
		}
	}
	base := lexer.Position{Filename: "a.src", Offset: 17, Line: 3, Column: 5}
	for k := 0; k < 4; k++ {
		q := base
		switch k {
		case 0:
			q.Filename = "b.src"
		case 1:
			q.Offset++
		case 2:
			q.Line++
		case 3:
			q.Column++
		}
		ops = append(ops, posOp(base, q), posOp(q, base))
	}
	var zero lexer.Position
	ops = append(ops, posOp(zero, zero), posOp(zero, base))
	for k := 0; k < 4; k++ {
		q := zero
		switch k {
		case 0:
			q.Filename = "f"
		case 1:
			q.Offset = 1
		case 2:
			q.Line = 1
		case 3:
			q.Column = 1
		}
		ops = append(ops, posOp(q, zero))
	}
	ops = append(ops, posOp(lexer.Position{Offset: -4}, lexer.Position{Offset: -4, Line: -1, Column: -1}))
	t := lexer.Token{Terminal: "ID", Lexeme: "foo", Pos: base}
	ops = append(ops, tokOp(t, t))
	for k := 0; k < 3; k++ {
		u := t
		switch k {
		case 0:
			u.Terminal = "NUM"
		case 1:
			u.Lexeme = "bar"
		case 2:
			u.Pos.Column++
		}
		ops = append(ops, tokOp(t, u), tokOp(u, t))
	}
	ops = append(ops,
		tokOp(lexer.Token{Terminal: grammar.Endmarker, Pos: zero}, lexer.Token{Terminal: "$", Lexeme: "$", Pos: lexer.Position{Offset: 9}}),
		tokOp(lexer.Token{Terminal: "\"", Lexeme: "\"", Pos: base}, lexer.Token{Terminal: "a\\b", Lexeme: "a\\b", Pos: zero}),
		tokOp(lexer.Token{Terminal: "", Lexeme: "", Pos: zero}, lexer.Token{Terminal: "+", Lexeme: "\u00e9 \u20ac", Pos: lexer.Position{Filename: "x y", Line: 1, Column: 1}}))
	return ops
}

var (
	posInts   = []int{-3, -1, 0, 0, 1, 1, 2, 7, 45, 1000}
	termNames = []string{"ID", "NUM", "+", "if", "\"", "a\\b", "", "\uEEEE", "$", " "}
	lexemes   = []string{"", "x", "foo", "foo bar", "\u00e9\u20ac", "42", "\"q\"", "<a, b>"}
)

func genPosition(r *hx.Rand) lexer.Position {
	return lexer.Position{Filename: hx.Pick(r, fileNames), Offset: hx.Pick(r, posInts), Line: hx.Pick(r, posInts), Column: hx.Pick(r, posInts)}
}

// mutatePosition: the same position, or one differing in exactly one field, or an unrelated one
func mutatePosition(r *hx.Rand, p lexer.Position) lexer.Position {
	q := p
	switch r.Intn(7) {
	case 0, 1:
	case 2:
		q.Filename += "~"
	case 3:
		q.Offset += r.Range(1, 3)
	case 4:
		q.Line -= r.Range(1, 3)
	case 5:
		q.Column += r.Range(1, 3)
	default:
		q = genPosition(r)
	}
	return q
}

func genValueOp(r *hx.Rand) string {
	if r.Chance(2, 3) {
		p := genPosition(r)
		if r.Chance(1, 8) {
			p = lexer.Position{}
		}
		return posOp(p, mutatePosition(r, p))
	}
	t := lexer.Token{Terminal: grammar.Terminal(hx.Pick(r, termNames)), Lexeme: hx.Pick(r, lexemes), Pos: genPosition(r)}
	u := t
	switch r.Intn(6) {
	case 0, 1:
	case 2:
		u.Terminal = grammar.Terminal(hx.Pick(r, termNames))
	case 3:
		u.Lexeme = hx.Pick(r, lexemes)
	case 4:
		u.Pos = mutatePosition(r, t.Pos)
	default:
		u = lexer.Token{Terminal: grammar.Terminal(hx.Pick(r, termNames)), Lexeme: hx.Pick(r, lexemes), Pos: genPosition(r)}
	}
	return tokOp(t, u)
}

// ---------------------------------------------------------------- sizes: threshold sweep, long histories

// sweepSizes: buffer sizes at the thresholds programmers pick (a uint8 / uint16 counter, bufio's 100 consecutive
// empty reads, a block of 1024 / 4096 bytes), each with its two neighbours; 1..8, 16 and 64 are the sizes of the
// other streams.
var sweepSizes = []int{63, 64, 65, 100, 101, 102, 127, 128, 129, 255, 256, 257, 1023, 1024, 1025, 4095, 4096, 4097, 65536}

// fill units of 23 bytes (23 divides none of the sizes, their neighbours or doubles: the text in a half never
// repeats the text it replaces), plain and with runes of every length
var fillUnits = [][]byte{
	[]byte("abcde fghij\nklmno pqrs\n"),
	[]byte("ab é€c\n\U0001f600de fg\nhij"),
	[]byte("€€é \U00010000\n\uffff x\ty\r\n"),
}

func init() {
	for _, u := range fillUnits {
		if len(u) != 23 || !utf8.Valid(u) {
			panic("c19: fill units are 23 bytes of well-formed UTF-8")
		}
	}
}

type srcBuilder struct {
	spec []string
	b    []byte
}

func (s *srcBuilder) raw(p []byte) {
	if len(p) > 0 {
		s.spec = append(s.spec, "x"+hex.EncodeToString(p))
		s.b = append(s.b, p...)
	}
}

// fill appends exactly k bytes of well-formed text: whole units, the longest prefix of a unit that ends at a rune
// boundary, 'x' for what is left
func (s *srcBuilder) fill(k int, unit []byte) {
	if k <= 0 {
		return
	}
	if q := k / len(unit); q > 0 {
		s.spec = append(s.spec, strconv.Itoa(q)+"*x"+hex.EncodeToString(unit))
		for ; q > 0; q-- {
			s.b = append(s.b, unit...)
		}
	}
	rem := k % len(unit)
	cut := 0
	for cut < rem {
		_, sz := utf8.DecodeRune(unit[cut:])
		if cut+sz > rem {
			break
		}
		cut += sz
	}
	tail := append(append([]byte{}, unit[:cut]...), bytes.Repeat([]byte("x"), rem-cut)...)
	s.raw(tail)
}

func (s *srcBuilder) header() string {
	if len(s.spec) == 0 {
		return "x"
	}
	return strings.Join(s.spec, "+")
}

// sweepSource: exactly L bytes of well-formed UTF-8 in which, wherever it fits, a multi-byte rune straddles the
// boundary at every multiple of n (every reload of a half), at every possible split of the rune
func sweepSource(r *hx.Rand, n, L int) (spec string, src []byte) {
	unit := hx.Pick(r, fillUnits)
	var sb srcBuilder
	pos := 0
	for b := n; b < L; b += n {
		size := r.Range(2, 4)
		start := b - r.Range(1, size-1)
		if start < pos || start+size > L {
			continue
		}
		sb.fill(start-pos, unit)
		sb.raw([]byte(hx.Pick(r, [][]string{twoB, threeB, fourB}[size-2])))
		pos = start + size
	}
	sb.fill(L-pos, unit)
	return sb.header(), sb.b
}

// sweepLengths: source lengths at the buffer's own thresholds
func sweepLengths(n int) []int {
	return []int{0, 1, n - 1, n, n + 1, 2*n - 1, 2 * n, 2*n + 1, 10 * n}
}

// slowReaders need more than 100 calls of Read to fill a half of 101 bytes or more; sweepReaders is every behaviour
// the io.Reader contract allows a reader that delivers the source: full, k bytes per call for k in 1..7, half of the
// request, the last bytes together with io.EOF (alone and combined with short reads), (0, nil) answers interleaved —
// up to 1000 in a row: the loop of load has no limit on empty reads, any finite number is tolerated — and mixtures.
var slowReaders = []string{"one", "cycle:1e", "cycle:2", "cycle:0,1", "cycle:1,0,0,1e"}

func sweepReaders() []string {
	rs := []string{"full", "half", "dataeof", "cycle:he", "cycle:0,5", "cycle:0,0,0,7e", "cycle:h,0,2e,3",
		"chunks:150*0,7,101*0,1,100*0,h,99*0", "chunks:1000*0,1,1000*0,E", "chunks:3,100*0,2e,256*0"}
	for k := 3; k <= 7; k++ {
		rs = append(rs, "cycle:"+strconv.Itoa(k))
	}
	return append(rs, slowReaders...)
}

// errorReaders (comp=wild: implementation against Model, the property says nothing): an I/O error once — at once, or
// when the second or third half is loaded, with and without bytes — and full reads afterwards; the end of the input
// signalled by an error that wraps io.EOF (to the code an I/O error: it compares with ==); an error of a custom type
func errorReaders(n int) []string {
	N := strconv.Itoa(n)
	return []string{"chunks:" + N + "," + N + ",3x", "chunks:" + N + ",0x", "chunks:" + N + "," + N + ",0w", "chunks:" + N + ",1c,E",
		"chunks:" + N + "," + N + "," + N + ",0w", "chunks:2x", "chunks:" + N + ",h,hx,0,1", "cycle:" + N + "," + N + "," + N + ",1c"}
}

type tracker struct {
	src        []byte
	pos, begin int
	sizes      []int
}

func (t *tracker) sizeAt(p int) int {
	_, sz := utf8.DecodeRune(t.src[p:])
	return sz
}

// runesWithin: how many runes from pos on fit into maxBytes bytes
func (t *tracker) runesWithin(maxBytes int) (k int) {
	for p := t.pos; p < len(t.src); k++ {
		sz := t.sizeAt(p)
		if p+sz-t.pos > maxBytes {
			break
		}
		p += sz
	}
	return k
}

func (t *tracker) advance(k int) {
	for ; k > 0 && t.pos < len(t.src); k-- {
		sz := t.sizeAt(t.pos)
		t.pos += sz
		t.sizes = append(t.sizes, sz)
	}
}

// sweepOps: a call sequence for a (large) buffer: batches of Next (op nexts) up to shortly before the next half
// boundary, single calls with retractions across it, lexemes of exactly limit bytes; the pending lexeme never
// exceeds limit bytes (limit = n: the property's precondition; limit > n: comp=wild). style "stream": Next and Skip only.
func sweepOps(r *hx.Rand, src []byte, n, limit int, style string, maxOps int) []string {
	ops := []string{"new"}
	t := &tracker{src: src}
	flush := func() {
		if style == "stream" || r.Chance(1, 3) {
			ops = append(ops, "skip")
		} else {
			ops = append(ops, "lexeme")
		}
		t.begin, t.sizes = t.pos, t.sizes[:0]
	}
	batch := func(k int) {
		if k == 1 && r.Bool() {
			ops = append(ops, "next")
		} else if k >= 1 {
			ops = append(ops, "nexts "+strconv.Itoa(k))
		}
		t.advance(k)
	}
	if style == "stream" {
		for t.pos < len(src) && len(ops) < maxOps {
			var k int
			switch r.Intn(4) {
			case 0:
				k = r.Range(1, 5)
			case 1:
				k = t.runesWithin(n - t.pos%n - r.Range(0, 3)) // up to just before the boundary
			case 2:
				k = t.runesWithin(r.Range(1, 3*n))
			default:
				k = t.runesWithin(len(src)) / r.Range(1, 4)
			}
			if k < 1 {
				k = 1
			}
			batch(k)
			if r.Chance(1, 6) {
				flush()
			}
		}
		return append(ops, "nexts 3", "next", "skip", "next")
	}
	single := func() {
		switch x := r.Intn(100); {
		case x < 55:
			if t.pos >= len(src) {
				ops = append(ops, "next")
				return
			}
			sz := t.sizeAt(t.pos)
			if t.pos-t.begin+sz > limit {
				if t.pos == t.begin { // the rune alone is longer than the limit
					ops = append(ops, "next", "skip")
					t.pos += sz
					t.begin, t.sizes = t.pos, t.sizes[:0]
					return
				}
				flush()
			}
			batch(1)
		case x < 75:
			for k := r.Range(1, 3); k > 0; k-- {
				ops = append(ops, "retract")
				if l := len(t.sizes); l > 0 {
					t.pos -= t.sizes[l-1]
					t.sizes = t.sizes[:l-1]
				}
			}
		default:
			flush()
		}
	}
	room := func() int { return limit - (t.pos - t.begin) }
	for t.pos < len(src) && len(ops) < maxOps {
		switch x := r.Intn(100); {
		case x < 35: // up to shortly before the next half boundary, then step by step across it
			target := n - t.pos%n - r.Range(0, 6)
			if target > room() {
				flush()
			}
			if target > room() {
				target = room()
			}
			if target > 0 {
				batch(t.runesWithin(target))
			}
			for j := r.Range(3, 12); j > 0; j-- {
				single()
			}
		case x < 55: // a lexeme of exactly limit bytes, or just below; retract at its end and read again
			flush()
			batch(t.runesWithin(limit - hx.Pick(r, []int{0, 0, 0, 1, 2, limit / 2})))
			if k := r.Intn(4); k > 0 && len(t.sizes) >= k {
				for j := 0; j < k; j++ {
					ops = append(ops, "retract")
					t.pos -= t.sizes[len(t.sizes)-1]
					t.sizes = t.sizes[:len(t.sizes)-1]
				}
				if r.Bool() {
					batch(k)
				}
			}
			flush()
		case x < 70:
			if room() < 4 {
				flush()
			}
			batch(t.runesWithin(r.Range(1, room())))
		default:
			single()
		}
	}
	// the end of the input: read into it, retract out of it, read again (retract / next re-read the same runes:
	// the pending lexeme does not grow)
	flush()
	if k := t.runesWithin(limit); k > 5 {
		batch(5)
	} else {
		batch(k)
	}
	if t.pos < len(src) {
		return append(ops, "retract", "next", "lexeme")
	}
	return append(ops, "nexts 5", "next", "retract", "next", "lexeme", "next", "retract", "retract", "next", "skip", "next")
}

func sweepHeader(comp, srcSpec string, n int, reader, file string) string {
	h := fmt.Sprintf("comp=%s src=%s n=%d reader=%s file=x%s", comp, srcSpec, n, reader, hex.EncodeToString([]byte(file)))
	if n > 64 {
		h += " dump=sum" // a buffer of 2n bytes on every line: printed as its hash
	}
	return h
}

// sweepCase: one case of the sweep for buffer size n, source length L, a reader, a style (0 tokens within the
// precondition, 1 stream, 2 wild: pending lexemes of n+1 bytes and more)
func sweepCase(run *hx.Run, r *hx.Rand, n, L int, reader string, style int) {
	if L < 0 {
		L = 0
	}
	spec, src := sweepSource(r, n, L)
	maxOps := 400
	if n > 5000 {
		maxOps = 160
	}
	file := hx.Pick(r, fileNames)
	switch style {
	case 0:
		run.Do("input", hx.Case{Header: sweepHeader("input", spec, n, reader, file), Ops: sweepOps(r, src, n, n, "tokens", maxOps)}, Exec)
	case 1:
		run.Do("stream", hx.Case{Header: sweepHeader("stream", spec, n, reader, file), Ops: sweepOps(r, src, n, n, "stream", maxOps)}, Exec)
	default:
		limit := n + hx.Pick(r, []int{1, 1, 2, n / 2, n - 1, n, n + 1})
		run.Do("wild", hx.Case{Header: sweepHeader("wild", spec, n, reader, file), Ops: sweepOps(r, src, n, limit, "tokens", maxOps)}, Exec)
	}
}

// sizeSweep: see Rule. Quick: per buffer size one slow reader for certain and a handful of random (reader, length,
// style) combinations; thorough: the whole grid (for 65536 without the 10n sources except for four readers).
func sizeSweep(run *hx.Run) {
	r := run.R.Fork("sweep")
	readers := sweepReaders()
	for _, n := range sweepSizes {
		lens := sweepLengths(n)
		big := n > 5000
		sweepCase(run, r, n, hx.Pick(r, lens[4:8]), hx.Pick(r, slowReaders), r.Intn(2))
		cnt := run.Scale(5)
		if big {
			cnt = run.Scale(1)
		}
		for k := 0; k < cnt; k++ {
			L := hx.Pick(r, lens)
			if big && L > 3*n && r.Chance(3, 4) {
				L = hx.Pick(r, lens[:8])
			}
			rd := hx.Pick(r, readers)
			style := r.Intn(5) % 3 // tokens twice as likely
			if r.Chance(1, 8) {
				rd, style = hx.Pick(r, errorReaders(n)), 2
			}
			sweepCase(run, r, n, L, rd, style)
		}
		if run.Thorough() {
			j := 0
			for _, rd := range readers {
				for li, L := range lens {
					if big && li == 8 && rd != "full" && rd != "one" && rd != "cycle:7" && rd != "half" {
						continue
					}
					sweepCase(run, r, n, L, rd, j%3)
					j++
				}
			}
			for _, rd := range errorReaders(n) {
				sweepCase(run, r, n, hx.Pick(r, lens[3:]), rd, 2)
			}
		}
	}
}

// longHistories: thousands of calls on one Input (small buffers, so that every few calls cross a half boundary):
// the random mix of genOps (incl. scanner style) and the boundary-seeking mix of sweepOps
func longHistories(run *hx.Run) {
	r := run.R.Fork("long")
	for k, cnt := 0, run.Scale(10); k < cnt; k++ {
		n := hx.Pick(r, bufSizes)
		length := r.Range(2000, 6000)
		src := genSource(r, n, maxRuneFor(n), length/2+r.Intn(length))
		reader := genReader(r, n, len(src), false)
		if r.Bool() {
			reader = hx.Pick(r, sweepReaders())
		}
		var ops []string
		if r.Bool() {
			ops = genOps(r, src, n, length, true)
		} else {
			ops = sweepOps(r, src, n, n, "tokens", length)
		}
		run.Do("input", hx.Case{Header: header("input", src, n, reader, hx.Pick(r, fileNames)), Ops: ops}, Exec)
	}
}

func maxRuneFor(n int) int {
	if n >= 4 {
		return 4
	}
	return n
}

var bufSizes = []int{1, 2, 3, 4, 5, 6, 7, 8, 1, 2, 3, 4, 5, 6, 7, 8, 16, 64}

func Main(run *hx.Run) {
	run.Stats.Rule = Rule
	for _, f := range hx.CorpusFiles("C19") {
		cs, _ := hx.ReadReplay(f)
		for _, c := range cs {
			run.Do(hx.HeaderGet(c.Header, "comp"), c, Exec)
		}
	}

	// 1. the property's precondition holds: pending lexeme <= n
	r := run.R.Fork("input")
	for k, cnt := 0, run.Scale(1500); k < cnt; k++ {
		n := hx.Pick(r, bufSizes)
		src := genSource(r, n, maxRuneFor(n), pickLen(r, n))
		c := hx.Case{Header: header("input", src, n, genReader(r, n, len(src), false), hx.Pick(r, fileNames)),
			Ops: genOps(r, src, n, r.Range(6, 120), true)}
		run.Do("input", c, Exec)
	}

	// 2. next only, any n (runes may be longer than a buffer half)
	r = run.R.Fork("stream")
	for k, cnt := 0, run.Scale(500); k < cnt; k++ {
		n := hx.Pick(r, bufSizes)
		src := genSource(r, n, 4, pickLen(r, n))
		ops := []string{"new"}
		for j := 0; j < utf8.RuneCount(src)+2; j++ {
			ops = append(ops, "next")
		}
		run.Do("stream", hx.Case{Header: header("stream", src, n, genReader(r, n, len(src), false), hx.Pick(r, fileNames)), Ops: ops}, Exec)
	}

	// 3. ill-formed UTF-8 of every class, at every alignment with the halves (a truncated sequence here is always
	//    followed by more input; truncated at the very end of the source is the known finding of block 6)
	r = run.R.Fork("invalid")
	for k, cnt := 0, run.Scale(400); k < cnt; k++ {
		n := hx.Pick(r, bufSizes)
		src := genSource(r, n, maxRuneFor(n), r.Intn(3*n+2))
		if r.Chance(1, 6) {
			src = append(src, hx.Pick(r, truncated)+hx.Pick(r, ascii)...)
		} else {
			src = append(src, hx.Pick(r, invalid)...)
		}
		src = append(src, genSource(r, n, maxRuneFor(n), r.Intn(n+2))...)
		c := hx.Case{Header: header("input", src, n, genReader(r, n, len(src), false), hx.Pick(r, fileNames)),
			Ops: genOps(r, src, n, r.Range(6, 80), true)}
		run.Do("input", c, Exec)
	}

	// 4. NUL at the first byte of a buffer half is an ordinary rune (the sentinel test is not made there)
	r = run.R.Fork("nul-at-boundary")
	for k, cnt := 0, run.Scale(100); k < cnt; k++ {
		n := hx.Pick(r, bufSizes[:8])
		src := genSource(r, n, 1, r.Range(2, 5)*n+r.Range(0, 2))
		for j := n * r.Range(1, 2); j < len(src); j += n * r.Range(1, 2) {
			src[j] = 0
		}
		c := hx.Case{Header: header("input", src, n, genReader(r, n, len(src), false), hx.Pick(r, fileNames)),
			Ops: genOps(r, src, n, r.Range(6, 80), true)}
		run.Do("input", c, Exec)
	}

	// 5. outside the precondition (pending lexeme > n, runes longer than n, I/O errors): no claim, impl vs Model only
	r = run.R.Fork("wild")
	for k, cnt := 0, run.Scale(500); k < cnt; k++ {
		n := hx.Pick(r, bufSizes)
		src := genSource(r, n, 4, pickLen(r, n))
		if r.Chance(1, 8) {
			src = append(src, hx.Pick(r, invalid)...)
		}
		c := hx.Case{Header: header("wild", src, n, genReader(r, n, len(src), r.Bool()), hx.Pick(r, fileNames)),
			Ops: genOps(r, src, n, r.Range(6, 100), false)}
		run.Do("wild", c, Exec)
	}

	// 5b. sizes: buffer sizes at thresholds x reader behaviours x source lengths at the buffer's thresholds; long histories
	sizeSweep(run)
	longHistories(run)

	// 5c. capacity 0: New succeeds with an empty buffer and the first Next indexes out of range (comp=wild: no claim,
	//     implementation and Model must agree on where it panics)
	r = run.R.Fork("zero")
	for k, cnt := 0, run.Scale(3); k < cnt; k++ {
		src := genSource(r, 1, 4, r.Intn(6))
		c := hx.Case{Header: header("wild", src, 0, hx.Pick(r, []string{"full", "one", "dataeof", "chunks:0,0,1"}), hx.Pick(r, fileNames)),
			Ops: genOps(r, src, 0, r.Range(2, 8), false)}
		run.Do("wild", c, Exec)
	}

	// 6. Position.String / Equal / IsZero and Token.String / Equal on explicit values: one systematic case that reaches
	//    every branch on every run, then random values; some cases interleave them with calls on an Input whose
	//    source has an ill-formed sequence (so that the rendered error text, lexeme positions and explicit values
	//    appear in one history)
	r = run.R.Fork("position")
	run.Do("position", hx.Case{Header: header("position", []byte("a"), 1, "full", ""), Ops: systematicValueOps()}, Exec)
	for k, cnt := 0, run.Scale(120); k < cnt; k++ {
		n := hx.Pick(r, bufSizes)
		src := genSource(r, n, maxRuneFor(n), r.Intn(2*n+2))
		if r.Bool() {
			src = append(src, hx.Pick(r, invalid)...)
		}
		var ops []string
		if r.Chance(1, 3) {
			for j, m := 0, r.Range(4, 24); j < m; j++ {
				ops = append(ops, genValueOp(r))
			}
		} else {
			for _, op := range genOps(r, src, n, r.Range(4, 40), true) {
				ops = append(ops, op)
				for r.Chance(1, 3) {
					ops = append(ops, genValueOp(r))
				}
			}
		}
		c := hx.Case{Header: header("position", src, n, genReader(r, n, len(src), false), hx.Pick(r, fileNames)), Ops: ops}
		run.Do("position", c, Exec)
	}

	// 7. the two known findings, a fixed small number of cases and last, so that they can never crowd out
	//    another violation: a truncated multi-byte sequence at the very end of the source (reported as io.EOF),
	//    a NUL elsewhere than at the first byte of a half (taken for the sentinel)
	r = run.R.Fork("known")
	for k := 0; k < 6; k++ {
		n := hx.Pick(r, bufSizes)
		src := append(genSource(r, n, maxRuneFor(n), r.Intn(3*n+2)), hx.Pick(r, truncated)...)
		c := hx.Case{Header: header("input", src, n, genReader(r, n, len(src), false), hx.Pick(r, fileNames)),
			Ops: genOps(r, src, n, r.Range(20, 80), true)}
		run.Do("input", c, Exec)
	}
	for k := 0; k < 6; k++ {
		n := hx.Pick(r, bufSizes[1:8])
		src := genSource(r, n, 1, r.Range(2, 4)*n)
		src[r.Range(0, len(src)/n-1)*n+r.Range(1, n-1)] = 0
		c := hx.Case{Header: header("input", src, n, genReader(r, n, len(src), false), hx.Pick(r, fileNames)),
			Ops: genOps(r, src, n, r.Range(20, 80), true)}
		run.Do("input", c, Exec)
	}

	if run.Thorough() {
		// bounded-exhaustive: every call sequence of length <= 7 over {next, retract, lexeme, skip} on a few
		// sources, n in 1..3, readers full / one / dataeof; cases breaking the precondition go to comp=wild
		srcs := [][]byte{[]byte("ab\ncd"), []byte("aéb"), []byte("€ab"), []byte("abcd"), []byte("ab")}
		alpha := []string{"next", "retract", "lexeme", "skip"}
		count, batches := 0, 0
		for _, src := range srcs {
			for n := 1; n <= 3; n++ {
				for _, rdr := range []string{"full", "one", "dataeof"} {
					// many call sequences per case, separated by reset (a case costs far more than a call); those
					// that keep the precondition and those that do not in cases of their own. A panic or hang
					// ends a case: the sequences after it go into the next one.
					seqs := map[string][][]string{}
					for l := 1; l <= 7; l++ {
						exhaustive(alpha, l, func(ops []string) {
							comp := "input"
							if !keeps(src, n, ops) {
								comp = "wild"
							}
							seqs[comp] = append(seqs[comp], ops)
							count++
						})
					}
					for _, comp := range []string{"input", "wild"} {
						todo := seqs[comp]
						for len(todo) > 0 {
							m := min(64, len(todo))
							var ops []string
							var starts []int
							for _, sq := range todo[:m] {
								starts = append(starts, len(ops))
								ops = append(append(append(ops, "new"), sq...), "reset")
							}
							res := run.Do(comp, hx.Case{Header: header(comp, src, n, rdr, fileNames[batches%len(fileNames)]), Ops: ops}, Exec)
							batches++
							done := m
							if len(res.Outs) < len(ops) { // the case ended early: go on after the sequence it ended in
								for j, st := range starts {
									if st < len(res.Outs) {
										done = j + 1
									}
								}
							}
							todo = todo[done:]
						}
					}
				}
			}
		}
		run.Stats.Exhaustive = true
		run.Stats.Extra["exhaustive_part"] = fmt.Sprintf("%d call sequences in %d cases (up to 64 per case, separated by reset): all call sequences of length<=7 over next/retract/lexeme/skip, 5 sources, n=1..3, readers full/one/dataeof", count, batches)
	}
}

// keeps reports whether the call sequence keeps the pending lexeme within n bytes on src.
func keeps(src []byte, n int, ops []string) bool {
	pos, begin := 0, 0
	var sizes []int
	for _, op := range ops {
		switch op {
		case "next":
			if pos < len(src) {
				_, sz := utf8.DecodeRune(src[pos:])
				pos += sz
				sizes = append(sizes, sz)
				if pos-begin > n {
					return false
				}
			}
		case "retract":
			if len(sizes) > 0 {
				pos -= sizes[len(sizes)-1]
				sizes = sizes[:len(sizes)-1]
			}
		default:
			begin, sizes = pos, sizes[:0]
		}
	}
	return true
}

func exhaustive(alpha []string, n int, f func([]string)) {
	idx := make([]int, n)
	for {
		ops := make([]string, n)
		for i, k := range idx {
			ops[i] = alpha[k]
		}
		f(ops)
		i := n - 1
		for i >= 0 {
			idx[i]++
			if idx[i] < len(alpha) {
				break
			}
			idx[i] = 0
			i--
		}
		if i < 0 {
			return
		}
	}
}
