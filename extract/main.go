// Command extract re-reads /repo's Go sources (go/parser only, no type checking, no network) and
// regenerates the facts the Lean development depends on:
//
//   - Generated/Consts.lean : every integer- or decimal-valued constant declared in the modelled
//     packages (package level and function local), evaluated with go/constant; decimals as exact
//     rationals num/den read from the literal text.
//   - Generated/Tables.lean : selected literal tables (array/slice composite literals of integers).
//   - Generated/Layout.lean : the state space of the code: for every struct type of the modelled packages its
//     fields (name : type, in source order), for every source file the struct types it declares and the
//     package-level variables it declares.  Props/CxxLayout.lean asserts these against what the hand Models
//     were written for: a new field (a cache, a memo, a scratch buffer), a new type or a new package-level
//     variable is state the Model does not describe, and breaks that obligation.
//   - digests.json          : a normalised-source digest of every function (comments and
//     formatting removed); a changed digest never fails a check, it enlarges the correspondence budget.
//
// Files are rewritten only when their content changes, so an unchanged tree rebuilds nothing.
package main

import (
	"bytes"
	"crypto/sha256"
	"encoding/hex"
	"encoding/json"
	"flag"
	"fmt"
	"go/ast"
	"go/constant"
	"go/parser"
	"go/printer"
	"go/token"
	"os"
	"path/filepath"
	"sort"
	"strings"
)

var packages = []string{"symboltable", "heap", "trie", "sort", "radixsort", "grammar", "automata", "graph",
	"set", "unionfind", "list", "lexer", "lexer/input", "hash", "parser", "parser/lr", "parser/lr/simple",
	"parser/lr/lookahead", "parser/lr/canonical", "parser/predictive", "generic", "internal/parsertest"}

type constDef struct {
	name string
	val  constant.Value
	lit  string // literal text when the initialiser is a single basic literal
}

func evalExpr(e ast.Expr, scope map[string]constant.Value) constant.Value {
	switch x := e.(type) {
	case *ast.BasicLit:
		return constant.MakeFromLiteral(x.Value, x.Kind, 0)
	case *ast.Ident:
		if v, ok := scope[x.Name]; ok {
			return v
		}
	case *ast.ParenExpr:
		return evalExpr(x.X, scope)
	case *ast.SelectorExpr:
		if id, ok := x.X.(*ast.Ident); ok && id.Name == "bits" && x.Sel.Name == "UintSize" {
			return constant.MakeInt64(64)
		}
	case *ast.UnaryExpr:
		if v := evalExpr(x.X, scope); v != nil && v.Kind() != constant.Unknown {
			return constant.UnaryOp(x.Op, v, 0)
		}
	case *ast.BinaryExpr:
		l, r := evalExpr(x.X, scope), evalExpr(x.Y, scope)
		if l == nil || r == nil || l.Kind() == constant.Unknown || r.Kind() == constant.Unknown {
			return nil
		}
		switch x.Op {
		case token.SHL, token.SHR:
			if s, ok := constant.Uint64Val(r); ok {
				return constant.Shift(l, x.Op, uint(s))
			}
			return nil
		case token.QUO:
			if l.Kind() == constant.Int && r.Kind() == constant.Int {
				if constant.Sign(r) == 0 {
					return nil
				}
				return constant.BinaryOp(l, token.QUO_ASSIGN, r) // integer division
			}
			return constant.BinaryOp(l, token.QUO, r)
		case token.ADD, token.SUB, token.MUL, token.REM, token.AND, token.OR, token.XOR, token.AND_NOT:
			return constant.BinaryOp(l, x.Op, r)
		}
	case *ast.CallExpr: // conversions such as rune(0), uint64(1)<<3
		if len(x.Args) == 1 {
			if id, ok := x.Fun.(*ast.Ident); ok {
				switch id.Name {
				case "int", "uint", "int64", "uint64", "rune", "byte", "int32", "uint32", "uint8":
					return evalExpr(x.Args[0], scope)
				}
			}
		}
	}
	return nil
}

func leanIdent(parts ...string) string {
	s := strings.Join(parts, "_")
	s = strings.NewReplacer("/", "_", ".", "_", "-", "_").Replace(s)
	return s
}

func main() {
	repo := flag.String("repo", "/repo", "repository root")
	out := flag.String("out", "", "directory for Generated/*.lean")
	dig := flag.String("digests", "", "path of digests.json")
	flag.Parse()

	fset := token.NewFileSet()
	var lines, layout []string
	digests := map[string]string{}
	seen := map[string]bool{}

	emit := func(name string, v constant.Value, lit string) {
		if seen[name] {
			return
		}
		switch v.Kind() {
		case constant.Int:
			seen[name] = true
			s := v.ExactString()
			if strings.HasPrefix(s, "-") {
				lines = append(lines, fmt.Sprintf("def %s : Int := %s", name, s))
			} else {
				lines = append(lines, fmt.Sprintf("def %s : Nat := %s", name, s))
			}
		case constant.Float:
			seen[name] = true
			// exact rational from go/constant (literal decimals are exact rationals there)
			num, den := constant.Num(v), constant.Denom(v)
			if num.Kind() == constant.Int && den.Kind() == constant.Int {
				lines = append(lines, fmt.Sprintf("def %s_num : Nat := %s", name, num.ExactString()))
				lines = append(lines, fmt.Sprintf("def %s_den : Nat := %s", name, den.ExactString()))
			}
		}
	}

	for _, pkg := range packages {
		dir := filepath.Join(*repo, pkg)
		ents, err := os.ReadDir(dir)
		if err != nil {
			continue
		}
		var files []string
		for _, e := range ents {
			n := e.Name()
			if strings.HasSuffix(n, ".go") && !strings.HasSuffix(n, "_test.go") && !strings.HasSuffix(n, "_verif.go") {
				files = append(files, n)
			}
		}
		sort.Strings(files)
		pkgScope := map[string]constant.Value{}
		type parsed struct {
			name string
			f    *ast.File
		}
		var ps []parsed
		for _, n := range files {
			f, err := parser.ParseFile(fset, filepath.Join(dir, n), nil, parser.SkipObjectResolution)
			if err != nil {
				fmt.Fprintln(os.Stderr, "parse:", err)
				os.Exit(1)
			}
			ps = append(ps, parsed{n, f})
		}
		for _, p := range ps {
			var types, vars []string
			for _, d := range p.f.Decls {
				gd, ok := d.(*ast.GenDecl)
				if !ok {
					continue
				}
				for _, sp := range gd.Specs {
					switch x := sp.(type) {
					case *ast.TypeSpec:
						st, ok := x.Type.(*ast.StructType)
						if !ok {
							continue
						}
						types = append(types, x.Name.Name)
						var fields []string
						for _, f := range st.Fields.List {
							t := exprString(fset, f.Type)
							if len(f.Names) == 0 {
								fields = append(fields, "(embedded) : "+t)
							}
							for _, n := range f.Names {
								fields = append(fields, n.Name+" : "+t)
							}
						}
						layout = append(layout, fmt.Sprintf("def %s : List String := %s", leanIdent(pkg, x.Name.Name), leanStrings(fields)))
					case *ast.ValueSpec:
						if gd.Tok == token.VAR {
							for _, n := range x.Names {
								if n.Name == "_" {
									continue
								}
								t := ""
								if x.Type != nil {
									t = " : " + exprString(fset, x.Type)
								}
								vars = append(vars, n.Name+t)
							}
						}
					}
				}
			}
			base := strings.TrimSuffix(p.name, ".go")
			layout = append(layout, fmt.Sprintf("def types_%s : List String := %s", leanIdent(pkg, base), leanStrings(types)))
			layout = append(layout, fmt.Sprintf("def vars_%s : List String := %s", leanIdent(pkg, base), leanStrings(vars)))
		}
		// package-level constants first (two passes so forward references resolve)
		for pass := 0; pass < 2; pass++ {
			for _, p := range ps {
				for _, d := range p.f.Decls {
					gd, ok := d.(*ast.GenDecl)
					if !ok || gd.Tok != token.CONST {
						continue
					}
					for _, sp := range gd.Specs {
						vs := sp.(*ast.ValueSpec)
						for i, id := range vs.Names {
							if i < len(vs.Values) {
								if v := evalExpr(vs.Values[i], pkgScope); v != nil && v.Kind() != constant.Unknown {
									pkgScope[id.Name] = v
									if pass == 1 {
										emit(leanIdent(pkg, id.Name), v, "")
									}
								}
							}
						}
					}
				}
			}
		}
		// function-local constants and digests
		for _, p := range ps {
			for _, d := range p.f.Decls {
				fd, ok := d.(*ast.FuncDecl)
				if !ok {
					continue
				}
				fname := fd.Name.Name
				if fd.Recv != nil && len(fd.Recv.List) > 0 {
					var b bytes.Buffer
					printer.Fprint(&b, fset, fd.Recv.List[0].Type)
					r := b.String()
					r = strings.TrimPrefix(r, "*")
					if i := strings.Index(r, "["); i >= 0 {
						r = r[:i]
					}
					fname = r + "." + fname
				}
				// digest: printed without comments
				var b bytes.Buffer
				cfg := printer.Config{Mode: printer.RawFormat}
				fd2 := *fd
				fd2.Doc = nil
				cfg.Fprint(&b, token.NewFileSet(), &fd2)
				norm := strings.Join(strings.Fields(b.String()), " ")
				h := sha256.Sum256([]byte(norm))
				digests[pkg+"/"+p.name+"::"+fname] = hex.EncodeToString(h[:8])

				if fd.Body == nil {
					continue
				}
				scope := map[string]constant.Value{}
				for k, v := range pkgScope {
					scope[k] = v
				}
				ast.Inspect(fd.Body, func(n ast.Node) bool {
					ds, ok := n.(*ast.DeclStmt)
					if !ok {
						return true
					}
					gd, ok := ds.Decl.(*ast.GenDecl)
					if !ok || gd.Tok != token.CONST {
						return true
					}
					for _, sp := range gd.Specs {
						vs := sp.(*ast.ValueSpec)
						for i, id := range vs.Names {
							if i < len(vs.Values) {
								if v := evalExpr(vs.Values[i], scope); v != nil && v.Kind() != constant.Unknown {
									scope[id.Name] = v
									emit(leanIdent(pkg, strings.ReplaceAll(fname, ".", "_"), id.Name), v, "")
								}
							}
						}
					}
					return true
				})
			}
		}
	}

	var b strings.Builder
	b.WriteString("/-! GENERATED by /verif/extract from /repo — do not edit; rewritten on every check run. -/\n")
	b.WriteString("namespace AlgoVerif.Generated\n\n")
	for _, l := range lines {
		b.WriteString(l + "\n")
	}
	b.WriteString("\nend AlgoVerif.Generated\n")
	if *out != "" {
		os.MkdirAll(*out, 0o755)
		writeIfChanged(filepath.Join(*out, "Consts.lean"), b.String())
		var l strings.Builder
		l.WriteString("/-! GENERATED by /verif/extract from /repo — do not edit; rewritten on every check run.\n    Struct fields, struct types per file and package-level variables per file of the modelled packages. -/\n")
		l.WriteString("namespace AlgoVerif.Generated.Layout\n\n")
		for _, x := range layout {
			l.WriteString(x + "\n")
		}
		l.WriteString("\nend AlgoVerif.Generated.Layout\n")
		writeIfChanged(filepath.Join(*out, "Layout.lean"), l.String())
	}
	if *dig != "" {
		j, _ := json.MarshalIndent(digests, "", " ")
		writeIfChanged(*dig, string(j))
	}
}

func exprString(fset *token.FileSet, e ast.Expr) string {
	var b bytes.Buffer
	printer.Fprint(&b, fset, e)
	return strings.Join(strings.Fields(b.String()), " ")
}

func leanStrings(xs []string) string {
	qs := make([]string, len(xs))
	for i, x := range xs {
		qs[i] = "\"" + strings.NewReplacer("\\", "\\\\", "\"", "\\\"").Replace(x) + "\""
	}
	return "[" + strings.Join(qs, ", ") + "]"
}

func writeIfChanged(path, content string) {
	if old, err := os.ReadFile(path); err == nil && string(old) == content {
		return
	}
	if err := os.WriteFile(path, []byte(content), 0o644); err != nil {
		fmt.Fprintln(os.Stderr, err)
		os.Exit(1)
	}
}
