module verifgo2lean

go 1.23.4
