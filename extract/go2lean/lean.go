package main

// Lean-side vocabulary: types, zero values, identifiers, and an indenting line writer.

import (
	"fmt"
	"go/ast"
	"go/types"
	"strings"
)

type writer struct {
	lines []string
	ind   int
}

func (w *writer) emit(format string, a ...any) {
	w.lines = append(w.lines, strings.Repeat("  ", w.ind)+fmt.Sprintf(format, a...))
}

func (w *writer) String() string { return strings.Join(w.lines, "\n") + "\n" }

var leanKeywords = map[string]bool{"at": true, "from": true, "end": true, "open": true, "fun": true, "do": true,
	"then": true, "else": true, "if": true, "show": true, "have": true, "let": true, "in": true, "match": true,
	"with": true, "def": true, "theorem": true, "by": true, "where": true, "for": true, "return": true,
	"mut": true, "Type": true, "Prop": true, "Sort": true, "instance": true, "structure": true, "class": true,
	"namespace": true, "section": true, "variable": true, "import": true, "export": true, "deriving": true,
	"unless": true, "try": true, "catch": true, "finally": true, "nomatch": true, "using": true, "calc": true,
	"suffices": true, "obtain": true, "forall": true, "exists": true, "private": true, "protected": true,
	"partial": true, "mutual": true, "inductive": true, "abbrev": true, "example": true, "macro": true,
	"syntax": true, "notation": true, "infix": true, "prefix": true, "postfix": true, "universe": true,
	"attribute": true, "local": true, "scoped": true, "set_option": true, "termination_by": true,
	"decreasing_by": true, "extends": true, "fuel": true, "k_": true, "r_": true, "s_": true, "i_": true}

// ident turns a Go identifier into a Lean one (reserved words and the translator's own names are quoted /
// refused so that nothing is captured).
func (t *translator) ident(id *ast.Ident) string {
	n := id.Name
	if id == t.grandId {
		return n
	}
	if n == "grand_" || n == "rec_" || n == "rand_" || n == "fuel" || n == "k_" || n == "r_" || n == "s_" || n == "i_" || isTmpName(n) {
		t.fail(id, "identifier %q clashes with a name the translator generates", n)
	}
	if leanKeywords[n] {
		return "«" + n + "»"
	}
	return n
}

func isTmpName(n string) bool {
	if len(n) < 3 || n[0] != 't' || n[len(n)-1] != '_' {
		return false
	}
	for _, c := range n[1 : len(n)-1] {
		if c < '0' || c > '9' {
			return false
		}
	}
	return true
}

// naming gives every variable of the function being translated its own Lean name: Go lets an inner block
// redeclare a name (`x := x + 1`), Lean's `let mut` does not allow a mutable variable to be shadowed.  The
// first variable called x keeps the name, later ones become x_1, x_2, … (skipping names the function uses).
type naming struct {
	names  map[*types.Var]string
	taken  map[string]bool
	idents map[string]bool // every identifier occurring in the function
}

var curNaming *naming

func newNaming(body ast.Node) *naming {
	n := &naming{names: map[*types.Var]string{}, taken: map[string]bool{}, idents: map[string]bool{}}
	ast.Inspect(body, func(x ast.Node) bool {
		if id, ok := x.(*ast.Ident); ok {
			n.idents[id.Name] = true
		}
		return true
	})
	return n
}

func varName(v *types.Var) string {
	quote := func(s string) string {
		if leanKeywords[s] {
			return "«" + s + "»"
		}
		return s
	}
	if v.IsField() || curNaming == nil {
		return quote(v.Name())
	}
	if n, ok := curNaming.names[v]; ok {
		return n
	}
	name := v.Name()
	for k := 1; curNaming.taken[name]; k++ {
		name = fmt.Sprintf("%s_%d", v.Name(), k)
		if curNaming.idents[name] {
			curNaming.taken[name] = true
		}
	}
	curNaming.taken[name] = true
	curNaming.names[v] = quote(name)
	return curNaming.names[v]
}

func paren(s string) string {
	if strings.ContainsAny(s, " ") && !(strings.HasPrefix(s, "(") && balancedOuter(s)) {
		return "(" + s + ")"
	}
	return s
}

// balancedOuter: s starts with "(" and that parenthesis closes at the very end
func balancedOuter(s string) bool {
	depth := 0
	for i, c := range s {
		switch c {
		case '(':
			depth++
		case ')':
			depth--
			if depth == 0 && i != len(s)-1 {
				return false
			}
		}
	}
	return depth == 0 && strings.HasSuffix(s, ")")
}

func tuple(parts []string) string {
	switch len(parts) {
	case 0:
		return "()"
	case 1:
		return parts[0]
	}
	return "(" + strings.Join(parts, ", ") + ")"
}

func prodType(parts []string) string {
	switch len(parts) {
	case 0:
		return "Unit"
	case 1:
		return parts[0]
	}
	for i, p := range parts {
		if strings.Contains(p, "→") {
			parts[i] = "(" + p + ")"
		}
	}
	return strings.Join(parts, " × ")
}

// ownStruct returns the named struct type of the translated package behind ty (through one pointer).
func (t *translator) ownStruct(ty types.Type) *types.Named {
	ty = types.Unalias(ty)
	if p, ok := ty.(*types.Pointer); ok {
		ty = types.Unalias(p.Elem())
	}
	n, ok := ty.(*types.Named)
	if !ok || n.Obj().Pkg() != t.pkg {
		return nil
	}
	if _, ok := n.Underlying().(*types.Struct); !ok {
		return nil
	}
	return n
}

// record returns the named struct type of ANOTHER package behind ty (isPtr: through one pointer).  Such values
// are immutable in the translated code (there is no way to assign to their fields: `place` accepts only
// structs of the translated package), so a pointer to one is an `Option` of the value and sharing it is
// unobservable (pointer comparison other than with nil is refused).
func (t *translator) record(ty types.Type) (n *types.Named, isPtr bool) {
	ty = types.Unalias(ty)
	if p, ok := ty.(*types.Pointer); ok {
		ty, isPtr = types.Unalias(p.Elem()), true
	}
	n, ok := ty.(*types.Named)
	if !ok || n.Obj().Pkg() == nil || n.Obj().Pkg() == t.pkg || n.Obj().Pkg().Path() == "math/rand" {
		return nil, false // (a *rand.Rand is not a record: see isRand)
	}
	if _, ok := n.Underlying().(*types.Struct); !ok {
		return nil, false
	}
	return n, isPtr
}

func (t *translator) leanType(ty types.Type, at ast.Node) string {
	ty = types.Unalias(ty)
	if isRand(ty) {
		return "Go.Rand"
	}
	if n, isPtr := t.record(ty); n != nil {
		t.needStruct(n.Origin(), at)
		s := n.Obj().Name()
		for i := 0; i < n.TypeArgs().Len(); i++ {
			s += " " + paren(t.leanType(n.TypeArgs().At(i), at))
		}
		if isPtr {
			return "Option " + paren(s)
		}
		return s
	}
	if n := t.ownStruct(ty); n != nil {
		t.needStruct(n.Origin(), at)
		s := n.Obj().Name()
		for i := 0; i < n.TypeArgs().Len(); i++ {
			s += " " + paren(t.leanType(n.TypeArgs().At(i), at))
		}
		return s
	}
	switch u := ty.(type) {
	case *types.Basic:
		switch {
		case u.Kind() == types.Int || u.Kind() == types.UntypedInt:
			return "Int"
		case u.Kind() == types.Bool || u.Kind() == types.UntypedBool:
			return "Bool"
		case isU64(u):
			return "UInt64"
		case isU8(u):
			return "UInt8"
		case isString(u):
			return "Go.Str"
		case u.Kind() == types.Float64: // copy-only: see Go.F64 and the header of main.go
			return "Go.F64"
		case u.Kind() == types.Float32:
			return "Go.F32"
		}
	case *types.Slice:
		return "Array " + paren(t.leanType(u.Elem(), at))
	case *types.TypeParam:
		return u.Obj().Name()
	case *types.Named:
		if sig, ok := u.Underlying().(*types.Signature); ok {
			return t.leanType(sig, at)
		}
		if b, ok := u.Underlying().(*types.Basic); ok { // `type TraversalStrategy int`: its underlying type
			return t.leanType(b, at)
		}
	case *types.Array: // [N]T: a VALUE in Go (assignment copies), so an Array of length N here
		return "Array " + paren(t.leanType(u.Elem(), at))
	case *types.Signature:
		var parts []string
		for i := 0; i < u.Params().Len(); i++ {
			parts = append(parts, paren(t.leanType(u.Params().At(i).Type(), at)))
		}
		var res []string
		for i := 0; i < u.Results().Len(); i++ {
			res = append(res, t.leanType(u.Results().At(i).Type(), at))
		}
		if u.Variadic() || len(parts) == 0 {
			break
		}
		return strings.Join(parts, " → ") + " → " + prodType(res)
	}
	t.fail(at, "type %s", ty)
	return ""
}

// zero is Go's zero value of ty.
func (t *translator) zero(ty types.Type, at ast.Node) string {
	ty = types.Unalias(ty)
	if n, isPtr := t.record(ty); n != nil && isPtr {
		return "none"
	}
	if _, isPtr := ty.(*types.Pointer); isPtr {
		t.fail(at, "zero value (nil) of pointer type %s", ty)
	}
	n := t.ownStruct(ty)
	if r, _ := t.record(ty); r != nil {
		n = r
	}
	if n != nil {
		st := n.Underlying().(*types.Struct)
		var fs []string
		for i := 0; i < st.NumFields(); i++ {
			fs = append(fs, fmt.Sprintf("%s := %s", varName(st.Field(i)), t.zero(st.Field(i).Type(), at)))
		}
		return "{ " + strings.Join(fs, ", ") + " }"
	}
	switch u := ty.(type) {
	case *types.Basic:
		switch u.Kind() {
		case types.Int, types.UntypedInt:
			return "0"
		case types.Bool, types.UntypedBool:
			return "false"
		case types.Uint, types.Uint64, types.Uint8:
			return "0"
		case types.String:
			return "([] : Go.Str)"
		case types.Float64:
			return "Go.F64.zero"
		case types.Float32:
			return "Go.F32.zero"
		}
	case *types.Slice:
		return "#[]"
	case *types.Array:
		return fmt.Sprintf("(Array.replicate %d %s)", u.Len(), paren(t.zero(u.Elem(), at)))
	case *types.Named:
		if b, ok := u.Underlying().(*types.Basic); ok {
			return t.zero(b, at)
		}
	case *types.TypeParam:
		return "(default : " + u.Obj().Name() + ")"
	}
	t.fail(at, "zero value of type %s", ty)
	return ""
}

func (t *translator) needStruct(n *types.Named, at ast.Node) {
	for _, s := range t.structs {
		if s == n {
			return
		}
	}
	t.structs = append(t.structs, n)
	st := n.Underlying().(*types.Struct)
	for i := 0; i < st.NumFields(); i++ { // fields may need further structs; fails loudly on a foreign type
		if _, isPtr := types.Unalias(st.Field(i).Type()).(*types.Pointer); isPtr {
			t.fail(at, "pointer-typed field %s.%s (linked structures need a heap model)", n.Obj().Name(), st.Field(i).Name())
		}
		t.leanType(st.Field(i).Type(), at)
	}
}

// typeParams renders `{T : Type} [Inhabited T] …` for a list of type parameters.
func typeParamBinders(tps *types.TypeParamList) string {
	s := ""
	for i := 0; i < tps.Len(); i++ {
		n := tps.At(i).Obj().Name()
		s += fmt.Sprintf("{%s : Type} [Inhabited %s] ", n, n)
		if isOrderedParam(tps.At(i)) {
			s += fmt.Sprintf("[Go.Ordered %s] ", n)
		}
	}
	return s
}

// isOrderedParam: a type parameter constrained by constraints.Ordered / cmp.Ordered — its `<` is the class Go.Ordered.
func isOrderedParam(ty types.Type) bool {
	tp, ok := types.Unalias(ty).(*types.TypeParam)
	if !ok {
		return false
	}
	n, ok := types.Unalias(tp.Constraint()).(*types.Named)
	if !ok || n.Obj().Pkg() == nil || n.Obj().Name() != "Ordered" {
		return false
	}
	p := n.Obj().Pkg().Path()
	return p == "golang.org/x/exp/constraints" || p == "cmp"
}

func basicKind(ty types.Type) types.BasicKind {
	if b, ok := ty.Underlying().(*types.Basic); ok {
		return b.Kind()
	}
	return types.Invalid
}

// uint, uint64 (uint is 64 bits: the constant bits.UintSize of the type-checked source says so) → UInt64
func isU64(ty types.Type) bool { k := basicKind(ty); return k == types.Uint || k == types.Uint64 }

// byte, uint8 → UInt8
func isU8(ty types.Type) bool       { return basicKind(ty) == types.Uint8 }
func isUnsigned(ty types.Type) bool { return isU64(ty) || isU8(ty) }
func isString(ty types.Type) bool {
	k := basicKind(ty)
	return k == types.String || k == types.UntypedString
}

// derivable: values of type ty have Repr / DecidableEq instances in the generated file (a generated structure has them
// only if it has no type parameters, no function-typed fields and all its fields are derivable).
func (t *translator) derivable(ty types.Type) bool {
	switch u := types.Unalias(ty).(type) {
	case *types.Pointer:
		return t.derivable(u.Elem())
	case *types.Slice:
		return t.derivable(u.Elem())
	case *types.Signature, *types.TypeParam:
		return false
	case *types.Named:
		if _, isFn := u.Underlying().(*types.Signature); isFn {
			return false
		}
		if st, ok := u.Underlying().(*types.Struct); ok {
			if u.Origin().TypeParams().Len() > 0 {
				return false
			}
			for i := 0; i < st.NumFields(); i++ {
				if !t.derivable(st.Field(i).Type()) {
					return false
				}
			}
		}
	}
	return true
}

func (t *translator) emitStruct(n *types.Named) string {
	st := n.Underlying().(*types.Struct)
	var b strings.Builder
	head := "structure " + n.Obj().Name()
	plain := n.TypeParams().Len() == 0
	for i := 0; i < n.TypeParams().Len(); i++ {
		head += fmt.Sprintf(" (%s : Type)", n.TypeParams().At(i).Obj().Name())
	}
	where := ""
	if n.Obj().Pkg() != t.pkg {
		where = " of package " + n.Obj().Pkg().Name() + " (an immutable record here)"
		if t.mutRec[n] {
			where = " of package " + n.Obj().Pkg().Name() + " (a mutable record here: each one is owned by the slice slot it was stored into)"
		}
	}
	fmt.Fprintf(&b, "/-- `type %s struct`%s -/\n%s where\n", n.Obj().Name(), where, head)
	for i := 0; i < st.NumFields(); i++ {
		ft := t.leanType(st.Field(i).Type(), nil)
		if strings.Contains(ft, "→") || !t.derivable(st.Field(i).Type()) {
			plain = false
		}
		fmt.Fprintf(&b, "  %s : %s\n", varName(st.Field(i)), ft)
	}
	if plain {
		b.WriteString("  deriving Repr, DecidableEq\n")
	}
	b.WriteString("\n")
	return b.String()
}
