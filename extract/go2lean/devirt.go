package main

// Devirtualisation: a mechanical rewriting of the parsed source, BEFORE it is type-checked for translation, that
// turns dynamic dispatch through an interface of the package into static calls where the dynamic type is known.
// The translator then translates the rewritten functions; the generated header says which rewritings were applied.
//
//  1. Result types (no assumption).  A method of a struct S of the package whose declared result is an interface and
//     whose every `return` gives a value of static type *S (the receiver's type: a `&S{…}` literal, a local that
//     holds one, the result of such a method) is declared to return *S.  At run time nothing changes: a method
//     call on that result dispatches to S's method either way.  Iterated to a fixpoint (SelectMatch returns what
//     CloneEmpty returned).
//  2. Parameter types (ASSUMPTION, option -self I).  In a method of S, a parameter of the interface type I[…]
//     (or `...I[…]`), instantiated with the receiver's own type parameters, is declared *S[…]: the translation
//     covers the calls whose arguments have the receiver's dynamic type — `a.Equal(b)` for two sets of the same
//     implementation.  Such parameters are only read (the translator refuses a modified struct parameter).
//  3. Iterators (no assumption).  `for m := range x.All()` where x has static type *S and S.All is, literally,
//     `return func(yield func(T) bool) { for _, m := range s.F { if !yield(m) { return } } }` is rewritten to
//     `for _, m := range x.F`: by the definition of range-over-func, the loop body IS the yield function, `break`
//     and `return` in it make yield return false, on which this iterator returns.
//
// Type errors that the rewriting causes inside functions that are NOT translated (-skip) are ignored (a constructor
// that returns *S as the interface S no longer implements); inside translated functions they are fatal as before.

import (
	"go/ast"
	"go/token"
	"go/types"
)

type devirt struct {
	files   []*ast.File
	self    map[string]bool // interface names of -self
	applied []string        // what was rewritten, for the generated header
}

func (d *devirt) note(s string) {
	for _, a := range d.applied {
		if a == s {
			return
		}
	}
	d.applied = append(d.applied, s)
}

// methods of own structs, by receiver type name
func (d *devirt) methods() map[string]map[string]*ast.FuncDecl {
	out := map[string]map[string]*ast.FuncDecl{}
	for _, f := range d.files {
		for _, dcl := range f.Decls {
			fd, ok := dcl.(*ast.FuncDecl)
			if !ok || fd.Recv == nil || fd.Body == nil {
				continue
			}
			r := recvTypeName(fd)
			if out[r] == nil {
				out[r] = map[string]*ast.FuncDecl{}
			}
			out[r][fd.Name.Name] = fd
		}
	}
	return out
}

// recvTypeArgs: the names of the receiver's type parameters (`func (s *set[T])` → [T]).
func recvTypeArgs(fd *ast.FuncDecl) []string {
	e := fd.Recv.List[0].Type
	if st, ok := e.(*ast.StarExpr); ok {
		e = st.X
	}
	var args []ast.Expr
	switch x := e.(type) {
	case *ast.IndexExpr:
		args = []ast.Expr{x.Index}
	case *ast.IndexListExpr:
		args = x.Indices
	}
	var out []string
	for _, a := range args {
		if id, ok := a.(*ast.Ident); ok {
			out = append(out, id.Name)
		} else {
			return nil
		}
	}
	return out
}

// recvTypeExpr: a fresh copy of the receiver's type expression, always as a pointer (`*set[T]`).
func recvTypeExpr(fd *ast.FuncDecl) ast.Expr {
	var cp func(e ast.Expr) ast.Expr
	cp = func(e ast.Expr) ast.Expr {
		switch x := e.(type) {
		case *ast.StarExpr:
			return &ast.StarExpr{X: cp(x.X)}
		case *ast.IndexExpr:
			return &ast.IndexExpr{X: cp(x.X), Index: cp(x.Index)}
		case *ast.IndexListExpr:
			var is []ast.Expr
			for _, i := range x.Indices {
				is = append(is, cp(i))
			}
			return &ast.IndexListExpr{X: cp(x.X), Indices: is}
		case *ast.Ident:
			return ast.NewIdent(x.Name)
		}
		return e
	}
	e := cp(fd.Recv.List[0].Type)
	if _, isPtr := e.(*ast.StarExpr); !isPtr {
		e = &ast.StarExpr{X: e}
	}
	return e
}

// isSelfIface: the type expression I[T…] for an interface I of -self instantiated with exactly the receiver's type
// parameters (or I alone when the receiver has none).
func (d *devirt) isSelfIface(e ast.Expr, targs []string) bool {
	var name string
	var args []ast.Expr
	switch x := e.(type) {
	case *ast.Ident:
		name = x.Name
	case *ast.IndexExpr:
		if id, ok := x.X.(*ast.Ident); ok {
			name, args = id.Name, []ast.Expr{x.Index}
		}
	case *ast.IndexListExpr:
		if id, ok := x.X.(*ast.Ident); ok {
			name, args = id.Name, x.Indices
		}
	}
	if !d.self[name] || len(args) != len(targs) {
		return false
	}
	for i, a := range args {
		if id, ok := a.(*ast.Ident); !ok || id.Name != targs[i] {
			return false
		}
	}
	return true
}

// params applies rewriting 2 (purely syntactic; once).
func (d *devirt) params() {
	for _, ms := range d.methods() {
		for _, fd := range ms {
			targs := recvTypeArgs(fd)
			for _, p := range fd.Type.Params.List {
				switch x := p.Type.(type) {
				case *ast.Ellipsis:
					if d.isSelfIface(x.Elt, targs) {
						d.note("parameters of interface type " + ifaceName(p.Type) + " of the methods of " + recvTypeName(fd) + " are taken to hold a *" + recvTypeName(fd) + " (-self)")
						x.Elt = recvTypeExpr(fd)
					}
				default:
					if d.isSelfIface(p.Type, targs) {
						d.note("parameters of interface type " + ifaceName(p.Type) + " of the methods of " + recvTypeName(fd) + " are taken to hold a *" + recvTypeName(fd) + " (-self)")
						p.Type = recvTypeExpr(fd)
					}
				}
			}
		}
	}
}

func ifaceName(e ast.Expr) string {
	for {
		switch x := e.(type) {
		case *ast.Ellipsis:
			e = x.Elt
		case *ast.IndexExpr:
			e = x.X
		case *ast.IndexListExpr:
			e = x.X
		case *ast.Ident:
			return x.Name
		default:
			return "?"
		}
	}
}

// ownPtr: ty is *S[…] for the struct S named recv of package pkg.
func ownPtr(ty types.Type, pkg *types.Package, recv string) bool {
	p, ok := types.Unalias(ty).(*types.Pointer)
	if !ok {
		return false
	}
	n, ok := types.Unalias(p.Elem()).(*types.Named)
	return ok && n.Obj().Pkg() == pkg && n.Obj().Name() == recv
}

// results applies rewriting 1 once, given the types of the current source; reports whether anything changed.
func (d *devirt) results(info *types.Info, pkg *types.Package) bool {
	changed := false
	for recv, ms := range d.methods() {
		for _, fd := range ms {
			if fd.Type.Results == nil {
				continue
			}
			idx := 0
			for _, fld := range fd.Type.Results.List {
				n := len(fld.Names)
				if n == 0 {
					n = 1
				}
				tv, ok := info.Types[fld.Type]
				isIface := false
				if ok && tv.Type != nil {
					if _, tp := types.Unalias(tv.Type).(*types.TypeParam); !tp {
						_, isIface = tv.Type.Underlying().(*types.Interface)
					}
				}
				if isIface && n == 1 {
					all, any := true, false
					i := idx
					ast.Inspect(fd.Body, func(x ast.Node) bool {
						switch r := x.(type) {
						case *ast.FuncLit:
							return false
						case *ast.ReturnStmt:
							if i >= len(r.Results) {
								all = false
								return true
							}
							any = true
							if rt, ok := info.Types[r.Results[i]]; !ok || !ownPtr(rt.Type, pkg, recv) {
								all = false
							}
						}
						return true
					})
					if all && any {
						fld.Type = recvTypeExpr(fd)
						changed = true
						d.note("results of " + recv + " methods declared as an interface but always a *" + recv + " are declared *" + recv)
					}
				}
				idx += n
			}
		}
	}
	return changed
}

// canonicalIter: the field F if fd is `func (s *S) All() iter.Seq[T] { return func(yield …) { for _, m := range s.F
// { if !yield(m) { return } } } }`, else "".
func canonicalIter(fd *ast.FuncDecl) string {
	if fd.Recv == nil || len(fd.Recv.List[0].Names) != 1 || len(fd.Body.List) != 1 || fd.Type.Params.NumFields() != 0 {
		return ""
	}
	recv := fd.Recv.List[0].Names[0].Name
	ret, ok := fd.Body.List[0].(*ast.ReturnStmt)
	if !ok || len(ret.Results) != 1 {
		return ""
	}
	lit, ok := ret.Results[0].(*ast.FuncLit)
	if !ok || lit.Type.Params.NumFields() != 1 || len(lit.Type.Params.List[0].Names) != 1 || len(lit.Body.List) != 1 {
		return ""
	}
	yield := lit.Type.Params.List[0].Names[0].Name
	rng, ok := lit.Body.List[0].(*ast.RangeStmt)
	if !ok || rng.Tok != token.DEFINE || rng.Value == nil || len(rng.Body.List) != 1 {
		return ""
	}
	if k, ok := rng.Key.(*ast.Ident); !ok || k.Name != "_" {
		return ""
	}
	m, ok := rng.Value.(*ast.Ident)
	sel, ok2 := rng.X.(*ast.SelectorExpr)
	if !ok || !ok2 {
		return ""
	}
	if x, ok := sel.X.(*ast.Ident); !ok || x.Name != recv {
		return ""
	}
	ifs, ok := rng.Body.List[0].(*ast.IfStmt)
	if !ok || ifs.Init != nil || ifs.Else != nil || len(ifs.Body.List) != 1 {
		return ""
	}
	if r, ok := ifs.Body.List[0].(*ast.ReturnStmt); !ok || len(r.Results) != 0 {
		return ""
	}
	not, ok := ifs.Cond.(*ast.UnaryExpr)
	if !ok || not.Op != token.NOT {
		return ""
	}
	call, ok := not.X.(*ast.CallExpr)
	if !ok || len(call.Args) != 1 {
		return ""
	}
	f, ok1 := call.Fun.(*ast.Ident)
	a, ok2 := call.Args[0].(*ast.Ident)
	if !ok1 || !ok2 || f.Name != yield || a.Name != m.Name || m.Name == recv || m.Name == yield {
		return ""
	}
	return sel.Sel.Name
}

// iterators applies rewriting 3 once, given the types of the current source; reports whether anything changed.
func (d *devirt) iterators(info *types.Info, pkg *types.Package) bool {
	ms := d.methods()
	changed := false
	for _, f := range d.files {
		ast.Inspect(f, func(n ast.Node) bool {
			rng, ok := n.(*ast.RangeStmt)
			if !ok || rng.Tok != token.DEFINE || rng.Value != nil || rng.Key == nil {
				return true
			}
			call, ok := rng.X.(*ast.CallExpr)
			if !ok || len(call.Args) != 0 {
				return true
			}
			sel, ok := call.Fun.(*ast.SelectorExpr)
			if !ok {
				return true
			}
			x, ok := sel.X.(*ast.Ident)
			if !ok {
				return true
			}
			tv, ok := info.Types[sel.X]
			if !ok {
				return true
			}
			for recv, m := range ms {
				if fd := m[sel.Sel.Name]; fd != nil && ownPtr(tv.Type, pkg, recv) {
					if fld := canonicalIter(fd); fld != "" {
						rng.Value = rng.Key
						rng.Key = ast.NewIdent("_")
						rng.X = &ast.SelectorExpr{X: ast.NewIdent(x.Name), Sel: ast.NewIdent(fld)}
						changed = true
						d.note("`for m := range x." + sel.Sel.Name + "()` over the iterator of " + recv + " (which ranges over its field " + fld + " and stops when yield returns false) is `for _, m := range x." + fld + "`")
					}
				}
			}
			return true
		})
	}
	return changed
}
